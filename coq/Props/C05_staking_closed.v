(** farm-staking as ONE closed model (Model/StakingFull.v = Model/StakingPos.v composed with the boosted-yields module as
    farm-staking hosts it, Model/BoostedHosts.v on Model/Boosted.v on Model/Weekly.v): the theorems only the composition
    can carry.  Statements only; proofs in Proofs/StakingFullProofs.v.
    (This file continues Props/C05.v: the C05 theorems of the closed staking model; the others are in
    Props/C11_staking_closed.v and Props/C12_closed.v.)

    Vocabulary:
      [sfull_step s op = Ok (s', out)]  one successful farm-staking endpoint call on the closed state [s] = (staking farm,
            module, block): the boosted payout, the user's position, the accrual of the settlement (capacity- and APR-bounded:
            [sem s]) and the supply are COMPUTED; the only inputs are the caller's arguments, the energy factory's stored
            entry of the user whose rewards are settled ([raw]) and the clock ([SXTime]);
      [pop_of s op b] / [hop_of s op supply posa]  the Model/StakingPos.v operation (with boosted payout [b]) and the
            Model/BoostedHosts.v operation (with the host-level facts) the endpoint consists of; [sbop_of] = the dex/farm
            operation with the same module-level facts ([base_of]: the same state transformer);
      [so_b out]  the boosted payout the module computed = what the staking half paid; [so_p], [so_m] the halves' outputs;
      [sxreach dsc apr minub blk epoch ops]  the state after ANY list of operations from deployment (failed calls revert);
      [sxgreach ...]  the same with the ghost of Proofs/FarmFullProofs.v: the module's ledger [xg_b] (per week: [gcuts] =
            slices booked, [gpaid] = boosted payments made, the accepted factor settings) and, per week, [uE] / [uF] = the sums
            of the energies / positions the settlements of that week were computed with;
      [sxvalid op]  account ids in range; [sxsep op]  additionally the proxy keeps its positions to itself (as
            farm-staking-proxy does) — only then the virtual principal is what the proxy holds ([VirtInv]);
      [sguards s op]  the documented guards of a user endpoint: contract active, caller authorised, amounts positive, the
            caller holds what he pays in (claimBoostedRewards: the user has a position) — nothing about the boosted payout. *)
From MX Require Import Base.Prelude Gen.Params Model.Weekly Model.Boosted Model.BoostedHosts Model.Staking Model.StakingPos Model.StakingFull.
From MX Require Import Proofs.FarmInv Proofs.StakingProofs Proofs.StakingPosProofs.
From MX Require Import Proofs.WeeklyProofs Proofs.BoostedProofs Proofs.BoostedHostsProofs Proofs.FarmFullProofs Proofs.StakingFullProofs.

Local Notation utot := StakingPos.utot.

(** ------------------------------------------------------------------ 1. projection and refinement *)
(** Every successful closed step IS a successful step of the staking model with the computed boosted payout and a
    successful step of the hosted module with the computed host-level facts; the payout the module reports is the one the
    staking farm paid. *)
Theorem C05_staking_closed_step_projects : forall s op s' out, sfull_step s op = Ok (s', out) ->
  sclock_of s op = Ok (sx_blk s') /\
  (match pop_of s op (so_b out) with
   | Some po => pstep (sx_p s) po = Ok (sx_p s', so_p out)
   | None => sx_p s' = sx_p s /\ so_p out = []
   end) /\
  (match hop_of s op (s_supply (p_s (sx_p s'))) (utot (sx_p s') (user_of op)) with
   | Some ho => hstep (sx_b s) ho = Ok (sx_b s', so_m out) /\ o_b (so_m out) = so_b out
   | None => sx_b s' = sx_b s /\ so_m out = out0 /\ so_b out = 0
   end).
Proof.
  intros s op s' out H. destruct (sfull_step_proj _ _ _ _ H) as (Hc & _).
  split; [exact Hc|]. split; [apply (sfull_step_staking _ _ _ _ H) | apply (sfull_step_host _ _ _ _ H)].
Qed.
Print Assumptions C05_staking_closed_step_projects.

(** [sfull_run] refines [prun]: the staking half of any closed history is a history of Model/StakingPos.v (with the
    operation list [pops] the closed run itself produces, valid / proxy-separated when the closed operations are). *)
Theorem C05_staking_closed_refines_staking : forall ops s,
  sx_p (sfull_run s ops) = prun (sx_p s) (pops s ops) /\
  (Forall sxvalid ops -> Forall pvalid_op (pops s ops)) /\ (Forall sxsep ops -> Forall sep_op (pops s ops)).
Proof. intros ops s. split; [apply sfull_run_staking|]. split; [apply pops_valid | apply pops_sep]. Qed.
Print Assumptions C05_staking_closed_refines_staking.

(** ... so every reachable closed state has a reachable state of Model/StakingPos.v as its staking half: every
    C05_staking_*, C06_staking_*, C07_staking_* theorem of Props/C05.v, C06.v, C07.v stated on [preach] (or on any state
    with [Inv]) applies to it as it stands ... *)
Theorem C05_staking_closed_transfer : forall dsc apr minub blk epoch ops,
  sx_p (sxreach dsc apr minub blk epoch ops) = preach dsc apr minub (pops (init_sx dsc apr minub blk epoch) ops).
Proof. exact closed_staking_reach. Qed.
Print Assumptions C05_staking_closed_transfer.

(** ... in particular the invariant of the position-level model (C12's capacity / balance identity, supply = positions held,
    reserve = accrued - paid, solvency, owner totals), and with the proxy separated the virtual-principal identity *)
Theorem C05_staking_closed_reach : forall dsc apr minub blk epoch ops, 0 < dsc -> 0 < apr ->
  (Forall sxvalid ops -> Inv (sx_p (sxreach dsc apr minub blk epoch ops))) /\
  (Forall sxsep ops -> Inv (sx_p (sxreach dsc apr minub blk epoch ops)) /\ VirtInv (sx_p (sxreach dsc apr minub blk epoch ops))).
Proof. intros. split; [apply closed_staking_inv | apply closed_staking_sep]; assumption. Qed.
Print Assumptions C05_staking_closed_reach.

(** all of it at once, with the ghost of the closed run: Inv, BInv, the link invariant and the no-underflow invariant hold
    in every reachable state *)
Theorem C05_C11_staking_closed_invariant : forall dsc apr minub blk epoch ops, 0 < dsc -> 0 < apr -> Forall sxvalid ops ->
  let sg := sxgreach dsc apr minub blk epoch ops in
  fst sg = sxreach dsc apr minub blk epoch ops /\ SXInv (fst sg) (snd sg).
Proof. intros. split; [apply sxgreach_state | apply reach_sxinv; assumption]. Qed.
Print Assumptions C05_C11_staking_closed_invariant.

(** ------------------------------------------------------------------ 2. the link invariant *)
(** In every reachable state the staking farm's aggregate of "boosted share accrued and not yet paid" is exactly the
    module's books: the sum over the weeks of accumulated + remaining, plus undistributed (collectUndistributedBoostedRewards
    only moves a week's leftover into undistributed: nothing leaves the contract); the two percentage fields agree; the
    staking farm's "factors configured" flag is the presence of the module's config.  The storage maps have unique keys, so
    [asum] is the sum over weeks. *)
Theorem C05_staking_link_invariant : forall dsc apr minub blk epoch ops, 0 < dsc -> 0 < apr -> Forall sxvalid ops ->
  let s := sxreach dsc apr minub blk epoch ops in
  let h := b_h (sx_b s) in
  s_pool (p_s (sx_p s)) = asum (bh_acc h) + asum (bh_rem h) + bh_und h /\
  NoDup (akeys (bh_acc h)) /\ NoDup (akeys (bh_rem h)) /\
  (forall w, 0 <= aget (bh_acc h) w /\ 0 <= aget (bh_rem h) w) /\ 0 <= bh_und h /\
  s_pct (p_s (sx_p s)) = bh_pct h /\
  (s_factors (p_s (sx_p s)) = true <-> bh_cfg h <> None).
Proof.
  intros dsc apr minub blk epoch ops Hd Ha V s h. pose proof (reach_sxinv dsc apr minub blk epoch ops Hd Ha V) as X.
  rewrite sxgreach_state in X. fold s in X. destruct X as [_ Hi (L1 & L2 & L3) _].
  destruct Hi as (_ & _ & _ & _ & HM & _). destruct (m_nd _ _ _ _ HM) as (N1 & N2).
  split; [exact L1|]. split; [exact N1|]. split; [exact N2|]. split; [intros w; apply (m_nn _ _ _ _ HM w)|].
  split; [apply (m_und _ _ _ _ HM)|]. split; [exact L2 | exact L3].
Qed.
Print Assumptions C05_staking_link_invariant.

(** Per operation: the slice the module books ([o_cut]) is exactly the cut the staking farm takes out of this settlement's
    accrual [sem s] = min(min(rate * blocks, APR bound * blocks), capacity - accumulated) (0 for operations that do not
    settle), and the staking farm's aggregate moves by that slice minus the payout. *)
Theorem C05_staking_link_step : forall s g op s' out,
  SLK s -> BoostedProofs.BInv (sx_b s) g -> (forall v, 0 <= utot (sx_p s) v) -> sfull_step s op = Ok (s', out) ->
  SLK s' /\
  o_cut (so_m out) = (if ssettles op then Staking.boosted_cut (p_s (sx_p s)) (sem s) else 0) /\
  s_pool (p_s (sx_p s')) = s_pool (p_s (sx_p s)) + o_cut (so_m out) - so_b out.
Proof. exact sfull_step_link. Qed.
Print Assumptions C05_staking_link_step.

(** C05's clause "the reserve covers all claimable base rewards plus all not-yet-claimed boosted-reward pools", now about
    the ACTUAL weekly pools: un-floored claimable base rewards (scaled by DSC) fit into reserve - (sum of the weekly pools +
    undistributed); so do the floored ones position by position; the pools alone are within the reserve; and the reserve is
    what accrued minus what was paid. *)
Theorem C05_staking_reserve_covers_weekly_pools : forall dsc apr minub blk epoch ops, 0 < dsc -> 0 < apr -> Forall sxvalid ops ->
  let s := sxreach dsc apr minub blk epoch ops in
  let sp := sx_p s in
  let pools := asum (bh_acc (b_h (sx_b s))) + asum (bh_rem (b_h (sx_b s))) + bh_und (b_h (sx_b s)) in
  sclaimable sp <= s_dsc (p_s sp) * (s_reserve (p_s sp) - pools) /\ 0 <= sclaimable sp /\
  sclaimable_floor sp + pools <= s_reserve (p_s sp) /\ 0 <= sclaimable_floor sp /\
  0 <= pools <= s_reserve (p_s sp) /\
  s_reserve (p_s sp) = s_acc (p_s sp) - p_paid sp.
Proof.
  intros dsc apr minub blk epoch ops Hd Ha V s sp pools. pose proof (reach_sxinv dsc apr minub blk epoch ops Hd Ha V) as X.
  rewrite sxgreach_state in X. fold s in X. destruct X as [I _ (L1 & _) _]. fold sp in I, L1.
  pose proof (floor_solvency sp I) as [F1 F2]. pose proof (pool_le_reserve sp I). pose proof (sclaimable_nonneg sp I).
  pose proof (i_solv _ I). unfold pools. unfold msum in L1. rewrite <- L1.
  split; [assumption|]. split; [assumption|]. split; [lia|]. split; [assumption|]. split; [assumption | apply (i_acc _ I)].
Qed.
Print Assumptions C05_staking_reserve_covers_weekly_pools.

(** What the module pays in an operation is non-negative and within the staking farm's aggregate pool as it stands BEFORE
    the operation's own slice is booked — exactly the hypothesis 0 <= b <= s_pool of C05_staking_d_no_spurious_failure's
    guards, now discharged for the COMPUTED payout: the pool and reserve debits of the staking half cannot fail on it. *)
Theorem C05_staking_boosted_payout_payable : forall dsc apr minub blk epoch ops bo b' out, 0 < dsc -> 0 < apr -> Forall sxvalid ops ->
  let s := fst (sxgreach dsc apr minub blk epoch ops) in
  Boosted.step (sx_b s) bo = Ok (b', out) -> (forall n, bo <> BAdvance n) -> 0 <= o_b out <= s_pool (p_s (sx_p s)).
Proof.
  intros dsc apr minub blk epoch ops bo b' out Hd Ha V s Hs Hna.
  apply (spayout_within_pool s (snd (sxgreach dsc apr minub blk epoch ops)) bo b' out); [apply reach_sxinv; assumption | exact Hs | exact Hna].
Qed.
Print Assumptions C05_staking_boosted_payout_payable.

(** ------------------------------------------------------------------ 3. C05's last clause on the closed model *)
(** With the boosted payout COMPUTED, a user endpoint (stakeFarm, stakeFarmThroughProxy, claimRewards,
    claimRewardsWithNewValue, compoundRewards, unstakeFarm, unstakeFarmThroughProxy, mergeFarmTokens, claimBoostedRewards)
    called in a reachable state — by anybody, for any original caller, with any payments and any well-formed stored energy
    entry — succeeds IF AND ONLY IF the documented guards hold.  No debit of the reserve, the pools, the balance, the supply,
    a user total, remaining(week), an energy bucket, the total energy or the total locked tokens, no division and no lookup
    can make a legitimate call fail.  (Composition of C05_staking_d_no_spurious_failure, whose guards ASSUME the payout is
    within the pools, with C11_staking_no_underflow_endpoint and C05_staking_boosted_payout_payable.) *)
Theorem C05_staking_closed_no_spurious_failure : forall dsc apr minub blk epoch ops op u, 0 < dsc -> 0 < apr -> Forall sxsep ops ->
  let s := fst (sxgreach dsc apr minub blk epoch ops) in
  sxvalid op -> sclaim_user op = Some u -> sraw_ok op ->
  ((exists r, sfull_step s op = Ok r) <-> sguards s op).
Proof.
  intros dsc apr minub blk epoch ops op u Hd Ha V s Vo Hcu Hraw.
  destruct (reach_sxinv_sep dsc apr minub blk epoch ops Hd Ha V) as (X & VI).
  apply (sclosed_user_total s (snd (sxgreach dsc apr minub blk epoch ops)) op u X VI Vo Hcu Hraw).
Qed.
Print Assumptions C05_staking_closed_no_spurious_failure.

(** the guards, spelled out per endpoint ([auth c u]: the caller is the original caller or the whitelisted proxy;
    [held sp n c]: amount of position nonce n the caller holds; [pay_all]: every payment is positive and held, also
    cumulatively when a nonce is paid twice) *)
Theorem C05_staking_closed_guards : forall s op,
  sguards s op <->
  Staking.active (p_s (sx_p s)) = true /\
  (let sp := sx_p s in
  match op with
  | SXStake c u amt adds _ => StakingPos.auth c u = true /\ 0 < amt /\ is_ok (StakingPos.pay_all sp c adds) = true
  | SXStakeProxy c u amt adds _ => StakingPos.whitelisted c = true /\ 0 < amt /\ is_ok (StakingPos.pay_all sp c adds) = true
  | SXClaim c u p _ => StakingPos.auth c u = true /\ 0 < snd p <= StakingPos.held sp (fst p) c
  | SXClaimNewValue c u p newv _ => StakingPos.whitelisted c = true /\ 0 <= newv /\ 0 < snd p <= StakingPos.held sp (fst p) c
  | SXCompound c first adds _ => is_ok (StakingPos.pay_all sp c (first :: adds)) = true
  | SXUnstake c u p _ => StakingPos.auth c u = true /\ 0 < snd p <= StakingPos.held sp (fst p) c
  | SXUnstakeProxy c u p t _ => StakingPos.whitelisted c = true /\ 0 < t /\ 0 < snd p <= StakingPos.held sp (fst p) c
  | SXMerge c ps _ => ps <> [] /\ is_ok (StakingPos.pay_all sp c ps) = true
  | SXClaimBoosted c _ => utot sp c <> 0
  | _ => False
  end).
Proof. intros s op. destruct op; unfold sguards, pguards; cbn [pop_of]; cbv zeta; tauto. Qed.
Print Assumptions C05_staking_closed_guards.

(** ... and a failing user endpoint fails in its staking half (Model/StakingPos.v's endpoint, run with the payout the module
    computed, which the pools cover); the boosted half never does. *)
Theorem C05_staking_user_step_fails_only_in_staking_half : forall dsc apr minub blk epoch ops op u e, 0 < dsc -> 0 < apr -> Forall sxvalid ops ->
  let s := fst (sxgreach dsc apr minub blk epoch ops) in
  sxvalid op -> sclaim_user op = Some u -> sraw_ok op ->
  (forall c raw, op = SXClaimBoosted c raw -> utot (sx_p s) c <> 0) ->
  sfull_step s op = Err e ->
  exists b1 o1 po e', run_h (sx_b s) (hop_of s op 0 0) = Ok (b1, o1) /\ pop_of s op (o_b o1) = Some po /\
                      pstep (sx_p s) po = Err e' /\ 0 <= o_b o1 <= s_pool (p_s (sx_p s)).
Proof.
  intros dsc apr minub blk epoch ops op u e Hd Ha V s Vo Hcu Hraw Hcb H.
  apply (suser_step_fails_in_staking_half s (snd (sxgreach dsc apr minub blk epoch ops)) op u e); try assumption. apply reach_sxinv; assumption.
Qed.
Print Assumptions C05_staking_user_step_fails_only_in_staking_half.

(** ------------------------------------------------------------------ non-vacuity *)
(** max APR never binding, capacity 1e9, 25 % boosted share, factors (2,3,2,1,1); user 1 stakes 100 and the proxy stakes 300
    (virtual) for user 2 in week 1 (pool 500 booked by the settlement of the second stake); in week 2 user 1 settles
    (250 = min(2*500*100/400, (1050+250)/5); the settlement books 1250), hands 40 of his position to user 3, who compounds it
    (no energy: boosted 0, base reward joins the principal); the proxy claims for user 2 with a new value of 350: user 2's
    boosted part 240 is computed with his position 300; user 1 unstakes the rest; six weeks later the admin sweeps the
    leftover 10 and the never-claimed 1250 of week 2.  Every call succeeds; the staking farm's aggregate equals the module's
    books throughout. *)
Definition sf_example : list sxop :=
  [SXSetRate 100 1000; SXSetState 100 1; SXTopUp 100 1000000000; SXStart 100; SXSetPct 100 2500; SXSetFactors 100 (mkFac 2 3 2 1 1);
   SXStake 1 1 100 [] (Some (mkEn 7000 5 10)); SXTime 2 0; SXStakeProxy 50 2 300 [] (Some (mkEn 3000 5 10));
   SXTime 5 7;
   SXClaimBoosted 1 (Some (mkEn 7000 5 10));
   SXTransfer 1 1 3 40;
   SXCompound 3 (1, 40) [] None;
   SXClaimNewValue 50 2 (2, 300) 350 (Some (mkEn 3000 5 10));
   SXUnstake 1 1 (1, 60) (Some (mkEn 7000 5 10));
   SXTime 1 42; SXCollect 100].

Definition sf_outs (s : sxstate) (ops : list sxop) : list (Z * Z) :=
  snd (fold_left (fun (acc : sxstate * list (Z * Z)) op =>
                    match sfull_step (fst acc) op with
                    | Ok (s', o) => (s', snd acc ++ [(so_b o, o_cut (so_m o))])
                    | Err _ => (fst acc, snd acc ++ [(-1, -1)])
                    end) ops (s, [])).

Example StakingFull_nonvacuous :
  let sg := sxgreach 1000000 1000000000000 3 10 5 sf_example in let s := fst sg in let g := snd sg in
  sf_outs (init_sx 1000000 1000000000000 3 10 5) sf_example =
    [(0, 0); (0, 0); (0, 0); (0, 0); (0, 0); (0, 0); (0, 0); (0, 0); (0, 500); (0, 0); (250, 1250); (0, 0); (0, 0); (240, 0);
     (0, 0); (0, 0); (0, 0)] /\
  gcuts (xg_b g) 1 = 500 /\ gpaid (xg_b g) 1 = 490 /\ uF g 1 = 400 /\ Fw (sx_b s) 1 = 400 /\
  s_pool (p_s (sx_p s)) = 1260 /\ bh_und (b_h (sx_b s)) = 1260 /\ s_supply (p_s (sx_p s)) = 1365 /\ s_virt (p_s (sx_p s)) = 350 /\
  s_acc (p_s (sx_p s)) = 7000 /\ s_reserve (p_s (sx_p s)) = 1261.
Proof. vm_compute. repeat split. Qed.
