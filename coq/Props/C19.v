(** C19 — Only authorised callers configure or act for others; paused means no fund moves.

    Table layer: statements quantified over EVERY row of the access table (648 rows: every function
    the Rust sources of the 16 contracts export, plus the "acting for another user" argument
    variants and the multi-payment on-behalf variants with a foreign-owner payment at each position), every caller role and every contract state of the row's contract (13230 cells) — the
    domain is finite, the proofs evaluate the rule on all of it.  [C19_inventory_covered] ties the
    table to the generated inventory Gen/Endpoints.v (563 functions).
    Semantic layer: the guard primitives for ALL callers, the permissions / pausable modules and the
    permissions hub for ALL histories, the pause rules of the pair and farm models (the models the
    C01-C07 correspondence runs tie to the real contracts) for ALL states and arguments.
    The tie of the table to the real contracts is the executed matrix (tools/sys_access.py +
    Run/AccessRun.v). *)
From Coq Require Import ZArith List Bool String.
From MX Require Import Base.Prelude Gen.Params Gen.Endpoints Model.Pair Model.Farm Model.Access Proofs.AccessProofs.
Import ListNotations.
Open Scope Z_scope.

(** ---- clause 1: configuration and admin endpoints succeed only for callers holding the required role *)

(** every configuration row, every role, every state: if the call is allowed, the caller is not a
    plain user / agent and holds what the row demands — the chain owner for #[only_owner] rows, a flag
    of the demanded set (owner / admin / pauser; for pairs the router holds OWNER|PAUSE) otherwise *)
Theorem C19_config_needs_role : forall r ro st,
  In r access_table -> In ro (roles_of (row_contract r)) -> In st (states_of (row_contract r)) ->
  c_kind (row_class r) = KConfig -> row_allowed r ro st = true ->
  unprivileged ro = false /\
  match c_guard (row_class r) with
  | GOnlyOwner | GOwnerOrOpen => ro = ROwner
  | GPerm m => intersects (perms (row_contract r) ro) m = true
  | _ => False
  end.
Proof. exact config_needs_role. Qed.
Print Assumptions C19_config_needs_role.

(** contract-to-contract entry points (whitelisted contract, unstake contract, old factory, known
    contract, energy factory) are allowed for the configured counterparty only *)
Theorem C19_contract_entries : forall r ro st,
  In r access_table -> In ro (roles_of (row_contract r)) -> In st (states_of (row_contract r)) ->
  c_kind (row_class r) = KContractEntry -> row_allowed r ro st = true -> exists p, ro = RParty p.
Proof. exact contract_entries_only_counterparties. Qed.
Print Assumptions C19_contract_entries.

(** require_caller_any_of(p) succeeds iff the caller's permission set and p share a flag — for all
    permission values (Permissions as bit sets) *)
Theorem C19_require_any_of : forall cp m, 0 <= cp -> 0 <= m ->
  (require_any_of cp m = Ok tt <-> exists i, 0 <= i /\ holds cp i /\ holds m i).
Proof. exact require_any_of_iff. Qed.
Print Assumptions C19_require_any_of.

Theorem C19_require_any_of_denied : forall cp m, 0 <= cp -> 0 <= m ->
  (require_any_of cp m = Err EPerm <-> forall i, 0 <= i -> holds cp i -> holds m i -> False).
Proof. exact require_any_of_denied. Qed.
Print Assumptions C19_require_any_of_denied.

(** permissions + pausable modules: an operation succeeds only for a caller holding its role ... *)
Theorem C19_permission_ops_authorised : forall s op s', pm_step s op = Ok s' -> pm_authorised s op.
Proof. exact pm_step_authorised. Qed.
Print Assumptions C19_permission_ops_authorised.

(** ... and along EVERY history in which no caller holds the OWNER flag or is the chain owner,
    nobody's permissions change (no caller can give itself or anybody a role) *)
Theorem C19_no_escalation : forall ops s,
  (forall op, In op ops -> ~ has_flag (pm_get s (pm_caller op)) PERM_OWNER /\ pm_caller op <> pm_chain_owner s) ->
  pm_perms (pm_run s ops) = pm_perms s.
Proof. exact pm_no_escalation. Qed.
Print Assumptions C19_no_escalation.

(** callers holding no flag can change neither permissions nor the pause state, over every history *)
Theorem C19_powerless_history : forall ops s,
  (forall op, In op ops -> pm_get s (pm_caller op) = 0 /\ pm_caller op <> pm_chain_owner s) ->
  pm_run s ops = s.
Proof. exact pm_powerless_history. Qed.
Print Assumptions C19_powerless_history.

(** ---- clause 2: acting on behalf of another user *)

(** every on-behalf row (optional original-caller argument, ...OnBehalf endpoints, external boosted
    claims): allowed only for a whitelisted contract or the authorised agent — never for the revoked
    or the blacklisted agent, a plain user, or an owner / admin *)
Theorem C19_on_behalf_rows : forall r ro st,
  In r access_table -> In ro (roles_of (row_contract r)) -> In st (states_of (row_contract r)) ->
  c_kind (row_class r) = KOnBehalf -> row_allowed r ro st = true ->
  ro = RParty PWhitelistedSC \/ ro = RAgentAuth.
Proof. exact on_behalf_only_authorised. Qed.
Print Assumptions C19_on_behalf_rows.

(** for ALL callers: acting for a user succeeds only for a whitelisted contract caller, or a caller
    the user listed in the hub and the hub has not blacklisted *)
Theorem C19_on_behalf_rule : forall p f,
  act_on_behalf p f = Ok tt ->
  cf_party f PWhitelistedSC = true \/ (cf_hub_listed f = true /\ cf_hub_black f = false).
Proof. exact act_on_behalf_sound. Qed.
Print Assumptions C19_on_behalf_rule.

Theorem C19_on_behalf_is_hub_view : forall h wl u c,
  act_on_behalf ViaOnBehalfEndpoint (hub_facts h wl u c) = Ok tt <-> is_whitelisted h u c = true.
Proof. exact on_behalf_hub_rule. Qed.
Print Assumptions C19_on_behalf_is_hub_view.

(** the authorisation is the user's own and explicit: over EVERY history of the hub, an agent is on
    a user's list only if it was there before or that user called whitelist(agent) itself *)
Theorem C19_only_user_authorises : forall ops h u a,
  pmem (u, a) (h_wl (hub_run h ops)) = true ->
  pmem (u, a) (h_wl h) = true \/ In (HWhitelist u a) ops.
Proof. exact hub_only_user_authorises. Qed.
Print Assumptions C19_only_user_authorises.

(** a revoked agent stays unauthorised until the user whitelists it again *)
Theorem C19_revoked_agent : forall h h' u a ops,
  hub_step h (HRemoveWhitelist u a) = Ok h' -> ~ In (HWhitelist u a) ops ->
  forall user_check, user_check = u -> is_whitelisted (hub_run h' ops) user_check a = false.
Proof. exact hub_revoked. Qed.
Print Assumptions C19_revoked_agent.

(** a blacklisted agent is authorised for nobody until the hub owner removes it from the blacklist *)
Theorem C19_blacklisted_agent : forall ops h a,
  zmem a (h_black h) = true -> ~ In (HRemoveBlacklist (h_owner h) a) ops ->
  forall u, is_whitelisted (hub_run h ops) u a = false.
Proof. exact hub_blacklisted. Qed.
Print Assumptions C19_blacklisted_agent.

(** rewards claimed on behalf go to the position owner: for every list of paid positions, a
    successful claim on behalf sends the whole reward to the common, non-zero original owner of all of
    them, and the caller is authorised by exactly that owner.  (On the real contracts the executed
    matrix compares the reward balance deltas of owner and caller for claimRewardsOnBehalf /
    claimDualYieldOnBehalf.) *)
Theorem C19_on_behalf_rewards_to_owner : forall h caller owners reward sends,
  claim_on_behalf h caller owners reward = Ok sends ->
  exists u, sends = [(u, reward)] /\ u <> 0 /\ owners <> [] /\ (forall o, In o owners -> o = u) /\
            is_whitelisted h u caller = true.
Proof. exact claim_on_behalf_to_owner. Qed.
Print Assumptions C19_on_behalf_rewards_to_owner.

(** on-behalf calls that pay several positions (enterFarmOnBehalf / stakeFarmOnBehalf with additional
    position tokens, claimRewardsOnBehalf with several positions, farm-staking-proxy stakeFarmOnBehalf
    with additional dual-yield tokens): a row with a payment recorded for ANOTHER owner at ANY position
    — main, first additional, second additional — is disallowed for every role in every state,
    whether that other owner authorised the caller too, revoked it, or never authorised it *)
Theorem C19_foreign_owner_payment_refused : forall r ro st k o,
  In r access_table -> In ro (roles_of (row_contract r)) -> In st (states_of (row_contract r)) ->
  row_variant r = VForeignOwner k o -> row_allowed r ro st = false.
Proof. exact foreign_owner_payment_refused. Qed.
Print Assumptions C19_foreign_owner_payment_refused.

(** the all-own control row (same three payments, all recorded for the user) is allowed for the
    authorised agent only *)
Theorem C19_multi_own_only_agent : forall r ro st,
  In r access_table -> In ro (roles_of (row_contract r)) -> In st (states_of (row_contract r)) ->
  row_variant r = VMultiOwn -> row_allowed r ro st = true -> ro = RAgentAuth.
Proof. exact multi_own_only_authorised_agent. Qed.
Print Assumptions C19_multi_own_only_agent.

(** those rows exist for every multi-payment on-behalf endpoint, every owner-carrying payment position
    and every relation of the other owner to the caller; their guards are [GHubOwned (payments_of v)];
    and every hub-guarded endpoint is in that list (or takes a single payment) *)
Theorem C19_multi_payment_rows_complete : forall c e ks k o,
  In (c, e, ks) multi_payment_on_behalf -> In k ks ->
  lookup c e VMultiOwn <> None /\ lookup c e (VForeignOwner k o) <> None.
Proof. exact multi_payment_rows_complete. Qed.
Print Assumptions C19_multi_payment_rows_complete.

Theorem C19_multi_rows_wellformed : forall r, In r access_table ->
  multi_row_wellformed r = true /\ hub_row_listed r = true.
Proof. intros r H. split; [exact (multi_rows_wellformed r H) | exact (hub_rows_listed r H)]. Qed.
Print Assumptions C19_multi_rows_wellformed.

(** the rule behind the rows, for ALL callers, hubs and owner lists: the guard passes iff every paid
    position is recorded for the user and the hub authorises the caller for that user ... *)
Theorem C19_hub_owned_guard : forall open l f,
  guard_ok open (GHubOwned l) f = true <->
  (forall t, In t l -> t = OUser) /\ cf_hub_listed f = true /\ cf_hub_black f = false.
Proof. exact guard_hub_owned_iff. Qed.
Print Assumptions C19_hub_owned_guard.

(** ... entering / staking on behalf with a position recorded for anybody but the user fails for every
    caller and EVERY hub state (the other owner's authorisations are never consulted) ... *)
Theorem C19_enter_on_behalf_foreign_refused : forall h caller user owners b,
  In b owners -> b <> user -> enter_on_behalf h caller user owners = Err EPerm.
Proof. exact enter_on_behalf_foreign_refused. Qed.
Print Assumptions C19_enter_on_behalf_foreign_refused.

Theorem C19_enter_on_behalf_sound : forall h caller user owners,
  enter_on_behalf h caller user owners = Ok tt ->
  is_whitelisted h user caller = true /\ forall o, In o owners -> o = user.
Proof. exact enter_on_behalf_sound. Qed.
Print Assumptions C19_enter_on_behalf_sound.

(** ... and so does a claim on behalf paying positions of two different owners (corollary of
    C19_on_behalf_rewards_to_owner) *)
Theorem C19_claim_mixed_owners_refused : forall h caller owners reward a b,
  In a owners -> In b owners -> a <> b -> is_ok (claim_on_behalf h caller owners reward) = false.
Proof. exact claim_on_behalf_mixed_owners_refused. Qed.
Print Assumptions C19_claim_mixed_owners_refused.

(** ---- clause 3: paused or inactive means no user operation that moves funds *)

(** every fund-moving row of pair / farm / farm-with-locked-rewards / farm-staking / energy-factory,
    every role, Inactive or Paused: not allowed — except the pair's bootstrap deposit by the
    configured adder in the never-activated pair *)
Theorem C19_paused_no_fund_moves : forall r ro st,
  In r access_table -> In ro (roles_of (row_contract r)) -> In st (states_of (row_contract r)) ->
  pausable_contract (row_contract r) = true -> moves_user_funds r = true ->
  st = Inactive \/ st = Paused -> row_allowed r ro st = true ->
  is_bootstrap r = true /\ st = Inactive /\ ro = RParty PAdder.
Proof. exact paused_no_fund_moves. Qed.
Print Assumptions C19_paused_no_fund_moves.

(** pair model, all states and arguments: in the Inactive state the only user operation that can
    succeed is the bootstrap deposit into an empty pool ... *)
Theorem C19_pair_inactive : forall p op r,
  p_state p = ST_Inactive -> pair_user_fund_op op = true -> Model.Pair.step p op = Ok r ->
  exists c a1 a2, op = AddInitial c a1 a2 /\ p_S p = 0.
Proof. exact pair_inactive_no_user_funds. Qed.
Print Assumptions C19_pair_inactive.

(** ... which needs an empty pool, an inactive pair and the configured adder: never a way around a pause *)
Theorem C19_bootstrap_only_empty : forall p c a1 a2 r,
  ep_add_initial p c a1 a2 = Ok r ->
  p_S p = 0 /\ Model.Pair.is_state_active (p_state p) = false /\
  match p_adder p with Some ad => c = ad | None => True end.
Proof. exact pair_bootstrap_needs_empty_pool. Qed.
Print Assumptions C19_bootstrap_only_empty.

(** farm model (shared base functions of farm / farm-with-locked-rewards / farm-staking), all states
    and arguments: not Active => enter / claim / compound / exit / merge / claimBoosted fail *)
Theorem C19_farm_not_active : forall f op,
  f_state f <> ST_Active -> farm_user_op op = true -> is_ok (fstep f op) = false.
Proof. exact farm_not_active_no_user_op. Qed.
Print Assumptions C19_farm_not_active.

(** ---- clause 4: a partially active pair accepts liquidity but no swaps *)
Theorem C19_partial_active : forall r ro,
  In r access_table -> In ro (roles_of CPair) -> row_contract r = CPair ->
  ((row_endpoint r = "addLiquidity" \/ row_endpoint r = "removeLiquidity")%string ->
     row_allowed r ro PartialActive = true) /\
  ((row_endpoint r = "swapTokensFixedInput" \/ row_endpoint r = "swapTokensFixedOutput"
    \/ row_endpoint r = "swapNoFeeAndForward")%string ->
     row_allowed r ro PartialActive = false).
Proof. exact partial_active_liquidity_not_swaps. Qed.
Print Assumptions C19_partial_active.

(** pair model: no swap of any kind unless Active, for all states and arguments *)
Theorem C19_pair_no_swaps_unless_active : forall p op,
  p_state p <> ST_Active -> pair_swap_op op = true -> is_ok (Model.Pair.step p op) = false.
Proof. exact pair_partial_active_no_swaps. Qed.
Print Assumptions C19_pair_no_swaps_unless_active.

(** ---- the table covers what exists *)
Theorem C19_inventory_covered : forall e, In e inventory -> exists cl, inv_row e = Some cl.
Proof. exact inventory_covered. Qed.
Print Assumptions C19_inventory_covered.

(** #[only_owner] in the source <-> GOnlyOwner in the table; init/upgrade <-> Lifecycle; views not payable *)
Theorem C19_attributes_agree : forall e, In e inventory -> attr_agrees e = true.
Proof. exact attributes_agree. Qed.
Print Assumptions C19_attributes_agree.

Theorem C19_lifecycle_never_called : forall r ro st,
  In r access_table -> In ro (roles_of (row_contract r)) -> In st (states_of (row_contract r)) ->
  c_kind (row_class r) = KLifecycle -> row_allowed r ro st = false.
Proof. exact lifecycle_never_called. Qed.
Print Assumptions C19_lifecycle_never_called.

(** the verdict of a cell is the rule of the primitives: guard on the caller's facts and state requirement *)
Theorem C19_allowed_iff : forall cl c ro st,
  allowed cl c ro st = true <->
  guard_ok pair_creation_open (c_guard cl) (facts_of c ro) = true /\ state_ok (c_sreq cl) st = true.
Proof. exact allowed_iff. Qed.
Print Assumptions C19_allowed_iff.

(** Non-vacuity: the quantifier domains are the stated sizes; a partially active pool (reached by
    the adder's bootstrap) accepts a deposit and a withdrawal and refuses a swap, and the same pool
    paused refuses all three; an authorised agent passes the hub rule, the revoked and the
    blacklisted one do not (a hub history: whitelist x3, removeWhitelist, blacklist). *)
Example C19_nonvacuous :
  table_rows = 648 /\ inventory_rows = 563 /\ table_cells = 13230 /\
  (let p := Model.Pair.run (init_pair 300 50 (Some 7)) [AddInitial 7 2000000 6000000] in
   p_state p = ST_PartialActive /\
   is_ok (Model.Pair.step p (Add 1 1000 3000 1 1)) = true /\
   is_ok (Model.Pair.step p (Remove 7 1000 1 1)) = true /\
   is_ok (Model.Pair.step p (SwapIn 1 1 1000 2 1)) = false /\
   (let q := Model.Pair.run p [SetState OWNER 1; SetState OWNER 0] in
    p_state q = ST_Inactive /\ 0 < p_S q /\
    is_ok (Model.Pair.step q (Add 1 1000 3000 1 1)) = false /\
    is_ok (Model.Pair.step q (Remove 7 1000 1 1)) = false /\
    is_ok (Model.Pair.step q (AddInitial 7 2000000 6000000)) = false)) /\
  (let h := hub_run (mkHub [] [] 100) [HWhitelist 1 4; HWhitelist 1 5; HWhitelist 1 6; HRemoveWhitelist 1 5; HBlacklist 100 6] in
   is_whitelisted h 1 4 = true /\ is_whitelisted h 1 5 = false /\ is_whitelisted h 1 6 = false /\
   is_whitelisted h 2 4 = false /\
   claim_on_behalf h 4 [1; 1] 500 = Ok [(1, 500)] /\ claim_on_behalf h 5 [1; 1] 500 = Err EPerm /\
   claim_on_behalf h 6 [1] 500 = Err EPerm /\ claim_on_behalf h 4 [1; 2] 500 = Err EGuard /\
   (let h2 := hub_run h [HWhitelist 2 4] in      (* user 2 authorises agent 4 as well: still refused *)
    enter_on_behalf h2 4 1 [1; 1; 1] = Ok tt /\ enter_on_behalf h2 4 1 [1; 2; 1] = Err EPerm /\
    enter_on_behalf h2 4 1 [2; 1; 1] = Err EPerm /\ enter_on_behalf h2 4 1 [1; 1; 2] = Err EPerm /\
    is_ok (claim_on_behalf h2 4 [1; 2; 1] 500) = false) /\
   allowed (OnBehalfMulti SActive) CFarm RAgentAuth Active = true /\
   allowed (ForeignOwner 1 OAlsoAuthorised SActive) CFarm RAgentAuth Active = false).
Proof. vm_compute. repeat split. Qed.
