(** C15 (continuation) — the CLOSED composition: farm-staking-proxy x farm-with-locked-rewards x farm-staking x pair x hub
    as ONE model (Model/MetaClosed.v), in which the answers the proxy gets from its callees are COMPUTED by the callee
    models (Model/FarmLocked.v over Model/Farm.v, Model/StakingPos.v over Model/Staking.v, Model/Pair.v) instead of being
    inputs.  Props/C15.v proves the clauses relative to the interface laws L1-L7; here the laws are DISCHARGED: every
    closed step is a MetaStaking step on lawful answers, so C15_backed / C15_parts / C15_unstake / C15_safe hold on every
    reachable closed state with NO law hypothesis, and the composition states what no single model can: the farm tokens
    the proxy holds in its own ledger ARE its holdings in the farms' ledgers, and the staking farm's virtual principal
    IS the sum of the staking amounts recorded in outstanding dual-yield tokens.

    What stays an INPUT (explicitly, with its law):
      - the pair's safe-price answer [spa] (and whether a price exists): Model/SafePrice.v (observation ring) and
        Model/Pair.v (reserves) have no common state; hypothesis [cwf] = law L6 (one payment per pool token) + non-negative
        amounts; L7 (the answer is C13's time-weighted average) is Props/C15.v [C15_safe_twap];
      - the boosted payouts of each farm call (inputs of Model/Farm.v / Model/StakingPos.v themselves; computed by
        Model/Boosted.v, closed in Model/FarmFull.v for dex/farm), guarded by the farms' own pool counters;
      - block nonce and epoch.
    The original-caller argument: Model/StakingPos.v has it; Model/Farm.v / FarmLocked.v do not - a farm call "by the
    proxy for user u" is the composition  transfer to u ; u's own call ; transfer of the new position back  (exact on the
    farm's state, as in Model/FarmBehalf.v; the receiver of the LOCKED rewards is named as the user directly).
    (4) is PARTIAL: proved per callee call (each call can fail only on a documented guard of the callee; the position
    guards are discharged by the composition), not as one end-to-end totality statement of the proxy endpoint: the pair's
    removeLiquidity has no totality theorem, the lock-option / unlock-epoch checks of the energy factory and the
    dual-yield holder's balance are guards of other contracts / of the caller.
    Vocabulary: [CI cs] the invariants of all component models; [Link cs] the cross-contract invariants;
    [cvalid op] callers are plain accounts (not the proxy / the LP farm); [canswers cs op] the computed answer record. *)
From MX Require Import Base.Prelude Gen.Params Model.MetaClosed Run.MetaClosedRun Proofs.MetaClosedProofs.

(** ------------------------------------------------------------------ (1) projection: lawful MetaStaking steps, callee runs *)
Theorem C15_closed_step_lawful : forall cs op cs' o calls,
  cstep cs op = Ok (cs', o, calls) -> CI cs -> cvalid op -> cwf op ->
  match op with
  | CStake _ _ c pays _ spa _ _ =>
      exists e, canswers cs op = AStake e /\ MS.es_sp e = spa /\
        MS.step (c_ms cs) (MS.Stake c false pays e) = Ok (c_ms cs', o, calls) /\
        lawful (c_ms cs) (MS.Stake c false pays e) /\ callee_runs cs cs' /\ c_pair cs' = c_pair cs
  | CClaim _ _ c pays _ spa _ _ =>
      exists e, canswers cs op = AClaim e /\ MS.ec_sp e = spa /\
        MS.step (c_ms cs) (MS.Claim c false pays e) = Ok (c_ms cs', o, calls) /\
        lawful (c_ms cs) (MS.Claim c false pays e) /\ callee_runs cs cs' /\ c_pair cs' = c_pair cs
  | CUnstake _ _ c pays m1 m2 _ _ =>
      exists e, canswers cs op = AUnstake e /\
        MS.step (c_ms cs) (MS.Unstake c false pays m1 m2 e) = Ok (c_ms cs', o, calls) /\
        lawful (c_ms cs) (MS.Unstake c false pays m1 m2 e) /\ callee_runs cs cs'
  | _ => True
  end.
Proof. exact closed_step_lawful. Qed.
Print Assumptions C15_closed_step_lawful.

(** every operation of the closed system - proxy endpoints (ordinary and on behalf), transfers, hub, the users' own
    operations on the farms and the pair - moves the farms' states by runs of VALID operations of their own models: every
    theorem about [frun] / [prun] (C05-C07, C11 hosts, C12) transfers to the closed system *)
Theorem C15_closed_callee_runs : forall cs op cs' o calls,
  cstep cs op = Ok (cs', o, calls) -> CI cs -> cvalid op ->
  (exists fops, Forall FarmInv.valid_op fops /\ FL.l_f (c_lf cs') = F.frun (FL.l_f (c_lf cs)) fops) /\
  (exists pops, Forall StakingPosProofs.sep_op pops /\ c_sp cs' = SP.prun (c_sp cs) pops).
Proof. exact cstep_runs_ex. Qed.
Print Assumptions C15_closed_callee_runs.

(** ------------------------------------------------------------------ (2) the invariants over every history *)
Theorem C15_closed_invariant_step : forall cs op cs' o calls,
  cstep cs op = Ok (cs', o, calls) -> CI cs -> Link cs -> cvalid op -> cwf op -> CI cs' /\ Link cs'.
Proof. exact cstep_all. Qed.
Print Assumptions C15_closed_invariant_step.

Theorem C15_closed_reach : forall ldsc opts lock sdsc apr minub fee sfee sf ho ops,
  0 < ldsc -> 0 < sdsc -> 0 < apr -> cvalid_ops ops ->
  let cs := crun (init_c ldsc opts lock sdsc apr minub fee sfee sf ho) ops in CI cs /\ Link cs.
Proof. exact closed_reach. Qed.
Print Assumptions C15_closed_reach.

Theorem C15_closed_run : forall ops cs, CI cs -> Link cs -> cvalid_ops ops -> CI (crun cs ops) /\ Link (crun cs ops).
Proof. exact crun_all. Qed.
Print Assumptions C15_closed_run.

(** C15_backed with no law hypothesis *)
Theorem C15_closed_backed : forall cs, CI cs ->
  let s := c_ms cs in
  (forall k, MS.lpf_bal s k = MetaStakingProofs.lp_claim s k) /\
  (forall k, MS.sf_bal s k = MetaStakingProofs.sf_claim s k) /\
  (forall n a, In (n, a) (MS.s_attrs s) ->
     MetaStakingProofs.nonce_ok s n a /\
     MS.sup s n <= MS.sf_bal s (MS.d_sfn a) /\
     MS.d_lpa a - MS.rel s n <= MS.lpf_bal s (MS.d_lpn a) /\
     (forall x, 0 <= x <= MS.sup s n -> MetaStakingProofs.claimable a x <= MS.lpf_bal s (MS.d_lpn a))) /\
  (forall t, MS.fbal s t = 0).
Proof. exact closed_backed. Qed.
Print Assumptions C15_closed_backed.

(** C15_parts with no law hypothesis *)
Theorem C15_closed_parts : forall cs, CI cs ->
  let s := c_ms cs in
  forall n a, In (n, a) (MS.s_attrs s) ->
    0 <= MS.rel s n <= MS.d_lpa a /\ 0 <= MS.d_sfa a - MS.sup s n <= MS.d_sfa a /\
    MS.rel s n * MS.d_sfa a <= MS.d_lpa a * (MS.d_sfa a - MS.sup s n).
Proof. exact closed_parts. Qed.
Print Assumptions C15_closed_parts.

(** C15_unstake with L5 / L6 discharged: the unbond token is issued for exactly the staking tokens the PAIR MODEL paid
    for the LP tokens the LP-FARM MODEL released; the token returned first is the other pool token *)
Theorem C15_closed_unstake : forall cs blk ep c n p m1 m2 bl bs cs' o calls,
  cstep cs (CUnstake blk ep c [(MS.TK_DY, n, p)] m1 m2 bl bs) = Ok (cs', o, calls) -> CI cs -> uid c ->
  exists a part e stk oa,
    MS.find_attr (MS.s_attrs (c_ms cs)) n = Some a /\ MS.dy_part a p = Ok part /\
    canswers cs (CUnstake blk ep c [(MS.TK_DY, n, p)] m1 m2 bl bs) = AUnstake e /\
    MS.pick_staking (MS.eu_rm e) = Ok (stk, MS.TK_OTH, oa) /\
    o = [oa; MS.eu_rl e; MS.eu_rs e; MS.eu_ubn e; stk] /\
    calls = [MS.CLpExit (MS.d_lpn a) (MS.d_lpa part); MS.CPairRemove (MS.eu_lp e) m1 m2; MS.CStkUnstake stk (MS.d_sfn a) p] /\
    (forall t, MS.fbal (c_ms cs') t = MS.fbal (c_ms cs) t) /\
    MS.sup (c_ms cs') n = MS.sup (c_ms cs) n - p /\ MS.hold (c_ms cs') n c = MS.hold (c_ms cs) n c - p /\
    (exists p1 x1 x2 eff, lp_exit_flow (c_pair cs) PX (MS.d_lpa part) (MS.eu_lp e) = Ok p1 /\
       PR.ep_remove p1 PX (MS.eu_lp e) m1 m2 = Ok (c_pair cs', [x1; x2], eff) /\
       MS.eu_rm e = (tok_code (c_stkfirst cs) PR.T1, x1, tok_code (c_stkfirst cs) PR.T2, x2)).
Proof. exact closed_unstake. Qed.
Print Assumptions C15_closed_unstake.

(** C15_safe with L2 / L3 discharged *)
Theorem C15_closed_safe : forall cs blk ep c pays fail spa bs bl cs' o calls,
  cstep cs (CStake blk ep c pays fail spa bs bl) = Ok (cs', o, calls) -> CI cs -> uid c -> spa_ok spa ->
  exists k a adds parts v ot oa n new rest,
    pays = (MS.TK_LPF, k, a) :: adds /\ Forall2 (MetaStakingProofs.part_of_pay (c_ms cs)) adds parts /\
    MS.pick_staking spa = Ok (v, ot, oa) /\
    calls = MS.CSafePrice a :: MS.CStkEnter v (MetaStakingProofs.sf_toks parts) :: rest /\
    MS.registered calls = v /\
    In (n, new) (MS.s_attrs (c_ms cs')) /\ nth 0 o 0 = n /\ nth 1 o 0 = MS.d_sfa new /\
    MS.d_sfa new = v + MS.sum_sfa parts /\
    (adds = [] -> MS.d_lpn new = k /\ MS.d_lpa new = a) /\
    (adds <> [] -> MS.d_lpa new = a + MS.sum_lpa parts).
Proof. exact closed_safe_stake. Qed.
Print Assumptions C15_closed_safe.

(** C15_safe_claim with L1 / L4 discharged *)
Theorem C15_closed_safe_claim : forall cs blk ep c pays fail spa bl bs cs' o calls,
  cstep cs (CClaim blk ep c pays fail spa bl bs) = Ok (cs', o, calls) -> CI cs -> uid c -> spa_ok spa ->
  exists n p a part v ot oa n' new,
    pays = [(MS.TK_DY, n, p)] /\ MS.find_attr (MS.s_attrs (c_ms cs)) n = Some a /\ MS.dy_part a p = Ok part /\
    MS.pick_staking spa = Ok (v, ot, oa) /\
    calls = [MS.CSafePrice (MS.d_lpa part); MS.CLpClaim (MS.d_lpn a) (MS.d_lpa part); MS.CStkClaim (MS.d_sfn a) p v] /\
    MS.registered calls = v - p /\
    In (n', new) (MS.s_attrs (c_ms cs')) /\ nth 2 o 0 = n' /\ nth 3 o 0 = MS.d_sfa new /\
    MS.d_sfa new = v /\ MS.d_lpa new = MS.d_lpa part.
Proof. exact closed_safe_claim. Qed.
Print Assumptions C15_closed_safe_claim.

(** ------------------------------------------------------------------ (3) cross-contract conservation *)
Theorem C15_closed_conservation : forall cs, CI cs -> Link cs ->
  (forall k, MS.lpf_bal (c_ms cs) k = F.held (FL.l_f (c_lf cs)) k PX /\
             F.held (FL.l_f (c_lf cs)) k PX <= F.outst (FL.l_f (c_lf cs)) k <= F.f_supply (FL.l_f (c_lf cs))) /\
  (forall k, MS.sf_bal (c_ms cs) k = SP.held (c_sp cs) k PX) /\
  ST.s_virt (SP.p_s (c_sp cs)) = sum_sup (c_ms cs) /\
  ST.s_virt (SP.p_s (c_sp cs)) = StakingPosProofs.proxy_held (c_sp cs) /\
  0 <= ST.s_virt (SP.p_s (c_sp cs)) <= ST.s_supply (SP.p_s (c_sp cs)).
Proof. exact closed_conservation. Qed.
Print Assumptions C15_closed_conservation.

(** ------------------------------------------------------------------ (4) no failure on a callee counter (partial) *)
Theorem C15_closed_positions_available : forall cs c n p s1 part, CI cs -> Link cs ->
  MS.release (c_ms cs) c n p = Ok (s1, part) ->
  MS.d_sfa part = p /\ 0 < p <= SP.held (c_sp cs) (MS.d_sfn part) PX /\
  MS.d_lpa part <= F.held (FL.l_f (c_lf cs)) (MS.d_lpn part) PX.
Proof. exact closed_positions_available. Qed.
Print Assumptions C15_closed_positions_available.

Theorem C15_closed_callee_calls_total_partial : forall cs, CI cs ->
  (forall fops fop, Forall FarmInv.valid_op fops -> FarmInv.valid_op fop ->
     let f := F.frun (FL.l_f (c_lf cs)) fops in FarmTotal.fguards f fop -> exists r, F.fstep f fop = Ok r) /\
  (forall pops pop, Forall StakingPosProofs.sep_op pops -> StakingPosProofs.pvalid_op pop ->
     let sp := SP.prun (c_sp cs) pops in StakingPosProofs.guards sp pop -> exists r, SP.pstep sp pop = Ok r).
Proof. exact closed_callee_calls_total_partial. Qed.
Print Assumptions C15_closed_callee_calls_total_partial.

Theorem C15_closed_staking_calls_total_partial : forall cs c n p s1 part blk ep u, CI cs -> Link cs ->
  MS.release (c_ms cs) c n p = Ok (s1, part) -> ST.active (SP.p_s (c_sp cs)) = true ->
  (forall v bs, 0 <= v -> StakingPosProofs.pool_ok (c_sp cs) blk bs ->
     exists r, SP.pstep (c_sp cs) (SP.PClaimNewValue blk ep PX u (MS.d_sfn part, MS.d_sfa part) v bs) = Ok r) /\
  (forall stk bs, 0 < stk -> StakingPosProofs.pool_ok (c_sp cs) blk bs ->
     exists r, SP.pstep (c_sp cs) (SP.PUnstakeProxy blk ep PX u (MS.d_sfn part, MS.d_sfa part) stk bs) = Ok r).
Proof. exact closed_staking_calls_total_partial. Qed.
Print Assumptions C15_closed_staking_calls_total_partial.

(** ------------------------------------------------------------------ the on-behalf endpoints on the closed system: the
    recorded owners are READ from the callee models (LP farm: [F.a_owner]; staking farm: [SP.sa_owner]) *)
Theorem C15_closed_stake_on_behalf : forall cs blk ep a u pays fail spa bs bl cs' o calls e,
  c_stake_ob cs blk ep a u pays fail spa bs bl = Ok (cs', o, calls, e) ->
  AC.is_whitelisted (c_hub cs) u a = true /\
  exists first adds s1 cs2 s3,
    pays = first :: adds /\ MS.p_tok first = MS.TK_LPF /\ lp_owner cs (MS.p_nonce first) = Ok u /\ c_owners_all cs u adds = Ok tt /\
    xfer_all (c_ms cs) a u adds = Ok s1 /\
    c_stake (with_ms cs s1) blk ep a u pays fail spa bs bl = Ok (cs2, o, calls, e) /\
    MS.ep_xfer (c_ms cs2) u a (nth 0 o 0) (nth 1 o 0) = Ok (s3, [], []) /\ cs' = with_ms cs2 s3.
Proof. exact c_stake_ob_parts. Qed.
Print Assumptions C15_closed_stake_on_behalf.

Theorem C15_closed_claim_on_behalf : forall cs blk ep a pays fail spa bl bs cs' o calls e u,
  c_claim_ob cs blk ep a pays fail spa bl bs = Ok (cs', o, calls, e, u) ->
  exists p s1 cs2 s3,
    pays = [p] /\ c_underlying_owner cs p = Ok u /\ AC.is_whitelisted (c_hub cs) u a = true /\
    xfer_all (c_ms cs) a u [p] = Ok s1 /\
    c_claim (with_ms cs s1) blk ep u pays fail spa bl bs = Ok (cs2, o, calls, e) /\
    MS.ep_xfer (c_ms cs2) u a (nth 2 o 0) (nth 3 o 0) = Ok (s3, [], []) /\ cs' = with_ms cs2 s3.
Proof. exact c_claim_ob_parts. Qed.
Print Assumptions C15_closed_claim_on_behalf.

(** ------------------------------------------------------------------ non-vacuity
    A history executed on the REAL composed system (tools/sys_meta_closed.py, scripted: owner configuration; three users
    add liquidity and enter the LP farm; a swap; user 1 stakes half of an LP-farm position, hands a quarter to agent 4,
    which stakes it on behalf of user 1; user 2 stakes; a swap; a week passes; the agent claims on behalf (LP-farm
    boosted payout 144444 measured on the real farm), an agent without tokens fails, user 1 claims, user 2 stakes with a
    merged partial dual-yield token, user 1 revokes the agent (whose next claim on behalf fails), the agent returns the
    token, user 1 unstakes twice, user 3 exits the LP farm directly).  The closed model follows the real system on every
    observable (Run/MetaClosedRun.v [check_closed] returns []); here: every operation is valid, 38 of the 40 succeed in
    the model, and the final state has the stated cross-contract sums. *)
Definition nv_init : cst := init_c 1000000000000 [360; 1800; 3600] 3600 1000000000000 5000 10 300 50 true 100.
Definition nv_setup : list cop := [CPair (PR.SetState 100 1);
    CPair (PR.Add 100 2000000000 3000000000 1 1);
    CLp (FL.LSetLockEpochs 100 3600);
    CLp (FL.LF (F.FSetRate 5 100 1000000));
    CLp (FL.LF (F.FSetMinEpochs 100 2));
    CLp (FL.LF (F.FSetPenalty 100 100));
    CLp (FL.LF (F.FSetState 100 1));
    CLp (FL.LF (F.FStart 5 100));
    CLp (FL.LF (F.FSetPct 5 100 2500));
    CLp (FL.LF (F.FSetFactors 100));
    CStk (SP.PAdmin (ST.STopUp 100 10000000000000000000000000000000000000000));
    CStk (SP.PAdmin (ST.SSetRate 5 100 1000000));
    CStk (SP.PAdmin (ST.SSetState 100 1));
    CStk (SP.PAdmin (ST.SStart 5 100));
    CStk (SP.PAdmin (ST.SSetPct 5 100 2500));
    CStk (SP.PAdmin (ST.SSetFactors 100));
    CHub (hw 1 4);
    CHub (hw 2 5)].
Definition nv_ops : list cop := [CPair (PR.Add 1 40000000 40000000 1 1);
  CLp (FL.LF (F.FEnter 6 5 1 26666666 [] 0));
  CPair (PR.Add 2 30000000 30000000 1 1);
  CLp (FL.LF (F.FEnter 6 5 2 19999999 [] 0));
  CPair (PR.Add 3 20000000 20000000 1 1);
  CLp (FL.LF (F.FEnter 6 5 3 13333333 [] 0));
  CPair (PR.SwapIn 70 1 40000000 2 1);
  CStake 12 5 1 [(10, 1, 13333333)] false (1, 13553397, 2, 19677142) 0 0;
  CLp (FL.LF (F.FTransfer 1 1 4 6666666));
  CStakeOB 17 6 4 1 [(10, 1, 6666666)] false (1, 6786407, 2, 9824327) 0 0;
  CStake 17 6 2 [(10, 2, 9999999)] false (1, 10179610, 2, 14736490) 0 0;
  CPair (PR.SwapIn 70 1 50000000 2 1);
  CClaimOB 27 14 4 [(12, 2, 3393203)] false (1, 3478963, 2, 4791303) 144444 0;
  CClaimOB 27 14 5 [(12, 2, 1)] false (1, 0, 2, 0) 0 0;
  CClaim 27 14 1 [(12, 1, 4517799)] false (1, 4638618, 2, 6388406) 0 0;
  CStake 27 14 2 [(10, 2, 4999999); (12, 3, 5089805)] false (1, 5218445, 2, 7186957) 0 83333;
  CHub (hrw 1 4);
  CClaimOB 27 14 4 [(12, 2, 3393204)] false (1, 3478964, 2, 4791305) 0 0;
  CXfer 4 1 2 3393204;
  CUnstake 29 17 1 [(12, 2, 1696602)] 1 1 0 0;
  CUnstake 29 17 1 [(12, 1, 9035598)] 1 1 0 0;
  CLp (FL.LF (F.FExit 29 17 3 (3, 6666666) 0))].

Fixpoint oks (cs : cst) (ops : list cop) : list bool :=
  match ops with [] => [] | op :: t => is_ok (cstep cs op) :: oks (cstep_total cs op) t end.

Example C15_closed_nonvacuous :
  cvalid_ops (nv_setup ++ nv_ops) /\
  let cs := crun nv_init (nv_setup ++ nv_ops) in
  length (filter (fun b => b) (oks nv_init (nv_setup ++ nv_ops))) = 38%nat /\
  MS.s_next (c_ms cs) = 6 /\ sum_sup (c_ms cs) = 25212238 /\ ST.s_virt (SP.p_s (c_sp cs)) = 25212238 /\
  ST.s_supply (SP.p_s (c_sp cs)) = 25212238 /\
  map (fun k => MS.lpf_bal (c_ms cs) k) [1; 2; 4; 5; 6] = [1666669; 5000000; 3333332; 4444444; 9999998] /\
  map (fun k => F.held (FL.l_f (c_lf cs)) k PX) [1; 2; 4; 5; 6] = [1666669; 5000000; 3333332; 4444444; 9999998] /\
  map (fun k => SP.held (c_sp cs) k PX) [2; 3; 4; 5; 6] = [1696602; 5089805; 3478963; 4638618; 10308250] /\
  MS.hold (c_ms cs) 4 4 = 3478963 /\ F.f_supply (FL.l_f (c_lf cs)) = 42777778 /\ PR.lp_of (c_pair cs) LPFARM = 42777778 /\
  PR.lp_of (c_pair cs) PX = 0 /\ check_trace nv_init 0 [] = [].
Proof.
  split.
  - unfold cvalid_ops, nv_setup, nv_ops. cbn [app].
    repeat (constructor; [split; [unfold hw, hrw, hb, hrb; cbn; unfold uid, FarmInv.valid_id, PX, ST.PROXY, LPFARM; repeat split; try lia; try exact I
                                 | cbn; try exact I; split; reflexivity]|]).
    constructor.
  - vm_compute. repeat split; reflexivity.
Qed.
