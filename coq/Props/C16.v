(** C16 — Proxy DEX: locked tokens put to work stay locked; every wrapped token is fully backed;
    base asset minted on entry is matched by base asset / locked tokens burned on exit.

    ASSUME / GUARANTEE (DESIGN.md §7 C16): the pair, the farms and the energy factory are
    environment.  Their answers to the proxy are inputs of the model ([env]); the interface laws
    they have to obey are evaluated by the model itself where an answer is consumed ([x_law]):
      pair.addLiquidity      lp > 0, 0 <= amount used;
      farm.enterFarm         farm token amount = farming token amount sent;
      farm.claimRewards      new farm token amount = farm token amount sent;
      farm.mergeFarmTokens   merged amount = sum of the amounts sent; boosted rewards paid to the proxy >= 0
                             (the proxy keeps them: it decodes only the merged farm token);
      factory.mergeTokens    merged amount = sum of the amounts sent;
      factory.extendLockPeriod  same amount back.
    The theorems hold for every history whose responses obey these laws ([reach], [lawful]); the
    correspondence run evaluates the same [x_law] on every response of the real contracts.
    This is the sense in which the claim is partial: "real farm / pair / factory |= laws" is checked
    on the real responses and (for the callee models that exist) proved there, not re-proved here
    as one closed system.  The legacy locked token paths are not modelled. *)
From MX Require Import Base.Prelude Gen.Params Model.ProxyDex Proofs.ProxyDexProofs.

(** ------------------------------------------------------------------ wrapped tokens are backed *)
(** [Backed s] (Proofs/ProxyDexProofs.v), for all positions at once:
      LP tokens held            >= all wrapped LP tokens in users' hands;
      farm tokens held (f)      >= outstanding supply of the wrapped farm positions recording f;
      wrapped LP held (n)       >= dead supply of n + outstanding supply of the wrapped farm positions recording n;
      locked tokens held (k)    >= sum over wrapped LP positions recording k of floor(L * live / T)
                                   + outstanding supply of the wrapped farm positions recording k;
      every wrapped farm position records as many proxy farming tokens as farm tokens. *)
Theorem C16_backed : forall s, reach s -> Backed s.
Proof. exact reach_backed. Qed.
Print Assumptions C16_backed.

Theorem C16_backed_run : forall ops, lawful init_state ops = true -> Backed (run init_state ops).
Proof. exact run_backed. Qed.
Print Assumptions C16_backed_run.

Theorem C16_backed_step : forall s o s' x, step s o = Ok (s', x) -> x_law x = true -> Backed s -> Backed s'.
Proof. exact step_backed. Qed.
Print Assumptions C16_backed_step.

(** read per position: the locked tokens a wrapped LP position can still release, and the farm tokens
    and proxy farming tokens of a wrapped farm position, are in the proxy *)
Theorem C16_backed_wlp_position : forall s n w, Backed s -> getn (s_wlp s) n = Some w ->
  wl_L w * wl_live w / wl_T w <= aget (s_locked s) (wl_k w) /\ wl_dead w <= aget (s_pwlp s) n.
Proof. exact backed_wlp_position. Qed.
Print Assumptions C16_backed_wlp_position.

Theorem C16_backed_wfm_position : forall s m w, Backed s -> getn (s_wfm s) m = Some w ->
  wf_P w = wf_T w /\
  wf_sup w <= aget (s_farm s) (fkey (wf_f w) (wf_farm w)) /\
  (wf_kind w = 0 -> wf_sup w <= aget (s_locked s) (wf_pn w)) /\
  (wf_kind w <> 0 -> wf_sup w <= aget (s_pwlp s) (wf_pn w)).
Proof. exact backed_wfm_position. Qed.
Print Assumptions C16_backed_wfm_position.

(** ------------------------------------------------------------------ locked stays locked *)
(** removeLiquidityProxy: locked tokens of the recorded nonce, amount min(received, locked part);
    base asset only as max(0, received - locked part); what is burned (base asset + locked tokens)
    is exactly the locked part; the energy entry written is the C08 update for the burned amount *)
Theorem C16_locked_remove : forall s u pid p e s' x, ep_remove_liq s u pid p e = Ok (s', x) -> Backed s ->
  exists w lp, getn (s_wlp s) (p_non p) = Some w /\ part_wlp w (p_amt p) = Ok lp /\
    let rb := snd (fst (v_pair e)) in let ro := snd (v_pair e) in
    let burned := Z.max 0 (lp - rb) in
    x_outs x = (if lp <? rb then [(TK_BASE, 0, rb - lp)] else []) ++
               [(TK_LOCKED, wl_k w, Z.min rb lp)] ++ [(TK_OTHER, 0, ro)] /\
    x_mint x = 0 /\ x_burn x = Z.min rb lp /\ x_lburn x = (if lp <? rb then (0, 0) else (wl_k w, burned)) /\
    x_burn x + snd (x_lburn x) = lp /\
    burn_energy e burned = Ok (x_energy x).
Proof. exact remove_liq_char. Qed.
Print Assumptions C16_locked_remove.

(** exitFarmProxy: the proxy farming tokens recorded (locked tokens of the recorded nonce, or wrapped
    LP tokens) minus the penalty the farm kept; the penalty is burned in locked tokens *)
Theorem C16_locked_exit : forall s u farm p e s' x, ep_exit_farm s u farm p e = Ok (s', x) -> Backed s ->
  exists w, getn (s_wfm s) (p_non p) = Some w /\ wf_farm w = farm /\ wf_P w = wf_T w /\
    let a := p_amt p in let F := snd (v_farm e) in let pen := a - F in
    0 < a /\ F <= a /\ x_mint x = 0 /\ x_burn x = (if farm =? 0 then F else 0) /\
    (exists out, x_outs x = [out; (TK_LOCKED, fst (v_rew e), snd (v_rew e))] /\ p_amt out = a - pen /\
       ((wf_kind w = 0 /\ out = (TK_LOCKED, wf_pn w, a - pen)) \/ (wf_kind w <> 0 /\ p_tok out = TK_WLP /\ (pen = 0 -> p_non out = wf_pn w)))) /\
    (wf_kind w = 0 -> snd (x_lburn x) = pen /\ (pen <> 0 -> fst (x_lburn x) = wf_pn w) /\ burn_energy e pen = Ok (x_energy x)) /\
    (wf_kind w <> 0 -> pen = 0 -> x_lburn x = (0, 0) /\ x_energy x = None) /\
    (wf_kind w <> 0 -> pen <> 0 -> exists wl lold lnew,
        getn (s_wlp s) (wf_pn w) = Some wl /\ part_wlp wl a = Ok lold /\ part_wlp wl (a - pen) = Ok lnew /\
        x_lburn x = (wl_k wl, lold - lnew) /\ lnew <= lold /\ burn_energy e (lold - lnew) = Ok (x_energy x)).
Proof. exact exit_farm_char. Qed.
Print Assumptions C16_locked_exit.

(** no operation pays base asset except removeLiquidityProxy's pool surplus above the locked part *)
Theorem C16_locked_base_only_surplus : forall s o s' x pay,
  step s o = Ok (s', x) -> In pay (x_outs x) -> p_tok pay = TK_BASE ->
  exists u pid p e lp w, o = RemoveLiq u pid p e /\ getn (s_wlp s) (p_non p) = Some w /\ part_wlp w (p_amt p) = Ok lp /\
    lp < snd (fst (v_pair e)) /\ pay = (TK_BASE, 0, snd (fst (v_pair e)) - lp).
Proof. exact base_only_surplus. Qed.
Print Assumptions C16_locked_base_only_surplus.

(** merging: one wrapped token of the summed amount recording the factory-merged locked token *)
Theorem C16_locked_merge : forall s u ps e s' x, ep_merge_wlp s u ps e = Ok (s', x) -> Backed s -> x_law x = true ->
  let n := next_nonce (s_wlp s) in
  x_outs x = [(TK_WLP, n, sum_amt ps)] /\ x_mint x = 0 /\ x_burn x = 0 /\ x_lburn x = (0, 0) /\ x_energy x = None /\
  0 < sum_amt ps /\ 0 <= snd (v_fact e) /\
  getn (s_wlp s') n = Some (mkWlp (sum_amt ps) (fst (v_fact e)) (snd (v_fact e)) (sum_amt ps) 0).
Proof. exact merge_wlp_char. Qed.
Print Assumptions C16_locked_merge.

(** ------------------------------------------------------------------ mint on entry = burn on exit *)
Theorem C16_mint_burn_add : forall s u pid p1 p2 e s' x, ep_add_liq s u pid p1 p2 [] e = Ok (s', x) -> Backed s -> x_law x = true ->
  exists pl po used_l used_o,
    ((p_tok p1 = TK_LOCKED /\ p_tok p2 <> TK_LOCKED /\ pl = p1 /\ po = p2 /\ used_l = snd (fst (v_pair e)) /\ used_o = snd (v_pair e)) \/
     (p_tok p2 = TK_LOCKED /\ p_tok p1 <> TK_LOCKED /\ pl = p2 /\ po = p1 /\ used_l = snd (v_pair e) /\ used_o = snd (fst (v_pair e)))) /\
    let lp := fst (fst (v_pair e)) in
    let n := next_nonce (s_wlp s) in
    0 <= used_l <= p_amt pl /\
    x_mint x = p_amt pl /\ x_burn x = p_amt pl - used_l /\ x_lburn x = (0, 0) /\ x_energy x = None /\
    x_outs x = [(TK_WLP, n, lp); (TK_LOCKED, p_non pl, p_amt pl - used_l); (TK_OTHER, 0, p_amt po - used_o)] /\
    getn (s_wlp s') n = Some (mkWlp lp (p_non pl) used_l lp 0).
Proof. exact add_liq_char. Qed.
Print Assumptions C16_mint_burn_add.

(** with or without merging existing positions in *)
Theorem C16_mint_burn_add_any : forall s u pid p1 p2 extra e s' x, ep_add_liq s u pid p1 p2 extra e = Ok (s', x) ->
  let used_l := if p_tok p1 =? TK_LOCKED then snd (fst (v_pair e)) else snd (v_pair e) in
  let pl := if p_tok p1 =? TK_LOCKED then p1 else p2 in
  p_tok pl = TK_LOCKED /\ x_mint x = p_amt pl /\ x_burn x = p_amt pl - used_l /\ used_l <= p_amt pl /\
  x_lburn x = (0, 0) /\ x_energy x = None.
Proof. exact add_liq_mint_any. Qed.
Print Assumptions C16_mint_burn_add_any.

Theorem C16_mint_burn_enter_any : forall s u farm p extra e s' x, ep_enter_farm s u farm p extra e = Ok (s', x) ->
  x_mint x = (if p_tok p =? TK_LOCKED then p_amt p else 0) /\ x_burn x = 0 /\ x_lburn x = (0, 0) /\ x_energy x = None /\
  (p_tok p = TK_LOCKED \/ p_tok p = TK_WLP).
Proof. exact enter_farm_mint_any. Qed.
Print Assumptions C16_mint_burn_enter_any.

Theorem C16_mint_burn_pool_round_trip : forall s u pid p1 p2 e1 s1 x1 e2 s2 x2,
  Backed s -> ep_add_liq s u pid p1 p2 [] e1 = Ok (s1, x1) -> x_law x1 = true ->
  ep_remove_liq s1 u pid (TK_WLP, next_nonce (s_wlp s), fst (fst (v_pair e1))) e2 = Ok (s2, x2) ->
  x_burn x2 + snd (x_lburn x2) = x_mint x1 - x_burn x1.
Proof. exact add_remove_round_trip. Qed.
Print Assumptions C16_mint_burn_pool_round_trip.

Theorem C16_mint_burn_enter : forall s u farm p e s' x, ep_enter_farm s u farm p [] e = Ok (s', x) -> Backed s -> x_law x = true ->
  let a := p_amt p in let m := next_nonce (s_wfm s) in
  0 < a /\ snd (v_farm e) = a /\ x_burn x = 0 /\ x_lburn x = (0, 0) /\ x_energy x = None /\
  x_outs x = [(TK_WFM, m, a); (TK_LOCKED, fst (v_rew e), snd (v_rew e))] /\
  ((p_tok p = TK_LOCKED /\ farm = 0 /\ x_mint x = a /\
    getn (s_wfm s') m = Some (mkWfm farm (fst (v_farm e)) a 0 (p_non p) a a)) \/
   (p_tok p = TK_WLP /\ farm = 1 /\ x_mint x = 0 /\
    getn (s_wfm s') m = Some (mkWfm farm (fst (v_farm e)) a 1 (p_non p) a a))).
Proof. exact enter_farm_char. Qed.
Print Assumptions C16_mint_burn_enter.

Theorem C16_mint_burn_farm_round_trip : forall s u p e1 s1 x1 e2 s2 x2,
  Backed s -> p_tok p = TK_LOCKED -> ep_enter_farm s u 0 p [] e1 = Ok (s1, x1) -> x_law x1 = true ->
  ep_exit_farm s1 u 0 (TK_WFM, next_nonce (s_wfm s), p_amt p) e2 = Ok (s2, x2) ->
  x_burn x2 + snd (x_lburn x2) = x_mint x1 /\
  exists rew, x_outs x2 = [(TK_LOCKED, p_non p, p_amt p - snd (x_lburn x2)); rew].
Proof. exact enter_exit_round_trip. Qed.
Print Assumptions C16_mint_burn_farm_round_trip.

(** the energy entry the proxy writes: exactly burned * (unlock - now) less energy (more, if the token
    is already unlockable), burned fewer locked tokens, starting from the entry depleted to now *)
Theorem C16_mint_burn_energy : forall e amt r, burn_energy e amt = Ok r ->
  (amt = 0 /\ r = None) \/
  (amt <> 0 /\ exists en', r = Some en' /\
     let en := pe_deplete (v_energy e) (v_now e) in
     pe_amt en' = pe_amt en - amt * (v_unlock e - v_now e) /\ pe_tot en' = pe_tot en - amt).
Proof. exact burn_energy_char. Qed.
Print Assumptions C16_mint_burn_energy.

(** ------------------------------------------------------------------ parts *)
(** into_part = rule_of_three_non_zero_result: the floor of the pro-rata share, never zero *)
Theorem C16_parts : forall T a full r, rule3 T a full = Ok r -> 0 < T -> 0 <= full ->
  0 < r /\ r * T <= full * a < r * T + T /\ (a = T -> r = full).
Proof. exact parts_char. Qed.
Print Assumptions C16_parts.

Theorem C16_parts_zero_aborts : forall T a full, 0 < T -> 0 <= full -> 0 <= a -> full * a < T -> a <> T ->
  is_ok (rule3 T a full) = false.
Proof. exact parts_zero_aborts. Qed.
Print Assumptions C16_parts_zero_aborts.

(** the parts released over any sequence of partial exits never exceed the whole *)
Theorem C16_parts_sum : forall T full, 0 < T -> 0 <= full -> forall amts rs,
  Forall2 (fun a r => rule3 T a full = Ok r) amts rs -> zsum amts <= T -> zsum rs <= full.
Proof. exact parts_sum. Qed.
Print Assumptions C16_parts_sum.

(** ------------------------------------------------------------------ non-vacuity
    The first operations of a history executed on the real composed system (tools/sys_proxydex.py):
    add liquidity, enter both farms, exit both with the early-exit penalty, remove liquidity below
    the locked part after a trade, merge.  The responses obey the laws, positions are live, dead
    wrapped LP supply exists, locked tokens were burned with an energy update. *)
Example C16_nonvacuous :
  lawful init_state ex_ops = true /\
  let s := run init_state ex_ops in
  s_lp s = 249500 /\ aget (s_locked s) 1 = 1099000 /\ aget (s_pwlp s) 1 = 150000 /\
  length (s_wlp s) = 3%nat /\ length (s_wfm s) = 2%nat /\
  (match getn (s_wlp s) 1 with Some w => wl_dead w = 50000 /\ wl_live w = 290000 | None => False end) /\
  match step (run init_state (firstn 5 ex_ops)) (nth 5 ex_ops (SetPair 0 true)) with
  | Ok (_, x) => x_outs x = [(TK_LOCKED, 1, 31883); (TK_OTHER, 0, 157142)] /\ x_burn x = 31883 /\
                 x_lburn x = (1, 68117) /\
                 x_energy x = Some (mkPEn (358000000000007876000 - 68117 * (360 - 2)) 2 (1000000000000022000 - 68117))
  | Err _ => False
  end.
Proof. vm_compute. repeat split. Qed.

(** ==================================================================================================
    The interface laws assumed above, proved on the CALLEE models where those exist (Proofs/LawsC16.v):
    every conjunct of [x_law] is named ([law_*]), [C16_x_law_*] show x_law IS their conjunction, [C16_law_*] prove each on
    Model/Pair.v, Model/FarmLocked.v, Model/Energy.v / Penalty.v, [C16_closed_*] compose the two; [answer_of_...] is the explicit mapping from the callee's outputs to the answer
    record the proxy model consumes.  Qualified names throughout. *)
From MX Require Import Base.Prelude Gen.Params Model.ProxyDex.
From MX Require Model.MetaStaking Model.Staking Model.StakingPos Proofs.StakingPosProofs.
From MX Require Model.Pair Model.Farm Model.FarmLocked Model.Energy Model.Penalty Proofs.EnergyProofs Proofs.FarmLockedProofs.
From MX Require Proofs.LawsC15 Proofs.LawsC16.

Module MS := MX.Model.MetaStaking.
Module ST := MX.Model.Staking.
Module SP := MX.Model.StakingPos.
Module SPP := MX.Proofs.StakingPosProofs.
Module FL := MX.Model.FarmLocked.
Module EN := MX.Model.Energy.
Module ENP := MX.Proofs.EnergyProofs.
Module L15 := MX.Proofs.LawsC15.
Module L16 := MX.Proofs.LawsC16.


(** ================================================================== C16: [x_law] is the conjunction of the named laws *)
Theorem C16_x_law_add_liq : forall s u pid p1 p2 extra e s' x, ep_add_liq s u pid p1 p2 extra e = Ok (s', x) ->
  let lp := fst (fst (v_pair e)) in
  let used := L16.add_used_locked p1 e in
  snd (fst (v_pair e)) <= p_amt p1 /\ snd (v_pair e) <= p_amt p2 /\
  match extra with
  | [] => x_law x = L16.law_pair_add lp used
  | _ => exists s1 ta tl, take_wlp_list s u extra = Ok (s1, (ta, tl)) /\
         x_law x = L16.law_pair_add lp used && L16.law_factory_merge (snd (v_fact e)) (used + tl)
  end.
Proof. exact L16.x_law_add_liq. Qed.
Print Assumptions C16_x_law_add_liq.

Theorem C16_x_law_remove_liq : forall s u pid p e s' x, ep_remove_liq s u pid p e = Ok (s', x) ->
  x_law x = true \/ x_law x = L16.law_pair_remove (snd (fst (v_pair e))).
Proof. exact L16.x_law_remove_liq. Qed.
Print Assumptions C16_x_law_remove_liq.

Theorem C16_x_law_enter_farm : forall s u farm p extra e s' x, ep_enter_farm s u farm p extra e = Ok (s', x) ->
  match extra with
  | [] => x_law x = L16.law_farm_enter (snd (v_farm e)) (p_amt p)
  | _ => exists total its,
         items_farm_total its = snd (v_farm e) + (items_farm_total (tl its)) /\
         x_law x = L16.law_farm_enter (snd (v_farm e)) (p_amt p) &&
                   (L16.law_factory_merge (snd (v_fact e)) total && L16.law_farm_merge (snd (v_fmerge e)) (items_farm_total its))
  end.
Proof. exact L16.x_law_enter_farm. Qed.
Print Assumptions C16_x_law_enter_farm.

Theorem C16_x_law_exit_farm : forall s u farm p e s' x, ep_exit_farm s u farm p e = Ok (s', x) ->
  x_law x = L16.law_farm_exit (snd (v_farm e)) /\ snd (v_farm e) <= p_amt p.
Proof. exact L16.x_law_exit_farm. Qed.
Print Assumptions C16_x_law_exit_farm.

Theorem C16_x_law_claim : forall s u farm p e s' x, ep_claim s u farm p e = Ok (s', x) ->
  x_law x = L16.law_farm_claim (snd (v_farm e)) (p_amt p).
Proof. exact L16.x_law_claim. Qed.
Print Assumptions C16_x_law_claim.

Theorem C16_x_law_merge_wlp : forall s u ps e s' x, ep_merge_wlp s u ps e = Ok (s', x) ->
  exists s1 ta tl, take_wlp_list s u ps = Ok (s1, (ta, tl)) /\
    x_law x = L16.law_factory_merge (snd (v_fact e)) tl.
Proof. exact L16.x_law_merge_wlp. Qed.
Print Assumptions C16_x_law_merge_wlp.

Theorem C16_x_law_merge_wfm : forall s u farm ps e s' x, ep_merge_wfm s u farm ps e = Ok (s', x) ->
  exists s1 its total, take_wfm_list s u ps = Ok (s1, its) /\ L16.merge_locked_total s1 its = Some total /\
    x_law x = L16.law_factory_merge (snd (v_fact e)) total && L16.law_farm_merge (snd (v_fmerge e)) (items_farm_total its)
              && L16.law_farm_merge_rewards (snd (v_rew e)).
Proof. exact L16.x_law_merge_wfm. Qed.
Print Assumptions C16_x_law_merge_wfm.

Theorem C16_x_law_inc_lp : forall s u p e s' x, ep_inc_lp s u p e = Ok (s', x) ->
  exists s1 k lp, take_wlp_user s u (p_non p) (p_amt p) = Ok (s1, (k, lp)) /\
    x_law x = L16.law_factory_extend (snd (v_fact e)) lp.
Proof. exact L16.x_law_inc_lp. Qed.
Print Assumptions C16_x_law_inc_lp.

Theorem C16_x_law_inc_fm : forall s u p e s' x, ep_inc_fm s u p e = Ok (s', x) ->
  exists s1 w pp, take_wfm s u (p_non p) (p_amt p) = Ok (s1, (w, pp)) /\
    if wf_kind w =? 0 then x_law x = L16.law_factory_extend (snd (v_fact e)) pp
    else exists s2 k lq, release_wlp s1 (wf_pn w) pp = Ok (s2, (k, lq)) /\
                         x_law x = L16.law_factory_extend (snd (v_fact e)) lq.
Proof. exact L16.x_law_inc_fm. Qed.
Print Assumptions C16_x_law_inc_fm.

Theorem C16_x_law_no_call : forall s o s' x, step s o = Ok (s', x) ->
  match o with SetPair _ _ | SetFarm _ _ _ | XferWlp _ _ _ _ | XferWfm _ _ _ _ => x_law x = true | _ => True end.
Proof. exact L16.x_law_no_call. Qed.
Print Assumptions C16_x_law_no_call.

(** ================================================================== C16: the named laws on the callee models *)
(** pair.addLiquidity *)
Theorem C16_law_pair_add_pair_model : forall p c a1 a2 m1 m2 p' o eff e,
  Pair.ep_add p c a1 a2 m1 m2 = Ok (p', o, eff) ->
  exists e', L16.answer_of_addLiquidity e o = Some e' /\
    let lp := fst (fst (v_pair e')) in
    let u1 := snd (fst (v_pair e')) in
    let u2 := snd (v_pair e') in
    L16.law_pair_add lp u1 = true /\ L16.law_pair_add lp u2 = true /\
    0 < lp /\ 0 < u1 <= a1 /\ 0 < u2 <= a2 /\ (Pair.p_S p <> 0 -> m1 <= u1 /\ m2 <= u2) /\
    v_farm e' = v_farm e /\ v_fmerge e' = v_fmerge e /\ v_rew e' = v_rew e /\ v_fact e' = v_fact e /\
    v_ok e' = v_ok e /\ v_now e' = v_now e /\ v_energy e' = v_energy e /\ v_unlock e' = v_unlock e.
Proof. exact L16.pair_add_law. Qed.
Print Assumptions C16_law_pair_add_pair_model.

(** pair.removeLiquidity *)
Theorem C16_law_pair_remove_pair_model : forall p c lp m1 m2 p' o eff base_first e,
  Pair.ep_remove p c lp m1 m2 = Ok (p', o, eff) ->
  exists e', L16.answer_of_removeLiquidity base_first e o = Some e' /\
    let rb := snd (fst (v_pair e')) in
    let ro := snd (v_pair e') in
    L16.law_pair_remove rb = true /\ 0 < rb /\ 0 < ro /\
    (exists x1 x2, o = [x1; x2] /\ m1 <= x1 /\ m2 <= x2 /\
       (rb, ro) = (if base_first then (x1, x2) else (x2, x1))) /\
    v_farm e' = v_farm e /\ v_fmerge e' = v_fmerge e /\ v_rew e' = v_rew e /\ v_fact e' = v_fact e /\
    v_ok e' = v_ok e /\ v_now e' = v_now e /\ v_energy e' = v_energy e /\ v_unlock e' = v_unlock e.
Proof. exact L16.pair_remove_law. Qed.
Print Assumptions C16_law_pair_remove_pair_model.

(** farm.enterFarm (farm-with-locked-rewards) with [a] farming tokens and no farm tokens *)
Theorem C16_law_farm_enter_lockedfarm_model : forall ls blk ep c a b ls' o rc e rk,
  FL.lstep ls (FL.LF (Farm.FEnter blk ep c a [] b)) = Ok (ls', o, rc) ->
  exists e', L16.answer_of_enterFarm e rk o = Some e' /\
    L16.law_farm_enter (snd (v_farm e')) a = true /\
    fst (v_farm e') = Farm.f_next (FL.l_f ls) /\ snd (v_rew e') = b /\ 0 <= snd (v_rew e') /\
    (snd (v_rew e') = 0 -> rc = []) /\
    (0 < snd (v_rew e') -> exists ue, rc = [(c, (snd (v_rew e'), ue))] /\ ep < ue) /\
    v_pair e' = v_pair e /\ v_fmerge e' = v_fmerge e /\ v_fact e' = v_fact e /\
    v_ok e' = v_ok e /\ v_now e' = v_now e /\ v_energy e' = v_energy e /\ v_unlock e' = v_unlock e.
Proof. exact L16.lfarm_enter_law. Qed.
Print Assumptions C16_law_farm_enter_lockedfarm_model.

(** farm.claimRewards on the farm token (n, a) *)
Theorem C16_law_farm_claim_lockedfarm_model : forall ls blk ep c n a b ls' o rc e rk,
  FL.lstep ls (FL.LF (Farm.FClaim blk ep c (n, a) [] b)) = Ok (ls', o, rc) ->
  exists e', L16.answer_of_claimRewards e rk o = Some e' /\
    L16.law_farm_claim (snd (v_farm e')) a = true /\
    (snd (v_rew e') <= 0 -> rc = []) /\
    (0 < snd (v_rew e') -> exists ue, rc = [(c, (snd (v_rew e'), ue))] /\ ep < ue) /\
    v_pair e' = v_pair e /\ v_fmerge e' = v_fmerge e /\ v_fact e' = v_fact e /\
    v_ok e' = v_ok e /\ v_now e' = v_now e /\ v_energy e' = v_energy e /\ v_unlock e' = v_unlock e.
Proof. exact L16.lfarm_claim_law. Qed.
Print Assumptions C16_law_farm_claim_lockedfarm_model.

(** farm.exitFarm on the farm token (n, a) *)
Theorem C16_law_farm_exit_lockedfarm_model : forall ls blk ep c n a b ls' o rc e rk,
  FL.lstep ls (FL.LF (Farm.FExit blk ep c (n, a) b)) = Ok (ls', o, rc) ->
  exists e', L16.answer_of_exitFarm e rk o = Some e' /\
    L16.law_farm_exit (snd (v_farm e')) = true /\
    (exists at0, Farm.find_attrs (Farm.f_attrs (FL.l_f ls)) n = Some at0 /\
       let f := FL.l_f ls in
       let pen := if ep - Farm.a_epoch at0 <? Farm.f_minep f then a * Farm.f_pen f / Farm.MAXP else 0 in
       snd (v_farm e') = a - pen /\ pen <= a /\ (0 <= Farm.f_pen f -> 0 <= pen)) /\
    (snd (v_rew e') <= 0 -> rc = []) /\
    (0 < snd (v_rew e') -> exists ue, rc = [(c, (snd (v_rew e'), ue))] /\ ep < ue) /\
    v_pair e' = v_pair e /\ v_fmerge e' = v_fmerge e /\ v_fact e' = v_fact e /\
    v_ok e' = v_ok e /\ v_now e' = v_now e /\ v_energy e' = v_energy e /\ v_unlock e' = v_unlock e.
Proof. exact L16.lfarm_exit_law. Qed.
Print Assumptions C16_law_farm_exit_lockedfarm_model.

(** the proxy's guard F <= a on the farm's exit answer, in every reachable state of the farm model *)
Theorem C16_law_farm_exit_bound_lockedfarm_model : forall ls blk ep c n a b ls' lo rc e0 rk e,
  L16.PenOK (FL.l_f ls) ->
  FL.lstep ls (FL.LF (Farm.FExit blk ep c (n, a) b)) = Ok (ls', lo, rc) ->
  L16.answer_of_exitFarm e0 rk lo = Some e ->
  0 <= snd (v_farm e) <= a.
Proof. exact L16.exit_farm_guard. Qed.
Print Assumptions C16_law_farm_exit_bound_lockedfarm_model.

Theorem C16_law_farm_exit_bound_reachable : forall dsc same opts lock ops,
  L16.PenOK (FL.l_f (FL.lrun (FL.init_locked dsc same opts lock) ops)).
Proof. exact L16.lrun_pen. Qed.
Print Assumptions C16_law_farm_exit_bound_reachable.

(** farm.mergeFarmTokens on the farm tokens [ps] *)
Theorem C16_law_farm_merge_lockedfarm_model : forall ls blk ep c ps b ls' o rc e rk,
  FL.lstep ls (FL.LF (Farm.FMerge blk ep c ps b)) = Ok (ls', o, rc) ->
  exists e', L16.answer_of_mergeFarmTokens e rk o = Some e' /\
    L16.law_farm_merge (snd (v_fmerge e')) (L16.farm_sum ps) = true /\
    L16.law_farm_merge_rewards (snd (v_rew e')) = true /\
    snd (v_rew e') = b /\
    (snd (v_rew e') = 0 -> rc = []) /\
    (0 < snd (v_rew e') -> exists ue, rc = [(c, (snd (v_rew e'), ue))] /\ ep < ue) /\
    v_pair e' = v_pair e /\ v_farm e' = v_farm e /\ v_fact e' = v_fact e /\
    v_ok e' = v_ok e /\ v_now e' = v_now e /\ v_energy e' = v_energy e /\ v_unlock e' = v_unlock e.
Proof. exact L16.lfarm_merge_law. Qed.
Print Assumptions C16_law_farm_merge_lockedfarm_model.

(** factory.mergeTokens(original caller u) on the locked payments [ps] = (unlock epoch, amount) *)
Theorem C16_law_factory_merge_energy_model : forall s u ps s' o e kf,
  EN.ep_merge s u ps = Ok (s', o) ->
  exists e', L16.answer_of_mergeTokens e kf o = Some e' /\
    L16.law_factory_merge (snd (v_fact e')) (ENP.tsum ps) = true /\
    0 < snd (v_fact e') /\
    (exists ne me, o = [ne; snd (v_fact e')] /\
       (forall lo hi, Forall (fun p => lo <= fst p <= hi) ps -> lo <= me <= hi) /\
       ne = EN.som_upper (EN.opts_of s) (EN.s_now s) me /\
       EN.som me <= ne <= EN.som me + EPOCHS_PER_MONTH /\
       (ENP.EnergyInv s -> 0 < u -> EN.s_now s < ne /\ ENP.EnergyInv s')) /\
    v_pair e' = v_pair e /\ v_farm e' = v_farm e /\ v_fmerge e' = v_fmerge e /\ v_rew e' = v_rew e /\
    v_ok e' = v_ok e /\ v_now e' = v_now e /\ v_energy e' = v_energy e /\ v_unlock e' = v_unlock e.
Proof. exact L16.factory_merge_law. Qed.
Print Assumptions C16_law_factory_merge_energy_model.

(** factory.extendLockPeriod(le, user u) on the locked payment (unlock epoch ep, amount amt) *)
Theorem C16_law_factory_extend_energy_model : forall s u ep amt le s' o e kf,
  EN.ep_extend s u ep amt le u = Ok (s', o) ->
  exists e', L16.answer_of_extendLockPeriod e kf o = Some e' /\
    L16.law_factory_extend (snd (v_fact e')) amt = true /\
    0 < amt /\
    (exists ne, o = [ne; amt] /\ ne = EN.som (EN.s_now s + le) /\ EN.s_now s < ne /\ ep < ne) /\
    v_pair e' = v_pair e /\ v_farm e' = v_farm e /\ v_fmerge e' = v_fmerge e /\ v_rew e' = v_rew e /\
    v_ok e' = v_ok e /\ v_now e' = v_now e /\ v_energy e' = v_energy e /\ v_unlock e' = v_unlock e.
Proof. exact L16.factory_extend_law. Qed.
Print Assumptions C16_law_factory_extend_energy_model.

(** the same law on the locking model of C09 (Model/Penalty.v) *)
Theorem C16_law_factory_extend_penalty_model : forall s c ep amt le s' o e kf,
  Penalty.ep_extend s c ep amt le = Ok (s', o) ->
  exists e', L16.answer_of_extendLockPeriod e kf o = Some e' /\
    L16.law_factory_extend (snd (v_fact e')) amt = true /\ 0 < amt /\
    exists ne, o = [ne; amt] /\ ne = Penalty.start_of_month (Penalty.l_now s + le) /\ Penalty.l_now s < ne /\ ep < ne.
Proof. exact L16.factory_extend_law_penalty. Qed.
Print Assumptions C16_law_factory_extend_penalty_model.

(** the energy entry the proxy computes and writes back = the factory's update_after_unlock_any of
    the entry the factory's view returns *)
Theorem C16_law_energy_update_energy_model : forall s u e amt r,
  v_energy e = L16.pe_of (EN.view_entry s u) -> v_now e = EN.s_now s ->
  burn_energy e amt = Ok r ->
  (amt = 0 /\ r = None) \/
  (amt <> 0 /\ exists en', r = Some en' /\
     EN.update_after_unlock_any (EN.entry_now s u) amt (v_unlock e) (EN.s_now s) = Ok (L16.en_of en')).
Proof. exact L16.burn_energy_is_factory_update. Qed.
Print Assumptions C16_law_energy_update_energy_model.

(** ================================================================== C16: composition, nothing assumed *)
Theorem C16_closed_add_liq : forall pp c m1 m2 pp' po eff e0 e s u pid p1 p2 s' x,
  Pair.ep_add pp c (p_amt p1) (p_amt p2) m1 m2 = Ok (pp', po, eff) ->
  L16.answer_of_addLiquidity e0 po = Some e ->
  ep_add_liq s u pid p1 p2 [] e = Ok (s', x) ->
  x_law x = true.
Proof. exact L16.add_liq_closed. Qed.
Print Assumptions C16_closed_add_liq.

Theorem C16_closed_add_liq_merge : forall pp c m1 m2 pp' po eff fs fu fps fs' fo kf e0 e1 e s u pid p1 p2 extra s' x,
  Pair.ep_add pp c (p_amt p1) (p_amt p2) m1 m2 = Ok (pp', po, eff) ->
  EN.ep_merge fs fu fps = Ok (fs', fo) ->
  L16.answer_of_addLiquidity e0 po = Some e1 -> L16.answer_of_mergeTokens e1 kf fo = Some e ->
  (forall s1 ta tl, take_wlp_list s u extra = Ok (s1, (ta, tl)) -> ENP.tsum fps = L16.add_used_locked p1 e + tl) ->
  ep_add_liq s u pid p1 p2 extra e = Ok (s', x) ->
  x_law x = true.
Proof. exact L16.add_liq_merge_closed. Qed.
Print Assumptions C16_closed_add_liq_merge.

Theorem C16_closed_remove_liq : forall pp c lp m1 m2 pp' po eff bf e0 e s u pid p s' x,
  Pair.ep_remove pp c lp m1 m2 = Ok (pp', po, eff) ->
  L16.answer_of_removeLiquidity bf e0 po = Some e ->
  ep_remove_liq s u pid p e = Ok (s', x) ->
  x_law x = true.
Proof. exact L16.remove_liq_closed. Qed.
Print Assumptions C16_closed_remove_liq.

Theorem C16_closed_enter_farm : forall ls blk ep c b ls' lo rc e0 rk e s u farm p s' x,
  FL.lstep ls (FL.LF (Farm.FEnter blk ep c (p_amt p) [] b)) = Ok (ls', lo, rc) ->
  L16.answer_of_enterFarm e0 rk lo = Some e ->
  ep_enter_farm s u farm p [] e = Ok (s', x) ->
  x_law x = true.
Proof. exact L16.enter_farm_closed. Qed.
Print Assumptions C16_closed_enter_farm.

Theorem C16_closed_claim : forall ls blk ep c n b ls' lo rc e0 rk e s u farm p s' x,
  FL.lstep ls (FL.LF (Farm.FClaim blk ep c (n, p_amt p) [] b)) = Ok (ls', lo, rc) ->
  L16.answer_of_claimRewards e0 rk lo = Some e ->
  ep_claim s u farm p e = Ok (s', x) ->
  x_law x = true.
Proof. exact L16.claim_closed. Qed.
Print Assumptions C16_closed_claim.

Theorem C16_closed_exit_farm : forall ls blk ep c n b ls' lo rc e0 rk e s u farm p s' x,
  FL.lstep ls (FL.LF (Farm.FExit blk ep c (n, p_amt p) b)) = Ok (ls', lo, rc) ->
  L16.answer_of_exitFarm e0 rk lo = Some e ->
  ep_exit_farm s u farm p e = Ok (s', x) ->
  x_law x = true.
Proof. exact L16.exit_farm_closed. Qed.
Print Assumptions C16_closed_exit_farm.

Theorem C16_closed_merge_wlp : forall fs fu fps fs' fo e0 kf e s u ps s' x,
  EN.ep_merge fs fu fps = Ok (fs', fo) ->
  L16.answer_of_mergeTokens e0 kf fo = Some e ->
  (forall s1 ta tl, take_wlp_list s u ps = Ok (s1, (ta, tl)) -> ENP.tsum fps = tl) ->
  ep_merge_wlp s u ps e = Ok (s', x) ->
  x_law x = true.
Proof. exact L16.merge_wlp_closed. Qed.
Print Assumptions C16_closed_merge_wlp.

Theorem C16_closed_merge_items : forall fs fu fps fs' fo ls blk ep c mps b ls' lo rc e0 kf rk e1 e s u farm its s' m amt law,
  EN.ep_merge fs fu fps = Ok (fs', fo) ->
  FL.lstep ls (FL.LF (Farm.FMerge blk ep c mps b)) = Ok (ls', lo, rc) ->
  L16.answer_of_mergeTokens e0 kf fo = Some e1 -> L16.answer_of_mergeFarmTokens e1 rk lo = Some e ->
  L16.merge_locked_total s its = Some (ENP.tsum fps) -> L16.farm_sum mps = items_farm_total its ->
  merge_items s u farm its e = Ok (s', (m, amt, law)) ->
  law = true /\ L16.law_farm_merge_rewards (snd (v_rew e)) = true.
Proof. exact L16.merge_items_closed. Qed.
Print Assumptions C16_closed_merge_items.

Theorem C16_closed_merge_wfm : forall fs fu fps fs' fo ls blk ep c mps b ls' lo rc e0 kf rk e1 e s u farm ps s' x,
  EN.ep_merge fs fu fps = Ok (fs', fo) ->
  FL.lstep ls (FL.LF (Farm.FMerge blk ep c mps b)) = Ok (ls', lo, rc) ->
  L16.answer_of_mergeTokens e0 kf fo = Some e1 -> L16.answer_of_mergeFarmTokens e1 rk lo = Some e ->
  (forall s1 its, take_wfm_list s u ps = Ok (s1, its) ->
     L16.merge_locked_total s1 its = Some (ENP.tsum fps) /\ L16.farm_sum mps = items_farm_total its) ->
  ep_merge_wfm s u farm ps e = Ok (s', x) ->
  x_law x = true.
Proof. exact L16.merge_wfm_closed. Qed.
Print Assumptions C16_closed_merge_wfm.

Theorem C16_closed_inc_lp : forall fs fu fep famt le fs' fo e0 kf e s u p s' x,
  EN.ep_extend fs fu fep famt le fu = Ok (fs', fo) ->
  L16.answer_of_extendLockPeriod e0 kf fo = Some e ->
  (forall s1 k lp, take_wlp_user s u (p_non p) (p_amt p) = Ok (s1, (k, lp)) -> famt = lp) ->
  ep_inc_lp s u p e = Ok (s', x) ->
  x_law x = true.
Proof. exact L16.inc_lp_closed. Qed.
Print Assumptions C16_closed_inc_lp.

Theorem C16_closed_inc_fm : forall fs fu fep famt le fs' fo e0 kf e s u p s' x,
  EN.ep_extend fs fu fep famt le fu = Ok (fs', fo) ->
  L16.answer_of_extendLockPeriod e0 kf fo = Some e ->
  (forall s1 w pp, take_wfm s u (p_non p) (p_amt p) = Ok (s1, (w, pp)) ->
     if wf_kind w =? 0 then famt = pp
     else forall s2 k lq, release_wlp s1 (wf_pn w) pp = Ok (s2, (k, lq)) -> famt = lq) ->
  ep_inc_fm s u p e = Ok (s', x) ->
  x_law x = true.
Proof. exact L16.inc_fm_closed. Qed.
Print Assumptions C16_closed_inc_fm.





Definition nv_e0 : env := mkEnv 1 true (0, 0, 0) (0, 0) (0, 0) (0, 0) (0, 0) (mkPEn 0 1 0) 0.

Definition nv_pair : Pair.pair :=
  Pair.run (Pair.init_pair 300 50 None) [Pair.AddInitial 1 1000000 2000000].

Definition nv_lfarm : FL.lfarm :=
  FL.lrun (FL.init_locked 1000000 false [360; 720; 1440] 360) (firstn 5 MX.Proofs.FarmLockedProofs.locked_example).

Definition nv_factory : EN.st :=
  EN.run (EN.init_state (EN.mkCfg [(360, 4000); (720, 6000); (1440, 8000)] 10 0 0) 1)
         [EN.Lock 1 1000 360 1; EN.Lock 1 3000 720 1].

Example C16_laws_nonvacuous :
  (* pair.addLiquidity -> addLiquidityProxy (the locked token is the first payment) *)
  match Pair.ep_add nv_pair 5 500000 400000 1 1 with
  | Ok (p', o, _) =>
      match L16.answer_of_addLiquidity nv_e0 o with
      | Some e =>
          v_pair e = (200000, 200000, 400000) /\
          match ep_add_liq init_state 1 0 (TK_LOCKED, 1, 500000) (TK_OTHER, 0, 400000) [] e with
          | Ok (s1, x) =>
              x_law x = true /\ x_outs x = [(TK_WLP, 1, 200000); (TK_LOCKED, 1, 300000); (TK_OTHER, 0, 0)] /\
              (* pair.removeLiquidity -> removeLiquidityProxy *)
              match Pair.ep_remove p' 5 100000 1 1 with
              | Ok (_, o2, _) =>
                  match L16.answer_of_removeLiquidity true nv_e0 o2 with
                  | Some e2 =>
                      v_pair e2 = (0, 100000, 200000) /\
                      match ep_remove_liq s1 1 0 (TK_WLP, 1, 100000) e2 with
                      | Ok (_, x2) => x_law x2 = true /\ x_outs x2 = [(TK_LOCKED, 1, 100000); (TK_OTHER, 0, 200000)]
                      | Err _ => False
                      end
                  | None => False
                  end
              | Err _ => False
              end
          | Err _ => False
          end
      | None => False
      end
  | Err _ => False
  end /\
  (* farm.enterFarm -> enterFarmProxy; farm.exitFarm (early: 1 % penalty) -> exitFarmProxy *)
  match FL.lstep nv_lfarm (FL.LF (Farm.FEnter 12 5 1 100 [] 0)) with
  | Ok (ls', o, rc) =>
      match L16.answer_of_enterFarm nv_e0 7 o with
      | Some e =>
          v_farm e = (1, 100) /\ rc = [] /\
          match ep_enter_farm init_state 1 0 (TK_LOCKED, 1, 100) [] e with
          | Ok (s1, x) =>
              x_law x = true /\
              match FL.lstep ls' (FL.LF (Farm.FExit 20 6 1 (1, 100) 0)) with
              | Ok (_, o2, rc2) =>
                  match L16.answer_of_exitFarm nv_e0 7 o2 with
                  | Some e2 =>
                      snd (v_farm e2) = 99 /\ 0 < snd (v_rew e2) /\ rc2 = [(1, (snd (v_rew e2), 360))] /\
                      match ep_exit_farm s1 1 0 (TK_WFM, 1, 100) (mkEnv 1 true (0, 0, 0) (v_farm e2) (0, 0) (v_rew e2) (0, 0) (mkPEn 36000 1 100) 360) with
                      | Ok (_, x2) => x_law x2 = true /\ x_lburn x2 = (1, 1) /\ x_burn x2 = 99
                      | Err _ => False
                      end
                  | None => False
                  end
              | Err _ => False
              end
          | Err _ => False
          end
      | None => False
      end
  | Err _ => False
  end /\
  (* factory.mergeTokens: 1000 tokens unlocking at 360 + 3000 at 720 -> one token of 4000, unlock epoch in between *)
  ENP.EnergyInv nv_factory /\
  match EN.ep_merge nv_factory 1 [(360, 1000); (720, 3000)] with
  | Ok (_, o) =>
      match L16.answer_of_mergeTokens nv_e0 3 o with
      | Some e => v_fact e = (3, 4000) /\ L16.law_factory_merge (snd (v_fact e)) (ENP.tsum [(360, 1000); (720, 3000)]) = true /\
                  exists ne, o = [ne; 4000] /\ 360 <= ne <= 720
      | None => False
      end
  | Err _ => False
  end /\
  (* factory.extendLockPeriod: the 1000 tokens unlocking at 360 re-locked for 720 epochs *)
  match EN.ep_extend nv_factory 1 360 1000 720 1 with
  | Ok (_, o) =>
      match L16.answer_of_extendLockPeriod nv_e0 4 o with
      | Some e => v_fact e = (4, 1000) /\ o = [720; 1000]
      | None => False
      end
  | Err _ => False
  end.
Proof.
  split; [vm_compute; repeat split; reflexivity|].
  split; [vm_compute; repeat split; reflexivity|].
  split; [apply ENP.reach_inv; [vm_compute; reflexivity | lia]|].
  split; [vm_compute; repeat split; try reflexivity; eexists; split; [reflexivity | split; discriminate]|].
  vm_compute. repeat split; reflexivity.
Qed.
