(** C16 — Proxy DEX: locked tokens put to work stay locked; every wrapped token is fully backed;
    base asset minted on entry is matched by base asset / locked tokens burned on exit.

    ASSUME / GUARANTEE (DESIGN.md §7 C16): the pair, the farms and the energy factory are
    environment.  Their answers to the proxy are inputs of the model ([env]); the interface laws
    they have to obey are evaluated by the model itself where an answer is consumed ([x_law]):
      pair.addLiquidity      lp > 0, 0 <= amount used;
      farm.enterFarm         farm token amount = farming token amount sent;
      farm.claimRewards      new farm token amount = farm token amount sent;
      farm.mergeFarmTokens   merged amount = sum of the amounts sent; boosted rewards paid to the proxy >= 0
                             (the proxy keeps them: it decodes only the merged farm token);
      factory.mergeTokens    merged amount = sum of the amounts sent;
      factory.extendLockPeriod  same amount back.
    The theorems hold for every history whose responses obey these laws ([reach], [lawful]); the
    correspondence run evaluates the same [x_law] on every response of the real contracts.
    This is the sense in which the claim is partial: "real farm / pair / factory |= laws" is checked
    on the real responses and (for the callee models that exist) proved there, not re-proved here
    as one closed system.  The legacy locked token paths are not modelled. *)
From MX Require Import Base.Prelude Gen.Params Model.ProxyDex Proofs.ProxyDexProofs.

(** ------------------------------------------------------------------ wrapped tokens are backed *)
(** [Backed s] (Proofs/ProxyDexProofs.v), for all positions at once:
      LP tokens held            >= all wrapped LP tokens in users' hands;
      farm tokens held (f)      >= outstanding supply of the wrapped farm positions recording f;
      wrapped LP held (n)       >= dead supply of n + outstanding supply of the wrapped farm positions recording n;
      locked tokens held (k)    >= sum over wrapped LP positions recording k of floor(L * live / T)
                                   + outstanding supply of the wrapped farm positions recording k;
      every wrapped farm position records as many proxy farming tokens as farm tokens. *)
Theorem C16_backed : forall s, reach s -> Backed s.
Proof. exact reach_backed. Qed.
Print Assumptions C16_backed.

Theorem C16_backed_run : forall ops, lawful init_state ops = true -> Backed (run init_state ops).
Proof. exact run_backed. Qed.
Print Assumptions C16_backed_run.

Theorem C16_backed_step : forall s o s' x, step s o = Ok (s', x) -> x_law x = true -> Backed s -> Backed s'.
Proof. exact step_backed. Qed.
Print Assumptions C16_backed_step.

(** read per position: the locked tokens a wrapped LP position can still release, and the farm tokens
    and proxy farming tokens of a wrapped farm position, are in the proxy *)
Theorem C16_backed_wlp_position : forall s n w, Backed s -> getn (s_wlp s) n = Some w ->
  wl_L w * wl_live w / wl_T w <= aget (s_locked s) (wl_k w) /\ wl_dead w <= aget (s_pwlp s) n.
Proof. exact backed_wlp_position. Qed.
Print Assumptions C16_backed_wlp_position.

Theorem C16_backed_wfm_position : forall s m w, Backed s -> getn (s_wfm s) m = Some w ->
  wf_P w = wf_T w /\
  wf_sup w <= aget (s_farm s) (fkey (wf_f w) (wf_farm w)) /\
  (wf_kind w = 0 -> wf_sup w <= aget (s_locked s) (wf_pn w)) /\
  (wf_kind w <> 0 -> wf_sup w <= aget (s_pwlp s) (wf_pn w)).
Proof. exact backed_wfm_position. Qed.
Print Assumptions C16_backed_wfm_position.

(** ------------------------------------------------------------------ locked stays locked *)
(** removeLiquidityProxy: locked tokens of the recorded nonce, amount min(received, locked part);
    base asset only as max(0, received - locked part); what is burned (base asset + locked tokens)
    is exactly the locked part; the energy entry written is the C08 update for the burned amount *)
Theorem C16_locked_remove : forall s u pid p e s' x, ep_remove_liq s u pid p e = Ok (s', x) -> Backed s ->
  exists w lp, getn (s_wlp s) (p_non p) = Some w /\ part_wlp w (p_amt p) = Ok lp /\
    let rb := snd (fst (v_pair e)) in let ro := snd (v_pair e) in
    let burned := Z.max 0 (lp - rb) in
    x_outs x = (if lp <? rb then [(TK_BASE, 0, rb - lp)] else []) ++
               [(TK_LOCKED, wl_k w, Z.min rb lp)] ++ [(TK_OTHER, 0, ro)] /\
    x_mint x = 0 /\ x_burn x = Z.min rb lp /\ x_lburn x = (if lp <? rb then (0, 0) else (wl_k w, burned)) /\
    x_burn x + snd (x_lburn x) = lp /\
    burn_energy e burned = Ok (x_energy x).
Proof. exact remove_liq_char. Qed.
Print Assumptions C16_locked_remove.

(** exitFarmProxy: the proxy farming tokens recorded (locked tokens of the recorded nonce, or wrapped
    LP tokens) minus the penalty the farm kept; the penalty is burned in locked tokens *)
Theorem C16_locked_exit : forall s u farm p e s' x, ep_exit_farm s u farm p e = Ok (s', x) -> Backed s ->
  exists w, getn (s_wfm s) (p_non p) = Some w /\ wf_farm w = farm /\ wf_P w = wf_T w /\
    let a := p_amt p in let F := snd (v_farm e) in let pen := a - F in
    0 < a /\ F <= a /\ x_mint x = 0 /\ x_burn x = (if farm =? 0 then F else 0) /\
    (exists out, x_outs x = [out; (TK_LOCKED, fst (v_rew e), snd (v_rew e))] /\ p_amt out = a - pen /\
       ((wf_kind w = 0 /\ out = (TK_LOCKED, wf_pn w, a - pen)) \/ (wf_kind w <> 0 /\ p_tok out = TK_WLP /\ (pen = 0 -> p_non out = wf_pn w)))) /\
    (wf_kind w = 0 -> snd (x_lburn x) = pen /\ (pen <> 0 -> fst (x_lburn x) = wf_pn w) /\ burn_energy e pen = Ok (x_energy x)) /\
    (wf_kind w <> 0 -> pen = 0 -> x_lburn x = (0, 0) /\ x_energy x = None) /\
    (wf_kind w <> 0 -> pen <> 0 -> exists wl lold lnew,
        getn (s_wlp s) (wf_pn w) = Some wl /\ part_wlp wl a = Ok lold /\ part_wlp wl (a - pen) = Ok lnew /\
        x_lburn x = (wl_k wl, lold - lnew) /\ lnew <= lold /\ burn_energy e (lold - lnew) = Ok (x_energy x)).
Proof. exact exit_farm_char. Qed.
Print Assumptions C16_locked_exit.

(** no operation pays base asset except removeLiquidityProxy's pool surplus above the locked part *)
Theorem C16_locked_base_only_surplus : forall s o s' x pay,
  step s o = Ok (s', x) -> In pay (x_outs x) -> p_tok pay = TK_BASE ->
  exists u pid p e lp w, o = RemoveLiq u pid p e /\ getn (s_wlp s) (p_non p) = Some w /\ part_wlp w (p_amt p) = Ok lp /\
    lp < snd (fst (v_pair e)) /\ pay = (TK_BASE, 0, snd (fst (v_pair e)) - lp).
Proof. exact base_only_surplus. Qed.
Print Assumptions C16_locked_base_only_surplus.

(** merging: one wrapped token of the summed amount recording the factory-merged locked token *)
Theorem C16_locked_merge : forall s u ps e s' x, ep_merge_wlp s u ps e = Ok (s', x) -> Backed s -> x_law x = true ->
  let n := next_nonce (s_wlp s) in
  x_outs x = [(TK_WLP, n, sum_amt ps)] /\ x_mint x = 0 /\ x_burn x = 0 /\ x_lburn x = (0, 0) /\ x_energy x = None /\
  0 < sum_amt ps /\ 0 <= snd (v_fact e) /\
  getn (s_wlp s') n = Some (mkWlp (sum_amt ps) (fst (v_fact e)) (snd (v_fact e)) (sum_amt ps) 0).
Proof. exact merge_wlp_char. Qed.
Print Assumptions C16_locked_merge.

(** ------------------------------------------------------------------ mint on entry = burn on exit *)
Theorem C16_mint_burn_add : forall s u pid p1 p2 e s' x, ep_add_liq s u pid p1 p2 [] e = Ok (s', x) -> Backed s -> x_law x = true ->
  exists pl po used_l used_o,
    ((p_tok p1 = TK_LOCKED /\ p_tok p2 <> TK_LOCKED /\ pl = p1 /\ po = p2 /\ used_l = snd (fst (v_pair e)) /\ used_o = snd (v_pair e)) \/
     (p_tok p2 = TK_LOCKED /\ p_tok p1 <> TK_LOCKED /\ pl = p2 /\ po = p1 /\ used_l = snd (v_pair e) /\ used_o = snd (fst (v_pair e)))) /\
    let lp := fst (fst (v_pair e)) in
    let n := next_nonce (s_wlp s) in
    0 <= used_l <= p_amt pl /\
    x_mint x = p_amt pl /\ x_burn x = p_amt pl - used_l /\ x_lburn x = (0, 0) /\ x_energy x = None /\
    x_outs x = [(TK_WLP, n, lp); (TK_LOCKED, p_non pl, p_amt pl - used_l); (TK_OTHER, 0, p_amt po - used_o)] /\
    getn (s_wlp s') n = Some (mkWlp lp (p_non pl) used_l lp 0).
Proof. exact add_liq_char. Qed.
Print Assumptions C16_mint_burn_add.

(** with or without merging existing positions in *)
Theorem C16_mint_burn_add_any : forall s u pid p1 p2 extra e s' x, ep_add_liq s u pid p1 p2 extra e = Ok (s', x) ->
  let used_l := if p_tok p1 =? TK_LOCKED then snd (fst (v_pair e)) else snd (v_pair e) in
  let pl := if p_tok p1 =? TK_LOCKED then p1 else p2 in
  p_tok pl = TK_LOCKED /\ x_mint x = p_amt pl /\ x_burn x = p_amt pl - used_l /\ used_l <= p_amt pl /\
  x_lburn x = (0, 0) /\ x_energy x = None.
Proof. exact add_liq_mint_any. Qed.
Print Assumptions C16_mint_burn_add_any.

Theorem C16_mint_burn_enter_any : forall s u farm p extra e s' x, ep_enter_farm s u farm p extra e = Ok (s', x) ->
  x_mint x = (if p_tok p =? TK_LOCKED then p_amt p else 0) /\ x_burn x = 0 /\ x_lburn x = (0, 0) /\ x_energy x = None /\
  (p_tok p = TK_LOCKED \/ p_tok p = TK_WLP).
Proof. exact enter_farm_mint_any. Qed.
Print Assumptions C16_mint_burn_enter_any.

Theorem C16_mint_burn_pool_round_trip : forall s u pid p1 p2 e1 s1 x1 e2 s2 x2,
  Backed s -> ep_add_liq s u pid p1 p2 [] e1 = Ok (s1, x1) -> x_law x1 = true ->
  ep_remove_liq s1 u pid (TK_WLP, next_nonce (s_wlp s), fst (fst (v_pair e1))) e2 = Ok (s2, x2) ->
  x_burn x2 + snd (x_lburn x2) = x_mint x1 - x_burn x1.
Proof. exact add_remove_round_trip. Qed.
Print Assumptions C16_mint_burn_pool_round_trip.

Theorem C16_mint_burn_enter : forall s u farm p e s' x, ep_enter_farm s u farm p [] e = Ok (s', x) -> Backed s -> x_law x = true ->
  let a := p_amt p in let m := next_nonce (s_wfm s) in
  0 < a /\ snd (v_farm e) = a /\ x_burn x = 0 /\ x_lburn x = (0, 0) /\ x_energy x = None /\
  x_outs x = [(TK_WFM, m, a); (TK_LOCKED, fst (v_rew e), snd (v_rew e))] /\
  ((p_tok p = TK_LOCKED /\ farm = 0 /\ x_mint x = a /\
    getn (s_wfm s') m = Some (mkWfm farm (fst (v_farm e)) a 0 (p_non p) a a)) \/
   (p_tok p = TK_WLP /\ farm = 1 /\ x_mint x = 0 /\
    getn (s_wfm s') m = Some (mkWfm farm (fst (v_farm e)) a 1 (p_non p) a a))).
Proof. exact enter_farm_char. Qed.
Print Assumptions C16_mint_burn_enter.

Theorem C16_mint_burn_farm_round_trip : forall s u p e1 s1 x1 e2 s2 x2,
  Backed s -> p_tok p = TK_LOCKED -> ep_enter_farm s u 0 p [] e1 = Ok (s1, x1) -> x_law x1 = true ->
  ep_exit_farm s1 u 0 (TK_WFM, next_nonce (s_wfm s), p_amt p) e2 = Ok (s2, x2) ->
  x_burn x2 + snd (x_lburn x2) = x_mint x1 /\
  exists rew, x_outs x2 = [(TK_LOCKED, p_non p, p_amt p - snd (x_lburn x2)); rew].
Proof. exact enter_exit_round_trip. Qed.
Print Assumptions C16_mint_burn_farm_round_trip.

(** the energy entry the proxy writes: exactly burned * (unlock - now) less energy (more, if the token
    is already unlockable), burned fewer locked tokens, starting from the entry depleted to now *)
Theorem C16_mint_burn_energy : forall e amt r, burn_energy e amt = Ok r ->
  (amt = 0 /\ r = None) \/
  (amt <> 0 /\ exists en', r = Some en' /\
     let en := pe_deplete (v_energy e) (v_now e) in
     pe_amt en' = pe_amt en - amt * (v_unlock e - v_now e) /\ pe_tot en' = pe_tot en - amt).
Proof. exact burn_energy_char. Qed.
Print Assumptions C16_mint_burn_energy.

(** ------------------------------------------------------------------ parts *)
(** into_part = rule_of_three_non_zero_result: the floor of the pro-rata share, never zero *)
Theorem C16_parts : forall T a full r, rule3 T a full = Ok r -> 0 < T -> 0 <= full ->
  0 < r /\ r * T <= full * a < r * T + T /\ (a = T -> r = full).
Proof. exact parts_char. Qed.
Print Assumptions C16_parts.

Theorem C16_parts_zero_aborts : forall T a full, 0 < T -> 0 <= full -> 0 <= a -> full * a < T -> a <> T ->
  is_ok (rule3 T a full) = false.
Proof. exact parts_zero_aborts. Qed.
Print Assumptions C16_parts_zero_aborts.

(** the parts released over any sequence of partial exits never exceed the whole *)
Theorem C16_parts_sum : forall T full, 0 < T -> 0 <= full -> forall amts rs,
  Forall2 (fun a r => rule3 T a full = Ok r) amts rs -> zsum amts <= T -> zsum rs <= full.
Proof. exact parts_sum. Qed.
Print Assumptions C16_parts_sum.

(** ------------------------------------------------------------------ non-vacuity
    The first operations of a history executed on the real composed system (tools/sys_proxydex.py):
    add liquidity, enter both farms, exit both with the early-exit penalty, remove liquidity below
    the locked part after a trade, merge.  The responses obey the laws, positions are live, dead
    wrapped LP supply exists, locked tokens were burned with an energy update. *)
Example C16_nonvacuous :
  lawful init_state ex_ops = true /\
  let s := run init_state ex_ops in
  s_lp s = 249500 /\ aget (s_locked s) 1 = 1099000 /\ aget (s_pwlp s) 1 = 150000 /\
  length (s_wlp s) = 3%nat /\ length (s_wfm s) = 2%nat /\
  (match getn (s_wlp s) 1 with Some w => wl_dead w = 50000 /\ wl_live w = 290000 | None => False end) /\
  match step (run init_state (firstn 5 ex_ops)) (nth 5 ex_ops (SetPair 0 true)) with
  | Ok (_, x) => x_outs x = [(TK_LOCKED, 1, 31883); (TK_OTHER, 0, 157142)] /\ x_burn x = 31883 /\
                 x_lburn x = (1, 68117) /\
                 x_energy x = Some (mkPEn (358000000000007876000 - 68117 * (360 - 2)) 2 (1000000000000022000 - 68117))
  | Err _ => False
  end.
Proof. vm_compute. repeat split. Qed.
