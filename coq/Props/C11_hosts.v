(** C11 on the two OTHER hosts of the farm-boosted-yields module: dex/farm-with-locked-rewards and
    farm-staking/farm-staking (the property's anchors name farm-staking's base_impl_wrapper.rs and
    claim_only_boosted_staking_rewards.rs; its quantifier is "every interleaving of farm operations ...").
    Statements only; proofs in Proofs/BoostedHostsProofs.v (reusing Proofs/BoostedProofs.v).
    (This file continues Props/C11.v; the closed dex/farm part is Props/C11_closed.v.)

    Vocabulary (Model/BoostedHosts.v, Proofs/BoostedHostsProofs.v; everything else as in Props/C11.v):
      [hop]   a host endpoint call as far as the module is concerned:
              [HBase op]      the endpoint calls the module exactly as the dex/farm endpoint [op] does — all endpoints of
                              farm-with-locked-rewards but enterFarm; farm-staking's stakeFarm (= BEnter), mergeFarmTokens,
                              claimBoostedRewards (position of the USER the claim is for), the settling admin endpoints
                              (withdrawRewards, setMaxApr, ... = BSettle with the APR/capacity-bounded emission), percentage,
                              factors, collect, updateEnergyForUser, time;
              [HLEnter pre u cur cur2 pos full supply]   farm-with-locked-rewards enterFarm: the boosted claim uses the energy
                              entry [cur]; the payout is locked in the energy factory (which raises the user's energy); the
                              final update_energy_and_progress reads the entry again: [cur2];
              [HSClaim ..]    farm-staking claimRewards[WithNewValue]: slice ; claim ; supply ; energy update;
              [HSCompound ..] farm-staking compoundRewards: slice ; claim ; supply (no energy update);
              [HSUnstake ..]  farm-staking unstakeFarm[ThroughProxy]: slice ; claim ; clear-if-needed ; THEN supply;
              in all of them [pos] = user_total_farm_position(user) BEFORE the endpoint's own position update;
      [hstep s op = Ok (s', out)]  a successful host operation; [hrun] / [hgrun] runs (failed transactions revert), the
              latter with C11's ghost ledger fed through [base_of op] (the dex/farm operation with the same user, energy
              entry at the claim, position, emission and supply);
      [hclaim_of], [hfull_of], [hevents], [hrun_log], [hsweep_log], [hfac_calls]  = C11's [claim_of], [full_of], [bevents],
              [brun_log], [bsweep_log], [fac_calls] for host operations. *)
From MX Require Import Base.Prelude Gen.Params Model.Weekly Model.Boosted Model.BoostedHosts.
From MX Require Import Proofs.WeeklyProofs Proofs.BoostedProofs Proofs.BoostedHostsProofs.

(** ------------------------------------------------------------------ 0. how the hosts' endpoints relate to dex/farm's *)
(** farm-staking claimRewards is, for the module, dex/farm's compoundRewards; its compoundRewards is dex/farm's
    claimRewards; unstakeFarm is exitFarm (the order of clear_user_energy_if_needed and
    set_farm_supply_for_current_week does not matter); the locked farm's enterFarm is dex/farm's when the energy entry
    is the same at both reads (nothing was locked).  Every host operation but the locked farm's enterFarm is therefore
    the state transformer of a dex/farm operation. *)
Theorem C11_hosts_staking_claim : forall s pre u cur pos full supply,
  hstep s (HSClaim pre u cur pos full supply) = step s (BCompound pre u cur pos full supply).
Proof. exact stake_claim_is_compound. Qed.
Print Assumptions C11_hosts_staking_claim.

Theorem C11_hosts_staking_compound : forall s pre u cur pos full supply,
  hstep s (HSCompound pre u cur pos full supply) = step s (BClaim pre u cur pos full supply).
Proof. exact stake_compound_is_claim. Qed.
Print Assumptions C11_hosts_staking_compound.

Theorem C11_hosts_staking_unstake : forall s pre u cur pos posa full supply,
  hstep s (HSUnstake pre u cur pos posa full supply) = step s (BExit pre u cur pos posa full supply).
Proof. exact unstake_is_exit. Qed.
Print Assumptions C11_hosts_staking_unstake.

Theorem C11_hosts_locked_enter_same_energy : forall s pre u cur pos full supply,
  hstep s (HLEnter pre u cur cur pos full supply) = step s (BEnter pre u cur pos full supply).
Proof. exact locked_enter_same_energy. Qed.
Print Assumptions C11_hosts_locked_enter_same_energy.

Theorem C11_hosts_base : forall s op, is_locked_enter op = false -> hstep s op = step s (base_of op).
Proof. exact hstep_base. Qed.
Print Assumptions C11_hosts_base.

(** a dex/farm history is a host history with the same ledger *)
Theorem C11_hosts_extend_farm : forall ops sg, hgrun sg (map HBase ops) = bgrun sg ops.
Proof. exact hgrun_base. Qed.
Print Assumptions C11_hosts_extend_farm.

(** ------------------------------------------------------------------ 1. reachable states *)
(** every state reachable by ANY interleaving of host operations (both hosts' vocabularies together, any deployment
    epoch, failed transactions revert) satisfies C11's invariant *)
Theorem C11_hosts_reach : forall epoch ops,
  BInv (fst (hgrun (init_b epoch, bg0) ops)) (snd (hgrun (init_b epoch, bg0) ops)).
Proof. exact hreach_inv. Qed.
Print Assumptions C11_hosts_reach.

Theorem C11_hosts_step : forall s g op s' out,
  BInv s g -> hstep s op = Ok (s', out) -> BInv s' (gupd g (base_of op) (bcur_week s) out).
Proof. exact hstep_inv. Qed.
Print Assumptions C11_hosts_step.

Theorem C11_hosts_ledger_is_the_run : forall ops s g, fst (hgrun (s, g) ops) = hrun s ops.
Proof. exact hgrun_fst. Qed.
Print Assumptions C11_hosts_ledger_is_the_run.

(** ------------------------------------------------------------------ 2. the per-week formula *)
(** [C11_formula] for every host endpoint that settles boosted rewards: the weeks processed are exactly the user's claim
    window; each week's payment is min (maxF*R*f/F) ((R*cE*e/E + R*cF*f/F)/(cE+cF)) (floors; nothing below the
    minimums or with E, F or R = 0) with e, E, F, R, factors read from the views of the state BEFORE the operation and
    f = [pos], the user's total position before the operation's own position update. *)
Theorem C11_hosts_formula : forall s g op s' out u cur pos,
  BInv s g -> hstep s op = Ok (s', out) -> hclaim_of op = Some (u, cur, pos) ->
  (o_det out = [] /\ (bh_cfg (b_h s) = None \/ view_progress s u = None \/
                      exists p, view_progress s u = Some p /\ pr_week p = bcur_week s)) \/
  (exists p c cfg,
     view_progress s u = Some p /\ bh_cfg (b_h s) = Some c /\ cfg_update c (bcur_week s) None = Ok cfg /\
     map fst (o_det out) = claim_range p (bcur_week s) /\
     forall w r, In (w, r) (o_det out) ->
       pr_week p <= w /\ bcur_week s - USER_MAX_CLAIM_WEEKS <= w < bcur_week s /\
       let e := energy_at p w in let E := view_total_energy s w in let F := view_sup s w in
       (((E = 0 \/ F = 0) /\ r = []) \/
        (exists fa, E <> 0 /\ F <> 0 /\ get_factors_for_week cfg w = Ok fa /\
           (((e < fa_mine fa \/ pos < fa_minf fa) /\ r = []) \/
            (fa_mine fa <= e /\ fa_minf fa <= pos /\
             exists R, view_total_rewards s' w = [(RTOK, R)] /\
               (view_total_rewards s w = [] -> R = view_acc s w) /\
               (view_total_rewards s w <> [] -> view_total_rewards s w = [(RTOK, R)]) /\
               ((R = 0 /\ r = []) \/
                (R <> 0 /\ fa_ce fa + fa_cf fa <> 0 /\
                 let x := Z.min (fa_max fa * R * pos / F)
                                ((R * fa_ce fa * e / E + R * fa_cf fa * pos / F) / (fa_ce fa + fa_cf fa)) in
                 ((x <= 0 /\ r = []) \/ (0 < x /\ r = [(RTOK, x)]))))))))).
Proof. exact hstep_formula. Qed.
Print Assumptions C11_hosts_formula.

(** ------------------------------------------------------------------ 3. at most once *)
Theorem C11_hosts_once : forall epoch ops, NoDup (hrun_log (init_b epoch) ops).
Proof. intros. apply (hrun_log_once ops _ _ (BInv_init epoch)). Qed.
Print Assumptions C11_hosts_once.

Theorem C11_hosts_once_progress : forall s g op s' out,
  BInv s g -> hstep s op = Ok (s', out) ->
  (forall u, bclaimable_from s u <= bclaimable_from s' u) /\
  (forall u w, In (u, w) (hevents op out) -> bclaimable_from s u <= w < bclaimable_from s' u) /\
  NoDup (hevents op out).
Proof. exact hstep_claimable. Qed.
Print Assumptions C11_hosts_once_progress.

(** ------------------------------------------------------------------ 4. the week's pool *)
Theorem C11_hosts_pool : forall epoch ops w,
  let s := fst (hgrun (init_b epoch, bg0) ops) in let g := snd (hgrun (init_b epoch, bg0) ops) in
  0 <= view_acc s w /\ 0 <= view_rem s w /\ 0 <= gpaid g w /\ 0 <= gswept g w /\
  gcuts g w = view_acc s w + view_rem s w + gpaid g w + gswept g w /\
  gpaid g w <= gcuts g w /\
  (view_total_rewards s w <> [] ->
     view_total_rewards s w = [(RTOK, gcuts g w)] /\ view_acc s w = 0 /\ w < bcur_week s /\
     view_rem s w = gcuts g w - gpaid g w - gswept g w) /\
  (bcur_week s - USER_MAX_CLAIM_WEEKS <= w -> view_total_rewards s w = [] ->
     view_rem s w = 0 /\ gpaid g w = 0 /\ gswept g w = 0).
Proof. exact hreach_pool. Qed.
Print Assumptions C11_hosts_pool.

Theorem C11_hosts_freeze : forall s g op s' out,
  BInv s g -> hstep s op = Ok (s', out) ->
  let cw := bcur_week s in
  forall w,
    (view_total_rewards s w <> [] -> cw - USER_MAX_CLAIM_WEEKS <= w -> view_total_rewards s' w = view_total_rewards s w) /\
    (view_total_rewards s w = [] -> view_total_rewards s' w <> [] ->
       (exists u cur pos, hclaim_of op = Some (u, cur, pos)) /\ cw - USER_MAX_CLAIM_WEEKS <= w < cw /\
       view_total_rewards s' w = [(RTOK, view_acc s w)] /\ view_acc s' w = 0 /\
       view_rem s' w = view_acc s w - wpaid (o_det out) w) /\
    (w <> cw -> view_acc s' w = view_acc s w \/ view_acc s' w = 0).
Proof. exact hstep_rewards. Qed.
Print Assumptions C11_hosts_freeze.

(** the slice is percentage * emission / 10000 of the HOST's emission (farm-staking: the APR/capacity-bounded accrual),
    booked in the running week, nothing while the percentage is 0 or no factors are configured *)
Theorem C11_hosts_slice : forall s g op s' out,
  BInv s g -> hstep s op = Ok (s', out) ->
  0 <= o_cut out /\ o_cut out = match hfull_of op with Some full => expected_cut s full | None => 0 end.
Proof. exact hstep_cut. Qed.
Print Assumptions C11_hosts_slice.

Theorem C11_hosts_slice_running_week : forall s g op s' out,
  BInv s g -> hstep s op = Ok (s', out) -> (forall n, op <> HBase (BAdvance n)) ->
  view_acc s' (bcur_week s) = view_acc s (bcur_week s) + o_cut out /\ view_rem s' (bcur_week s) = 0.
Proof. exact hstep_running_week. Qed.
Print Assumptions C11_hosts_slice_running_week.

(** ------------------------------------------------------------------ 5. undistributed rewards *)
Theorem C11_hosts_undistributed_once : forall epoch ops, NoDup (hsweep_log (init_b epoch) ops).
Proof. intros. apply (hsweep_log_once ops _ _ (BInv_init epoch)). Qed.
Print Assumptions C11_hosts_undistributed_once.

Theorem C11_hosts_undistributed_outside_window : forall s g op s' out,
  BInv s g -> hstep s op = Ok (s', out) ->
  view_lastcol s <= view_lastcol s' /\
  (forall w, In w (map fst (o_swept out)) ->
     view_lastcol s < w <= view_lastcol s' /\ w <= bcur_week s - USER_MAX_CLAIM_WEEKS - 1 /\
     exists c, op = HBase (BCollect c)) /\
  NoDup (map fst (o_swept out)).
Proof. exact hstep_sweeps. Qed.
Print Assumptions C11_hosts_undistributed_outside_window.

Theorem C11_hosts_leftover_collected : forall epoch ops w,
  let s := fst (hgrun (init_b epoch, bg0) ops) in let g := snd (hgrun (init_b epoch, bg0) ops) in
  view_und s = g_tswept g /\ 0 <= view_und s /\
  (1 <= w <= view_lastcol s ->
     view_acc s w = 0 /\ view_rem s w = 0 /\ gswept g w = gcuts g w - gpaid g w /\
     w <= bcur_week s - USER_MAX_CLAIM_WEEKS - 1) /\
  (gswept g w <> 0 -> 1 <= w <= view_lastcol s).
Proof. exact hreach_leftover. Qed.
Print Assumptions C11_hosts_leftover_collected.

Theorem C11_hosts_leftover_collectable : forall epoch ops w,
  let s := fst (hgrun (init_b epoch, bg0) ops) in
  1 <= w <= bcur_week s - USER_MAX_CLAIM_WEEKS - 1 ->
  exists s' out, hstep s (HBase (BCollect ADMIN)) = Ok (s', out) /\ w <= view_lastcol s' /\
                 (view_lastcol s < w -> In w (map fst (o_swept out))).
Proof. exact hreach_collectable. Qed.
Print Assumptions C11_hosts_leftover_collectable.

(** ------------------------------------------------------------------ 6. the factors of a week; no division by zero *)
Theorem C11_hosts_factors_reach : forall epoch ops,
  let s := fst (hgrun (init_b epoch, bg0) ops) in let g := snd (hgrun (init_b epoch, bg0) ops) in
  let cw := bcur_week s in
  match bh_cfg (b_h s), g_fac g with
  | None, None => True
  | Some c, Some (f0, log) =>
      c_last c <= cw /\ Forall (fun ev => fst ev <= cw) log /\
      view_factors s = Some (fac_at f0 log cw) /\
      exists cfg, cfg_update c cw None = Ok cfg /\
        forall w, (cw - NSLOTS < w < cw -> get_factors_for_week cfg w = Ok (fac_at f0 log w)) /\
                  (forall fa, get_factors_for_week cfg w = Ok fa -> cw - NSLOTS < w < cw /\ fa = fac_at f0 log w)
  | _, _ => False
  end.
Proof. exact hreach_factors. Qed.
Print Assumptions C11_hosts_factors_reach.

Theorem C11_hosts_factors_log : forall ops s g,
  match g_fac (snd (hgrun (s, g) ops)), g_fac g with
  | Some (f0, log), Some (f0', log') => f0 = f0' /\ log = log' ++ hfac_calls s ops
  | Some (f0, log), None => exists cw0 rest, hfac_calls s ops = (cw0, f0) :: rest /\ log = rest
  | None, None => hfac_calls s ops = []
  | None, Some _ => False
  end.
Proof. exact hfac_log_is_calls. Qed.
Print Assumptions C11_hosts_factors_log.

Theorem C11_hosts_no_division_by_zero : forall epoch ops,
  let s := fst (hgrun (init_b epoch, bg0) ops) in let cw := bcur_week s in
  forall c, bh_cfg (b_h s) = Some c ->
    (forall fa, In fa (c_slots c) -> fac_ok fa) /\
    forall cfg, cfg_update c cw None = Ok cfg ->
      (forall fa, In fa (c_slots cfg) -> fac_ok fa) /\
      (forall w fa, get_factors_for_week cfg w = Ok fa ->
         fac_ok fa /\ forall x, div_chk x (fa_ce fa + fa_cf fa) = Ok (x / (fa_ce fa + fa_cf fa))) /\
      (forall pos h0 s0 w e E err, boosted_hook pos cfg cw h0 s0 w e E = Err err ->
         (exists e1, get_factors_for_week cfg w = Err e1) \/
         (exists e1, b_collect_and_get cw h0 s0 w = Err e1) \/
         (exists h1 s1 tot, b_collect_and_get cw h0 s0 w = Ok (h1, s1, tot) /\ (2 <= length tot)%nat) \/
         (exists fa h1 s1 t R,
            get_factors_for_week cfg w = Ok fa /\ b_collect_and_get cw h0 s0 w = Ok (h1, s1, [(t, R)]) /\ R <> 0 /\
            0 < boosted_amount fa R pos (aget (bh_sup h0) w) e E /\
            aget (bh_rem h1) w < boosted_amount fa R pos (aget (bh_sup h0) w) e E)).
Proof. exact hreach_no_div0. Qed.
Print Assumptions C11_hosts_no_division_by_zero.

(** ------------------------------------------------------------------ 7. conservation *)
Theorem C11_hosts_conservation : forall epoch ops,
  let s := fst (hgrun (init_b epoch, bg0) ops) in let g := snd (hgrun (init_b epoch, bg0) ops) in
  asum (bh_acc (b_h s)) + asum (bh_rem (b_h s)) + view_und s + g_tpaid g = g_tcuts g /\
  view_und s = g_tswept g /\ NoDup (akeys (bh_acc (b_h s))) /\ NoDup (akeys (bh_rem (b_h s))).
Proof. exact hreach_conservation. Qed.
Print Assumptions C11_hosts_conservation.

(** Non-vacuity.  Factors (2,3,2,1,1), percentage 25 %.
    Locked farm: users 1 and 2 enter in week 1 (pool 500); in week 2 user 1 ENTERS again with the old position 100: the
    claim pays 276 with the entry (6930,12,10), the payout is locked (energy entry becomes (7930,12,286)) and the
    progress records THAT entry; user 2 claims 223.
    Staking: in week 2 user 1 claims with the staking pattern (energy update after the claim), user 2 compounds
    (no energy update) and later unstakes below the minimum position (progress cleared before the supply is recorded);
    the results equal the dex/farm operations BCompound / BClaim / BExit. *)
Definition c11_hosts_locked_ops : list hop :=
  [HBase (BSetPct 100 2500 0); HBase (BSetFactors 100 (mkFac 2 3 2 1 1));
   HLEnter true 1 (mkEn 7000 5 10) (mkEn 7000 5 10) 0 1000 100;
   HLEnter true 2 (mkEn 3000 5 10) (mkEn 3000 5 10) 0 1000 300;
   HBase (BAdvance 7);
   HLEnter true 1 (mkEn 6930 12 10) (mkEn 7930 12 286) 100 4000 350;
   HBase (BClaim true 2 (mkEn 2930 12 10) 200 400 350)].
Definition c11_hosts_staking_ops : list hop :=
  [HBase (BSetPct 100 2500 0); HBase (BSetFactors 100 (mkFac 2 3 2 1 1));
   HBase (BEnter true 1 (mkEn 7000 5 10) 0 1000 100);
   HBase (BEnter true 2 (mkEn 3000 5 10) 0 1000 300);
   HBase (BAdvance 7);
   HSClaim true 1 (mkEn 6930 12 10) 100 4000 300;
   HSCompound true 2 (mkEn 2930 12 10) 200 400 523;
   HSUnstake true 2 (mkEn 2930 12 10) 423 0 100 100].
Example C11_hosts_nonvacuous :
  let sl := hgrun (init_b 5, bg0) c11_hosts_locked_ops in
  let ss := hgrun (init_b 5, bg0) c11_hosts_staking_ops in
  hrun_log (init_b 5) c11_hosts_locked_ops = [(1, 1); (2, 1)] /\
  gpaid (snd sl) 1 = 499 /\ gcuts (snd sl) 1 = 500 /\ view_rem (fst sl) 1 = 1 /\ gcuts (snd sl) 2 = 1100 /\
  view_progress (fst sl) 1 = Some (mkProg (mkEn 7930 12 286) 2) /\
  view_progress (fst sl) 2 = Some (mkProg (mkEn 2930 12 10) 2) /\
  view_total_energy (fst sl) 2 = 7930 + 2930 /\ view_sup (fst sl) 2 = 350 /\
  hrun_log (init_b 5) c11_hosts_staking_ops = [(1, 1); (2, 1)] /\
  gpaid (snd ss) 1 = 499 /\ view_rem (fst ss) 1 = 1 /\ gcuts (snd ss) 2 = 1125 /\
  view_progress (fst ss) 1 = Some (mkProg (mkEn 6930 12 10) 2) /\ view_progress (fst ss) 2 = None /\
  view_total_energy (fst ss) 2 = 6930 /\ view_sup (fst ss) 2 = 100 /\
  hstep (fst ss) (HBase (BSetFactors 100 (mkFac 2 0 0 1 1))) = Err EGuard.
Proof. vm_compute. repeat split. Qed.
