(** C19 (continuation) - acting on behalf of another user, BEHAVIOURALLY.

    "... acting on behalf of another user requires ... the user's explicit, non-blacklisted authorisation in the
    permissions hub, and rewards claimed on behalf go to the position owner."  Props/C19.v proves this on the access
    table (who may call what); here the on-behalf endpoints of dex/farm, farm-with-locked-rewards and farm-staking are
    part of the behavioural models (Model/FarmBehalf.v, Model/StakingBehalf.v) with the permissions hub as state, and
    the clause is proved about what the endpoints DO, for every state satisfying the models' invariants ([BOK], [LBOK],
    [SBOK], which hold on every reachable state - Props/C07_behalf.v) and for every history:
      (2) a successful call: the hub lists the caller for the user and does not blacklist it, EVERY paid position records
          the user (non-zero), the rewards (base + boosted; LOCKED tokens in the locked farm) are credited to the user and
          to nobody else, the new position is held by the caller and records the user, the user's total moves as if the
          user had acted, the farming tokens of an enter come from the caller;
      (3) an unauthorised / revoked / blacklisted caller, or a position of another owner at any payment index, makes the
          call fail with the state unchanged;
      (4) no on-behalf operation pays out principal: over any history an account that does not itself exit (unbond)
          receives no farming (staking) tokens. *)
From MX Require Import Base.Prelude Gen.Params Model.Farm Proofs.FarmInv Proofs.FarmSolv Proofs.FarmOwner.
From MX Require Import Model.FarmLocked Proofs.FarmLockedProofs Model.FarmBehalf.
From MX Require Model.Access.
From MX Require Import Proofs.BehalfProofs.
Import BehalfProofs.FarmB.

(** ------------------------------------------------------------------ (2) dex/farm *)
Theorem C19_behalf_enter_farm : forall s blk ep a u amt adds b s' o,
  bstep s (BEnterOB blk ep a u amt adds b) = Ok (s', o) -> BOK s -> valid_id a -> valid_id u ->
  let f := b_f s in let f' := b_f s' in
  Access.pmem (u, a) (Access.h_wl (b_hub s)) = true /\ Access.zmem a (Access.h_black (b_hub s)) = false /\ owned f u adds /\
  b_hub s' = b_hub s /\
  exists m,
    o = [f_next f; a_amt m; b] /\
    find_attrs (f_attrs f') (f_next f) = Some m /\ a_owner m = u /\ a_amt m = amt + psum (fun _ => 1) adds /\
    held f' (f_next f) a = a_amt m /\ (a <> u -> held f' (f_next f) u = 0) /\
    (forall v, utot f' v = utot f v + (if v =? u then amt else 0)) /\
    aget (b_rew s') u = aget (b_rew s) u + b /\ (forall v, v <> u -> aget (b_rew s') v = aget (b_rew s) v) /\
    aget (b_fin s') a = aget (b_fin s) a + amt /\ (forall v, v <> a -> aget (b_fin s') v = aget (b_fin s) v) /\
    b_fout s' = b_fout s /\ f_bal_farming f' = f_bal_farming f + amt.
Proof. exact enter_on_behalf_spec. Qed.
Print Assumptions C19_behalf_enter_farm.

Theorem C19_behalf_claim_farm : forall s blk ep a first adds b s' o,
  bstep s (BClaimOB blk ep a first adds b) = Ok (s', o) -> BOK s -> valid_id a ->
  let f := b_f s in let f' := b_f s' in
  exists u m r,
    u <> 0 /\ owned f u (first :: adds) /\
    Access.pmem (u, a) (Access.h_wl (b_hub s)) = true /\ Access.zmem a (Access.h_black (b_hub s)) = false /\
    b_hub s' = b_hub s /\
    o = [f_next f; a_amt m; r] /\
    find_attrs (f_attrs f') (f_next f) = Some m /\ a_owner m = u /\ a_amt m = snd first + psum (fun _ => 1) adds /\
    held f' (f_next f) a = a_amt m /\ (a <> u -> held f' (f_next f) u = 0) /\
    (forall v, utot f' v = utot f v) /\
    aget (b_rew s') u = aget (b_rew s) u + r /\ (forall v, v <> u -> aget (b_rew s') v = aget (b_rew s) v) /\
    b_fin s' = b_fin s /\ b_fout s' = b_fout s /\ f_bal_farming f' = f_bal_farming f.
Proof. exact claim_on_behalf_spec. Qed.
Print Assumptions C19_behalf_claim_farm.

(** ------------------------------------------------------------------ (2) farm-with-locked-rewards: the reward is LOCKED tokens
    created for the user (destination and energy address of lockVirtual = the user) with the farm's lock period *)
Theorem C19_behalf_enter_locked : forall s blk ep a u amt adds b s' o rc,
  lbstep s (LBEnterOB blk ep a u amt adds b) = Ok (s', o, rc) -> LBOK s -> valid_id a -> valid_id u ->
  let f := l_f (lb_s s) in let f' := l_f (lb_s s') in
  Access.pmem (u, a) (Access.h_wl (lb_hub s)) = true /\ Access.zmem a (Access.h_black (lb_hub s)) = false /\ owned f u adds /\
  lb_hub s' = lb_hub s /\
  exists m,
    o = [f_next f; a_amt m; b] /\
    find_attrs (f_attrs f') (f_next f) = Some m /\ a_owner m = u /\ a_amt m = amt + psum (fun _ => 1) adds /\
    held f' (f_next f) a = a_amt m /\ (a <> u -> held f' (f_next f) u = 0) /\
    (forall v, utot f' v = utot f v + (if v =? u then amt else 0)) /\
    rc = receipts_of u b (unlock_of ep (l_lock (lb_s s))) /\
    (forall v, aget (lb_lk s') v = aget (lb_lk s) v + (if v =? u then Z.max 0 b else 0)) /\
    aget (lb_fin s') a = aget (lb_fin s) a + amt /\ (forall v, v <> a -> aget (lb_fin s') v = aget (lb_fin s) v) /\
    lb_fout s' = lb_fout s.
Proof. exact locked_enter_on_behalf_spec. Qed.
Print Assumptions C19_behalf_enter_locked.

Theorem C19_behalf_claim_locked : forall s blk ep a first adds b s' o rc,
  lbstep s (LBClaimOB blk ep a first adds b) = Ok (s', o, rc) -> LBOK s -> valid_id a ->
  let f := l_f (lb_s s) in let f' := l_f (lb_s s') in
  exists u m r,
    u <> 0 /\ owned f u (first :: adds) /\
    Access.pmem (u, a) (Access.h_wl (lb_hub s)) = true /\ Access.zmem a (Access.h_black (lb_hub s)) = false /\
    lb_hub s' = lb_hub s /\
    o = [f_next f; a_amt m; r] /\
    find_attrs (f_attrs f') (f_next f) = Some m /\ a_owner m = u /\ a_amt m = snd first + psum (fun _ => 1) adds /\
    held f' (f_next f) a = a_amt m /\ (a <> u -> held f' (f_next f) u = 0) /\
    (forall v, utot f' v = utot f v) /\
    rc = receipts_of u r (unlock_of ep (l_lock (lb_s s))) /\
    (forall v, aget (lb_lk s') v = aget (lb_lk s) v + (if v =? u then Z.max 0 r else 0)) /\
    lb_fin s' = lb_fin s /\ lb_fout s' = lb_fout s.
Proof. exact locked_claim_on_behalf_spec. Qed.
Print Assumptions C19_behalf_claim_locked.

(** ------------------------------------------------------------------ (3) failure with the state unchanged *)
Theorem C19_behalf_farm_enter_unauthorised : forall s blk ep a u amt adds b,
  Access.is_whitelisted (b_hub s) u a = false -> bstep_total s (BEnterOB blk ep a u amt adds b) = s.
Proof. exact enter_unauthorised_unchanged. Qed.
Print Assumptions C19_behalf_farm_enter_unauthorised.

Theorem C19_behalf_farm_enter_foreign_owner : forall s blk ep a u amt adds b i n x own,
  nth_error adds i = Some (n, x) -> find_attrs (f_attrs (b_f s)) n = Some own -> a_owner own <> u ->
  bstep_total s (BEnterOB blk ep a u amt adds b) = s.
Proof. exact enter_foreign_unchanged. Qed.
Print Assumptions C19_behalf_farm_enter_foreign_owner.

Theorem C19_behalf_farm_claim_unauthorised : forall s blk ep a first adds b own,
  find_attrs (f_attrs (b_f s)) (fst first) = Some own -> Access.is_whitelisted (b_hub s) (a_owner own) a = false ->
  bstep_total s (BClaimOB blk ep a first adds b) = s.
Proof. exact claim_unauthorised_unchanged. Qed.
Print Assumptions C19_behalf_farm_claim_unauthorised.

Theorem C19_behalf_farm_claim_mixed_owners : forall s blk ep a first adds b i j n1 x1 n2 x2 o1 o2,
  nth_error (first :: adds) i = Some (n1, x1) -> nth_error (first :: adds) j = Some (n2, x2) ->
  find_attrs (f_attrs (b_f s)) n1 = Some o1 -> find_attrs (f_attrs (b_f s)) n2 = Some o2 -> a_owner o1 <> a_owner o2 ->
  bstep_total s (BClaimOB blk ep a first adds b) = s.
Proof. exact claim_mixed_unchanged. Qed.
Print Assumptions C19_behalf_farm_claim_mixed_owners.

Theorem C19_behalf_locked_enter_unauthorised : forall s blk ep a u amt adds b,
  Access.is_whitelisted (lb_hub s) u a = false -> lbstep_total s (LBEnterOB blk ep a u amt adds b) = s.
Proof. exact locked_enter_unauthorised_unchanged. Qed.
Print Assumptions C19_behalf_locked_enter_unauthorised.

Theorem C19_behalf_locked_enter_foreign_owner : forall s blk ep a u amt adds b i n x own,
  nth_error adds i = Some (n, x) -> find_attrs (f_attrs (l_f (lb_s s))) n = Some own -> a_owner own <> u ->
  lbstep_total s (LBEnterOB blk ep a u amt adds b) = s.
Proof. exact locked_enter_foreign_unchanged. Qed.
Print Assumptions C19_behalf_locked_enter_foreign_owner.

Theorem C19_behalf_locked_claim_unauthorised : forall s blk ep a first adds b own,
  find_attrs (f_attrs (l_f (lb_s s))) (fst first) = Some own -> Access.is_whitelisted (lb_hub s) (a_owner own) a = false ->
  lbstep_total s (LBClaimOB blk ep a first adds b) = s.
Proof. exact locked_claim_unauthorised_unchanged. Qed.
Print Assumptions C19_behalf_locked_claim_unauthorised.

Theorem C19_behalf_locked_claim_mixed_owners : forall s blk ep a first adds b i j n1 x1 n2 x2 o1 o2,
  nth_error (first :: adds) i = Some (n1, x1) -> nth_error (first :: adds) j = Some (n2, x2) ->
  find_attrs (f_attrs (l_f (lb_s s))) n1 = Some o1 -> find_attrs (f_attrs (l_f (lb_s s))) n2 = Some o2 -> a_owner o1 <> a_owner o2 ->
  lbstep_total s (LBClaimOB blk ep a first adds b) = s.
Proof. exact locked_claim_mixed_unchanged. Qed.
Print Assumptions C19_behalf_locked_claim_mixed_owners.

(** over histories: after the user's removeWhitelist(agent), and until the user lists the agent again, every on-behalf enter
    of that agent for that user fails and changes nothing - whatever else happens in between *)
Theorem C19_behalf_farm_revoked_agent : forall s s1 u a ops blk ep amt adds b,
  bstep s (BHub (Access.HRemoveWhitelist u a)) = Ok (s1, []) ->
  ~ In (Access.HWhitelist u a) (hub_ops_of ops) ->
  let s2 := brun s1 ops in
  bstep_total s2 (BEnterOB blk ep a u amt adds b) = s2.
Proof. exact revoked_agent_fails. Qed.
Print Assumptions C19_behalf_farm_revoked_agent.

(** a blacklisted agent, while the hub's owner does not lift the blacklisting - for every user, listed or not *)
Theorem C19_behalf_farm_blacklisted_agent : forall s a ops u blk ep amt adds b,
  Access.zmem a (Access.h_black (b_hub s)) = true ->
  ~ In (Access.HRemoveBlacklist (Access.h_owner (b_hub s)) a) (hub_ops_of ops) ->
  let s2 := brun s ops in
  bstep_total s2 (BEnterOB blk ep a u amt adds b) = s2.
Proof. exact blacklisted_agent_fails. Qed.
Print Assumptions C19_behalf_farm_blacklisted_agent.

Theorem C19_behalf_locked_revoked_agent : forall s s1 u a ops blk ep amt adds b,
  lbstep s (LBHub (Access.HRemoveWhitelist u a)) = Ok (s1, [], []) ->
  ~ In (Access.HWhitelist u a) (lhub_ops_of ops) ->
  let s2 := lbrun s1 ops in
  lbstep_total s2 (LBEnterOB blk ep a u amt adds b) = s2.
Proof. exact locked_revoked_agent_fails. Qed.
Print Assumptions C19_behalf_locked_revoked_agent.

Theorem C19_behalf_locked_blacklisted_agent : forall s a ops u blk ep amt adds b,
  Access.zmem a (Access.h_black (lb_hub s)) = true ->
  ~ In (Access.HRemoveBlacklist (Access.h_owner (lb_hub s)) a) (lhub_ops_of ops) ->
  let s2 := lbrun s ops in
  lbstep_total s2 (LBEnterOB blk ep a u amt adds b) = s2.
Proof. exact locked_blacklisted_agent_fails. Qed.
Print Assumptions C19_behalf_locked_blacklisted_agent.

(** ------------------------------------------------------------------ (4) no principal through on-behalf operations:
    over ANY history an account that does not itself call exitFarm receives no farming tokens from the farm *)
Theorem C19_behalf_farm_no_principal : forall ops s x, Forall (fun op => ~ own_exit x op) ops ->
  aget (b_fout (brun s ops)) x = aget (b_fout s) x.
Proof. exact no_principal_without_exit. Qed.
Print Assumptions C19_behalf_farm_no_principal.

Theorem C19_behalf_locked_no_principal : forall ops s x, Forall (fun op => ~ lown_exit x op) ops ->
  aget (lb_fout (lbrun s ops)) x = aget (lb_fout s) x.
Proof. exact locked_no_principal_without_exit. Qed.
Print Assumptions C19_behalf_locked_no_principal.

Definition C19_behalf_example : list bop :=
  [BF (FSetRate 10 100 1000); BF (FSetState 100 1); BF (FStart 10 100);
   BHub (Access.HWhitelist 1 4); BHub (Access.HWhitelist 2 4);
   BEnterOB 20 5 4 1 1000 [] 0; BEnterOB 30 5 4 1 500 [(1, 400)] 0; BEnterOB 30 5 4 2 700 [] 0;
   BClaimOB 40 5 4 (2, 900) [(1, 600)] 0].

(** in the reached state agent 4 holds position 4 (user 1's) and position 3 (user 2's): claiming for user 1 works; mixing in
    user 2's position at index 1, entering for user 1 with user 2's position, an unlisted agent, a blacklisted or revoked
    agent all fail; after user 1 revoked the agent it can still act for user 2 *)
Example C19_behalf_nonvacuous :
  let s := brun (init_b 1000000000000 false 100) C19_behalf_example in
  aget (b_rew s) 1 = 8090 /\ aget (b_rew s) 4 = 0 /\ aget (b_fout s) 4 = 0 /\
  is_ok (bstep s (BClaimOB 50 5 4 (4, 1500) [] 0)) = true /\
  is_ok (bstep s (BClaimOB 50 5 4 (4, 1500) [(3, 700)] 0)) = false /\
  is_ok (bstep s (BEnterOB 50 5 4 1 5 [(3, 700)] 0)) = false /\
  is_ok (bstep s (BEnterOB 50 5 5 1 5 [] 0)) = false /\
  is_ok (bstep (bstep_total s (BHub (Access.HBlacklist 100 4))) (BClaimOB 50 5 4 (4, 1500) [] 0)) = false /\
  is_ok (bstep (bstep_total s (BHub (Access.HRemoveWhitelist 1 4))) (BClaimOB 50 5 4 (4, 1500) [] 0)) = false /\
  is_ok (bstep (bstep_total s (BHub (Access.HRemoveWhitelist 1 4))) (BClaimOB 50 5 4 (3, 700) [] 0)) = true.
Proof. vm_compute. repeat split. Qed.

(** ================================================================================================== farm-staking *)
From MX Require Import Model.Staking Model.StakingPos Proofs.StakingProofs Proofs.StakingPosProofs Model.StakingBehalf.
Import BehalfProofs.StakB.

Theorem C19_behalf_stake_staking : forall s blk ep a u amt adds b s' o,
  sbstep s (SBStakeOB blk ep a u amt adds b) = Ok (s', o) -> SBOK s -> valid_id a -> valid_id u ->
  let sp := sb_p s in let sp' := sb_p s' in
  Access.pmem (u, a) (Access.h_wl (sb_hub s)) = true /\ Access.zmem a (Access.h_black (sb_hub s)) = false /\
  sowned sp u adds /\ sb_hub s' = sb_hub s /\
  exists m,
    o = [s_next (p_s sp); sa_amt m; b] /\
    find_sattrs (p_attrs sp') (s_next (p_s sp)) = Some m /\ sa_owner m = u /\ sa_amt m = amt + psum (fun _ => 1) adds /\
    held sp' (s_next (p_s sp)) a = sa_amt m /\ (a <> u -> held sp' (s_next (p_s sp)) u = 0) /\
    (forall k at_, find_sattrs (p_attrs sp) k = Some at_ -> find_sattrs (p_attrs sp') k = Some at_) /\
    (forall v, utot sp' v = utot sp v + (if v =? u then amt else 0)) /\
    aget (sb_rew s') u = aget (sb_rew s) u + b /\ (forall v, v <> u -> aget (sb_rew s') v = aget (sb_rew s) v) /\
    aget (sb_in s') a = aget (sb_in s) a + amt /\ (forall v, v <> a -> aget (sb_in s') v = aget (sb_in s) v) /\
    sb_out s' = sb_out s.
Proof. exact stake_on_behalf_spec. Qed.
Print Assumptions C19_behalf_stake_staking.

Theorem C19_behalf_claim_staking : forall s blk ep a first adds b s' o,
  sbstep s (SBClaimOB blk ep a first adds b) = Ok (s', o) -> SBOK s -> valid_id a ->
  let sp := sb_p s in let sp' := sb_p s' in
  exists u m r,
    u <> 0 /\ sowned sp u (first :: adds) /\
    Access.pmem (u, a) (Access.h_wl (sb_hub s)) = true /\ Access.zmem a (Access.h_black (sb_hub s)) = false /\
    sb_hub s' = sb_hub s /\
    o = [s_next (p_s sp); sa_amt m; r] /\
    find_sattrs (p_attrs sp') (s_next (p_s sp)) = Some m /\ sa_owner m = u /\ sa_amt m = snd first + psum (fun _ => 1) adds /\
    held sp' (s_next (p_s sp)) a = sa_amt m /\ (a <> u -> held sp' (s_next (p_s sp)) u = 0) /\
    (forall k at_, find_sattrs (p_attrs sp) k = Some at_ -> find_sattrs (p_attrs sp') k = Some at_) /\
    (forall v, utot sp' v = utot sp v) /\
    aget (sb_rew s') u = aget (sb_rew s) u + r /\ (forall v, v <> u -> aget (sb_rew s') v = aget (sb_rew s) v) /\
    sb_in s' = sb_in s /\ sb_out s' = sb_out s.
Proof. exact staking_claim_on_behalf_spec. Qed.
Print Assumptions C19_behalf_claim_staking.

Theorem C19_behalf_staking_stake_unauthorised : forall s blk ep a u amt adds b,
  Access.is_whitelisted (sb_hub s) u a = false -> sbstep_total s (SBStakeOB blk ep a u amt adds b) = s.
Proof. exact stake_unauthorised_unchanged. Qed.
Print Assumptions C19_behalf_staking_stake_unauthorised.

Theorem C19_behalf_staking_stake_foreign_owner : forall s blk ep a u amt adds b i n x own,
  nth_error adds i = Some (n, x) -> find_sattrs (p_attrs (sb_p s)) n = Some own -> sa_owner own <> u ->
  sbstep_total s (SBStakeOB blk ep a u amt adds b) = s.
Proof. exact stake_foreign_unchanged. Qed.
Print Assumptions C19_behalf_staking_stake_foreign_owner.

Theorem C19_behalf_staking_claim_unauthorised : forall s blk ep a first adds b own,
  find_sattrs (p_attrs (sb_p s)) (fst first) = Some own -> Access.is_whitelisted (sb_hub s) (sa_owner own) a = false ->
  sbstep_total s (SBClaimOB blk ep a first adds b) = s.
Proof. exact staking_claim_unauthorised_unchanged. Qed.
Print Assumptions C19_behalf_staking_claim_unauthorised.

Theorem C19_behalf_staking_claim_mixed_owners : forall s blk ep a first adds b i j n1 x1 n2 x2 o1 o2,
  nth_error (first :: adds) i = Some (n1, x1) -> nth_error (first :: adds) j = Some (n2, x2) ->
  find_sattrs (p_attrs (sb_p s)) n1 = Some o1 -> find_sattrs (p_attrs (sb_p s)) n2 = Some o2 -> sa_owner o1 <> sa_owner o2 ->
  sbstep_total s (SBClaimOB blk ep a first adds b) = s.
Proof. exact staking_claim_mixed_unchanged. Qed.
Print Assumptions C19_behalf_staking_claim_mixed_owners.

Theorem C19_behalf_staking_revoked_agent : forall s s1 u a ops blk ep amt adds b,
  sbstep s (SBHub (Access.HRemoveWhitelist u a)) = Ok (s1, []) ->
  ~ In (Access.HWhitelist u a) (shub_ops_of ops) ->
  let s2 := sbrun s1 ops in
  sbstep_total s2 (SBStakeOB blk ep a u amt adds b) = s2.
Proof. exact staking_revoked_agent_fails. Qed.
Print Assumptions C19_behalf_staking_revoked_agent.

Theorem C19_behalf_staking_blacklisted_agent : forall s a ops u blk ep amt adds b,
  Access.zmem a (Access.h_black (sb_hub s)) = true ->
  ~ In (Access.HRemoveBlacklist (Access.h_owner (sb_hub s)) a) (shub_ops_of ops) ->
  let s2 := sbrun s ops in
  sbstep_total s2 (SBStakeOB blk ep a u amt adds b) = s2.
Proof. exact staking_blacklisted_agent_fails. Qed.
Print Assumptions C19_behalf_staking_blacklisted_agent.

(** staking tokens reach an account as principal only through that account's own unbondFarm: there is no unstake- or
    unbond-on-behalf *)
Theorem C19_behalf_staking_no_principal : forall ops s x, Forall (fun op => ~ own_unbond x op) ops ->
  aget (sb_out (sbrun s ops)) x = aget (sb_out s) x.
Proof. exact staking_no_principal_without_unbond. Qed.
Print Assumptions C19_behalf_staking_no_principal.
