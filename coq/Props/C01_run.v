(** C01, continued — over WHOLE histories.  Props/C01.v has the invariant for every reachable state and the
    one-step excess statement; here the excess (real balance − booked reserve: rounding dust and donations) is shown
    never to shrink over any operation sequence, failed calls included.  Proof in Proofs/PairHistory.v. *)
From MX Require Import Base.Prelude Gen.Params Model.Pair Proofs.PairInv Proofs.PairHistory.

Theorem C01_run_excess_monotone : forall ops p, PairInv p ->
  p_bal1 p - p_r1 p <= p_bal1 (run p ops) - p_r1 (run p ops) /\
  p_bal2 p - p_r2 p <= p_bal2 (run p ops) - p_r2 (run p ops).
Proof. exact run_excess. Qed.
Print Assumptions C01_run_excess_monotone.
