(** C20 — Quotes equal execution: a view's promise is what the operation delivers.
    "In any state, the amount a read-only quote returns is exactly what executing the corresponding
    operation in that same state delivers ... Quoting never changes state."

    Views: coq/Model/Quotes.v (QPair, QFarm, QStk, QPen, QPd); operations: the subsystem models.
    Every theorem is for ALL states satisfying the subsystem invariant and all arguments. *)
From MX Require Import Base.Prelude Gen.Params Model.Quotes Proofs.QuotesProofs.
From MX Require Model.Pair Model.Farm Model.Staking Model.Penalty Model.PriceDiscovery.
From MX Require Proofs.PairInv Proofs.FarmInv Proofs.PenaltyProofs.

(** ------------------------------------------------------------------ pair: getAmountOut / swapTokensFixedInput
    search focus: fee 0 and maximal, reserves 1..1e30, inputs where the floor is inexact *)
Theorem C20_amount_out : forall p c tin ain tout mn p' outs e,
  PairInv.PairInv p -> Pair.ep_swap_in p c tin ain tout mn = Ok (p', outs, e) ->
  exists y, QPair.get_amount_out p tin ain = Ok y /\ outs = [y] /\ 0 < mn <= y.
Proof. exact PairQ.amount_out_exec. Qed.
Print Assumptions C20_amount_out.

(** the view's guards (zero input, zero reserve, unknown token, amount not below the reserve) and a
    quote of 0 are refusals of the swap as well *)
Theorem C20_amount_out_refuses : forall p c tin ain tout mn,
  PairInv.PairInv p -> (forall y, QPair.get_amount_out p tin ain = Ok y -> y = 0) ->
  is_ok (Pair.ep_swap_in p c tin ain tout mn) = false.
Proof. exact PairQ.amount_out_refuses. Qed.
Print Assumptions C20_amount_out_refuses.

(** conversely a positive quote IS delivered for the opposite token in the Active state with any
    minimum up to the quote, as long as no special-fee destination is configured (with one, the swap
    can additionally fail inside send_fee, which the view does not evaluate) *)
Theorem C20_amount_out_live : forall p c tin ain tout mn y ord,
  PairInv.PairInv p -> QPair.get_amount_out p tin ain = Ok y -> 0 < y ->
  Pair.swap_order tin tout = Ok ord -> Pair.p_state p = ST_Active -> 0 < mn <= y -> Pair.fee_enabled p = false ->
  exists p', Pair.ep_swap_in p c tin ain tout mn = Ok (p', [y], Pair.no_eff).
Proof. exact PairQ.amount_out_live. Qed.
Print Assumptions C20_amount_out_live.

(** ------------------------------------------------------------------ pair: getAmountIn / swapTokensFixedOutput
    charged = quote; returned = [amount wanted; maximum - quote] *)
Theorem C20_amount_in : forall p c tin amax tout aout p' outs e,
  PairInv.PairInv p -> Pair.ep_swap_out p c tin amax tout aout = Ok (p', outs, e) ->
  exists x, QPair.get_amount_in p tout aout = Ok x /\ outs = [aout; amax - x] /\ 0 < x <= amax.
Proof. exact PairQ.amount_in_exec. Qed.
Print Assumptions C20_amount_in.

Theorem C20_amount_in_refuses : forall p c tin amax tout aout er,
  PairInv.PairInv p -> QPair.get_amount_in p tout aout = Err er ->
  is_ok (Pair.ep_swap_out p c tin amax tout aout) = false.
Proof. exact PairQ.amount_in_err. Qed.
Print Assumptions C20_amount_in_refuses.

Theorem C20_amount_in_live : forall p c tin amax tout aout x ord,
  PairInv.PairInv p -> QPair.get_amount_in p tout aout = Ok x ->
  Pair.swap_order tin tout = Ok ord -> Pair.p_state p = ST_Active -> x <= amax -> Pair.fee_enabled p = false ->
  exists p', Pair.ep_swap_out p c tin amax tout aout = Ok (p', [aout; amax - x], Pair.no_eff).
Proof. exact PairQ.amount_in_live. Qed.
Print Assumptions C20_amount_in_live.

(** ------------------------------------------------------------------ pair: getTokensForGivenPosition / removeLiquidity *)
Theorem C20_tokens_for_position : forall p c lp m1 m2 p' outs e,
  PairInv.PairInv p -> Pair.ep_remove p c lp m1 m2 = Ok (p', outs, e) ->
  outs = [fst (QPair.get_tokens_for_given_position p lp); snd (QPair.get_tokens_for_given_position p lp)].
Proof. exact PairQ.tokens_for_position_exec. Qed.
Print Assumptions C20_tokens_for_position.

(** the view has no guards; removal with minimum amounts 1 pays the quoted pair EXACTLY when
    [remove_guards] holds (active, caller other than the pair holds the LP, minimum liquidity stays,
    both quoted sides positive and below the reserves) and is refused otherwise *)
Theorem C20_tokens_for_position_iff : forall p c lp,
  PairInv.PairInv p -> (is_ok (Pair.ep_remove p c lp 1 1) = true <-> PairQ.remove_guards p c lp).
Proof. exact PairQ.tokens_for_position_iff. Qed.
Print Assumptions C20_tokens_for_position_iff.

Theorem C20_tokens_for_position_live : forall p c lp,
  PairInv.PairInv p -> PairQ.remove_guards p c lp ->
  exists p', Pair.ep_remove p c lp 1 1 =
    Ok (p', [fst (QPair.get_tokens_for_given_position p lp); snd (QPair.get_tokens_for_given_position p lp)], Pair.no_eff).
Proof. exact PairQ.tokens_for_position_live. Qed.
Print Assumptions C20_tokens_for_position_live.

(** ------------------------------------------------------------------ dex/farm (and farm-with-locked-rewards):
    calculateRewardsForGivenPosition(caller, amount, attributes) = what claimRewards pays, base + boosted(caller).
    [b] is the boosted amount of the caller in this state (input of Model/Farm.v, assumption A-C20-BOOSTED).
    search focus: blocks elapsed since the last settlement, partial positions, index differences below DSC *)
Theorem C20_farm_rewards : forall f blk ep c n0 x0 adds b f' o,
  FarmInv.FarmAcc f -> Farm.ep_claim f blk ep c (n0, x0) adds b = Ok (f', o) ->
  exists a nn amt v,
    Farm.find_attrs (Farm.f_attrs f) n0 = Some a /\ QFarm.calc_rewards f blk x0 a b = Ok v /\ o = [nn; amt; v].
Proof. exact FarmQ.farm_rewards_exec. Qed.
Print Assumptions C20_farm_rewards.

Theorem C20_farm_rewards_total : forall f blk x a b, FarmInv.MI f -> exists v, QFarm.calc_rewards f blk x a b = Ok v.
Proof. exact FarmQ.calc_rewards_total. Qed.
Print Assumptions C20_farm_rewards_total.

(** ------------------------------------------------------------------ farm-staking (after /repo e810a71, former finding F3).
    calculateRewardsForGivenPosition(amount, attributes, opt_user): user = opt_user, else attributes.original_owner.
    [bo u] is the boosted amount of user [u] in this state (input, assumption A-C20-BOOSTED; nothing is
    assumed about its values, in particular not that it is 0).
    The quote with the claimer passed explicitly - and the quote without the argument when the claimer is
    the recorded original owner - is exactly the reward claimRewards pays, in every state.
    search focus: claims in the week after energy was registered (boosted > 0), transferred positions *)
Theorem C20_staking_rewards : forall s blk ep c x arps bo s' o,
  QStk.claim s blk ep c x arps bo = Ok (s', o) ->
  exists nn v,
    o = [nn; x; v] /\
    (forall owner, QStk.calc_rewards s blk x arps owner (Some c) bo = Ok v) /\
    QStk.calc_rewards s blk x arps c None bo = Ok v.
Proof. exact StkQ.staking_rewards_exec. Qed.
Print Assumptions C20_staking_rewards.

(** nothing hidden: WITHOUT the argument, on a position whose recorded owner is not the claimer (a
    transferred position), the view adds the OWNER's boosted part; quote and payment then differ by
    exactly boosted(claimer) - boosted(owner) and agree iff those two amounts are equal *)
Theorem C20_staking_default_user : forall s blk ep c x arps owner bo s' nn amt paid v,
  QStk.claim s blk ep c x arps bo = Ok (s', [nn; amt; paid]) ->
  QStk.calc_rewards s blk x arps owner None bo = Ok v ->
  paid - v = bo c - bo owner /\ (owner = c -> v = paid) /\ (v = paid <-> bo owner = bo c).
Proof. exact StkQ.staking_default_user. Qed.
Print Assumptions C20_staking_default_user.

Theorem C20_staking_rewards_refuses : forall s blk ep c x arps owner ou bo er,
  QStk.calc_rewards s blk x arps owner ou bo = Err er -> is_ok (QStk.claim s blk ep c x arps bo) = false.
Proof. exact StkQ.staking_rewards_err. Qed.
Print Assumptions C20_staking_rewards_refuses.

(** ------------------------------------------------------------------ energy factory: getPenaltyAmount.
    unlockEarly: quote(amount, remaining epochs, 0) = locked amount parked - base asset minted;
    reduceLockPeriod: quote(amount, remaining epochs, remaining epochs of the token handed back) =
    amount - returned amount.
    search focus: remaining epochs at option boundaries, amounts 1 and 10000 +- 1, month boundaries *)
Theorem C20_penalty :
  (forall s c e amt s' o, Penalty.ep_unlock_early s c e amt = Ok (s', o) ->
     exists pen,
       QPen.get_penalty_amount s amt (QPen.prev_epochs s e) 0 = Ok pen /\ pen < amt /\
       Penalty.l_q s' = Penalty.l_q s ++
         [Penalty.mkE c (Penalty.l_now s + Penalty.c_unbond (Penalty.l_cfg s)) e amt (amt - pen)] /\
       Penalty.g_bmint (Penalty.l_g s') = Penalty.g_bmint (Penalty.l_g s) + (amt - pen) /\
       Penalty.bal (Penalty.l_led s') Penalty.UNSTAKE 0 = Penalty.bal (Penalty.l_led s) Penalty.UNSTAKE 0 + (amt - pen)) /\
  (forall b0 s c e amt le s' o, PenaltyProofs.Inv b0 s -> Penalty.ep_reduce s c e amt le = Ok (s', o) ->
     exists pen,
       QPen.get_penalty_amount s amt (QPen.prev_epochs s e) (QPen.new_epochs_reduce s le) = Ok pen /\ 0 <= pen < amt /\
       o = [Penalty.l_now s + QPen.new_epochs_reduce s le; amt - pen] /\
       0 < QPen.new_epochs_reduce s le < QPen.prev_epochs s e).
Proof. exact PenQ.penalty_quote. Qed.
Print Assumptions C20_penalty.

Theorem C20_penalty_refuses :
  (forall s c e amt er, QPen.get_penalty_amount s amt (QPen.prev_epochs s e) 0 = Err er ->
     is_ok (Penalty.ep_unlock_early s c e amt) = false) /\
  (forall b0 s c e amt le er, PenaltyProofs.Inv b0 s ->
     QPen.get_penalty_amount s amt (QPen.prev_epochs s e) (QPen.new_epochs_reduce s le) = Err er ->
     is_ok (Penalty.ep_reduce s c e amt le) = false).
Proof. exact PenQ.penalty_errors. Qed.
Print Assumptions C20_penalty_refuses.

(** conversely the quoted penalty IS charged: unlockEarly succeeds whenever the factory is not paused,
    the caller holds the still-locked token and the quote leaves something (quote < amount) *)
Theorem C20_penalty_unlock_early_live : forall b0 s c e amt pen,
  PenaltyProofs.Inv b0 s -> c <> Penalty.UNSTAKE -> Penalty.paused s = false -> 0 < e -> Penalty.l_now s < e ->
  0 < amt <= Penalty.bal (Penalty.l_led s) c e ->
  QPen.get_penalty_amount s amt (QPen.prev_epochs s e) 0 = Ok pen -> pen < amt ->
  exists s', Penalty.ep_unlock_early s c e amt = Ok (s', []) /\
    Penalty.l_q s' = Penalty.l_q s ++
      [Penalty.mkE c (Penalty.l_now s + Penalty.c_unbond (Penalty.l_cfg s)) e amt (amt - pen)].
Proof. exact PenQ.penalty_unlock_early_live. Qed.
Print Assumptions C20_penalty_unlock_early_live.

(** ------------------------------------------------------------------ price discovery.
    The gate and the penalty of deposit / withdraw / redeem are those of the phase getCurrentPhase
    reports in that block (and still reports after the operation); the price compared with the
    minimum is getCurrentPrice evaluated on the balances the operation leaves (same block).
    search focus: phase boundaries -1/0/+1, durations 0 and 1, amounts at the price floor +-1 *)
Theorem C20_phase_price :
  (forall s c tok amt s' o, PriceDiscovery.ep_deposit s c tok amt = Ok (s', o) ->
     exists ph price,
       QPd.current_phase s = Ok ph /\ PriceDiscovery.deposit_allowed ph = true /\ QPd.current_phase s' = Ok ph /\
       QPd.current_price s' = Ok price /\
       (tok = PriceDiscovery.TOK_L ->
        PriceDiscovery.p_ab s = 0 \/ PriceDiscovery.c_minp (PriceDiscovery.p_cfg s) <= price)) /\
  (forall s c n amt s' o, PriceDiscovery.ep_withdraw s c n amt = Ok (s', o) ->
     exists ph price,
       QPd.current_phase s = Ok ph /\ PriceDiscovery.withdraw_allowed ph = true /\ QPd.current_phase s' = Ok ph /\
       o = [amt - amt * PriceDiscovery.penalty_of ph / PriceDiscovery.MAXP] /\
       QPd.current_price s' = Ok price /\ PriceDiscovery.c_minp (PriceDiscovery.p_cfg s) <= price) /\
  (forall s c n amt s' o, PriceDiscovery.ep_redeem s c n amt = Ok (s', o) ->
     QPd.current_phase s = Ok PriceDiscovery.PhRedeem).
Proof. exact PdQ.phase_price_quote. Qed.
Print Assumptions C20_phase_price.

Theorem C20_phase_gates : forall s ph, QPd.current_phase s = Ok ph ->
  (PriceDiscovery.deposit_allowed ph = false -> forall c tok amt, is_ok (PriceDiscovery.ep_deposit s c tok amt) = false) /\
  (PriceDiscovery.withdraw_allowed ph = false -> forall c n amt, is_ok (PriceDiscovery.ep_withdraw s c n amt) = false) /\
  (PriceDiscovery.redeem_allowed ph = false -> forall c n amt, is_ok (PriceDiscovery.ep_redeem s c n amt) = false).
Proof. exact PdQ.gates_follow_view. Qed.
Print Assumptions C20_phase_gates.

Theorem C20_price_floor : forall s c amt price,
  0 < PriceDiscovery.p_ab s ->
  QPd.current_price (PriceDiscovery.set_tr s true (PriceDiscovery.p_lb s + amt)) = Ok price ->
  price < PriceDiscovery.c_minp (PriceDiscovery.p_cfg s) ->
  is_ok (PriceDiscovery.ep_deposit s c PriceDiscovery.TOK_L amt) = false.
Proof. exact PdQ.floor_follows_view. Qed.
Print Assumptions C20_price_floor.

(** ------------------------------------------------------------------ quoting never changes state.
    Views are functions [state -> value]: no state is returned, nothing can change (the harness checks
    the same on the contracts with storage digests around every query).  The reward views settle a
    storage cache first; that discarded cache is what the next claimRewards of the same block
    settles and keeps. *)
Theorem C20_views_pure :
  (forall f blk ep c n0 x0 adds b f' o,
     FarmInv.FarmAcc f -> Farm.ep_claim f blk ep c (n0, x0) adds b = Ok (f', o) ->
     exists f1 f2 fv,
       Farm.pay_all f c ((n0, x0) :: adds) = Ok f1 /\ Farm.settle f1 blk = Ok f2 /\
       QFarm.query_cache f blk = Ok fv /\ FarmInv.same_but_toks fv f2) /\
  (forall s blk ep c x arps bo s' o,
     QStk.claim s blk ep c x arps bo = Ok (s', o) ->
     exists s1 s2 r, QStk.query_cache s blk = Ok s1 /\ Staking.pay s1 r (bo c) = Ok s2 /\
                     s' = Staking.bump s2 /\ o = [Staking.s_next s2; x; r]).
Proof. exact views_pure. Qed.
Print Assumptions C20_views_pure.

(** ------------------------------------------------------------------ non-vacuity: concrete reachable states
    (the same histories are executed on the real contracts by tools/props/c20.py, CORPUS) *)
Example C20_pair_nonvacuous :
  let p := Pair.run (Pair.init_pair 300 50 None) [Pair.SetState Pair.OWNER 1; Pair.Add 1 1000000 4000000 1 1] in
  match Pair.step p (Pair.SwapIn 2 1 12345 2 1), QPair.get_amount_out p 1 12345 with
  | Ok (p1, [a], _), Ok y =>
      a = y /\ y = 48633 /\
      match Pair.step p1 (Pair.SwapOut 2 2 1000000000 1 777), QPair.get_amount_in p1 1 777 with
      | Ok (p2, [b; r], _), Ok x =>
          b = 777 /\ 1000000000 - r = x /\ x = 3045 /\
          match Pair.step p2 (Pair.Remove 1 333333 1 1), QPair.get_tokens_for_given_position p2 333333 with
          | Ok (_, [x1; x2], _), (v1, v2) => x1 = v1 /\ x2 = v2 /\ 0 < v1 /\ 0 < v2
          | _, _ => False
          end
      | _, _ => False
      end
  | _, _ => False
  end.
Proof. vm_compute. repeat split. Qed.

Example C20_farm_nonvacuous :
  let f := Farm.frun (Farm.init_farm 1000000000000 false)
             [Farm.FSetRate 10 Farm.OWNER 1000; Farm.FSetState Farm.OWNER 1; Farm.FStart 10 Farm.OWNER;
              Farm.FSetPct 10 Farm.OWNER 2500; Farm.FSetFactors Farm.OWNER;
              Farm.FEnter 10 5 1 100000000 [] 0; Farm.FEnter 10 5 2 100000000 [] 0] in
  match Farm.fstep f (Farm.FClaim 20 5 1 (1, 40000000) [] 7),
        QFarm.calc_rewards f 20 40000000 (Farm.mkAttrs 0 5 0 100000000 1) 7 with
  | Ok (_, [_; _; paid]), Ok v => paid = v /\ v = 1507
  | _, _ => False
  end.
Proof. vm_compute. repeat split. Qed.

Example C20_staking_nonvacuous :
  let bo := fun u => if u =? 2 then 1041 else 0 in
  match QStk.claim StkQ.f3_state 30 12 2 100000000 37500000 bo,
        QStk.calc_rewards StkQ.f3_state 30 100000000 37500000 2 None bo,
        QStk.calc_rewards StkQ.f3_state 30 100000000 37500000 1 (Some 2) bo,
        QStk.calc_rewards StkQ.f3_state 30 100000000 37500000 1 None bo with
  | Ok (_, [_; _; paid]), Ok v, Ok v', Ok w => paid = 4791 /\ v = 4791 /\ v' = 4791 /\ w = 3750
  | _, _, _, _ => False
  end.
Proof. vm_compute. repeat split. Qed.

Example C20_penalty_nonvacuous :
  match Penalty.init_cfg [(360, 4000); (720, 6000); (1440, 8000)] 10 5000 with
  | Ok c =>
      let s := Penalty.run (Penalty.init_state c 31 [(1, 1000000)]) [Penalty.Lock 1 100000 720 1; Penalty.Advance 100] in
      match Penalty.step s (Penalty.Reduce 1 750 40000 360), QPen.get_penalty_amount s 40000 (QPen.prev_epochs s 750) (QPen.new_epochs_reduce s 360),
            Penalty.step s (Penalty.UnlockEarly 1 750 60000), QPen.get_penalty_amount s 60000 (QPen.prev_epochs s 750) 0 with
      | Ok (_, [nu; un]), Ok pen, Ok (s2, _), Ok pen0 =>
          un = 40000 - pen /\ 0 < pen /\ 0 < pen0 /\
          Penalty.bal (Penalty.l_led s2) Penalty.UNSTAKE 0 = 60000 - pen0
      | _, _, _, _ => False
      end
  | Err _ => False
  end.
Proof. vm_compute. repeat split. Qed.

Example C20_pd_nonvacuous :
  match PriceDiscovery.init_pd 1 6 0 2 2 3 2 1000000000000 5000000000000 2500000000000 with
  | Ok s0 =>
      let s := PriceDiscovery.run s0 [PriceDiscovery.Tick 1; PriceDiscovery.Deposit 100 1 1000000;
                                      PriceDiscovery.Deposit 1 2 300; PriceDiscovery.Tick 3] in
      match QPd.current_phase s, PriceDiscovery.step s (PriceDiscovery.Withdraw 1 2 100) with
      | Ok ph, Ok (s', [w]) =>
          PriceDiscovery.phase_ix ph = PD_PHASE_LinearIncreasingPenalty /\ 0 < PriceDiscovery.penalty_of ph /\
          w = 100 - 100 * PriceDiscovery.penalty_of ph / PriceDiscovery.MAXP /\ w < 100 /\
          QPd.current_price s' = Ok 230
      | _, _ => False
      end
  | Err _ => False
  end.
Proof. vm_compute. repeat split. Qed.
