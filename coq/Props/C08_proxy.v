(** C08 for positions held through the proxy DEX, on the closed model (Model/ProxyClosed.v: Model/Energy.v composed with
    Model/ProxyDex.v, Model/Pair.v and two Model/FarmLocked.v).  Statements only; proofs in Proofs/ProxyClosedProofs.v.
    (This file continues Props/C08.v.)

    WHO CARRIES THE ENERGY OF A LOCKED TOKEN AT WORK.  The proxy takes custody of locked tokens (liquidity, farm entries,
    merged positions, locked rewards of a farm-token merge) and hands them back or burns them later; the factory is not
    told when custody begins.  The attribution the real contracts implement - and the only one under which C08's sum
    holds for every account - is by the CALLER of each proxy transaction:
        carried(u) = locked tokens moved INTO the proxy's custody by transactions u called
                   - locked tokens moved OUT of it (returned, handed to the factory, burned) by transactions u called,
    per unlock epoch, SIGNED ([g_car], a ledger of signed entries; tallied from the proxy's REAL balances by the harness and
    compared, field 170 of Run/ProxyClosedRun.v).  Then, for every account and every closed history,
        energy entry(u)  = sum over (tokens u holds  ++  carried(u)) of amount * (unlock - now),
        total locked(u)  = sum over (tokens u holds  ++  carried(u)) of amount,
    and the carried amounts of all accounts add up, per unlock epoch, to exactly what the proxy holds.
    As long as a wrapped token stays with the account that created it, carried(u) >= 0 is what backs u's wrapped tokens:
    the depositor keeps the energy of the tokens at work.  When a wrapped token CHANGES HANDS nothing moves
    ([C08_proxy_transfer_moves_nothing]): the depositor keeps the energy; when the new holder redeems or re-wraps it, HE is
    debited ([C08_proxy_only_caller], [C08_proxy_burn_exact]): his carried amount goes NEGATIVE by the locked part while the
    depositor's stays positive - for good.  See the report: on the real contracts this contradicts C08's sentence for both
    accounts under any attribution by present holdings. *)
From MX Require Import Base.Prelude Gen.Params Model.ProxyDex Proofs.ProxyDexProofs.
From MX Require Model.Energy Proofs.EnergyProofs Proofs.LawsC16.
From MX Require Import Model.ProxyClosed Proofs.ProxyClosedProofs.

Module ENP := MX.Proofs.EnergyProofs.

(** ------------------------------------------------------------------ the invariant, in every closed history *)
(** [chist cs]: cs = any closed run, from a state where the proxy is freshly deployed, the factory model is consistent and
    nothing is carried, by operations whose proxy callers are user accounts ([cuser]) *)
Theorem C08_proxy_reach : forall cs u, chist cs -> 0 < u ->
  let s := c_en cs in let d := g_car (c_g cs) in
  EN.e_amt (EN.view_entry s u) = ENP.spec_energy (EN.s_bal s ++ d) u (EN.s_now s) /\
  EN.e_tot (EN.view_entry s u) = ENP.spec_total (EN.s_bal s ++ d) u /\
  EN.e_upd (EN.view_entry s u) = EN.s_now s /\
  EN.view_amount s u = Z.max 0 (ENP.spec_energy (EN.s_bal s ++ d) u (EN.s_now s)).
Proof. exact chist_view. Qed.
Print Assumptions C08_proxy_reach.

(** the sums split into the tokens the account holds and the tokens carried for it *)
Theorem C08_proxy_split : forall l d u now,
  ENP.spec_energy (l ++ d) u now = ENP.spec_energy l u now + ENP.spec_energy d u now /\
  ENP.spec_total (l ++ d) u = ENP.spec_total l u + ENP.spec_total d u.
Proof. exact spec_split. Qed.
Print Assumptions C08_proxy_split.

(** what is carried is exactly what the proxy holds, per unlock epoch; only user accounts carry; the proxy itself - a
    contract account - has no energy *)
Theorem C08_proxy_carried_is_custody : forall cs, chist cs ->
  (forall e, ENP.lsum_e (g_car (c_g cs)) e = EN.lget (EN.s_bal (c_en cs)) H_PX e) /\
  Forall (fun x : Z * Z * Z => 0 < fst (fst x)) (g_car (c_g cs)) /\
  EN.view_entry (c_en cs) H_PX = EN.mkEn 0 (EN.s_now (c_en cs)) 0 /\ EN.view_amount (c_en cs) H_PX = 0.
Proof. exact chist_custody. Qed.
Print Assumptions C08_proxy_carried_is_custody.

(** step form: every closed transaction keeps the invariant ([CInv]: the three statements above for all accounts) *)
Theorem C08_proxy_step : forall cs o cs' co, cstep cs o = Ok (cs', co) -> Backed (c_px cs) -> cuser o ->
  CInv (cus_of cs) -> CInv (cus_of cs').
Proof. exact cstep_cinv. Qed.
Print Assumptions C08_proxy_step.

(** every operation of the factory model itself keeps "entry = sum over (ledger ++ d)" for EVERY signed extension [d]:
    the entry updates are linear in what the endpoint itself moves *)
Theorem C08_proxy_factory_linear : forall d s op s' o, EV.VInv d s -> EN.step s op = Ok (s', o) -> EV.VInv d s'.
Proof. exact EV.step_v. Qed.
Print Assumptions C08_proxy_factory_linear.

(** ------------------------------------------------------------------ a wrapped token that changes hands *)
(** a transfer of a wrapped token (and the whitelist operations) changes no callee state and no carried amount *)
Theorem C08_proxy_transfer_moves_nothing : forall cs o cs' co, cstep cs o = Ok (cs', co) ->
  match o with CXferWlp _ _ _ _ | CXferWfm _ _ _ _ | CSetPair _ _ | CSetFarm _ _ _ => True | _ => False end ->
  c_en cs' = c_en cs /\ c_g cs' = c_g cs /\ c_pair cs' = c_pair cs /\ c_f0 cs' = c_f0 cs /\ c_f1 cs' = c_f1 cs.
Proof. exact cstep_transfer_moves_nothing. Qed.
Print Assumptions C08_proxy_transfer_moves_nothing.

(** a proxy endpoint called by [u] writes the stored entry of nobody but [u]: whoever deposited the tokens behind a wrapped
    token that [u] redeems keeps his entry *)
Theorem C08_proxy_only_caller : forall cs o cs' co u v, cstep cs o = Ok (cs', co) -> Backed (c_px cs) ->
  caller_of o = Some u -> uid u -> v <> u ->
  EN.view_entry (c_en cs') v = EN.view_entry (c_en cs) v.
Proof. exact cstep_only_caller_view. Qed.
Print Assumptions C08_proxy_only_caller.

(** the caller who redeems is debited, exactly, from the entry the factory model had for him when the proxy read it
    (removeLiquidityProxy: his entry before the transaction), including the refund for an expired lock (k < now);
    his locked-token total covers the burned amount or the transaction fails *)
Theorem C08_proxy_burn_exact : forall cs o cs' co u k amt,
  cstep cs o = Ok (cs', co) -> Backed (c_px cs) -> caller_of o = Some u -> uid u ->
  x_lburn (co_x co) = (k, amt) -> amt <> 0 ->
  let r := v_energy (co_e co) in
  let en' := EN.view_entry (c_en cs') u in
  (match o with CRemoveLiq _ _ _ _ _ | CExitFarm _ _ _ _ => True | _ => False end) /\
  (match o with CRemoveLiq _ _ _ _ _ => r = entry_of (c_en cs) u | _ => True end) /\
  pe_upd r = now_of cs /\
  EN.e_amt en' = pe_amt r - amt * (k - now_of cs) /\ EN.e_tot en' = pe_tot r - amt /\ amt <= pe_tot r /\
  k = v_unlock (co_e co) /\
  (match o with
   | CRemoveLiq _ _ p _ _ => k = wlp_k (c_px cs) (p_non p)
   | CExitFarm _ _ p _ => k = wfm_k (c_px cs) (p_non p)
   | _ => True end).
Proof. exact cstep_burn_exact. Qed.
Print Assumptions C08_proxy_burn_exact.

(** ------------------------------------------------------------------ non-vacuity, and the history behind the report
    [ex_ops] (Proofs/ProxyClosedProofs.v; executed on the real contracts with the same numbers).  User 1 (10^12 locked
    tokens unlocking at epoch 360) adds liquidity with 10^8 of them at epoch 1 and hands the wrapped LP token to user 2
    (5 * 10^11 locked tokens unlocking at 1800); at epoch 3 user 2 removes the liquidity: he receives 68 814 513 locked
    tokens, the proxy burns 31 185 487.  Afterwards (epoch 4, after user 1's farm round trip, 8 750 locked reward):
      user 1 holds 999 900 008 750 tokens; his entry counts 1 000 000 008 750: 10^8 more - carried(1) = +10^8;
      user 2 holds 68 814 513 + 5 * 10^11;  his entry counts 499 968 814 513:  10^8 fewer - carried(2) = -10^8;
      the proxy holds none of these tokens any more: the two carried amounts cancel. *)
Example C08_proxy_nonvacuous :
  all_ok ex_init ex_ops = true /\ forallb cwf_b ex_ops = true /\
  let cs := crun ex_init ex_ops in
  let s := c_en cs in let car := g_car (c_g cs) in
  EN.s_now s = 4 /\
  EN.lget (EN.s_bal s) 1 360 = 999900008750 /\ EN.lget (EN.s_bal s) 2 360 = 68814513 /\ EN.lget (EN.s_bal s) 2 1800 = 500000000000 /\
  EN.lget (EN.s_bal s) H_PX 360 = 0 /\
  EN.lget car 1 360 = 100000000 /\ EN.lget car 2 360 = -100000000 /\ ENP.lsum_e car 360 = 0 /\
  EN.view_entry s 1 = EN.mkEn 356000003115000 4 1000000008750 /\
  EN.view_entry s 2 = EN.mkEn 897988897966628 4 499968814513 /\
  (* the entries are NOT the sums over the tokens the accounts hold ... *)
  ENP.spec_energy (EN.s_bal s) 1 4 = 356000003115000 - 100000000 * 356 /\
  ENP.spec_energy (EN.s_bal s) 2 4 = 897988897966628 + 100000000 * 356 /\
  (* ... they are the sums over held ++ carried *)
  ENP.spec_energy (EN.s_bal s ++ car) 1 4 = 356000003115000 /\ ENP.spec_total (EN.s_bal s ++ car) 1 = 1000000008750 /\
  ENP.spec_energy (EN.s_bal s ++ car) 2 4 = 897988897966628 /\ ENP.spec_total (EN.s_bal s ++ car) 2 = 499968814513.
Proof. vm_compute. repeat split. Qed.
