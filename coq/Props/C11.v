(** C11 — Boosted rewards: per-week formula, single payment, bounded by the week's pool.
    Statements only; proofs are in Proofs/BoostedProofs.v (on top of Proofs/WeeklyProofs.v).

    Vocabulary (Model/Boosted.v, Proofs/BoostedProofs.v):
      [step s op = Ok (s', out)]   a successful operation of the farm as far as the boosted-yields module is
            concerned; [o_b out] the boosted payout, [o_det out] its per-week breakdown [(week, payments)],
            [o_cut out] what take_reward_slice moved into the running week's pool, [o_swept out] the
            [(week, amount)] pairs collectUndistributedBoostedRewards took;
      [claim_of op = Some (u, cur, pos)]  the operation settles user [u]'s boosted rewards (enter, claim, compound,
            exit, merge, claimBoostedRewards) with energy entry [cur] and total farm position [pos] — the position
            BEFORE the operation's own position update;
      [view_acc], [view_rem], [view_sup], [view_und], [view_lastcol], [view_total_rewards], [view_total_energy],
      [view_progress], [view_factors]   the contract's views;
      [energy_at p w]   the recorded claim-progress entry [p] decayed to week [w];
      [bcur_week s]     the current week;  [claim_range p cw] = weeks max(p.week, cw-4) .. cw-1;
      [bgrun] = [run] with a ghost ledger [g]: [gcuts g w] the cuts taken in week [w], [gpaid g w] the boosted
            payments made for week [w], [gswept g w] what was swept from it, [g_tcuts/g_tpaid/g_tswept] the totals,
            [g_fac g] the accepted setBoostedYieldsFactors calls (first factors, later [(week, factors)]);
      [fac_at f0 log w]  the documented "factors of week w": those of the last accepted call made in a week <= w
            (the first call's for earlier weeks);
      [BInv s g]        the invariant of reachable states ([C11_reach]). *)
From MX Require Import Base.Prelude Gen.Params Model.Weekly Model.Boosted Proofs.WeeklyProofs Proofs.BoostedProofs.

(** every reachable state (any deployment epoch, any interleaving; failed transactions revert) satisfies the invariant *)
Theorem C11_reach : forall epoch ops,
  BInv (fst (bgrun (init_b epoch, bg0) ops)) (snd (bgrun (init_b epoch, bg0) ops)).
Proof. exact reach_inv. Qed.
Print Assumptions C11_reach.

Theorem C11_ledger_is_the_run : forall ops s g, fst (bgrun (s, g) ops) = run s ops.
Proof. exact bgrun_fst. Qed.
Print Assumptions C11_ledger_is_the_run.

(** ------------------------------------------------------------------ 1. the per-week formula *)
(** Formula: a settlement of user [u] processes exactly the weeks of his claim window (nothing without a config, without
    recorded progress, or when the progress is already at the current week); for each processed week [w] the
    payment [r] is, in terms of the VIEWS of the state before the operation —
      e = his recorded energy decayed to w, E = total energy of w, F = farm supply of w, f = [pos],
      factors = what get_factors_for_week yields for w, R = the week's pool as frozen by its first claim
      (= accumulated(w) if this is the first claim) —
    nothing if E = 0, F = 0, e < min energy, f < min position or R = 0, and otherwise
      min (maxF*R*f/F) ((R*cE*e/E + R*cF*f/F)/(cE+cF))   (floor divisions), paid iff positive.
    (cE + cF = 0 cannot occur in a reachable state: [C11_no_division_by_zero].) *)
Theorem C11_formula : forall s g op s' out u cur pos,
  BInv s g -> step s op = Ok (s', out) -> claim_of op = Some (u, cur, pos) ->
  (o_det out = [] /\ (bh_cfg (b_h s) = None \/ view_progress s u = None \/
                      exists p, view_progress s u = Some p /\ pr_week p = bcur_week s)) \/
  (exists p c cfg,
     view_progress s u = Some p /\ bh_cfg (b_h s) = Some c /\ cfg_update c (bcur_week s) None = Ok cfg /\
     map fst (o_det out) = claim_range p (bcur_week s) /\
     forall w r, In (w, r) (o_det out) ->
       pr_week p <= w /\ bcur_week s - USER_MAX_CLAIM_WEEKS <= w < bcur_week s /\
       let e := energy_at p w in let E := view_total_energy s w in let F := view_sup s w in
       (((E = 0 \/ F = 0) /\ r = []) \/
        (exists fa, E <> 0 /\ F <> 0 /\ get_factors_for_week cfg w = Ok fa /\
           (((e < fa_mine fa \/ pos < fa_minf fa) /\ r = []) \/
            (fa_mine fa <= e /\ fa_minf fa <= pos /\
             exists R, view_total_rewards s' w = [(RTOK, R)] /\
               (view_total_rewards s w = [] -> R = view_acc s w) /\
               (view_total_rewards s w <> [] -> view_total_rewards s w = [(RTOK, R)]) /\
               ((R = 0 /\ r = []) \/
                (R <> 0 /\ fa_ce fa + fa_cf fa <> 0 /\
                 let x := Z.min (fa_max fa * R * pos / F)
                                ((R * fa_ce fa * e / E + R * fa_cf fa * pos / F) / (fa_ce fa + fa_cf fa)) in
                 ((x <= 0 /\ r = []) \/ (0 < x /\ r = [(RTOK, x)]))))))))).
Proof. exact step_formula. Qed.
Print Assumptions C11_formula.

(** ... and the amount against the documented RATIONAL value  min(maxF*R*f/F, R*(cE*e/E + cF*f/F)/(cE+cF)),
    cross-multiplied: it is built from the four floors, never exceeds either bound, and is less than 1 below
    the cap or less than 1 + 2/(cE+cF) below the share. *)
Theorem C11_formula_bounds : forall fa R f F e E,
  0 < F -> 0 < E -> 0 < fa_ce fa + fa_cf fa -> 0 <= fa_ce fa -> 0 <= fa_cf fa -> 0 <= fa_max fa ->
  0 <= R -> 0 <= f -> 0 <= e ->
  let x := Z.min (fa_max fa * R * f / F)
                 ((R * fa_ce fa * e / E + R * fa_cf fa * f / F) / (fa_ce fa + fa_cf fa)) in
  exists a be bt b,
    x = Z.min a b /\
    floor_of a (fa_max fa * R * f) F /\ floor_of be (R * fa_ce fa * e) E /\ floor_of bt (R * fa_cf fa * f) F /\
    floor_of b (be + bt) (fa_ce fa + fa_cf fa) /\
    0 <= x /\
    x * F <= fa_max fa * R * f /\
    x * ((fa_ce fa + fa_cf fa) * E * F) <= R * (fa_ce fa * e * F + fa_cf fa * f * E) /\
    (fa_max fa * R * f < (x + 1) * F \/
     R * (fa_ce fa * e * F + fa_cf fa * f * E) < ((x + 1) * (fa_ce fa + fa_cf fa) + 2) * (E * F)).
Proof. exact boosted_amount_char. Qed.
Print Assumptions C11_formula_bounds.

(** the claim window lies in the last USER_MAX_CLAIM_WEEKS completed weeks, from the recorded progress week on *)
Theorem C11_window : forall p cw w, pr_week p <= cw -> In w (claim_range p cw) ->
  cw - USER_MAX_CLAIM_WEEKS <= w < cw /\ pr_week p <= w.
Proof. exact claim_range_window. Qed.
Print Assumptions C11_window.

(** ------------------------------------------------------------------ 2. at most once *)
(** Once: over any history from any deployment, the (user, week) pairs processed by successful settlements are
    pairwise distinct — claim progress only moves forward. *)
Theorem C11_once : forall epoch ops, NoDup (brun_log (init_b epoch) ops).
Proof. intros. apply (brun_log_once ops _ _ (BInv_init epoch)). Qed.
Print Assumptions C11_once.

Theorem C11_once_progress : forall s g op s' out,
  BInv s g -> step s op = Ok (s', out) ->
  (forall u, bclaimable_from s u <= bclaimable_from s' u) /\
  (forall u w, In (u, w) (bevents op out) -> bclaimable_from s u <= w < bclaimable_from s' u) /\
  NoDup (bevents op out).
Proof. exact step_claimable. Qed.
Print Assumptions C11_once_progress.

(** ------------------------------------------------------------------ 3. the week's pool *)
(** Pool: in every reachable state, for every week: all amounts are non-negative; the cuts taken in the week are
    exactly accounted for by accumulated + remaining + paid + swept; what was paid never exceeds what was cut;
    once the total is frozen it IS the week's cuts, accumulated is empty, the week is over, and
    remaining = R - paid (- swept); while a claimable week is not frozen nothing is remaining, paid or swept. *)
Theorem C11_pool : forall epoch ops w,
  let s := fst (bgrun (init_b epoch, bg0) ops) in let g := snd (bgrun (init_b epoch, bg0) ops) in
  0 <= view_acc s w /\ 0 <= view_rem s w /\ 0 <= gpaid g w /\ 0 <= gswept g w /\
  gcuts g w = view_acc s w + view_rem s w + gpaid g w + gswept g w /\
  gpaid g w <= gcuts g w /\
  (view_total_rewards s w <> [] ->
     view_total_rewards s w = [(RTOK, gcuts g w)] /\ view_acc s w = 0 /\ w < bcur_week s /\
     view_rem s w = gcuts g w - gpaid g w - gswept g w) /\
  (bcur_week s - USER_MAX_CLAIM_WEEKS <= w -> view_total_rewards s w = [] ->
     view_rem s w = 0 /\ gpaid g w = 0 /\ gswept g w = 0).
Proof. exact reach_pool. Qed.
Print Assumptions C11_pool.

(** Freeze: per operation — a frozen total of a claimable week never changes; a total becomes frozen only by a
    settlement, only for a completed week of the window, to exactly accumulated(w), which is thereby emptied,
    and remaining(w) = R_w - what this very operation pays for w; accumulated of any week but the running one
    never grows (it stays or is emptied). *)
Theorem C11_freeze : forall s g op s' out,
  BInv s g -> step s op = Ok (s', out) ->
  let cw := bcur_week s in
  forall w,
    (view_total_rewards s w <> [] -> cw - USER_MAX_CLAIM_WEEKS <= w -> view_total_rewards s' w = view_total_rewards s w) /\
    (view_total_rewards s w = [] -> view_total_rewards s' w <> [] ->
       (exists u cur pos, claim_of op = Some (u, cur, pos)) /\ cw - USER_MAX_CLAIM_WEEKS <= w < cw /\
       view_total_rewards s' w = [(RTOK, view_acc s w)] /\ view_acc s' w = 0 /\
       view_rem s' w = view_acc s w - wpaid (o_det out) w) /\
    (w <> cw -> view_acc s' w = view_acc s w \/ view_acc s' w = 0).
Proof. exact step_rewards. Qed.
Print Assumptions C11_freeze.

(** Slice: take_reward_slice touches the running week only, with percentage * emission / 10000 — and nothing while
    the percentage is 0 or no factors are configured. *)
Theorem C11_slice : forall s g op s' out,
  BInv s g -> step s op = Ok (s', out) ->
  0 <= o_cut out /\ o_cut out = match full_of op with Some full => expected_cut s full | None => 0 end.
Proof. exact step_cut. Qed.
Print Assumptions C11_slice.

Theorem C11_slice_running_week : forall s g op s' out,
  BInv s g -> step s op = Ok (s', out) -> (forall n, op <> BAdvance n) ->
  view_acc s' (bcur_week s) = view_acc s (bcur_week s) + o_cut out /\ view_rem s' (bcur_week s) = 0.
Proof. exact step_running_week. Qed.
Print Assumptions C11_slice_running_week.

(** ------------------------------------------------------------------ 4. undistributed rewards *)
(** Collect: admin only; needs current week > 5; sweeps exactly the weeks (last collected, current-5]: undistributed
    grows by remaining(w) + accumulated(w) of those weeks, both are emptied, every other week is untouched. *)
Theorem C11_undistributed : forall s c s' out,
  ep_collect s c = Ok (s', out) ->
  let cw := bcur_week s in let first := view_lastcol s + 1 in let last := cw - (USER_MAX_CLAIM_WEEKS + 1) in
  c = ADMIN /\ USER_MAX_CLAIM_WEEKS + 1 < cw /\ b_first s <= b_epoch s /\
  b_w s' = b_w s /\ b_first s' = b_first s /\ b_epoch s' = b_epoch s /\
  bh_sup (b_h s') = bh_sup (b_h s) /\ bh_pct (b_h s') = bh_pct (b_h s) /\ bh_cfg (b_h s') = bh_cfg (b_h s) /\
  o_b out = 0 /\ o_det out = [] /\ o_cut out = 0 /\
  ((last < first /\ s' = s /\ o_swept out = []) \/
   (first <= last /\ view_lastcol s' = last /\
    o_swept out = map (fun w => (w, view_rem s w + view_acc s w)) (zseq first (Z.to_nat (last - first + 1))) /\
    view_und s' = view_und s + total (o_swept out) /\
    (forall w, first <= w <= last -> view_acc s' w = 0 /\ view_rem s' w = 0) /\
    (forall w, ~ (first <= w <= last) -> view_acc s' w = view_acc s w /\ view_rem s' w = view_rem s w))).
Proof. exact collect_char. Qed.
Print Assumptions C11_undistributed.

Theorem C11_undistributed_second_adds_nothing : forall s c s' out,
  ep_collect s c = Ok (s', out) -> ep_collect s' c = Ok (s', out0).
Proof. exact collect_idem. Qed.
Print Assumptions C11_undistributed_second_adds_nothing.

Theorem C11_undistributed_admin_only : forall s c, c <> ADMIN -> ep_collect s c = Err EPerm.
Proof. exact collect_perm. Qed.
Print Assumptions C11_undistributed_admin_only.

(** ... along every history each week is swept at most once, only by a collect, and never a week inside the
    claim window; no other operation moves undistributed. *)
Theorem C11_undistributed_once : forall epoch ops, NoDup (bsweep_log (init_b epoch) ops).
Proof. intros. apply (bsweep_log_once ops _ _ (BInv_init epoch)). Qed.
Print Assumptions C11_undistributed_once.

Theorem C11_undistributed_outside_window : forall s g op s' out,
  BInv s g -> step s op = Ok (s', out) ->
  view_lastcol s <= view_lastcol s' /\
  (forall w, In w (map fst (o_swept out)) ->
     view_lastcol s < w <= view_lastcol s' /\ w <= bcur_week s - USER_MAX_CLAIM_WEEKS - 1 /\ exists c, op = BCollect c) /\
  NoDup (map fst (o_swept out)).
Proof. exact step_sweeps. Qed.
Print Assumptions C11_undistributed_outside_window.

(** Leftover: undistributed is exactly everything swept so far; of a collected week nothing stays behind and what was
    swept is the whole leftover cuts - paid (the never-claimed pool or the unclaimed remainder) ... *)
Theorem C11_leftover_collected : forall epoch ops w,
  let s := fst (bgrun (init_b epoch, bg0) ops) in let g := snd (bgrun (init_b epoch, bg0) ops) in
  view_und s = g_tswept g /\ 0 <= view_und s /\
  (1 <= w <= view_lastcol s ->
     view_acc s w = 0 /\ view_rem s w = 0 /\ gswept g w = gcuts g w - gpaid g w /\
     w <= bcur_week s - USER_MAX_CLAIM_WEEKS - 1) /\
  (gswept g w <> 0 -> 1 <= w <= view_lastcol s).
Proof. exact reach_leftover. Qed.
Print Assumptions C11_leftover_collected.

(** ... and every week that left the window IS collectable: the admin's collect cannot fail and covers it. *)
Theorem C11_leftover_collectable : forall epoch ops w,
  let s := fst (bgrun (init_b epoch, bg0) ops) in
  1 <= w <= bcur_week s - USER_MAX_CLAIM_WEEKS - 1 ->
  exists s' out, step s (BCollect ADMIN) = Ok (s', out) /\ w <= view_lastcol s' /\
                 (view_lastcol s < w -> In w (map fst (o_swept out))).
Proof. exact reach_collectable. Qed.
Print Assumptions C11_leftover_collectable.

(** ------------------------------------------------------------------ 5. the factors of a week *)
(** Register: after creation and any sequence of touches / accepted settings (weeks non-decreasing, otherwise the
    update itself fails), the 5-slot register answers for each of the last 4 completed weeks exactly the abstract
    map: the factors that were the latest ones when that week ended. *)
Theorem C11_factors : forall cw0 f0 ops c log w,
  cfg_run (cfg_new cw0 f0) [] ops = Ok (c, log) ->
  c_last c - NSLOTS < w < c_last c ->
  get_factors_for_week c w = Ok (fac_at f0 log w) /\ last_slot c = fac_at f0 log (c_last c).
Proof. exact register_refines. Qed.
Print Assumptions C11_factors.

(** ... in every reachable state of the farm: the stored register (brought to the current week, as every claim does)
    yields for week w the factors of the last accepted setBoostedYieldsFactors call of a week <= w, on exactly the
    weeks current-5 < w < current; the view shows the latest ones. *)
Theorem C11_factors_reach : forall epoch ops,
  let s := fst (bgrun (init_b epoch, bg0) ops) in let g := snd (bgrun (init_b epoch, bg0) ops) in
  let cw := bcur_week s in
  match bh_cfg (b_h s), g_fac g with
  | None, None => True
  | Some c, Some (f0, log) =>
      c_last c <= cw /\ Forall (fun ev => fst ev <= cw) log /\
      view_factors s = Some (fac_at f0 log cw) /\
      exists cfg, cfg_update c cw None = Ok cfg /\
        forall w, (cw - NSLOTS < w < cw -> get_factors_for_week cfg w = Ok (fac_at f0 log w)) /\
                  (forall fa, get_factors_for_week cfg w = Ok fa -> cw - NSLOTS < w < cw /\ fa = fac_at f0 log w)
  | _, _ => False
  end.
Proof. exact reach_factors. Qed.
Print Assumptions C11_factors_reach.

(** ... where the ghost log is nothing but the successful setBoostedYieldsFactors calls, in order, with their weeks *)
Theorem C11_factors_log : forall ops s g,
  match g_fac (snd (bgrun (s, g) ops)), g_fac g with
  | Some (f0, log), Some (f0', log') => f0 = f0' /\ log = log' ++ fac_calls s ops
  | Some (f0, log), None => exists cw0 rest, fac_calls s ops = (cw0, f0) :: rest /\ log = rest
  | None, None => fac_calls s ops = []
  | None, Some _ => False
  end.
Proof. exact fac_log_is_calls. Qed.
Print Assumptions C11_factors_log.

(** Guard: setBoostedYieldsFactors succeeds exactly for the admin with both minimums positive and at least one of the
    two reward constants positive (all arguments BigUints); maxF = 0 is accepted. *)
Theorem C11_factors_guard : forall s g c f,
  BInv s g ->
  ((exists s' out, ep_set_factors s c f = Ok (s', out)) <->
   (c = ADMIN /\ 0 <= fa_max f /\ 0 <= fa_ce f /\ 0 <= fa_cf f /\ 0 < fa_mine f /\ 0 < fa_minf f /\
    (0 < fa_ce f \/ 0 < fa_cf f))).
Proof. exact set_factors_guard. Qed.
Print Assumptions C11_factors_guard.

(** No division by zero: in every reachable state every entry of the stored register — the running week's factors and
    the four previous weeks' — has cE, cF >= 0 and cE + cF > 0 ([fac_ok]), and so has every entry of the register as
    brought to the current week by a claim (refilled slots are copies of accepted settings; there are no empty /
    default slots: the register always holds NSLOTS accepted entries).  Hence every [get_factors_for_week] result has
    cE + cF > 0, the formula's [div_chk] cannot fail, and whenever get_user_rewards_for_week fails for whatever
    inputs, the cause is one of: the week is outside the register, no config at the freeze, a malformed stored
    total, or the guard remaining -= reward — never the division. *)
Theorem C11_no_division_by_zero : forall epoch ops,
  let s := fst (bgrun (init_b epoch, bg0) ops) in let cw := bcur_week s in
  forall c, bh_cfg (b_h s) = Some c ->
    (forall fa, In fa (c_slots c) -> fac_ok fa) /\
    forall cfg, cfg_update c cw None = Ok cfg ->
      (forall fa, In fa (c_slots cfg) -> fac_ok fa) /\
      (forall w fa, get_factors_for_week cfg w = Ok fa ->
         fac_ok fa /\ forall x, div_chk x (fa_ce fa + fa_cf fa) = Ok (x / (fa_ce fa + fa_cf fa))) /\
      (forall pos h0 s0 w e E err, boosted_hook pos cfg cw h0 s0 w e E = Err err ->
         (exists e1, get_factors_for_week cfg w = Err e1) \/
         (exists e1, b_collect_and_get cw h0 s0 w = Err e1) \/
         (exists h1 s1 tot, b_collect_and_get cw h0 s0 w = Ok (h1, s1, tot) /\ (2 <= length tot)%nat) \/
         (exists fa h1 s1 t R,
            get_factors_for_week cfg w = Ok fa /\ b_collect_and_get cw h0 s0 w = Ok (h1, s1, [(t, R)]) /\ R <> 0 /\
            0 < boosted_amount fa R pos (aget (bh_sup h0) w) e E /\
            aget (bh_rem h1) w < boosted_amount fa R pos (aget (bh_sup h0) w) e E)).
Proof. exact reach_no_div0. Qed.
Print Assumptions C11_no_division_by_zero.

(** ... because every accepted setting satisfies it *)
Theorem C11_accepted_factors_ok : forall s c f s' out, ep_set_factors s c f = Ok (s', out) -> fac_ok f.
Proof. exact set_factors_ok. Qed.
Print Assumptions C11_accepted_factors_ok.

(** ------------------------------------------------------------------ 6. conservation *)
(** Conservation: in every reachable state  sum_w accumulated + sum_w remaining + undistributed + all boosted payments
    = all cuts taken by take_reward_slice  (the storage maps have unique keys, so [asum] is the sum over weeks). *)
Theorem C11_conservation : forall epoch ops,
  let s := fst (bgrun (init_b epoch, bg0) ops) in let g := snd (bgrun (init_b epoch, bg0) ops) in
  asum (bh_acc (b_h s)) + asum (bh_rem (b_h s)) + view_und s + g_tpaid g = g_tcuts g /\
  view_und s = g_tswept g /\ NoDup (akeys (bh_acc (b_h s))) /\ NoDup (akeys (bh_rem (b_h s))).
Proof. exact reach_conservation. Qed.
Print Assumptions C11_conservation.

(** ... the ghost totals being the sums of what the successful operations handed out *)
Theorem C11_conservation_totals : forall ops s g,
  let g' := snd (bgrun (s, g) ops) in
  g_tcuts g' = g_tcuts g + zsum_of o_cut (out_log s ops) /\
  g_tpaid g' = g_tpaid g + zsum_of o_b (out_log s ops) /\
  g_tswept g' = g_tswept g + zsum_of (fun o => total (o_swept o)) (out_log s ops).
Proof. exact ghost_totals. Qed.
Print Assumptions C11_conservation_totals.

(** Not stated in this file (DESIGN §7 lists it as an extension): [C11_no_underflow] — that the guard
    [remaining -= reward] never fires.  It needs  sum_u f_u(at claim) <= F_w  and  sum_u e_u <= E_w, facts about the
    farm's own position bookkeeping ("every position increase first settles with the old position"); in this
    module-level model the position [pos] and the supply are operation inputs, so the statement belongs to the
    composition with Model/Farm.v (whose input [b] is this model's [o_b]).  Here the guard is part of the model
    ([sub_chk]): sum paid <= R holds unconditionally ([C11_pool]); an over-subscribed week makes the operation fail.
    The division of the formula, in contrast, can never fail in a reachable state ([C11_no_division_by_zero]). *)

(** Non-vacuity: percentage 25 %, factors (2,3,2,1,1); two users with different energies enter in week 1 (pool 500);
    in week 2 the factors change, then both settle week 1 with the OLD factors — 276 = min(333, (1050+333)/5) and
    223 = min(666, (450+666)/5) — while week 2 accrues 1100 that nobody ever claims; six weeks later a non-admin's
    collect is refused, the admin's sweeps the remainder 1 of week 1 and the never-frozen 1100 of week 2, and a
    second collect moves nothing. *)
Definition c11_example_ops : list bop :=
  [BSetPct 100 2500 0; BSetFactors 100 (mkFac 2 3 2 1 1);
   BEnter true 1 (mkEn 7000 5 10) 0 1000 100;
   BEnter true 2 (mkEn 3000 5 10) 0 1000 300;
   BAdvance 7;
   BSetFactors 100 (mkFac 1 1 1 1 1);
   BClaimBoosted true 1 (mkEn 6930 12 10) 100 4000 300;
   BClaim true 2 (mkEn 2930 12 10) 200 400 300;
   BAdvance 42;
   BCollect 7; BCollect 100; BCollect 100].
Example C11_nonvacuous :
  let sg := bgrun (init_b 5, bg0) c11_example_ops in let s := fst sg in let g := snd sg in
  map o_b (out_log (init_b 5) c11_example_ops) = [0; 0; 0; 0; 0; 0; 276; 223; 0; 0; 0] /\
  map o_cut (out_log (init_b 5) c11_example_ops) = [0; 0; 250; 250; 0; 0; 1000; 100; 0; 0; 0] /\
  brun_log (init_b 5) c11_example_ops = [(1, 1); (2, 1)] /\
  bsweep_log (init_b 5) c11_example_ops = [1; 2; 3] /\
  view_total_rewards s 1 = [(RTOK, 500)] /\ view_total_rewards s 2 = [] /\
  gcuts g 1 = 500 /\ gpaid g 1 = 499 /\ gswept g 1 = 1 /\ gcuts g 2 = 1100 /\ gpaid g 2 = 0 /\ gswept g 2 = 1100 /\
  view_und s = 1101 /\ view_lastcol s = 3 /\ g_tcuts g = 1600 /\ g_tpaid g = 499 /\ g_tswept g = 1101 /\
  view_acc s 2 = 0 /\ view_rem s 1 = 0 /\
  g_fac g = Some (mkFac 2 3 2 1 1, [(2, mkFac 1 1 1 1 1)]) /\
  step s (BCollect 7) = Err EPerm /\ step s (BSetFactors 100 (mkFac 2 0 0 1 1)) = Err EGuard.
Proof. vm_compute. repeat split. Qed.
