(** C16, closing the assume / guarantee gap: every conjunct of [x_law] (Model/ProxyDex.v) - the
    interface laws Props/C16.v assumes of the pair, the farms and the energy factory, and which the
    correspondence run checks on every real answer - is a THEOREM of the callee's own model:
      pair.addLiquidity / removeLiquidity                           on Model/Pair.v
      farm.enterFarm / claimRewards / exitFarm / mergeFarmTokens    on Model/FarmLocked.v (over Model/Farm.v)
      factory.mergeTokens / extendLockPeriod, the energy formulas   on Model/Energy.v

    Part A names the conjuncts ([law_*]: the boolean terms of [x_law], verbatim) and proves, endpoint
            by endpoint, that [x_law] IS the conjunction of these named laws on the fields of [env]
            the endpoint consumes ([x_law_*]).  So "the law predicate exactly as ProxyDex.v evaluates it"
            is a checked statement, not a reading of the source.
    Part B defines the answer the proxy decodes from a callee's outputs ([answer_of_*]: which output goes
            into which field of [env]) and proves for every callee state satisfying the callee's
            invariant (where one is needed) and every call: IF the callee step succeeds THEN the named
            law holds of the answer.
    Part C composes: a proxy endpoint run on an [env] whose fields are the callee models' answers has
            [x_law = true].

    What the callee models do not have (so the law is proved for the endpoint as modelled, see the
    table in the report):
      - Model/Farm.v / FarmLocked.v have no original-caller argument: position owner = caller = the
        account that receives the tokens and the LOCKED rewards; the proxy calls the farm on behalf of
        the user (OptionalValue::Some(user)), so owner / energy address differ from the receiver there.
        The laws are about amounts, which do not depend on the owner in the model;
      - Model/FarmLocked.v does not model the nonce of the LOCKED reward token ([rk] is a parameter of
        the answer), only its amount, receiver and unlock epoch;
      - Model/Energy.v identifies a locked token with its unlock epoch and has the pass-through caller
        hand the result to the user: the proxy keeping the merged token is not modelled, and the nonce
        [kf] of the factory's answer is a parameter of the answer;
      - setUserEnergyAfterLockedTokenTransfer has no successful call in Model/Energy.v (only the
        unauthorised one): what is proved instead is that the entry the proxy computes and writes is the
        factory's own [update_after_unlock_any] of the entry the factory's view returns. *)
From MX Require Import Base.Prelude Gen.Params Model.ProxyDex Proofs.ProxyDexProofs.
From MX Require Model.Pair Model.Farm Model.FarmLocked Model.Energy Model.Penalty.
From MX Require Proofs.FarmInv Proofs.FarmSolv Proofs.FarmLockedProofs Proofs.EnergyProofs Proofs.MetaStakingProofs.

Module FI := MX.Proofs.FarmInv.
Module FL := MX.Model.FarmLocked.
Module FLP := MX.Proofs.FarmLockedProofs.
Module EN := MX.Model.Energy.
Module ENP := MX.Proofs.EnergyProofs.
Module CL := MX.Proofs.MetaStakingProofs.Laws.

(** ================================================================== Part A: the conjuncts of [x_law] *)
(** pair.addLiquidity: LP minted > 0, amount of the minted base asset used >= 0 *)
Definition law_pair_add (lp used_locked : Z) : bool := (0 <? lp) && (0 <=? used_locked).
(** pair.removeLiquidity: base asset received >= 0 *)
Definition law_pair_remove (rb : Z) : bool := 0 <=? rb.
(** farm.enterFarm: farm token amount = farming tokens sent *)
Definition law_farm_enter (F a : Z) : bool := F =? a.
(** farm.claimRewards: new farm token amount = farm token amount sent *)
Definition law_farm_claim (F a : Z) : bool := F =? a.
(** farm.exitFarm: farming tokens returned >= 0 *)
Definition law_farm_exit (F : Z) : bool := 0 <=? F.
(** farm.mergeFarmTokens: merged amount = sum of the amounts sent; boosted rewards paid >= 0 *)
Definition law_farm_merge (F total : Z) : bool := F =? total.
Definition law_farm_merge_rewards (ra : Z) : bool := 0 <=? ra.
(** factory.mergeTokens: merged amount = sum of the amounts sent *)
Definition law_factory_merge (lf total : Z) : bool := lf =? total.
(** factory.extendLockPeriod: same amount back *)
Definition law_factory_extend (lf amt : Z) : bool := lf =? amt.

(** the amount of the minted base asset the pair used, by the position of the locked payment *)
Definition add_used_locked (p1 : pay) (e : env) : Z :=
  if p_tok p1 =? TK_LOCKED then snd (fst (v_pair e)) else snd (v_pair e).

Lemma x_law_add_liq s u pid p1 p2 extra e s' x : ep_add_liq s u pid p1 p2 extra e = Ok (s', x) ->
  let lp := fst (fst (v_pair e)) in
  let used := add_used_locked p1 e in
  (* the proxy's own subtractions: what the pair used is at most what was sent *)
  snd (fst (v_pair e)) <= p_amt p1 /\ snd (v_pair e) <= p_amt p2 /\
  match extra with
  | [] => x_law x = law_pair_add lp used
  | _ => exists s1 ta tl, take_wlp_list s u extra = Ok (s1, (ta, tl)) /\
         x_law x = law_pair_add lp used && law_factory_merge (snd (v_fact e)) (used + tl)
  end.
Proof.
  unfold ep_add_liq, add_used_locked. intros H. chk H. chk H. chk H. chk H.
  destruct (v_pair e) as [[lp used1] used2]. cbn [fst snd].
  mon H left1 Hl1. mon H left2 Hl2. apply sub_chk_ok in Hl1, Hl2.
  split; [tauto|]. split; [tauto|].
  destruct extra as [|p0 t].
  - destruct (mint_wlp_user s u lp _ _) as [s1 n]. injection H as _ Ex. subst x. reflexivity.
  - mon H r Hr. destruct r as [s1 [ta tl]]. mon H r3 Hr3.
    destruct (v_fact e) as [kf lf]. cbn [snd].
    destruct (mint_wlp_user s1 u (lp + ta) kf lf) as [s2 n]. injection H as _ Ex. subst x.
    exists s1, ta, tl. split; [exact Hr | reflexivity].
Qed.

Lemma x_law_remove_liq s u pid p e s' x : ep_remove_liq s u pid p e = Ok (s', x) ->
  x_law x = true \/ x_law x = law_pair_remove (snd (fst (v_pair e))).
Proof.
  unfold ep_remove_liq. intros H. chk H. chk H. mon H r Hr. destruct r as [s1 [k lp]]. chk H.
  destruct (v_pair e) as [[z rb] ro]. cbn [fst snd].
  destruct (lp <? rb).
  - injection H as _ Ex. subst x. left. reflexivity.
  - mon H en Hen. injection H as _ Ex. subst x. right. reflexivity.
Qed.

(** merge_wrapped_farm_tokens: the LOCKED amount handed to the factory's mergeTokens - the proxy farming
    tokens themselves (kind 0) or the locked parts of the wrapped LP tokens (kind 1) *)
Definition merge_locked_total (s : state) (its : list item) : option Z :=
  match its with
  | [] => None
  | (_, _, kind, _, _) :: _ =>
      if kind =? 0 then Some (items_pp_total its)
      else match kill_items s its with Ok (_, (_, tl)) => Some tl | Err _ => None end
  end.

Lemma x_law_merge_items s u farm its e s' m amt law : merge_items s u farm its e = Ok (s', (m, amt, law)) ->
  exists total, merge_locked_total s its = Some total /\
    law = law_factory_merge (snd (v_fact e)) total && law_farm_merge (snd (v_fmerge e)) (items_farm_total its).
Proof.
  unfold merge_items, merge_locked_total. intros H. destruct its as [|it t]; [discriminate|].
  destruct it as [[[[fa a] kind] pn] pp]. cbv beta iota in H.
  match type of H with context [items_same ?x ?y ?z] => destruct (items_same x y z); [|discriminate] end.
  destruct (fa =? farm); [|discriminate]. destruct (v_ok e); [|discriminate].
  destruct (v_fact e) as [kf lf]. destruct (v_fmerge e) as [f' F']. cbn [snd].
  destruct (kind =? 0).
  - destruct (mint_wfm s u farm f' F' 0 kf lf) as [s1 m1]. injection H as _ _ _ El. subst law.
    eexists. split; reflexivity.
  - apply bind_ok in H. destruct H as ([s1 [tw tl]] & Hk & H). rewrite Hk.
    destruct (mint_wlp s1 tw kf lf) as [s2 n].
    destruct (mint_wfm s2 u farm f' F' 1 n tw) as [s3 m3]. injection H as _ _ _ El. subst law.
    exists tl. split; reflexivity.
Qed.

Lemma x_law_enter_farm s u farm p extra e s' x : ep_enter_farm s u farm p extra e = Ok (s', x) ->
  match extra with
  | [] => x_law x = law_farm_enter (snd (v_farm e)) (p_amt p)
  | _ => exists total its,
         items_farm_total its = snd (v_farm e) + (items_farm_total (tl its)) /\
         x_law x = law_farm_enter (snd (v_farm e)) (p_amt p) &&
                   (law_factory_merge (snd (v_fact e)) total && law_farm_merge (snd (v_fmerge e)) (items_farm_total its))
  end.
Proof.
  unfold ep_enter_farm. intros H. chk H. chk H.
  mon H r0 Hr0. destruct r0 as [[s1 kind] minted]. chk H.
  destruct (v_farm e) as [f F]. destruct (v_rew e) as [rk ra]. cbn [snd].
  destruct extra as [|p0 t].
  - destruct (mint_wfm s1 u farm f F kind (p_non p) (p_amt p)) as [s2 m]. injection H as _ Ex. subst x. reflexivity.
  - mon H r Hr. destruct r as [s2 its]. mon H z Hz. mon H r2 Hr2. destruct r2 as [s5 [[m amt] law]].
    injection H as _ Ex. subst x. cbn [x_law].
    destruct (x_law_merge_items _ _ _ _ _ _ _ _ _ Hr2) as (total & _ & ->).
    exists total, (mk_item farm F kind (p_non p) (p_amt p) :: its). split; [reflexivity | reflexivity].
Qed.

Lemma x_law_exit_farm s u farm p e s' x : ep_exit_farm s u farm p e = Ok (s', x) ->
  x_law x = law_farm_exit (snd (v_farm e)) /\ snd (v_farm e) <= p_amt p.
Proof.
  unfold ep_exit_farm. intros H. chk H. chk H. mon H r Hr. destruct r as [s1 [w pp]]. chk H. chk H.
  destruct (v_rew e) as [rk ra]. chk H. apply Z.leb_le in C3. split; [|exact C3].
  set (F := snd (v_farm e)) in *. clearbody F.
  destruct (F =? p_amt p).
  - destruct (wf_kind w =? 0); injection H as _ Ex; subst x; reflexivity.
  - mon H rem Hrem. destruct (wf_kind w =? 0).
    + mon H en Hen. injection H as _ Ex. subst x. reflexivity.
    + destruct (getn (s_wlp s1) (wf_pn w)) as [wl|]; [|discriminate].
      mon H lnew Hln. mon H r2 Hr2. destruct r2 as [s2 [k lold]]. mon H extra Hex. mon H en Hen.
      destruct (mint_wlp (upd_lp s2 (s_lp s2 + F)) rem k lnew) as [s4 n].
      injection H as _ Ex. subst x. reflexivity.
Qed.

Lemma x_law_claim s u farm p e s' x : ep_claim s u farm p e = Ok (s', x) ->
  x_law x = law_farm_claim (snd (v_farm e)) (p_amt p).
Proof.
  unfold ep_claim. intros H. chk H. chk H. mon H r Hr. destruct r as [s1 [w pp]]. chk H. chk H.
  destruct (v_farm e) as [f F]. destruct (v_rew e) as [rk ra].
  destruct (mint_wfm s1 u farm f F (wf_kind w) (wf_pn w) pp) as [s2 m]. injection H as _ Ex. subst x. reflexivity.
Qed.

Lemma x_law_merge_wlp s u ps e s' x : ep_merge_wlp s u ps e = Ok (s', x) ->
  exists s1 ta tl, take_wlp_list s u ps = Ok (s1, (ta, tl)) /\
    x_law x = law_factory_merge (snd (v_fact e)) tl.
Proof.
  unfold ep_merge_wlp. intros H. chk H. mon H r Hr. destruct r as [s1 [ta tl]]. chk H.
  destruct (v_fact e) as [kf lf].
  destruct (mint_wlp_user s1 u ta kf lf) as [s2 n]. injection H as _ Ex. subst x.
  exists s1, ta, tl. split; [exact Hr | reflexivity].
Qed.

Lemma x_law_merge_wfm s u farm ps e s' x : ep_merge_wfm s u farm ps e = Ok (s', x) ->
  exists s1 its total, take_wfm_list s u ps = Ok (s1, its) /\ merge_locked_total s1 its = Some total /\
    x_law x = law_factory_merge (snd (v_fact e)) total && law_farm_merge (snd (v_fmerge e)) (items_farm_total its)
              && law_farm_merge_rewards (snd (v_rew e)).
Proof.
  unfold ep_merge_wfm. intros H. chk H. chk H. mon H r Hr. destruct r as [s1 its].
  mon H r2 Hr2. destruct r2 as [s2 [[m amt] law]]. destruct (v_rew e) as [rk ra].
  injection H as _ Ex. subst x. cbn [x_law no_eff snd].
  destruct (x_law_merge_items _ _ _ _ _ _ _ _ _ Hr2) as (total & Ht & ->).
  exists s1, its, total. split; [exact Hr|]. split; [exact Ht | reflexivity].
Qed.

Lemma x_law_inc_lp s u p e s' x : ep_inc_lp s u p e = Ok (s', x) ->
  exists s1 k lp, take_wlp_user s u (p_non p) (p_amt p) = Ok (s1, (k, lp)) /\
    x_law x = law_factory_extend (snd (v_fact e)) lp.
Proof.
  unfold ep_inc_lp. intros H. chk H. mon H r Hr. destruct r as [s1 [k lp]]. chk H.
  destruct (v_fact e) as [kf lf].
  destruct (mint_wlp_user s1 u (p_amt p) kf lf) as [s2 n]. injection H as _ Ex. subst x.
  exists s1, k, lp. split; [exact Hr | reflexivity].
Qed.

(** increaseProxyFarmTokenEnergy: the LOCKED amount handed to extendLockPeriod is the proxy farming
    tokens themselves (kind 0) or the locked part of the wrapped LP tokens (kind 1) *)
Lemma x_law_inc_fm s u p e s' x : ep_inc_fm s u p e = Ok (s', x) ->
  exists s1 w pp, take_wfm s u (p_non p) (p_amt p) = Ok (s1, (w, pp)) /\
    if wf_kind w =? 0 then x_law x = law_factory_extend (snd (v_fact e)) pp
    else exists s2 k lq, release_wlp s1 (wf_pn w) pp = Ok (s2, (k, lq)) /\
                         x_law x = law_factory_extend (snd (v_fact e)) lq.
Proof.
  unfold ep_inc_fm. intros H. chk H. mon H r Hr. destruct r as [s1 [w pp]].
  destruct (v_fact e) as [kf lf]. cbn [snd].
  exists s1, w, pp. split; [exact Hr|].
  destruct (wf_kind w =? 0).
  - chk H. destruct (mint_wfm s1 u (wf_farm w) (wf_f w) (p_amt p) 0 kf lf) as [s2 m].
    injection H as _ Ex. subst x. reflexivity.
  - mon H r2 Hr2. destruct r2 as [s2 [k lq]]. chk H.
    destruct (mint_wlp s2 pp kf lf) as [s3 n].
    destruct (mint_wfm s3 u (wf_farm w) (wf_f w) (p_amt p) 1 n pp) as [s4 m].
    injection H as _ Ex. subst x. exists s2, k, lq. split; [exact Hr2 | reflexivity].
Qed.

(** the operations that make no nested call have nothing to assume *)
Lemma x_law_no_call s o s' x : step s o = Ok (s', x) ->
  match o with SetPair _ _ | SetFarm _ _ _ | XferWlp _ _ _ _ | XferWfm _ _ _ _ => x_law x = true | _ => True end.
Proof.
  destruct o; cbn [step]; intros H; try exact I.
  - chk H. chk H. injection H as _ Ex. subst x. reflexivity.
  - chk H. chk H. chk H. injection H as _ Ex. subst x. reflexivity.
  - unfold ep_xfer_wlp in H. chk H. mon H h Hh. injection H as _ Ex. subst x. reflexivity.
  - unfold ep_xfer_wfm in H. chk H. mon H h Hh. injection H as _ Ex. subst x. reflexivity.
Qed.

(** ================================================================== Part B: the laws on the callee models *)
(** writing one callee's answer into the record of answers *)
Definition set_v_pair (e : env) (v : Z * Z * Z) : env :=
  mkEnv (v_now e) (v_ok e) v (v_farm e) (v_fmerge e) (v_rew e) (v_fact e) (v_energy e) (v_unlock e).
Definition set_v_farm (e : env) (v r : Z * Z) : env :=
  mkEnv (v_now e) (v_ok e) (v_pair e) v (v_fmerge e) r (v_fact e) (v_energy e) (v_unlock e).
Definition set_v_fmerge (e : env) (v r : Z * Z) : env :=
  mkEnv (v_now e) (v_ok e) (v_pair e) (v_farm e) v r (v_fact e) (v_energy e) (v_unlock e).
Definition set_v_fact (e : env) (v : Z * Z) : env :=
  mkEnv (v_now e) (v_ok e) (v_pair e) (v_farm e) (v_fmerge e) (v_rew e) v (v_energy e) (v_unlock e).

(** ------------------------------------------------------------------ pair (Model/Pair.v) *)
(** addLiquidity returns (LP minted, first token used, second token used); the proxy sends its two
    payments in pool order, so "payment order" of [v_pair] is pool order *)
Definition answer_of_addLiquidity (e : env) (o : Pair.outs) : option env :=
  match o with [liq; o1; o2] => Some (set_v_pair e (liq, o1, o2)) | _ => None end.

(** removeLiquidity returns (first token, second token); the proxy sorts them into (base asset, other)
    by token identifier: [base_first] says whether the base asset is the pool's first token *)
Definition answer_of_removeLiquidity (base_first : bool) (e : env) (o : Pair.outs) : option env :=
  match o with
  | [x1; x2] => Some (set_v_pair e (if base_first then (0, x1, x2) else (0, x2, x1)))
  | _ => None
  end.

Lemma set_optimal_bounds p a1 a2 m1 m2 o1 o2 : 0 < a1 -> 0 < a2 -> 0 < m1 -> 0 < m2 ->
  Pair.set_optimal p a1 a2 m1 m2 = Ok (o1, o2) ->
  0 < o1 <= a1 /\ 0 < o2 <= a2 /\ (Pair.p_S p <> 0 -> m1 <= o1 /\ m2 <= o2).
Proof.
  intros H1 H2 M1 M2. unfold Pair.set_optimal. destruct (Pair.p_S p =? 0) eqn:ES.
  - intros H. inversion H; subst. apply Z.eqb_eq in ES. repeat split; lia.
  - intros H. apply bind_ok in H. destruct H as (q2 & Hq2 & H).
    apply bind_ok in H. destruct H as ([x1 x2] & Hx & H).
    destruct (m1 <=? x1) eqn:E1; [|discriminate]. destruct (m2 <=? x2) eqn:E2; [|discriminate].
    inversion H; subst x1 x2; clear H. apply Z.leb_le in E1, E2.
    assert (Hb : o1 <= a1 /\ o2 <= a2).
    { destruct (q2 <=? a2) eqn:E.
      - inversion Hx; subst. apply Z.leb_le in E. lia.
      - apply bind_ok in Hx. destruct Hx as (q1 & Hq1 & Hx).
        destruct (q1 <=? a1) eqn:E'; [|discriminate]. inversion Hx; subst. apply Z.leb_le in E'. lia. }
    repeat split; lia.
Qed.

Theorem pair_add_law p c a1 a2 m1 m2 p' o eff e :
  Pair.ep_add p c a1 a2 m1 m2 = Ok (p', o, eff) ->
  exists e', answer_of_addLiquidity e o = Some e' /\
    let lp := fst (fst (v_pair e')) in
    let u1 := snd (fst (v_pair e')) in
    let u2 := snd (v_pair e') in
    (* the conjunct of [x_law], whichever payment is the locked one *)
    law_pair_add lp u1 = true /\ law_pair_add lp u2 = true /\
    (* LP minted > 0; amounts used positive and at most what was sent (the proxy's leftovers
       sent - used are well defined); at least the minimums once the pool has liquidity *)
    0 < lp /\ 0 < u1 <= a1 /\ 0 < u2 <= a2 /\ (Pair.p_S p <> 0 -> m1 <= u1 /\ m2 <= u2) /\
    (* only the pair's field of the record is written *)
    v_farm e' = v_farm e /\ v_fmerge e' = v_fmerge e /\ v_rew e' = v_rew e /\ v_fact e' = v_fact e /\
    v_ok e' = v_ok e /\ v_now e' = v_now e /\ v_energy e' = v_energy e /\ v_unlock e' = v_unlock e.
Proof.
  unfold Pair.ep_add. intros H.
  destruct ((0 <? m1) && (0 <? m2)) eqn:Em; [|discriminate].
  destruct ((0 <? a1) && (0 <? a2)) eqn:Ea; [|discriminate].
  apply andb_prop in Em, Ea. destruct Em as [M1 M2]. destruct Ea as [A1 A2].
  apply Z.ltb_lt in M1, M2, A1, A2.
  destruct (Pair.is_state_active (Pair.p_state p)); [|discriminate].
  destruct (match Pair.p_adder p with Some _ => negb (Pair.p_S p =? 0) | None => true end); [|discriminate].
  apply bind_ok in H. destruct H as ([o1 o2] & Hopt & H).
  apply bind_ok in H. destruct H as ([p1 liq] & Hliq & H).
  destruct (Pair.k_check p p1); [|discriminate]. inversion H; subst p' o eff; clear H.
  destruct (set_optimal_bounds _ _ _ _ _ _ _ A1 A2 M1 M2 Hopt) as (B1 & B2 & B3).
  assert (Hl : 0 < liq).
  { destruct (Pair.p_S p =? 0).
    - destruct (MINIMUM_LIQUIDITY <? Z.min o1 o2) eqn:E; [|discriminate]. apply Z.ltb_lt in E.
      inversion Hliq; subst. lia.
    - apply bind_ok in Hliq. destruct Hliq as (l1 & _ & Hliq).
      apply bind_ok in Hliq. destruct Hliq as (l2 & _ & Hliq).
      destruct (0 <? Z.min l1 l2) eqn:E; [|discriminate]. apply Z.ltb_lt in E. inversion Hliq; subst. exact E. }
  cbn [answer_of_addLiquidity]. eexists. split; [reflexivity|].
  cbn [set_v_pair v_pair v_farm v_fmerge v_rew v_fact v_ok v_now v_energy v_unlock fst snd]. unfold law_pair_add.
  assert (T : forall x, 0 < x -> (0 <? liq) && (0 <=? x) = true).
  { intros x Hx. apply andb_true_intro. split; [apply Z.ltb_lt; lia | apply Z.leb_le; lia]. }
  split; [apply T; lia|]. split; [apply T; lia|].
  repeat split; try reflexivity; try lia; apply B3; assumption.
Qed.

Theorem pair_remove_law p c lp m1 m2 p' o eff base_first e :
  Pair.ep_remove p c lp m1 m2 = Ok (p', o, eff) ->
  exists e', answer_of_removeLiquidity base_first e o = Some e' /\
    let rb := snd (fst (v_pair e')) in
    let ro := snd (v_pair e') in
    law_pair_remove rb = true /\ 0 < rb /\ 0 < ro /\
    (* one payment per pool token, each at least the minimum asked for, the floor of the pro-rata share *)
    (exists x1 x2, o = [x1; x2] /\ m1 <= x1 /\ m2 <= x2 /\
       (rb, ro) = (if base_first then (x1, x2) else (x2, x1))) /\
    v_farm e' = v_farm e /\ v_fmerge e' = v_fmerge e /\ v_rew e' = v_rew e /\ v_fact e' = v_fact e /\
    v_ok e' = v_ok e /\ v_now e' = v_now e /\ v_energy e' = v_energy e /\ v_unlock e' = v_unlock e.
Proof.
  unfold Pair.ep_remove. intros H.
  destruct ((0 <? m1) && (0 <? m2)); [|discriminate].
  destruct (Pair.is_state_active (Pair.p_state p)); [|discriminate].
  destruct (0 <? lp); [|discriminate].
  apply bind_ok in H. destruct H as (p0 & _ & H).
  apply bind_ok in H. destruct H as ([[p1 x1] x2] & Hrm & H).
  destruct (Pair.p_r1 p1 * Pair.p_r2 p1 <=? Pair.p_r1 p * Pair.p_r2 p); [|discriminate].
  apply bind_ok in H. destruct H as (p2 & _ & H).
  apply bind_ok in H. destruct H as (p3 & _ & H). inversion H; subst p' o eff; clear H.
  unfold Pair.pool_remove in Hrm.
  destruct (lp + MINIMUM_LIQUIDITY <=? Pair.p_S p0); [|discriminate].
  apply bind_ok in Hrm. destruct Hrm as (y1 & _ & Hrm).
  destruct (0 <? y1) eqn:E1; [|discriminate].
  destruct (m1 <=? y1) eqn:F1; [|discriminate]. destruct (y1 <? Pair.p_r1 p0); [|discriminate].
  apply bind_ok in Hrm. destruct Hrm as (y2 & _ & Hrm).
  destruct (0 <? y2) eqn:E2; [|discriminate].
  destruct (m2 <=? y2) eqn:F2; [|discriminate]. destruct (y2 <? Pair.p_r2 p0); [|discriminate].
  apply bind_ok in Hrm. destruct Hrm as (sx & _ & Hrm).
  apply bind_ok in Hrm. destruct Hrm as (r1' & _ & Hrm).
  apply bind_ok in Hrm. destruct Hrm as (r2' & _ & Hrm). inversion Hrm; subst p1 x1 x2; clear Hrm.
  apply Z.ltb_lt in E1, E2. apply Z.leb_le in F1, F2.
  cbn [answer_of_removeLiquidity]. eexists. split; [reflexivity|].
  unfold law_pair_remove.
  destruct base_first; cbn [set_v_pair v_pair v_farm v_fmerge v_rew v_fact v_ok v_now v_energy v_unlock fst snd];
    (split; [apply Z.leb_le; lia|]); (split; [lia|]); (split; [lia|]);
    (split; [exists y1, y2; repeat split; auto|]); repeat split; reflexivity.
Qed.

(** ------------------------------------------------------------------ farm-with-locked-rewards (Model/FarmLocked.v over Model/Farm.v) *)
(** a successful farm endpoint of the locked farm is a successful [fstep] with the same results; its
    reward leaves as ONE locked payment for the caller with an unlock epoch in the future, or, when
    the reward is zero, as no payment at all *)
Lemma lstep_receipts ls op ls' o rc : FL.lstep ls (FL.LF op) = Ok (ls', o, rc) ->
  Farm.fstep (FL.l_f ls) op = Ok (FL.l_f ls', o) /\
  let r := FL.reward_of op o in
  let ue := FL.unlock_of (FL.op_epoch op) (FL.l_lock ls) in
  (r <= 0 -> rc = []) /\
  (0 < r -> rc = [(FL.op_caller op, (r, ue))] /\ FL.op_epoch op < ue /\ FL.listed ls = true).
Proof.
  intros H. pose proof (FLP.lstep_farm _ _ _ _ _ H) as (HE & Hf & _). split; [exact Hf|].
  unfold FL.lstep in H. rewrite HE, Hf in H. cbn [bind] in H. cbv zeta in H.
  cbv zeta. destruct (0 <? FL.reward_of op o) eqn:Er.
  - apply Z.ltb_lt in Er. destruct (FL.listed ls) eqn:Li; [|discriminate].
    destruct (FL.op_epoch op <? FL.unlock_of (FL.op_epoch op) (FL.l_lock ls)) eqn:Eu; [|discriminate].
    apply Z.ltb_lt in Eu. inversion H; subst. split; [lia|]. intros _. repeat split; auto.
  - apply Z.ltb_ge in Er. inversion H; subst. split; [reflexivity | lia].
Qed.

(** what the proxy decodes: enterFarm / claimRewards return (farm token, rewards), exitFarm returns
    (farming tokens, rewards), mergeFarmTokens returns (farm token, boosted rewards).  [rk] is the nonce
    of the LOCKED reward token (assigned by the energy factory; not in the farm model). *)
Definition answer_of_enterFarm (e : env) (rk : Z) (o : Farm.fouts) : option env :=
  match o with [n; amt; r] => Some (set_v_farm e (n, amt) (rk, r)) | _ => None end.
Definition answer_of_claimRewards (e : env) (rk : Z) (o : Farm.fouts) : option env :=
  match o with [n; amt; r] => Some (set_v_farm e (n, amt) (rk, r)) | _ => None end.
Definition answer_of_exitFarm (e : env) (rk : Z) (o : Farm.fouts) : option env :=
  match o with [out; r] => Some (set_v_farm e (0, out) (rk, r)) | _ => None end.
Definition answer_of_mergeFarmTokens (e : env) (rk : Z) (o : Farm.fouts) : option env :=
  match o with [n; amt; r] => Some (set_v_fmerge e (n, amt) (rk, r)) | _ => None end.

Lemma farm_enter_out f blk ep c amt adds b f' o : Farm.ep_enter f blk ep c amt adds b = Ok (f', o) ->
  o = [Farm.f_next f; amt + CL.pay_sum adds; b] /\ 0 <= b /\ 0 < amt.
Proof.
  unfold Farm.ep_enter. intros H.
  destruct (0 <? amt) eqn:Ea; [|discriminate]. apply Z.ltb_lt in Ea.
  apply bind_ok in H. destruct H as (f0 & H0 & H).
  destruct (Farm.active f0); [|discriminate].
  apply bind_ok in H. destruct H as (f1 & H1 & H).
  apply bind_ok in H. destruct H as (f2 & H2 & H).
  apply bind_ok in H. destruct H as (f4 & H4 & H).
  apply bind_ok in H. destruct H as (m & Hm & H).
  match type of H with (let '(_, _) := Farm.mint_pos ?g _ _ in _) = _ => set (g5 := g) in * end.
  destruct (Farm.mint_pos g5 m c) as [f6 k] eqn:Hmint. inversion H; subst f' o; clear H.
  apply FI.merge_payments_amt in Hm. rewrite CL.psum_one in Hm. cbn [Farm.a_amt] in Hm. destruct Hm as [Hm _].
  unfold Farm.mint_pos in Hmint. inversion Hmint; subst k; clear Hmint.
  apply FI.pay_reward_spec in H0.
  destruct H0 as (_ & T0 & _ & _ & _ & _ & _ & Hb & _).
  assert (N : Farm.f_next f4 = Farm.f_next f).
  { assert (N4 : Farm.f_next f4 = Farm.f_next (Farm.increase_user f2 c amt)).
    { clear - H4. unfold Farm.settle in H4. destruct (blk <=? _); [inversion H4; reflexivity|].
      destruct (_ =? 0); [inversion H4; reflexivity|].
      apply bind_ok in H4. destruct H4 as (inc & _ & H4). inversion H4. reflexivity. }
    rewrite N4. cbn.
    pose proof (FI.check_update_only _ _ _ _ H2) as (_ & N2 & _). rewrite N2.
    assert (N1 : forall ps g g', Farm.pay_all g c ps = Ok g' -> Farm.f_next g' = Farm.f_next g).
    { induction ps as [|q t IH]; intros g g' Hp; cbn in Hp; [inversion Hp; reflexivity|].
      apply bind_ok in Hp. destruct Hp as (g1 & Hq & Hp). rewrite (IH _ _ Hp).
      unfold Farm.pay_in in Hq. apply bind_ok in Hq. destruct Hq as (g2 & Hd & Hq).
      apply bind_ok in Hq. destruct Hq as (oo & _ & Hq). inversion Hq; subst g1; clear Hq. cbn.
      unfold Farm.debit_held in Hd. destruct q as [qn qx]. destruct (0 <? qx); [|discriminate].
      apply bind_ok in Hd. destruct Hd as (bb & _ & Hd). inversion Hd. reflexivity. }
    rewrite (N1 _ _ _ H1). unfold FI.toks in T0. injection T0 as T0 _ _ _ _. exact T0. }
  subst g5. cbn [Farm.f_next Farm.upd_core]. rewrite N, Hm. repeat split; auto; lia.
Qed.

Theorem lfarm_enter_law ls blk ep c a b ls' o rc e rk :
  FL.lstep ls (FL.LF (Farm.FEnter blk ep c a [] b)) = Ok (ls', o, rc) ->
  exists e', answer_of_enterFarm e rk o = Some e' /\
    law_farm_enter (snd (v_farm e')) a = true /\
    (* the farm token is new; the rewards are the caller's boosted rewards, >= 0, paid as ONE locked
       payment to the caller with an unlock epoch in the future (none when zero) *)
    fst (v_farm e') = Farm.f_next (FL.l_f ls) /\ snd (v_rew e') = b /\ 0 <= snd (v_rew e') /\
    (snd (v_rew e') = 0 -> rc = []) /\
    (0 < snd (v_rew e') -> exists ue, rc = [(c, (snd (v_rew e'), ue))] /\ ep < ue) /\
    v_pair e' = v_pair e /\ v_fmerge e' = v_fmerge e /\ v_fact e' = v_fact e /\
    v_ok e' = v_ok e /\ v_now e' = v_now e /\ v_energy e' = v_energy e /\ v_unlock e' = v_unlock e.
Proof.
  intros H. destruct (lstep_receipts _ _ _ _ _ H) as (Hf & Hrc). cbn [Farm.fstep] in Hf.
  destruct (farm_enter_out _ _ _ _ _ _ _ _ _ Hf) as (-> & Hb & Ha).
  cbn [FL.reward_of FL.op_epoch FL.op_caller nth] in Hrc. cbv zeta in Hrc. destruct Hrc as (R0 & R1).
  cbn [answer_of_enterFarm]. eexists. split; [reflexivity|].
  cbn [set_v_farm v_pair v_farm v_fmerge v_rew v_fact v_ok v_now v_energy v_unlock fst snd CL.pay_sum fold_right].
  unfold law_farm_enter. split; [apply Z.eqb_eq; lia|].
  split; [reflexivity|]. split; [reflexivity|]. split; [exact Hb|].
  split; [intros Hz; apply R0; lia|].
  split; [intros Hp; destruct (R1 Hp) as (-> & Hu & _); eexists; split; [reflexivity | exact Hu]|].
  repeat split; reflexivity.
Qed.

Theorem lfarm_claim_law ls blk ep c n a b ls' o rc e rk :
  FL.lstep ls (FL.LF (Farm.FClaim blk ep c (n, a) [] b)) = Ok (ls', o, rc) ->
  exists e', answer_of_claimRewards e rk o = Some e' /\
    law_farm_claim (snd (v_farm e')) a = true /\
    (snd (v_rew e') <= 0 -> rc = []) /\
    (0 < snd (v_rew e') -> exists ue, rc = [(c, (snd (v_rew e'), ue))] /\ ep < ue) /\
    v_pair e' = v_pair e /\ v_fmerge e' = v_fmerge e /\ v_fact e' = v_fact e /\
    v_ok e' = v_ok e /\ v_now e' = v_now e /\ v_energy e' = v_energy e /\ v_unlock e' = v_unlock e.
Proof.
  intros H. destruct (lstep_receipts _ _ _ _ _ H) as (Hf & Hrc). cbn [Farm.fstep] in Hf.
  assert (Ho : exists n' r, o = [n'; a; r]).
  { pose proof Hf as Hf'. unfold Farm.ep_claim in Hf'. destruct (Farm.active _); [|discriminate].
    do 8 (apply bind_ok in Hf'; destruct Hf' as (? & _ & Hf')).
    destruct (Farm.mint_pos _ _ c) as [f5 k]. inversion Hf'; subst.
    pose proof (CL.L1_farm_claim _ _ _ _ _ _ _ _ _ _ _ Hf) as E. rewrite E. eauto. }
  destruct Ho as (n' & r & ->).
  cbn [FL.reward_of FL.op_epoch FL.op_caller nth] in Hrc. cbv zeta in Hrc. destruct Hrc as (R0 & R1).
  cbn [answer_of_claimRewards]. eexists. split; [reflexivity|].
  cbn [set_v_farm v_pair v_farm v_fmerge v_rew v_fact v_ok v_now v_energy v_unlock fst snd].
  unfold law_farm_claim. split; [apply Z.eqb_refl|].
  split; [exact R0|].
  split; [intros Hp; destruct (R1 Hp) as (-> & Hu & _); eexists; split; [reflexivity | exact Hu]|].
  repeat split; reflexivity.
Qed.

(** -- the exit-penalty configuration is validated where it is set and touched by nothing else *)
Definition pcfg (f : Farm.farm) := (Farm.f_minep f, Farm.f_pen f, Farm.f_attrs f).

Lemma cfgt_pen f f' : FI.cfgt f' = FI.cfgt f -> Farm.f_minep f' = Farm.f_minep f /\ Farm.f_pen f' = Farm.f_pen f.
Proof. unfold FI.cfgt. intros H. injection H; intros; auto. Qed.

Lemma pay_reward_pcfg f r b f' : Farm.pay_reward f r b = Ok f' -> pcfg f' = pcfg f.
Proof.
  unfold Farm.pay_reward. intros H. destruct (0 <=? b); [|discriminate].
  do 3 (apply bind_ok in H; destruct H as (? & _ & H)). inversion H. reflexivity.
Qed.

Lemma debit_held_pcfg f c p f' : Farm.debit_held f c p = Ok f' -> pcfg f' = pcfg f.
Proof.
  unfold Farm.debit_held. destruct p as [n x]. intros H. destruct (0 <? x); [|discriminate].
  apply bind_ok in H. destruct H as (? & _ & H). inversion H. reflexivity.
Qed.

Lemma pay_in_pcfg f c p f' : Farm.pay_in f c p = Ok f' -> pcfg f' = pcfg f.
Proof.
  unfold Farm.pay_in. intros H. apply bind_ok in H. destruct H as (f1 & H1 & H).
  apply bind_ok in H. destruct H as (? & _ & H). inversion H; subst f'.
  rewrite <- (debit_held_pcfg _ _ _ _ H1). reflexivity.
Qed.

Lemma pay_all_pcfg ps : forall f c f', Farm.pay_all f c ps = Ok f' -> pcfg f' = pcfg f.
Proof.
  induction ps as [|p t IH]; intros f c f' H; cbn in H; [inversion H; reflexivity|].
  apply bind_ok in H. destruct H as (f1 & H1 & H). rewrite (IH _ _ _ H). eapply pay_in_pcfg; eassumption.
Qed.

Lemma only_utot_pcfg f f' : FI.only_utot f f' -> pcfg f' = pcfg f.
Proof.
  intros ((_ & C & _) & _ & A & _). destruct (cfgt_pen _ _ C) as (E1 & E2). unfold pcfg. rewrite E1, E2, A. reflexivity.
Qed.

Lemma settle_pcfg f blk f' : Farm.settle f blk = Ok f' -> pcfg f' = pcfg f.
Proof.
  unfold Farm.settle. intros H. destruct (blk <=? _); [inversion H; reflexivity|].
  destruct (_ =? 0); [inversion H; reflexivity|].
  apply bind_ok in H. destruct H as (inc & _ & H). inversion H. reflexivity.
Qed.

Lemma mint_pos_pen f a d f' n : Farm.mint_pos f a d = (f', n) ->
  Farm.f_minep f' = Farm.f_minep f /\ Farm.f_pen f' = Farm.f_pen f.
Proof. unfold Farm.mint_pos. intros H. inversion H. split; reflexivity. Qed.

Lemma pcfg_pen f f' : pcfg f' = pcfg f -> Farm.f_minep f' = Farm.f_minep f /\ Farm.f_pen f' = Farm.f_pen f.
Proof. unfold pcfg. intros H. injection H as H1 H2 _. auto. Qed.

(** exitFarm on the position (n, a): farming tokens returned = a - penalty, the penalty being the
    configured percentage of [a] while the position is younger than the minimum farming epochs *)
Lemma farm_exit_out f blk ep c n a b f' o : Farm.ep_exit f blk ep c (n, a) b = Ok (f', o) ->
  exists at0 base,
    Farm.find_attrs (Farm.f_attrs f) n = Some at0 /\ Farm.a_epoch at0 <= ep /\ 0 < a /\
    let pen := if ep - Farm.a_epoch at0 <? Farm.f_minep f then a * Farm.f_pen f / Farm.MAXP else 0 in
    o = [a - pen; base + b] /\ pen <= a.
Proof.
  unfold Farm.ep_exit. intros H. destruct (Farm.active f); [|discriminate].
  apply bind_ok in H. destruct H as (f1 & H1 & H).
  apply bind_ok in H. destruct H as (f2 & H2 & H).
  apply bind_ok in H. destruct H as (at0 & Hat & H).
  apply bind_ok in H. destruct H as (part & Hpart & H).
  apply bind_ok in H. destruct H as (base & _ & H).
  apply bind_ok in H. destruct H as (f3 & H3 & H).
  apply bind_ok in H. destruct H as (f4 & H4 & H).
  apply bind_ok in H. destruct H as (sup & _ & H). cbv zeta in H.
  apply bind_ok in H. destruct H as (age & Hage & H).
  apply bind_ok in H. destruct H as (out & Hout & H).
  apply bind_ok in H. destruct H as (bal & _ & H). inversion H; subst f' o; clear H.
  cbn [fst snd] in *.
  apply FI.into_part_amt in Hpart. destruct Hpart as (Pa & _ & Pe & _).
  apply sub_chk_ok in Hage. destruct Hage as [Hle ->]. apply sub_chk_ok in Hout. destruct Hout as [Hpen ->].
  pose proof (pay_in_pcfg _ _ _ _ H1) as E1. pose proof (settle_pcfg _ _ _ H2) as E2.
  pose proof (pay_reward_pcfg _ _ _ _ H3) as E3. pose proof (only_utot_pcfg _ _ (FI.decrease_user_only _ _ _ H4)) as E4.
  assert (E : pcfg f4 = pcfg f) by congruence.
  assert (EA : Farm.f_attrs f2 = Farm.f_attrs f).
  { assert (E' : pcfg f2 = pcfg f) by congruence. unfold pcfg in E'. injection E' as _ _ E'. exact E'. }
  destruct (pcfg_pen _ _ E) as (Em & Ep).
  cbn [Farm.f_minep Farm.f_pen Farm.upd_core] in *. rewrite Em, Ep, Pa in *.
  unfold Farm.get_attrs in Hat. rewrite EA in Hat.
  destruct (Farm.find_attrs (Farm.f_attrs f) n) as [at1|]; [|discriminate]. inversion Hat; subst at1; clear Hat.
  assert (Ha : 0 < a).
  { unfold Farm.pay_in in H1. apply bind_ok in H1. destruct H1 as (g & Hd & _).
    unfold Farm.debit_held in Hd. destruct (0 <? a) eqn:Ea; [apply Z.ltb_lt in Ea; exact Ea | discriminate]. }
  exists at0, base. split; [reflexivity|]. split; [exact Hle|]. split; [exact Ha|].
  cbv zeta. split; [reflexivity | exact Hpen].
Qed.

Theorem lfarm_exit_law ls blk ep c n a b ls' o rc e rk :
  FL.lstep ls (FL.LF (Farm.FExit blk ep c (n, a) b)) = Ok (ls', o, rc) ->
  exists e', answer_of_exitFarm e rk o = Some e' /\
    law_farm_exit (snd (v_farm e')) = true /\
    (* farming tokens returned = amount - penalty; never more than the amount under a validated penalty
       percentage (the proxy's guard F <= a cannot fire) *)
    (exists at0, Farm.find_attrs (Farm.f_attrs (FL.l_f ls)) n = Some at0 /\
       let f := FL.l_f ls in
       let pen := if ep - Farm.a_epoch at0 <? Farm.f_minep f then a * Farm.f_pen f / Farm.MAXP else 0 in
       snd (v_farm e') = a - pen /\ pen <= a /\ (0 <= Farm.f_pen f -> 0 <= pen)) /\
    (* rewards only as ONE locked payment to the caller, unlock epoch in the future *)
    (snd (v_rew e') <= 0 -> rc = []) /\
    (0 < snd (v_rew e') -> exists ue, rc = [(c, (snd (v_rew e'), ue))] /\ ep < ue) /\
    v_pair e' = v_pair e /\ v_fmerge e' = v_fmerge e /\ v_fact e' = v_fact e /\
    v_ok e' = v_ok e /\ v_now e' = v_now e /\ v_energy e' = v_energy e /\ v_unlock e' = v_unlock e.
Proof.
  intros H. destruct (lstep_receipts _ _ _ _ _ H) as (Hf & Hrc). cbn [Farm.fstep] in Hf.
  destruct (farm_exit_out _ _ _ _ _ _ _ _ _ Hf) as (at0 & base & Hat & Hep & Ha & Hsh).
  cbv zeta in Hsh. destruct Hsh as (-> & Hpen).
  cbn [FL.reward_of FL.op_epoch FL.op_caller nth] in Hrc. cbv zeta in Hrc. destruct Hrc as (R0 & R1).
  cbn [answer_of_exitFarm]. eexists. split; [reflexivity|].
  cbn [set_v_farm v_pair v_farm v_fmerge v_rew v_fact v_ok v_now v_energy v_unlock fst snd].
  unfold law_farm_exit. split; [apply Z.leb_le; lia|].
  split.
  { exists at0. split; [exact Hat|]. cbv zeta. split; [reflexivity|]. split; [exact Hpen|].
    intros Hp. destruct (_ <? _); [|lia]. apply div_nonneg; [nia | apply FI.maxp_pos]. }
  split; [exact R0|].
  split; [intros Hp; destruct (R1 Hp) as (-> & Hu & _); eexists; split; [reflexivity | exact Hu]|].
  repeat split; reflexivity.
Qed.

(** mergeFarmTokens on the payments [ps] (token nonce, amount) *)
Fixpoint farm_sum (ps : list (Z * Z)) : Z := match ps with [] => 0 | (_, x) :: t => x + farm_sum t end.
Lemma farm_sum_pay_sum ps : CL.pay_sum ps = farm_sum ps.
Proof. induction ps as [|[n x] t IH]; cbn; [reflexivity | rewrite <- IH; reflexivity]. Qed.

Theorem lfarm_merge_law ls blk ep c ps b ls' o rc e rk :
  FL.lstep ls (FL.LF (Farm.FMerge blk ep c ps b)) = Ok (ls', o, rc) ->
  exists e', answer_of_mergeFarmTokens e rk o = Some e' /\
    law_farm_merge (snd (v_fmerge e')) (farm_sum ps) = true /\
    law_farm_merge_rewards (snd (v_rew e')) = true /\
    snd (v_rew e') = b /\
    (snd (v_rew e') = 0 -> rc = []) /\
    (0 < snd (v_rew e') -> exists ue, rc = [(c, (snd (v_rew e'), ue))] /\ ep < ue) /\
    v_pair e' = v_pair e /\ v_farm e' = v_farm e /\ v_fact e' = v_fact e /\
    v_ok e' = v_ok e /\ v_now e' = v_now e /\ v_energy e' = v_energy e /\ v_unlock e' = v_unlock e.
Proof.
  intros H. destruct (lstep_receipts _ _ _ _ _ H) as (Hf & Hrc). cbn [Farm.fstep] in Hf.
  assert (Ho : exists n' amt, o = [n'; amt; b] /\ 0 <= b).
  { pose proof Hf as Hf'. unfold Farm.ep_merge in Hf'. destruct (Farm.active _); [|discriminate].
    destruct ps as [|first rest]; [discriminate|].
    apply bind_ok in Hf'. destruct Hf' as (f0 & H0 & Hf').
    do 5 (apply bind_ok in Hf'; destruct Hf' as (? & _ & Hf')).
    destruct (Farm.mint_pos _ _ c) as [f3 k]. inversion Hf'; subst.
    apply FI.pay_reward_spec in H0. destruct H0 as (_ & _ & _ & _ & _ & _ & _ & Hb & _).
    eexists _, _. split; [reflexivity | lia]. }
  destruct Ho as (n' & amt & -> & Hb).
  pose proof (CL.L2_farm_merge _ _ _ _ _ _ _ _ _ _ Hf) as Eamt. rewrite farm_sum_pay_sum in Eamt.
  cbn [FL.reward_of FL.op_epoch FL.op_caller nth] in Hrc. cbv zeta in Hrc. destruct Hrc as (R0 & R1).
  cbn [answer_of_mergeFarmTokens]. eexists. split; [reflexivity|].
  cbn [set_v_fmerge v_pair v_farm v_fmerge v_rew v_fact v_ok v_now v_energy v_unlock fst snd].
  unfold law_farm_merge, law_farm_merge_rewards.
  split; [apply Z.eqb_eq; exact Eamt|]. split; [apply Z.leb_le; exact Hb|]. split; [reflexivity|].
  split; [intros Hz; apply R0; lia|].
  split; [intros Hp; destruct (R1 Hp) as (-> & Hu & _); eexists; split; [reflexivity | exact Hu]|].
  repeat split; reflexivity.
Qed.

(** the penalty percentage is validated by its setter (0 <= p < MAX_PERCENT), initialised to the
    default constant, and written by nothing else: in every reachable state of the farm model the
    exit law's upper bound holds (farming tokens returned <= amount sent) *)
Definition PenOK (f : Farm.farm) : Prop := 0 <= Farm.f_pen f < Farm.MAXP.

Lemma init_pen dsc same : PenOK (Farm.init_farm dsc same).
Proof. unfold PenOK. cbn. split; [discriminate | reflexivity]. Qed.

Ltac pen_facts :=
  repeat match goal with
  | H : Farm.pay_reward _ _ _ = Ok _ |- _ => apply pay_reward_pcfg, pcfg_pen in H; destruct H as [_ H]
  | H : Farm.pay_all _ _ _ = Ok _ |- _ => apply pay_all_pcfg, pcfg_pen in H; destruct H as [_ H]
  | H : Farm.pay_in _ _ _ = Ok _ |- _ => apply pay_in_pcfg, pcfg_pen in H; destruct H as [_ H]
  | H : Farm.debit_held _ _ _ = Ok _ |- _ => apply debit_held_pcfg, pcfg_pen in H; destruct H as [_ H]
  | H : Farm.settle _ _ = Ok _ |- _ => apply settle_pcfg, pcfg_pen in H; destruct H as [_ H]
  | H : Farm.check_update _ _ _ = Ok _ |- _ => apply FI.check_update_only, only_utot_pcfg, pcfg_pen in H; destruct H as [_ H]
  | H : Farm.decrease_user _ _ = Ok _ |- _ => apply FI.decrease_user_only, only_utot_pcfg, pcfg_pen in H; destruct H as [_ H]
  | H : Farm.mint_pos _ _ _ = _ |- _ => apply mint_pos_pen in H; destruct H as [_ H]
  end.

Lemma fstep_pen f op f' o : Farm.fstep f op = Ok (f', o) -> PenOK f -> PenOK f'.
Proof.
  unfold PenOK. intros H P.
  destruct op; cbn [Farm.fstep] in H;
    try (unfold Farm.ep_enter, Farm.ep_claim, Farm.ep_compound, Farm.ep_exit, Farm.ep_merge,
                Farm.ep_claim_boosted, Farm.ep_transfer in H);
    brk H; inversion H; subst; clear H; pen_facts;
    cbn [Farm.f_pen Farm.upd_core Farm.upd_money Farm.upd_cfg Farm.upd_tokens Farm.upd_out
         Farm.increase_user Farm.set_utot] in *;
    lia.   (* FSetPenalty: the setter's own guard 0 <= p < MAX_PERCENT *)
Qed.

Lemma frun_pen ops : forall f, PenOK f -> PenOK (Farm.frun f ops).
Proof.
  induction ops as [|op t IH]; intros f P; [exact P|].
  change (Farm.frun f (op :: t)) with (Farm.frun (Farm.fstep_total f op) t). apply IH.
  unfold Farm.fstep_total. destruct (Farm.fstep f op) as [[f' o]|] eqn:E; [|exact P]. eapply fstep_pen; eassumption.
Qed.

Theorem lrun_pen dsc same opts lock ops : PenOK (FL.l_f (FL.lrun (FL.init_locked dsc same opts lock) ops)).
Proof.
  destruct (FLP.lrun_refines_frun ops (FL.init_locked dsc same opts lock)) as (fops & _ & ->).
  apply frun_pen. apply init_pen.
Qed.

(** ------------------------------------------------------------------ energy factory (Model/Energy.v) *)
(** mergeTokens / extendLockPeriod return one locked token (unlock epoch, amount); [kf] is its nonce
    (one nonce per unlock epoch in the factory; the model identifies the token with its unlock epoch) *)
Definition answer_of_mergeTokens (e : env) (kf : Z) (o : EN.outs) : option env :=
  match o with [ne; ma] => Some (set_v_fact e (kf, ma)) | _ => None end.
Definition answer_of_extendLockPeriod (e : env) (kf : Z) (o : EN.outs) : option env :=
  match o with [ne; ma] => Some (set_v_fact e (kf, ma)) | _ => None end.

Lemma merge_loop_amt ps : forall en now ae aa en' me ma,
  EN.merge_loop en now ae aa ps = Ok (en', me, ma) -> ma = aa + ENP.tsum ps.
Proof.
  induction ps as [|[e a] t IH]; cbn [EN.merge_loop ENP.tsum]; intros en now ae aa en' me ma H.
  - inversion H. lia.
  - destruct (now <? e); [|discriminate].
    apply bind_ok in H. destruct H as (en1 & _ & H). apply bind_ok in H. destruct H as (ne & _ & H).
    rewrite (IH _ _ _ _ _ _ _ H). lia.
Qed.

Lemma avg_up_between v1 w1 v2 w2 r lo hi : EN.avg_up v1 w1 v2 w2 = Ok r -> 0 < w1 -> 0 < w2 ->
  lo <= v1 <= hi -> lo <= v2 <= hi -> lo <= r <= hi.
Proof.
  unfold EN.avg_up. intros H W1 W2 B1 B2. apply div_chk_ok in H. destruct H as [_ ->]. split.
  - apply Z.div_le_lower_bound; [lia | nia].
  - assert ((v1 * w1 + v2 * w2 + (w1 + w2) - 1) / (w1 + w2) < hi + 1); [|lia].
    apply Z.div_lt_upper_bound; [lia | nia].
Qed.

Lemma merge_loop_between ps : forall en now ae aa en' me ma lo hi,
  EN.merge_loop en now ae aa ps = Ok (en', me, ma) -> 0 < aa -> ENP.all_pos ps = true ->
  lo <= ae <= hi -> Forall (fun p => lo <= fst p <= hi) ps -> lo <= me <= hi.
Proof.
  induction ps as [|[e a] t IH]; cbn [EN.merge_loop]; intros en now ae aa en' me ma lo hi H Ha P B F.
  - inversion H; subst. exact B.
  - destruct (now <? e); [|discriminate].
    apply bind_ok in H. destruct H as (en1 & _ & H). apply bind_ok in H. destruct H as (ne & Hne & H).
    unfold ENP.all_pos in P. cbn [forallb snd] in P. apply andb_prop in P. destruct P as [Pa Pt]. apply Z.ltb_lt in Pa.
    inversion F as [|? ? Fe Ft]; subst. cbn [fst] in Fe.
    eapply (IH _ _ _ _ _ _ _ lo hi H); [lia | exact Pt | | exact Ft].
    eapply avg_up_between; eauto.
Qed.

Lemma all_pos_tsum ps : ENP.all_pos ps = true -> 0 <= ENP.tsum ps.
Proof.
  induction ps as [|[e a] t IH]; cbn; [lia|]. intros P. apply andb_prop in P. destruct P as [Pa Pt].
  apply Z.ltb_lt in Pa. specialize (IH Pt). lia.
Qed.

Lemma som_upper_between opts now x : EN.som x <= EN.som_upper opts now x <= EN.som x + EPOCHS_PER_MONTH.
Proof.
  pose proof ENP.month_pos. unfold EN.som_upper.
  destruct (x =? EN.som x); [lia|]. destruct (_ <=? now); [lia|]. destruct (_ <=? _); lia.
Qed.

(** mergeTokens(original caller u) on the locked payments [ps] = (unlock epoch, amount) *)
Theorem factory_merge_law s u ps s' o e kf :
  EN.ep_merge s u ps = Ok (s', o) ->
  exists e', answer_of_mergeTokens e kf o = Some e' /\
    law_factory_merge (snd (v_fact e')) (ENP.tsum ps) = true /\
    0 < snd (v_fact e') /\
    (* ONE token; its unlock epoch is the amount-weighted average (rounded up) of the inputs' - so it lies
       between them - normalised to a month boundary at most one month later *)
    (exists ne me, o = [ne; snd (v_fact e')] /\
       (forall lo hi, Forall (fun p => lo <= fst p <= hi) ps -> lo <= me <= hi) /\
       ne = EN.som_upper (EN.opts_of s) (EN.s_now s) me /\
       EN.som me <= ne <= EN.som me + EPOCHS_PER_MONTH /\
       (* with the factory's invariant (C08): still locked, and the invariant is kept *)
       (ENP.EnergyInv s -> 0 < u -> EN.s_now s < ne /\ ENP.EnergyInv s')) /\
    v_pair e' = v_pair e /\ v_farm e' = v_farm e /\ v_fmerge e' = v_fmerge e /\ v_rew e' = v_rew e /\
    v_ok e' = v_ok e /\ v_now e' = v_now e /\ v_energy e' = v_energy e /\ v_unlock e' = v_unlock e.
Proof.
  intros H. pose proof H as H0. unfold EN.ep_merge in H.
  apply bind_ok in H. destruct H as (bal1 & _ & H).
  destruct (forallb (fun p => 0 <? snd p) ps) eqn:Hpos; [|discriminate].
  destruct ps as [|[e0 a0] t]; [discriminate|].
  destruct (EN.s_now s <? e0); [|discriminate].
  apply bind_ok in H. destruct H as (en1 & _ & H).
  apply bind_ok in H. destruct H as ([[en2 me] ma] & Hloop & H).
  destruct (negb _); [|discriminate]. inversion H; subst s' o; clear H.
  change (forallb (fun p => 0 <? snd p) ((e0, a0) :: t)) with (ENP.all_pos ((e0, a0) :: t)) in Hpos.
  unfold ENP.all_pos in Hpos. cbn [forallb snd] in Hpos. apply andb_prop in Hpos. destruct Hpos as [Pa Pt].
  apply Z.ltb_lt in Pa. fold (ENP.all_pos t) in Pt.
  pose proof (merge_loop_amt _ _ _ _ _ _ _ _ Hloop) as Ema.
  pose proof (all_pos_tsum _ Pt) as Ht.
  cbn [answer_of_mergeTokens]. eexists. split; [reflexivity|].
  cbn [set_v_fact v_pair v_farm v_fmerge v_rew v_fact v_ok v_now v_energy v_unlock fst snd ENP.tsum].
  unfold law_factory_merge. split; [apply Z.eqb_eq; lia|]. split; [lia|].
  split.
  { eexists _, me. split; [reflexivity|]. split.
    - intros lo hi F. inversion F as [|? ? Fe Ft]; subst. cbn [fst] in Fe.
      eapply merge_loop_between; eauto.
    - split; [reflexivity|]. split; [apply som_upper_between|].
      intros I Hu. destruct (ENP.ep_merge_spec _ _ _ _ _ I Hu H0) as (I' & ne & ma' & Eo & Hne & _).
      inversion Eo; subst. split; assumption. }
  repeat split; reflexivity.
Qed.

(** extendLockPeriod(lock epochs le, user u) on the locked payment (unlock epoch ep, amount amt) *)
Theorem factory_extend_law s u ep amt le s' o e kf :
  EN.ep_extend s u ep amt le u = Ok (s', o) ->
  exists e', answer_of_extendLockPeriod e kf o = Some e' /\
    law_factory_extend (snd (v_fact e')) amt = true /\
    0 < amt /\
    (* ONE token of the same amount, locked strictly longer than before and still locked *)
    (exists ne, o = [ne; amt] /\ ne = EN.som (EN.s_now s + le) /\ EN.s_now s < ne /\ ep < ne) /\
    v_pair e' = v_pair e /\ v_farm e' = v_farm e /\ v_fmerge e' = v_fmerge e /\ v_rew e' = v_rew e /\
    v_ok e' = v_ok e /\ v_now e' = v_now e /\ v_energy e' = v_energy e /\ v_unlock e' = v_unlock e.
Proof.
  unfold EN.ep_extend. intros H.
  destruct (EN.listed _ le); [|discriminate].
  destruct (EN.s_now s <? EN.som (EN.s_now s + le)) eqn:E1; [|discriminate].
  apply bind_ok in H. destruct H as (bal0 & _ & H).
  destruct (u =? u); [|discriminate].
  destruct (ep <? EN.som (EN.s_now s + le)) eqn:E2; [|discriminate].
  apply bind_ok in H. destruct H as (en1 & _ & H).
  destruct (0 <? amt) eqn:E3; [|discriminate]. inversion H; subst s' o; clear H.
  apply Z.ltb_lt in E1, E2, E3.
  cbn [answer_of_extendLockPeriod]. eexists. split; [reflexivity|].
  cbn [set_v_fact v_pair v_farm v_fmerge v_rew v_fact v_ok v_now v_energy v_unlock fst snd].
  unfold law_factory_extend. split; [apply Z.eqb_refl|]. split; [exact E3|].
  split; [eexists; repeat split; auto|]. repeat split; reflexivity.
Qed.

(** the same law on the locking model of C09 (Model/Penalty.v: lockTokens with a LOCKED payment = the
    code extendLockPeriod runs; that model has the base-asset ledger and the pause flag, and no
    on-behalf caller, no mergeTokens) *)
Theorem factory_extend_law_penalty s c ep amt le s' o e kf :
  Penalty.ep_extend s c ep amt le = Ok (s', o) ->
  exists e', answer_of_extendLockPeriod e kf o = Some e' /\
    law_factory_extend (snd (v_fact e')) amt = true /\ 0 < amt /\
    exists ne, o = [ne; amt] /\ ne = Penalty.start_of_month (Penalty.l_now s + le) /\ Penalty.l_now s < ne /\ ep < ne.
Proof.
  unfold Penalty.ep_extend. intros H.
  destruct (Penalty.is_user c); [|discriminate]. destruct (negb (Penalty.paused s)); [|discriminate].
  destruct (Penalty.is_listed _ le); [|discriminate].
  destruct ((0 <? ep) && (0 <? amt)) eqn:E0; [|discriminate].
  apply bind_ok in H. destruct H as (s1 & _ & H).
  destruct (Penalty.l_now s <? _) eqn:E1; [|discriminate]. destruct (ep <? _) eqn:E2; [|discriminate].
  apply bind_ok in H. destruct H as (s2 & _ & H). inversion H; subst s' o; clear H.
  apply andb_prop in E0. destruct E0 as [_ E3]. apply Z.ltb_lt in E1, E2, E3.
  cbn [answer_of_extendLockPeriod]. eexists. split; [reflexivity|].
  cbn [set_v_fact v_fact snd]. unfold law_factory_extend. split; [apply Z.eqb_refl|]. split; [exact E3|].
  eexists. repeat split; auto.
Qed.

(** -- the energy entry the proxy computes itself (energy.rs, copied into Model/ProxyDex.v as [pe_*])
    is the factory's own formula (Model/Energy.v), and starting from the entry the factory's view
    returns it is the factory's [update_after_unlock_any] of that entry *)
Definition en_of (p : penergy) : EN.energy := EN.mkEn (pe_amt p) (pe_upd p) (pe_tot p).
Definition pe_of (en : EN.energy) : penergy := mkPEn (EN.e_amt en) (EN.e_upd en) (EN.e_tot en).

Lemma en_of_pe_of en : en_of (pe_of en) = en.
Proof. destruct en. reflexivity. Qed.

Lemma pe_add_refines p f c a : en_of (pe_add p f c a) = EN.en_add (en_of p) f c a.
Proof. unfold pe_add, EN.en_add. destruct (f <=? c); reflexivity. Qed.
Lemma pe_subtract_refines p x c a : en_of (pe_subtract p x c a) = EN.en_subtract (en_of p) x c a.
Proof. unfold pe_subtract, EN.en_subtract. destruct (c <=? x); reflexivity. Qed.

Lemma pe_deplete_refines p now : en_of (pe_deplete p now) = EN.deplete (en_of p) now.
Proof.
  unfold pe_deplete, EN.deplete, pe_subtract, EN.en_subtract, en_of. cbn.
  destruct (pe_upd p =? now); [reflexivity|].
  destruct (0 <? pe_tot p); [|reflexivity].
  destruct (now <=? pe_upd p); reflexivity.
Qed.

Lemma pe_update_refines p amt unlock now p' :
  pe_update_after_unlock_any p amt unlock now = Ok p' ->
  EN.update_after_unlock_any (en_of p) amt unlock now = Ok (en_of p').
Proof.
  unfold pe_update_after_unlock_any, EN.update_after_unlock_any, EN.refund_after_token_unlock, EN.deplete_after_early_unlock.
  intros H. apply bind_ok in H. destruct H as (t & Ht & H). inversion H; subst p'; clear H.
  destruct (unlock <? now).
  - rewrite <- pe_add_refines. cbn [en_of EN.e_tot EN.e_amt EN.e_upd]. rewrite Ht. reflexivity.
  - rewrite <- pe_subtract_refines. cbn [en_of EN.e_tot EN.e_amt EN.e_upd]. rewrite Ht. reflexivity.
Qed.

Lemma deplete_idem en now : EN.deplete (EN.deplete en now) now = EN.deplete en now.
Proof.
  unfold EN.deplete at 2. destruct (EN.e_upd en =? now) eqn:E.
  - unfold EN.deplete. rewrite E. reflexivity.
  - unfold EN.deplete at 1. cbn [EN.e_upd]. rewrite Z.eqb_refl. unfold EN.deplete. rewrite E. reflexivity.
Qed.

(** burn_locked_tokens_and_update_energy: when [v_energy] is what the factory's getEnergyEntryForUser
    returns for the user at the current epoch, the entry written back is the factory's own
    update_after_unlock_any of the user's current entry for the burned amount *)
Theorem burn_energy_is_factory_update s u e amt r :
  v_energy e = pe_of (EN.view_entry s u) -> v_now e = EN.s_now s ->
  burn_energy e amt = Ok r ->
  (amt = 0 /\ r = None) \/
  (amt <> 0 /\ exists en', r = Some en' /\
     EN.update_after_unlock_any (EN.entry_now s u) amt (v_unlock e) (EN.s_now s) = Ok (en_of en')).
Proof.
  unfold burn_energy, EN.view_entry. intros Hen Hnow H. destruct (amt =? 0) eqn:E.
  - apply Z.eqb_eq in E. inversion H. left. auto.
  - apply Z.eqb_neq in E. apply bind_ok in H. destruct H as (en' & Hu & H). inversion H; subst r; clear H.
    right. split; [exact E|]. exists en'. split; [reflexivity|].
    apply pe_update_refines in Hu. rewrite pe_deplete_refines, Hen, en_of_pe_of, Hnow in Hu.
    unfold EN.entry_now in Hu at 1. rewrite deplete_idem in Hu. exact Hu.
Qed.

(** ================================================================== Part C: composition
    A proxy endpoint run on a record of answers whose relevant field IS the callee model's answer
    to the call the proxy makes evaluates [x_law] to true: no law is left to assume.  [e0] is the
    record before the callee's field is written (the other callees' answers, the epoch, ...). *)
Theorem add_liq_closed pp c m1 m2 pp' po eff e0 e s u pid p1 p2 s' x :
  Pair.ep_add pp c (p_amt p1) (p_amt p2) m1 m2 = Ok (pp', po, eff) ->
  answer_of_addLiquidity e0 po = Some e ->
  ep_add_liq s u pid p1 p2 [] e = Ok (s', x) ->
  x_law x = true.
Proof.
  intros Hp Ha Hx. destruct (pair_add_law _ _ _ _ _ _ _ _ _ e0 Hp) as (e' & Ha' & L).
  rewrite Ha in Ha'. inversion Ha'; subst e'; clear Ha'. cbv zeta in L. destruct L as (L1 & L2 & _).
  destruct (x_law_add_liq _ _ _ _ _ _ _ _ _ Hx) as (_ & _ & ->). unfold add_used_locked.
  destruct (p_tok p1 =? TK_LOCKED); assumption.
Qed.

(** ... merging existing wrapped LP positions in: the factory merges the locked tokens the pair used
    with the locked parts of the positions paid in *)
Theorem add_liq_merge_closed pp c m1 m2 pp' po eff fs fu fps fs' fo kf e0 e1 e s u pid p1 p2 extra s' x :
  Pair.ep_add pp c (p_amt p1) (p_amt p2) m1 m2 = Ok (pp', po, eff) ->
  EN.ep_merge fs fu fps = Ok (fs', fo) ->
  answer_of_addLiquidity e0 po = Some e1 -> answer_of_mergeTokens e1 kf fo = Some e ->
  (forall s1 ta tl, take_wlp_list s u extra = Ok (s1, (ta, tl)) -> ENP.tsum fps = add_used_locked p1 e + tl) ->
  ep_add_liq s u pid p1 p2 extra e = Ok (s', x) ->
  x_law x = true.
Proof.
  intros Hp Hm Ha Hf Hsent Hx.
  destruct (pair_add_law _ _ _ _ _ _ _ _ _ e0 Hp) as (e1' & Ha' & L).
  rewrite Ha in Ha'. inversion Ha'; subst e1'; clear Ha'. cbv zeta in L. destruct L as (L1 & L2 & _).
  destruct (factory_merge_law _ _ _ _ _ e1 kf Hm) as (e' & Hf' & M & _ & _ & EP & _).
  rewrite Hf in Hf'. inversion Hf'; subst e'; clear Hf'.
  pose proof (x_law_add_liq _ _ _ _ _ _ _ _ _ Hx) as (_ & _ & D).
  assert (LP : law_pair_add (fst (fst (v_pair e))) (add_used_locked p1 e) = true).
  { unfold add_used_locked. rewrite EP. destruct (p_tok p1 =? TK_LOCKED); assumption. }
  destruct extra as [|q t].
  - rewrite D. exact LP.
  - destruct D as (s1 & ta & tl & Ht & ->). rewrite LP. rewrite <- (Hsent _ _ _ Ht). exact M.
Qed.

Theorem remove_liq_closed pp c lp m1 m2 pp' po eff bf e0 e s u pid p s' x :
  Pair.ep_remove pp c lp m1 m2 = Ok (pp', po, eff) ->
  answer_of_removeLiquidity bf e0 po = Some e ->
  ep_remove_liq s u pid p e = Ok (s', x) ->
  x_law x = true.
Proof.
  intros Hp Ha Hx. destruct (pair_remove_law _ _ _ _ _ _ _ _ bf e0 Hp) as (e' & Ha' & L).
  rewrite Ha in Ha'. inversion Ha'; subst e'; clear Ha'. cbv zeta in L. destruct L as (L1 & _).
  destruct (x_law_remove_liq _ _ _ _ _ _ _ Hx) as [->| ->]; [reflexivity | exact L1].
Qed.

Theorem enter_farm_closed ls blk ep c b ls' lo rc e0 rk e s u farm p s' x :
  FL.lstep ls (FL.LF (Farm.FEnter blk ep c (p_amt p) [] b)) = Ok (ls', lo, rc) ->
  answer_of_enterFarm e0 rk lo = Some e ->
  ep_enter_farm s u farm p [] e = Ok (s', x) ->
  x_law x = true.
Proof.
  intros Hl Ha Hx. destruct (lfarm_enter_law _ _ _ _ _ _ _ _ _ e0 rk Hl) as (e' & Ha' & L & _).
  rewrite Ha in Ha'. inversion Ha'; subst e'; clear Ha'.
  rewrite (x_law_enter_farm _ _ _ _ _ _ _ _ Hx). exact L.
Qed.

Theorem claim_closed ls blk ep c n b ls' lo rc e0 rk e s u farm p s' x :
  FL.lstep ls (FL.LF (Farm.FClaim blk ep c (n, p_amt p) [] b)) = Ok (ls', lo, rc) ->
  answer_of_claimRewards e0 rk lo = Some e ->
  ep_claim s u farm p e = Ok (s', x) ->
  x_law x = true.
Proof.
  intros Hl Ha Hx. destruct (lfarm_claim_law _ _ _ _ _ _ _ _ _ _ e0 rk Hl) as (e' & Ha' & L & _).
  rewrite Ha in Ha'. inversion Ha'; subst e'; clear Ha'.
  rewrite (x_law_claim _ _ _ _ _ _ _ Hx). exact L.
Qed.

Theorem exit_farm_closed ls blk ep c n b ls' lo rc e0 rk e s u farm p s' x :
  FL.lstep ls (FL.LF (Farm.FExit blk ep c (n, p_amt p) b)) = Ok (ls', lo, rc) ->
  answer_of_exitFarm e0 rk lo = Some e ->
  ep_exit_farm s u farm p e = Ok (s', x) ->
  x_law x = true.
Proof.
  intros Hl Ha Hx. destruct (lfarm_exit_law _ _ _ _ _ _ _ _ _ _ e0 rk Hl) as (e' & Ha' & L & _).
  rewrite Ha in Ha'. inversion Ha'; subst e'; clear Ha'.
  destruct (x_law_exit_farm _ _ _ _ _ _ _ Hx) as (-> & _). exact L.
Qed.

(** the proxy's own guard [F <= a] of exitFarmProxy never fires on the answer of a farm whose penalty
    percentage went through its setter: the proxy cannot be made to abort by the farm model's answer *)
Theorem exit_farm_guard ls blk ep c n a b ls' lo rc e0 rk e :
  PenOK (FL.l_f ls) ->
  FL.lstep ls (FL.LF (Farm.FExit blk ep c (n, a) b)) = Ok (ls', lo, rc) ->
  answer_of_exitFarm e0 rk lo = Some e ->
  0 <= snd (v_farm e) <= a.
Proof.
  intros P Hl Ha. destruct (lfarm_exit_law _ _ _ _ _ _ _ _ _ _ e0 rk Hl) as (e' & Ha' & _ & (at0 & _ & B) & _).
  rewrite Ha in Ha'. inversion Ha'; subst e'; clear Ha'. cbv zeta in B. destruct B as (E & B1 & B2).
  unfold PenOK in P. specialize (B2 ltac:(lia)). lia.
Qed.

Theorem merge_wlp_closed fs fu fps fs' fo e0 kf e s u ps s' x :
  EN.ep_merge fs fu fps = Ok (fs', fo) ->
  answer_of_mergeTokens e0 kf fo = Some e ->
  (forall s1 ta tl, take_wlp_list s u ps = Ok (s1, (ta, tl)) -> ENP.tsum fps = tl) ->
  ep_merge_wlp s u ps e = Ok (s', x) ->
  x_law x = true.
Proof.
  intros Hm Hf Hsent Hx. destruct (factory_merge_law _ _ _ _ _ e0 kf Hm) as (e' & Hf' & M & _).
  rewrite Hf in Hf'. inversion Hf'; subst e'; clear Hf'.
  destruct (x_law_merge_wlp _ _ _ _ _ _ Hx) as (s1 & ta & tl & Ht & ->).
  rewrite <- (Hsent _ _ _ Ht). exact M.
Qed.

(** merge_wrapped_farm_tokens (mergeWrappedFarmTokens, and the merge inside enterFarmProxy): the factory
    merges the locked tokens behind the positions, the farm merges the farm tokens *)
Theorem merge_items_closed fs fu fps fs' fo ls blk ep c mps b ls' lo rc e0 kf rk e1 e s u farm its s' m amt law :
  EN.ep_merge fs fu fps = Ok (fs', fo) ->
  FL.lstep ls (FL.LF (Farm.FMerge blk ep c mps b)) = Ok (ls', lo, rc) ->
  answer_of_mergeTokens e0 kf fo = Some e1 -> answer_of_mergeFarmTokens e1 rk lo = Some e ->
  merge_locked_total s its = Some (ENP.tsum fps) -> farm_sum mps = items_farm_total its ->
  merge_items s u farm its e = Ok (s', (m, amt, law)) ->
  law = true /\ law_farm_merge_rewards (snd (v_rew e)) = true.
Proof.
  intros Hm Hl Hf Hg Hsent Hfs Hx.
  destruct (factory_merge_law _ _ _ _ _ e0 kf Hm) as (e1' & Hf' & M & _).
  rewrite Hf in Hf'. inversion Hf'; subst e1'; clear Hf'.
  destruct (lfarm_merge_law _ _ _ _ _ _ _ _ _ e1 rk Hl) as (e' & Hg' & G & R & _ & _ & _ & _ & _ & EF & _).
  rewrite Hg in Hg'. inversion Hg'; subst e'; clear Hg'.
  destruct (x_law_merge_items _ _ _ _ _ _ _ _ _ Hx) as (total & Ht & ->).
  rewrite Hsent in Ht. inversion Ht; subst total. rewrite EF, M, <- Hfs, G. split; [reflexivity | exact R].
Qed.

Theorem merge_wfm_closed fs fu fps fs' fo ls blk ep c mps b ls' lo rc e0 kf rk e1 e s u farm ps s' x :
  EN.ep_merge fs fu fps = Ok (fs', fo) ->
  FL.lstep ls (FL.LF (Farm.FMerge blk ep c mps b)) = Ok (ls', lo, rc) ->
  answer_of_mergeTokens e0 kf fo = Some e1 -> answer_of_mergeFarmTokens e1 rk lo = Some e ->
  (forall s1 its, take_wfm_list s u ps = Ok (s1, its) ->
     merge_locked_total s1 its = Some (ENP.tsum fps) /\ farm_sum mps = items_farm_total its) ->
  ep_merge_wfm s u farm ps e = Ok (s', x) ->
  x_law x = true.
Proof.
  intros Hm Hl Hf Hg Hsent Hx.
  destruct (factory_merge_law _ _ _ _ _ e0 kf Hm) as (e1' & Hf' & M & _).
  rewrite Hf in Hf'. inversion Hf'; subst e1'; clear Hf'.
  destruct (lfarm_merge_law _ _ _ _ _ _ _ _ _ e1 rk Hl) as (e' & Hg' & G & R & _ & _ & _ & _ & _ & EF & _).
  rewrite Hg in Hg'. inversion Hg'; subst e'; clear Hg'.
  destruct (x_law_merge_wfm _ _ _ _ _ _ _ Hx) as (s1 & its & total & Ht & Hl' & ->).
  destruct (Hsent _ _ Ht) as (Hs1 & Hs2). rewrite Hs1 in Hl'. inversion Hl'; subst total.
  rewrite EF, M, <- Hs2, G, R. reflexivity.
Qed.

Theorem inc_lp_closed fs fu fep famt le fs' fo e0 kf e s u p s' x :
  EN.ep_extend fs fu fep famt le fu = Ok (fs', fo) ->
  answer_of_extendLockPeriod e0 kf fo = Some e ->
  (forall s1 k lp, take_wlp_user s u (p_non p) (p_amt p) = Ok (s1, (k, lp)) -> famt = lp) ->
  ep_inc_lp s u p e = Ok (s', x) ->
  x_law x = true.
Proof.
  intros Hm Hf Hsent Hx. destruct (factory_extend_law _ _ _ _ _ _ _ e0 kf Hm) as (e' & Hf' & M & _).
  rewrite Hf in Hf'. inversion Hf'; subst e'; clear Hf'.
  destruct (x_law_inc_lp _ _ _ _ _ _ Hx) as (s1 & k & lp & Ht & ->).
  rewrite <- (Hsent _ _ _ Ht). exact M.
Qed.

Theorem inc_fm_closed fs fu fep famt le fs' fo e0 kf e s u p s' x :
  EN.ep_extend fs fu fep famt le fu = Ok (fs', fo) ->
  answer_of_extendLockPeriod e0 kf fo = Some e ->
  (forall s1 w pp, take_wfm s u (p_non p) (p_amt p) = Ok (s1, (w, pp)) ->
     if wf_kind w =? 0 then famt = pp
     else forall s2 k lq, release_wlp s1 (wf_pn w) pp = Ok (s2, (k, lq)) -> famt = lq) ->
  ep_inc_fm s u p e = Ok (s', x) ->
  x_law x = true.
Proof.
  intros Hm Hf Hsent Hx. destruct (factory_extend_law _ _ _ _ _ _ _ e0 kf Hm) as (e' & Hf' & M & _).
  rewrite Hf in Hf'. inversion Hf'; subst e'; clear Hf'.
  destruct (x_law_inc_fm _ _ _ _ _ _ Hx) as (s1 & w & pp & Ht & D). specialize (Hsent _ _ _ Ht).
  destruct (wf_kind w =? 0).
  - rewrite D, <- Hsent. exact M.
  - destruct D as (s2 & k & lq & Hr & ->). rewrite <- (Hsent _ _ _ Hr). exact M.
Qed.
