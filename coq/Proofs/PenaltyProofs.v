(** Proofs for property C09.
    Part A: the penalty function (every option list accepted by addLockOptions): exact piecewise-
            linear floor formula, monotone, bounded, partial-unlock formula well defined, penalty
            amount below the amount.
    Part B: the locking state machine: invariant over all histories (escrow backing, supply ledger),
            characterisation of every endpoint against the property text. *)
From MX Require Import Base.Prelude Gen.Params Model.Penalty.

(** The only facts about the generated constants used below. *)
Lemma penalty_params :
  0 < MAXP /\ 0 < MAXPU /\ 0 < EPOCHS_PER_MONTH /\ EPOCHS_PER_MONTH <= EPOCHS_PER_YEAR.
Proof. vm_compute. repeat split; congruence. Qed.

Definition MAXP_pos : 0 < MAXP := proj1 penalty_params.
Definition MAXPU_pos : 0 < MAXPU := proj1 (proj2 penalty_params).

(** q = floor(n / d), stated by cross-multiplication *)
Definition is_floor (q n d : Z) : Prop := q * d <= n < (q + 1) * d.

Lemma is_floor_div n d : 0 < d -> is_floor (n / d) n d.
Proof. intros. unfold is_floor. pose proof (div_lo n d H). pose proof (div_hi n d H). lia. Qed.

Lemma is_floor_unique q n d : 0 < d -> is_floor q n d -> q = n / d.
Proof. intros Hd [A B]. apply (proj2 (div_char n d q Hd)). lia. Qed.

(** Break a hypothesis [H : <monadic computation> = Ok _] into its successful steps. *)
Ltac inv_ok H :=
  repeat (first
    [ match type of H with
      | Ok _ = Ok _ => inversion H; subst; clear H
      | Err _ = Ok _ => discriminate H
      | bind ?r ?f = Ok _ =>
          let a := fresh "a" in let Hb := fresh "Hb" in
          apply bind_ok in H; destruct H as (a & Hb & H)
      | (if ?b then _ else _) = Ok _ =>
          let E := fresh "E" in destruct b eqn:E
      | (let (_, _) := ?x in _) = Ok _ => destruct x
      end
    | progress cbv beta in H ]).

(** the next guard of a monadic hypothesis must have passed *)
Ltac case_if H E :=
  match type of H with (if ?b then _ else _) = _ => destruct b eqn:E; [|discriminate H] end.

(** ================================================================== Part A: lock options *)
(** What addLockOptions guarantees about the stored list. *)
Fixpoint chain (l : list opt) : Prop :=
  match l with
  | a :: ((b :: _) as t) => fst a < fst b /\ snd a < snd b /\ chain t
  | _ => True
  end.

Lemma chain_cons2 a b t : chain (a :: b :: t) = (fst a < fst b /\ snd a < snd b /\ chain (b :: t)).
Proof. reflexivity. Qed.

Definition opt_ok (o : opt) : Prop := EPOCHS_PER_YEAR <= fst o /\ 0 <= snd o <= MAXP.

Definition wf_opts (l : list opt) : Prop :=
  l <> [] /\ Z.of_nat (length l) <= MAX_LOCK_OPTIONS /\ chain l /\ Forall opt_ok l.

Fixpoint sorted_le (l : list opt) : Prop :=
  match l with
  | a :: ((b :: _) as t) => fst a <= fst b /\ sorted_le t
  | _ => True
  end.

Lemma insert_sorted o l : sorted_le l -> sorted_le (insert_opt o l).
Proof.
  induction l as [|h t IH]; simpl; intros Hs; [exact I|].
  destruct (fst o <=? fst h) eqn:E.
  - apply Z.leb_le in E. simpl. split; assumption.
  - apply Z.leb_gt in E. destruct t as [|h2 t2].
    + simpl. split; [lia | exact I].
    + destruct Hs as [H1 H2]. specialize (IH H2). simpl in IH |- *.
      destruct (fst o <=? fst h2) eqn:E2.
      * split; [lia | exact IH].
      * split; [exact H1 | exact IH].
Qed.

Lemma sort_sorted l : sorted_le (sort_opts l).
Proof. induction l as [|h t IH]; simpl; [exact I | apply insert_sorted; exact IH]. Qed.

Lemma insert_forall (P : opt -> Prop) o l : P o -> Forall P l -> Forall P (insert_opt o l).
Proof.
  intros Ho. induction l as [|h t IH]; simpl; intros Hl; [constructor; auto|].
  inversion Hl; subst. destruct (fst o <=? fst h); constructor; auto.
Qed.

Lemma sort_forall (P : opt -> Prop) l : Forall P l -> Forall P (sort_opts l).
Proof.
  induction l as [|h t IH]; simpl; intros Hl; [constructor|].
  inversion Hl; subst. apply insert_forall; auto.
Qed.

Lemma insert_length o l : length (insert_opt o l) = S (length l).
Proof. induction l as [|h t IH]; simpl; [reflexivity|]. destruct (fst o <=? fst h); simpl; congruence. Qed.

Lemma sort_length l : length (sort_opts l) = length l.
Proof. induction l as [|h t IH]; simpl; [reflexivity|]. rewrite insert_length. congruence. Qed.

Lemma checks_chain l : sorted_le l -> no_dup_epochs l = true -> valid_pcts l = true -> chain l.
Proof.
  induction l as [|a t IH]; [intros; exact I|].
  destruct t as [|b t2]; [intros; exact I|].
  intros [H1 H2] Hd Hv. cbn [no_dup_epochs] in Hd. cbn [valid_pcts] in Hv.
  apply andb_prop in Hd. destruct Hd as [Hd1 Hd2]. apply andb_prop in Hv. destruct Hv as [Hv1 Hv2].
  apply negb_true_iff in Hd1. apply Z.eqb_neq in Hd1. apply Z.ltb_lt in Hv1.
  rewrite chain_cons2. split; [lia|]. split; [exact Hv1|]. apply IH; assumption.
Qed.

Lemma add_lock_options_wf old new l :
  old = [] \/ wf_opts old -> add_lock_options old new = Ok l -> wf_opts l.
Proof.
  intros Hold H. unfold add_lock_options in H.
  case_if H E1. case_if H E2. cbv zeta in H. case_if H E3. case_if H E4. case_if H E5.
  inversion H; subst; clear H.
  apply Z.leb_le in E1.
  split; [|split; [|split]].
  - intros Hn. rewrite Hn in E3. discriminate.
  - rewrite sort_length, app_length. exact E1.
  - apply checks_chain; auto using sort_sorted.
  - apply sort_forall. apply Forall_app. split.
    + destruct Hold as [->|(_ & _ & _ & Hf)]; [constructor | exact Hf].
    + apply Forall_forall. intros o Ho. rewrite forallb_forall in E2. specialize (E2 o Ho).
      apply andb_prop in E2. destruct E2 as [E2 E2c]. apply andb_prop in E2. destruct E2 as [E2a E2b].
      apply Z.leb_le in E2a, E2b, E2c. unfold opt_ok. lia.
Qed.

(** ================================================================== Part A: interpolation *)
(** the documented value on the segment [a, b] *)
Definition seg_num (a b : opt) (x : Z) : Z := snd a * (fst b - x) + snd b * (x - fst a).
Definition seg (a b : opt) (x : Z) : Z := seg_num a b x / (fst b - fst a).

(** piecewise evaluation over a list of points: the first segment whose right end is >= x *)
Fixpoint eval (l : list opt) (x : Z) : Z :=
  match l with
  | [] => 0
  | a :: t => match t with
              | [] => snd a
              | b :: _ => if x <=? fst b then seg a b x else eval t x
              end
  end.

(** points (0,0) :: options: epochs strictly increasing, percentages non-decreasing within [0, MAXP],
    every left end strictly below MAXP *)
Fixpoint pchain (l : list opt) : Prop :=
  match l with
  | a :: ((b :: _) as t) =>
      fst a < fst b /\ 0 <= snd a /\ snd a <= snd b /\ snd a < MAXP /\ snd b <= MAXP /\ pchain t
  | _ => True
  end.

Lemma pchain_cons2 a b t :
  pchain (a :: b :: t) =
  (fst a < fst b /\ 0 <= snd a /\ snd a <= snd b /\ snd a < MAXP /\ snd b <= MAXP /\ pchain (b :: t)).
Proof. reflexivity. Qed.

Lemma eval_cons2 a b t x : eval (a :: b :: t) x = if x <=? fst b then seg a b x else eval (b :: t) x.
Proof. reflexivity. Qed.

Lemma find_seg_cons2 a b t x :
  find_seg (a :: b :: t) x = if (fst a <=? x) && (x <=? fst b) then (a, b) else find_seg (b :: t) x.
Proof. reflexivity. Qed.

Lemma chain_pchain l : chain l -> Forall opt_ok l -> pchain l.
Proof.
  induction l as [|a t IH]; [intros; exact I|].
  destruct t as [|b t2]; [intros; exact I|].
  intros (H1 & H2 & H3) Hf. inversion Hf as [|? ? Ha Hf2]; subst. inversion Hf2 as [|? ? Hb _]; subst.
  unfold opt_ok in Ha, Hb. rewrite pchain_cons2.
  split; [exact H1|]. split; [lia|]. split; [lia|]. split; [lia|]. split; [lia|]. apply IH; assumption.
Qed.

Lemma wf_pchain l : wf_opts l -> pchain ((0, 0) :: l).
Proof.
  intros (Hne & _ & Hc & Hf). destruct l as [|a t]; [congruence|].
  pose proof penalty_params as (HM & _ & Hm & Hy).
  inversion Hf as [|? ? Ha _]; subst. unfold opt_ok in Ha.
  rewrite pchain_cons2; cbn [fst snd]. split; [lia|]. split; [lia|]. split; [lia|]. split; [exact HM|]. split; [lia|].
  apply chain_pchain; assumption.
Qed.

Lemma last_cons2 (a b : opt) t d : last (a :: b :: t) d = last (b :: t) d.
Proof. reflexivity. Qed.

Lemma pchain_tail a t : pchain (a :: t) -> pchain t.
Proof. destruct t as [|b t2]; [intros; exact I|]. rewrite pchain_cons2. tauto. Qed.

Lemma pchain_last_ge t : forall a, pchain (a :: t) ->
  fst a <= fst (last (a :: t) (0, 0)) /\ snd a <= snd (last (a :: t) (0, 0)).
Proof.
  induction t as [|b t2 IH]; intros a Hc.
  - simpl. lia.
  - rewrite last_cons2. rewrite pchain_cons2 in Hc. destruct Hc as (H1 & H2 & H3 & H4 & H5 & H6).
    specialize (IH b H6). lia.
Qed.

Section Seg.
  Variables (a b : opt) (x y : Z).
  Hypothesis He : fst a < fst b.
  Hypothesis Hp : snd a <= snd b.

  Lemma seg_bounds : fst a <= x <= fst b -> snd a <= seg a b x <= snd b.
  Proof.
    intros Hx. unfold seg, seg_num. set (d := fst b - fst a). assert (Hd : 0 < d) by (unfold d; lia).
    split.
    - apply Z.div_le_lower_bound; [exact Hd|]. unfold d. nia.
    - apply Z.div_le_upper_bound; [exact Hd|]. unfold d. nia.
  Qed.

  Lemma seg_mono : fst a <= x -> x <= y -> y <= fst b -> seg a b x <= seg a b y.
  Proof.
    intros H1 H2 H3. unfold seg, seg_num. apply Z.div_le_mono; [lia|]. nia.
  Qed.

  Lemma seg_lt M : fst a <= x < fst b -> snd a < M -> snd b <= M -> seg a b x < M.
  Proof.
    intros Hx Ha Hb. unfold seg, seg_num. apply Z.div_lt_upper_bound; [lia|]. nia.
  Qed.

  Lemma seg_left : seg a b (fst a) = snd a.
  Proof.
    unfold seg, seg_num. replace (fst a - fst a) with 0 by lia. rewrite Z.mul_0_r, Z.add_0_r.
    apply Z.div_mul. lia.
  Qed.

  Lemma seg_right : seg a b (fst b) = snd b.
  Proof.
    unfold seg, seg_num. replace (fst b - fst b) with 0 by lia. rewrite Z.mul_0_r, Z.add_0_l.
    apply Z.div_mul. lia.
  Qed.
End Seg.

Lemma eval_bounds t : forall a x, pchain (a :: t) ->
  fst a <= x <= fst (last (a :: t) (0, 0)) ->
  snd a <= eval (a :: t) x <= snd (last (a :: t) (0, 0)).
Proof.
  induction t as [|b t2 IH]; intros a x Hc Hx.
  - simpl. lia.
  - rewrite last_cons2 in *. pose proof Hc as Hc0. rewrite pchain_cons2 in Hc.
    destruct Hc as (H1 & H2 & H3 & H4 & H5 & H6).
    destruct (pchain_last_ge t2 b H6) as [L1 L2].
    rewrite eval_cons2. destruct (x <=? fst b) eqn:E.
    + apply Z.leb_le in E. pose proof (seg_bounds a b x H1 H3 ltac:(lia)). lia.
    + apply Z.leb_gt in E. specialize (IH b x H6 ltac:(lia)). lia.
Qed.

Lemma eval_mono t : forall a x y, pchain (a :: t) ->
  fst a <= x -> x <= y -> y <= fst (last (a :: t) (0, 0)) ->
  eval (a :: t) x <= eval (a :: t) y.
Proof.
  induction t as [|b t2 IH]; intros a x y Hc Hx Hxy Hy.
  - simpl. lia.
  - rewrite last_cons2 in *. pose proof Hc as Hc0. rewrite pchain_cons2 in Hc.
    destruct Hc as (H1 & H2 & H3 & H4 & H5 & H6).
    rewrite !eval_cons2. destruct (y <=? fst b) eqn:Ey.
    + apply Z.leb_le in Ey. assert (Ex : (x <=? fst b) = true) by (apply Z.leb_le; lia). rewrite Ex.
      apply seg_mono; lia.
    + apply Z.leb_gt in Ey. destruct (x <=? fst b) eqn:Ex.
      * apply Z.leb_le in Ex. pose proof (seg_bounds a b x H1 H3 ltac:(lia)).
        pose proof (eval_bounds t2 b y H6 ltac:(lia)). lia.
      * apply Z.leb_gt in Ex. apply IH; auto; lia.
Qed.

Lemma eval_lt t : forall a x, pchain (a :: t) ->
  fst a <= x < fst (last (a :: t) (0, 0)) -> eval (a :: t) x < MAXP.
Proof.
  induction t as [|b t2 IH]; intros a x Hc Hx.
  - simpl in Hx. lia.
  - rewrite last_cons2 in *. rewrite pchain_cons2 in Hc. destruct Hc as (H1 & H2 & H3 & H4 & H5 & H6).
    rewrite eval_cons2. destruct (x <=? fst b) eqn:E.
    + apply Z.leb_le in E. destruct (Z.eq_dec x (fst b)) as [->|Hne].
      * rewrite seg_right by lia. destruct t2 as [|c t3]; [simpl in Hx; lia|].
        rewrite pchain_cons2 in H6. lia.
      * apply seg_lt; lia.
    + apply Z.leb_gt in E. apply IH; auto. lia.
Qed.

(** the model's segment search agrees with [eval] *)
Lemma find_seg_spec t : forall a x, pchain (a :: t) -> t <> [] ->
  fst a <= x <= fst (last (a :: t) (0, 0)) ->
  let '(p, n) := find_seg (a :: t) x in
  fst p <= x <= fst n /\ fst p < fst n /\ eval (a :: t) x = seg p n x.
Proof.
  induction t as [|b t2 IH]; intros a x Hc Hne Hx; [congruence|].
  rewrite last_cons2 in Hx. rewrite pchain_cons2 in Hc. destruct Hc as (H1 & H2 & H3 & H4 & H5 & H6).
  rewrite find_seg_cons2, eval_cons2.
  destruct (x <=? fst b) eqn:E.
  - apply Z.leb_le in E. assert (Ea : (fst a <=? x) = true) by (apply Z.leb_le; lia).
    rewrite Ea. simpl. repeat split; lia.
  - apply Z.leb_gt in E. rewrite andb_false_r.
    destruct t2 as [|c t3]; [simpl in Hx; lia|].
    apply IH; auto; [discriminate | lia].
Qed.

Lemma lin_interp_seg p n x : fst p <= x <= fst n -> fst p < fst n ->
  lin_interp (fst p) (fst n) x (snd p) (snd n) = Ok (seg p n x).
Proof.
  intros Hx Hlt. unfold lin_interp.
  assert (E1 : (x <? fst p) = false) by (apply Z.ltb_ge; lia).
  assert (E2 : (fst n <? x) = false) by (apply Z.ltb_ge; lia).
  rewrite E1, E2. simpl. unfold sub_chk.
  assert (E3 : (fst n <? x) = false) by exact E2. rewrite E3. simpl.
  rewrite E1. simpl.
  assert (E4 : (fst n <? fst p) = false) by (apply Z.ltb_ge; lia). rewrite E4. simpl.
  unfold div_chk. assert (E5 : (fst n - fst p =? 0) = false) by (apply Z.eqb_neq; lia). rewrite E5.
  reflexivity.
Qed.

Definition e_last (l : list opt) : Z := fst (last_opt l).
Definition p_last (l : list opt) : Z := snd (last_opt l).

Lemma last_pts l : l <> [] -> last ((0, 0) :: l) (0, 0) = last_opt l.
Proof. destruct l; [congruence | reflexivity]. Qed.

Lemma pct_full_eval l x : wf_opts l -> 0 <= x <= e_last l ->
  pct_full l x = Ok (eval ((0, 0) :: l) x).
Proof.
  intros Hwf Hx. pose proof (wf_pchain l Hwf) as Hpc. destruct Hwf as (Hne & _ & _ & _).
  destruct l as [|first rest]; [congruence|].
  unfold pct_full. unfold e_last in Hx.
  assert (E0 : (x <=? fst (last_opt (first :: rest))) = true) by (apply Z.leb_le; lia). rewrite E0.
  pose proof Hpc as Hpc0. rewrite pchain_cons2 in Hpc; cbn [fst snd] in Hpc. destruct Hpc as (H1 & _ & H3 & _ & H5 & H6).
  rewrite eval_cons2; cbn [fst].
  destruct (negb (match rest with [] => true | _ => false end) && (fst first <? x)) eqn:Ec.
  - apply andb_prop in Ec. destruct Ec as [Er Ef]. apply Z.ltb_lt in Ef.
    assert (Hrest : rest <> []) by (destruct rest; [discriminate | discriminate]).
    assert (Ex : (x <=? fst first) = false) by (apply Z.leb_gt; lia). rewrite Ex.
    pose proof (find_seg_spec rest first x H6 Hrest) as Hs.
    unfold last_opt in Hx. specialize (Hs ltac:(lia)).
    destruct (find_seg (first :: rest) x) as [p n]. destruct Hs as (Hpx & Hpn & ->).
    apply lin_interp_seg; assumption.
  - assert (Ex : (x <=? fst first) = true).
    { apply Z.leb_le. destruct rest as [|r rs]; [unfold last_opt in Hx; simpl in Hx; lia|].
      simpl in Ec. apply Z.ltb_ge in Ec. exact Ec. }
    rewrite Ex. apply Z.leb_le in Ex.
    change (lin_interp (fst (0, 0)) (fst first) x (snd (0, 0)) (snd first) = Ok (seg (0, 0) first x)).
    apply lin_interp_seg; simpl; lia.
Qed.

(** ------------------------------------------------------------------ adjacency in the point list *)
Definition adj (a b : opt) (l : list opt) : Prop := exists l1 l2, l = l1 ++ a :: b :: l2.

Lemma pchain_mid_lt l1 : forall d a t, pchain (d :: l1 ++ a :: t) -> fst d < fst a.
Proof.
  induction l1 as [|c l1' IH]; intros d a t Hc.
  - simpl in Hc. tauto.
  - change (pchain (d :: c :: l1' ++ a :: t)) in Hc. rewrite pchain_cons2 in Hc.
    destruct Hc as (H1 & _ & _ & _ & _ & H6). specialize (IH c a t H6). lia.
Qed.

Lemma pchain_app_tail l1 : forall l2, pchain (l1 ++ l2) -> pchain l2.
Proof.
  induction l1 as [|c l1' IH]; intros l2 Hc; [exact Hc|].
  apply IH. apply (pchain_tail c). exact Hc.
Qed.

Lemma eval_adj l1 : forall a b l2 x, pchain (l1 ++ a :: b :: l2) -> fst a <= x <= fst b ->
  eval (l1 ++ a :: b :: l2) x = seg a b x.
Proof.
  induction l1 as [|c l1' IH]; intros a b l2 x Hc Hx.
  - simpl. assert (E : (x <=? fst b) = true) by (apply Z.leb_le; lia). rewrite E. reflexivity.
  - destruct l1' as [|d l1''].
    + (* c :: a :: b :: l2 *)
      change (pchain (c :: a :: b :: l2)) in Hc. pose proof Hc as Hc0. rewrite !pchain_cons2 in Hc.
      destruct Hc as (H1 & H2 & H3 & H4 & H5 & (G1 & G2 & G3 & G4 & G5 & G6)).
      change (eval (c :: a :: b :: l2) x = seg a b x). rewrite eval_cons2.
      destruct (x <=? fst a) eqn:E.
      * apply Z.leb_le in E. assert (x = fst a) by lia. subst x.
        rewrite seg_right by lia. rewrite seg_left by lia. reflexivity.
      * rewrite eval_cons2. assert (E2 : (x <=? fst b) = true) by (apply Z.leb_le; lia). rewrite E2. reflexivity.
    + change (pchain (c :: d :: l1'' ++ a :: b :: l2)) in Hc. pose proof Hc as Hc0. rewrite pchain_cons2 in Hc.
      destruct Hc as (H1 & _ & _ & _ & _ & H6).
      pose proof (pchain_mid_lt l1'' d a (b :: l2) H6) as Hda.
      change (eval (c :: d :: l1'' ++ a :: b :: l2) x = seg a b x). rewrite eval_cons2.
      assert (E : (x <=? fst d) = false) by (apply Z.leb_gt; lia). rewrite E.
      apply (IH a b l2 x); assumption.
Qed.

Lemma adj_bounds l1 : forall a b l2 h, pchain (h :: l1 ++ a :: b :: l2) ->
  fst h <= fst a /\ fst a < fst b /\ fst b <= fst (last (h :: l1 ++ a :: b :: l2) (0, 0)).
Proof.
  induction l1 as [|c l1' IH]; intros a b l2 h Hc.
  - change (pchain (h :: a :: b :: l2)) in Hc. rewrite !pchain_cons2 in Hc.
    destruct Hc as (H1 & _ & _ & _ & _ & (G1 & _ & _ & _ & _ & G6)).
    change (last (h :: [] ++ a :: b :: l2) (0, 0)) with (last (b :: l2) (0, 0)).
    pose proof (pchain_last_ge l2 b G6). lia.
  - change (pchain (h :: c :: l1' ++ a :: b :: l2)) in Hc. rewrite pchain_cons2 in Hc.
    destruct Hc as (H1 & _ & _ & _ & _ & H6).
    change (last (h :: (c :: l1') ++ a :: b :: l2) (0, 0)) with (last (c :: l1' ++ a :: b :: l2) (0, 0)).
    specialize (IH a b l2 c H6). lia.
Qed.

(** some segment contains every x in range *)
Lemma seg_exists t : forall a x, pchain (a :: t) -> t <> [] ->
  fst a <= x <= fst (last (a :: t) (0, 0)) ->
  exists p n, adj p n (a :: t) /\ fst p <= x <= fst n.
Proof.
  induction t as [|b t2 IH]; intros a x Hc Hne Hx; [congruence|].
  rewrite last_cons2 in Hx.
  destruct (Z_le_gt_dec x (fst b)) as [Hle|Hgt].
  - exists a, b. split; [exists [], t2; reflexivity | lia].
  - destruct t2 as [|c t3]; [simpl in Hx; lia|].
    destruct (IH b x (pchain_tail _ _ Hc) ltac:(discriminate) ltac:(lia)) as (p & n & (l1 & l2 & Hl) & Hpn).
    exists p, n. split; [|exact Hpn]. exists (a :: l1), l2. rewrite Hl. reflexivity.
Qed.

(** ================================================================== Part A: the penalty laws *)
(** pen_exact: on ANY segment of (0,0)::options containing x, the percentage is the floor of the
    linear interpolation between the segment's end points. *)
Theorem pen_exact l x a b : wf_opts l -> adj a b ((0, 0) :: l) -> fst a <= x <= fst b ->
  exists q, pct_full l x = Ok q /\
            is_floor q (snd a * (fst b - x) + snd b * (x - fst a)) (fst b - fst a).
Proof.
  intros Hwf (l1 & l2 & Hl) Hx. pose proof (wf_pchain l Hwf) as Hpc.
  assert (Hne : l <> []) by apply Hwf.
  assert (Hb : 0 <= fst a /\ fst a < fst b /\ fst b <= e_last l).
  { pose proof Hpc as Hpc'. rewrite Hl in Hpc'. unfold e_last. rewrite <- (last_pts l Hne). rewrite Hl.
    destruct l1 as [|h l1'].
    - simpl in Hl. injection Hl as Ha Hl'. subst a. simpl app in *. rewrite pchain_cons2 in Hpc'.
      destruct Hpc' as (G1 & _ & _ & _ & _ & G6). rewrite last_cons2.
      pose proof (pchain_last_ge l2 b G6). cbn [fst] in *. lia.
    - simpl in Hl. injection Hl as Hh Hl'. subst h. rewrite <- app_comm_cons in *.
      pose proof (adj_bounds l1' a b l2 (0, 0) Hpc') as Hab. cbn [fst] in Hab. exact Hab. }
  exists (eval ((0, 0) :: l) x). split.
  - apply pct_full_eval; [exact Hwf | lia].
  - rewrite Hl. rewrite Hl in Hpc. rewrite (eval_adj l1 a b l2 x Hpc Hx).
    unfold seg, seg_num. apply is_floor_div. lia.
Qed.

Theorem pen_segment_exists l x : wf_opts l -> 0 <= x <= e_last l ->
  exists a b, adj a b ((0, 0) :: l) /\ fst a <= x <= fst b.
Proof.
  intros Hwf Hx. assert (Hne : l <> []) by apply Hwf.
  apply seg_exists; [apply wf_pchain; exact Hwf | exact Hne |].
  rewrite (last_pts l Hne). simpl. exact Hx.
Qed.

Theorem pen_monotone l x y : wf_opts l -> 0 <= x -> x <= y -> y <= e_last l ->
  exists qx qy, pct_full l x = Ok qx /\ pct_full l y = Ok qy /\ qx <= qy.
Proof.
  intros Hwf H0 Hxy Hy. assert (Hne : l <> []) by apply Hwf.
  exists (eval ((0, 0) :: l) x), (eval ((0, 0) :: l) y).
  split; [apply pct_full_eval; [exact Hwf | lia]|]. split; [apply pct_full_eval; [exact Hwf | lia]|].
  apply eval_mono; [apply wf_pchain; exact Hwf | simpl; lia | exact Hxy |].
  rewrite (last_pts l Hne). exact Hy.
Qed.

Theorem pen_bounded l x : wf_opts l -> 0 <= x <= e_last l ->
  exists q, pct_full l x = Ok q /\ 0 <= q <= p_last l /\ p_last l <= MAXP /\ (x < e_last l -> q < MAXP).
Proof.
  intros Hwf Hx. assert (Hne : l <> []) by apply Hwf. pose proof (wf_pchain l Hwf) as Hpc.
  exists (eval ((0, 0) :: l) x). split; [apply pct_full_eval; assumption|].
  pose proof (eval_bounds l (0, 0) x Hpc) as Hb. rewrite (last_pts l Hne) in Hb.
  specialize (Hb ltac:(simpl; exact Hx)). simpl snd in Hb at 1.
  split; [exact Hb|]. split.
  - destruct Hwf as (_ & _ & _ & Hf). unfold p_last, last_opt.
    assert (Hin : In (last l (0, 0)) l).
    { clear - Hne. induction l as [|a t IH]; [congruence|]. destruct t as [|b t2]; [left; reflexivity|].
      right. apply IH. discriminate. }
    rewrite Forall_forall in Hf. apply (Hf _ Hin).
  - intros Hlt. apply (eval_lt l (0, 0) x Hpc). rewrite (last_pts l Hne). simpl. unfold e_last in Hlt. lia.
Qed.

Theorem pen_fails_beyond l x : e_last l < x -> is_ok (pct_full l x) = false.
Proof.
  intros Hx. unfold pct_full. destruct l as [|f r]; [reflexivity|].
  unfold e_last in Hx. assert (E : (x <=? fst (last_opt (f :: r))) = false) by (apply Z.leb_gt; lia).
  rewrite E. reflexivity.
Qed.

(** pen_partial: the reduction percentage (p_old - p_new) / (1 - p_new) in basis points: no
    underflow, divisor positive, result within [0, MAXP] *)
Theorem pen_partial l old new : wf_opts l -> 0 <= new -> new < old -> old <= e_last l ->
  exists po pn q, pct_full l old = Ok po /\ pct_full l new = Ok pn /\ 0 <= pn <= po /\ po <= MAXP /\ pn < MAXP /\
                  pct_partial l old new = Ok q /\ is_floor q ((po - pn) * MAXP) (MAXP - pn) /\ 0 <= q <= MAXP.
Proof.
  intros Hwf H0 Hlt Hle.
  destruct (pen_monotone l new old Hwf H0 ltac:(lia) Hle) as (pn & po & Hn & Ho & Hm).
  destruct (pen_bounded l new Hwf ltac:(lia)) as (pn' & Hn' & Hb1 & Hb2 & Hb3).
  destruct (pen_bounded l old Hwf ltac:(lia)) as (po' & Ho' & Hc1 & Hc2 & _).
  rewrite Hn in Hn'. inversion Hn'; subst pn'. rewrite Ho in Ho'. inversion Ho'; subst po'.
  specialize (Hb3 ltac:(lia)).
  exists po, pn, ((po - pn) * MAXP / (MAXP - pn)).
  split; [exact Ho|]. split; [exact Hn|]. split; [lia|]. split; [lia|]. split; [exact Hb3|].
  pose proof MAXP_pos as HM.
  split; [|split].
  - assert (E1 : (po <? pn) = false) by (apply Z.ltb_ge; lia).
    assert (E2 : (MAXP <? pn) = false) by (apply Z.ltb_ge; lia).
    assert (E3 : (MAXP - pn =? 0) = false) by (apply Z.eqb_neq; lia).
    unfold pct_partial. rewrite Ho, Hn. cbn [bind]. unfold sub_chk. rewrite E1. cbn [bind]. rewrite E2. cbn [bind].
    unfold div_chk. rewrite E3. reflexivity.
  - apply is_floor_div. lia.
  - split; [apply div_nonneg; nia|]. apply Z.div_le_upper_bound; [lia|]. nia.
Qed.

(** the percentage getPenaltyAmount applies is always within [0, MAXP] *)
Lemma penalty_pct_range l prev new pct : wf_opts l -> 0 <= new ->
  penalty_pct l prev new = Ok pct -> 0 <= pct <= MAXP /\ 0 < prev <= e_last l /\ new < prev.
Proof.
  intros Hwf H0 H. unfold penalty_pct in H.
  destruct (0 <? prev) eqn:E1; [|discriminate]. destruct (new <? prev) eqn:E2; [|discriminate].
  apply Z.ltb_lt in E1, E2.
  assert (Hle : prev <= e_last l).
  { destruct (Z_le_gt_dec prev (e_last l)) as [Hle|Hgt]; [exact Hle|].
    pose proof (pen_fails_beyond l prev ltac:(lia)) as Hf.
    destruct (new =? 0).
    - rewrite H in Hf. discriminate.
    - unfold pct_partial in H. destruct (pct_full l prev); [discriminate | cbn [bind] in H; discriminate]. }
  destruct (new =? 0) eqn:E3.
  - destruct (pen_bounded l prev Hwf ltac:(lia)) as (q & Hq & Hb & Hb2 & _). rewrite H in Hq. inversion Hq; subst. lia.
  - destruct (pen_partial l prev new Hwf H0 E2 Hle) as (po & pn & q & _ & _ & _ & _ & _ & Hq & _ & Hr).
    rewrite H in Hq. inversion Hq; subst. lia.
Qed.

(** pen_amount: penalty = floor(amount * pct / MAXP) <= amount, and < amount unless pct = MAXP *)
Theorem pen_amount l amt prev new pen : wf_opts l -> 0 <= new -> 0 <= amt ->
  penalty_amount l amt prev new = Ok pen ->
  exists pct, penalty_pct l prev new = Ok pct /\ 0 <= pct <= MAXP /\
              is_floor pen (amt * pct) MAXP /\ 0 <= pen <= amt /\ (pct < MAXP -> 0 < amt -> pen < amt).
Proof.
  intros Hwf H0 Ha H. unfold penalty_amount in H. apply bind_ok in H. destruct H as (pct & Hp & H).
  inversion H; subst pen; clear H.
  destruct (penalty_pct_range l prev new pct Hwf H0 Hp) as (Hr & _).
  pose proof MAXP_pos as HM.
  exists pct. split; [exact Hp|]. split; [exact Hr|]. split; [apply is_floor_div; exact HM|].
  split.
  - split; [apply div_nonneg; nia|]. apply Z.div_le_upper_bound; [lia|]. nia.
  - intros Hlt Hpos. apply Z.div_lt_upper_bound; [lia|]. nia.
Qed.
