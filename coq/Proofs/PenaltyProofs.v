(** Proofs for property C09.
    Part A: the penalty function (every option list accepted by addLockOptions): exact piecewise-
            linear floor formula, monotone, bounded, partial-unlock formula well defined, penalty
            amount below the amount.
    Part B: the locking state machine: invariant over all histories (escrow backing, supply ledger),
            characterisation of every endpoint against the property text. *)
From MX Require Import Base.Prelude Gen.Params Model.Penalty.

(** The only facts about the generated constants used below. *)
Lemma penalty_params :
  0 < MAXP /\ 0 < MAXPU /\ 0 < EPOCHS_PER_MONTH /\ EPOCHS_PER_MONTH <= EPOCHS_PER_YEAR.
Proof. vm_compute. repeat split; congruence. Qed.

Definition MAXP_pos : 0 < MAXP := proj1 penalty_params.
Definition MAXPU_pos : 0 < MAXPU := proj1 (proj2 penalty_params).

(** q = floor(n / d), stated by cross-multiplication *)
Definition is_floor (q n d : Z) : Prop := q * d <= n < (q + 1) * d.

Lemma is_floor_div n d : 0 < d -> is_floor (n / d) n d.
Proof. intros. unfold is_floor. pose proof (div_lo n d H). pose proof (div_hi n d H). lia. Qed.

Lemma is_floor_unique q n d : 0 < d -> is_floor q n d -> q = n / d.
Proof. intros Hd [A B]. apply (proj2 (div_char n d q Hd)). lia. Qed.

(** Break a hypothesis [H : <monadic computation> = Ok _] into its successful steps. *)
Ltac inv_ok H :=
  repeat (first
    [ match type of H with
      | Ok _ = Ok _ => inversion H; subst; clear H
      | Err _ = Ok _ => discriminate H
      | bind ?r ?f = Ok _ =>
          let a := fresh "a" in let Hb := fresh "Hb" in
          apply bind_ok in H; destruct H as (a & Hb & H)
      | (if ?b then _ else _) = Ok _ =>
          let E := fresh "E" in destruct b eqn:E
      | (let (_, _) := ?x in _) = Ok _ => destruct x
      end
    | progress cbv beta in H ]).

(** the next guard of a monadic hypothesis must have passed *)
Ltac case_if H E :=
  match type of H with (if ?b then _ else _) = _ => destruct b eqn:E; [|discriminate H] end.

(** ================================================================== Part A: lock options *)
(** What addLockOptions guarantees about the stored list. *)
Fixpoint chain (l : list opt) : Prop :=
  match l with
  | a :: ((b :: _) as t) => fst a < fst b /\ snd a < snd b /\ chain t
  | _ => True
  end.

Lemma chain_cons2 a b t : chain (a :: b :: t) = (fst a < fst b /\ snd a < snd b /\ chain (b :: t)).
Proof. reflexivity. Qed.

Definition opt_ok (o : opt) : Prop := EPOCHS_PER_YEAR <= fst o /\ 0 <= snd o <= MAXP.

Definition wf_opts (l : list opt) : Prop :=
  l <> [] /\ Z.of_nat (length l) <= MAX_LOCK_OPTIONS /\ chain l /\ Forall opt_ok l.

Fixpoint sorted_le (l : list opt) : Prop :=
  match l with
  | a :: ((b :: _) as t) => fst a <= fst b /\ sorted_le t
  | _ => True
  end.

Lemma insert_sorted o l : sorted_le l -> sorted_le (insert_opt o l).
Proof.
  induction l as [|h t IH]; simpl; intros Hs; [exact I|].
  destruct (fst o <=? fst h) eqn:E.
  - apply Z.leb_le in E. simpl. split; assumption.
  - apply Z.leb_gt in E. destruct t as [|h2 t2].
    + simpl. split; [lia | exact I].
    + destruct Hs as [H1 H2]. specialize (IH H2). simpl in IH |- *.
      destruct (fst o <=? fst h2) eqn:E2.
      * split; [lia | exact IH].
      * split; [exact H1 | exact IH].
Qed.

Lemma sort_sorted l : sorted_le (sort_opts l).
Proof. induction l as [|h t IH]; simpl; [exact I | apply insert_sorted; exact IH]. Qed.

Lemma insert_forall (P : opt -> Prop) o l : P o -> Forall P l -> Forall P (insert_opt o l).
Proof.
  intros Ho. induction l as [|h t IH]; simpl; intros Hl; [constructor; auto|].
  inversion Hl; subst. destruct (fst o <=? fst h); constructor; auto.
Qed.

Lemma sort_forall (P : opt -> Prop) l : Forall P l -> Forall P (sort_opts l).
Proof.
  induction l as [|h t IH]; simpl; intros Hl; [constructor|].
  inversion Hl; subst. apply insert_forall; auto.
Qed.

Lemma insert_length o l : length (insert_opt o l) = S (length l).
Proof. induction l as [|h t IH]; simpl; [reflexivity|]. destruct (fst o <=? fst h); simpl; congruence. Qed.

Lemma sort_length l : length (sort_opts l) = length l.
Proof. induction l as [|h t IH]; simpl; [reflexivity|]. rewrite insert_length. congruence. Qed.

Lemma checks_chain l : sorted_le l -> no_dup_epochs l = true -> valid_pcts l = true -> chain l.
Proof.
  induction l as [|a t IH]; [intros; exact I|].
  destruct t as [|b t2]; [intros; exact I|].
  intros [H1 H2] Hd Hv. cbn [no_dup_epochs] in Hd. cbn [valid_pcts] in Hv.
  apply andb_prop in Hd. destruct Hd as [Hd1 Hd2]. apply andb_prop in Hv. destruct Hv as [Hv1 Hv2].
  apply negb_true_iff in Hd1. apply Z.eqb_neq in Hd1. apply Z.ltb_lt in Hv1.
  rewrite chain_cons2. split; [lia|]. split; [exact Hv1|]. apply IH; assumption.
Qed.

Lemma add_lock_options_wf old new l :
  old = [] \/ wf_opts old -> add_lock_options old new = Ok l -> wf_opts l.
Proof.
  intros Hold H. unfold add_lock_options in H.
  case_if H E1. case_if H E2. cbv zeta in H. case_if H E3. case_if H E4. case_if H E5.
  inversion H; subst; clear H.
  apply Z.leb_le in E1.
  split; [|split; [|split]].
  - intros Hn. rewrite Hn in E3. discriminate.
  - rewrite sort_length, app_length. exact E1.
  - apply checks_chain; auto using sort_sorted.
  - apply sort_forall. apply Forall_app. split.
    + destruct Hold as [->|(_ & _ & _ & Hf)]; [constructor | exact Hf].
    + apply Forall_forall. intros o Ho. rewrite forallb_forall in E2. specialize (E2 o Ho).
      apply andb_prop in E2. destruct E2 as [E2 E2c]. apply andb_prop in E2. destruct E2 as [E2a E2b].
      apply Z.leb_le in E2a, E2b, E2c. unfold opt_ok. lia.
Qed.

(** ================================================================== Part A: interpolation *)
(** the documented value on the segment [a, b] *)
Definition seg_num (a b : opt) (x : Z) : Z := snd a * (fst b - x) + snd b * (x - fst a).
Definition seg (a b : opt) (x : Z) : Z := seg_num a b x / (fst b - fst a).

(** piecewise evaluation over a list of points: the first segment whose right end is >= x *)
Fixpoint eval (l : list opt) (x : Z) : Z :=
  match l with
  | [] => 0
  | a :: t => match t with
              | [] => snd a
              | b :: _ => if x <=? fst b then seg a b x else eval t x
              end
  end.

(** points (0,0) :: options: epochs strictly increasing, percentages non-decreasing within [0, MAXP],
    every left end strictly below MAXP *)
Fixpoint pchain (l : list opt) : Prop :=
  match l with
  | a :: ((b :: _) as t) =>
      fst a < fst b /\ 0 <= snd a /\ snd a <= snd b /\ snd a < MAXP /\ snd b <= MAXP /\ pchain t
  | _ => True
  end.

Lemma pchain_cons2 a b t :
  pchain (a :: b :: t) =
  (fst a < fst b /\ 0 <= snd a /\ snd a <= snd b /\ snd a < MAXP /\ snd b <= MAXP /\ pchain (b :: t)).
Proof. reflexivity. Qed.

Lemma eval_cons2 a b t x : eval (a :: b :: t) x = if x <=? fst b then seg a b x else eval (b :: t) x.
Proof. reflexivity. Qed.

Lemma find_seg_cons2 a b t x :
  find_seg (a :: b :: t) x = if (fst a <=? x) && (x <=? fst b) then (a, b) else find_seg (b :: t) x.
Proof. reflexivity. Qed.

Lemma chain_pchain l : chain l -> Forall opt_ok l -> pchain l.
Proof.
  induction l as [|a t IH]; [intros; exact I|].
  destruct t as [|b t2]; [intros; exact I|].
  intros (H1 & H2 & H3) Hf. inversion Hf as [|? ? Ha Hf2]; subst. inversion Hf2 as [|? ? Hb _]; subst.
  unfold opt_ok in Ha, Hb. rewrite pchain_cons2.
  split; [exact H1|]. split; [lia|]. split; [lia|]. split; [lia|]. split; [lia|]. apply IH; assumption.
Qed.

Lemma wf_pchain l : wf_opts l -> pchain ((0, 0) :: l).
Proof.
  intros (Hne & _ & Hc & Hf). destruct l as [|a t]; [congruence|].
  pose proof penalty_params as (HM & _ & Hm & Hy).
  inversion Hf as [|? ? Ha _]; subst. unfold opt_ok in Ha.
  rewrite pchain_cons2; cbn [fst snd]. split; [lia|]. split; [lia|]. split; [lia|]. split; [exact HM|]. split; [lia|].
  apply chain_pchain; assumption.
Qed.

Lemma last_cons2 (a b : opt) t d : last (a :: b :: t) d = last (b :: t) d.
Proof. reflexivity. Qed.

Lemma pchain_tail a t : pchain (a :: t) -> pchain t.
Proof. destruct t as [|b t2]; [intros; exact I|]. rewrite pchain_cons2. tauto. Qed.

Lemma pchain_last_ge t : forall a, pchain (a :: t) ->
  fst a <= fst (last (a :: t) (0, 0)) /\ snd a <= snd (last (a :: t) (0, 0)).
Proof.
  induction t as [|b t2 IH]; intros a Hc.
  - simpl. lia.
  - rewrite last_cons2. rewrite pchain_cons2 in Hc. destruct Hc as (H1 & H2 & H3 & H4 & H5 & H6).
    specialize (IH b H6). lia.
Qed.

Section Seg.
  Variables (a b : opt) (x y : Z).
  Hypothesis He : fst a < fst b.
  Hypothesis Hp : snd a <= snd b.

  Lemma seg_bounds : fst a <= x <= fst b -> snd a <= seg a b x <= snd b.
  Proof.
    intros Hx. unfold seg, seg_num. set (d := fst b - fst a). assert (Hd : 0 < d) by (unfold d; lia).
    split.
    - apply Z.div_le_lower_bound; [exact Hd|]. unfold d. nia.
    - apply Z.div_le_upper_bound; [exact Hd|]. unfold d. nia.
  Qed.

  Lemma seg_mono : fst a <= x -> x <= y -> y <= fst b -> seg a b x <= seg a b y.
  Proof.
    intros H1 H2 H3. unfold seg, seg_num. apply Z.div_le_mono; [lia|]. nia.
  Qed.

  Lemma seg_lt M : fst a <= x < fst b -> snd a < M -> snd b <= M -> seg a b x < M.
  Proof.
    intros Hx Ha Hb. unfold seg, seg_num. apply Z.div_lt_upper_bound; [lia|]. nia.
  Qed.

  Lemma seg_left : seg a b (fst a) = snd a.
  Proof.
    unfold seg, seg_num. replace (fst a - fst a) with 0 by lia. rewrite Z.mul_0_r, Z.add_0_r.
    apply Z.div_mul. lia.
  Qed.

  Lemma seg_right : seg a b (fst b) = snd b.
  Proof.
    unfold seg, seg_num. replace (fst b - fst b) with 0 by lia. rewrite Z.mul_0_r, Z.add_0_l.
    apply Z.div_mul. lia.
  Qed.
End Seg.

Lemma eval_bounds t : forall a x, pchain (a :: t) ->
  fst a <= x <= fst (last (a :: t) (0, 0)) ->
  snd a <= eval (a :: t) x <= snd (last (a :: t) (0, 0)).
Proof.
  induction t as [|b t2 IH]; intros a x Hc Hx.
  - simpl. lia.
  - rewrite last_cons2 in *. pose proof Hc as Hc0. rewrite pchain_cons2 in Hc.
    destruct Hc as (H1 & H2 & H3 & H4 & H5 & H6).
    destruct (pchain_last_ge t2 b H6) as [L1 L2].
    rewrite eval_cons2. destruct (x <=? fst b) eqn:E.
    + apply Z.leb_le in E. pose proof (seg_bounds a b x H1 H3 ltac:(lia)). lia.
    + apply Z.leb_gt in E. specialize (IH b x H6 ltac:(lia)). lia.
Qed.

Lemma eval_mono t : forall a x y, pchain (a :: t) ->
  fst a <= x -> x <= y -> y <= fst (last (a :: t) (0, 0)) ->
  eval (a :: t) x <= eval (a :: t) y.
Proof.
  induction t as [|b t2 IH]; intros a x y Hc Hx Hxy Hy.
  - simpl. lia.
  - rewrite last_cons2 in *. pose proof Hc as Hc0. rewrite pchain_cons2 in Hc.
    destruct Hc as (H1 & H2 & H3 & H4 & H5 & H6).
    rewrite !eval_cons2. destruct (y <=? fst b) eqn:Ey.
    + apply Z.leb_le in Ey. assert (Ex : (x <=? fst b) = true) by (apply Z.leb_le; lia). rewrite Ex.
      apply seg_mono; lia.
    + apply Z.leb_gt in Ey. destruct (x <=? fst b) eqn:Ex.
      * apply Z.leb_le in Ex. pose proof (seg_bounds a b x H1 H3 ltac:(lia)).
        pose proof (eval_bounds t2 b y H6 ltac:(lia)). lia.
      * apply Z.leb_gt in Ex. apply IH; auto; lia.
Qed.

Lemma eval_lt t : forall a x, pchain (a :: t) ->
  fst a <= x < fst (last (a :: t) (0, 0)) -> eval (a :: t) x < MAXP.
Proof.
  induction t as [|b t2 IH]; intros a x Hc Hx.
  - simpl in Hx. lia.
  - rewrite last_cons2 in *. rewrite pchain_cons2 in Hc. destruct Hc as (H1 & H2 & H3 & H4 & H5 & H6).
    rewrite eval_cons2. destruct (x <=? fst b) eqn:E.
    + apply Z.leb_le in E. destruct (Z.eq_dec x (fst b)) as [->|Hne].
      * rewrite seg_right by lia. destruct t2 as [|c t3]; [simpl in Hx; lia|].
        rewrite pchain_cons2 in H6. lia.
      * apply seg_lt; lia.
    + apply Z.leb_gt in E. apply IH; auto. lia.
Qed.

(** the model's segment search agrees with [eval] *)
Lemma find_seg_spec t : forall a x, pchain (a :: t) -> t <> [] ->
  fst a <= x <= fst (last (a :: t) (0, 0)) ->
  let '(p, n) := find_seg (a :: t) x in
  fst p <= x <= fst n /\ fst p < fst n /\ eval (a :: t) x = seg p n x.
Proof.
  induction t as [|b t2 IH]; intros a x Hc Hne Hx; [congruence|].
  rewrite last_cons2 in Hx. rewrite pchain_cons2 in Hc. destruct Hc as (H1 & H2 & H3 & H4 & H5 & H6).
  rewrite find_seg_cons2, eval_cons2.
  destruct (x <=? fst b) eqn:E.
  - apply Z.leb_le in E. assert (Ea : (fst a <=? x) = true) by (apply Z.leb_le; lia).
    rewrite Ea. simpl. repeat split; lia.
  - apply Z.leb_gt in E. rewrite andb_false_r.
    destruct t2 as [|c t3]; [simpl in Hx; lia|].
    apply IH; auto; [discriminate | lia].
Qed.

Lemma lin_interp_seg p n x : fst p <= x <= fst n -> fst p < fst n ->
  lin_interp (fst p) (fst n) x (snd p) (snd n) = Ok (seg p n x).
Proof.
  intros Hx Hlt. unfold lin_interp.
  assert (E1 : (x <? fst p) = false) by (apply Z.ltb_ge; lia).
  assert (E2 : (fst n <? x) = false) by (apply Z.ltb_ge; lia).
  rewrite E1, E2. simpl. unfold sub_chk.
  assert (E3 : (fst n <? x) = false) by exact E2. rewrite E3. simpl.
  rewrite E1. simpl.
  assert (E4 : (fst n <? fst p) = false) by (apply Z.ltb_ge; lia). rewrite E4. simpl.
  unfold div_chk. assert (E5 : (fst n - fst p =? 0) = false) by (apply Z.eqb_neq; lia). rewrite E5.
  reflexivity.
Qed.

Definition e_last (l : list opt) : Z := fst (last_opt l).
Definition p_last (l : list opt) : Z := snd (last_opt l).

Lemma last_pts l : l <> [] -> last ((0, 0) :: l) (0, 0) = last_opt l.
Proof. destruct l; [congruence | reflexivity]. Qed.

Lemma pct_full_eval l x : wf_opts l -> 0 <= x <= e_last l ->
  pct_full l x = Ok (eval ((0, 0) :: l) x).
Proof.
  intros Hwf Hx. pose proof (wf_pchain l Hwf) as Hpc. destruct Hwf as (Hne & _ & _ & _).
  destruct l as [|first rest]; [congruence|].
  unfold pct_full. unfold e_last in Hx.
  assert (E0 : (x <=? fst (last_opt (first :: rest))) = true) by (apply Z.leb_le; lia). rewrite E0.
  pose proof Hpc as Hpc0. rewrite pchain_cons2 in Hpc; cbn [fst snd] in Hpc. destruct Hpc as (H1 & _ & H3 & _ & H5 & H6).
  rewrite eval_cons2; cbn [fst].
  destruct (negb (match rest with [] => true | _ => false end) && (fst first <? x)) eqn:Ec.
  - apply andb_prop in Ec. destruct Ec as [Er Ef]. apply Z.ltb_lt in Ef.
    assert (Hrest : rest <> []) by (destruct rest; [discriminate | discriminate]).
    assert (Ex : (x <=? fst first) = false) by (apply Z.leb_gt; lia). rewrite Ex.
    pose proof (find_seg_spec rest first x H6 Hrest) as Hs.
    unfold last_opt in Hx. specialize (Hs ltac:(lia)).
    destruct (find_seg (first :: rest) x) as [p n]. destruct Hs as (Hpx & Hpn & ->).
    apply lin_interp_seg; assumption.
  - assert (Ex : (x <=? fst first) = true).
    { apply Z.leb_le. destruct rest as [|r rs]; [unfold last_opt in Hx; simpl in Hx; lia|].
      simpl in Ec. apply Z.ltb_ge in Ec. exact Ec. }
    rewrite Ex. apply Z.leb_le in Ex.
    change (lin_interp (fst (0, 0)) (fst first) x (snd (0, 0)) (snd first) = Ok (seg (0, 0) first x)).
    apply lin_interp_seg; simpl; lia.
Qed.

(** ------------------------------------------------------------------ adjacency in the point list *)
Definition adj (a b : opt) (l : list opt) : Prop := exists l1 l2, l = l1 ++ a :: b :: l2.

Lemma pchain_mid_lt l1 : forall d a t, pchain (d :: l1 ++ a :: t) -> fst d < fst a.
Proof.
  induction l1 as [|c l1' IH]; intros d a t Hc.
  - simpl in Hc. tauto.
  - change (pchain (d :: c :: l1' ++ a :: t)) in Hc. rewrite pchain_cons2 in Hc.
    destruct Hc as (H1 & _ & _ & _ & _ & H6). specialize (IH c a t H6). lia.
Qed.

Lemma pchain_app_tail l1 : forall l2, pchain (l1 ++ l2) -> pchain l2.
Proof.
  induction l1 as [|c l1' IH]; intros l2 Hc; [exact Hc|].
  apply IH. apply (pchain_tail c). exact Hc.
Qed.

Lemma eval_adj l1 : forall a b l2 x, pchain (l1 ++ a :: b :: l2) -> fst a <= x <= fst b ->
  eval (l1 ++ a :: b :: l2) x = seg a b x.
Proof.
  induction l1 as [|c l1' IH]; intros a b l2 x Hc Hx.
  - simpl. assert (E : (x <=? fst b) = true) by (apply Z.leb_le; lia). rewrite E. reflexivity.
  - destruct l1' as [|d l1''].
    + (* c :: a :: b :: l2 *)
      change (pchain (c :: a :: b :: l2)) in Hc. pose proof Hc as Hc0. rewrite !pchain_cons2 in Hc.
      destruct Hc as (H1 & H2 & H3 & H4 & H5 & (G1 & G2 & G3 & G4 & G5 & G6)).
      change (eval (c :: a :: b :: l2) x = seg a b x). rewrite eval_cons2.
      destruct (x <=? fst a) eqn:E.
      * apply Z.leb_le in E. assert (x = fst a) by lia. subst x.
        rewrite seg_right by lia. rewrite seg_left by lia. reflexivity.
      * rewrite eval_cons2. assert (E2 : (x <=? fst b) = true) by (apply Z.leb_le; lia). rewrite E2. reflexivity.
    + change (pchain (c :: d :: l1'' ++ a :: b :: l2)) in Hc. pose proof Hc as Hc0. rewrite pchain_cons2 in Hc.
      destruct Hc as (H1 & _ & _ & _ & _ & H6).
      pose proof (pchain_mid_lt l1'' d a (b :: l2) H6) as Hda.
      change (eval (c :: d :: l1'' ++ a :: b :: l2) x = seg a b x). rewrite eval_cons2.
      assert (E : (x <=? fst d) = false) by (apply Z.leb_gt; lia). rewrite E.
      apply (IH a b l2 x); assumption.
Qed.

Lemma adj_bounds l1 : forall a b l2 h, pchain (h :: l1 ++ a :: b :: l2) ->
  fst h <= fst a /\ fst a < fst b /\ fst b <= fst (last (h :: l1 ++ a :: b :: l2) (0, 0)).
Proof.
  induction l1 as [|c l1' IH]; intros a b l2 h Hc.
  - change (pchain (h :: a :: b :: l2)) in Hc. rewrite !pchain_cons2 in Hc.
    destruct Hc as (H1 & _ & _ & _ & _ & (G1 & _ & _ & _ & _ & G6)).
    change (last (h :: [] ++ a :: b :: l2) (0, 0)) with (last (b :: l2) (0, 0)).
    pose proof (pchain_last_ge l2 b G6). lia.
  - change (pchain (h :: c :: l1' ++ a :: b :: l2)) in Hc. rewrite pchain_cons2 in Hc.
    destruct Hc as (H1 & _ & _ & _ & _ & H6).
    change (last (h :: (c :: l1') ++ a :: b :: l2) (0, 0)) with (last (c :: l1' ++ a :: b :: l2) (0, 0)).
    specialize (IH a b l2 c H6). lia.
Qed.

(** some segment contains every x in range *)
Lemma seg_exists t : forall a x, pchain (a :: t) -> t <> [] ->
  fst a <= x <= fst (last (a :: t) (0, 0)) ->
  exists p n, adj p n (a :: t) /\ fst p <= x <= fst n.
Proof.
  induction t as [|b t2 IH]; intros a x Hc Hne Hx; [congruence|].
  rewrite last_cons2 in Hx.
  destruct (Z_le_gt_dec x (fst b)) as [Hle|Hgt].
  - exists a, b. split; [exists [], t2; reflexivity | lia].
  - destruct t2 as [|c t3]; [simpl in Hx; lia|].
    destruct (IH b x (pchain_tail _ _ Hc) ltac:(discriminate) ltac:(lia)) as (p & n & (l1 & l2 & Hl) & Hpn).
    exists p, n. split; [|exact Hpn]. exists (a :: l1), l2. rewrite Hl. reflexivity.
Qed.

(** ================================================================== Part A: the penalty laws *)
(** pen_exact: on ANY segment of (0,0)::options containing x, the percentage is the floor of the
    linear interpolation between the segment's end points. *)
Theorem pen_exact l x a b : wf_opts l -> adj a b ((0, 0) :: l) -> fst a <= x <= fst b ->
  exists q, pct_full l x = Ok q /\
            is_floor q (snd a * (fst b - x) + snd b * (x - fst a)) (fst b - fst a).
Proof.
  intros Hwf (l1 & l2 & Hl) Hx. pose proof (wf_pchain l Hwf) as Hpc.
  assert (Hne : l <> []) by apply Hwf.
  assert (Hb : 0 <= fst a /\ fst a < fst b /\ fst b <= e_last l).
  { pose proof Hpc as Hpc'. rewrite Hl in Hpc'. unfold e_last. rewrite <- (last_pts l Hne). rewrite Hl.
    destruct l1 as [|h l1'].
    - simpl in Hl. injection Hl as Ha Hl'. subst a. simpl app in *. rewrite pchain_cons2 in Hpc'.
      destruct Hpc' as (G1 & _ & _ & _ & _ & G6). rewrite last_cons2.
      pose proof (pchain_last_ge l2 b G6). cbn [fst] in *. lia.
    - simpl in Hl. injection Hl as Hh Hl'. subst h. rewrite <- app_comm_cons in *.
      pose proof (adj_bounds l1' a b l2 (0, 0) Hpc') as Hab. cbn [fst] in Hab. exact Hab. }
  exists (eval ((0, 0) :: l) x). split.
  - apply pct_full_eval; [exact Hwf | lia].
  - rewrite Hl. rewrite Hl in Hpc. rewrite (eval_adj l1 a b l2 x Hpc Hx).
    unfold seg, seg_num. apply is_floor_div. lia.
Qed.

Theorem pen_segment_exists l x : wf_opts l -> 0 <= x <= e_last l ->
  exists a b, adj a b ((0, 0) :: l) /\ fst a <= x <= fst b.
Proof.
  intros Hwf Hx. assert (Hne : l <> []) by apply Hwf.
  apply seg_exists; [apply wf_pchain; exact Hwf | exact Hne |].
  rewrite (last_pts l Hne). simpl. exact Hx.
Qed.

Theorem pen_monotone l x y : wf_opts l -> 0 <= x -> x <= y -> y <= e_last l ->
  exists qx qy, pct_full l x = Ok qx /\ pct_full l y = Ok qy /\ qx <= qy.
Proof.
  intros Hwf H0 Hxy Hy. assert (Hne : l <> []) by apply Hwf.
  exists (eval ((0, 0) :: l) x), (eval ((0, 0) :: l) y).
  split; [apply pct_full_eval; [exact Hwf | lia]|]. split; [apply pct_full_eval; [exact Hwf | lia]|].
  apply eval_mono; [apply wf_pchain; exact Hwf | simpl; lia | exact Hxy |].
  rewrite (last_pts l Hne). exact Hy.
Qed.

Theorem pen_bounded l x : wf_opts l -> 0 <= x <= e_last l ->
  exists q, pct_full l x = Ok q /\ 0 <= q <= p_last l /\ p_last l <= MAXP /\ (x < e_last l -> q < MAXP).
Proof.
  intros Hwf Hx. assert (Hne : l <> []) by apply Hwf. pose proof (wf_pchain l Hwf) as Hpc.
  exists (eval ((0, 0) :: l) x). split; [apply pct_full_eval; assumption|].
  pose proof (eval_bounds l (0, 0) x Hpc) as Hb. rewrite (last_pts l Hne) in Hb.
  specialize (Hb ltac:(simpl; exact Hx)). simpl snd in Hb at 1.
  split; [exact Hb|]. split.
  - destruct Hwf as (_ & _ & _ & Hf). unfold p_last, last_opt.
    assert (Hin : In (last l (0, 0)) l).
    { clear - Hne. induction l as [|a t IH]; [congruence|]. destruct t as [|b t2]; [left; reflexivity|].
      right. apply IH. discriminate. }
    rewrite Forall_forall in Hf. apply (Hf _ Hin).
  - intros Hlt. apply (eval_lt l (0, 0) x Hpc). rewrite (last_pts l Hne). simpl. unfold e_last in Hlt. lia.
Qed.

Theorem pen_fails_beyond l x : e_last l < x -> is_ok (pct_full l x) = false.
Proof.
  intros Hx. unfold pct_full. destruct l as [|f r]; [reflexivity|].
  unfold e_last in Hx. assert (E : (x <=? fst (last_opt (f :: r))) = false) by (apply Z.leb_gt; lia).
  rewrite E. reflexivity.
Qed.

(** pen_partial: the reduction percentage (p_old - p_new) / (1 - p_new) in basis points: no
    underflow, divisor positive, result within [0, MAXP] *)
Theorem pen_partial l old new : wf_opts l -> 0 <= new -> new < old -> old <= e_last l ->
  exists po pn q, pct_full l old = Ok po /\ pct_full l new = Ok pn /\ 0 <= pn <= po /\ po <= MAXP /\ pn < MAXP /\
                  pct_partial l old new = Ok q /\ is_floor q ((po - pn) * MAXP) (MAXP - pn) /\ 0 <= q <= MAXP.
Proof.
  intros Hwf H0 Hlt Hle.
  destruct (pen_monotone l new old Hwf H0 ltac:(lia) Hle) as (pn & po & Hn & Ho & Hm).
  destruct (pen_bounded l new Hwf ltac:(lia)) as (pn' & Hn' & Hb1 & Hb2 & Hb3).
  destruct (pen_bounded l old Hwf ltac:(lia)) as (po' & Ho' & Hc1 & Hc2 & _).
  rewrite Hn in Hn'. inversion Hn'; subst pn'. rewrite Ho in Ho'. inversion Ho'; subst po'.
  specialize (Hb3 ltac:(lia)).
  exists po, pn, ((po - pn) * MAXP / (MAXP - pn)).
  split; [exact Ho|]. split; [exact Hn|]. split; [lia|]. split; [lia|]. split; [exact Hb3|].
  pose proof MAXP_pos as HM.
  split; [|split].
  - assert (E1 : (po <? pn) = false) by (apply Z.ltb_ge; lia).
    assert (E2 : (MAXP <? pn) = false) by (apply Z.ltb_ge; lia).
    assert (E3 : (MAXP - pn =? 0) = false) by (apply Z.eqb_neq; lia).
    unfold pct_partial. rewrite Ho, Hn. cbn [bind]. unfold sub_chk. rewrite E1. cbn [bind]. rewrite E2. cbn [bind].
    unfold div_chk. rewrite E3. reflexivity.
  - apply is_floor_div. lia.
  - split; [apply div_nonneg; nia|]. apply Z.div_le_upper_bound; [lia|]. nia.
Qed.

(** the percentage getPenaltyAmount applies is always within [0, MAXP] *)
Lemma penalty_pct_range l prev new pct : wf_opts l -> 0 <= new ->
  penalty_pct l prev new = Ok pct -> 0 <= pct <= MAXP /\ 0 < prev <= e_last l /\ new < prev.
Proof.
  intros Hwf H0 H. unfold penalty_pct in H.
  destruct (0 <? prev) eqn:E1; [|discriminate]. destruct (new <? prev) eqn:E2; [|discriminate].
  apply Z.ltb_lt in E1, E2.
  assert (Hle : prev <= e_last l).
  { destruct (Z_le_gt_dec prev (e_last l)) as [Hle|Hgt]; [exact Hle|].
    pose proof (pen_fails_beyond l prev ltac:(lia)) as Hf.
    destruct (new =? 0).
    - rewrite H in Hf. discriminate.
    - unfold pct_partial in H. destruct (pct_full l prev); [discriminate | cbn [bind] in H; discriminate]. }
  destruct (new =? 0) eqn:E3.
  - destruct (pen_bounded l prev Hwf ltac:(lia)) as (q & Hq & Hb & Hb2 & _). rewrite H in Hq. inversion Hq; subst. lia.
  - destruct (pen_partial l prev new Hwf H0 E2 Hle) as (po & pn & q & _ & _ & _ & _ & _ & Hq & _ & Hr).
    rewrite H in Hq. inversion Hq; subst. lia.
Qed.

(** pen_amount: penalty = floor(amount * pct / MAXP) <= amount, and < amount unless pct = MAXP *)
Theorem pen_amount l amt prev new pen : wf_opts l -> 0 <= new -> 0 <= amt ->
  penalty_amount l amt prev new = Ok pen ->
  exists pct, penalty_pct l prev new = Ok pct /\ 0 <= pct <= MAXP /\
              is_floor pen (amt * pct) MAXP /\ 0 <= pen <= amt /\ (pct < MAXP -> 0 < amt -> pen < amt).
Proof.
  intros Hwf H0 Ha H. unfold penalty_amount in H. apply bind_ok in H. destruct H as (pct & Hp & H).
  inversion H; subst pen; clear H.
  destruct (penalty_pct_range l prev new pct Hwf H0 Hp) as (Hr & _).
  pose proof MAXP_pos as HM.
  exists pct. split; [exact Hp|]. split; [exact Hr|]. split; [apply is_floor_div; exact HM|].
  split.
  - split; [apply div_nonneg; nia|]. apply Z.div_le_upper_bound; [lia|]. nia.
  - intros Hlt Hpos. apply Z.div_lt_upper_bound; [lia|]. nia.
Qed.

(** ################################################################## PART B *)
(** ================================================================== Part B: ledger algebra *)
Lemma tot_cons f h t d L : tot f ((h, t, d) :: L) = (if f h t then d else 0) + tot f L.
Proof. reflexivity. Qed.

Lemma bal_cons h0 t0 d L h t :
  bal ((h0, t0, d) :: L) h t = (if (h0 =? h) && (t0 =? t) then d else 0) + bal L h t.
Proof. reflexivity. Qed.

Lemma debit_ok L h t a L' : debit L h t a = Ok L' -> a <= bal L h t /\ L' = (h, t, - a) :: L.
Proof.
  unfold debit. intros H. case_if H E. apply Z.leb_le in E. inversion H. auto.
Qed.

Lemma s_debit_ok s h t a s' :
  s_debit s h t a = Ok s' -> a <= bal (l_led s) h t /\ s' = set_led s ((h, t, - a) :: l_led s).
Proof.
  unfold s_debit. intros H. apply bind_ok in H. destruct H as (L & HL & H). inversion H; subst.
  apply debit_ok in HL. destruct HL as [H1 ->]. auto.
Qed.

Lemma tl_sub_ok s u a s' :
  tl_sub s u a = Ok s' -> a <= tl_of s u /\ s' = set_tl s ((u, 0, - a) :: l_tl s).
Proof.
  unfold tl_sub. intros H. apply bind_ok in H. destruct H as (x & Hx & H). inversion H; subst.
  apply sub_chk_ok in Hx. unfold credit. split; [lia | reflexivity].
Qed.

(** pointwise non-negative balances give non-negative totals over any class of (holder, token) *)
Lemma tot_filter_key f h t L :
  tot f L = (if f h t then bal L h t else 0)
            + tot f (filter (fun x => negb ((fst (fst x) =? h) && (snd (fst x) =? t))) L).
Proof.
  induction L as [|[[h0 t0] d] r IH]; [simpl; destruct (f h t); reflexivity|].
  rewrite tot_cons, bal_cons. cbn [filter fst snd].
  destruct ((h0 =? h) && (t0 =? t)) eqn:E; cbn [negb].
  - apply andb_prop in E. destruct E as [E1 E2]. apply Z.eqb_eq in E1, E2. subst h0 t0.
    rewrite IH. destruct (f h t); lia.
  - rewrite tot_cons. rewrite IH. destruct (f h t); destruct (f h0 t0); lia.
Qed.

Lemma bal_filter_key h t L h' t' :
  bal (filter (fun x => negb ((fst (fst x) =? h) && (snd (fst x) =? t))) L) h' t'
  = if (h =? h') && (t =? t') then 0 else bal L h' t'.
Proof.
  induction L as [|[[h0 t0] d] r IH]; [simpl; destruct ((h =? h') && (t =? t')); reflexivity|].
  cbn [filter fst snd]. rewrite bal_cons.
  destruct ((h0 =? h) && (t0 =? t)) eqn:E; cbn [negb].
  - rewrite IH. apply andb_prop in E. destruct E as [E1 E2]. apply Z.eqb_eq in E1, E2. subst h0 t0.
    destruct ((h =? h') && (t =? t')); lia.
  - rewrite bal_cons, IH.
    destruct ((h =? h') && (t =? t')) eqn:E2; [|reflexivity].
    apply andb_prop in E2. destruct E2 as [E3 E4]. apply Z.eqb_eq in E3, E4. subst h' t'.
    rewrite E. reflexivity.
Qed.

Lemma filter_length_le {A} (p : A -> bool) l : (length (filter p l) <= length l)%nat.
Proof. induction l as [|a t IH]; simpl; [lia|]. destruct (p a); simpl; lia. Qed.

Lemma tot_nonneg_n n : forall L f, (length L <= n)%nat -> (forall h t, 0 <= bal L h t) -> 0 <= tot f L.
Proof.
  induction n as [|n IH]; intros L f Hlen Hnn.
  - destruct L; [simpl; lia | simpl in Hlen; lia].
  - destruct L as [|[[h t] d] r]; [simpl; lia|].
    rewrite (tot_filter_key f h t).
    set (L' := filter _ ((h, t, d) :: r)).
    assert (Hl : (length L' <= n)%nat).
    { unfold L'. cbn [filter fst snd]. rewrite !Z.eqb_refl. cbn [andb negb].
      pose proof (filter_length_le (fun x : Z * Z * Z => negb ((fst (fst x) =? h) && (snd (fst x) =? t))) r).
      simpl in Hlen. lia. }
    assert (Hn' : forall h' t', 0 <= bal L' h' t').
    { intros h' t'. unfold L'. rewrite bal_filter_key. destruct ((h =? h') && (t =? t')); [lia | apply Hnn]. }
    specialize (IH L' f Hl Hn'). pose proof (Hnn h t). destruct (f h t); lia.
Qed.

Lemma tot_nonneg L f : (forall h t, 0 <= bal L h t) -> 0 <= tot f L.
Proof. apply (tot_nonneg_n (length L)). lia. Qed.

Lemma tot_split f g L : tot f L = tot (fun h t => f h t && g h t) L + tot (fun h t => f h t && negb (g h t)) L.
Proof.
  induction L as [|[[h t] d] r IH]; [reflexivity|]. rewrite !tot_cons, IH.
  destruct (f h t), (g h t); simpl; lia.
Qed.

Lemma tot_ext f g L : (forall h t, f h t = g h t) -> tot f L = tot g L.
Proof. intros E. induction L as [|[[h t] d] r IH]; [reflexivity|]. rewrite !tot_cons, IH, E. reflexivity. Qed.

(** a class contained in another has the smaller total *)
Lemma tot_le f g L : (forall h t, 0 <= bal L h t) -> (forall h t, f h t = true -> g h t = true) ->
  tot f L <= tot g L.
Proof.
  intros Hnn Hsub. rewrite (tot_split g f L).
  assert (E : tot (fun h t => g h t && f h t) L = tot f L).
  { apply tot_ext. intros h t. destruct (f h t) eqn:Ef; [rewrite (Hsub h t Ef); reflexivity | apply andb_false_r]. }
  rewrite E. pose proof (tot_nonneg L (fun h t => g h t && negb (f h t)) Hnn). lia.
Qed.

(** ------------------------------------------------------------------ queue sums *)
Definition qsum (f : uentry -> Z) (q : list uentry) : Z := fold_right (fun en acc => f en + acc) 0 q.

Lemma qsum_app f q1 q2 : qsum f (q1 ++ q2) = qsum f q1 + qsum f q2.
Proof. induction q1 as [|a t IH]; simpl; [reflexivity | rewrite IH; lia]. Qed.

Lemma qsum_remove f q c en : q_first q c = Some en -> qsum f (q_remove_first q c) = qsum f q - f en.
Proof.
  induction q as [|a t IH]; simpl; [discriminate|].
  destruct (en_user a =? c); intros H.
  - inversion H; subst. lia.
  - simpl. rewrite IH by assumption. lia.
Qed.

Lemma q_first_in q c en : q_first q c = Some en -> In en q /\ en_user en = c.
Proof.
  induction q as [|a t IH]; simpl; [discriminate|].
  destruct (en_user a =? c) eqn:E; intros H.
  - inversion H; subst. apply Z.eqb_eq in E. auto.
  - destruct (IH H). auto.
Qed.

Lemma forall_remove (P : uentry -> Prop) q c : Forall P q -> Forall P (q_remove_first q c).
Proof.
  induction q as [|a t IH]; simpl; intros H; [constructor|].
  inversion H; subst. destruct (en_user a =? c); [assumption | constructor; auto].
Qed.

Lemma remove_length q c en : q_first q c = Some en -> S (length (q_remove_first q c)) = length q.
Proof.
  induction q as [|a t IH]; simpl; [discriminate|].
  destruct (en_user a =? c); intros H; [reflexivity | simpl; rewrite IH by assumption; reflexivity].
Qed.

(** ------------------------------------------------------------------ the invariant *)
Definition entry_ok (en : uentry) : Prop :=
  0 < en_un en <= en_lk en /\ 0 < en_epoch en /\ en_user en <> UNSTAKE.

Definition lk_at (e : Z) (en : uentry) : Z := if en_epoch en =? e then en_lk en else 0.

Record Inv (b0 : Z) (s : lst) : Prop := {
  i_opts : wf_opts (opts s);
  i_cfg : 0 <= c_burn (l_cfg s) <= MAXPU /\ 0 <= c_unbond (l_cfg s) /\ 0 <= l_now s;
  i_nonneg : forall h t, 0 <= bal (l_led s) h t;
  (* escrow: the unstake contract holds exactly what its queues record *)
  i_esc_base : bal (l_led s) UNSTAKE 0 = qsum en_un (l_q s);
  i_esc_lk : forall e, 0 < e -> bal (l_led s) UNSTAKE e = qsum (lk_at e) (l_q s);
  i_esc_tot : held_locked s UNSTAKE = qsum en_lk (l_q s);
  i_entries : Forall entry_ok (l_q s);
  (* energy bookkeeping: total_locked_tokens of a user = LOCKED it holds *)
  i_tl : forall u, u <> UNSTAKE -> tl_of s u = held_locked s u;
  (* supply ledger *)
  i_supply : g_bmint (l_g s) + locked_supply s - qsum en_un (l_q s) + g_penburn (l_g s) + l_fees s
             = g_bburn_lock (l_g s) + g_bburn_cancel (l_g s) + g_emit (l_g s);
  i_base : base_supply s = b0 + g_bmint (l_g s) - g_bburn_lock (l_g s) - g_bburn_cancel (l_g s);
  i_locked : locked_supply s = g_lmint (l_g s) - g_lburn (l_g s);
  i_pos : 0 <= g_penburn (l_g s) /\ 0 <= l_fees s
}.

(** normalise projections of explicitly built states *)
Ltac red_state :=
  cbn [l_cfg l_now l_led l_tl l_q l_fees l_g set_cfg set_now set_led set_tl set_q set_fees set_g
       s_credit tl_add credit opts paused c_opts c_unbond c_burn c_paused
       g_bmint g_bburn_lock g_bburn_cancel g_lmint g_lburn g_penburn g_emit
       g_add_bmint g_add_bburn_lock g_add_bburn_cancel g_add_lmint g_add_lburn g_add_penburn g_add_emit
       en_user en_release en_epoch en_lk en_un] in *.

Ltac led_norm :=
  unfold base_supply, locked_supply, held_locked, tl_of, s_credit, tl_add, credit in *; red_state;
  repeat rewrite bal_cons in *; repeat rewrite tot_cons in *; unfold is_base, is_locked in *.

(** decide every comparison that occurs in the goal, then linear arithmetic *)
Ltac case_cmp :=
  repeat match goal with
  | |- context[?a =? ?b] => destruct (Z.eqb_spec a b)
  | |- context[?a <? ?b] => destruct (Z.ltb_spec a b)
  | |- context[?a <=? ?b] => destruct (Z.leb_spec a b)
  end; cbn [andb orb negb]; cbv iota.

Ltac solve_lin := case_cmp; subst; try lia.

Ltac prep_bools :=
  repeat match goal with
  | H : (_ && _) = true |- _ => apply andb_prop in H; destruct H
  | H : is_user _ = true |- _ => unfold is_user in H
  | H : negb _ = true |- _ => apply negb_true_iff in H
  | H : (_ =? _) = true |- _ => apply Z.eqb_eq in H
  | H : (_ =? _) = false |- _ => apply Z.eqb_neq in H
  | H : (_ <? _) = true |- _ => apply Z.ltb_lt in H
  | H : (_ <? _) = false |- _ => apply Z.ltb_ge in H
  | H : (_ <=? _) = true |- _ => apply Z.leb_le in H
  | H : (_ <=? _) = false |- _ => apply Z.leb_gt in H
  end.

Ltac fin := led_norm; repeat rewrite qsum_app; cbn [qsum fold_right]; unfold lk_at in *; red_state; solve_lin.

(** ------------------------------------------------------------------ normal forms of the endpoints:
    the guards that passed and the resulting state, written out *)
Lemma ep_lock_nf s c amt le dest s' o : ep_lock s c amt le dest = Ok (s', o) ->
  let unlock := start_of_month (l_now s + le) in
  c <> UNSTAKE /\ dest <> UNSTAKE /\ paused s = false /\ is_listed (opts s) le = true /\ 0 < amt /\
  amt <= bal (l_led s) c 0 /\ l_now s < unlock /\ o = [unlock; amt] /\
  s' = set_g (set_led (set_tl s ((dest, 0, amt) :: l_tl s)) ((dest, unlock, amt) :: (c, 0, - amt) :: l_led s))
             (g_add_bburn_lock (g_add_lmint (l_g s) amt) amt).
Proof.
  intros H. unfold ep_lock in H.
  case_if H Eu. case_if H Ep. case_if H El. case_if H Ea.
  apply bind_ok in H. destruct H as (s1 & Hd & H). cbv zeta in H. case_if H En.
  inversion H; subst; clear H.
  apply s_debit_ok in Hd. destruct Hd as [Hle ->]. prep_bools. cbv zeta.
  repeat split; auto.
Qed.

Lemma ep_lock_inv b0 s c amt le dest s' o :
  Inv b0 s -> ep_lock s c amt le dest = Ok (s', o) -> Inv b0 s'.
Proof.
  intros HI H. apply ep_lock_nf in H. cbv zeta in H.
  set (unlock := start_of_month (l_now s + le)) in *. clearbody unlock.
  destruct H as (Hc & Hd & Hp & Hl & Ha & Hle & Hn & _ & ->).
  destruct HI as [Io Ic Inn Ieb Iel Iet Ien Itl Isu Iba Ilo Ipo].
  constructor; try assumption.
  - intros h t. pose proof (Inn h t). pose proof (Inn c 0). fin.
  - fin.
  - intros e He. pose proof (Iel e He). fin.
  - fin.
  - intros u Hu. pose proof (Itl u Hu). fin.
  - fin.
  - fin.
  - fin.
Qed.

Lemma ep_extend_nf s c e amt le s' o : ep_extend s c e amt le = Ok (s', o) ->
  let unlock := start_of_month (l_now s + le) in
  c <> UNSTAKE /\ paused s = false /\ is_listed (opts s) le = true /\ 0 < e /\ 0 < amt /\
  amt <= bal (l_led s) c e /\ l_now s < unlock /\ e < unlock /\ amt <= tl_of s c /\ o = [unlock; amt] /\
  s' = set_g (set_led (set_tl s ((c, 0, amt) :: (c, 0, - amt) :: l_tl s)) ((c, unlock, amt) :: (c, e, - amt) :: l_led s))
             (g_add_lburn (g_add_lmint (l_g s) amt) amt).
Proof.
  intros H. unfold ep_extend in H.
  case_if H Eu. case_if H Ep. case_if H El. case_if H Ea.
  apply bind_ok in H. destruct H as (s1 & Hd & H). cbv zeta in H. case_if H En. case_if H Ee.
  apply bind_ok in H. destruct H as (s2 & Ht & H).
  inversion H; subst; clear H.
  apply s_debit_ok in Hd. destruct Hd as [Hle ->].
  apply tl_sub_ok in Ht. destruct Ht as [Htl ->]. prep_bools. cbv zeta.
  repeat split; auto.
Qed.

Lemma ep_extend_inv b0 s c e amt le s' o :
  Inv b0 s -> ep_extend s c e amt le = Ok (s', o) -> Inv b0 s'.
Proof.
  intros HI H. apply ep_extend_nf in H. cbv zeta in H.
  set (unlock := start_of_month (l_now s + le)) in *. clearbody unlock.
  destruct H as (Hc & Hp & Hl & He0 & Ha & Hle & Hn & Hlt & Htl & _ & ->).
  destruct HI as [Io Ic Inn Ieb Iel Iet Ien Itl Isu Iba Ilo Ipo].
  constructor; try assumption.
  - intros h t. pose proof (Inn h t). pose proof (Inn c e). fin.
  - fin.
  - intros e' He'. pose proof (Iel e' He'). fin.
  - fin.
  - intros u Hu. pose proof (Itl u Hu). fin.
  - fin.
  - fin.
  - fin.
Qed.

Lemma ep_lock_virtual_nf s c amt le dest s' o : ep_lock_virtual s c amt le dest = Ok (s', o) ->
  let unlock := start_of_month (l_now s + le) in
  dest <> UNSTAKE /\ paused s = false /\ is_listed (opts s) le = true /\ 0 < amt /\ c = WLSC /\
  l_now s < unlock /\ o = [unlock; amt] /\
  s' = set_g (set_led (set_tl s ((dest, 0, amt) :: l_tl s)) ((dest, unlock, amt) :: l_led s))
             (g_add_emit (g_add_lmint (l_g s) amt) amt).
Proof.
  intros H. unfold ep_lock_virtual in H.
  case_if H Eu. case_if H Ep. case_if H Ea. case_if H El. case_if H Ec. cbv zeta in H. case_if H En.
  inversion H; subst; clear H. prep_bools. cbv zeta. repeat split; auto.
Qed.

Lemma ep_lock_virtual_inv b0 s c amt le dest s' o :
  Inv b0 s -> ep_lock_virtual s c amt le dest = Ok (s', o) -> Inv b0 s'.
Proof.
  intros HI H. apply ep_lock_virtual_nf in H. cbv zeta in H.
  set (unlock := start_of_month (l_now s + le)) in *. clearbody unlock.
  destruct H as (Hd & Hp & Hl & Ha & Hc & Hn & _ & ->).
  destruct HI as [Io Ic Inn Ieb Iel Iet Ien Itl Isu Iba Ilo Ipo].
  constructor; try assumption.
  - intros h t. pose proof (Inn h t). fin.
  - fin.
  - intros e' He'. pose proof (Iel e' He'). fin.
  - fin.
  - intros u Hu. pose proof (Itl u Hu). fin.
  - fin.
  - fin.
  - fin.
Qed.

Lemma unlock_one_nf s c e amt s' : unlock_one s c (e, amt) = Ok s' ->
  0 < e /\ 0 < amt /\ amt <= bal (l_led s) c e /\ e <= l_now s /\ amt <= tl_of s c /\
  s' = set_g (set_led (set_tl s ((c, 0, - amt) :: l_tl s)) ((c, 0, amt) :: (c, e, - amt) :: l_led s))
             (g_add_bmint (g_add_lburn (l_g s) amt) amt).
Proof.
  intros H. unfold unlock_one in H. case_if H Ea.
  apply bind_ok in H. destruct H as (s0 & Hd & H). case_if H Ee.
  apply bind_ok in H. destruct H as (s1 & Ht & H). inversion H; subst; clear H.
  apply s_debit_ok in Hd. destruct Hd as [Hle ->].
  apply tl_sub_ok in Ht. destruct Ht as [Htl ->]. prep_bools. repeat split; auto.
Qed.

Lemma unlock_one_inv b0 s c p s' : c <> UNSTAKE -> Inv b0 s -> unlock_one s c p = Ok s' -> Inv b0 s'.
Proof.
  intros Hc HI H. destruct p as [e amt]. apply unlock_one_nf in H.
  destruct H as (He & Ha & Hle & Hn & Htl & ->).
  destruct HI as [Io Ic Inn Ieb Iel Iet Ien Itl Isu Iba Ilo Ipo].
  constructor; try assumption.
  - intros h t. pose proof (Inn h t). pose proof (Inn c e). fin.
  - fin.
  - intros e' He'. pose proof (Iel e' He'). fin.
  - fin.
  - intros u Hu. pose proof (Itl u Hu). fin.
  - fin.
  - fin.
  - fin.
Qed.

Lemma unlock_all_inv b0 ps : forall s c s', c <> UNSTAKE -> Inv b0 s -> unlock_all s c ps = Ok s' -> Inv b0 s'.
Proof.
  induction ps as [|p t IH]; intros s c s' Hc HI H; simpl in H.
  - inversion H; subst. exact HI.
  - apply bind_ok in H. destruct H as (s1 & H1 & H).
    apply (IH s1 c s' Hc); [eapply unlock_one_inv; eauto | exact H].
Qed.

Lemma ep_unlock_inv b0 s c ps s' o : Inv b0 s -> ep_unlock s c ps = Ok (s', o) -> Inv b0 s'.
Proof.
  intros HI H. unfold ep_unlock in H. case_if H Eu. case_if H Ep. case_if H En.
  apply bind_ok in H. destruct H as (s1 & H1 & H). inversion H; subst; clear H.
  prep_bools. eapply unlock_all_inv; eauto.
Qed.

Lemma ghost_ext a b :
  g_bmint a = g_bmint b -> g_bburn_lock a = g_bburn_lock b -> g_bburn_cancel a = g_bburn_cancel b ->
  g_lmint a = g_lmint b -> g_lburn a = g_lburn b -> g_penburn a = g_penburn b -> g_emit a = g_emit b -> a = b.
Proof. destruct a, b; simpl; intros; subst; reflexivity. Qed.

Lemma lst_ext a b :
  l_cfg a = l_cfg b -> l_now a = l_now b -> l_led a = l_led b -> l_tl a = l_tl b -> l_q a = l_q b ->
  l_fees a = l_fees b -> l_g a = l_g b -> a = b.
Proof. destruct a, b; simpl; intros; subst; reflexivity. Qed.

(** reduce_lock_period_common *)
Lemma reduce_common_nf s c e amt nl s1 un new_lock : reduce_common s c e amt nl = Ok (s1, un, new_lock) ->
  paused s = false /\ l_now s < e /\
  new_lock = match nl with
             | Some le => le - (l_now s + le - start_of_month (l_now s + le))
             | None => 0
             end /\
  new_lock < e - l_now s /\ amt <= tl_of s c /\ 0 < amt /\
  exists pen, penalty_amount (opts s) amt (e - l_now s) new_lock = Ok pen /\ pen < amt /\ un = amt - pen /\
              s1 = set_tl s ((c, 0, - amt) :: l_tl s).
Proof.
  intros H. unfold reduce_common in H. case_if H Ep. case_if H En. cbv zeta in H. case_if H El.
  apply bind_ok in H. destruct H as (s2 & Ht & H).
  apply bind_ok in H. destruct H as (pen & Hpen & H).
  case_if H Ea. case_if H Epa. inversion H; subst; clear H.
  apply tl_sub_ok in Ht. destruct Ht as [Htl ->]. prep_bools.
  repeat split; auto. exists pen. repeat split; auto.
Qed.

Lemma ep_unlock_early_nf s c e amt s' o : ep_unlock_early s c e amt = Ok (s', o) ->
  c <> UNSTAKE /\ paused s = false /\ 0 < e /\ 0 < amt /\ amt <= bal (l_led s) c e /\ l_now s < e /\
  amt <= tl_of s c /\ o = [] /\
  exists pen, penalty_amount (opts s) amt (e - l_now s) 0 = Ok pen /\ pen < amt /\
    s' = set_q (set_g (set_led (set_tl s ((c, 0, - amt) :: l_tl s))
                                ((UNSTAKE, 0, amt - pen) :: (UNSTAKE, e, amt) :: (c, e, - amt) :: l_led s))
                       (g_add_bmint (l_g s) (amt - pen)))
               (l_q s ++ [mkE c (l_now s + c_unbond (l_cfg s)) e amt (amt - pen)]).
Proof.
  intros H. unfold ep_unlock_early in H. case_if H Eu. case_if H Ep. case_if H Ea.
  apply bind_ok in H. destruct H as (s0 & Hd & H).
  apply bind_ok in H. destruct H as ([[s1 un] nl] & Hr & H). inversion H; subst; clear H.
  apply s_debit_ok in Hd. destruct Hd as [Hle ->].
  apply reduce_common_nf in Hr. red_state.
  destruct Hr as (_ & Hn & -> & _ & Htl & _ & pen & Hpen & Hlt & -> & ->). prep_bools.
  repeat split; auto. exists pen. repeat split; auto.
Qed.

Lemma ep_unlock_early_inv b0 s c e amt s' o :
  Inv b0 s -> ep_unlock_early s c e amt = Ok (s', o) -> Inv b0 s'.
Proof.
  intros HI H. apply ep_unlock_early_nf in H.
  destruct H as (Hc & Hp & He & Ha & Hle & Hn & Htl & _ & pen & Hpen & Hlt & ->).
  pose proof HI as [Io Ic Inn Ieb Iel Iet Ien Itl Isu Iba Ilo Ipo].
  destruct (pen_amount (opts s) amt (e - l_now s) 0 pen Io ltac:(lia) ltac:(lia) Hpen) as (pct & _ & _ & _ & Hpr & _).
  constructor; try assumption.
  - intros h t. pose proof (Inn h t). pose proof (Inn c e). fin.
  - fin.
  - intros e' He'. pose proof (Iel e' He'). fin.
  - fin.
  - red_state. apply Forall_app. split; [exact Ien|]. constructor; [|constructor].
    unfold entry_ok. red_state. lia.
  - intros u Hu. pose proof (Itl u Hu). fin.
  - fin.
  - fin.
  - fin.
Qed.

(** burn_penalty *)
Lemma burn_penalty_nf s pen s' : burn_penalty s pen = Ok s' ->
  0 <= c_burn (l_cfg s) <= MAXPU -> 0 <= pen ->
  exists b, is_floor b (pen * c_burn (l_cfg s)) MAXPU /\ 0 <= b <= pen /\
    s' = set_fees (set_g s (g_add_penburn (g_add_lburn (l_g s) pen) b)) (l_fees s + (pen - b)).
Proof.
  intros H Hb Hp. unfold burn_penalty, split_penalty in H. cbv zeta in H.
  apply bind_ok in H. destruct H as ([b rest] & Hs & H). inversion H; subst; clear H.
  apply bind_ok in Hs. destruct Hs as (r & Hr & Hs). inversion Hs; subst; clear Hs.
  apply sub_chk_ok in Hr. destruct Hr as [Hle ->].
  pose proof MAXPU_pos as HM.
  exists (pen * c_burn (l_cfg s) / MAXPU). split; [apply is_floor_div; exact HM|].
  split; [split; [apply div_nonneg; nia | exact Hle]|]. reflexivity.
Qed.

Lemma split_le pen burn : 0 <= pen -> 0 <= burn <= MAXPU -> pen * burn / MAXPU <= pen.
Proof. intros. pose proof MAXPU_pos. apply Z.div_le_upper_bound; [lia | nia]. Qed.

Lemma ep_reduce_nf s c e amt le s' o : ep_reduce s c e amt le = Ok (s', o) ->
  0 <= c_burn (l_cfg s) <= MAXPU -> wf_opts (opts s) -> 0 <= l_now s ->
  let new_unlock := start_of_month (l_now s + le) in
  c <> UNSTAKE /\ paused s = false /\ is_listed (opts s) le = true /\ 0 < e /\ 0 < amt /\
  amt <= bal (l_led s) c e /\ l_now s < e /\ amt <= tl_of s c /\ l_now s < new_unlock /\ new_unlock < e /\
  exists pen b, penalty_amount (opts s) amt (e - l_now s) (new_unlock - l_now s) = Ok pen /\ 0 <= pen < amt /\
    is_floor b (pen * c_burn (l_cfg s)) MAXPU /\ 0 <= b <= pen /\
    o = [new_unlock; amt - pen] /\
    s' = set_led (set_tl (set_fees (set_g s (g_add_penburn (g_add_lburn (g_add_lburn (g_add_lmint (l_g s) (amt - pen)) (amt - pen)) pen) b))
                                   (l_fees s + (pen - b)))
                         ((c, 0, amt - pen) :: (c, 0, - amt) :: l_tl s))
                 ((c, new_unlock, amt - pen) :: (c, e, - amt) :: l_led s).
Proof.
  intros H Hb Hwf Hnow. unfold ep_reduce in H. case_if H Eu. case_if H Ep. case_if H El. case_if H Ea.
  apply bind_ok in H. destruct H as (s0 & Hd & H).
  apply bind_ok in H. destruct H as ([[s1 un] nl] & Hr & H). cbv zeta in H.
  apply bind_ok in H. destruct H as (pen' & Hp' & H). case_if H Enu.
  apply bind_ok in H. destruct H as (burned & Hbu & H).
  apply bind_ok in H. destruct H as (s3 & Hs3 & H). inversion H; subst; clear H.
  apply s_debit_ok in Hd. destruct Hd as [Hle ->].
  apply reduce_common_nf in Hr. red_state.
  destruct Hr as (_ & Hn & Hnl & Hlt & Htl & _ & pen & Hpen & Hplt & -> & ->). prep_bools.
  apply sub_chk_ok in Hp'. destruct Hp' as [_ ->]. apply sub_chk_ok in Hbu. destruct Hbu as [_ ->].
  red_state.
  assert (Hnu : l_now s + nl = start_of_month (l_now s + le)) by lia.
  rewrite Hnu in *. clear Hnl.
  assert (Hnl : nl = start_of_month (l_now s + le) - l_now s) by lia. subst nl.
  unfold tl_of in *. red_state.
  assert (Hn0 : 0 <= start_of_month (l_now s + le) - l_now s) by lia.
  assert (Ha0 : 0 <= amt) by lia.
  destruct (pen_amount (opts s) amt (e - l_now s) (start_of_month (l_now s + le) - l_now s) pen Hwf Hn0 Ha0 Hpen) as (pct & _ & _ & _ & Hpr & _).
  replace (amt - (amt - pen)) with pen in * by lia.
  cbv zeta. repeat split; auto; try lia.
  destruct (0 <? pen) eqn:E0.
  - apply burn_penalty_nf in Hs3; red_state; auto; try lia.
    destruct Hs3 as (b & Hfl & Hbr & ->). exists pen, b. pose proof Hfl as [? ?]. repeat split; auto; try lia; try reflexivity.
  - apply Z.ltb_ge in E0. assert (pen = 0) by lia. subst pen. inversion Hs3; subst; clear Hs3.
    exists 0, 0. pose proof MAXPU_pos.
    split; [exact Hpen|]. split; [lia|]. split; [unfold is_floor; lia|]. split; [lia|]. split; [reflexivity|].
    apply lst_ext; unfold s_credit, tl_add, credit; red_state; try reflexivity; try lia.
    all: try (rewrite Z.sub_0_r; reflexivity).
    apply ghost_ext; red_state; lia.
Qed.

Lemma ep_reduce_inv b0 s c e amt le s' o :
  Inv b0 s -> ep_reduce s c e amt le = Ok (s', o) -> Inv b0 s'.
Proof.
  intros HI H. pose proof HI as [Io Ic Inn Ieb Iel Iet Ien Itl Isu Iba Ilo Ipo].
  apply ep_reduce_nf in H; try tauto. cbv zeta in H.
  set (nu := start_of_month (l_now s + le)) in *. clearbody nu.
  destruct H as (Hc & Hp & Hl & He & Ha & Hle & Hn & Htl & Hnu & Hnue & pen & b & Hpen & Hpr & Hfl & Hbr & _ & ->).
  constructor; try assumption.
  - intros h t. pose proof (Inn h t). pose proof (Inn c e). fin.
  - fin.
  - intros e' He'. pose proof (Iel e' He'). fin.
  - fin.
  - intros u Hu. pose proof (Itl u Hu). fin.
  - fin.
  - fin.
  - fin.
  - fin.
Qed.

(** one iteration of claimUnlockedTokens *)
Lemma claim_one_nf s c en s' : claim_one s c en = Ok s' ->
  0 <= c_burn (l_cfg s) <= MAXPU -> en_un en <= en_lk en -> 0 < en_epoch en ->
  let e := en_epoch en in let un := en_un en in let pen := en_lk en - en_un en in
  (pen = 0 /\ un <= bal (l_led s) UNSTAKE e /\ un <= bal (l_led s) UNSTAKE 0 /\
   s' = set_q (set_led (set_g s (g_add_lburn (l_g s) un))
                       ((c, 0, un) :: (UNSTAKE, 0, - un) :: (UNSTAKE, e, - un) :: l_led s))
              (q_remove_first (l_q s) c))
  \/
  (0 < pen /\ un + pen <= bal (l_led s) UNSTAKE e /\ un <= bal (l_led s) UNSTAKE 0 /\
   exists b, is_floor b (pen * c_burn (l_cfg s)) MAXPU /\ 0 <= b <= pen /\
   s' = set_q (set_led (set_fees (set_g s (g_add_penburn (g_add_lburn (g_add_lburn (l_g s) un) pen) b))
                                 (l_fees s + (pen - b)))
                       ((c, 0, un) :: (UNSTAKE, 0, - un) :: (UNSTAKE, e, - pen) :: (UNSTAKE, e, - un) :: l_led s))
              (q_remove_first (l_q s) c)).
Proof.
  intros H Hb Hle Hep. cbv zeta. unfold claim_one in H.
  apply bind_ok in H. destruct H as (s1 & H1 & H). cbv zeta in H.
  apply bind_ok in H. destruct H as (pen & Hp & H).
  apply bind_ok in H. destruct H as (s3 & H3 & H).
  apply bind_ok in H. destruct H as (s4 & H4 & H). inversion H; subst; clear H.
  apply s_debit_ok in H1. destruct H1 as [L1 ->].
  apply sub_chk_ok in Hp. destruct Hp as [_ ->].
  destruct (0 <? en_lk en - en_un en) eqn:E0.
  - right. apply Z.ltb_lt in E0.
    apply bind_ok in H3. destruct H3 as (s2 & H2 & H3).
    apply s_debit_ok in H2. destruct H2 as [L2 ->].
    apply burn_penalty_nf in H3; red_state; auto; try lia. destruct H3 as (b & Hfl & Hbr & ->).
    apply s_debit_ok in H4. destruct H4 as [L4 ->]. led_norm.
    rewrite !Z.eqb_refl in *. cbn [andb] in *.
    assert (E1 : (en_epoch en =? 0) = (en_epoch en =? 0)) by reflexivity.
    split; [exact E0|]. split; [lia|].
    split.
    { revert L4. destruct (Z.eqb_spec (en_epoch en) 0) as [E|E]; cbn [andb]; intros; lia. }
    exists b. split; [exact Hfl|]. split; [exact Hbr|]. reflexivity.
  - left. apply Z.ltb_ge in E0. inversion H3; subst; clear H3.
    apply s_debit_ok in H4. destruct H4 as [L4 ->]. led_norm.
    rewrite !Z.eqb_refl in *. cbn [andb] in *.
    split; [lia|]. split; [lia|]. split.
    { revert L4. destruct (Z.eqb_spec (en_epoch en) 0) as [E|E]; cbn [andb]; intros; lia. }
    reflexivity.
Qed.

Lemma claim_one_inv b0 s c en s' :
  Inv b0 s -> q_first (l_q s) c = Some en -> claim_one s c en = Ok s' -> Inv b0 s'.
Proof.
  intros HI Hq H. pose proof HI as [Io Ic Inn Ieb Iel Iet Ien Itl Isu Iba Ilo Ipo].
  destruct (q_first_in _ _ _ Hq) as [Hin Hu].
  assert (Hok : entry_ok en) by (rewrite Forall_forall in Ien; apply Ien; exact Hin).
  destruct Hok as ((Hun & Hlk) & Hep & Hne). rewrite Hu in Hne.
  apply claim_one_nf in H; try tauto; try lia. cbv zeta in H.
  pose proof (qsum_remove en_un _ _ _ Hq) as Q1.
  pose proof (qsum_remove en_lk _ _ _ Hq) as Q2.
  assert (Q3 : forall e, qsum (lk_at e) (q_remove_first (l_q s) c) = qsum (lk_at e) (l_q s) - lk_at e en)
    by (intros e; apply qsum_remove; exact Hq).
  destruct H as [(Hp0 & B1 & B2 & ->) | (Hp0 & B1 & B2 & b & Hfl & Hbr & ->)].
  - constructor; try assumption; red_state.
    + intros h t. pose proof (Inn h t). pose proof (Inn UNSTAKE (en_epoch en)). pose proof (Inn UNSTAKE 0). fin.
    + rewrite Q1. fin.
    + intros e' He'. pose proof (Iel e' He'). rewrite Q3. fin.
    + rewrite Q2. fin.
    + apply forall_remove. exact Ien.
    + intros u Hu'. pose proof (Itl u Hu'). fin.
    + rewrite Q1. fin.
    + fin.
    + fin.
  - constructor; try assumption; red_state.
    + intros h t. pose proof (Inn h t). pose proof (Inn UNSTAKE (en_epoch en)). pose proof (Inn UNSTAKE 0). fin.
    + rewrite Q1. fin.
    + intros e' He'. pose proof (Iel e' He'). rewrite Q3. fin.
    + rewrite Q2. fin.
    + apply forall_remove. exact Ien.
    + intros u Hu'. pose proof (Itl u Hu'). fin.
    + rewrite Q1. fin.
    + fin.
    + fin.
    + fin.
Qed.

Lemma claim_loop_inv b0 n : forall s c acc s' o,
  Inv b0 s -> claim_loop n s c acc = Ok (s', o) -> Inv b0 s'.
Proof.
  induction n as [|n IH]; intros s c acc s' o HI H; simpl in H.
  - inversion H; subst. exact HI.
  - destruct (q_first (l_q s) c) as [en|] eqn:Eq; [|inversion H; subst; exact HI].
    destruct (l_now s <? en_release en); [inversion H; subst; exact HI|].
    apply bind_ok in H. destruct H as (s1 & H1 & H).
    eapply (IH s1 c); [eapply claim_one_inv; eauto | exact H].
Qed.

Lemma ep_claim_inv b0 s c s' o : Inv b0 s -> ep_claim s c = Ok (s', o) -> Inv b0 s'.
Proof.
  intros HI H. unfold ep_claim in H. case_if H Eu.
  apply bind_ok in H. destruct H as ([s1 o1] & H1 & H). case_if H En. inversion H; subst; clear H.
  eapply claim_loop_inv; eauto.
Qed.

(** one iteration of cancelUnbond *)
Lemma cancel_one_nf s c en s' : cancel_one s c en = Ok s' ->
  en_un en <= bal (l_led s) UNSTAKE 0 /\
  en_lk en <= bal ((UNSTAKE, 0, - en_un en) :: l_led s) UNSTAKE (en_epoch en) /\
  s' = set_q (set_led (set_g (set_tl s ((c, 0, en_lk en) :: l_tl s)) (g_add_bburn_cancel (l_g s) (en_un en)))
                      ((c, en_epoch en, en_lk en) :: (UNSTAKE, en_epoch en, - en_lk en) :: (UNSTAKE, 0, - en_un en) :: l_led s))
             (q_remove_first (l_q s) c).
Proof.
  intros H. unfold cancel_one in H. cbv zeta in H.
  apply bind_ok in H. destruct H as (s2 & H2 & H).
  apply bind_ok in H. destruct H as (s4 & H4 & H). inversion H; subst; clear H.
  apply s_debit_ok in H2. destruct H2 as [L2 ->].
  apply s_debit_ok in H4. destruct H4 as [L4 ->].
  unfold tl_add, credit in *. red_state. repeat split; auto.
Qed.

Lemma cancel_one_inv b0 s c en s' :
  Inv b0 s -> q_first (l_q s) c = Some en -> cancel_one s c en = Ok s' -> Inv b0 s'.
Proof.
  intros HI Hq H. pose proof HI as [Io Ic Inn Ieb Iel Iet Ien Itl Isu Iba Ilo Ipo].
  destruct (q_first_in _ _ _ Hq) as [Hin Hu].
  assert (Hok : entry_ok en) by (rewrite Forall_forall in Ien; apply Ien; exact Hin).
  destruct Hok as ((Hun & Hlk) & Hep & Hne). rewrite Hu in Hne.
  apply cancel_one_nf in H. destruct H as (B1 & B2 & ->).
  pose proof (qsum_remove en_un _ _ _ Hq) as Q1.
  pose proof (qsum_remove en_lk _ _ _ Hq) as Q2.
  assert (Q3 : forall e, qsum (lk_at e) (q_remove_first (l_q s) c) = qsum (lk_at e) (l_q s) - lk_at e en)
    by (intros e; apply qsum_remove; exact Hq).
  rewrite bal_cons in B2.
  assert (B2' : en_lk en <= bal (l_led s) UNSTAKE (en_epoch en)).
  { revert B2. destruct (Z.eqb_spec 0 (en_epoch en)); rewrite ?Z.eqb_refl; cbn [andb]; intros; lia. }
  clear B2.
  constructor; try assumption; red_state.
  + intros h t. pose proof (Inn h t). pose proof (Inn UNSTAKE (en_epoch en)). pose proof (Inn UNSTAKE 0). fin.
  + rewrite Q1. fin.
  + intros e' He'. pose proof (Iel e' He'). rewrite Q3. fin.
  + rewrite Q2. fin.
  + apply forall_remove. exact Ien.
  + intros u Hu'. pose proof (Itl u Hu'). fin.
  + rewrite Q1. fin.
  + fin.
  + fin.
Qed.

Lemma cancel_loop_inv b0 n : forall s c acc s' o,
  Inv b0 s -> cancel_loop n s c acc = Ok (s', o) -> Inv b0 s'.
Proof.
  induction n as [|n IH]; intros s c acc s' o HI H; simpl in H.
  - inversion H; subst. exact HI.
  - destruct (q_first (l_q s) c) as [en|] eqn:Eq; [|inversion H; subst; exact HI].
    apply bind_ok in H. destruct H as (s1 & H1 & H).
    eapply (IH s1 c); [eapply cancel_one_inv; eauto | exact H].
Qed.

Lemma ep_cancel_inv b0 s c s' o : Inv b0 s -> ep_cancel s c = Ok (s', o) -> Inv b0 s'.
Proof.
  intros HI H. unfold ep_cancel in H. case_if H Eu. case_if H En.
  apply bind_ok in H. destruct H as ([s1 o1] & H1 & H). case_if H Ep. inversion H; subst; clear H.
  eapply cancel_loop_inv; eauto.
Qed.

(** administration and time *)
Lemma admin_inv b0 s s' (c' : cfg) :
  Inv b0 s -> wf_opts (c_opts c') -> 0 <= c_burn c' <= MAXPU -> c_unbond c' = c_unbond (l_cfg s) ->
  s' = set_cfg s c' -> Inv b0 s'.
Proof.
  intros [Io Ic Inn Ieb Iel Iet Ien Itl Isu Iba Ilo Ipo] Hw Hb Hu ->.
  constructor; try assumption; unfold opts; red_state; try assumption. lia.
Qed.

Lemma step_inv b0 s op s' o : Inv b0 s -> step s op = Ok (s', o) -> Inv b0 s'.
Proof.
  intros HI H. destruct op; simpl in H.
  - eapply ep_lock_inv; eauto.
  - eapply ep_extend_inv; eauto.
  - eapply ep_lock_virtual_inv; eauto.
  - eapply ep_unlock_inv; eauto.
  - eapply ep_unlock_early_inv; eauto.
  - eapply ep_reduce_inv; eauto.
  - eapply ep_claim_inv; eauto.
  - eapply ep_cancel_inv; eauto.
  - unfold ep_add_options in H. case_if H Ec. apply bind_ok in H. destruct H as (l & Hl & H).
    inversion H; subst; clear H. pose proof HI as [Io Ic _ _ _ _ _ _ _ _ _ _].
    eapply admin_inv; [exact HI | | | | reflexivity]; red_state.
    + eapply add_lock_options_wf; [right; exact Io | exact Hl].
    + tauto.
    + reflexivity.
  - unfold ep_set_burn in H. case_if H Ec. case_if H Eb. inversion H; subst; clear H.
    pose proof HI as [Io Ic _ _ _ _ _ _ _ _ _ _]. prep_bools.
    eapply admin_inv; [exact HI | | | | reflexivity]; red_state; auto; try lia; try tauto.
  - unfold ep_set_paused in H. case_if H Ec. inversion H; subst; clear H.
    pose proof HI as [Io Ic _ _ _ _ _ _ _ _ _ _].
    eapply admin_inv; [exact HI | | | | reflexivity]; red_state; auto; try lia; try tauto.
  - unfold ep_advance in H. case_if H Ed. inversion H; subst; clear H. apply Z.leb_le in Ed.
    destruct HI as [Io Ic Inn Ieb Iel Iet Ien Itl Isu Iba Ilo Ipo].
    constructor; try assumption; red_state; try assumption. lia.
Qed.

Lemma step_total_inv b0 s op : Inv b0 s -> Inv b0 (step_total s op).
Proof.
  intros HI. unfold step_total. destruct (step s op) as [[s' o]|] eqn:E; [|exact HI].
  eapply step_inv; eauto.
Qed.

Lemma run_inv b0 ops : forall s, Inv b0 s -> Inv b0 (run s ops).
Proof.
  unfold run. induction ops as [|op t IH]; intros s HI; simpl; [exact HI|].
  apply IH. apply step_total_inv. exact HI.
Qed.

Definition funds_total (funds : list (Z * Z)) : Z := fold_right (fun ub acc => snd ub + acc) 0 funds.

Definition init_led (funds : list (Z * Z)) : ledger := map (fun ub => (fst ub, 0, snd ub)) funds.

Lemma init_tot_zero f funds : (forall h, f h 0 = false) -> tot f (init_led funds) = 0.
Proof.
  intros Hf. induction funds as [|[u b] r IH]; [reflexivity|].
  unfold init_led in *. simpl map. rewrite tot_cons, IH, Hf. reflexivity.
Qed.

Lemma init_tot_base funds : tot is_base (init_led funds) = funds_total funds.
Proof.
  induction funds as [|[u b] r IH]; [reflexivity|].
  unfold init_led in *. simpl map. rewrite tot_cons, IH. reflexivity.
Qed.

Lemma init_bal_nonneg funds : Forall (fun ub => 0 <= snd ub /\ fst ub <> UNSTAKE) funds ->
  forall h t, 0 <= bal (init_led funds) h t.
Proof.
  intros Hf h t. induction funds as [|[u b] r IH]; [unfold bal; simpl; lia|].
  inversion Hf as [|? ? [Hb _] Hr]; subst. specialize (IH Hr).
  unfold init_led in *. simpl map. rewrite bal_cons. simpl in Hb. destruct ((u =? h) && (0 =? t)); lia.
Qed.

Lemma init_bal_unstake funds : Forall (fun ub => 0 <= snd ub /\ fst ub <> UNSTAKE) funds ->
  bal (init_led funds) UNSTAKE 0 = 0.
Proof.
  intros Hf. induction funds as [|[u b] r IH]; [reflexivity|].
  inversion Hf as [|? ? [_ Hu] Hr]; subst. specialize (IH Hr).
  unfold init_led in *. simpl map. rewrite bal_cons, IH. simpl in Hu.
  destruct (Z.eqb_spec u UNSTAKE); [contradiction | reflexivity].
Qed.

Lemma init_inv os unbond burn c now funds :
  init_cfg os unbond burn = Ok c -> 0 <= now -> Forall (fun ub => 0 <= snd ub /\ fst ub <> UNSTAKE) funds ->
  Inv (funds_total funds) (init_state c now funds).
Proof.
  intros H Hn Hf. unfold init_cfg in H. apply bind_ok in H. destruct H as (l & Hl & H).
  case_if H E1. case_if H E2. inversion H; subst; clear H. prep_bools.
  unfold init_state. fold (init_led funds).
  constructor; unfold opts, base_supply, locked_supply, held_locked, tl_of; red_state.
  - eapply add_lock_options_wf; [left; reflexivity | exact Hl].
  - lia.
  - apply init_bal_nonneg. exact Hf.
  - rewrite init_bal_unstake by exact Hf. reflexivity.
  - intros e He. unfold bal. rewrite init_tot_zero; [reflexivity|].
    intros h. destruct (Z.eqb_spec 0 e); [lia | apply andb_false_r].
  - rewrite init_tot_zero; [reflexivity | intros h; apply andb_false_r].
  - constructor.
  - intros u Hu. rewrite init_tot_zero; [reflexivity | intros h; apply andb_false_r].
  - rewrite init_tot_zero; [simpl; lia | reflexivity].
  - rewrite init_tot_base. lia.
  - rewrite init_tot_zero; [simpl; lia | reflexivity].
  - lia.
Qed.

(** ================================================================== supply ledger, escrow *)
Lemma qsum_le f g q : Forall (fun en => f en <= g en) q -> qsum f q <= qsum g q.
Proof. induction 1; simpl; lia. Qed.

(** base asset minted by the unlock paths never exceeds base asset burned by the lock paths
    (lockTokens, and cancelUnbond taking an early unlock back) plus LOCKED emitted by lockVirtual *)
Lemma supply_ledger b0 s : Inv b0 s ->
  g_bmint (l_g s) <= g_bburn_lock (l_g s) + g_bburn_cancel (l_g s) + g_emit (l_g s) /\
  base_supply s <= b0 + g_emit (l_g s).
Proof.
  intros [Io Ic Inn Ieb Iel Iet Ien Itl Isu Iba Ilo Ipo].
  assert (H1 : held_locked s UNSTAKE <= locked_supply s).
  { unfold held_locked, locked_supply. apply tot_le; [exact Inn|].
    intros h t E. apply andb_prop in E. unfold is_locked. tauto. }
  assert (H2 : qsum en_un (l_q s) <= qsum en_lk (l_q s)).
  { apply qsum_le. eapply Forall_impl; [|exact Ien]. intros en (A & _). lia. }
  lia.
Qed.

Lemma escrow_backed b0 s : Inv b0 s ->
  bal (l_led s) UNSTAKE 0 = qsum en_un (l_q s) /\
  (forall e, 0 < e -> bal (l_led s) UNSTAKE e = qsum (lk_at e) (l_q s)) /\
  Forall (fun en => 0 < en_un en <= en_lk en) (l_q s).
Proof.
  intros [Io Ic Inn Ieb Iel Iet Ien Itl Isu Iba Ilo Ipo]. split; [exact Ieb|]. split; [exact Iel|].
  eapply Forall_impl; [|exact Ien]. intros en (A & _). exact A.
Qed.

(** ================================================================== lock *)
Lemma som_bounds x : start_of_month x <= x < start_of_month x + EPOCHS_PER_MONTH /\
                     start_of_month x mod EPOCHS_PER_MONTH = 0.
Proof.
  pose proof penalty_params as (_ & _ & Hm & _). unfold start_of_month.
  pose proof (Z.mod_pos_bound x EPOCHS_PER_MONTH Hm). split; [lia|].
  rewrite Zminus_mod, Zmod_mod, Z.sub_diag. apply Zmod_0_l.
Qed.

Definition delta (f : Z -> Z -> bool) (h t a : Z) : Z := if f h t then a else 0.

Lemma lock_char s c amt le dest s' o : ep_lock s c amt le dest = Ok (s', o) ->
  exists unlock,
    unlock = start_of_month (l_now s + le) /\ is_listed (opts s) le = true /\
    l_now s < unlock <= l_now s + le /\ l_now s + le < unlock + EPOCHS_PER_MONTH /\ unlock mod EPOCHS_PER_MONTH = 0 /\
    0 < amt /\ o = [unlock; amt] /\
    (* the caller's base asset is burned, the destination receives the same amount of LOCKED *)
    (forall f, tot f (l_led s') = tot f (l_led s) - delta f c 0 amt + delta f dest unlock amt) /\
    g_bburn_lock (l_g s') = g_bburn_lock (l_g s) + amt /\ g_lmint (l_g s') = g_lmint (l_g s) + amt /\
    g_bmint (l_g s') = g_bmint (l_g s) /\ g_lburn (l_g s') = g_lburn (l_g s) /\
    l_q s' = l_q s /\ l_fees s' = l_fees s.
Proof.
  intros H. apply ep_lock_nf in H. cbv zeta in H.
  destruct H as (Hc & Hd & Hp & Hl & Ha & Hle & Hn & -> & ->).
  exists (start_of_month (l_now s + le)). pose proof (som_bounds (l_now s + le)) as [B1 B2].
  split; [reflexivity|]. split; [exact Hl|]. split; [lia|]. split; [lia|]. split; [exact B2|].
  split; [exact Ha|]. split; [reflexivity|]. red_state.
  split; [intros f; rewrite !tot_cons; unfold delta; destruct (f c 0), (f dest (start_of_month (l_now s + le))); lia|].
  repeat split; reflexivity.
Qed.

(** ================================================================== unlock *)
Definition pay_delta (f : Z -> Z -> bool) (c : Z) (ps : list (Z * Z)) : Z :=
  fold_right (fun p acc => delta f c 0 (snd p) - delta f c (fst p) (snd p) + acc) 0 ps.

Definition same_frame (s s' : lst) : Prop :=
  l_cfg s' = l_cfg s /\ l_now s' = l_now s /\ l_q s' = l_q s /\ l_fees s' = l_fees s.

Lemma unlock_all_char ps : forall s c s', unlock_all s c ps = Ok s' ->
  Forall (fun p => 0 < fst p <= l_now s /\ 0 < snd p) ps /\
  (forall f, tot f (l_led s') = tot f (l_led s) + pay_delta f c ps) /\
  tl_of s' c = tl_of s c - pay_total ps /\
  g_bmint (l_g s') = g_bmint (l_g s) + pay_total ps /\ g_lburn (l_g s') = g_lburn (l_g s) + pay_total ps /\
  g_lmint (l_g s') = g_lmint (l_g s) /\ g_bburn_lock (l_g s') = g_bburn_lock (l_g s) /\
  same_frame s s'.
Proof.
  induction ps as [|[e amt] t IH]; intros s c s' H; simpl in H.
  - inversion H; subst. split; [constructor|]. split; [intros; simpl; lia|]. unfold pay_total, same_frame. simpl.
    repeat split; lia.
  - apply bind_ok in H. destruct H as (s1 & H1 & H). apply unlock_one_nf in H1.
    destruct H1 as (He & Ha & Hle & Hn & Htl & ->). apply IH in H. clear IH. red_state.
    destruct H as (HF & Ht & Htl' & G1 & G2 & G3 & G4 & (F1 & F2 & F3 & F4)). red_state.
    split; [constructor; [simpl; lia | exact HF]|].
    split; [intros f; rewrite Ht, !tot_cons; unfold pay_delta; cbn [fold_right fst snd]; unfold delta; destruct (f c 0), (f c e); lia|].
    unfold pay_total in *. cbn [fold_right snd]. unfold tl_of in *. red_state. rewrite bal_cons in Htl'.
    rewrite !Z.eqb_refl in Htl'. cbn [andb] in Htl'.
    unfold same_frame. red_state. repeat split; auto; lia.
Qed.

Lemma unlock_char s c ps s' o : ep_unlock s c ps = Ok (s', o) ->
  c <> UNSTAKE /\ paused s = false /\ ps <> [] /\
  (* time lock: every payment has reached its unlock epoch *)
  Forall (fun p => 0 < fst p <= l_now s /\ 0 < snd p) ps /\
  (* 1:1 *)
  o = [pay_total ps] /\
  (forall f, tot f (l_led s') = tot f (l_led s) + pay_delta f c ps) /\
  g_bmint (l_g s') = g_bmint (l_g s) + pay_total ps /\ g_lburn (l_g s') = g_lburn (l_g s) + pay_total ps /\
  same_frame s s'.
Proof.
  intros H. unfold ep_unlock in H. case_if H Eu. case_if H Ep. case_if H En.
  apply bind_ok in H. destruct H as (s1 & H1 & H). inversion H; subst; clear H.
  apply unlock_all_char in H1. prep_bools.
  destruct H1 as (HF & Ht & _ & G1 & G2 & _ & _ & Hfr).
  split; [exact Eu|]. split; [exact Ep|]. split; [destruct ps; [discriminate | discriminate]|].
  repeat split; auto; apply Hfr.
Qed.

(** a payment that has not reached its unlock epoch makes unlockTokens fail *)
Lemma unlock_guard s c ps e amt : In (e, amt) ps -> l_now s < e -> is_ok (ep_unlock s c ps) = false.
Proof.
  intros Hin Hlt. destruct (ep_unlock s c ps) as [[s' o]|] eqn:E; [|reflexivity].
  apply unlock_char in E. destruct E as (_ & _ & _ & HF & _).
  rewrite Forall_forall in HF. specialize (HF _ Hin). simpl in HF. lia.
Qed.

(** at or after the unlock epoch, unlocking what one holds succeeds and pays 1:1 *)
Lemma unlock_live b0 s c e amt : Inv b0 s -> c <> UNSTAKE -> paused s = false ->
  0 < e <= l_now s -> 0 < amt <= bal (l_led s) c e ->
  exists s', ep_unlock s c [(e, amt)] = Ok (s', [amt]) /\ bal (l_led s') c 0 = bal (l_led s) c 0 + amt.
Proof.
  intros HI Hc Hp He Ha. pose proof HI as [Io Ic Inn Ieb Iel Iet Ien Itl Isu Iba Ilo Ipo].
  assert (Htl : amt <= tl_of s c).
  { rewrite (Itl c Hc). unfold held_locked.
    assert (Hle : bal (l_led s) c e <= tot (fun h' t => (h' =? c) && (0 <? t)) (l_led s)).
    { unfold bal. apply tot_le; [exact Inn|]. intros h t E. apply andb_prop in E. destruct E as [E1 E2].
      apply Z.eqb_eq in E2. subst t. rewrite E1. simpl. apply Z.ltb_lt. lia. }
    lia. }
  unfold ep_unlock, is_user. destruct (Z.eqb_spec c UNSTAKE); [contradiction|]. rewrite Hp. simpl.
  unfold unlock_one, s_debit, debit.
  assert (E1 : (0 <? e) && (0 <? amt) = true) by (apply andb_true_intro; split; apply Z.ltb_lt; lia).
  assert (E2 : (amt <=? bal (l_led s) c e) = true) by (apply Z.leb_le; lia).
  assert (E3 : (e <=? l_now s) = true) by (apply Z.leb_le; lia).
  rewrite E1, E2. cbn [bind]. red_state. rewrite E3. unfold tl_sub, sub_chk.
  unfold tl_of in *. red_state.
  assert (E4 : (bal (l_tl s) c 0 <? amt) = false) by (apply Z.ltb_ge; lia). rewrite E4. cbn [bind].
  eexists. split.
  - unfold pay_total. simpl. replace (amt + 0) with amt by lia. reflexivity.
  - led_norm. rewrite !Z.eqb_refl. destruct (Z.eqb_spec e 0); [lia|]. cbn [andb]. lia.
Qed.

(** ================================================================== early unlock *)
Lemma penalty_amount_full l amt x pen : penalty_amount l amt x 0 = Ok pen ->
  exists pct, pct_full l x = Ok pct /\ pen = amt * pct / MAXP.
Proof.
  unfold penalty_amount, penalty_pct. intros H. apply bind_ok in H. destruct H as (pct & Hp & H).
  inversion H; subst; clear H. case_if Hp E1. cbv iota in Hp. rewrite Z.eqb_refl in Hp. eauto.
Qed.

Lemma penalty_amount_partial l amt x y pen : y <> 0 -> penalty_amount l amt x y = Ok pen ->
  exists pct, pct_partial l x y = Ok pct /\ pen = amt * pct / MAXP.
Proof.
  unfold penalty_amount, penalty_pct. intros Hy H. apply bind_ok in H. destruct H as (pct & Hp & H).
  inversion H; subst; clear H. case_if Hp E1. case_if Hp E2.
  destruct (Z.eqb_spec y 0); [contradiction|]. eauto.
Qed.

Lemma unlock_early_char b0 s c e amt s' o : Inv b0 s -> ep_unlock_early s c e amt = Ok (s', o) ->
  exists pct pen,
    c <> UNSTAKE /\ l_now s < e /\ 0 < amt /\
    (* the documented penalty for the remaining time *)
    pct_full (opts s) (e - l_now s) = Ok pct /\ 0 <= pct <= MAXP /\
    is_floor pen (amt * pct) MAXP /\ 0 <= pen < amt /\
    (* nothing is released now: payment and remainder are parked in the unstake contract *)
    o = [] /\
    l_q s' = l_q s ++ [mkE c (l_now s + c_unbond (l_cfg s)) e amt (amt - pen)] /\
    (forall f, tot f (l_led s') = tot f (l_led s) - delta f c e amt + delta f UNSTAKE e amt + delta f UNSTAKE 0 (amt - pen)) /\
    bal (l_led s') c 0 = bal (l_led s) c 0 /\
    g_bmint (l_g s') = g_bmint (l_g s) + (amt - pen) /\ g_lburn (l_g s') = g_lburn (l_g s) /\
    g_lmint (l_g s') = g_lmint (l_g s) /\ l_fees s' = l_fees s /\ l_cfg s' = l_cfg s /\ l_now s' = l_now s.
Proof.
  intros HI H. apply ep_unlock_early_nf in H.
  destruct H as (Hc & Hp & He & Ha & Hle & Hn & Htl & -> & pen & Hpen & Hlt & ->).
  pose proof HI as [Io Ic Inn Ieb Iel Iet Ien Itl Isu Iba Ilo Ipo].
  destruct (pen_amount (opts s) amt (e - l_now s) 0 pen Io ltac:(lia) ltac:(lia) Hpen) as (pct & Hpct & Hr & Hfl & Hpr & _).
  destruct (penalty_amount_full _ _ _ _ Hpen) as (pct' & Hpf & _).
  assert (pct' = pct).
  { unfold penalty_pct in Hpct. case_if Hpct E1. cbv iota in Hpct. rewrite Z.eqb_refl in Hpct. congruence. }
  subst pct'.
  exists pct, pen. red_state.
  split; [exact Hc|]. split; [exact Hn|]. split; [exact Ha|]. split; [exact Hpf|]. split; [exact Hr|].
  split; [exact Hfl|]. split; [lia|]. split; [reflexivity|]. split; [reflexivity|].
  split; [intros f; rewrite !tot_cons; unfold delta; destruct (f c e), (f UNSTAKE e), (f UNSTAKE 0); lia|].
  split.
  { rewrite !bal_cons. destruct (Z.eqb_spec UNSTAKE c); [congruence|]. destruct (Z.eqb_spec e 0); [lia|].
    cbn [andb]. rewrite Z.eqb_refl. cbn [andb]. lia. }
  repeat split; reflexivity.
Qed.

(** ================================================================== split of the penalty *)
Lemma split_char burn pen b rest : split_penalty burn pen = Ok (b, rest) -> 0 <= burn <= MAXPU -> 0 <= pen ->
  is_floor b (pen * burn) MAXPU /\ rest = pen - b /\ 0 <= b <= pen /\ 0 <= rest.
Proof.
  intros H Hb Hp. unfold split_penalty in H. cbv zeta in H. apply bind_ok in H. destruct H as (r & Hr & H).
  inversion H; subst; clear H. apply sub_chk_ok in Hr. destruct Hr as [Hle ->].
  pose proof MAXPU_pos as HM. split; [apply is_floor_div; exact HM|]. split; [reflexivity|].
  split; [split; [apply div_nonneg; nia | exact Hle] | lia].
Qed.

(** for valid arguments the split never fails *)
Lemma split_total burn pen : 0 <= burn <= MAXPU -> 0 <= pen ->
  split_penalty burn pen = Ok (pen * burn / MAXPU, pen - pen * burn / MAXPU).
Proof.
  intros Hb Hp. unfold split_penalty. cbv zeta. unfold sub_chk.
  pose proof (split_le pen burn Hp Hb).
  assert (E : (pen <? pen * burn / MAXPU) = false) by (apply Z.ltb_ge; lia). rewrite E. reflexivity.
Qed.

(** ================================================================== reduce *)
Lemma reduce_char b0 s c e amt le s' o : Inv b0 s -> ep_reduce s c e amt le = Ok (s', o) ->
  exists nu po pn pct pen b,
    c <> UNSTAKE /\ is_listed (opts s) le = true /\ 0 < amt /\
    nu = start_of_month (l_now s + le) /\ l_now s < nu < e /\
    (* (p_old - p_new) / (1 - p_new) in basis points, then floor(amount * p / MAXP) *)
    pct_full (opts s) (e - l_now s) = Ok po /\ pct_full (opts s) (nu - l_now s) = Ok pn /\
    0 <= pn <= po /\ po <= MAXP /\ pn < MAXP /\
    is_floor pct ((po - pn) * MAXP) (MAXP - pn) /\ 0 <= pct <= MAXP /\
    is_floor pen (amt * pct) MAXP /\ 0 <= pen < amt /\
    (* the penalty is split at once: [b] burned, the rest to the fees collector *)
    is_floor b (pen * c_burn (l_cfg s)) MAXPU /\ 0 <= b <= pen /\
    l_fees s' = l_fees s + (pen - b) /\ g_penburn (l_g s') = g_penburn (l_g s) + b /\
    (* the caller gets amount - penalty LOCKED with the shorter period; no base asset appears *)
    o = [nu; amt - pen] /\
    (forall f, tot f (l_led s') = tot f (l_led s) - delta f c e amt + delta f c nu (amt - pen)) /\
    g_bmint (l_g s') = g_bmint (l_g s) /\ g_lmint (l_g s') = g_lmint (l_g s) + (amt - pen) /\
    g_lburn (l_g s') = g_lburn (l_g s) + amt /\ l_q s' = l_q s /\ l_cfg s' = l_cfg s /\ l_now s' = l_now s.
Proof.
  intros HI H. pose proof HI as [Io Ic Inn Ieb Iel Iet Ien Itl Isu Iba Ilo Ipo].
  apply ep_reduce_nf in H; try tauto. cbv zeta in H.
  set (nu := start_of_month (l_now s + le)) in *.
  destruct H as (Hc & Hp & Hl & He & Ha & Hle & Hn & Htl & Hnu & Hnue & pen & b & Hpen & Hpr & Hfl & Hbr & -> & ->).
  assert (Hy : nu - l_now s <> 0) by lia.
  destruct (penalty_amount_partial _ _ _ _ _ Hy Hpen) as (pct & Hpp & Hpe).
  pose proof penalty_params as (HM & _ & Hm & Hmy).
  assert (Hel : e - l_now s <= e_last (opts s)).
  { destruct (Z_le_gt_dec (e - l_now s) (e_last (opts s))) as [A|A]; [exact A|].
    pose proof (pen_fails_beyond (opts s) (e - l_now s) ltac:(lia)) as Hf.
    unfold pct_partial in Hpp. destruct (pct_full (opts s) (e - l_now s)); [discriminate | cbn [bind] in Hpp; discriminate]. }
  destruct (pen_partial (opts s) (e - l_now s) (nu - l_now s) Io ltac:(lia) ltac:(lia) Hel)
    as (po & pn & q & Hpo & Hpn & R1 & R2 & R3 & Hq & Hqf & Hqr).
  rewrite Hpp in Hq. inversion Hq; subst q; clear Hq.
  exists nu, po, pn, pct, pen, b. red_state.
  split; [exact Hc|]. split; [exact Hl|]. split; [exact Ha|]. split; [reflexivity|]. split; [lia|].
  split; [exact Hpo|]. split; [exact Hpn|]. split; [exact R1|]. split; [exact R2|]. split; [exact R3|].
  split; [exact Hqf|]. split; [exact Hqr|]. split; [rewrite Hpe; apply is_floor_div; exact HM|]. split; [exact Hpr|].
  split; [exact Hfl|]. split; [exact Hbr|]. split; [reflexivity|]. split; [reflexivity|]. split; [reflexivity|].
  split; [intros f; rewrite !tot_cons; unfold delta; destruct (f c e), (f c nu); lia|].
  repeat split; try reflexivity. lia.
Qed.

(** ================================================================== per-user queues *)
Lemma q_first_view q c : q_first q c = hd_error (filter (fun en => en_user en =? c) q).
Proof. induction q as [|a t IH]; simpl; [reflexivity|]. destruct (en_user a =? c); [reflexivity | exact IH]. Qed.

Lemma view_remove_same q c :
  filter (fun en => en_user en =? c) (q_remove_first q c) = tl (filter (fun en => en_user en =? c) q).
Proof.
  induction q as [|a t IH]; simpl; [reflexivity|]. destruct (en_user a =? c) eqn:E; [reflexivity|].
  simpl. rewrite E. exact IH.
Qed.

Lemma view_remove_other q c u : u <> c ->
  filter (fun en => en_user en =? u) (q_remove_first q c) = filter (fun en => en_user en =? u) q.
Proof.
  intros Hne. induction q as [|a t IH]; simpl; [reflexivity|]. destruct (en_user a =? c) eqn:E.
  - apply Z.eqb_eq in E. destruct (Z.eqb_spec (en_user a) u); [congruence | reflexivity].
  - simpl. rewrite IH. reflexivity.
Qed.

(** ================================================================== claim *)
Definition pen_of (en : uentry) : Z := en_lk en - en_un en.
Definition burn_of (burn : Z) (en : uentry) : Z := pen_of en * burn / MAXPU.
(** ledger effect of paying one entry of user c: the remainder leaves the escrow for the user, the
    LOCKED tokens of the entry leave the escrow (burned, or burned by the collector) *)
Definition pay_entry (f : Z -> Z -> bool) (c : Z) (en : uentry) : Z :=
  delta f c 0 (en_un en) - delta f UNSTAKE 0 (en_un en) - delta f UNSTAKE (en_epoch en) (en_lk en).

Record claim_frame (s s' : lst) : Prop := {
  cf_cfg : l_cfg s' = l_cfg s; cf_now : l_now s' = l_now s; cf_tl : l_tl s' = l_tl s;
  cf_bmint : g_bmint (l_g s') = g_bmint (l_g s); cf_lmint : g_lmint (l_g s') = g_lmint (l_g s);
  cf_bl : g_bburn_lock (l_g s') = g_bburn_lock (l_g s); cf_bc : g_bburn_cancel (l_g s') = g_bburn_cancel (l_g s);
  cf_emit : g_emit (l_g s') = g_emit (l_g s)
}.

Lemma claim_one_char s c en s' : claim_one s c en = Ok s' ->
  0 <= c_burn (l_cfg s) <= MAXPU -> en_un en <= en_lk en -> 0 < en_epoch en ->
  claim_frame s s' /\ l_q s' = q_remove_first (l_q s) c /\
  (forall f, tot f (l_led s') = tot f (l_led s) + pay_entry f c en) /\
  l_fees s' = l_fees s + (pen_of en - burn_of (c_burn (l_cfg s)) en) /\
  g_penburn (l_g s') = g_penburn (l_g s) + burn_of (c_burn (l_cfg s)) en /\
  g_lburn (l_g s') = g_lburn (l_g s) + en_lk en.
Proof.
  intros H Hb Hle Hep. apply claim_one_nf in H; auto. cbv zeta in H. pose proof MAXPU_pos as HM.
  unfold burn_of, pen_of, pay_entry.
  destruct H as [(Hp0 & B1 & B2 & ->) | (Hp0 & B1 & B2 & b & Hfl & Hbr & ->)]; red_state.
  - rewrite Hp0. rewrite Z.mul_0_l, Z.div_0_l by lia.
    split; [constructor; reflexivity|]. split; [reflexivity|].
    split; [intros f; rewrite !tot_cons; unfold delta; replace (en_lk en) with (en_un en) by lia;
            destruct (f c 0), (f UNSTAKE 0), (f UNSTAKE (en_epoch en)); lia|].
    repeat split; lia.
  - apply is_floor_unique in Hfl; [|exact HM]. subst b.
    split; [constructor; reflexivity|]. split; [reflexivity|].
    split; [intros f; rewrite !tot_cons; unfold delta;
            destruct (f c 0), (f UNSTAKE 0), (f UNSTAKE (en_epoch en)); lia|].
    repeat split; lia.
Qed.

(** the entries claimUnlockedTokens pays: from the front of the caller's queue, at most n, stopping
    at the first one whose unbond period has not ended *)
Fixpoint claimable (n : nat) (now : Z) (q : list uentry) : list uentry :=
  match n with
  | O => []
  | S n' => match q with
            | [] => []
            | en :: t => if now <? en_release en then [] else en :: claimable n' now t
            end
  end.

Lemma claimable_spec n now : forall q,
  let paid := claimable n now q in
  paid = firstn (length paid) q /\ (length paid <= n)%nat /\
  Forall (fun en => en_release en <= now) paid /\
  ((length paid < n)%nat -> match nth_error q (length paid) with Some en => now < en_release en | None => True end).
Proof.
  induction n as [|n IH]; intros q; cbv zeta; simpl.
  - split; [reflexivity|]. split; [lia|]. split; [constructor | lia].
  - destruct q as [|en t]; simpl; [split; [reflexivity|]; split; [lia|]; split; [constructor | auto]|].
    destruct (now <? en_release en) eqn:E; simpl.
    + apply Z.ltb_lt in E. split; [reflexivity|]. split; [lia|]. split; [constructor | auto].
    + apply Z.ltb_ge in E. specialize (IH t). cbv zeta in IH. destruct IH as (A & B & C & D).
      split; [f_equal; exact A|]. split; [lia|]. split; [constructor; assumption|].
      intros Hlt. apply D. lia.
Qed.

Lemma frame_trans s1 s2 s3 : claim_frame s1 s2 -> claim_frame s2 s3 -> claim_frame s1 s3.
Proof. intros [] []. constructor; congruence. Qed.

Lemma frame_refl s : claim_frame s s.
Proof. constructor; reflexivity. Qed.

Definition uview (s : lst) (c : Z) : list uentry := view_queue s c.

Lemma claim_loop_char b0 n : forall s c acc s' o,
  Inv b0 s -> claim_loop n s c acc = Ok (s', o) ->
  let paid := claimable n (l_now s) (view_queue s c) in
  let burn := c_burn (l_cfg s) in
  o = acc ++ map en_un paid /\
  view_queue s' c = skipn (length paid) (view_queue s c) /\
  (forall u, u <> c -> view_queue s' u = view_queue s u) /\
  (forall f, tot f (l_led s') = tot f (l_led s) + qsum (pay_entry f c) paid) /\
  l_fees s' = l_fees s + qsum (fun en => pen_of en - burn_of burn en) paid /\
  g_penburn (l_g s') = g_penburn (l_g s) + qsum (burn_of burn) paid /\
  g_lburn (l_g s') = g_lburn (l_g s) + qsum en_lk paid /\
  claim_frame s s'.
Proof.
  induction n as [|n IH]; intros s c acc s' o HI H; cbv zeta; simpl in H.
  - inversion H; subst. simpl. rewrite app_nil_r. repeat split; try lia; auto using frame_refl.
  - unfold view_queue in *. rewrite q_first_view in H. simpl claimable.
    destruct (filter (fun en => en_user en =? c) (l_q s)) as [|en t] eqn:Eq; simpl in H.
    + inversion H; subst. simpl. rewrite app_nil_r, Eq. repeat split; try lia; auto using frame_refl.
    + destruct (l_now s <? en_release en) eqn:Er.
      * inversion H; subst. simpl. rewrite app_nil_r, Eq. repeat split; try lia; auto using frame_refl.
      * apply bind_ok in H. destruct H as (s1 & H1 & H).
        assert (Hq : q_first (l_q s) c = Some en) by (rewrite q_first_view, Eq; reflexivity).
        pose proof (claim_one_inv b0 s c en s1 HI Hq H1) as HI1.
        pose proof HI as [Io Ic Inn Ieb Iel Iet Ien Itl Isu Iba Ilo Ipo].
        destruct (q_first_in _ _ _ Hq) as [Hin Hu].
        assert (Hok : entry_ok en) by (rewrite Forall_forall in Ien; apply Ien; exact Hin).
        destruct Hok as ((Hun & Hlk) & Hep & Hne).
        apply claim_one_char in H1; try tauto; try lia.
        destruct H1 as (Hfr & Hq1 & Ht1 & Hf1 & Hp1 & Hl1).
        specialize (IH s1 c _ s' o HI1 H). cbv zeta in IH. unfold view_queue in IH.
        pose proof Hfr as [Fc Fn _ _ _ _ _ _].
        rewrite Hq1, view_remove_same, Eq, Fn, Fc in IH. simpl tl in IH.
        destruct IH as (A & B & C & D & E & F & G & Hfr2).
        split; [rewrite A, <- app_assoc; reflexivity|].
        split; [exact B|].
        split; [intros u Hu'; rewrite (C u Hu'); apply view_remove_other; exact Hu'|].
        split; [intros f; rewrite D, Ht1; simpl; lia|].
        simpl qsum. split; [lia|]. split; [lia|]. split; [lia|].
        eapply frame_trans; eauto.
Qed.

Lemma claim_char b0 s c s' o : Inv b0 s -> ep_claim s c = Ok (s', o) ->
  let paid := claimable (Z.to_nat MAX_CLAIM_UNLOCKED_TOKENS) (l_now s) (view_queue s c) in
  let burn := c_burn (l_cfg s) in
  c <> UNSTAKE /\ paid <> [] /\
  (* only entries whose unbond period has ended, oldest first, each exactly once *)
  paid = firstn (length paid) (view_queue s c) /\
  Forall (fun en => en_release en <= l_now s) paid /\
  o = map en_un paid /\
  view_queue s' c = skipn (length paid) (view_queue s c) /\
  (forall u, u <> c -> view_queue s' u = view_queue s u) /\
  (* the caller receives amount - penalty of every paid entry out of the escrow *)
  (forall f, tot f (l_led s') = tot f (l_led s) + qsum (pay_entry f c) paid) /\
  (* each entry's penalty is split: floor(pen * burn / MAXPU) burned, the rest to the fees collector *)
  l_fees s' = l_fees s + qsum (fun en => pen_of en - burn_of burn en) paid /\
  g_penburn (l_g s') = g_penburn (l_g s) + qsum (burn_of burn) paid /\
  g_lburn (l_g s') = g_lburn (l_g s) + qsum en_lk paid /\
  claim_frame s s'.
Proof.
  intros HI H. unfold ep_claim in H. case_if H Eu.
  apply bind_ok in H. destruct H as ([s1 o1] & H1 & H). case_if H En. inversion H; subst; clear H.
  apply (claim_loop_char b0) in H1; [|exact HI]. cbv zeta in H1 |- *.
  destruct H1 as (A & B & C & D & E & F & G & Hfr). cbn [app] in A.
  pose proof (claimable_spec (Z.to_nat MAX_CLAIM_UNLOCKED_TOKENS) (l_now s) (view_queue s c)) as (S1 & S2 & S3 & S4).
  prep_bools.
  split; [exact Eu|]. split; [intros E0; rewrite E0 in A; subst o; discriminate|].
  split; [exact S1|]. split; [exact S3|]. split; [exact A|]. split; [exact B|]. split; [exact C|].
  split; [exact D|]. split; [exact E|]. split; [exact F|]. split; [exact G|]. exact Hfr.
Qed.

(** before the unbond period of the oldest entry has ended nothing can be claimed *)
Lemma claim_too_early s c en t : view_queue s c = en :: t -> l_now s < en_release en ->
  is_ok (ep_claim s c) = false.
Proof.
  intros Hq Hlt. unfold ep_claim. destruct (is_user c); [|reflexivity].
  destruct (Z.to_nat MAX_CLAIM_UNLOCKED_TOKENS) as [|n]; [reflexivity|].
  simpl. unfold view_queue in Hq. rewrite q_first_view, Hq. simpl.
  assert (E : (l_now s <? en_release en) = true) by (apply Z.ltb_lt; exact Hlt). rewrite E. reflexivity.
Qed.

(** ================================================================== cancel *)
Definition cancel_entry (f : Z -> Z -> bool) (c : Z) (en : uentry) : Z :=
  delta f c (en_epoch en) (en_lk en) - delta f UNSTAKE (en_epoch en) (en_lk en) - delta f UNSTAKE 0 (en_un en).

Lemma cancel_one_char s c en s' : cancel_one s c en = Ok s' ->
  l_cfg s' = l_cfg s /\ l_now s' = l_now s /\ l_fees s' = l_fees s /\
  l_q s' = q_remove_first (l_q s) c /\
  (forall f, tot f (l_led s') = tot f (l_led s) + cancel_entry f c en) /\
  g_bburn_cancel (l_g s') = g_bburn_cancel (l_g s) + en_un en /\
  g_bmint (l_g s') = g_bmint (l_g s) /\ g_lburn (l_g s') = g_lburn (l_g s) /\ g_lmint (l_g s') = g_lmint (l_g s) /\
  g_penburn (l_g s') = g_penburn (l_g s).
Proof.
  intros H. apply cancel_one_nf in H. destruct H as (_ & _ & ->). red_state.
  repeat split; try reflexivity.
  intros f. rewrite !tot_cons. unfold cancel_entry, delta.
  destruct (f c (en_epoch en)), (f UNSTAKE (en_epoch en)), (f UNSTAKE 0); lia.
Qed.

Lemma cancel_loop_char b0 n : forall s c acc s' o,
  Inv b0 s -> cancel_loop n s c acc = Ok (s', o) ->
  let mine := firstn n (view_queue s c) in
  o = acc ++ flat_map (fun en => [en_epoch en; en_lk en]) mine /\
  view_queue s' c = skipn n (view_queue s c) /\
  (forall u, u <> c -> view_queue s' u = view_queue s u) /\
  (forall f, tot f (l_led s') = tot f (l_led s) + qsum (cancel_entry f c) mine) /\
  g_bburn_cancel (l_g s') = g_bburn_cancel (l_g s) + qsum en_un mine /\
  g_bmint (l_g s') = g_bmint (l_g s) /\ g_lburn (l_g s') = g_lburn (l_g s) /\ g_lmint (l_g s') = g_lmint (l_g s) /\
  l_fees s' = l_fees s /\ l_cfg s' = l_cfg s /\ l_now s' = l_now s.
Proof.
  induction n as [|n IH]; intros s c acc s' o HI H; cbv zeta; simpl in H.
  - inversion H; subst. simpl. rewrite app_nil_r. repeat split; try lia; auto.
  - unfold view_queue in *. rewrite q_first_view in H.
    destruct (filter (fun en => en_user en =? c) (l_q s)) as [|en t] eqn:Eq; simpl in H.
    + inversion H; subst. simpl. rewrite app_nil_r, Eq. repeat split; try lia; auto.
    + apply bind_ok in H. destruct H as (s1 & H1 & H).
      assert (Hq : q_first (l_q s) c = Some en) by (rewrite q_first_view, Eq; reflexivity).
      pose proof (cancel_one_inv b0 s c en s1 HI Hq H1) as HI1.
      apply cancel_one_char in H1. destruct H1 as (Fc & Fn & Ff & Hq1 & Ht1 & G1 & G2 & G3 & G4 & G5).
      specialize (IH s1 c _ s' o HI1 H). cbv zeta in IH. unfold view_queue in IH.
      rewrite Hq1, view_remove_same, Eq in IH. simpl tl in IH.
      destruct IH as (A & B & C & D & E1 & E2 & E3 & E4 & E5 & E6 & E7).
      simpl firstn. simpl skipn. simpl flat_map. simpl qsum.
      split; [rewrite A, <- app_assoc; reflexivity|].
      split; [exact B|].
      split; [intros u Hu'; rewrite (C u Hu'); apply view_remove_other; exact Hu'|].
      split; [intros f; rewrite D, Ht1; lia|].
      repeat split; try lia; congruence.
Qed.

Lemma cancel_char b0 s c s' o : Inv b0 s -> ep_cancel s c = Ok (s', o) ->
  let mine := view_queue s c in
  c <> UNSTAKE /\ paused s = false /\ mine <> [] /\
  (* every entry of the caller, whatever its age: LOCKED returned in full, the parked base asset burned *)
  o = flat_map (fun en => [en_epoch en; en_lk en]) mine /\
  view_queue s' c = [] /\
  (forall u, u <> c -> view_queue s' u = view_queue s u) /\
  (forall f, tot f (l_led s') = tot f (l_led s) + qsum (cancel_entry f c) mine) /\
  g_bburn_cancel (l_g s') = g_bburn_cancel (l_g s) + qsum en_un mine /\
  g_bmint (l_g s') = g_bmint (l_g s) /\ g_lburn (l_g s') = g_lburn (l_g s) /\ g_lmint (l_g s') = g_lmint (l_g s) /\
  l_fees s' = l_fees s /\ l_cfg s' = l_cfg s /\ l_now s' = l_now s.
Proof.
  intros HI H. unfold ep_cancel in H. case_if H Eu. case_if H En.
  apply bind_ok in H. destruct H as ([s1 o1] & H1 & H). case_if H Ep. inversion H; subst; clear H.
  apply (cancel_loop_char b0) in H1; [|exact HI]. cbv zeta in H1 |- *.
  assert (Hlen : (length (view_queue s c) <= length (l_q s))%nat) by (unfold view_queue; apply filter_length_le).
  rewrite firstn_all2 in H1 by exact Hlen. rewrite skipn_all2 in H1 by exact Hlen.
  destruct H1 as (A & B & C & D & E1 & E2 & E3 & E4 & E5 & E6 & E7). cbn [app] in A. prep_bools.
  split; [exact Eu|]. split; [exact Ep|].
  split; [unfold view_queue; rewrite q_first_view in En; destruct (filter _ (l_q s)); [discriminate | discriminate]|].
  repeat split; auto.
Qed.

Lemma qsum_cons f (a : uentry) t : qsum f (a :: t) = f a + qsum f t.
Proof. reflexivity. Qed.

Definition key (h t : Z) : Z -> Z -> bool := fun h' t' => (h' =? h) && (t' =? t).

Lemma bal_key L h t : bal L h t = tot (key h t) L.
Proof. reflexivity. Qed.

Lemma key_true h t h' t' : key h t h' t' = true -> h' = h /\ t' = t.
Proof. unfold key. intros E. apply andb_prop in E. destruct E as [A B]. apply Z.eqb_eq in A, B. auto. Qed.

Lemma delta_key_cases h t h' t' a : delta (key h t) h' t' a = 0 \/ (h' = h /\ t' = t /\ delta (key h t) h' t' a = a).
Proof. unfold delta. destruct (key h t h' t') eqn:E; [right; apply key_true in E; tauto | left; reflexivity]. Qed.

Lemma delta_key_ne h t h' t' a : (h' <> h \/ t' <> t) -> delta (key h t) h' t' a = 0.
Proof. intros Hne. destruct (delta_key_cases h t h' t' a) as [E|(A & B & _)]; [exact E | tauto]. Qed.

(** ================================================================== who can take LOCKED out of an account early *)
Lemma pay_delta_locked h e c ps : 0 < e -> Forall (fun p => 0 < fst p /\ fst p < e /\ 0 < snd p) ps ->
  pay_delta (key h e) c ps = 0.
Proof.
  intros He HF. induction HF as [|[e' a] t (A & B & C) _ IH]; [reflexivity|].
  unfold pay_delta in *. cbn [fold_right fst snd] in *. rewrite IH.
  rewrite (delta_key_ne h e c 0) by (right; lia). rewrite (delta_key_ne h e c e') by (right; lia). lia.
Qed.

(** Before its unlock epoch, a LOCKED position of a user can shrink only through the two penalty
    paths (unlockEarly, reduceLockPeriod) or by being re-locked for longer 1:1 (lockTokens paying
    LOCKED) — never through unlockTokens or any other operation. *)
Theorem early_exit_only_by_penalty b0 s op s' o h e :
  Inv b0 s -> step s op = Ok (s', o) -> h <> UNSTAKE -> l_now s < e ->
  bal (l_led s') h e < bal (l_led s) h e ->
  exists amt, op = UnlockEarly h e amt \/ (exists le, op = Reduce h e amt le) \/ (exists le, op = Extend h e amt le).
Proof.
  intros HI H Hh He Hlt. pose proof HI as [Io Ic Inn Ieb Iel Iet Ien Itl Isu Iba Ilo Ipo].
  assert (He0 : 0 < e) by lia. rewrite !bal_key in Hlt.
  destruct op; simpl in H.
  - apply lock_char in H. destruct H as (u & _ & _ & Hu & _ & _ & Ha & _ & Ht & _). rewrite Ht in Hlt.
    rewrite (delta_key_ne h e c 0) in Hlt by (right; lia).
    destruct (delta_key_cases h e dest u amt) as [E|(_ & _ & E)]; rewrite E in Hlt; lia.
  - apply ep_extend_nf in H. cbv zeta in H. destruct H as (_ & _ & _ & _ & Ha & _ & _ & _ & _ & _ & ->).
    red_state. rewrite !tot_cons in Hlt. fold (delta (key h e) c e0 (- amt)) in Hlt.
    fold (delta (key h e) c (start_of_month (l_now s + le)) amt) in Hlt.
    destruct (delta_key_cases h e c e0 (- amt)) as [E|(A & B & E)].
    + rewrite E in Hlt. destruct (delta_key_cases h e c (start_of_month (l_now s + le)) amt) as [E2|(_ & _ & E2)]; rewrite E2 in Hlt; lia.
    + subst c e0. exists amt. right. right. exists le. reflexivity.
  - apply ep_lock_virtual_nf in H. cbv zeta in H. destruct H as (_ & _ & _ & Ha & _ & _ & _ & ->).
    red_state. rewrite !tot_cons in Hlt. fold (delta (key h e) dest (start_of_month (l_now s + le)) amt) in Hlt.
    destruct (delta_key_cases h e dest (start_of_month (l_now s + le)) amt) as [E2|(_ & _ & E2)]; rewrite E2 in Hlt; lia.
  - apply unlock_char in H. destruct H as (_ & _ & _ & HF & _ & Ht & _). rewrite Ht in Hlt.
    rewrite pay_delta_locked in Hlt; [lia | exact He0 |].
    eapply Forall_impl; [|exact HF]. intros p (A & B). lia.
  - apply (unlock_early_char b0) in H; [|exact HI].
    destruct H as (pct & pen & _ & _ & Ha & _ & _ & _ & Hp & _ & _ & Ht & _). rewrite Ht in Hlt.
    rewrite (delta_key_ne h e UNSTAKE e0) in Hlt by (left; congruence).
    rewrite (delta_key_ne h e UNSTAKE 0) in Hlt by (left; congruence).
    destruct (delta_key_cases h e c e0 amt) as [E|(A & B & E)]; [rewrite E in Hlt; lia|].
    subst c e0. exists amt. left. reflexivity.
  - apply (reduce_char b0) in H; [|exact HI].
    destruct H as (nu & po & pn & pct & pen & b & _ & _ & Ha & _ & _ & _ & _ & _ & _ & _ & _ & _ & _ & Hp & _ & _ & _ & _ & _ & Ht & _).
    rewrite Ht in Hlt.
    destruct (delta_key_cases h e c e0 amt) as [E|(A & B & E)].
    + rewrite E in Hlt. destruct (delta_key_cases h e c nu (amt - pen)) as [E2|(_ & _ & E2)]; rewrite E2 in Hlt; lia.
    + subst c e0. exists amt. right. left. exists le. reflexivity.
  - apply (claim_char b0) in H; [|exact HI]. cbv zeta in H.
    destruct H as (_ & _ & _ & _ & _ & _ & _ & Ht & _). rewrite Ht in Hlt.
    assert (Z0 : forall l, qsum (pay_entry (key h e) c) l = 0).
    { induction l as [|en t IH]; [reflexivity|]. rewrite qsum_cons, IH. unfold pay_entry.
      rewrite (delta_key_ne h e c 0) by (right; lia).
      rewrite (delta_key_ne h e UNSTAKE 0) by (left; congruence).
      rewrite (delta_key_ne h e UNSTAKE (en_epoch en)) by (left; congruence). lia. }
    rewrite Z0 in Hlt. lia.
  - apply (cancel_char b0) in H; [|exact HI]. cbv zeta in H.
    destruct H as (_ & _ & _ & _ & _ & _ & Ht & _). rewrite Ht in Hlt.
    assert (Z0 : forall l, Forall entry_ok l -> 0 <= qsum (cancel_entry (key h e) c) l).
    { induction 1 as [|en t ((A & B) & _) _ IH]; [simpl; lia|]. rewrite qsum_cons. unfold cancel_entry in *.
      rewrite (delta_key_ne h e UNSTAKE 0) by (left; congruence).
      rewrite (delta_key_ne h e UNSTAKE (en_epoch en)) by (left; congruence).
      destruct (delta_key_cases h e c (en_epoch en) (en_lk en)) as [E|(_ & _ & E)]; rewrite E; lia. }
    assert (Hm : Forall entry_ok (view_queue s c)).
    { unfold view_queue. rewrite Forall_forall in *. intros en Hin. apply filter_In in Hin. apply Ien. tauto. }
    specialize (Z0 _ Hm). lia.
  - unfold ep_add_options in H. case_if H Ec. apply bind_ok in H. destruct H as (l & _ & H). inversion H; subst. red_state. lia.
  - unfold ep_set_burn in H. case_if H Ec. case_if H Eb. inversion H; subst. red_state. lia.
  - unfold ep_set_paused in H. case_if H Ec. inversion H; subst. red_state. lia.
  - unfold ep_advance in H. case_if H Ed. inversion H; subst. red_state. lia.
Qed.

(** ================================================================== who can credit base asset to a user *)
Lemma pay_delta_base_other h c ps : c <> h -> pay_delta (key h 0) c ps = 0.
Proof.
  intros Hne. induction ps as [|[e a] t IH]; [reflexivity|]. unfold pay_delta in *. cbn [fold_right fst snd] in *.
  rewrite IH. rewrite !(delta_key_ne h 0 c) by (left; exact Hne). lia.
Qed.

(** A user's base-asset balance grows only through unlockTokens (tokens past their unlock epoch,
    1:1) or claimUnlockedTokens (entries past their unbond period, amount - penalty). *)
Theorem base_credit_only_by_unlock_or_claim b0 s op s' o h :
  Inv b0 s -> step s op = Ok (s', o) -> h <> UNSTAKE ->
  bal (l_led s) h 0 < bal (l_led s') h 0 ->
  (exists ps, op = Unlock h ps) \/ op = Claim h.
Proof.
  intros HI H Hh Hlt. pose proof HI as [Io Ic Inn Ieb Iel Iet Ien Itl Isu Iba Ilo Ipo].
  rewrite !bal_key in Hlt.
  destruct op; simpl in H.
  - apply lock_char in H. destruct H as (u & _ & _ & Hu & _ & _ & Ha & _ & Ht & _). rewrite Ht in Hlt.
    rewrite (delta_key_ne h 0 dest u) in Hlt by (right; lia).
    destruct (delta_key_cases h 0 c 0 amt) as [E|(_ & _ & E)]; rewrite E in Hlt; lia.
  - apply ep_extend_nf in H. cbv zeta in H. destruct H as (_ & _ & _ & He0 & Ha & _ & Hn & _ & _ & _ & ->).
    red_state. rewrite !tot_cons in Hlt. fold (delta (key h 0) c e (- amt)) in Hlt.
    fold (delta (key h 0) c (start_of_month (l_now s + le)) amt) in Hlt.
    rewrite (delta_key_ne h 0 c e) in Hlt by (right; lia).
    rewrite (delta_key_ne h 0 c (start_of_month (l_now s + le))) in Hlt by (right; lia). lia.
  - apply ep_lock_virtual_nf in H. cbv zeta in H. destruct H as (_ & _ & _ & Ha & _ & Hn & _ & ->).
    red_state. rewrite !tot_cons in Hlt. fold (delta (key h 0) dest (start_of_month (l_now s + le)) amt) in Hlt.
    rewrite (delta_key_ne h 0 dest (start_of_month (l_now s + le))) in Hlt by (right; lia). lia.
  - destruct (Z.eq_dec c h) as [->|Hne]; [left; eauto|].
    apply unlock_char in H. destruct H as (_ & _ & _ & _ & _ & Ht & _). rewrite Ht in Hlt.
    rewrite pay_delta_base_other in Hlt by exact Hne. lia.
  - apply (unlock_early_char b0) in H; [|exact HI].
    destruct H as (pct & pen & _ & Hn & Ha & _ & _ & _ & Hp & _ & _ & Ht & _). rewrite Ht in Hlt.
    rewrite (delta_key_ne h 0 UNSTAKE e) in Hlt by (left; congruence).
    rewrite (delta_key_ne h 0 UNSTAKE 0) in Hlt by (left; congruence).
    rewrite (delta_key_ne h 0 c e) in Hlt by (right; lia). lia.
  - apply (reduce_char b0) in H; [|exact HI].
    destruct H as (nu & po & pn & pct & pen & b & _ & _ & Ha & _ & Hnu & _ & _ & _ & _ & _ & _ & _ & _ & Hp & _ & _ & _ & _ & _ & Ht & _).
    rewrite Ht in Hlt.
    rewrite (delta_key_ne h 0 c e) in Hlt by (right; lia).
    rewrite (delta_key_ne h 0 c nu) in Hlt by (right; lia). lia.
  - destruct (Z.eq_dec c h) as [->|Hne]; [right; reflexivity|].
    apply (claim_char b0) in H; [|exact HI]. cbv zeta in H.
    destruct H as (_ & _ & _ & _ & _ & _ & _ & Ht & _). rewrite Ht in Hlt.
    assert (Z0 : forall l, qsum (pay_entry (key h 0) c) l = 0).
    { induction l as [|en t IH]; [reflexivity|]. rewrite qsum_cons, IH. unfold pay_entry.
      rewrite (delta_key_ne h 0 c 0) by (left; exact Hne).
      rewrite (delta_key_ne h 0 UNSTAKE 0) by (left; congruence).
      rewrite (delta_key_ne h 0 UNSTAKE (en_epoch en)) by (left; congruence). lia. }
    rewrite Z0 in Hlt. lia.
  - apply (cancel_char b0) in H; [|exact HI]. cbv zeta in H.
    destruct H as (_ & _ & _ & _ & _ & _ & Ht & _). rewrite Ht in Hlt.
    assert (Z0 : forall l, Forall entry_ok l -> qsum (cancel_entry (key h 0) c) l = 0).
    { induction 1 as [|en t (_ & B & _) _ IH]; [reflexivity|]. rewrite qsum_cons, IH. unfold cancel_entry.
      rewrite (delta_key_ne h 0 UNSTAKE 0) by (left; congruence).
      rewrite (delta_key_ne h 0 UNSTAKE (en_epoch en)) by (left; congruence).
      rewrite (delta_key_ne h 0 c (en_epoch en)) by (right; lia). lia. }
    assert (Hm : Forall entry_ok (view_queue s c)).
    { unfold view_queue. rewrite Forall_forall in *. intros en Hin. apply filter_In in Hin. apply Ien. tauto. }
    rewrite (Z0 _ Hm) in Hlt. lia.
  - unfold ep_add_options in H. case_if H Ec. apply bind_ok in H. destruct H as (l & _ & H). inversion H; subst. red_state. lia.
  - unfold ep_set_burn in H. case_if H Ec. case_if H Eb. inversion H; subst. red_state. lia.
  - unfold ep_set_paused in H. case_if H Ec. inversion H; subst. red_state. lia.
  - unfold ep_advance in H. case_if H Ed. inversion H; subst. red_state. lia.
Qed.

