(** Router (C14): registry invariant over all histories, creation guard, registered-pairs-only,
    pass-through multi-hop.  The pair-level facts come from Proofs/PairInv.v. *)
From MX Require Import Base.Prelude Gen.Params Model.Pair Model.Router
  Proofs.ParamFacts Proofs.PairInv Proofs.PairChar.

Ltac beq :=
  repeat match goal with
  | H : (_ =? _) = true |- _ => apply Z.eqb_eq in H
  | H : (_ =? _) = false |- _ => apply Z.eqb_neq in H
  | H : (_ <? _) = true |- _ => apply Z.ltb_lt in H
  | H : (_ <? _) = false |- _ => apply Z.ltb_ge in H
  | H : (_ <=? _) = true |- _ => apply Z.leb_le in H
  | H : (_ <=? _) = false |- _ => apply Z.leb_gt in H
  | H : _ && _ = true |- _ => apply andb_prop in H; destruct H
  | H : _ || _ = false |- _ => apply orb_false_elim in H; destruct H
  | H : negb _ = true |- _ => apply negb_true_iff in H
  | H : negb _ = false |- _ => apply negb_false_iff in H
  end.

(** ------------------------------------------------------------------ ledger *)
Definition keq (a t a' t' : Z) : bool := (a =? a') && (t =? t').

Lemma keq_true a t a' t' : keq a t a' t' = true <-> a = a' /\ t = t'.
Proof.
  unfold keq. rewrite andb_true_iff, !Z.eqb_eq. tauto.
Qed.

Lemma lget_lset l a t v a' t' :
  lget (lset l a t v) a' t' = if keq a t a' t' then v else lget l a' t'.
Proof.
  induction l as [|[[a0 t0] v0] tl IH]; simpl.
  - unfold keq. reflexivity.
  - destruct ((a0 =? a) && (t0 =? t)) eqn:E; simpl.
    + beq. subst a0 t0. unfold keq. destruct ((a =? a') && (t =? t')); reflexivity.
    + rewrite IH. destruct (keq a t a' t') eqn:K; [|reflexivity].
      apply keq_true in K. destruct K; subst a' t'. rewrite E. reflexivity.
Qed.

Lemma lget_credit l a t v a' t' :
  lget (credit l a t v) a' t' = lget l a' t' + (if keq a t a' t' then v else 0).
Proof.
  unfold credit. rewrite lget_lset. destruct (keq a t a' t') eqn:K; [|lia].
  apply keq_true in K. destruct K; subst. lia.
Qed.

Lemma debit_ok l a t v l' : debit l a t v = Ok l' ->
  v <= lget l a t /\ forall a' t', lget l' a' t' = lget l a' t' - (if keq a t a' t' then v else 0).
Proof.
  unfold debit. intros H. apply bind_ok in H. destruct H as (b & Hb & H). inversion H; subst; clear H.
  apply sub_chk_ok in Hb. destruct Hb as [Hle ->]. split; [exact Hle|].
  intros a' t'. rewrite lget_lset. destruct (keq a t a' t') eqn:K; [|lia].
  apply keq_true in K. destruct K; subst. lia.
Qed.

(** amount of token [t] in a list of payments *)
Fixpoint sum_tok (l : list (Z * Z)) (t : Z) : Z :=
  match l with
  | [] => 0
  | (t', v) :: tl => (if t' =? t then v else 0) + sum_tok tl t
  end.

Lemma sum_tok_app l1 l2 t : sum_tok (l1 ++ l2) t = sum_tok l1 t + sum_tok l2 t.
Proof. induction l1 as [|[t' v] tl IH]; simpl; [lia | rewrite IH; lia]. Qed.

Lemma pay_all_ok ps : forall l from to l', pay_all l from to ps = Ok l' -> from <> to ->
  forall a t, lget l' a t =
    lget l a t - (if a =? from then sum_tok ps t else 0) + (if a =? to then sum_tok ps t else 0).
Proof.
  induction ps as [|[tk v] tl IH]; intros l from to l' H Hne a t; simpl in H.
  - inversion H; subst. simpl. destruct (a =? from), (a =? to); lia.
  - apply bind_ok in H. destruct H as (l1 & Hd & H).
    apply debit_ok in Hd. destruct Hd as [_ Hd].
    rewrite (IH _ _ _ _ H Hne). rewrite lget_credit, Hd. simpl. unfold keq.
    destruct (a =? from) eqn:E1, (a =? to) eqn:E2, (tk =? t) eqn:E3; beq; subst;
      try congruence; rewrite ?Z.eqb_refl; simpl;
      repeat match goal with
      | |- context [?x =? ?y] => let E := fresh in destruct (x =? y) eqn:E; beq; try congruence
      end; simpl; lia.
Qed.

(** ------------------------------------------------------------------ pair contracts by address *)
Lemma pair_at_upd l a v b :
  pair_at (upd_pair l a v) b =
  if b =? a then (match pair_at l a with Some _ => Some v | None => None end) else pair_at l b.
Proof.
  induction l as [|[k x] tl IH]; simpl.
  - destruct (b =? a); reflexivity.
  - destruct (k =? a) eqn:E; simpl.
    + apply Z.eqb_eq in E. subst k. destruct (b =? a) eqn:E2.
      * apply Z.eqb_eq in E2. subst b. rewrite Z.eqb_refl. reflexivity.
      * rewrite (Z.eqb_sym a b), E2. exact IH.
    + destruct (k =? b) eqn:E3.
      * apply Z.eqb_eq in E3. subst k. rewrite E. reflexivity.
      * exact IH.
Qed.

Lemma pair_at_app l a v b :
  pair_at (l ++ [(a, v)]) b =
  match pair_at l b with Some x => Some x | None => if a =? b then Some v else None end.
Proof.
  induction l as [|[k x] tl IH]; simpl; [reflexivity|].
  destruct (k =? b); [reflexivity | exact IH].
Qed.

(** ------------------------------------------------------------------ pair_map: keys up to order *)
Definition uo_eq (k1 k2 : Z * Z) : Prop :=
  (fst k1 = fst k2 /\ snd k1 = snd k2) \/ (fst k1 = snd k2 /\ snd k1 = fst k2).

Fixpoint uo_nodup (m : list (Z * Z * Z)) : Prop :=
  match m with
  | [] => True
  | e :: t => (forall e', In e' t -> ~ uo_eq (fst e) (fst e')) /\ uo_nodup t
  end.

Lemma key_is_true e a b : key_is e a b = true <-> fst e = (a, b).
Proof.
  destruct e as [[x y] p]. unfold key_is. simpl. rewrite andb_true_iff, !Z.eqb_eq.
  split; [intros [-> ->]; reflexivity | intros H; inversion H; auto].
Qed.

Lemma map_get_some m a b p : map_get m a b = Some p -> In (a, b, p) m.
Proof.
  induction m as [|e t IH]; simpl; [discriminate|].
  destruct (key_is e a b) eqn:E.
  - intros H. inversion H; subst. apply key_is_true in E. left. destruct e as [k q]. simpl in *. subst. reflexivity.
  - intros H. right. auto.
Qed.

Lemma map_get_none m a b : map_get m a b = None -> forall p, ~ In (a, b, p) m.
Proof.
  induction m as [|e t IH]; simpl; intros H p; [tauto|].
  destruct (key_is e a b) eqn:E; [discriminate|].
  intros [Hin|Hin]; [|exact (IH H p Hin)].
  subst e. unfold key_is in E. simpl in E. rewrite !Z.eqb_refl in E. discriminate.
Qed.

Lemma map_get_in m a b p : In (a, b, p) m -> exists q, map_get m a b = Some q.
Proof.
  intros Hin. destruct (map_get m a b) eqn:E; [eauto|].
  exfalso. exact (map_get_none _ _ _ E p Hin).
Qed.

Lemma map_get_app m e a b :
  map_get (m ++ [e]) a b =
  match map_get m a b with Some p => Some p | None => if key_is e a b then Some (snd e) else None end.
Proof.
  induction m as [|e0 t IH]; simpl; [reflexivity|].
  destruct (key_is e0 a b); [reflexivity | exact IH].
Qed.

(** two entries whose keys agree up to order are one and the same entry *)
Lemma uo_unique m : uo_nodup m -> forall e1 e2, In e1 m -> In e2 m -> uo_eq (fst e1) (fst e2) -> e1 = e2.
Proof.
  induction m as [|e t IH]; simpl; [intros _ e1 e2 []|].
  intros [Hh Ht] e1 e2 H1 H2 Hu.
  destruct H1 as [<-|H1], H2 as [<-|H2].
  - reflexivity.
  - exfalso. exact (Hh _ H2 Hu).
  - exfalso. apply (Hh _ H1). unfold uo_eq in *. intuition congruence.
  - apply IH; assumption.
Qed.

Lemma uo_lookup_agree m a b p q : uo_nodup m ->
  map_get m a b = Some p -> map_get m b a = Some q -> p = q.
Proof.
  intros Hu H1 H2. apply map_get_some in H1. apply map_get_some in H2.
  assert (E : (a, b, p) = (b, a, q)).
  { apply (uo_unique m Hu); auto. unfold uo_eq. simpl. right. auto. }
  inversion E; reflexivity.
Qed.

(** lookups are order-insensitive *)
Lemma get_pair_sym m a b : uo_nodup m -> get_pair m a b = get_pair m b a.
Proof.
  intros Hu. unfold get_pair.
  destruct (map_get m a b) as [p|] eqn:E1, (map_get m b a) as [q|] eqn:E2; try reflexivity.
  f_equal. eapply uo_lookup_agree; eauto.
Qed.

Lemma get_pair_some m a b p : get_pair m a b = Some p -> In (a, b, p) m \/ In (b, a, p) m.
Proof.
  unfold get_pair. destruct (map_get m a b) eqn:E.
  - intros H. inversion H; subst. left. apply map_get_some. exact E.
  - intros H. right. apply map_get_some. exact H.
Qed.

Lemma get_pair_none m a b : get_pair m a b = None ->
  forall e, In e m -> ~ uo_eq (a, b) (fst e).
Proof.
  unfold get_pair. destruct (map_get m a b) eqn:E1; [discriminate|].
  intros E2 [[x y] p] Hin [[Hx Hy]|[Hx Hy]]; simpl in *; subst.
  - exact (map_get_none _ _ _ E1 p Hin).
  - exact (map_get_none _ _ _ E2 p Hin).
Qed.

Lemma get_pair_of_in m a b p : uo_nodup m -> In (a, b, p) m ->
  get_pair m a b = Some p /\ get_pair m b a = Some p.
Proof.
  intros Hu Hin.
  assert (H1 : get_pair m a b = Some p).
  { unfold get_pair. destruct (map_get_in _ _ _ _ Hin) as (q & Hq). rewrite Hq.
    apply map_get_some in Hq.
    assert (E : (a, b, q) = (a, b, p)) by (apply (uo_unique m Hu); auto; left; auto).
    inversion E; reflexivity. }
  split; [exact H1 | rewrite <- get_pair_sym by assumption; exact H1].
Qed.

Lemma uo_nodup_app m a b p : uo_nodup m -> get_pair m a b = None -> uo_nodup (m ++ [(a, b, p)]).
Proof.
  intros Hu Hn. induction m as [|e t IH]; simpl.
  - split; [intros e' [] | exact I].
  - destruct Hu as [Hh Ht]. split.
    + intros e' Hin. apply in_app_or in Hin. destruct Hin as [Hin|[<-|[]]]; [auto|].
      intros Hq. apply (get_pair_none _ _ _ Hn e (or_introl eq_refl)).
      unfold uo_eq in *. simpl in *. intuition congruence.
    + apply IH; [exact Ht|].
      unfold get_pair in *. simpl in Hn.
      destruct (key_is e a b); [discriminate|].
      destruct (map_get t a b); [discriminate|].
      destruct (key_is e b a); [discriminate | exact Hn].
Qed.

Lemma uo_nodup_filter f m : uo_nodup m -> uo_nodup (filter f m).
Proof.
  induction m as [|e t IH]; simpl; [auto|]. intros [Hh Ht].
  destruct (f e); simpl; [|auto].
  split; [|auto]. intros e' Hin. apply filter_In in Hin. apply Hh. tauto.
Qed.

Lemma map_get_remove_same m a b : map_get (map_remove m a b) a b = None.
Proof.
  unfold map_remove. induction m as [|e t IH]; simpl; [reflexivity|].
  destruct (key_is e a b) eqn:E; simpl; [exact IH | rewrite E; exact IH].
Qed.

(** ------------------------------------------------------------------ world invariant *)
Record WInv (w : world) : Prop := {
  wi_uo : uo_nodup (r_map (w_r w));
  wi_ent : forall a b x, In (a, b, x) (r_map (w_r w)) ->
           a <> b /\ exists pe, pair_at (w_pairs w) x = Some pe /\ pe_t1 pe = a /\ pe_t2 pe = b;
  wi_pinv : forall x pe, pair_at (w_pairs w) x = Some pe -> PairInv (pe_p pe)
}.

Lemma winv_frame w w' : r_map (w_r w') = r_map (w_r w) -> w_pairs w' = w_pairs w -> WInv w -> WInv w'.
Proof. intros Hr Hp []. constructor; rewrite ?Hr, ?Hp; assumption. Qed.

Lemma winv_upd w addr pe pe' : WInv w -> pair_at (w_pairs w) addr = Some pe ->
  pe_t1 pe' = pe_t1 pe -> pe_t2 pe' = pe_t2 pe -> PairInv (pe_p pe') ->
  WInv (set_pairs w (upd_pair (w_pairs w) addr pe')).
Proof.
  intros [] Hat H1 H2 Hinv. constructor; simpl.
  - assumption.
  - intros a b x Hin. destruct (wi_ent0 a b x Hin) as (Hne & pe0 & Hp & Ha & Hb).
    split; [exact Hne|]. rewrite pair_at_upd. destruct (x =? addr) eqn:E.
    + beq. subst x. rewrite Hat. exists pe'. rewrite Hat in Hp. inversion Hp; subst pe0.
      repeat split; congruence.
    + exists pe0. auto.
  - intros x pe0. rewrite pair_at_upd. destruct (x =? addr) eqn:E.
    + rewrite Hat. intros H. inversion H; subst. exact Hinv.
    + apply wi_pinv0.
Qed.

Lemma winv_add_pair w na pe : WInv w -> pair_at (w_pairs w) na = None -> PairInv (pe_p pe) ->
  WInv (set_pairs w (w_pairs w ++ [(na, pe)])).
Proof.
  intros [] Hfresh Hinv. constructor; simpl.
  - assumption.
  - intros a b x Hin. destruct (wi_ent0 a b x Hin) as (Hne & pe0 & Hp & Ha & Hb).
    split; [exact Hne|]. exists pe0. rewrite pair_at_app, Hp. auto.
  - intros x pe0. rewrite pair_at_app. destruct (pair_at (w_pairs w) x) eqn:E.
    + intros H. inversion H; subst. eapply wi_pinv0; eauto.
    + destruct (na =? x); intros H; inversion H; subst. exact Hinv.
Qed.

Lemma registered_ok w addr pe : registered w addr = Ok pe ->
  pair_at (w_pairs w) addr = Some pe /\ get_pair (r_map (w_r w)) (pe_t1 pe) (pe_t2 pe) = Some addr.
Proof.
  unfold registered. destruct (pair_at (w_pairs w) addr) as [pe0|] eqn:E; [|discriminate].
  destruct (get_pair _ _ _) as [a'|] eqn:G; [|discriminate].
  destruct (a' =? addr) eqn:E2; [|discriminate]. intros H. inversion H; subst. beq. subst. auto.
Qed.

Lemma pair_init_ok_spec a b f sf : pair_init_ok a b f sf = true ->
  a <> b /\ 0 < a /\ 0 < b /\ 0 <= sf <= f /\ f <= PAIR_MAX_FEE_PERCENTAGE.
Proof. unfold pair_init_ok, tok_valid. intros H. beq. lia. Qed.

Lemma fresh_addr_spec w na : fresh_addr w na = true -> na <> ROUTER /\ pair_at (w_pairs w) na = None.
Proof.
  unfold fresh_addr. intros H. beq. split; [assumption|].
  destruct (pair_at (w_pairs w) na); [discriminate | reflexivity].
Qed.

Lemma create_pair_winv w c a b adder fees na w' o :
  ep_create_pair w c a b adder fees na = Ok (w', o) -> WInv w -> WInv w'.
Proof.
  unfold ep_create_pair. intros H Hinv. cbv zeta in H.
  destruct (r_active (w_r w)); [|discriminate].
  destruct (is_owner w c || r_creation (w_r w)); [|discriminate].
  destruct (negb (a =? b)) eqn:Eab; [|discriminate].
  destruct (tok_valid a); [|discriminate]. destruct (tok_valid b); [|discriminate].
  destruct (get_pair (r_map (w_r w)) a b) eqn:G; [discriminate|].
  apply bind_ok in H. destruct H as ([f sf] & _ & H).
  destruct (fresh_addr w na) eqn:Ef; [|discriminate].
  destruct (pair_init_ok a b f sf) eqn:Ei; [|discriminate].
  inversion H; subst; clear H.
  apply fresh_addr_spec in Ef. destruct Ef as [_ Ef].
  apply pair_init_ok_spec in Ei. destruct Ei as (Hne & _ & _ & Hf1 & Hf2).
  set (pe := mkPent a b false (init_pair f sf (if adder =? 0 then None else Some adder))).
  assert (Hp : PairInv (pe_p pe)) by (apply init_inv; assumption).
  pose proof (winv_add_pair w na pe Hinv Ef Hp) as [U E P].
  constructor; simpl in *.
  - apply uo_nodup_app; assumption.
  - intros x y z Hin. apply in_app_or in Hin. destruct Hin as [Hin|[Hin|[]]].
    + apply E. exact Hin.
    + inversion Hin; subst. split; [exact Hne|]. exists pe. rewrite pair_at_app, Ef, Z.eqb_refl. auto.
  - exact P.
Qed.

Lemma remove_pair_winv w c a b w' o :
  ep_remove_pair w c a b = Ok (w', o) -> WInv w -> WInv w'.
Proof.
  unfold ep_remove_pair. intros H Hinv. cbv zeta in H.
  destruct (is_owner w c); [|discriminate]. destruct (r_active (w_r w)); [|discriminate].
  destruct (negb (a =? b)); [|discriminate].
  destruct (tok_valid a); [|discriminate]. destruct (tok_valid b); [|discriminate].
  destruct (get_pair (r_map (w_r w)) a b); [|discriminate].
  assert (Hrm : forall x y, WInv (set_r w (set_map (w_r w) (map_remove (r_map (w_r w)) x y)))).
  { intros x y. destruct Hinv as [U E P]. constructor; simpl.
    - apply uo_nodup_filter. exact U.
    - intros a0 b0 z0 Hin. apply filter_In in Hin. apply E. tauto.
    - exact P. }
  destruct (map_get (r_map (w_r w)) a b).
  - inversion H; subst. apply Hrm.
  - destruct (map_get (r_map (w_r w)) b a); inversion H; subst; [apply Hrm | exact Hinv].
Qed.

Lemma pair_admin_winv w addr pe op w' o :
  pair_admin w addr pe op = Ok (w', o) -> pair_at (w_pairs w) addr = Some pe -> WInv w -> WInv w'.
Proof.
  unfold pair_admin. intros H Hat Hinv.
  apply bind_ok in H. destruct H as ([[p' o1] e1] & Hs & H). inversion H; subst; clear H.
  apply winv_upd with (pe := pe); auto.
  simpl. apply step_spec in Hs; [tauto|]. eapply wi_pinv; eauto.
Qed.

(** one hop: the registry and every other pair are left alone, the hop's pair keeps its tokens *)
Lemma do_hop_frame w h last resid w' last' resid' :
  do_hop w h last resid = Ok (w', last', resid') ->
  exists pe p', registered w (fst (fst (fst h))) = Ok pe /\
    w_r w' = w_r w /\ w_block w' = w_block w /\
    w_pairs w' = upd_pair (w_pairs w) (fst (fst (fst h))) (set_pp pe p') /\
    (WInv w -> PairInv p').
Proof.
  destruct h as [[[addr f] tw] aw]. destruct last as [tin ain]. unfold do_hop. simpl fst.
  intros H. apply bind_ok in H. destruct H as (pe & Hreg & H).
  destruct (f =? FIXED_IN).
  - apply bind_ok in H. destruct H as (led1 & _ & H).
    apply bind_ok in H. destruct H as ([[p' o] e] & Hs & H).
    destruct o as [|out [|? ?]]; try discriminate. destruct (e_ext e); [|discriminate].
    inversion H; subst; clear H. exists pe, p'.
    split; [exact Hreg|]. split; [reflexivity|]. split; [reflexivity|]. split; [reflexivity|].
    intros Hinv. apply registered_ok in Hreg. destruct Hreg as [Hat _].
    apply ep_swap_in_spec in Hs; [tauto|]. eapply wi_pinv; eauto.
  - destruct (f =? FIXED_OUT); [|discriminate].
    apply bind_ok in H. destruct H as (led1 & _ & H).
    apply bind_ok in H. destruct H as ([[p' o] e] & Hs & H).
    destruct o as [|out [|res [|? ?]]]; try discriminate. destruct (e_ext e); [|discriminate].
    inversion H; subst; clear H. exists pe, p'.
    split; [exact Hreg|]. split; [reflexivity|]. split; [reflexivity|]. split; [reflexivity|].
    intros Hinv. apply registered_ok in Hreg. destruct Hreg as [Hat _].
    apply ep_swap_out_spec in Hs; [tauto|]. eapply wi_pinv; eauto.
Qed.

Lemma do_hop_winv w h last resid w' last' resid' :
  do_hop w h last resid = Ok (w', last', resid') -> WInv w -> WInv w'.
Proof.
  intros H Hinv. destruct (do_hop_frame _ _ _ _ _ _ _ H) as (pe & p' & Hreg & Hr & _ & Hp & Hpi).
  apply registered_ok in Hreg. destruct Hreg as [Hat _].
  pose proof (winv_upd w _ pe (set_pp pe p') Hinv Hat eq_refl eq_refl (Hpi Hinv)) as Hw.
  eapply winv_frame; [| |exact Hw]; simpl; [rewrite Hr; reflexivity | assumption].
Qed.

Lemma run_hops_winv hops : forall w last resid w' last' resid',
  run_hops w hops last resid = Ok (w', last', resid') -> WInv w -> WInv w'.
Proof.
  induction hops as [|h t IH]; intros w last resid w' last' resid' H Hinv; simpl in H.
  - inversion H; subst. exact Hinv.
  - apply bind_ok in H. destruct H as ([[w1 l1] r1] & Hh & H).
    eapply IH; [exact H|]. eapply do_hop_winv; eauto.
Qed.

Lemma multi_swap_winv w c tin amt hops w' ps :
  ep_multi_swap w c tin amt hops = Ok (w', ps) -> WInv w -> WInv w'.
Proof.
  unfold ep_multi_swap. intros H Hinv.
  destruct (r_active (w_r w)); [|discriminate]. destruct (tok_valid tin); [|discriminate].
  destruct (0 <? amt); [|discriminate].
  destruct (match hops with [] => false | _ => true end); [|discriminate].
  apply bind_ok in H. destruct H as (led0 & _ & H). cbv zeta in H.
  apply bind_ok in H. destruct H as ([[w1 last] resid] & Hr & H).
  apply bind_ok in H. destruct H as (led2 & _ & H). inversion H; subst; clear H.
  apply run_hops_winv in Hr.
  - eapply winv_frame; [| |exact Hr]; reflexivity.
  - eapply winv_frame; [| |exact Hinv]; reflexivity.
Qed.

Lemma rstep_winv w op w' o : rstep w op = Ok (w', o) -> WInv w -> WInv w'.
Proof.
  intros H Hinv. destruct op; simpl in H.
  - eapply create_pair_winv; eauto.
  - eapply remove_pair_winv; eauto.
  - (* UpgradePair *) unfold ep_upgrade_pair in H. cbv zeta in H.
    destruct (is_owner w c); [|discriminate]. destruct (r_active (w_r w)); [|discriminate].
    destruct (negb (a =? b)); [|discriminate].
    destruct (tok_valid a); [|discriminate]. destruct (tok_valid b); [|discriminate].
    destruct (get_pair _ _ _); inversion H; subst. exact Hinv.
  - (* Pause *) unfold ep_pause in H. destruct (is_owner w c); [|discriminate].
    destruct (addr =? ROUTER).
    + inversion H; subst. eapply winv_frame; [| |exact Hinv]; reflexivity.
    + apply bind_ok in H. destruct H as (pe & Hreg & H). apply registered_ok in Hreg.
      eapply pair_admin_winv; eauto. tauto.
  - (* Resume *) unfold ep_pause in H. destruct (is_owner w c); [|discriminate].
    destruct (addr =? ROUTER).
    + inversion H; subst. eapply winv_frame; [| |exact Hinv]; reflexivity.
    + apply bind_ok in H. destruct H as (pe & Hreg & H). apply registered_ok in Hreg.
      eapply pair_admin_winv; eauto. tauto.
  - (* RSetFeeOn *) unfold ep_set_fee in H. destruct (is_owner w c); [|discriminate].
    destruct (r_active (w_r w)); [|discriminate].
    apply bind_ok in H. destruct H as (pe & Hreg & H). apply registered_ok in Hreg.
    eapply pair_admin_winv; eauto. tauto.
  - (* RSetFeeOff *) unfold ep_set_fee in H. destruct (is_owner w c); [|discriminate].
    destruct (r_active (w_r w)); [|discriminate].
    apply bind_ok in H. destruct H as (pe & Hreg & H). apply registered_ok in Hreg.
    eapply pair_admin_winv; eauto. tauto.
  - (* SetLocalRoles *) unfold ep_set_local_roles in H. destruct (r_active (w_r w)); [|discriminate].
    apply bind_ok in H. destruct H as (pe & _ & H). destruct (pe_lp pe); inversion H; subst. exact Hinv.
  - (* IssueLp *) unfold ep_issue_lp in H. cbv zeta in H. destruct (r_active (w_r w)); [|discriminate].
    destruct (is_owner w c || r_creation (w_r w)); [|discriminate].
    apply bind_ok in H. destruct H as (pe & _ & H).
    destruct (match temp_owner w addr with None => true | Some t => c =? t end); [|discriminate].
    destruct (negb (pe_lp pe)); inversion H; subst. exact Hinv.
  - (* SetCreation *) unfold ep_set_creation in H. destruct (is_owner w c); inversion H; subst.
    eapply winv_frame; [| |exact Hinv]; reflexivity.
  - (* MultiSwap *) apply bind_ok in H. destruct H as ([w1 ps] & Hm & H). inversion H; subst.
    eapply multi_swap_winv; eauto.
  - (* DeployPair *) unfold ep_deploy_pair in H.
    destruct (fresh_addr w na) eqn:Ef; [|discriminate].
    destruct (pair_init_ok a b f sf) eqn:Ei; [|discriminate]. inversion H; subst; clear H.
    apply fresh_addr_spec in Ef. apply pair_init_ok_spec in Ei.
    apply winv_add_pair; [exact Hinv | tauto | simpl; apply init_inv; tauto].
  - (* SetLp *) unfold ep_set_lp in H. destruct (pair_at (w_pairs w) addr) as [pe|] eqn:Hat; [|discriminate].
    destruct (has_owner_perm c); [|discriminate]. destruct (negb (pe_lp pe)); inversion H; subst.
    apply winv_upd with (pe := pe); auto. simpl. eapply wi_pinv; eauto.
  - (* Direct *) unfold ep_direct in H. destruct (pair_at (w_pairs w) addr) as [pe|] eqn:Hat; [|discriminate].
    destruct (direct_allowed op); [|discriminate].
    destruct (negb (needs_lp op) || pe_lp pe); [|discriminate].
    apply bind_ok in H. destruct H as ([[p' o1] e1] & Hs & H).
    destruct (match e_ext e1 with [] => true | _ => false end); [|discriminate].
    destruct (moves op o1) as [[c0 debs] creds].
    apply bind_ok in H. destruct H as (led1 & _ & H). inversion H; subst; clear H.
    assert (Hp : PairInv p') by (apply step_spec in Hs; [tauto | eapply wi_pinv; eauto]).
    pose proof (winv_upd w addr pe (set_pp pe p') Hinv Hat eq_refl eq_refl Hp) as Hw.
    eapply winv_frame; [| |exact Hw]; reflexivity.
  - (* DonateRouter *) unfold ep_donate_router in H. destruct (0 <? amt); [|discriminate].
    apply bind_ok in H. destruct H as (led1 & _ & H). inversion H; subst.
    eapply winv_frame; [| |exact Hinv]; reflexivity.
  - (* SetBlock *) inversion H; subst. eapply winv_frame; [| |exact Hinv]; reflexivity.
Qed.

Lemma rstep_total_winv w op : WInv w -> WInv (rstep_total w op).
Proof.
  intros H. unfold rstep_total. destruct (rstep w op) as [[w' o]|] eqn:E; [|exact H].
  eapply rstep_winv; eauto.
Qed.

Lemma rrun_winv ops : forall w, WInv w -> WInv (rrun w ops).
Proof.
  induction ops as [|op t IH]; intros w H; simpl; [exact H|].
  apply IH. apply rstep_total_winv. exact H.
Qed.

Lemma init_winv led blk : WInv (init_world led blk).
Proof.
  constructor; simpl.
  - exact I.
  - intros a b x [].
  - intros x pe H. discriminate.
Qed.

(** ================================================================== clause 1: the registry *)
Lemma registry_one_per_pair w : WInv w -> forall a b x c d y,
  In (a, b, x) (r_map (w_r w)) -> In (c, d, y) (r_map (w_r w)) -> uo_eq (a, b) (c, d) ->
  (a, b, x) = (c, d, y).
Proof. intros [U _ _] a b x c d y H1 H2 Hu. apply (uo_unique _ U (a, b, x) (c, d, y)); auto. Qed.

Lemma registry_lookup_sym w : WInv w -> forall a b,
  get_pair (r_map (w_r w)) a b = get_pair (r_map (w_r w)) b a.
Proof. intros [U _ _] a b. apply get_pair_sym. exact U. Qed.

(** getPair answers exactly the entries, in either order *)
Lemma registry_lookup_char w : WInv w -> forall a b x,
  get_pair (r_map (w_r w)) a b = Some x <-> (In (a, b, x) (r_map (w_r w)) \/ In (b, a, x) (r_map (w_r w))).
Proof.
  intros [U _ _] a b x. split.
  - apply get_pair_some.
  - intros [H|H]; apply (get_pair_of_in _ _ _ _ U) in H; tauto.
Qed.

(** distinct token pairs are served by distinct pair contracts *)
Lemma registry_addr_nodup w : WInv w -> NoDup (all_pairs (r_map (w_r w))).
Proof.
  intros [U E _]. unfold all_pairs.
  assert (Hk : forall e1 e2, In e1 (r_map (w_r w)) -> In e2 (r_map (w_r w)) -> snd e1 = snd e2 ->
               uo_eq (fst e1) (fst e2)).
  { intros [[a b] x] [[c d] y] H1 H2 Hs. simpl in Hs. subst y.
    destruct (E _ _ _ H1) as (_ & pe1 & P1 & A1 & B1). destruct (E _ _ _ H2) as (_ & pe2 & P2 & A2 & B2).
    rewrite P1 in P2. inversion P2; subst pe2. left. simpl. split; congruence. }
  revert U Hk. generalize (r_map (w_r w)). intros m. induction m as [|e t IH]; simpl; intros U Hk.
  - constructor.
  - destruct U as [Hh Ht]. constructor.
    + intros Hin. apply in_map_iff in Hin. destruct Hin as (e' & Hs & Hin).
      apply (Hh e' Hin). apply Hk; auto.
    + apply IH; [exact Ht|]. intros e1 e2 H1 H2. apply Hk; auto.
Qed.

(** the address is the pair_map entry for the tokens the contract at that address reports *)
Definition Registered (w : world) (addr : Z) : Prop :=
  exists pe, pair_at (w_pairs w) addr = Some pe /\
             get_pair (r_map (w_r w)) (pe_t1 pe) (pe_t2 pe) = Some addr.

Lemma registered_Registered w addr pe : registered w addr = Ok pe -> Registered w addr.
Proof. intros H. apply registered_ok in H. exists pe. exact H. Qed.

Lemma Registered_registered w addr : Registered w addr -> exists pe, registered w addr = Ok pe.
Proof.
  intros (pe & Hat & G). exists pe. unfold registered. rewrite Hat, G, Z.eqb_refl. reflexivity.
Qed.

(** ... which, on reachable worlds, is the same as being listed by getAllPairsManagedAddresses *)
Lemma registered_iff_listed w addr : WInv w ->
  (Registered w addr <-> In addr (all_pairs (r_map (w_r w)))).
Proof.
  intros [U E _]. unfold all_pairs. split.
  - intros (pe & _ & G). apply get_pair_some in G.
    destruct G as [G|G]; apply (in_map snd) in G; exact G.
  - intros Hin. apply in_map_iff in Hin. destruct Hin as ([[a b] x] & Hs & Hin). simpl in Hs. subst x.
    destruct (E _ _ _ Hin) as (_ & pe & P & A & B). exists pe. split; [exact P|].
    subst a b. apply (get_pair_of_in _ _ _ _ U Hin).
Qed.

Lemma reachable_winv led blk ops : WInv (rrun (init_world led blk) ops).
Proof. apply rrun_winv. apply init_winv. Qed.

(** ================================================================== clause 2: creation guard *)
Lemma get_pair_none_sym m a b : get_pair m a b = None -> get_pair m b a = None.
Proof.
  unfold get_pair. destruct (map_get m a b) eqn:E1; [discriminate|]. intros E2. rewrite E2. reflexivity.
Qed.

Lemma create_pair_guard w c a b adder fees na w' o :
  ep_create_pair w c a b adder fees na = Ok (w', o) ->
  r_active (w_r w) = true /\ (c = r_owner (w_r w) \/ r_creation (w_r w) = true) /\ a <> b /\
  get_pair (r_map (w_r w)) a b = None /\ get_pair (r_map (w_r w)) b a = None /\
  o = [na] /\ pair_at (w_pairs w) na = None /\
  r_map (w_r w') = r_map (w_r w) ++ [(a, b, na)] /\
  exists pe, pair_at (w_pairs w') na = Some pe /\ pe_t1 pe = a /\ pe_t2 pe = b /\ pe_lp pe = false /\
             p_state (pe_p pe) = ST_Inactive /\ p_S (pe_p pe) = 0 /\
             (c <> r_owner (w_r w) ->
              p_fee (pe_p pe) = ROUTER_DEFAULT_TOTAL_FEE_PERCENT /\
              p_sfee (pe_p pe) = ROUTER_DEFAULT_SPECIAL_FEE_PERCENT).
Proof.
  unfold ep_create_pair. intros H. cbv zeta in H.
  destruct (r_active (w_r w)) eqn:Ea; [|discriminate].
  destruct (is_owner w c || r_creation (w_r w)) eqn:Eo; [|discriminate].
  destruct (negb (a =? b)) eqn:Eab; [|discriminate].
  destruct (tok_valid a); [|discriminate]. destruct (tok_valid b); [|discriminate].
  destruct (get_pair (r_map (w_r w)) a b) eqn:G; [discriminate|].
  apply bind_ok in H. destruct H as ([f sf] & Hf & H).
  destruct (fresh_addr w na) eqn:Ef; [|discriminate].
  destruct (pair_init_ok a b f sf) eqn:Ei; [|discriminate].
  inversion H; subst; clear H.
  apply fresh_addr_spec in Ef. destruct Ef as [_ Ef]. beq.
  split; [reflexivity|]. split.
  { unfold is_owner in Eo. apply orb_prop in Eo. destruct Eo as [Eo|Eo]; [left; beq; exact Eo | right; exact Eo]. }
  split; [exact Eab|]. split; [reflexivity|]. split; [apply get_pair_none_sym; exact G|].
  split; [reflexivity|]. split; [exact Ef|]. split; [reflexivity|].
  eexists. split; [simpl; rewrite pair_at_app, Ef, Z.eqb_refl; reflexivity|]. simpl.
  split; [reflexivity|]. split; [reflexivity|]. split; [reflexivity|]. split; [reflexivity|].
  split; [reflexivity|].
  intros Hno. unfold is_owner in Hf. destruct (c =? r_owner (w_r w)) eqn:E; [beq; contradiction|].
  inversion Hf; subst. split; reflexivity.
Qed.

Lemma create_pair_registers w c a b adder fees na w' o : WInv w ->
  ep_create_pair w c a b adder fees na = Ok (w', o) ->
  get_pair (r_map (w_r w')) a b = Some na /\ get_pair (r_map (w_r w')) b a = Some na /\
  all_pairs (r_map (w_r w')) = all_pairs (r_map (w_r w)) ++ [na] /\
  ~ In na (all_pairs (r_map (w_r w))) /\ Registered w' na.
Proof.
  intros Hinv H. pose proof (create_pair_winv _ _ _ _ _ _ _ _ _ H Hinv) as Hinv'.
  apply create_pair_guard in H.
  destruct H as (_ & _ & _ & _ & _ & _ & Hfresh & Hm & pe & Hat & A & B & _).
  assert (Hin : In (a, b, na) (r_map (w_r w'))) by (rewrite Hm; apply in_or_app; right; left; reflexivity).
  destruct (get_pair_of_in _ _ _ _ (wi_uo _ Hinv') Hin) as [G1 G2].
  split; [exact G1|]. split; [exact G2|].
  split; [rewrite Hm; unfold all_pairs; rewrite map_app; reflexivity|].
  split.
  - intros Hl. apply (registered_iff_listed _ _ Hinv) in Hl. destruct Hl as (pe0 & P & _). congruence.
  - exists pe. subst a b. auto.
Qed.

Lemma remove_pair_guard w c a b w' o : WInv w ->
  ep_remove_pair w c a b = Ok (w', o) ->
  c = r_owner (w_r w) /\ r_active (w_r w) = true /\ a <> b /\
  (exists p, get_pair (r_map (w_r w)) a b = Some p /\ o = [p]) /\
  get_pair (r_map (w_r w')) a b = None /\ get_pair (r_map (w_r w')) b a = None /\
  w_pairs w' = w_pairs w.
Proof.
  intros Hinv H. pose proof H as H0. unfold ep_remove_pair in H. cbv zeta in H.
  destruct (is_owner w c) eqn:Eo; [|discriminate]. destruct (r_active (w_r w)); [|discriminate].
  destruct (negb (a =? b)) eqn:Eab; [|discriminate].
  destruct (tok_valid a); [|discriminate]. destruct (tok_valid b); [|discriminate].
  destruct (get_pair (r_map (w_r w)) a b) as [p|] eqn:G; [|discriminate].
  unfold is_owner in Eo. beq.
  split; [exact Eo|]. split; [reflexivity|]. split; [exact Eab|].
  pose proof (wi_uo _ Hinv) as U.
  unfold get_pair in G.
  destruct (map_get (r_map (w_r w)) a b) as [p1|] eqn:G1.
  - inversion G; subst p1. inversion H; subst; clear H. simpl.
    split; [exists p; auto|].
    assert (N1 : map_get (map_remove (r_map (w_r w)) a b) a b = None) by apply map_get_remove_same.
    assert (N2 : map_get (map_remove (r_map (w_r w)) a b) b a = None).
    { destruct (map_get (map_remove (r_map (w_r w)) a b) b a) as [q|] eqn:E; [|reflexivity]. exfalso.
      apply map_get_some in E. apply filter_In in E. destruct E as [E _]. apply map_get_some in G1.
      assert (X : (a, b, p) = (b, a, q)) by (apply (uo_unique _ U); auto; right; auto).
      inversion X; congruence. }
    unfold get_pair. rewrite N1, N2. auto.
  - rewrite G in H. inversion H; subst; clear H. simpl.
    split; [exists p; auto|].
    assert (N1 : map_get (map_remove (r_map (w_r w)) b a) b a = None) by apply map_get_remove_same.
    assert (N2 : map_get (map_remove (r_map (w_r w)) b a) a b = None).
    { destruct (map_get (map_remove (r_map (w_r w)) b a) a b) as [q|] eqn:E; [|reflexivity]. exfalso.
      apply map_get_some in E. apply filter_In in E. destruct E as [E _].
      exact (map_get_none _ _ _ G1 q E). }
    unfold get_pair. rewrite N1, N2. auto.
Qed.

(** ================================================================== clause 3: registered pairs only *)
(** the pair address a management endpoint is asked to act on (pause/resume of the router itself
    is the router's own switch, not a pair operation) *)
Definition mgmt_target (op : rop) : option Z :=
  match op with
  | Pause _ a | Resume _ a => if a =? ROUTER then None else Some a
  | RSetFeeOn _ a _ _ | RSetFeeOff _ a _ _ | SetLocalRoles _ a | IssueLp _ a => Some a
  | _ => None
  end.

Lemma registered_only w op w' o addr :
  rstep w op = Ok (w', o) -> mgmt_target op = Some addr -> Registered w addr.
Proof.
  intros H T. destruct op; simpl in T; try discriminate; simpl in H.
  - destruct (addr0 =? ROUTER) eqn:E; [discriminate|]. inversion T; subst addr0.
    unfold ep_pause in H. destruct (is_owner w c); [|discriminate]. rewrite E in H.
    apply bind_ok in H. destruct H as (pe & Hreg & _). eapply registered_Registered; eauto.
  - destruct (addr0 =? ROUTER) eqn:E; [discriminate|]. inversion T; subst addr0.
    unfold ep_pause in H. destruct (is_owner w c); [|discriminate]. rewrite E in H.
    apply bind_ok in H. destruct H as (pe & Hreg & _). eapply registered_Registered; eauto.
  - inversion T; subst addr0. unfold ep_set_fee in H. destruct (is_owner w c); [|discriminate].
    destruct (r_active (w_r w)); [|discriminate].
    apply bind_ok in H. destruct H as (pe & Hreg & _). eapply registered_Registered; eauto.
  - inversion T; subst addr0. unfold ep_set_fee in H. destruct (is_owner w c); [|discriminate].
    destruct (r_active (w_r w)); [|discriminate].
    apply bind_ok in H. destruct H as (pe & Hreg & _). eapply registered_Registered; eauto.
  - inversion T; subst addr0. unfold ep_set_local_roles in H. destruct (r_active (w_r w)); [|discriminate].
    apply bind_ok in H. destruct H as (pe & Hreg & _). eapply registered_Registered; eauto.
  - inversion T; subst addr0. unfold ep_issue_lp in H. cbv zeta in H.
    destruct (r_active (w_r w)); [|discriminate].
    destruct (is_owner w c || r_creation (w_r w)); [|discriminate].
    apply bind_ok in H. destruct H as (pe & Hreg & _). eapply registered_Registered; eauto.
Qed.

(** registration is not affected by swaps: the registry and the tokens a pair reports stay put *)
Definition toks (pe : pent) : Z * Z := (pe_t1 pe, pe_t2 pe).
Definition same_reg (w w' : world) : Prop :=
  r_map (w_r w') = r_map (w_r w) /\
  forall x, option_map toks (pair_at (w_pairs w') x) = option_map toks (pair_at (w_pairs w) x).

Lemma same_reg_refl w : same_reg w w.
Proof. split; auto. Qed.

Lemma same_reg_trans a b c : same_reg a b -> same_reg b c -> same_reg a c.
Proof. intros [A1 A2] [B1 B2]. split; [congruence | intros x; rewrite B2; apply A2]. Qed.

Lemma Registered_same_reg w w' x : same_reg w w' -> (Registered w' x <-> Registered w x).
Proof.
  intros [Hm Ht]. specialize (Ht x). unfold Registered. rewrite Hm. split.
  - intros (pe & P & G). rewrite P in Ht. destruct (pair_at (w_pairs w) x) as [pe0|]; [|discriminate].
    simpl in Ht. inversion Ht. exists pe0. split; [reflexivity|]. congruence.
  - intros (pe & P & G). rewrite P in Ht. destruct (pair_at (w_pairs w') x) as [pe0|]; [|discriminate].
    simpl in Ht. inversion Ht. exists pe0. split; [reflexivity|]. congruence.
Qed.

Lemma do_hop_same_reg w h last resid w' last' resid' :
  do_hop w h last resid = Ok (w', last', resid') -> same_reg w w'.
Proof.
  intros H. destruct (do_hop_frame _ _ _ _ _ _ _ H) as (pe & p' & Hreg & Hr & _ & Hp & _).
  apply registered_ok in Hreg. destruct Hreg as [Hat _].
  split; [rewrite Hr; reflexivity|]. intros x. rewrite Hp, pair_at_upd.
  destruct (x =? fst (fst (fst h))) eqn:E; [|reflexivity].
  beq. subst x. rewrite Hat. reflexivity.
Qed.

Lemma run_hops_app pre : forall post w last resid,
  run_hops w (pre ++ post) last resid =
  (do (w1, l1, r1) <- run_hops w pre last resid; run_hops w1 post l1 r1).
Proof.
  induction pre as [|h t IH]; intros post w last resid; simpl; [reflexivity|].
  destruct (do_hop w h last resid) as [[[w1 l1] r1]|]; simpl; [apply IH | reflexivity].
Qed.

Lemma run_hops_same_reg hops : forall w last resid w' last' resid',
  run_hops w hops last resid = Ok (w', last', resid') -> same_reg w w'.
Proof.
  induction hops as [|h t IH]; intros w last resid w' last' resid' H; simpl in H.
  - inversion H; subst. apply same_reg_refl.
  - apply bind_ok in H. destruct H as ([[w1 l1] r1] & Hh & H).
    eapply same_reg_trans; [eapply do_hop_same_reg; eauto | eapply IH; eauto].
Qed.

Definition hop_addr (h : hop) : Z := fst (fst (fst h)).

Lemma run_hops_registered hops : forall w last resid w' last' resid',
  run_hops w hops last resid = Ok (w', last', resid') -> forall h, In h hops -> Registered w (hop_addr h).
Proof.
  induction hops as [|h0 t IH]; intros w last resid w' last' resid' H h Hin; simpl in H; [destruct Hin|].
  apply bind_ok in H. destruct H as ([[w1 l1] r1] & Hh & H).
  destruct Hin as [<-|Hin].
  - destruct (do_hop_frame _ _ _ _ _ _ _ Hh) as (pe & _ & Hreg & _). eapply registered_Registered; eauto.
  - apply (Registered_same_reg w w1); [eapply do_hop_same_reg; eauto|]. eapply IH; eauto.
Qed.

(** the successful steps of multiPairSwap, in order *)
Lemma multi_swap_struct w c tin amt hops w' ps :
  ep_multi_swap w c tin amt hops = Ok (w', ps) ->
  r_active (w_r w) = true /\ 0 < amt /\ hops <> [] /\
  exists led0 w1 last resid led2,
    debit (w_led w) c tin amt = Ok led0 /\
    run_hops (set_led w (credit led0 ROUTER tin amt)) hops (tin, amt) [] = Ok (w1, last, resid) /\
    ps = resid ++ [last] /\
    pay_all (w_led w1) ROUTER c ps = Ok led2 /\ w' = set_led w1 led2.
Proof.
  unfold ep_multi_swap. intros H.
  destruct (r_active (w_r w)); [|discriminate]. destruct (tok_valid tin); [|discriminate].
  destruct (0 <? amt) eqn:Ea; [|discriminate].
  destruct hops as [|h0 t] eqn:Eh; [discriminate|]. rewrite <- Eh in *.
  apply bind_ok in H. destruct H as (led0 & Hd & H). cbv zeta in H.
  apply bind_ok in H. destruct H as ([[w1 last] resid] & Hr & H).
  apply bind_ok in H. destruct H as (led2 & Hp & H). inversion H; subst w' ps; clear H. beq.
  split; [reflexivity|]. split; [exact Ea|]. split; [rewrite Eh; discriminate|].
  exists led0, w1, last, resid, led2. auto.
Qed.

Lemma multi_swap_hops_registered w c tin amt hops w' ps :
  ep_multi_swap w c tin amt hops = Ok (w', ps) -> forall h, In h hops -> Registered w (hop_addr h).
Proof.
  intros H h Hin. apply multi_swap_struct in H.
  destruct H as (_ & _ & _ & led0 & w1 & last & resid & led2 & _ & Hr & _).
  eapply run_hops_registered in Hr; [|exact Hin]. exact Hr.
Qed.
