(** Router (C14): registry invariant over all histories, creation guard, registered-pairs-only,
    pass-through multi-hop.  The pair-level facts come from Proofs/PairInv.v. *)
From MX Require Import Base.Prelude Gen.Params Model.Pair Model.Router
  Proofs.ParamFacts Proofs.PairInv Proofs.PairChar.

Ltac beq :=
  repeat match goal with
  | H : (_ =? _) = true |- _ => apply Z.eqb_eq in H
  | H : (_ =? _) = false |- _ => apply Z.eqb_neq in H
  | H : (_ <? _) = true |- _ => apply Z.ltb_lt in H
  | H : (_ <? _) = false |- _ => apply Z.ltb_ge in H
  | H : (_ <=? _) = true |- _ => apply Z.leb_le in H
  | H : (_ <=? _) = false |- _ => apply Z.leb_gt in H
  | H : _ && _ = true |- _ => apply andb_prop in H; destruct H
  | H : _ || _ = false |- _ => apply orb_false_elim in H; destruct H
  | H : negb _ = true |- _ => apply negb_true_iff in H
  | H : negb _ = false |- _ => apply negb_false_iff in H
  end.

(** ------------------------------------------------------------------ ledger *)
Definition keq (a t a' t' : Z) : bool := (a =? a') && (t =? t').

Lemma keq_true a t a' t' : keq a t a' t' = true <-> a = a' /\ t = t'.
Proof.
  unfold keq. rewrite andb_true_iff, !Z.eqb_eq. tauto.
Qed.

Lemma lget_lset l a t v a' t' :
  lget (lset l a t v) a' t' = if keq a t a' t' then v else lget l a' t'.
Proof.
  induction l as [|[[a0 t0] v0] tl IH]; simpl.
  - unfold keq. reflexivity.
  - destruct ((a0 =? a) && (t0 =? t)) eqn:E; simpl.
    + beq. subst a0 t0. unfold keq. destruct ((a =? a') && (t =? t')); reflexivity.
    + rewrite IH. destruct (keq a t a' t') eqn:K; [|reflexivity].
      apply keq_true in K. destruct K; subst a' t'. rewrite E. reflexivity.
Qed.

Lemma lget_credit l a t v a' t' :
  lget (credit l a t v) a' t' = lget l a' t' + (if keq a t a' t' then v else 0).
Proof.
  unfold credit. rewrite lget_lset. destruct (keq a t a' t') eqn:K; [|lia].
  apply keq_true in K. destruct K; subst. lia.
Qed.

Lemma debit_ok l a t v l' : debit l a t v = Ok l' ->
  v <= lget l a t /\ forall a' t', lget l' a' t' = lget l a' t' - (if keq a t a' t' then v else 0).
Proof.
  unfold debit. intros H. apply bind_ok in H. destruct H as (b & Hb & H). inversion H; subst; clear H.
  apply sub_chk_ok in Hb. destruct Hb as [Hle ->]. split; [exact Hle|].
  intros a' t'. rewrite lget_lset. destruct (keq a t a' t') eqn:K; [|lia].
  apply keq_true in K. destruct K; subst. lia.
Qed.

(** amount of token [t] in a list of payments *)
Fixpoint sum_tok (l : list (Z * Z)) (t : Z) : Z :=
  match l with
  | [] => 0
  | (t', v) :: tl => (if t' =? t then v else 0) + sum_tok tl t
  end.

Lemma sum_tok_app l1 l2 t : sum_tok (l1 ++ l2) t = sum_tok l1 t + sum_tok l2 t.
Proof. induction l1 as [|[t' v] tl IH]; simpl; [lia | rewrite IH; lia]. Qed.

Lemma pay_all_ok ps : forall l from to l', pay_all l from to ps = Ok l' -> from <> to ->
  forall a t, lget l' a t =
    lget l a t - (if a =? from then sum_tok ps t else 0) + (if a =? to then sum_tok ps t else 0).
Proof.
  induction ps as [|[tk v] tl IH]; intros l from to l' H Hne a t; simpl in H.
  - inversion H; subst. simpl. destruct (a =? from), (a =? to); lia.
  - apply bind_ok in H. destruct H as (l1 & Hd & H).
    apply debit_ok in Hd. destruct Hd as [_ Hd].
    rewrite (IH _ _ _ _ H Hne). rewrite lget_credit, Hd. simpl. unfold keq.
    destruct (a =? from) eqn:E1, (a =? to) eqn:E2, (tk =? t) eqn:E3; beq; subst;
      try congruence; rewrite ?Z.eqb_refl; simpl;
      repeat match goal with
      | |- context [?x =? ?y] => let E := fresh in destruct (x =? y) eqn:E; beq; try congruence
      end; simpl; lia.
Qed.

(** ------------------------------------------------------------------ pair contracts by address *)
Lemma pair_at_upd l a v b :
  pair_at (upd_pair l a v) b =
  if b =? a then (match pair_at l a with Some _ => Some v | None => None end) else pair_at l b.
Proof.
  induction l as [|[k x] tl IH]; simpl.
  - destruct (b =? a); reflexivity.
  - destruct (k =? a) eqn:E; simpl.
    + apply Z.eqb_eq in E. subst k. destruct (b =? a) eqn:E2.
      * apply Z.eqb_eq in E2. subst b. rewrite Z.eqb_refl. reflexivity.
      * rewrite (Z.eqb_sym a b), E2. exact IH.
    + destruct (k =? b) eqn:E3.
      * apply Z.eqb_eq in E3. subst k. rewrite E. reflexivity.
      * exact IH.
Qed.

Lemma pair_at_app l a v b :
  pair_at (l ++ [(a, v)]) b =
  match pair_at l b with Some x => Some x | None => if a =? b then Some v else None end.
Proof.
  induction l as [|[k x] tl IH]; simpl; [reflexivity|].
  destruct (k =? b); [reflexivity | exact IH].
Qed.

(** ------------------------------------------------------------------ pair_map: keys up to order *)
Definition uo_eq (k1 k2 : Z * Z) : Prop :=
  (fst k1 = fst k2 /\ snd k1 = snd k2) \/ (fst k1 = snd k2 /\ snd k1 = fst k2).

Fixpoint uo_nodup (m : list (Z * Z * Z)) : Prop :=
  match m with
  | [] => True
  | e :: t => (forall e', In e' t -> ~ uo_eq (fst e) (fst e')) /\ uo_nodup t
  end.

Lemma key_is_true e a b : key_is e a b = true <-> fst e = (a, b).
Proof.
  destruct e as [[x y] p]. unfold key_is. simpl. rewrite andb_true_iff, !Z.eqb_eq.
  split; [intros [-> ->]; reflexivity | intros H; inversion H; auto].
Qed.

Lemma map_get_some m a b p : map_get m a b = Some p -> In (a, b, p) m.
Proof.
  induction m as [|e t IH]; simpl; [discriminate|].
  destruct (key_is e a b) eqn:E.
  - intros H. inversion H; subst. apply key_is_true in E. left. destruct e as [k q]. simpl in *. subst. reflexivity.
  - intros H. right. auto.
Qed.

Lemma map_get_none m a b : map_get m a b = None -> forall p, ~ In (a, b, p) m.
Proof.
  induction m as [|e t IH]; simpl; intros H p; [tauto|].
  destruct (key_is e a b) eqn:E; [discriminate|].
  intros [Hin|Hin]; [|exact (IH H p Hin)].
  subst e. unfold key_is in E. simpl in E. rewrite !Z.eqb_refl in E. discriminate.
Qed.

Lemma map_get_in m a b p : In (a, b, p) m -> exists q, map_get m a b = Some q.
Proof.
  intros Hin. destruct (map_get m a b) eqn:E; [eauto|].
  exfalso. exact (map_get_none _ _ _ E p Hin).
Qed.

Lemma map_get_app m e a b :
  map_get (m ++ [e]) a b =
  match map_get m a b with Some p => Some p | None => if key_is e a b then Some (snd e) else None end.
Proof.
  induction m as [|e0 t IH]; simpl; [reflexivity|].
  destruct (key_is e0 a b); [reflexivity | exact IH].
Qed.

(** two entries whose keys agree up to order are one and the same entry *)
Lemma uo_unique m : uo_nodup m -> forall e1 e2, In e1 m -> In e2 m -> uo_eq (fst e1) (fst e2) -> e1 = e2.
Proof.
  induction m as [|e t IH]; simpl; [intros _ e1 e2 []|].
  intros [Hh Ht] e1 e2 H1 H2 Hu.
  destruct H1 as [<-|H1], H2 as [<-|H2].
  - reflexivity.
  - exfalso. exact (Hh _ H2 Hu).
  - exfalso. apply (Hh _ H1). unfold uo_eq in *. intuition congruence.
  - apply IH; assumption.
Qed.

Lemma uo_lookup_agree m a b p q : uo_nodup m ->
  map_get m a b = Some p -> map_get m b a = Some q -> p = q.
Proof.
  intros Hu H1 H2. apply map_get_some in H1. apply map_get_some in H2.
  assert (E : (a, b, p) = (b, a, q)).
  { apply (uo_unique m Hu); auto. unfold uo_eq. simpl. right. auto. }
  inversion E; reflexivity.
Qed.

(** lookups are order-insensitive *)
Lemma get_pair_sym m a b : uo_nodup m -> get_pair m a b = get_pair m b a.
Proof.
  intros Hu. unfold get_pair.
  destruct (map_get m a b) as [p|] eqn:E1, (map_get m b a) as [q|] eqn:E2; try reflexivity.
  f_equal. eapply uo_lookup_agree; eauto.
Qed.

Lemma get_pair_some m a b p : get_pair m a b = Some p -> In (a, b, p) m \/ In (b, a, p) m.
Proof.
  unfold get_pair. destruct (map_get m a b) eqn:E.
  - intros H. inversion H; subst. left. apply map_get_some. exact E.
  - intros H. right. apply map_get_some. exact H.
Qed.

Lemma get_pair_none m a b : get_pair m a b = None ->
  forall e, In e m -> ~ uo_eq (a, b) (fst e).
Proof.
  unfold get_pair. destruct (map_get m a b) eqn:E1; [discriminate|].
  intros E2 [[x y] p] Hin [[Hx Hy]|[Hx Hy]]; simpl in *; subst.
  - exact (map_get_none _ _ _ E1 p Hin).
  - exact (map_get_none _ _ _ E2 p Hin).
Qed.

Lemma get_pair_of_in m a b p : uo_nodup m -> In (a, b, p) m ->
  get_pair m a b = Some p /\ get_pair m b a = Some p.
Proof.
  intros Hu Hin.
  assert (H1 : get_pair m a b = Some p).
  { unfold get_pair. destruct (map_get_in _ _ _ _ Hin) as (q & Hq). rewrite Hq.
    apply map_get_some in Hq.
    assert (E : (a, b, q) = (a, b, p)) by (apply (uo_unique m Hu); auto; left; auto).
    inversion E; reflexivity. }
  split; [exact H1 | rewrite <- get_pair_sym by assumption; exact H1].
Qed.

Lemma uo_nodup_app m a b p : uo_nodup m -> get_pair m a b = None -> uo_nodup (m ++ [(a, b, p)]).
Proof.
  intros Hu Hn. induction m as [|e t IH]; simpl.
  - split; [intros e' [] | exact I].
  - destruct Hu as [Hh Ht]. split.
    + intros e' Hin. apply in_app_or in Hin. destruct Hin as [Hin|[<-|[]]]; [auto|].
      intros Hq. apply (get_pair_none _ _ _ Hn e (or_introl eq_refl)).
      unfold uo_eq in *. simpl in *. intuition congruence.
    + apply IH; [exact Ht|].
      unfold get_pair in *. simpl in Hn.
      destruct (key_is e a b); [discriminate|].
      destruct (map_get t a b); [discriminate|].
      destruct (key_is e b a); [discriminate | exact Hn].
Qed.

Lemma uo_nodup_filter f m : uo_nodup m -> uo_nodup (filter f m).
Proof.
  induction m as [|e t IH]; simpl; [auto|]. intros [Hh Ht].
  destruct (f e); simpl; [|auto].
  split; [|auto]. intros e' Hin. apply filter_In in Hin. apply Hh. tauto.
Qed.

Lemma map_get_remove_same m a b : map_get (map_remove m a b) a b = None.
Proof.
  unfold map_remove. induction m as [|e t IH]; simpl; [reflexivity|].
  destruct (key_is e a b) eqn:E; simpl; [exact IH | rewrite E; exact IH].
Qed.

(** ------------------------------------------------------------------ world invariant *)
Record WInv (w : world) : Prop := {
  wi_uo : uo_nodup (r_map (w_r w));
  wi_ent : forall a b x, In (a, b, x) (r_map (w_r w)) ->
           a <> b /\ exists pe, pair_at (w_pairs w) x = Some pe /\ pe_t1 pe = a /\ pe_t2 pe = b;
  wi_pinv : forall x pe, pair_at (w_pairs w) x = Some pe -> PairInv (pe_p pe)
}.

Lemma winv_frame w w' : r_map (w_r w') = r_map (w_r w) -> w_pairs w' = w_pairs w -> WInv w -> WInv w'.
Proof. intros Hr Hp []. constructor; rewrite ?Hr, ?Hp; assumption. Qed.

Lemma winv_upd w addr pe pe' : WInv w -> pair_at (w_pairs w) addr = Some pe ->
  pe_t1 pe' = pe_t1 pe -> pe_t2 pe' = pe_t2 pe -> PairInv (pe_p pe') ->
  WInv (set_pairs w (upd_pair (w_pairs w) addr pe')).
Proof.
  intros [] Hat H1 H2 Hinv. constructor; simpl.
  - assumption.
  - intros a b x Hin. destruct (wi_ent0 a b x Hin) as (Hne & pe0 & Hp & Ha & Hb).
    split; [exact Hne|]. rewrite pair_at_upd. destruct (x =? addr) eqn:E.
    + beq. subst x. rewrite Hat. exists pe'. rewrite Hat in Hp. inversion Hp; subst pe0.
      repeat split; congruence.
    + exists pe0. auto.
  - intros x pe0. rewrite pair_at_upd. destruct (x =? addr) eqn:E.
    + rewrite Hat. intros H. inversion H; subst. exact Hinv.
    + apply wi_pinv0.
Qed.

Lemma winv_add_pair w na pe : WInv w -> pair_at (w_pairs w) na = None -> PairInv (pe_p pe) ->
  WInv (set_pairs w (w_pairs w ++ [(na, pe)])).
Proof.
  intros [] Hfresh Hinv. constructor; simpl.
  - assumption.
  - intros a b x Hin. destruct (wi_ent0 a b x Hin) as (Hne & pe0 & Hp & Ha & Hb).
    split; [exact Hne|]. exists pe0. rewrite pair_at_app, Hp. auto.
  - intros x pe0. rewrite pair_at_app. destruct (pair_at (w_pairs w) x) eqn:E.
    + intros H. inversion H; subst. eapply wi_pinv0; eauto.
    + destruct (na =? x); intros H; inversion H; subst. exact Hinv.
Qed.

Lemma registered_ok w addr pe : registered w addr = Ok pe ->
  pair_at (w_pairs w) addr = Some pe /\ get_pair (r_map (w_r w)) (pe_t1 pe) (pe_t2 pe) = Some addr.
Proof.
  unfold registered. destruct (pair_at (w_pairs w) addr) as [pe0|] eqn:E; [|discriminate].
  destruct (get_pair _ _ _) as [a'|] eqn:G; [|discriminate].
  destruct (a' =? addr) eqn:E2; [|discriminate]. intros H. inversion H; subst. beq. subst. auto.
Qed.

Lemma pair_init_ok_spec a b f sf : pair_init_ok a b f sf = true ->
  a <> b /\ 0 < a /\ 0 < b /\ 0 <= sf <= f /\ f <= PAIR_MAX_FEE_PERCENTAGE.
Proof. unfold pair_init_ok, tok_valid. intros H. beq. lia. Qed.

Lemma fresh_addr_spec w na : fresh_addr w na = true -> na <> ROUTER /\ pair_at (w_pairs w) na = None.
Proof.
  unfold fresh_addr. intros H. beq. split; [assumption|].
  destruct (pair_at (w_pairs w) na); [discriminate | reflexivity].
Qed.

Lemma create_pair_winv w c a b adder fees na w' o :
  ep_create_pair w c a b adder fees na = Ok (w', o) -> WInv w -> WInv w'.
Proof.
  unfold ep_create_pair. intros H Hinv. cbv zeta in H.
  destruct (r_active (w_r w)); [|discriminate].
  destruct (is_owner w c || r_creation (w_r w)); [|discriminate].
  destruct (negb (a =? b)) eqn:Eab; [|discriminate].
  destruct (tok_valid a); [|discriminate]. destruct (tok_valid b); [|discriminate].
  destruct (get_pair (r_map (w_r w)) a b) eqn:G; [discriminate|].
  apply bind_ok in H. destruct H as ([f sf] & _ & H).
  destruct (fresh_addr w na) eqn:Ef; [|discriminate].
  destruct (pair_init_ok a b f sf) eqn:Ei; [|discriminate].
  inversion H; subst; clear H.
  apply fresh_addr_spec in Ef. destruct Ef as [_ Ef].
  apply pair_init_ok_spec in Ei. destruct Ei as (Hne & _ & _ & Hf1 & Hf2).
  set (pe := mkPent a b false (init_pair f sf (if adder =? 0 then None else Some adder))).
  assert (Hp : PairInv (pe_p pe)) by (apply init_inv; assumption).
  pose proof (winv_add_pair w na pe Hinv Ef Hp) as [U E P].
  constructor; simpl in *.
  - apply uo_nodup_app; assumption.
  - intros x y z Hin. apply in_app_or in Hin. destruct Hin as [Hin|[Hin|[]]].
    + apply E. exact Hin.
    + inversion Hin; subst. split; [exact Hne|]. exists pe. rewrite pair_at_app, Ef, Z.eqb_refl. auto.
  - exact P.
Qed.

Lemma remove_pair_winv w c a b w' o :
  ep_remove_pair w c a b = Ok (w', o) -> WInv w -> WInv w'.
Proof.
  unfold ep_remove_pair. intros H Hinv. cbv zeta in H.
  destruct (is_owner w c); [|discriminate]. destruct (r_active (w_r w)); [|discriminate].
  destruct (negb (a =? b)); [|discriminate].
  destruct (tok_valid a); [|discriminate]. destruct (tok_valid b); [|discriminate].
  destruct (get_pair (r_map (w_r w)) a b); [|discriminate].
  assert (Hrm : forall x y, WInv (set_r w (set_map (w_r w) (map_remove (r_map (w_r w)) x y)))).
  { intros x y. destruct Hinv as [U E P]. constructor; simpl.
    - apply uo_nodup_filter. exact U.
    - intros a0 b0 z0 Hin. apply filter_In in Hin. apply E. tauto.
    - exact P. }
  destruct (map_get (r_map (w_r w)) a b).
  - inversion H; subst. apply Hrm.
  - destruct (map_get (r_map (w_r w)) b a); inversion H; subst; [apply Hrm | exact Hinv].
Qed.

Lemma pair_admin_winv w addr pe op w' o :
  pair_admin w addr pe op = Ok (w', o) -> pair_at (w_pairs w) addr = Some pe -> WInv w -> WInv w'.
Proof.
  unfold pair_admin. intros H Hat Hinv.
  apply bind_ok in H. destruct H as ([[p' o1] e1] & Hs & H). inversion H; subst; clear H.
  apply winv_upd with (pe := pe); auto.
  simpl. apply step_spec in Hs; [tauto|]. eapply wi_pinv; eauto.
Qed.

(** one hop: the registry and every other pair are left alone, the hop's pair keeps its tokens *)
Lemma do_hop_frame w h last resid w' last' resid' :
  do_hop w h last resid = Ok (w', last', resid') ->
  exists pe p', registered w (fst (fst (fst h))) = Ok pe /\
    w_r w' = w_r w /\ w_block w' = w_block w /\
    w_pairs w' = upd_pair (w_pairs w) (fst (fst (fst h))) (set_pp pe p') /\
    (WInv w -> PairInv p').
Proof.
  destruct h as [[[addr f] tw] aw]. destruct last as [tin ain]. unfold do_hop. simpl fst.
  intros H. apply bind_ok in H. destruct H as (pe & Hreg & H).
  destruct (f =? FIXED_IN).
  - apply bind_ok in H. destruct H as (led1 & _ & H).
    apply bind_ok in H. destruct H as ([[p' o] e] & Hs & H).
    destruct o as [|out [|? ?]]; try discriminate. destruct (e_ext e); [|discriminate].
    inversion H; subst; clear H. exists pe, p'.
    split; [exact Hreg|]. split; [reflexivity|]. split; [reflexivity|]. split; [reflexivity|].
    intros Hinv. apply registered_ok in Hreg. destruct Hreg as [Hat _].
    apply ep_swap_in_spec in Hs; [tauto|]. eapply wi_pinv; eauto.
  - destruct (f =? FIXED_OUT); [|discriminate].
    apply bind_ok in H. destruct H as (led1 & _ & H).
    apply bind_ok in H. destruct H as ([[p' o] e] & Hs & H).
    destruct o as [|out [|res [|? ?]]]; try discriminate. destruct (e_ext e); [|discriminate].
    inversion H; subst; clear H. exists pe, p'.
    split; [exact Hreg|]. split; [reflexivity|]. split; [reflexivity|]. split; [reflexivity|].
    intros Hinv. apply registered_ok in Hreg. destruct Hreg as [Hat _].
    apply ep_swap_out_spec in Hs; [tauto|]. eapply wi_pinv; eauto.
Qed.

Lemma do_hop_winv w h last resid w' last' resid' :
  do_hop w h last resid = Ok (w', last', resid') -> WInv w -> WInv w'.
Proof.
  intros H Hinv. destruct (do_hop_frame _ _ _ _ _ _ _ H) as (pe & p' & Hreg & Hr & _ & Hp & Hpi).
  apply registered_ok in Hreg. destruct Hreg as [Hat _].
  pose proof (winv_upd w _ pe (set_pp pe p') Hinv Hat eq_refl eq_refl (Hpi Hinv)) as Hw.
  eapply winv_frame; [| |exact Hw]; simpl; [rewrite Hr; reflexivity | assumption].
Qed.

Lemma run_hops_winv hops : forall w last resid w' last' resid',
  run_hops w hops last resid = Ok (w', last', resid') -> WInv w -> WInv w'.
Proof.
  induction hops as [|h t IH]; intros w last resid w' last' resid' H Hinv; simpl in H.
  - inversion H; subst. exact Hinv.
  - apply bind_ok in H. destruct H as ([[w1 l1] r1] & Hh & H).
    eapply IH; [exact H|]. eapply do_hop_winv; eauto.
Qed.

Lemma multi_swap_winv w c tin amt hops w' ps :
  ep_multi_swap w c tin amt hops = Ok (w', ps) -> WInv w -> WInv w'.
Proof.
  unfold ep_multi_swap. intros H Hinv.
  destruct (r_active (w_r w)); [|discriminate]. destruct (tok_valid tin); [|discriminate].
  destruct (0 <? amt); [|discriminate].
  destruct (match hops with [] => false | _ => true end); [|discriminate].
  apply bind_ok in H. destruct H as (led0 & _ & H). cbv zeta in H.
  apply bind_ok in H. destruct H as ([[w1 last] resid] & Hr & H).
  apply bind_ok in H. destruct H as (led2 & _ & H). inversion H; subst; clear H.
  apply run_hops_winv in Hr.
  - eapply winv_frame; [| |exact Hr]; reflexivity.
  - eapply winv_frame; [| |exact Hinv]; reflexivity.
Qed.

(** setSwapEnabledByUser: what a success implies, and what it does *)
Lemma enable_swap_spec w c addr ltok orig unlock amt w' o :
  ep_enable_swap w c addr ltok orig unlock amt = Ok (w', o) ->
  exists pe p1 p2 o1 e1 o2 e2,
    r_active (w_r w) = true /\ registered w addr = Ok pe /\
    p_state (pe_p pe) = ST_PartialActive /\ pe_lp pe = true /\ orig = addr /\
    p_adder (pe_p pe) = Some c /\
    step (pe_p pe) (SetFee OWNER ROUTER_USER_DEFINED_TOTAL_FEE_PERCENT ROUTER_DEFAULT_SPECIAL_FEE_PERCENT) = Ok (p1, o1, e1) /\
    step p1 (SetState OWNER ST_Active) = Ok (p2, o2, e2) /\
    w' = set_pairs w (upd_pair (w_pairs w) addr (set_pp pe p2)) /\ o = [].
Proof.
  unfold ep_enable_swap. intros H. cbv zeta in H.
  destruct (r_active (w_r w)); [|discriminate].
  apply bind_ok in H. destruct H as (pe & Hreg & H).
  destruct (p_state (pe_p pe) =? ST_PartialActive) eqn:Es; [|discriminate].
  destruct (is_locked_tok ltok); [|discriminate].
  destruct (pe_lp pe) eqn:Elp; [|discriminate]. destruct (orig =? addr) eqn:Eo; [|discriminate].
  destruct (view_tokens_for_position (pe_p pe) amt) as [v1 v2].
  apply bind_ok in H. destruct H as ([common value] & _ & H).
  destruct (cfg_get (r_cfg (w_r w)) common) as [[[locked minval] minep]|]; [|discriminate].
  destruct (ltok =? locked); [|discriminate]. destruct (minval <=? value); [|discriminate].
  destruct (minep <=? _); [|discriminate].
  destruct (p_adder (pe_p pe)) as [ad|] eqn:Ead; [|discriminate].
  destruct (c =? ad) eqn:Ec; [|discriminate].
  apply bind_ok in H. destruct H as ([[p1 o1] e1] & Hs1 & H).
  apply bind_ok in H. destruct H as ([[p2 o2] e2] & Hs2 & H).
  inversion H; subst; clear H. beq. subst.
  exists pe, p1, p2, o1, e1, o2, e2. auto 12.
Qed.

Lemma enable_swap_winv w c addr ltok orig unlock amt w' o :
  ep_enable_swap w c addr ltok orig unlock amt = Ok (w', o) -> WInv w -> WInv w'.
Proof.
  intros H Hinv. apply enable_swap_spec in H.
  destruct H as (pe & p1 & p2 & o1 & e1 & o2 & e2 & _ & Hreg & _ & _ & _ & _ & Hs1 & Hs2 & -> & _).
  apply registered_ok in Hreg. destruct Hreg as [Hat _].
  apply winv_upd with (pe := pe); auto. simpl.
  apply step_spec in Hs1; [|eapply wi_pinv; eauto]. apply step_spec in Hs2; tauto.
Qed.

Lemma rstep_winv w op w' o : rstep w op = Ok (w', o) -> WInv w -> WInv w'.
Proof.
  intros H Hinv. destruct op; simpl in H.
  - eapply create_pair_winv; eauto.
  - eapply remove_pair_winv; eauto.
  - (* UpgradePair *) unfold ep_upgrade_pair in H. cbv zeta in H.
    destruct (is_owner w c); [|discriminate]. destruct (r_active (w_r w)); [|discriminate].
    destruct (negb (a =? b)); [|discriminate].
    destruct (tok_valid a); [|discriminate]. destruct (tok_valid b); [|discriminate].
    destruct (get_pair _ _ _); inversion H; subst. exact Hinv.
  - (* Pause *) unfold ep_pause in H. destruct (is_owner w c); [|discriminate].
    destruct (addr =? ROUTER).
    + inversion H; subst. eapply winv_frame; [| |exact Hinv]; reflexivity.
    + apply bind_ok in H. destruct H as (pe & Hreg & H). apply registered_ok in Hreg.
      eapply pair_admin_winv; eauto. tauto.
  - (* Resume *) unfold ep_pause in H. destruct (is_owner w c); [|discriminate].
    destruct (addr =? ROUTER).
    + inversion H; subst. eapply winv_frame; [| |exact Hinv]; reflexivity.
    + apply bind_ok in H. destruct H as (pe & Hreg & H). apply registered_ok in Hreg.
      eapply pair_admin_winv; eauto. tauto.
  - (* RSetFeeOn *) unfold ep_set_fee in H. destruct (is_owner w c); [|discriminate].
    destruct (r_active (w_r w)); [|discriminate].
    apply bind_ok in H. destruct H as (pe & Hreg & H). apply registered_ok in Hreg.
    eapply pair_admin_winv; eauto. tauto.
  - (* RSetFeeOff *) unfold ep_set_fee in H. destruct (is_owner w c); [|discriminate].
    destruct (r_active (w_r w)); [|discriminate].
    apply bind_ok in H. destruct H as (pe & Hreg & H). apply registered_ok in Hreg.
    eapply pair_admin_winv; eauto. tauto.
  - (* SetLocalRoles *) unfold ep_set_local_roles in H. destruct (r_active (w_r w)); [|discriminate].
    apply bind_ok in H. destruct H as (pe & _ & H). destruct (pe_lp pe); inversion H; subst. exact Hinv.
  - (* IssueLp *) unfold ep_issue_lp in H. cbv zeta in H. destruct (r_active (w_r w)); [|discriminate].
    destruct (is_owner w c || r_creation (w_r w)); [|discriminate].
    apply bind_ok in H. destruct H as (pe & _ & H).
    destruct (match temp_owner w addr with None => true | Some t => c =? t end); [|discriminate].
    destruct (negb (pe_lp pe)); inversion H; subst. exact Hinv.
  - (* SetCreation *) unfold ep_set_creation in H. destruct (is_owner w c); inversion H; subst.
    eapply winv_frame; [| |exact Hinv]; reflexivity.
  - (* MultiSwap *) apply bind_ok in H. destruct H as ([w1 ps] & Hm & H). inversion H; subst.
    eapply multi_swap_winv; eauto.
  - (* DeployPair *) unfold ep_deploy_pair in H.
    destruct (fresh_addr w na) eqn:Ef; [|discriminate].
    destruct (pair_init_ok a b f sf) eqn:Ei; [|discriminate]. inversion H; subst; clear H.
    apply fresh_addr_spec in Ef. apply pair_init_ok_spec in Ei.
    apply winv_add_pair; [exact Hinv | tauto | simpl; apply init_inv; tauto].
  - (* SetLp *) unfold ep_set_lp in H. destruct (pair_at (w_pairs w) addr) as [pe|] eqn:Hat; [|discriminate].
    destruct (has_owner_perm c); [|discriminate]. destruct (negb (pe_lp pe)); inversion H; subst.
    apply winv_upd with (pe := pe); auto. simpl. eapply wi_pinv; eauto.
  - (* Direct *) unfold ep_direct in H. destruct (pair_at (w_pairs w) addr) as [pe|] eqn:Hat; [|discriminate].
    destruct (direct_allowed op); [|discriminate].
    destruct (negb (needs_lp op) || pe_lp pe); [|discriminate].
    apply bind_ok in H. destruct H as ([[p' o1] e1] & Hs & H).
    destruct (match e_ext e1 with [] => true | _ => false end); [|discriminate].
    destruct (moves op o1) as [[c0 debs] creds].
    apply bind_ok in H. destruct H as (led1 & _ & H). inversion H; subst; clear H.
    assert (Hp : PairInv p') by (apply step_spec in Hs; [tauto | eapply wi_pinv; eauto]).
    pose proof (winv_upd w addr pe (set_pp pe p') Hinv Hat eq_refl eq_refl Hp) as Hw.
    eapply winv_frame; [| |exact Hw]; reflexivity.
  - (* DonateRouter *) unfold ep_donate_router in H. destruct (0 <? amt); [|discriminate].
    apply bind_ok in H. destruct H as (led1 & _ & H). inversion H; subst.
    eapply winv_frame; [| |exact Hinv]; reflexivity.
  - (* SetBlock *) inversion H; subst. eapply winv_frame; [| |exact Hinv]; reflexivity.
  - (* AddCommon *) unfold ep_add_common in H. destruct (is_owner w c); [|discriminate].
    destruct (tok_valid tok); [|discriminate]. cbv zeta in H. inversion H; subst.
    eapply winv_frame; [| |exact Hinv]; reflexivity.
  - (* RemoveCommon *) unfold ep_remove_common in H. destruct (is_owner w c); [|discriminate].
    cbv zeta in H. inversion H; subst. eapply winv_frame; [| |exact Hinv]; reflexivity.
  - (* ConfigEnable *) unfold ep_config_enable in H. destruct (is_owner w c); [|discriminate].
    destruct (tok_valid common); [|discriminate]. destruct (tok_valid locked); [|discriminate].
    cbv zeta in H. destruct (zmem common (r_common (w_r w))); [|discriminate]. inversion H; subst.
    eapply winv_frame; [| |exact Hinv]; reflexivity.
  - (* EnableSwap *) eapply enable_swap_winv; eauto.
  - (* SetEpoch *) inversion H; subst. eapply winv_frame; [| |exact Hinv]; reflexivity.
Qed.

Lemma rstep_total_winv w op : WInv w -> WInv (rstep_total w op).
Proof.
  intros H. unfold rstep_total. destruct (rstep w op) as [[w' o]|] eqn:E; [|exact H].
  eapply rstep_winv; eauto.
Qed.

Lemma rrun_winv ops : forall w, WInv w -> WInv (rrun w ops).
Proof.
  induction ops as [|op t IH]; intros w H; simpl; [exact H|].
  apply IH. apply rstep_total_winv. exact H.
Qed.

Lemma init_winv led blk : WInv (init_world led blk).
Proof.
  constructor; simpl.
  - exact I.
  - intros a b x [].
  - intros x pe H. discriminate.
Qed.

(** ================================================================== clause 1: the registry *)
Lemma registry_one_per_pair w : WInv w -> forall a b x c d y,
  In (a, b, x) (r_map (w_r w)) -> In (c, d, y) (r_map (w_r w)) -> uo_eq (a, b) (c, d) ->
  (a, b, x) = (c, d, y).
Proof. intros [U _ _] a b x c d y H1 H2 Hu. apply (uo_unique _ U (a, b, x) (c, d, y)); auto. Qed.

Lemma registry_lookup_sym w : WInv w -> forall a b,
  get_pair (r_map (w_r w)) a b = get_pair (r_map (w_r w)) b a.
Proof. intros [U _ _] a b. apply get_pair_sym. exact U. Qed.

(** getPair answers exactly the entries, in either order *)
Lemma registry_lookup_char w : WInv w -> forall a b x,
  get_pair (r_map (w_r w)) a b = Some x <-> (In (a, b, x) (r_map (w_r w)) \/ In (b, a, x) (r_map (w_r w))).
Proof.
  intros [U _ _] a b x. split.
  - apply get_pair_some.
  - intros [H|H]; apply (get_pair_of_in _ _ _ _ U) in H; tauto.
Qed.

(** distinct token pairs are served by distinct pair contracts *)
Lemma registry_addr_nodup w : WInv w -> NoDup (all_pairs (r_map (w_r w))).
Proof.
  intros [U E _]. unfold all_pairs.
  assert (Hk : forall e1 e2, In e1 (r_map (w_r w)) -> In e2 (r_map (w_r w)) -> snd e1 = snd e2 ->
               uo_eq (fst e1) (fst e2)).
  { intros [[a b] x] [[c d] y] H1 H2 Hs. simpl in Hs. subst y.
    destruct (E _ _ _ H1) as (_ & pe1 & P1 & A1 & B1). destruct (E _ _ _ H2) as (_ & pe2 & P2 & A2 & B2).
    rewrite P1 in P2. inversion P2; subst pe2. left. simpl. split; congruence. }
  revert U Hk. generalize (r_map (w_r w)). intros m. induction m as [|e t IH]; simpl; intros U Hk.
  - constructor.
  - destruct U as [Hh Ht]. constructor.
    + intros Hin. apply in_map_iff in Hin. destruct Hin as (e' & Hs & Hin).
      apply (Hh e' Hin). apply Hk; auto.
    + apply IH; [exact Ht|]. intros e1 e2 H1 H2. apply Hk; auto.
Qed.

(** the address is the pair_map entry for the tokens the contract at that address reports *)
Definition Registered (w : world) (addr : Z) : Prop :=
  exists pe, pair_at (w_pairs w) addr = Some pe /\
             get_pair (r_map (w_r w)) (pe_t1 pe) (pe_t2 pe) = Some addr.

Lemma registered_Registered w addr pe : registered w addr = Ok pe -> Registered w addr.
Proof. intros H. apply registered_ok in H. exists pe. exact H. Qed.

Lemma Registered_registered w addr : Registered w addr -> exists pe, registered w addr = Ok pe.
Proof.
  intros (pe & Hat & G). exists pe. unfold registered. rewrite Hat, G, Z.eqb_refl. reflexivity.
Qed.

(** ... which, on reachable worlds, is the same as being listed by getAllPairsManagedAddresses *)
Lemma registered_iff_listed w addr : WInv w ->
  (Registered w addr <-> In addr (all_pairs (r_map (w_r w)))).
Proof.
  intros [U E _]. unfold all_pairs. split.
  - intros (pe & _ & G). apply get_pair_some in G.
    destruct G as [G|G]; apply (in_map snd) in G; exact G.
  - intros Hin. apply in_map_iff in Hin. destruct Hin as ([[a b] x] & Hs & Hin). simpl in Hs. subst x.
    destruct (E _ _ _ Hin) as (_ & pe & P & A & B). exists pe. split; [exact P|].
    subst a b. apply (get_pair_of_in _ _ _ _ U Hin).
Qed.

Lemma reachable_winv led blk ops : WInv (rrun (init_world led blk) ops).
Proof. apply rrun_winv. apply init_winv. Qed.

(** ================================================================== clause 2: creation guard *)
Lemma get_pair_none_sym m a b : get_pair m a b = None -> get_pair m b a = None.
Proof.
  unfold get_pair. destruct (map_get m a b) eqn:E1; [discriminate|]. intros E2. rewrite E2. reflexivity.
Qed.

Lemma create_pair_guard w c a b adder fees na w' o :
  ep_create_pair w c a b adder fees na = Ok (w', o) ->
  r_active (w_r w) = true /\ (c = r_owner (w_r w) \/ r_creation (w_r w) = true) /\ a <> b /\
  get_pair (r_map (w_r w)) a b = None /\ get_pair (r_map (w_r w)) b a = None /\
  o = [na] /\ pair_at (w_pairs w) na = None /\
  r_map (w_r w') = r_map (w_r w) ++ [(a, b, na)] /\
  exists pe, pair_at (w_pairs w') na = Some pe /\ pe_t1 pe = a /\ pe_t2 pe = b /\ pe_lp pe = false /\
             p_state (pe_p pe) = ST_Inactive /\ p_S (pe_p pe) = 0 /\
             (c <> r_owner (w_r w) ->
              p_fee (pe_p pe) = ROUTER_DEFAULT_TOTAL_FEE_PERCENT /\
              p_sfee (pe_p pe) = ROUTER_DEFAULT_SPECIAL_FEE_PERCENT).
Proof.
  unfold ep_create_pair. intros H. cbv zeta in H.
  destruct (r_active (w_r w)) eqn:Ea; [|discriminate].
  destruct (is_owner w c || r_creation (w_r w)) eqn:Eo; [|discriminate].
  destruct (negb (a =? b)) eqn:Eab; [|discriminate].
  destruct (tok_valid a); [|discriminate]. destruct (tok_valid b); [|discriminate].
  destruct (get_pair (r_map (w_r w)) a b) eqn:G; [discriminate|].
  apply bind_ok in H. destruct H as ([f sf] & Hf & H).
  destruct (fresh_addr w na) eqn:Ef; [|discriminate].
  destruct (pair_init_ok a b f sf) eqn:Ei; [|discriminate].
  inversion H; subst; clear H.
  apply fresh_addr_spec in Ef. destruct Ef as [_ Ef]. beq.
  split; [reflexivity|]. split.
  { unfold is_owner in Eo. apply orb_prop in Eo. destruct Eo as [Eo|Eo]; [left; beq; exact Eo | right; exact Eo]. }
  split; [exact Eab|]. split; [reflexivity|]. split; [apply get_pair_none_sym; exact G|].
  split; [reflexivity|]. split; [exact Ef|]. split; [reflexivity|].
  eexists. split; [simpl; rewrite pair_at_app, Ef, Z.eqb_refl; reflexivity|]. simpl.
  split; [reflexivity|]. split; [reflexivity|]. split; [reflexivity|]. split; [reflexivity|].
  split; [reflexivity|].
  intros Hno. unfold is_owner in Hf. destruct (c =? r_owner (w_r w)) eqn:E; [beq; contradiction|].
  inversion Hf; subst. split; reflexivity.
Qed.

Lemma create_pair_registers w c a b adder fees na w' o : WInv w ->
  ep_create_pair w c a b adder fees na = Ok (w', o) ->
  get_pair (r_map (w_r w')) a b = Some na /\ get_pair (r_map (w_r w')) b a = Some na /\
  all_pairs (r_map (w_r w')) = all_pairs (r_map (w_r w)) ++ [na] /\
  ~ In na (all_pairs (r_map (w_r w))) /\ Registered w' na.
Proof.
  intros Hinv H. pose proof (create_pair_winv _ _ _ _ _ _ _ _ _ H Hinv) as Hinv'.
  apply create_pair_guard in H.
  destruct H as (_ & _ & _ & _ & _ & _ & Hfresh & Hm & pe & Hat & A & B & _).
  assert (Hin : In (a, b, na) (r_map (w_r w'))) by (rewrite Hm; apply in_or_app; right; left; reflexivity).
  destruct (get_pair_of_in _ _ _ _ (wi_uo _ Hinv') Hin) as [G1 G2].
  split; [exact G1|]. split; [exact G2|].
  split; [rewrite Hm; unfold all_pairs; rewrite map_app; reflexivity|].
  split.
  - intros Hl. apply (registered_iff_listed _ _ Hinv) in Hl. destruct Hl as (pe0 & P & _). congruence.
  - exists pe. subst a b. auto.
Qed.

Lemma remove_pair_guard w c a b w' o : WInv w ->
  ep_remove_pair w c a b = Ok (w', o) ->
  c = r_owner (w_r w) /\ r_active (w_r w) = true /\ a <> b /\
  (exists p, get_pair (r_map (w_r w)) a b = Some p /\ o = [p]) /\
  get_pair (r_map (w_r w')) a b = None /\ get_pair (r_map (w_r w')) b a = None /\
  w_pairs w' = w_pairs w.
Proof.
  intros Hinv H. pose proof H as H0. unfold ep_remove_pair in H. cbv zeta in H.
  destruct (is_owner w c) eqn:Eo; [|discriminate]. destruct (r_active (w_r w)); [|discriminate].
  destruct (negb (a =? b)) eqn:Eab; [|discriminate].
  destruct (tok_valid a); [|discriminate]. destruct (tok_valid b); [|discriminate].
  destruct (get_pair (r_map (w_r w)) a b) as [p|] eqn:G; [|discriminate].
  unfold is_owner in Eo. beq.
  split; [exact Eo|]. split; [reflexivity|]. split; [exact Eab|].
  pose proof (wi_uo _ Hinv) as U.
  unfold get_pair in G.
  destruct (map_get (r_map (w_r w)) a b) as [p1|] eqn:G1.
  - inversion G; subst p1. inversion H; subst; clear H. simpl.
    split; [exists p; auto|].
    assert (N1 : map_get (map_remove (r_map (w_r w)) a b) a b = None) by apply map_get_remove_same.
    assert (N2 : map_get (map_remove (r_map (w_r w)) a b) b a = None).
    { destruct (map_get (map_remove (r_map (w_r w)) a b) b a) as [q|] eqn:E; [|reflexivity]. exfalso.
      apply map_get_some in E. apply filter_In in E. destruct E as [E _]. apply map_get_some in G1.
      assert (X : (a, b, p) = (b, a, q)) by (apply (uo_unique _ U); auto; right; auto).
      inversion X; congruence. }
    unfold get_pair. rewrite N1, N2. auto.
  - rewrite G in H. inversion H; subst; clear H. simpl.
    split; [exists p; auto|].
    assert (N1 : map_get (map_remove (r_map (w_r w)) b a) b a = None) by apply map_get_remove_same.
    assert (N2 : map_get (map_remove (r_map (w_r w)) b a) a b = None).
    { destruct (map_get (map_remove (r_map (w_r w)) b a) a b) as [q|] eqn:E; [|reflexivity]. exfalso.
      apply map_get_some in E. apply filter_In in E. destruct E as [E _].
      exact (map_get_none _ _ _ G1 q E). }
    unfold get_pair. rewrite N1, N2. auto.
Qed.

(** ================================================================== clause 3: registered pairs only *)
(** the pair address a management endpoint is asked to act on (pause/resume of the router itself
    is the router's own switch, not a pair operation) *)
Definition mgmt_target (op : rop) : option Z :=
  match op with
  | Pause _ a | Resume _ a => if a =? ROUTER then None else Some a
  | RSetFeeOn _ a _ _ | RSetFeeOff _ a _ _ | SetLocalRoles _ a | IssueLp _ a
  | EnableSwap _ a _ _ _ _ => Some a
  | _ => None
  end.

Lemma registered_only w op w' o addr :
  rstep w op = Ok (w', o) -> mgmt_target op = Some addr -> Registered w addr.
Proof.
  intros H T. destruct op; simpl in T; try discriminate; simpl in H.
  - destruct (addr0 =? ROUTER) eqn:E; [discriminate|]. inversion T; subst addr0.
    unfold ep_pause in H. destruct (is_owner w c); [|discriminate]. rewrite E in H.
    apply bind_ok in H. destruct H as (pe & Hreg & _). eapply registered_Registered; eauto.
  - destruct (addr0 =? ROUTER) eqn:E; [discriminate|]. inversion T; subst addr0.
    unfold ep_pause in H. destruct (is_owner w c); [|discriminate]. rewrite E in H.
    apply bind_ok in H. destruct H as (pe & Hreg & _). eapply registered_Registered; eauto.
  - inversion T; subst addr0. unfold ep_set_fee in H. destruct (is_owner w c); [|discriminate].
    destruct (r_active (w_r w)); [|discriminate].
    apply bind_ok in H. destruct H as (pe & Hreg & _). eapply registered_Registered; eauto.
  - inversion T; subst addr0. unfold ep_set_fee in H. destruct (is_owner w c); [|discriminate].
    destruct (r_active (w_r w)); [|discriminate].
    apply bind_ok in H. destruct H as (pe & Hreg & _). eapply registered_Registered; eauto.
  - inversion T; subst addr0. unfold ep_set_local_roles in H. destruct (r_active (w_r w)); [|discriminate].
    apply bind_ok in H. destruct H as (pe & Hreg & _). eapply registered_Registered; eauto.
  - inversion T; subst addr0. unfold ep_issue_lp in H. cbv zeta in H.
    destruct (r_active (w_r w)); [|discriminate].
    destruct (is_owner w c || r_creation (w_r w)); [|discriminate].
    apply bind_ok in H. destruct H as (pe & Hreg & _). eapply registered_Registered; eauto.
  - inversion T; subst addr0. apply enable_swap_spec in H.
    destruct H as (pe & _ & _ & _ & _ & _ & _ & _ & Hreg & _). eapply registered_Registered; eauto.
Qed.

(** registration is not affected by swaps: the registry and the tokens a pair reports stay put *)
Definition toks (pe : pent) : Z * Z := (pe_t1 pe, pe_t2 pe).
Definition same_reg (w w' : world) : Prop :=
  r_map (w_r w') = r_map (w_r w) /\
  forall x, option_map toks (pair_at (w_pairs w') x) = option_map toks (pair_at (w_pairs w) x).

Lemma same_reg_refl w : same_reg w w.
Proof. split; auto. Qed.

Lemma same_reg_trans a b c : same_reg a b -> same_reg b c -> same_reg a c.
Proof. intros [A1 A2] [B1 B2]. split; [congruence | intros x; rewrite B2; apply A2]. Qed.

Lemma Registered_same_reg w w' x : same_reg w w' -> (Registered w' x <-> Registered w x).
Proof.
  intros [Hm Ht]. specialize (Ht x). unfold Registered. rewrite Hm. split.
  - intros (pe & P & G). rewrite P in Ht. destruct (pair_at (w_pairs w) x) as [pe0|]; [|discriminate].
    simpl in Ht. inversion Ht. exists pe0. split; [reflexivity|]. congruence.
  - intros (pe & P & G). rewrite P in Ht. destruct (pair_at (w_pairs w') x) as [pe0|]; [|discriminate].
    simpl in Ht. inversion Ht. exists pe0. split; [reflexivity|]. congruence.
Qed.

Lemma do_hop_same_reg w h last resid w' last' resid' :
  do_hop w h last resid = Ok (w', last', resid') -> same_reg w w'.
Proof.
  intros H. destruct (do_hop_frame _ _ _ _ _ _ _ H) as (pe & p' & Hreg & Hr & _ & Hp & _).
  apply registered_ok in Hreg. destruct Hreg as [Hat _].
  split; [rewrite Hr; reflexivity|]. intros x. rewrite Hp, pair_at_upd.
  destruct (x =? fst (fst (fst h))) eqn:E; [|reflexivity].
  beq. subst x. rewrite Hat. reflexivity.
Qed.

Lemma run_hops_app pre : forall post w last resid,
  run_hops w (pre ++ post) last resid =
  (do (w1, l1, r1) <- run_hops w pre last resid; run_hops w1 post l1 r1).
Proof.
  induction pre as [|h t IH]; intros post w last resid; simpl; [reflexivity|].
  destruct (do_hop w h last resid) as [[[w1 l1] r1]|]; simpl; [apply IH | reflexivity].
Qed.

Lemma run_hops_same_reg hops : forall w last resid w' last' resid',
  run_hops w hops last resid = Ok (w', last', resid') -> same_reg w w'.
Proof.
  induction hops as [|h t IH]; intros w last resid w' last' resid' H; simpl in H.
  - inversion H; subst. apply same_reg_refl.
  - apply bind_ok in H. destruct H as ([[w1 l1] r1] & Hh & H).
    eapply same_reg_trans; [eapply do_hop_same_reg; eauto | eapply IH; eauto].
Qed.

Definition hop_addr (h : hop) : Z := fst (fst (fst h)).

Lemma run_hops_registered hops : forall w last resid w' last' resid',
  run_hops w hops last resid = Ok (w', last', resid') -> forall h, In h hops -> Registered w (hop_addr h).
Proof.
  induction hops as [|h0 t IH]; intros w last resid w' last' resid' H h Hin; simpl in H; [destruct Hin|].
  apply bind_ok in H. destruct H as ([[w1 l1] r1] & Hh & H).
  destruct Hin as [<-|Hin].
  - destruct (do_hop_frame _ _ _ _ _ _ _ Hh) as (pe & _ & Hreg & _). eapply registered_Registered; eauto.
  - apply (Registered_same_reg w w1); [eapply do_hop_same_reg; eauto|]. eapply IH; eauto.
Qed.

(** the successful steps of multiPairSwap, in order *)
Lemma multi_swap_struct w c tin amt hops w' ps :
  ep_multi_swap w c tin amt hops = Ok (w', ps) ->
  r_active (w_r w) = true /\ 0 < amt /\ hops <> [] /\
  exists led0 w1 last resid led2,
    debit (w_led w) c tin amt = Ok led0 /\
    run_hops (set_led w (credit led0 ROUTER tin amt)) hops (tin, amt) [] = Ok (w1, last, resid) /\
    ps = resid ++ [last] /\
    pay_all (w_led w1) ROUTER c ps = Ok led2 /\ w' = set_led w1 led2.
Proof.
  unfold ep_multi_swap. intros H.
  destruct (r_active (w_r w)); [|discriminate]. destruct (tok_valid tin); [|discriminate].
  destruct (0 <? amt) eqn:Ea; [|discriminate].
  destruct hops as [|h0 t] eqn:Eh; [discriminate|]. rewrite <- Eh in *.
  apply bind_ok in H. destruct H as (led0 & Hd & H). cbv zeta in H.
  apply bind_ok in H. destruct H as ([[w1 last] resid] & Hr & H).
  apply bind_ok in H. destruct H as (led2 & Hp & H). inversion H; subst w' ps; clear H. beq.
  split; [reflexivity|]. split; [exact Ea|]. split; [rewrite Eh; discriminate|].
  exists led0, w1, last, resid, led2. auto.
Qed.

Lemma multi_swap_hops_registered w c tin amt hops w' ps :
  ep_multi_swap w c tin amt hops = Ok (w', ps) -> forall h, In h hops -> Registered w (hop_addr h).
Proof.
  intros H h Hin. apply multi_swap_struct in H.
  destruct H as (_ & _ & _ & led0 & w1 & last & resid & led2 & _ & Hr & _).
  eapply run_hops_registered in Hr; [|exact Hin]. exact Hr.
Qed.

(** ================================================================== clause 4: pass-through multi-hop *)
(** what the pair endpoints return (no invariant needed) *)
Lemma swap_in_outs p c tin ain tout mn p' o e :
  ep_swap_in p c tin ain tout mn = Ok (p', o, e) -> exists out, o = [out] /\ 0 < mn <= out.
Proof.
  unfold ep_swap_in. intros H.
  destruct (0 <? mn) eqn:Emn; [|discriminate]. destruct (0 <? ain); [|discriminate].
  apply bind_ok in H. destruct H as (ord & _ & H).
  destruct (can_swap (p_state p)); [|discriminate].
  destruct (mn <? rout p ord); [|discriminate].
  apply bind_ok in H. destruct H as (out & _ & H).
  destruct (mn <=? out) eqn:Emo; [|discriminate].
  destruct (out <? rout p ord); [|discriminate].
  destruct (negb (out =? 0)); [|discriminate].
  cbv zeta in H.
  apply bind_ok in H. destruct H as (after & _ & H).
  apply bind_ok in H. destruct H as (ro & _ & H).
  destruct (k_check p _); [|discriminate].
  apply bind_ok in H. destruct H as ([p3 e3] & _ & H).
  apply bind_ok in H. destruct H as (p4 & _ & H).
  inversion H; subst; clear H. beq. exists out. split; [reflexivity | lia].
Qed.

Lemma swap_out_outs p c tin amax tout aout p' o e :
  ep_swap_out p c tin amax tout aout = Ok (p', o, e) ->
  exists charged, o = [aout; amax - charged] /\ charged <= amax /\ 0 < aout.
Proof.
  unfold ep_swap_out. intros H.
  destruct (0 <? aout) eqn:Eao; [|discriminate]. destruct (0 <? amax); [|discriminate].
  apply bind_ok in H. destruct H as (ord & _ & H).
  destruct (can_swap (p_state p)); [|discriminate].
  destruct (aout <? rout p ord); [|discriminate].
  apply bind_ok in H. destruct H as (ain & _ & H).
  destruct (ain <=? amax) eqn:Emo; [|discriminate].
  destruct (negb (ain =? 0)); [|discriminate].
  cbv zeta in H.
  apply bind_ok in H. destruct H as (after & _ & H).
  apply bind_ok in H. destruct H as (ro & _ & H).
  destruct (k_check p _); [|discriminate].
  apply bind_ok in H. destruct H as ([p3 e3] & _ & H).
  apply bind_ok in H. destruct H as (p4 & _ & H).
  inversion H; subst; clear H. beq. exists ain. split; [reflexivity | lia].
Qed.

(** the pair operation a hop amounts to, in the pair's own token codes *)
Definition hop_op (pe : pent) (f tin ain tw aw : Z) : pop :=
  if f =? FIXED_IN then SwapIn ROUTER (loc pe tin) ain (loc pe tw) aw
  else SwapOut ROUTER (loc pe tin) ain (loc pe tw) aw.

(** One hop is exactly the addressed pair's own swap step, run on that pair's state alone:
    same result, same new pair state; no other pair and nothing in the registry changes. *)
Lemma do_hop_spec w addr f tw aw tin ain resid w' last' resid' :
  do_hop w (addr, f, tw, aw) (tin, ain) resid = Ok (w', last', resid') ->
  exists pe p' o e,
    registered w addr = Ok pe /\ (f = FIXED_IN \/ f = FIXED_OUT) /\
    step (pe_p pe) (hop_op pe f tin ain tw aw) = Ok (p', o, e) /\ e_ext e = [] /\
    w_pairs w' = upd_pair (w_pairs w) addr (set_pp pe p') /\ w_r w' = w_r w /\
    fst last' = tw /\
    (f = FIXED_IN -> o = [snd last'] /\ 0 < snd last' /\ resid' = resid) /\
    (f = FIXED_OUT -> exists res, o = [aw; res] /\ snd last' = aw /\ 0 <= res /\ 0 < aw /\
                                  resid' = if 0 <? res then resid ++ [(tin, res)] else resid).
Proof.
  unfold do_hop. intros H. apply bind_ok in H. destruct H as (pe & Hreg & H).
  unfold hop_op. destruct (f =? FIXED_IN) eqn:Ef.
  - apply bind_ok in H. destruct H as (led1 & _ & H).
    apply bind_ok in H. destruct H as ([[p' o] e] & Hs & H).
    destruct (swap_in_outs _ _ _ _ _ _ _ _ _ Hs) as (out & -> & Hout).
    destruct (e_ext e) eqn:Ee; [|discriminate]. inversion H; subst; clear H. beq.
    exists pe, p', [out], e. simpl.
    split; [exact Hreg|]. split; [left; exact Ef|]. split; [exact Hs|]. split; [exact Ee|].
    split; [reflexivity|]. split; [reflexivity|]. split; [reflexivity|].
    split; [intros _; split; [reflexivity | split; [lia | reflexivity]]|].
    intros Hf. subst f. discriminate.
  - destruct (f =? FIXED_OUT) eqn:Ef2; [|discriminate].
    apply bind_ok in H. destruct H as (led1 & _ & H).
    apply bind_ok in H. destruct H as ([[p' o] e] & Hs & H).
    destruct (swap_out_outs _ _ _ _ _ _ _ _ _ Hs) as (ch & -> & Hch & Haw).
    destruct (e_ext e) eqn:Ee; [|discriminate]. inversion H; subst; clear H. beq.
    exists pe, p', [aw; ain - ch], e. simpl.
    split; [exact Hreg|]. split; [right; exact Ef2|]. split; [exact Hs|]. split; [exact Ee|].
    split; [reflexivity|]. split; [reflexivity|]. split; [reflexivity|].
    split; [intros Hf; contradiction|].
    intros _. exists (ain - ch). split; [reflexivity|]. split; [reflexivity|].
    split; [lia|]. split; [exact Haw | reflexivity].
Qed.

(** ledger effect of one hop: only the router's balances move, and the router's balance net of
    what it is holding for the caller ([resid ++ [last]]) does not change *)
Lemma do_hop_led w h last resid w' last' resid' :
  do_hop w h last resid = Ok (w', last', resid') ->
  (forall a t, a <> ROUTER -> lget (w_led w') a t = lget (w_led w) a t) /\
  (forall t, lget (w_led w') ROUTER t - sum_tok (resid' ++ [last']) t =
             lget (w_led w) ROUTER t - sum_tok (resid ++ [last]) t).
Proof.
  destruct h as [[[addr f] tw] aw]. destruct last as [tin ain]. unfold do_hop.
  intros H. apply bind_ok in H. destruct H as (pe & Hreg & H).
  destruct (f =? FIXED_IN).
  - apply bind_ok in H. destruct H as (led1 & Hd & H).
    apply bind_ok in H. destruct H as ([[p' o] e] & Hs & H).
    destruct (swap_in_outs _ _ _ _ _ _ _ _ _ Hs) as (out & -> & Hout).
    destruct (e_ext e); [|discriminate]. inversion H; subst; clear H.
    apply debit_ok in Hd. destruct Hd as [_ Hd]. simpl. split.
    + intros a t Ha. rewrite lget_credit, Hd. unfold keq.
      destruct (ROUTER =? a) eqn:E; [beq; congruence|]. simpl. lia.
    + intros t. rewrite lget_credit, Hd, !sum_tok_app. unfold keq. simpl. rewrite ?Z.eqb_refl. simpl.
      destruct (tin =? t), (tw =? t); lia.
  - destruct (f =? FIXED_OUT); [|discriminate].
    apply bind_ok in H. destruct H as (led1 & Hd & H).
    apply bind_ok in H. destruct H as ([[p' o] e] & Hs & H).
    destruct (swap_out_outs _ _ _ _ _ _ _ _ _ Hs) as (ch & -> & Hch & Haw).
    destruct (e_ext e); [|discriminate]. inversion H; subst; clear H.
    apply debit_ok in Hd. destruct Hd as [_ Hd]. simpl. split.
    + intros a t Ha. rewrite !lget_credit, Hd. unfold keq.
      destruct (ROUTER =? a) eqn:E; [beq; congruence|]. simpl. lia.
    + intros t. rewrite !lget_credit, Hd. unfold keq. simpl. rewrite ?Z.eqb_refl. simpl.
      destruct (0 <? ain - ch) eqn:Er; beq; rewrite !sum_tok_app; simpl;
        destruct (tin =? t), (tw =? t); lia.
Qed.

Lemma run_hops_led hops : forall w last resid w' last' resid',
  run_hops w hops last resid = Ok (w', last', resid') ->
  (forall a t, a <> ROUTER -> lget (w_led w') a t = lget (w_led w) a t) /\
  (forall t, lget (w_led w') ROUTER t - sum_tok (resid' ++ [last']) t =
             lget (w_led w) ROUTER t - sum_tok (resid ++ [last]) t).
Proof.
  induction hops as [|h t IH]; intros w last resid w' last' resid' H; simpl in H.
  - inversion H; subst. split; reflexivity.
  - apply bind_ok in H. destruct H as ([[w1 l1] r1] & Hh & H).
    apply do_hop_led in Hh. destruct Hh as [A1 A2].
    apply IH in H. destruct H as [B1 B2]. split.
    + intros a tk Ha. rewrite B1, A1; auto.
    + intros tk. rewrite B2, A2. reflexivity.
Qed.

(** A multi-hop swap leaves the router's own balances unchanged; the caller pays the input and
    receives exactly the returned payments; nobody else's balance moves. *)
Lemma multi_swap_ledger w c tin amt hops w' ps : c <> ROUTER ->
  ep_multi_swap w c tin amt hops = Ok (w', ps) ->
  (forall t, lget (w_led w') ROUTER t = lget (w_led w) ROUTER t) /\
  (forall t, lget (w_led w') c t = lget (w_led w) c t - (if tin =? t then amt else 0) + sum_tok ps t) /\
  (forall a t, a <> ROUTER -> a <> c -> lget (w_led w') a t = lget (w_led w) a t).
Proof.
  intros Hc H. apply multi_swap_struct in H.
  destruct H as (_ & _ & _ & led0 & w1 & last & resid & led2 & Hd & Hr & Hps & Hp & ->).
  apply debit_ok in Hd. destruct Hd as [_ Hd].
  apply run_hops_led in Hr. destruct Hr as [R1 R2]. simpl in R1, R2.
  pose proof (pay_all_ok _ _ _ _ _ Hp (not_eq_sym Hc)) as P. simpl.
  split; [|split].
  - intros t. rewrite P. rewrite ?Z.eqb_refl.
    destruct (ROUTER =? c) eqn:E; [beq; congruence|].
    specialize (R2 t). rewrite <- Hps in R2. rewrite lget_credit, Hd in R2. unfold keq in R2. simpl in R2.
    rewrite ?Z.eqb_refl in R2. destruct (c =? ROUTER) eqn:E2; [beq; congruence|]. simpl in R2.
    destruct (tin =? t); lia.
  - intros t. rewrite P. rewrite ?Z.eqb_refl. destruct (c =? ROUTER) eqn:E; [beq; congruence|].
    rewrite R1 by assumption. rewrite lget_credit, Hd. unfold keq. rewrite ?Z.eqb_refl.
    destruct (ROUTER =? c) eqn:E2; [beq; congruence|]. simpl. destruct (tin =? t); lia.
  - intros a t Ha Hac. rewrite P.
    destruct (a =? ROUTER) eqn:E1; [beq; congruence|]. destruct (a =? c) eqn:E2; [beq; congruence|].
    rewrite R1 by assumption. rewrite lget_credit, Hd. unfold keq.
    destruct (ROUTER =? a) eqn:E3; [beq; congruence|]. destruct (c =? a) eqn:E4; [beq; congruence|].
    simpl. lia.
Qed.

(** the returned payments are the fixed-output residuals (in hop order) followed by the last output,
    where at every position of the hop list the hop is the pair's own step ([do_hop_spec]) *)
Lemma multi_swap_each_hop w c tin amt hops w' ps :
  ep_multi_swap w c tin amt hops = Ok (w', ps) ->
  exists w0, w_r w0 = w_r w /\ w_pairs w0 = w_pairs w /\
  forall pre h post, hops = pre ++ h :: post ->
    exists wi lasti residi wj lastj residj,
      run_hops w0 pre (tin, amt) [] = Ok (wi, lasti, residi) /\
      do_hop wi h lasti residi = Ok (wj, lastj, residj) /\
      exists wn lastn residn, run_hops wj post lastj residj = Ok (wn, lastn, residn) /\
        ps = residn ++ [lastn] /\ w_pairs w' = w_pairs wn /\ w_r w' = w_r wn.
Proof.
  intros H. apply multi_swap_struct in H.
  destruct H as (_ & _ & _ & led0 & w1 & last & resid & led2 & _ & Hr & Hps & _ & ->).
  eexists. split; [|split; [|intros pre h post ->]]; [| |rewrite run_hops_app in Hr].
  3: { apply bind_ok in Hr. destruct Hr as ([[wi li] ri] & Hpre & Hr). simpl in Hr.
       apply bind_ok in Hr. destruct Hr as ([[wj lj] rj] & Hh & Hr).
       exists wi, li, ri, wj, lj, rj. split; [exact Hpre|]. split; [exact Hh|].
       exists w1, last, resid. auto. }
  all: reflexivity.
Qed.

(** any failing hop fails the whole call (and by [rstep_total] the world is unchanged) *)
Lemma multi_swap_hop_fails w c tin amt pre h post led0 wi lasti residi er :
  debit (w_led w) c tin amt = Ok led0 ->
  run_hops (set_led w (credit led0 ROUTER tin amt)) pre (tin, amt) [] = Ok (wi, lasti, residi) ->
  do_hop wi h lasti residi = Err er ->
  is_ok (ep_multi_swap w c tin amt (pre ++ h :: post)) = false.
Proof.
  intros Hd Hpre Hh. unfold ep_multi_swap.
  destruct (r_active (w_r w)); [|reflexivity]. destruct (tok_valid tin); [|reflexivity].
  destruct (0 <? amt); [|reflexivity].
  destruct (match pre ++ h :: post with [] => false | _ => true end); [|reflexivity].
  rewrite Hd. simpl. rewrite run_hops_app, Hpre. simpl. rewrite Hh. reflexivity.
Qed.

Lemma multi_swap_unregistered_fails w c tin amt hops h :
  In h hops -> ~ Registered w (hop_addr h) -> is_ok (ep_multi_swap w c tin amt hops) = false.
Proof.
  intros Hin Hn. destruct (ep_multi_swap w c tin amt hops) as [[w' ps]|] eqn:E; [|reflexivity].
  exfalso. apply Hn. eapply multi_swap_hops_registered; eauto.
Qed.

Lemma failed_step_unchanged w op : is_ok (rstep w op) = false -> rstep_total w op = w.
Proof. unfold rstep_total. destruct (rstep w op) as [[w' o]|]; [discriminate | reflexivity]. Qed.

(** ------------------------------------------------------------------ a hop obeys the documented
    swap formulas of the pair it goes through (C03 applied to the hop's pair) *)
Lemma hop_fixed_input_formula w addr tw mn tin ain resid w' last' resid' : WInv w ->
  do_hop w (addr, FIXED_IN, tw, mn) (tin, ain) resid = Ok (w', last', resid') ->
  exists pe ord,
    registered w addr = Ok pe /\ swap_order (loc pe tin) (loc pe tw) = Ok ord /\
    p_state (pe_p pe) = ST_Active /\
    is_floor (snd last') (ain * (M - p_fee (pe_p pe)) * rout (pe_p pe) ord)
             (rin (pe_p pe) ord * M + ain * (M - p_fee (pe_p pe))) /\
    0 < mn <= snd last' /\ fst last' = tw /\ resid' = resid.
Proof.
  intros Hinv H. apply do_hop_spec in H.
  destruct H as (pe & p' & o & e & Hreg & _ & Hs & _ & _ & _ & Hl & Hin & _).
  destruct (Hin eq_refl) as (-> & _ & ->). unfold hop_op in Hs. simpl in Hs.
  pose proof (registered_ok _ _ _ Hreg) as [Hat _].
  apply swap_in_char in Hs; [|eapply wi_pinv; eauto].
  destruct Hs as (ord & out & sp & Hord & Ho & Hst & _ & Hfl & Hmn & _).
  inversion Ho; subst out. exists pe, ord. auto 10.
Qed.

Lemma hop_fixed_output_formula w addr tw aw tin ain resid w' last' resid' : WInv w ->
  do_hop w (addr, FIXED_OUT, tw, aw) (tin, ain) resid = Ok (w', last', resid') ->
  exists pe ord charged,
    registered w addr = Ok pe /\ swap_order (loc pe tin) (loc pe tw) = Ok ord /\
    p_state (pe_p pe) = ST_Active /\ last' = (tw, aw) /\
    is_floor (charged - 1) (rin (pe_p pe) ord * aw * M) ((rout (pe_p pe) ord - aw) * (M - p_fee (pe_p pe))) /\
    0 < charged <= ain /\
    resid' = (if 0 <? ain - charged then resid ++ [(tin, ain - charged)] else resid).
Proof.
  intros Hinv H. apply do_hop_spec in H.
  destruct H as (pe & p' & o & e & Hreg & _ & Hs & _ & _ & _ & Hl & _ & Hout).
  destruct (Hout eq_refl) as (res & -> & Hsl & _ & _ & ->). unfold hop_op in Hs. simpl in Hs.
  pose proof (registered_ok _ _ _ Hreg) as [Hat _].
  apply swap_out_char in Hs; [|eapply wi_pinv; eauto].
  destruct Hs as (ord & ch & sp & Hord & Ho & Hst & _ & Hfl & Hch & _).
  inversion Ho; subst res. exists pe, ord, ch.
  split; [exact Hreg|]. split; [exact Hord|]. split; [exact Hst|].
  split; [clear - Hl Hsl; destruct last' as [lt lo]; simpl in Hl, Hsl; subst; reflexivity|].
  split; [exact Hfl|]. split; [exact Hch | reflexivity].
Qed.

(** ------------------------------------------------------------------ a one-hop multiPairSwap is
    the same as the caller swapping on that pair directly: same payments, same pair state, same
    balances everywhere *)
Lemma swap_order_glob pe tin tw ord : swap_order (loc pe tin) (loc pe tw) = Ok ord ->
  glob pe (loc pe tin) = tin /\ glob pe (loc pe tw) = tw.
Proof.
  intros H. apply swap_order_spec in H. destruct H as [H1 H2].
  assert (G : forall t, loc pe t = T1 \/ loc pe t = T2 -> glob pe (loc pe t) = t).
  { intros t. unfold loc, glob, T1, T2.
    destruct (t =? pe_t1 pe) eqn:E1; [beq; subst; reflexivity|].
    destruct (t =? pe_t2 pe) eqn:E2; [beq; subst; reflexivity|].
    intros [X|X]; lia. }
  split; apply G; destruct ord; simpl in *; auto.
Qed.

Lemma swap_in_order p c tin ain tout mn r : ep_swap_in p c tin ain tout mn = Ok r ->
  exists ord, swap_order tin tout = Ok ord.
Proof.
  unfold ep_swap_in. intros H.
  destruct (0 <? mn); [|discriminate]. destruct (0 <? ain); [|discriminate].
  apply bind_ok in H. destruct H as (ord & Ho & _). eauto.
Qed.

Lemma swap_out_order p c tin amax tout aout r : ep_swap_out p c tin amax tout aout = Ok r ->
  exists ord, swap_order tin tout = Ok ord.
Proof.
  unfold ep_swap_out. intros H.
  destruct (0 <? aout); [|discriminate]. destruct (0 <? amax); [|discriminate].
  apply bind_ok in H. destruct H as (ord & Ho & _). eauto.
Qed.

Lemma single_hop_fixed_input_is_direct_swap w c addr tin amt tw mn w' ps : c <> ROUTER ->
  ep_multi_swap w c tin amt [(addr, FIXED_IN, tw, mn)] = Ok (w', ps) ->
  exists pe wd out,
    registered w addr = Ok pe /\
    ep_direct w addr (SwapIn c (loc pe tin) amt (loc pe tw) mn) = Ok (wd, [out]) /\
    ps = [(tw, out)] /\ w_pairs w' = w_pairs wd /\ w_r w' = w_r wd /\
    forall a t, lget (w_led w') a t = lget (w_led wd) a t.
Proof.
  intros Hc H. pose proof (multi_swap_ledger _ _ _ _ _ _ _ Hc H) as (L1 & L2 & L3).
  apply multi_swap_struct in H.
  destruct H as (_ & _ & _ & led0 & w1 & last & resid & led2 & Hd & Hr & Hps & Hp & ->).
  cbn [run_hops] in Hr. apply bind_ok in Hr. destruct Hr as ([[wj lj] rj] & Hh & Hr). inversion Hr; subst; clear Hr.
  apply do_hop_spec in Hh.
  destruct Hh as (pe & p' & o & e & Hreg & _ & Hs & Hee & Hpairs & Hrr & Hl & Hin & _).
  destruct (Hin eq_refl) as (-> & _ & ->). destruct last as [lt out]. simpl in Hl. subst lt. simpl in *.
  unfold hop_op in Hs. simpl in Hs.
  assert (Hreg' : registered w addr = Ok pe) by exact Hreg.
  pose proof (registered_ok _ _ _ Hreg') as [Hat _].
  destruct (swap_in_order _ _ _ _ _ _ _ Hs) as (ord & Hord).
  destruct (swap_order_glob _ _ _ _ Hord) as [G1 G2].
  exists pe. eexists. exists out. split; [exact Hreg'|]. split.
  - unfold ep_direct. rewrite Hat. simpl.
    change (ep_swap_in (pe_p pe) c (loc pe tin) amt (loc pe tw) mn) with
           (ep_swap_in (pe_p pe) ROUTER (loc pe tin) amt (loc pe tw) mn).
    rewrite Hs. simpl. rewrite Hee. simpl. rewrite G1, G2, Hd. simpl. reflexivity.
  - split; [reflexivity|]. simpl. split; [exact Hpairs|]. split; [exact Hrr|].
    apply debit_ok in Hd. destruct Hd as [_ Hd].
    intros a t. rewrite lget_credit, Hd. unfold keq.
    destruct (a =? ROUTER) eqn:E1.
    + beq. subst a. rewrite L1. destruct (c =? ROUTER) eqn:E; [beq; congruence|]. simpl. lia.
    + destruct (a =? c) eqn:E2.
      * beq. subst a. rewrite L2. rewrite Z.eqb_refl. simpl. destruct (tin =? t), (tw =? t); lia.
      * beq. rewrite L3 by assumption. destruct (c =? a) eqn:E; [beq; congruence|]. simpl. lia.
Qed.

Lemma single_hop_fixed_output_is_direct_swap w c addr tin amt tw aw w' ps : c <> ROUTER ->
  ep_multi_swap w c tin amt [(addr, FIXED_OUT, tw, aw)] = Ok (w', ps) ->
  exists pe wd res,
    registered w addr = Ok pe /\
    ep_direct w addr (SwapOut c (loc pe tin) amt (loc pe tw) aw) = Ok (wd, [aw; res]) /\
    0 <= res /\ ps = (if 0 <? res then [(tin, res)] else []) ++ [(tw, aw)] /\
    w_pairs w' = w_pairs wd /\ w_r w' = w_r wd /\
    forall a t, lget (w_led w') a t = lget (w_led wd) a t.
Proof.
  intros Hc H. pose proof (multi_swap_ledger _ _ _ _ _ _ _ Hc H) as (L1 & L2 & L3).
  apply multi_swap_struct in H.
  destruct H as (_ & _ & _ & led0 & w1 & last & resid & led2 & Hd & Hr & Hps & Hp & ->).
  cbn [run_hops] in Hr. apply bind_ok in Hr. destruct Hr as ([[wj lj] rj] & Hh & Hr). inversion Hr; subst; clear Hr.
  apply do_hop_spec in Hh.
  destruct Hh as (pe & p' & o & e & Hreg & _ & Hs & Hee & Hpairs & Hrr & Hl & _ & Hout).
  destruct (Hout eq_refl) as (res & -> & Hsl & Hres & _ & ->). destruct last as [lt out]. simpl in Hl, Hsl. subst lt out.
  simpl in *. unfold hop_op in Hs. simpl in Hs.
  assert (Hreg' : registered w addr = Ok pe) by exact Hreg.
  pose proof (registered_ok _ _ _ Hreg') as [Hat _].
  destruct (swap_out_order _ _ _ _ _ _ _ Hs) as (ord & Hord).
  destruct (swap_order_glob _ _ _ _ Hord) as [G1 G2].
  exists pe. eexists. exists res. split; [exact Hreg'|]. split.
  - unfold ep_direct. rewrite Hat. simpl.
    change (ep_swap_out (pe_p pe) c (loc pe tin) amt (loc pe tw) aw) with
           (ep_swap_out (pe_p pe) ROUTER (loc pe tin) amt (loc pe tw) aw).
    rewrite Hs. simpl. rewrite Hee. simpl. rewrite G1, G2, Hd. simpl. reflexivity.
  - split; [exact Hres|]. split; [destruct (0 <? res); reflexivity|]. simpl.
    split; [exact Hpairs|]. split; [exact Hrr|].
    apply debit_ok in Hd. destruct Hd as [_ Hd].
    intros a t. rewrite !lget_credit, Hd. unfold keq.
    assert (Hsum : sum_tok ((if 0 <? res then [(tin, res)] else []) ++ [(tw, aw)]) t =
                   (if tin =? t then res else 0) + (if tw =? t then aw else 0)).
    { rewrite sum_tok_app. destruct (0 <? res) eqn:Er; simpl; beq; destruct (tin =? t), (tw =? t); lia. }
    destruct (a =? ROUTER) eqn:E1.
    + beq. subst a. rewrite L1. destruct (c =? ROUTER) eqn:E; [beq; congruence|]. simpl. lia.
    + destruct (a =? c) eqn:E2.
      * beq. subst a. rewrite L2, Hsum. rewrite Z.eqb_refl. simpl. destruct (tin =? t), (tw =? t); lia.
      * beq. rewrite L3 by assumption. destruct (c =? a) eqn:E; [beq; congruence|]. simpl. lia.
Qed.

(** ------------------------------------------------------------------ reachable worlds *)
Definition Reachable (w : world) : Prop := exists led blk ops, w = rrun (init_world led blk) ops.

Lemma reachable_inv w : Reachable w -> WInv w.
Proof. intros (led & blk & ops & ->). apply reachable_winv. Qed.

Lemma reachable_step w op : Reachable w -> Reachable (rstep_total w op).
Proof.
  intros (led & blk & ops & ->). exists led, blk, (ops ++ [op]).
  unfold rrun. rewrite fold_left_app. reflexivity.
Qed.

(** the registry facts, stated for every reachable world *)
Lemma reach_one_per_pair w : Reachable w -> forall a b x c d y,
  In (a, b, x) (r_map (w_r w)) -> In (c, d, y) (r_map (w_r w)) -> uo_eq (a, b) (c, d) ->
  (a, b, x) = (c, d, y).
Proof. intros H. exact (registry_one_per_pair w (reachable_inv w H)). Qed.

Lemma reach_lookup_sym w : Reachable w -> forall a b,
  get_pair (r_map (w_r w)) a b = get_pair (r_map (w_r w)) b a.
Proof. intros H. exact (registry_lookup_sym w (reachable_inv w H)). Qed.

Lemma reach_lookup_char w : Reachable w -> forall a b x,
  get_pair (r_map (w_r w)) a b = Some x <->
  (In (a, b, x) (r_map (w_r w)) \/ In (b, a, x) (r_map (w_r w))).
Proof. intros H. exact (registry_lookup_char w (reachable_inv w H)). Qed.

Lemma reach_listed w : Reachable w ->
  NoDup (all_pairs (r_map (w_r w))) /\
  forall a b x, In (a, b, x) (r_map (w_r w)) ->
    a <> b /\ exists pe, pair_at (w_pairs w) x = Some pe /\ pe_t1 pe = a /\ pe_t2 pe = b.
Proof.
  intros H. split; [exact (registry_addr_nodup w (reachable_inv w H)) | exact (wi_ent w (reachable_inv w H))].
Qed.

Lemma reach_create_registers w c a b adder fees na w' o : Reachable w ->
  ep_create_pair w c a b adder fees na = Ok (w', o) ->
  get_pair (r_map (w_r w')) a b = Some na /\ get_pair (r_map (w_r w')) b a = Some na /\
  all_pairs (r_map (w_r w')) = all_pairs (r_map (w_r w)) ++ [na] /\
  ~ In na (all_pairs (r_map (w_r w))) /\ Registered w' na.
Proof. intros H. exact (create_pair_registers w c a b adder fees na w' o (reachable_inv w H)). Qed.

Lemma reach_remove w c a b w' o : Reachable w ->
  ep_remove_pair w c a b = Ok (w', o) ->
  c = r_owner (w_r w) /\ r_active (w_r w) = true /\ a <> b /\
  (exists p, get_pair (r_map (w_r w)) a b = Some p /\ o = [p]) /\
  get_pair (r_map (w_r w')) a b = None /\ get_pair (r_map (w_r w')) b a = None /\
  w_pairs w' = w_pairs w.
Proof. intros H. exact (remove_pair_guard w c a b w' o (reachable_inv w H)). Qed.

Lemma reach_registered_iff_listed w addr : Reachable w ->
  (Registered w addr <-> In addr (all_pairs (r_map (w_r w)))).
Proof. intros H. exact (registered_iff_listed w addr (reachable_inv w H)). Qed.

Lemma reach_hop_fixed_input w addr tw mn tin ain resid w' last' resid' : Reachable w ->
  do_hop w (addr, FIXED_IN, tw, mn) (tin, ain) resid = Ok (w', last', resid') ->
  exists pe ord,
    registered w addr = Ok pe /\ swap_order (loc pe tin) (loc pe tw) = Ok ord /\
    p_state (pe_p pe) = ST_Active /\
    is_floor (snd last') (ain * (M - p_fee (pe_p pe)) * rout (pe_p pe) ord)
             (rin (pe_p pe) ord * M + ain * (M - p_fee (pe_p pe))) /\
    0 < mn <= snd last' /\ fst last' = tw /\ resid' = resid.
Proof. intros H. exact (hop_fixed_input_formula w addr tw mn tin ain resid w' last' resid' (reachable_inv w H)). Qed.

Lemma reach_hop_fixed_output w addr tw aw tin ain resid w' last' resid' : Reachable w ->
  do_hop w (addr, FIXED_OUT, tw, aw) (tin, ain) resid = Ok (w', last', resid') ->
  exists pe ord charged,
    registered w addr = Ok pe /\ swap_order (loc pe tin) (loc pe tw) = Ok ord /\
    p_state (pe_p pe) = ST_Active /\ last' = (tw, aw) /\
    is_floor (charged - 1) (rin (pe_p pe) ord * aw * M) ((rout (pe_p pe) ord - aw) * (M - p_fee (pe_p pe))) /\
    0 < charged <= ain /\
    resid' = (if 0 <? ain - charged then resid ++ [(tin, ain - charged)] else resid).
Proof. intros H. exact (hop_fixed_output_formula w addr tw aw tin ain resid w' last' resid' (reachable_inv w H)). Qed.

Lemma reach_pairs_inv w x pe : Reachable w -> pair_at (w_pairs w) x = Some pe -> PairInv (pe_p pe).
Proof. intros H. exact (wi_pinv w (reachable_inv w H) x pe). Qed.

(** upgradePair addresses its pair through the registry, so it can only ever reach a registered one *)
Lemma upgrade_pair_guard w c a b w' o : WInv w ->
  ep_upgrade_pair w c a b = Ok (w', o) ->
  c = r_owner (w_r w) /\ r_active (w_r w) = true /\ w' = w /\
  exists p, get_pair (r_map (w_r w)) a b = Some p /\ Registered w p.
Proof.
  intros Hinv H. unfold ep_upgrade_pair in H. cbv zeta in H.
  destruct (is_owner w c) eqn:Eo; [|discriminate]. destruct (r_active (w_r w)); [|discriminate].
  destruct (negb (a =? b)); [|discriminate].
  destruct (tok_valid a); [|discriminate]. destruct (tok_valid b); [|discriminate].
  destruct (get_pair (r_map (w_r w)) a b) as [p|] eqn:G; [|discriminate].
  inversion H; subst. unfold is_owner in Eo. beq.
  split; [exact Eo|]. split; [reflexivity|]. split; [reflexivity|]. exists p. split; [reflexivity|].
  apply (registered_iff_listed _ _ Hinv). apply get_pair_some in G.
  destruct G as [G|G]; apply (in_map snd) in G; exact G.
Qed.

Lemma reach_upgrade_pair w c a b w' o : Reachable w ->
  ep_upgrade_pair w c a b = Ok (w', o) ->
  c = r_owner (w_r w) /\ r_active (w_r w) = true /\ w' = w /\
  exists p, get_pair (r_map (w_r w)) a b = Some p /\ Registered w p.
Proof. intros H. exact (upgrade_pair_guard w c a b w' o (reachable_inv w H)). Qed.
