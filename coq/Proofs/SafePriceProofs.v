(** C13 — refinement proof for the safe-price module.

    ring + lookup  =  prefix sums of the start-of-round reserves.

    Layers:
      1. [run_updates_layout]  the ring the contract builds = [layout N] of the list of observations
                               ever recorded (storage refinement, any capacity N >= 2);
      2. [chain_closed]        the j-th recorded observation = closed-form prefix sum of [start];
      3. [bs_loop_spec] ...    binary search on a ring laid out that way finds the exact or an adjacent
                               observation, needs no more than N iterations, never leaves 1..len;
      4. [lookup_exact]        get_price_observation x = the prefix sum up to x (last / extrapolated /
                               exact / interpolated);
      5. [safe_price_formula], [lp_safe_price_formula], [*_reject]. *)
From MX Require Import Base.Prelude Gen.Params Model.Pair Model.SafePrice Proofs.PairInv.

(** ================================================================== specification *)

(** [sumr f a b] = f (a+1) + ... + f b *)
Fixpoint sum_n (f : Z -> Z) (a : Z) (n : nat) : Z :=
  match n with O => 0 | S m => sum_n f a m + f (a + Z.of_nat (S m)) end.
Definition sumr (f : Z -> Z) (a b : Z) : Z := sum_n f a (Z.to_nat (b - a)).

(** Reserves in effect at the start of round [t]: those seen by the first update call (with an
    initialised pool) made in a round >= t; the present reserves [c] if there is no such call.
    (Every reserve-changing operation makes such a call BEFORE it changes the reserves, so between
    the end of one round with operations and the next call nothing moves.) *)
Fixpoint start (us : list upd) (c : upd) (t : Z) : upd :=
  match us with
  | [] => c
  | u :: r => if negb (u_zero u) && (t <=? u_round u) then u else start r c t
  end.

Definition cur_upd (ev : env) : upd := mkU (e_now ev) (e_r1 ev) (e_r2 ev) (e_S ev).

(** first update call that recorded an observation *)
Definition first_upd (us : list upd) : upd := hd (mkU 0 0 0 0) (eff us).

(** accumulated value of component [g] at round [x] *)
Definition acc (g : upd -> Z) (us : list upd) (c : upd) (x : Z) : Z :=
  g (first_upd us) + sumr (fun t => g (start us c t)) (u_round (first_upd us)) x.

Definition acc_obs (us : list upd) (c : upd) (x : Z) : obs :=
  mkO (acc u_r1 us c x) (acc u_r2 us c x) (1 + x - u_round (first_upd us)) x (acc u_S us c x).

(** rounds never decrease along the calls; amounts are BigUint *)
Fixpoint nondecr_from (lr : Z) (us : list upd) : Prop :=
  match us with [] => True | u :: t => lr <= u_round u /\ nondecr_from (u_round u) t end.
Definition nonneg_upd (u : upd) : Prop := 0 <= u_r1 u /\ 0 <= u_r2 u /\ 0 <= u_S u.
Definition wf_calls (us : list upd) : Prop := nondecr_from 0 us /\ Forall nonneg_upd us.

Fixpoint strict_from (lr : Z) (E : list upd) : Prop :=
  match E with [] => True | u :: t => lr < u_round u /\ strict_from (u_round u) t end.
Definition pos_upd (u : upd) : Prop := 1 <= u_r1 u /\ 1 <= u_r2 u /\ 1 <= u_S u.

Definition last_round (E : list upd) : Z := u_round (last E (mkU 0 0 0 0)).

(** ================================================================== sums *)
Lemma sumr_same f a : sumr f a a = 0.
Proof. unfold sumr. rewrite Z.sub_diag. reflexivity. Qed.

Lemma sumr_succ f a b : a <= b -> sumr f a (b + 1) = sumr f a b + f (b + 1).
Proof.
  intros H. unfold sumr. replace (b + 1 - a) with (Z.succ (b - a)) by lia.
  rewrite Z2Nat.inj_succ by lia.
  set (n := Z.to_nat (b - a)).
  assert (Hn : Z.of_nat n = b - a) by (subst n; rewrite Z2Nat.id; lia).
  cbn [sum_n]. rewrite Nat2Z.inj_succ, Hn. f_equal. f_equal. lia.
Qed.

Lemma sumr_ind (P : Z -> Prop) a :
  P a -> (forall b, a <= b -> P b -> P (b + 1)) -> forall b, a <= b -> P b.
Proof.
  intros H0 Hs b Hb. replace b with (a + Z.of_nat (Z.to_nat (b - a))) by (rewrite Z2Nat.id; lia).
  induction (Z.to_nat (b - a)) as [|n IH].
  - replace (a + Z.of_nat 0) with a by lia. exact H0.
  - replace (a + Z.of_nat (S n)) with (a + Z.of_nat n + 1) by lia. apply Hs; [lia | exact IH].
Qed.

Lemma sumr_split f a b c : a <= b -> b <= c -> sumr f a c = sumr f a b + sumr f b c.
Proof.
  intros Hab Hbc. revert c Hbc. apply (sumr_ind (fun c => sumr f a c = sumr f a b + sumr f b c)).
  - rewrite sumr_same. lia.
  - intros c Hc IH. rewrite !sumr_succ by lia. lia.
Qed.

Lemma sumr_ext f g a b : (forall t, a < t <= b -> f t = g t) -> sumr f a b = sumr g a b.
Proof.
  destruct (Z_le_gt_dec a b) as [Hab|Hab].
  - revert b Hab. apply (sumr_ind (fun b => (forall t, a < t <= b -> f t = g t) -> sumr f a b = sumr g a b)).
    + intros _. rewrite !sumr_same. reflexivity.
    + intros b Hb IH H. rewrite !sumr_succ by lia. rewrite IH, H; try lia. intros t Ht. apply H. lia.
  - intros _. unfold sumr. replace (Z.to_nat (b - a)) with O by lia. reflexivity.
Qed.

Lemma sumr_const f a b v : a <= b -> (forall t, a < t <= b -> f t = v) -> sumr f a b = (b - a) * v.
Proof.
  intros Hab. revert b Hab.
  apply (sumr_ind (fun b => (forall t, a < t <= b -> f t = v) -> sumr f a b = (b - a) * v)).
  - intros _. rewrite sumr_same. lia.
  - intros b Hb IH H. rewrite sumr_succ by lia. rewrite IH, H; try lia. intros t Ht. apply H. lia.
Qed.

Lemma sumr_lower f a b : a <= b -> (forall t, a < t <= b -> 1 <= f t) -> b - a <= sumr f a b.
Proof.
  intros Hab. revert b Hab.
  apply (sumr_ind (fun b => (forall t, a < t <= b -> 1 <= f t) -> b - a <= sumr f a b)).
  - intros _. rewrite sumr_same. lia.
  - intros b Hb IH H. rewrite sumr_succ by lia.
    assert (1 <= f (b + 1)) by (apply H; lia).
    assert (b - a <= sumr f a b) by (apply IH; intros t Ht; apply H; lia). lia.
Qed.

(** ================================================================== lists *)
Lemma nth_skipn_ (A : Type) (d : A) n : forall (l : list A) i, nth i (skipn n l) d = nth (n + i) l d.
Proof.
  induction n as [|n IH]; intros l i; [reflexivity|].
  destruct l as [|x l]; simpl; [destruct i; reflexivity | apply IH].
Qed.

Lemma nth_firstn_ (A : Type) (d : A) n : forall (l : list A) i, (i < n)%nat -> nth i (firstn n l) d = nth i l d.
Proof.
  induction n as [|n IH]; intros l i Hi; [lia|].
  destruct l as [|x l]; simpl; [destruct i; reflexivity|].
  destruct i; [reflexivity | apply IH; lia].
Qed.

Lemma skipn_app_le (A : Type) n (l1 l2 : list A) : (n <= length l1)%nat -> skipn n (l1 ++ l2) = skipn n l1 ++ l2.
Proof.
  intros H. rewrite skipn_app. replace (n - length l1)%nat with O by lia. reflexivity.
Qed.

Lemma firstn_app_le (A : Type) n (l1 l2 : list A) : (n <= length l1)%nat -> firstn n (l1 ++ l2) = firstn n l1.
Proof.
  intros H. rewrite firstn_app. replace (n - length l1)%nat with O by lia. simpl. apply app_nil_r.
Qed.

Lemma firstn_skipn_1 (A : Type) n : forall l : list A, firstn n (skipn 1 l) = skipn 1 (firstn (S n) l).
Proof. intros [|x l]; [rewrite !firstn_nil; reflexivity | reflexivity]. Qed.

Lemma last_nth (A : Type) (d : A) (l : list A) : last l d = nth (length l - 1) l d.
Proof.
  induction l as [|x l IH]; [reflexivity|].
  destruct l as [|y l]; [reflexivity|].
  change (last (x :: y :: l) d) with (last (y :: l) d). rewrite IH. simpl.
  rewrite Nat.sub_0_r. reflexivity.
Qed.

Lemma skipn_skipn_ (A : Type) y : forall x (l : list A), skipn x (skipn y l) = skipn (y + x) l.
Proof.
  induction y as [|y IH]; intros x l; [reflexivity|].
  destruct l as [|z l]; [rewrite !skipn_nil; reflexivity | apply IH].
Qed.

(** rotation used by [layout] *)
Definition rot (a : nat) (tl : list obs) : list obs := skipn a tl ++ firstn a tl.

Lemma rot_length a tl : length (rot a tl) = length tl.
Proof. unfold rot. rewrite app_length, skipn_length, firstn_length. lia. Qed.

(** overwriting the slot after the newest one = dropping the oldest and appending *)
Lemma rot_step_pos a tl o : (0 < a)%nat -> (a <= length tl)%nat ->
  firstn (length tl - a) (rot a tl) ++ o :: skipn (S (length tl - a)) (rot a tl)
  = rot (a - 1) (skipn 1 tl ++ [o]).
Proof.
  intros Ha Hl. unfold rot.
  assert (Hsk : length (skipn a tl) = (length tl - a)%nat) by apply skipn_length.
  assert (Hfn : length (firstn a tl) = a) by (rewrite firstn_length; lia).
  assert (Hl1 : length (skipn 1 tl) = (length tl - 1)%nat) by apply skipn_length.
  rewrite <- Hsk.
  rewrite firstn_app_le by lia. rewrite firstn_all.
  replace (S (length (skipn a tl))) with (length (skipn a tl) + 1)%nat by lia.
  rewrite <- skipn_skipn_. rewrite skipn_app_le by lia. rewrite skipn_all. simpl app at 2.
  rewrite skipn_app_le by lia. rewrite firstn_app_le by lia.
  rewrite skipn_skipn_. replace (1 + (a - 1))%nat with a by lia.
  rewrite firstn_skipn_1. replace (S (a - 1)) with a by lia.
  rewrite <- app_assoc. reflexivity.
Qed.

Lemma rot_step_zero tl o : (1 <= length tl)%nat ->
  o :: skipn 1 (rot 0 tl) = rot (length tl - 1) (skipn 1 tl ++ [o]).
Proof.
  intros Hl. unfold rot. simpl skipn at 2. simpl firstn at 1. rewrite app_nil_r.
  assert (Hl1 : length (skipn 1 tl) = (length tl - 1)%nat) by apply skipn_length.
  rewrite <- Hl1.
  rewrite skipn_app_le by lia. rewrite skipn_all. rewrite firstn_app_le by lia. rewrite firstn_all.
  reflexivity.
Qed.

(** ================================================================== layer 1: storage refinement *)
Section WithN.
Variable N : Z.
Hypothesis HN : 2 <= N.

Lemma vlen_app l o : vlen (l ++ [o]) = vlen l + 1.
Proof. unfold vlen. rewrite app_length. simpl. lia. Qed.

Lemma vlen_nonneg l : 0 <= vlen l.
Proof. unfold vlen. lia. Qed.

Lemma layout_small l : vlen l <= N -> layout N l = mkRing l (vlen l).
Proof. intros H. unfold layout. apply Z.leb_le in H. rewrite H. reflexivity. Qed.

Definition lay_cur (k : Z) : Z := (k - 1) mod N + 1.

Lemma lay_cur_range k : 1 <= lay_cur k <= N.
Proof. unfold lay_cur. pose proof (Z.mod_pos_bound (k - 1) N). lia. Qed.

Lemma lay_cur_next k : lay_cur (k + 1) = lay_cur k mod N + 1.
Proof.
  unfold lay_cur. f_equal. rewrite Zplus_mod_idemp_l. f_equal. lia.
Qed.

Lemma layout_ge l : N <= vlen l ->
  layout N l = mkRing (rot (Z.to_nat (N - lay_cur (vlen l))) (skipn (Z.to_nat (vlen l - N)) l)) (lay_cur (vlen l)).
Proof.
  intros H. unfold layout. destruct (vlen l <=? N) eqn:E.
  - apply Z.leb_le in E. assert (Hk : vlen l = N) by lia. rewrite Hk.
    unfold lay_cur. rewrite Z.mod_small by lia. replace (N - (N - 1 + 1)) with 0 by lia.
    rewrite Z.sub_diag. simpl. unfold rot. simpl. rewrite app_nil_r. f_equal. lia.
  - reflexivity.
Qed.

(** what [update] writes, on a ring laid out by [layout], is the layout of the longer list *)
Lemma layout_push l o :
  let rg := layout N l in
  let ni := if vlen (rg_obs rg) =? 0 then 1 else rg_cur rg mod N + 1 in
  (if vlen (rg_obs rg) =? N then vset (rg_obs rg) ni o else Ok (rg_obs rg ++ [o]))
    = Ok (rg_obs (layout N (l ++ [o]))) /\
  rg_cur (layout N (l ++ [o])) = ni.
Proof.
  intros rg ni. subst rg ni.
  pose proof (vlen_nonneg l) as Hk0.
  destruct (Z_lt_ge_dec (vlen l) N) as [Hlt|Hge].
  - rewrite layout_small by lia. rewrite layout_small by (rewrite vlen_app; lia). simpl.
    replace (vlen l =? N) with false by (symmetry; apply Z.eqb_neq; lia).
    split; [reflexivity|]. rewrite vlen_app.
    destruct (vlen l =? 0) eqn:E; [apply Z.eqb_eq in E; lia|].
    apply Z.eqb_neq in E. rewrite Z.mod_small by lia. reflexivity.
  - rewrite (layout_ge l) by lia. rewrite (layout_ge (l ++ [o])) by (rewrite vlen_app; lia). simpl.
    rewrite vlen_app. rewrite lay_cur_next.
    pose proof (lay_cur_range (vlen l)) as Hc.
    set (c := lay_cur (vlen l)) in *. clearbody c.
    set (tl := skipn (Z.to_nat (vlen l - N)) l).
    assert (Htl : length tl = Z.to_nat N).
    { subst tl. rewrite skipn_length. unfold vlen in *. lia. }
    assert (Htl' : skipn (Z.to_nat (vlen l + 1 - N)) (l ++ [o]) = skipn 1 tl ++ [o]).
    { replace (Z.to_nat (vlen l + 1 - N)) with (Z.to_nat (vlen l - N) + 1)%nat by lia.
      rewrite <- skipn_skipn_. rewrite skipn_app_le by (unfold vlen in *; lia). fold tl.
      rewrite skipn_app_le by lia. reflexivity. }
    rewrite Htl'.
    assert (Hlen : vlen (rot (Z.to_nat (N - c)) tl) = N).
    { unfold vlen. rewrite rot_length, Htl. lia. }
    rewrite Hlen. rewrite Z.eqb_refl.
    replace (N =? 0) with false by (symmetry; apply Z.eqb_neq; lia).
    split; [|reflexivity].
    unfold vset. rewrite Hlen.
    destruct (Z_lt_ge_dec c N) as [Hc1|Hc1].
    + rewrite Z.mod_small by lia.
      replace ((1 <=? c + 1) && (c + 1 <=? N)) with true
        by (symmetry; apply andb_true_intro; split; apply Z.leb_le; lia).
      f_equal.
      replace (Z.to_nat (c + 1 - 1)) with (length tl - Z.to_nat (N - c))%nat by lia.
      replace (Z.to_nat (c + 1)) with (S (length tl - Z.to_nat (N - c))) by lia.
      rewrite rot_step_pos by lia. f_equal. lia.
    + assert (c = N) by lia. subst c. rewrite Z_mod_same_full.
      replace (0 + 1) with 1 by lia.
      replace ((1 <=? 1) && (1 <=? N)) with true
        by (symmetry; apply andb_true_intro; split; apply Z.leb_le; lia).
      f_equal.
      replace (Z.to_nat (N - N)) with 0%nat by lia.
      replace (Z.to_nat (1 - 1)) with 0%nat by lia.
      replace (Z.to_nat 1) with 1%nat by lia.
      cbn [firstn app].
      rewrite rot_step_zero by lia. f_equal. lia.
Qed.

(** pointwise view of the layout: index -> number (1-based) of the observation stored there *)
Definition num (k c i : Z) : Z := if i <=? c then k - c + i else k - c - N + i.

Lemma layout_len l : vlen (rg_obs (layout N l)) = Z.min (vlen l) N.
Proof.
  destruct (Z_le_gt_dec (vlen l) N) as [H|H].
  - rewrite layout_small by lia. simpl. lia.
  - rewrite layout_ge by lia. simpl. unfold vlen at 1. rewrite rot_length, skipn_length.
    unfold vlen in *. lia.
Qed.

Lemma layout_cur l : rg_cur (layout N l) = if vlen l <=? N then vlen l else lay_cur (vlen l).
Proof.
  destruct (vlen l <=? N) eqn:E.
  - apply Z.leb_le in E. rewrite layout_small by lia. reflexivity.
  - apply Z.leb_gt in E. rewrite layout_ge by lia. reflexivity.
Qed.

Lemma layout_cur_range l : 0 < vlen l -> 1 <= rg_cur (layout N l) <= Z.min (vlen l) N.
Proof.
  intros H. rewrite layout_cur. destruct (vlen l <=? N) eqn:E.
  - apply Z.leb_le in E. lia.
  - apply Z.leb_gt in E. pose proof (lay_cur_range (vlen l)). lia.
Qed.

Lemma layout_cur_le l : rg_cur (layout N l) <= N.
Proof.
  rewrite layout_cur. destruct (vlen l <=? N) eqn:E.
  - apply Z.leb_le in E. lia.
  - pose proof (lay_cur_range (vlen l)). lia.
Qed.

Lemma vget_in l i : 1 <= i <= vlen l -> vget l i = Ok (nth (Z.to_nat (i - 1)) l obs0).
Proof.
  intros H. unfold vget.
  replace ((1 <=? i) && (i <=? vlen l)) with true; [reflexivity|].
  symmetry. apply andb_true_intro. split; apply Z.leb_le; lia.
Qed.

Lemma vget_out l i : ~ (1 <= i <= vlen l) -> vget l i = Err EGuard.
Proof.
  intros H. unfold vget.
  destruct ((1 <=? i) && (i <=? vlen l)) eqn:E; [|reflexivity].
  apply andb_prop in E. destruct E as [E1 E2]. apply Z.leb_le in E1, E2. lia.
Qed.

Lemma layout_get l i :
  1 <= i <= vlen (rg_obs (layout N l)) ->
  vget (rg_obs (layout N l)) i
  = Ok (nth (Z.to_nat (num (vlen l) (rg_cur (layout N l)) i - 1)) l obs0).
Proof.
  intros Hi. rewrite vget_in by exact Hi. f_equal. revert Hi.
  destruct (Z_le_gt_dec (vlen l) N) as [H|H].
  - rewrite layout_small by lia. simpl. intros Hi. unfold num.
    replace (i <=? vlen l) with true by (symmetry; apply Z.leb_le; lia). f_equal. lia.
  - rewrite layout_ge by lia. simpl. intros Hi.
    pose proof (lay_cur_range (vlen l)) as Hc. set (c := lay_cur (vlen l)) in *. clearbody c.
    assert (Hlen : vlen (rot (Z.to_nat (N - c)) (skipn (Z.to_nat (vlen l - N)) l)) = N).
    { unfold vlen at 1. rewrite rot_length, skipn_length. unfold vlen in *. lia. }
    rewrite Hlen in Hi. unfold rot, num.
    assert (Hsk : length (skipn (Z.to_nat (N - c)) (skipn (Z.to_nat (vlen l - N)) l)) = Z.to_nat c).
    { rewrite !skipn_length. unfold vlen in *. lia. }
    destruct (i <=? c) eqn:E.
    + apply Z.leb_le in E. rewrite app_nth1 by lia. rewrite !nth_skipn_. f_equal. lia.
    + apply Z.leb_gt in E. rewrite app_nth2 by lia. rewrite Hsk.
      rewrite nth_firstn_ by lia. rewrite nth_skipn_. f_equal. lia.
Qed.

Lemma layout_last l : 0 < vlen l ->
  vget (rg_obs (layout N l)) (rg_cur (layout N l)) = Ok (last l obs0).
Proof.
  intros H. pose proof (layout_cur_range l H) as Hc.
  rewrite layout_get by (rewrite layout_len; lia). f_equal.
  unfold num. rewrite Z.leb_refl. rewrite last_nth. f_equal. unfold vlen in *. lia.
Qed.

Lemma layout_oldest l : 0 < vlen l ->
  get_oldest N (layout N l) = Ok (nth (Z.to_nat (Z.max 0 (vlen l - N))) l obs0).
Proof.
  intros H. unfold get_oldest. pose proof (layout_cur_range l H) as Hc.
  rewrite layout_len.
  replace (Z.min (vlen l) N =? 0) with false by (symmetry; apply Z.eqb_neq; lia). simpl negb. cbv iota.
  destruct (Z.min (vlen l) N =? N) eqn:E.
  - apply Z.eqb_eq in E.
    assert (Hidx : 1 <= rg_cur (layout N l) mod N + 1 <= N)
      by (pose proof (Z.mod_pos_bound (rg_cur (layout N l)) N); lia).
    rewrite layout_get by (rewrite layout_len; lia). f_equal. f_equal.
    unfold num. set (c := rg_cur (layout N l)) in *. clearbody c.
    destruct (Z_lt_ge_dec c N) as [Hlt|Hge].
    + rewrite Z.mod_small by lia.
      replace (c + 1 <=? c) with false by (symmetry; apply Z.leb_gt; lia). lia.
    + assert (c = N) by lia. subst c. rewrite Z_mod_same_full.
      replace (0 + 1 <=? N) with true by (symmetry; apply Z.leb_le; lia). lia.
  - apply Z.eqb_neq in E. rewrite layout_get by (rewrite layout_len; lia). f_equal.
    unfold num. replace (1 <=? rg_cur (layout N l)) with true by (symmetry; apply Z.leb_le; lia).
    rewrite layout_cur. replace (vlen l <=? N) with true by (symmetry; apply Z.leb_le; lia).
    f_equal. lia.
Qed.

(** ------------------------------------------------------------------ chains of observations *)
Definition u0 : upd := mkU 0 0 0 0.

Lemma chain_from_length p E : length (chain_from p E) = length E.
Proof. revert p. induction E as [|u E IH]; intros p; simpl; [reflexivity | rewrite IH; reflexivity]. Qed.

Lemma last_indep (A : Type) (l : list A) d d' : l <> [] -> last l d = last l d'.
Proof.
  induction l as [|x l IH]; intros H; [congruence|].
  destruct l as [|y l]; [reflexivity|]. simpl in *. apply IH. discriminate.
Qed.

Lemma last_cons (A : Type) (a : A) l d : last (a :: l) d = last l a.
Proof.
  destruct l as [|b l]; [reflexivity|].
  change (last (a :: b :: l) d) with (last (b :: l) d). apply last_indep. discriminate.
Qed.

Lemma chain_from_snoc E : forall p u,
  chain_from p (E ++ [u]) = chain_from p E ++ [nobs (last (chain_from p E) p) u].
Proof.
  induction E as [|x E IH]; intros p u; [reflexivity|].
  change ((x :: E) ++ [u]) with (x :: (E ++ [u])).
  change (chain_from p (x :: E ++ [u])) with (nobs p x :: chain_from (nobs p x) (E ++ [u])).
  rewrite IH.
  change (chain_from p (x :: E)) with (nobs p x :: chain_from (nobs p x) E).
  rewrite last_cons. reflexivity.
Qed.

Lemma chain_last_round E : ob_round (last (chain E) obs0) = last_round E.
Proof.
  unfold chain, last_round. induction E as [|u E IH] using rev_ind; [reflexivity|].
  rewrite chain_from_snoc, !last_last. reflexivity.
Qed.

Lemma chain_length E : vlen (chain E) = Z.of_nat (length E).
Proof. unfold vlen, chain. rewrite chain_from_length. reflexivity. Qed.

Lemma chain_snoc E u : chain (E ++ [u]) = chain E ++ [nobs (last (chain E) obs0) u].
Proof. apply chain_from_snoc. Qed.

(** ------------------------------------------------------------------ ordering of the recorded rounds *)
Lemma strict_snoc E : forall a u,
  strict_from a E -> u_round (last E (mkU a 0 0 0)) < u_round u -> strict_from a (E ++ [u]).
Proof.
  induction E as [|x E IH]; intros a u Hs Hl; simpl in *; [auto|].
  destruct Hs as [Hax Hs]. split; [exact Hax|]. apply IH; [exact Hs|].
  destruct E as [|y E]; [exact Hl|].
  rewrite (last_indep _ (y :: E) _ (mkU a 0 0 0)) by discriminate. exact Hl.
Qed.

Lemma strict_nth E : forall a j, strict_from a E -> (j < length E)%nat -> a < u_round (nth j E u0).
Proof.
  induction E as [|x E IH]; intros a j Hs Hj; simpl in *; [lia|].
  destruct Hs as [Hax Hs]. destruct j; [exact Hax|].
  specialize (IH (u_round x) j Hs). lia.
Qed.

Lemma strict_mono E : forall a i j, strict_from a E -> (i < j)%nat -> (j < length E)%nat ->
  u_round (nth i E u0) < u_round (nth j E u0).
Proof.
  induction E as [|x E IH]; intros a i j Hs Hij Hj; simpl in *; [lia|].
  destruct Hs as [Hax Hs]. destruct j; [lia|]. destruct i.
  - apply (strict_nth E (u_round x) j Hs). lia.
  - apply (IH (u_round x)); [exact Hs | lia | lia].
Qed.

Lemma strict_last_pos E : strict_from 0 E -> E <> [] -> 0 < last_round E.
Proof.
  intros Hs Hne. unfold last_round. rewrite last_nth.
  apply (strict_nth E 0); [exact Hs|]. destruct E; [congruence | simpl; lia].
Qed.

Lemma nondecr_weaken us : forall a b, nondecr_from a us -> b <= a -> nondecr_from b us.
Proof. destruct us as [|u t]; intros a b H Hb; simpl in *; [auto | split; [lia | tauto]]. Qed.

(** ------------------------------------------------------------------ one update call on a laid-out ring *)
Lemma layout_eta l o : forall obs' ni,
  obs' = rg_obs (layout N (l ++ [o])) -> rg_cur (layout N (l ++ [o])) = ni ->
  mkRing obs' ni = layout N (l ++ [o]).
Proof. intros obs' ni -> <-. destruct (layout N (l ++ [o])); reflexivity. Qed.

Lemma update_layout E u :
  strict_from 0 E -> last_round E <= u_round u ->
  update_u N (layout N (chain E)) u = Ok (layout N (chain (E ++ eff_from (last_round E) [u]))).
Proof.
  intros Hs Hle. unfold update_u, update. simpl eff_from.
  change ((u_r1 u =? 0) || (u_r2 u =? 0) || (u_S u =? 0)) with (u_zero u).
  destruct (u_zero u) eqn:Ez; simpl orb; cbv iota; [rewrite app_nil_r; reflexivity|].
  pose proof (layout_cur_le (chain E)) as Hcl. apply Z.leb_le in Hcl. rewrite Hcl.
  rewrite layout_len.
  destruct E as [|x E'] eqn:EE.
  - (* nothing recorded yet *)
    unfold chain at 1 2 3 4 5 6. simpl chain_from. change (vlen []) with 0.
    replace (Z.min 0 N) with 0 by lia. rewrite Z.eqb_refl. cbn [bind].
    change (last_round []) with 0 in *. change (ob_round obs0) with 0.
    rewrite (Z.eqb_sym (u_round u) 0).
    destruct (0 =? u_round u) eqn:E0; [reflexivity|].
    unfold compute_new. change (ob_round obs0 =? 0) with true. cbv iota. cbn [bind].
    pose proof (layout_push [] (nobs obs0 u)) as [Hp Hc].
    rewrite layout_len in Hp, Hc. change (vlen []) with 0 in Hp, Hc.
    replace (Z.min 0 N) with 0 in Hp, Hc by lia. rewrite Z.eqb_refl in Hp, Hc.
    assert (Hn : nobs obs0 u = mkO (ob_a1 obs0 + 1 * u_r1 u) (ob_a2 obs0 + 1 * u_r2 u) (ob_w obs0 + 1)
                                   (u_round u) (ob_lp obs0 + 1 * u_S u)) by reflexivity.
    rewrite <- Hn. change (chain []) with (@nil obs). rewrite Hp. cbn [bind]. f_equal.
    change (chain ([] ++ [u])) with ([] ++ [nobs obs0 u]).
    apply layout_eta; [reflexivity | exact Hc].
  - rewrite <- EE in *. assert (Hne : E <> []) by (rewrite EE; discriminate). clear EE x E'.
    assert (Hk : 0 < vlen (chain E)).
    { rewrite chain_length. destruct E; [congruence | simpl; lia]. }
    replace (Z.min (vlen (chain E)) N =? 0) with false by (symmetry; apply Z.eqb_neq; lia).
    rewrite layout_last by exact Hk. simpl bind.
    rewrite chain_last_round.
    pose proof (strict_last_pos E Hs Hne) as Hpos.
    rewrite (Z.eqb_sym (u_round u)).
    destruct (last_round E =? u_round u) eqn:Er; simpl; [rewrite app_nil_r; reflexivity|].
    unfold compute_new. rewrite chain_last_round.
    replace (last_round E =? 0) with false by (symmetry; apply Z.eqb_neq; lia).
    unfold sub_chk. replace (u_round u <? last_round E) with false by (symmetry; apply Z.ltb_ge; lia).
    simpl bind.
    pose proof (layout_push (chain E) (nobs (last (chain E) obs0) u)) as [Hp Hc].
    rewrite layout_len in Hp, Hc.
    replace (Z.min (vlen (chain E)) N =? 0) with false in Hc by (symmetry; apply Z.eqb_neq; lia).
    replace (Z.min (vlen (chain E)) N =? 0) with false in Hp by (symmetry; apply Z.eqb_neq; lia).
    assert (Hn : nobs (last (chain E) obs0) u =
                 mkO (ob_a1 (last (chain E) obs0) + (u_round u - last_round E) * u_r1 u)
                     (ob_a2 (last (chain E) obs0) + (u_round u - last_round E) * u_r2 u)
                     (ob_w (last (chain E) obs0) + (u_round u - last_round E)) (u_round u)
                     (ob_lp (last (chain E) obs0) + (u_round u - last_round E) * u_S u)).
    { unfold nobs. rewrite chain_last_round.
      replace (last_round E =? 0) with false by (symmetry; apply Z.eqb_neq; lia). reflexivity. }
    rewrite <- Hn. rewrite Hp. simpl bind. f_equal. rewrite chain_snoc.
    apply layout_eta; [reflexivity | exact Hc].
Qed.

Lemma last_round_snoc E u : last_round (E ++ [u]) = u_round u.
Proof. unfold last_round. rewrite last_last. reflexivity. Qed.

(** C13_ring / C13_update, storage part: the contract's ring after any sequence of calls is the
    layout of the observations recorded so far *)
Lemma run_updates_layout us : forall E,
  strict_from 0 E -> nondecr_from (last_round E) us ->
  run_updates N (layout N (chain E)) us = Ok (layout N (chain (E ++ eff_from (last_round E) us))).
Proof.
  induction us as [|u t IH]; intros E Hs Hnd.
  - simpl. rewrite app_nil_r. reflexivity.
  - destruct Hnd as [Hle Hnd]. simpl run_updates. rewrite update_layout by assumption.
    cbn [bind]. simpl eff_from.
    destruct (u_zero u || (u_round u =? last_round E)) eqn:Ec.
    + rewrite app_nil_r. apply IH; [exact Hs|]. apply (nondecr_weaken t (u_round u)); assumption.
    + apply orb_false_elim in Ec. destruct Ec as [_ Ec]. apply Z.eqb_neq in Ec.
      rewrite IH.
      * rewrite last_round_snoc. rewrite <- app_assoc. reflexivity.
      * apply strict_snoc; [exact Hs|]. fold (last_round E). lia.
      * rewrite last_round_snoc. exact Hnd.
Qed.

Lemma eff_strict us : forall lr, nondecr_from lr us -> strict_from lr (eff_from lr us).
Proof.
  induction us as [|u t IH]; intros lr H; simpl in *; [exact I|].
  destruct H as [Hle H].
  destruct (u_zero u || (u_round u =? lr)) eqn:Ec.
  - apply IH. apply (nondecr_weaken t (u_round u)); assumption.
  - apply orb_false_elim in Ec. destruct Ec as [_ Ec]. apply Z.eqb_neq in Ec.
    simpl. split; [lia | apply IH; exact H].
Qed.

Lemma eff_pos us : forall lr, Forall nonneg_upd us -> Forall pos_upd (eff_from lr us).
Proof.
  induction us as [|u t IH]; intros lr H; simpl; [constructor|].
  inversion H as [|? ? Hu Ht]; subst.
  destruct (u_zero u || (u_round u =? lr)) eqn:Ec; [apply IH; exact Ht|].
  apply orb_false_elim in Ec. destruct Ec as [Ez _]. unfold u_zero in Ez.
  apply orb_false_elim in Ez. destruct Ez as [Ez E3]. apply orb_false_elim in Ez. destruct Ez as [E1 E2].
  apply Z.eqb_neq in E1, E2, E3. constructor; [|apply IH; exact Ht].
  unfold nonneg_upd, pos_upd in *. lia.
Qed.

Lemma eff_incl us : forall lr u, In u (eff_from lr us) -> In u us.
Proof.
  induction us as [|x t IH]; intros lr u H; simpl in *; [exact H|].
  destruct (u_zero x || (u_round x =? lr)); [right; eapply IH; exact H|].
  destruct H as [H|H]; [left; exact H | right; eapply IH; exact H].
Qed.

(** ================================================================== layer 2: closed form *)
Lemma start_app E F c t : start (E ++ F) c t = start E (start F c t) t.
Proof.
  induction E as [|u E IH]; [reflexivity|]. simpl.
  destruct (negb (u_zero u) && (t <=? u_round u)); [reflexivity | exact IH].
Qed.

(** beyond the last call the present reserves are in effect *)
Lemma start_beyond E : forall c t, (forall u, In u E -> u_round u < t) -> start E c t = c.
Proof.
  induction E as [|u E IH]; intros c t H; [reflexivity|]. simpl.
  replace (t <=? u_round u) with false
    by (symmetry; apply Z.leb_gt; apply H; left; reflexivity).
  rewrite andb_false_r. apply IH. intros v Hv. apply H. right. exact Hv.
Qed.

(** up to the last recorded round the present reserves are irrelevant *)
Lemma start_within E : forall a c c' t, strict_from a E -> Forall pos_upd E -> E <> [] ->
  t <= last_round E -> start E c t = start E c' t.
Proof.
  induction E as [|u E IH]; intros a c c' t Hs Hp Hne Ht; [congruence|].
  simpl. destruct (negb (u_zero u) && (t <=? u_round u)) eqn:Ec; [reflexivity|].
  destruct Hs as [Hau Hs]. inversion Hp as [|? ? Hu Hp']; subst.
  destruct E as [|v E].
  - exfalso. unfold last_round in Ht. simpl in Ht.
    assert (Hz : u_zero u = false).
    { unfold u_zero, pos_upd in *. destruct Hu as (H1 & H2 & H3).
      replace (u_r1 u =? 0) with false by (symmetry; apply Z.eqb_neq; lia).
      replace (u_r2 u =? 0) with false by (symmetry; apply Z.eqb_neq; lia).
      replace (u_S u =? 0) with false by (symmetry; apply Z.eqb_neq; lia). reflexivity. }
    rewrite Hz in Ec. simpl in Ec. apply Z.leb_gt in Ec. lia.
  - apply (IH (u_round u)); [exact Hs | exact Hp' | discriminate |].
    unfold last_round in *. rewrite last_cons in Ht. rewrite (last_indep _ (v :: E) _ u) by discriminate.
    exact Ht.
Qed.

Lemma pos_not_zero u : pos_upd u -> u_zero u = false.
Proof.
  unfold u_zero, pos_upd. intros (H1 & H2 & H3).
  replace (u_r1 u =? 0) with false by (symmetry; apply Z.eqb_neq; lia).
  replace (u_r2 u =? 0) with false by (symmetry; apply Z.eqb_neq; lia).
  replace (u_S u =? 0) with false by (symmetry; apply Z.eqb_neq; lia). reflexivity.
Qed.

Definition accE (g : upd -> Z) (E : list upd) (c : upd) (x : Z) : Z :=
  g (hd u0 E) + sumr (fun t => g (start E c t)) (u_round (hd u0 E)) x.

Definition sel_ok (ga : obs -> Z) (g : upd -> Z) : Prop :=
  ga obs0 = 0 /\
  forall p u, ga (nobs p u) = ga p + (if ob_round p =? 0 then 1 else u_round u - ob_round p) * g u.

Lemma sel_a1 : sel_ok ob_a1 u_r1. Proof. split; reflexivity. Qed.
Lemma sel_a2 : sel_ok ob_a2 u_r2. Proof. split; reflexivity. Qed.
Lemma sel_lp : sel_ok ob_lp u_S. Proof. split; reflexivity. Qed.

Lemma strict_app_inv E : forall a F, strict_from a (E ++ F) -> strict_from a E.
Proof.
  induction E as [|x E IH]; intros a F H; simpl in *; [exact I|].
  destruct H as [H1 H2]. split; [exact H1 | eapply IH; exact H2].
Qed.

Lemma strict_snoc_inv E : forall a u, strict_from a (E ++ [u]) -> u_round (last E (mkU a 0 0 0)) < u_round u.
Proof.
  induction E as [|x E IH]; intros a u H; simpl in H; [simpl; tauto|].
  destruct H as [H1 H2]. specialize (IH _ _ H2).
  destruct E as [|y E]; [exact IH|].
  rewrite last_cons. rewrite (last_indep _ (y :: E) _ (mkU (u_round x) 0 0 0)) by discriminate. exact IH.
Qed.

Lemma nth_le_last E a j : strict_from a E -> (j < length E)%nat -> u_round (nth j E u0) <= last_round E.
Proof.
  intros Hs Hj. unfold last_round. rewrite last_nth. fold u0.
  destruct (Nat.eq_dec j (length E - 1)) as [->|Hne]; [lia|].
  pose proof (strict_mono E a j (length E - 1) Hs). lia.
Qed.

Lemma in_le_last E a v : strict_from a E -> In v E -> u_round v <= last_round E.
Proof.
  intros Hs Hin. destruct (In_nth E v u0 Hin) as (j & Hj & <-). eapply nth_le_last; eassumption.
Qed.

Lemma hd_app_ne (E : list upd) F d : E <> [] -> hd d (E ++ F) = hd d E.
Proof. destruct E; [congruence | reflexivity]. Qed.

Lemma hd_nth (E : list upd) d : hd d E = nth 0 E d.
Proof. destruct E; reflexivity. Qed.

(** sums over rounds up to the last recorded one do not see a later call *)
Lemma accE_stable g E u c x : strict_from 0 E -> Forall pos_upd E -> E <> [] -> x <= last_round E ->
  accE g (E ++ [u]) c x = accE g E c x.
Proof.
  intros Hs Hp Hne Hx. unfold accE. rewrite hd_app_ne by exact Hne. f_equal.
  apply sumr_ext. intros t Ht. rewrite start_app. f_equal.
  apply (start_within E 0); try assumption. lia.
Qed.

Lemma chain_round E : forall j, (j < length E)%nat -> ob_round (nth j (chain E) obs0) = u_round (nth j E u0).
Proof.
  induction E as [|u E IH] using rev_ind; intros j Hj; [simpl in Hj; lia|].
  rewrite app_length in Hj. simpl in Hj. rewrite chain_snoc.
  destruct (Nat.eq_dec j (length E)) as [->|Hne].
  - rewrite app_nth2 by (unfold chain; rewrite chain_from_length; lia).
    rewrite app_nth2 by lia. unfold chain. rewrite chain_from_length, Nat.sub_diag. reflexivity.
  - rewrite app_nth1 by (unfold chain; rewrite chain_from_length; lia).
    rewrite app_nth1 by lia. apply IH. lia.
Qed.

Lemma chain_last E : E <> [] -> last (chain E) obs0 = nth (length E - 1) (chain E) obs0.
Proof. intros _. rewrite last_nth. unfold chain. rewrite chain_from_length. reflexivity. Qed.

Lemma chain_closed ga g : sel_ok ga g -> forall E c,
  strict_from 0 E -> Forall pos_upd E ->
  forall j, (j < length E)%nat -> ga (nth j (chain E) obs0) = accE g E c (u_round (nth j E u0)).
Proof.
  intros [Hg0 Hgs]. induction E as [|u E IH] using rev_ind; intros c Hs Hp j Hj; [simpl in Hj; lia|].
  rewrite app_length in Hj. simpl in Hj.
  pose proof (strict_app_inv _ _ _ Hs) as HsE.
  pose proof (strict_snoc_inv _ _ _ Hs) as Hlt. fold (last_round E) in Hlt.
  apply Forall_app in Hp. destruct Hp as [HpE Hpu]. inversion Hpu as [|? ? Hu _]; subst.
  rewrite chain_snoc.
  destruct E as [|e0 E'] eqn:EE.
  - (* first observation *)
    assert (j = 0)%nat by (simpl in Hj; lia). subst j. simpl.
    rewrite (Hgs obs0 u). rewrite Hg0. change (ob_round obs0 =? 0) with true. cbv iota.
    unfold accE. cbn [hd app nth]. rewrite sumr_same. lia.
  - rewrite <- EE in *. assert (Hne : E <> []) by (rewrite EE; discriminate). clear EE e0 E'.
    assert (Hlen : length (chain E) = length E) by (unfold chain; apply chain_from_length).
    destruct (Nat.eq_dec j (length E)) as [->|Hnj].
    + rewrite app_nth2 by lia. rewrite app_nth2 by lia. rewrite Hlen, Nat.sub_diag. simpl nth.
      rewrite Hgs. rewrite chain_last_round.
      pose proof (strict_last_pos E HsE Hne) as Hpos.
      replace (last_round E =? 0) with false by (symmetry; apply Z.eqb_neq; lia).
      rewrite chain_last by exact Hne.
      rewrite (IH c HsE HpE (length E - 1)%nat) by (destruct E; [congruence | simpl; lia]).
      assert (Hlr : u_round (nth (length E - 1) E u0) = last_round E).
      { unfold last_round. rewrite last_nth. reflexivity. }
      rewrite Hlr.
      rewrite <- (accE_stable g E u c (last_round E)) by (try assumption; lia).
      unfold accE. rewrite hd_app_ne by exact Hne.
      assert (H1 : u_round (hd u0 E) <= last_round E).
      { rewrite hd_nth. apply (nth_le_last E 0); [exact HsE|]. destruct E; [congruence | simpl; lia]. }
      rewrite (sumr_split _ (u_round (hd u0 E)) (last_round E) (u_round u)) by lia.
      rewrite (sumr_const _ (last_round E) (u_round u) (g u)); [lia | lia |].
      intros t Ht. rewrite start_app. rewrite start_beyond.
      * simpl. rewrite (pos_not_zero u Hu). simpl.
        replace (t <=? u_round u) with true by (symmetry; apply Z.leb_le; lia). reflexivity.
      * intros v Hv. pose proof (in_le_last E 0 v HsE Hv). lia.
    + rewrite app_nth1 by lia. rewrite app_nth1 by lia.
      rewrite (IH c HsE HpE j) by lia. symmetry. apply accE_stable; try assumption.
      apply (nth_le_last E 0); [exact HsE | lia].
Qed.

Lemma chain_weight E : strict_from 0 E ->
  forall j, (j < length E)%nat -> ob_w (nth j (chain E) obs0) = 1 + u_round (nth j E u0) - u_round (hd u0 E).
Proof.
  induction E as [|u E IH] using rev_ind; intros Hs j Hj; [simpl in Hj; lia|].
  rewrite app_length in Hj. simpl in Hj.
  pose proof (strict_app_inv _ _ _ Hs) as HsE.
  rewrite chain_snoc.
  destruct E as [|e0 E'] eqn:EE.
  - assert (j = 0)%nat by (simpl in Hj; lia). subst j.
    change (chain []) with (@nil obs). cbn [app nth hd last]. unfold nobs.
    change (ob_round obs0 =? 0) with true. cbv iota. simpl ob_w. lia.
  - rewrite <- EE in *. assert (Hne : E <> []) by (rewrite EE; discriminate). clear EE e0 E'.
    assert (Hlen : length (chain E) = length E) by (unfold chain; apply chain_from_length).
    rewrite hd_app_ne by exact Hne.
    destruct (Nat.eq_dec j (length E)) as [->|Hnj].
    + rewrite app_nth2 by lia. rewrite app_nth2 by lia. rewrite Hlen, Nat.sub_diag. simpl nth.
      unfold nobs. simpl ob_w. rewrite chain_last_round.
      pose proof (strict_last_pos E HsE Hne) as Hpos.
      replace (last_round E =? 0) with false by (symmetry; apply Z.eqb_neq; lia).
      rewrite chain_last by exact Hne.
      rewrite (IH HsE (length E - 1)%nat) by (destruct E; [congruence | simpl; lia]).
      assert (Hlr : u_round (nth (length E - 1) E u0) = last_round E).
      { unfold last_round. rewrite last_nth. reflexivity. }
      lia.
    + rewrite app_nth1 by lia. rewrite app_nth1 by lia. apply IH; [exact HsE | lia].
Qed.

(** ================================================================== layer 3: binary search *)
Definition rdx (L : list obs) (i : Z) : Z := ob_round (nth (Z.to_nat (i - 1)) L obs0).

(** [si] is next to where [x] would be inside the searched segment lo0..hi0 *)
Definition adj (L : list obs) (x lo0 hi0 si : Z) : Prop :=
  lo0 <= si <= hi0 /\
  ((rdx L si < x /\ (si = hi0 \/ x < rdx L (si + 1))) \/
   (x < rdx L si /\ (si = lo0 \/ rdx L (si - 1) < x))).

Lemma bs_loop_spec L x lo0 hi0 : 1 <= lo0 -> hi0 <= vlen L ->
  (forall i j, lo0 <= i -> i < j -> j <= hi0 -> rdx L i < rdx L j) ->
  forall fuel lo hi si,
    hi - lo + 1 <= Z.of_nat fuel -> lo0 <= lo -> hi <= hi0 -> lo <= hi + 1 ->
    (forall i, lo0 <= i < lo -> rdx L i < x) ->
    (forall i, hi < i <= hi0 -> x < rdx L i) ->
    (hi < lo -> adj L x lo0 hi0 si) ->
    exists po idx, bs_loop fuel L x lo hi si = Ok (po, idx) /\
      ((po = nth (Z.to_nat (idx - 1)) L obs0 /\ rdx L idx = x /\ lo0 <= idx <= hi0) \/
       (po = obs0 /\ adj L x lo0 hi0 idx)).
Proof.
  intros Hlo0 Hhi0 Hmono. induction fuel as [|fuel IH]; intros lo hi si Hf Hlo Hhi Hlh Hbelow Habove Hsi.
  - simpl. replace (lo <=? hi) with false by (symmetry; apply Z.leb_gt; lia).
    exists obs0, si. split; [reflexivity|]. right. split; [reflexivity | apply Hsi; lia].
  - simpl bs_loop. destruct (lo <=? hi) eqn:Elh.
    2:{ apply Z.leb_gt in Elh. exists obs0, si. split; [reflexivity|]. right. split; [reflexivity | apply Hsi; lia]. }
    apply Z.leb_le in Elh.
    assert (Hm : lo <= (lo + hi) / 2 <= hi).
    { split; [apply Z.div_le_lower_bound; lia | apply Z.div_le_upper_bound; lia]. }
    set (m := (lo + hi) / 2) in *. clearbody m.
    rewrite vget_in by lia. cbn [bind]. fold (rdx L m).
    destruct (rdx L m =? x) eqn:Eeq.
    + apply Z.eqb_eq in Eeq. exists (nth (Z.to_nat (m - 1)) L obs0), m. split; [reflexivity|].
      left. repeat split; try assumption; lia.
    + apply Z.eqb_neq in Eeq. destruct (rdx L m <? x) eqn:Elt.
      * apply Z.ltb_lt in Elt. apply IH; try lia.
        -- intros i Hi. destruct (Z_lt_ge_dec i lo) as [H1|H1]; [apply Hbelow; lia|].
           destruct (Z.eq_dec i m) as [->|Hne]; [exact Elt|].
           pose proof (Hmono i m). lia.
        -- intros i Hi. apply Habove. lia.
        -- intros Hex. assert (m = hi) by lia. subst m. split; [lia|]. left. split; [exact Elt|].
           destruct (Z.eq_dec hi hi0) as [->|Hne]; [left; reflexivity | right; apply Habove; lia].
      * apply Z.ltb_ge in Elt. unfold sub_chk.
        replace (m <? 1) with false by (symmetry; apply Z.ltb_ge; lia). cbn [bind].
        apply IH; try lia.
        -- intros i Hi. apply Hbelow. lia.
        -- intros i Hi. destruct (Z_gt_le_dec i hi) as [H1|H1]; [apply Habove; lia|].
           destruct (Z.eq_dec i m) as [->|Hne]; [lia|].
           pose proof (Hmono m i). lia.
        -- intros Hex. assert (m = lo) by lia. subst m. split; [lia|]. right. split; [lia|].
           destruct (Z.eq_dec lo lo0) as [->|Hne]; [left; reflexivity | right; apply Hbelow; lia].
Qed.

(** rounds strictly increase along the list of recorded observations *)
Definition sorted_obs (l : list obs) : Prop :=
  forall i j, (i < j)%nat -> (j < length l)%nat -> ob_round (nth i l obs0) < ob_round (nth j l obs0).

(** round of observation number m (1-based) *)
Definition rnd (l : list obs) (m : Z) : Z := ob_round (nth (Z.to_nat (m - 1)) l obs0).

Lemma rnd_mono l m1 m2 : sorted_obs l -> 1 <= m1 -> m1 < m2 -> m2 <= vlen l -> rnd l m1 < rnd l m2.
Proof. intros Hs H1 H2 H3. unfold rnd. apply Hs; unfold vlen in *; lia. Qed.

Section Laid.
Variable l : list obs.
Hypothesis Hk : 0 < vlen l.
Let rg := layout N l.
Let k := vlen l.
Let c := rg_cur rg.
Let n := vlen (rg_obs rg).

Lemma laid_n : n = Z.min k N.
Proof. apply layout_len. Qed.

Lemma laid_c : 1 <= c <= n.
Proof. unfold c, n, rg. rewrite layout_len. apply layout_cur_range. exact Hk. Qed.

Lemma laid_c_small : k <= N -> c = k.
Proof. intros H. unfold c, rg. rewrite layout_cur. replace (vlen l <=? N) with true by (symmetry; apply Z.leb_le; exact H). reflexivity. Qed.

Lemma laid_num_range i : 1 <= i <= n -> k - n < num k c i <= k.
Proof.
  intros Hi. pose proof laid_n. pose proof laid_c. unfold num.
  destruct (Z_le_gt_dec k N) as [Hs|Hs].
  - pose proof (laid_c_small Hs). replace (i <=? c) with true by (symmetry; apply Z.leb_le; lia). lia.
  - destruct (i <=? c) eqn:E; [apply Z.leb_le in E | apply Z.leb_gt in E]; lia.
Qed.

Lemma laid_nth i : 1 <= i <= n ->
  nth (Z.to_nat (i - 1)) (rg_obs rg) obs0 = nth (Z.to_nat (num k c i - 1)) l obs0.
Proof.
  intros Hi. pose proof (layout_get l i Hi) as H. rewrite vget_in in H by exact Hi. inversion H as [H']. exact H'.
Qed.

Lemma laid_rdx i : 1 <= i <= n -> rdx (rg_obs rg) i = rnd l (num k c i).
Proof. intros Hi. unfold rdx, rnd. rewrite laid_nth by exact Hi. reflexivity. Qed.

Lemma laid_last_round : rdx (rg_obs rg) c = ob_round (last l obs0).
Proof.
  pose proof laid_c. rewrite laid_rdx by lia. unfold rnd, num. rewrite Z.leb_refl. rewrite last_nth.
  f_equal. f_equal. unfold k, vlen in *. lia.
Qed.

(** adjacency of [x] to the observation stored at ring index [idx], in terms of observation numbers *)
Definition adj_ring (x idx : Z) : Prop :=
  let m := num k c idx in
  (rnd l m < x /\ x < rnd l (m + 1) /\ m + 1 <= k /\
   1 <= idx mod N + 1 <= n /\ num k c (idx mod N + 1) = m + 1) \/
  (rnd l (m - 1) < x /\ x < rnd l m /\ k - n < m - 1 /\
   idx <> 1 /\ 1 <= idx - 1 <= n /\ num k c (idx - 1) = m - 1).

(** C13_search *)
Lemma bsearch_spec x : sorted_obs l ->
  rnd l (Z.max 0 (k - N) + 1) <= x -> x < ob_round (last l obs0) ->
  exists po idx, bsearch N rg x = Ok (po, idx) /\ 1 <= idx <= n /\
    ((po = nth (Z.to_nat (num k c idx - 1)) l obs0 /\ ob_round po = x) \/ (po = obs0 /\ adj_ring x idx)).
Proof.
  intros Hs Hold Hnew.
  pose proof laid_n as Hn. pose proof laid_c as Hc. fold rg in Hn.
  assert (HkN : Z.max 0 (k - N) + 1 = k - n + 1) by lia.
  rewrite HkN in Hold.
  assert (Hlastr : rnd l k = ob_round (last l obs0)).
  { unfold rnd. rewrite last_nth. f_equal. f_equal. unfold k, vlen in *. lia. }
  unfold bsearch. fold n. fold c.
  rewrite vget_in by (fold n; lia). cbn [bind]. fold (rdx (rg_obs rg) 1).
  rewrite laid_rdx by lia.
  assert (Hmono : forall m1 m2, 1 <= m1 -> m1 < m2 -> m2 <= k -> rnd l m1 < rnd l m2).
  { intros. apply rnd_mono; assumption. }
  destruct (rnd l (num k c 1) <=? x) eqn:E1.
  - (* the segment 1 .. c-1 *)
    apply Z.leb_le in E1. unfold sub_chk. replace (c <? 1) with false by (symmetry; apply Z.ltb_ge; lia).
    cbn [bind].
    assert (Hnum1 : num k c 1 = k - c + 1) by (unfold num; replace (1 <=? c) with true by (symmetry; apply Z.leb_le; lia); lia).
    assert (Hc2 : 2 <= c).
    { destruct (Z.eq_dec c 1) as [Hc1|]; [|lia]. rewrite Hnum1, Hc1 in E1.
      replace (k - 1 + 1) with k in E1 by lia. lia. }
    assert (Hnumlo : forall i, 1 <= i <= c -> num k c i = k - c + i).
    { intros i Hi. unfold num. replace (i <=? c) with true by (symmetry; apply Z.leb_le; lia). reflexivity. }
    destruct (bs_loop_spec (rg_obs rg) x 1 (c - 1)) with (fuel := Z.to_nat N) (lo := 1) (hi := c - 1) (si := 1)
      as (po & idx & Hbs & Hres); try lia.
    + intros i j Hi Hij Hj. rewrite !laid_rdx by lia. rewrite !Hnumlo by lia. apply Hmono; lia.
    + rewrite Hbs. exists po, idx. split; [reflexivity|].
      destruct Hres as [(Hpo & Hx & Hr) | (Hpo & (Hr & Hadj))].
      * split; [lia|]. left. rewrite Hpo. split; [apply laid_nth; lia | exact Hx].
      * split; [lia|]. right. split; [exact Hpo|]. unfold adj_ring.
        destruct Hadj as [(Hlt & Hnext) | (Hgt & Hprev)].
        -- left. rewrite laid_rdx in Hlt by lia. rewrite Z.mod_small by lia.
           rewrite (Hnumlo idx) in * by lia. rewrite (Hnumlo (idx + 1)) by lia.
           repeat split; try lia.
           destruct Hnext as [->|Hnext].
           ++ replace (k - c + (c - 1) + 1) with k by lia. lia.
           ++ rewrite laid_rdx in Hnext by lia. rewrite Hnumlo in Hnext by lia.
              replace (k - c + idx + 1) with (k - c + (idx + 1)) by lia. exact Hnext.
        -- right. rewrite laid_rdx in Hgt by lia. rewrite (Hnumlo idx) in * by lia.
           assert (Hne : idx <> 1).
           { intros ->. rewrite Hnum1 in E1. replace (k - c + 1) with (k - c + 1) in Hgt by lia. lia. }
           destruct Hprev as [->|Hprev]; [congruence|].
           rewrite laid_rdx in Hprev by lia. rewrite Hnumlo in Hprev by lia.
           rewrite (Hnumlo (idx - 1)) by lia.
           replace (k - c + idx - 1) with (k - c + (idx - 1)) by lia.
           repeat split; try lia.
  - (* the segment c+1 .. N of a wrapped ring *)
    apply Z.leb_gt in E1.
    assert (Hnum1 : num k c 1 = k - c + 1) by (unfold num; replace (1 <=? c) with true by (symmetry; apply Z.leb_le; lia); lia).
    rewrite Hnum1 in E1.
    assert (Hwrap : c < n /\ n = N /\ N < k).
    { destruct (Z_le_gt_dec k N) as [Hsm|Hbig].
      - pose proof (laid_c_small Hsm) as Hck. exfalso. rewrite Hck in E1.
        replace (k - n + 1) with (k - k + 1) in Hold by lia. lia.
      - destruct (Z.eq_dec c n) as [Hcn|]; [|lia]. exfalso. rewrite Hcn in E1. lia. }
    destruct Hwrap as (Hcn & HnN & HNk).
    assert (Hnumhi : forall i, c < i <= N -> num k c i = k - c - N + i).
    { intros i Hi. unfold num. replace (i <=? c) with false by (symmetry; apply Z.leb_gt; lia). reflexivity. }
    cbn [bind].
    destruct (bs_loop_spec (rg_obs rg) x (c + 1) N) with (fuel := Z.to_nat N) (lo := c + 1) (hi := n) (si := 1)
      as (po & idx & Hbs & Hres); try lia.
    + intros i j Hi Hij Hj. rewrite !laid_rdx by lia. rewrite !Hnumhi by lia. apply Hmono; lia.
    + fold n in Hbs. rewrite Hbs. exists po, idx. split; [reflexivity|].
      destruct Hres as [(Hpo & Hx & Hr) | (Hpo & (Hr & Hadj))].
      * split; [lia|]. left. rewrite Hpo. split; [apply laid_nth; lia | exact Hx].
      * split; [lia|]. right. split; [exact Hpo|]. unfold adj_ring.
        destruct Hadj as [(Hlt & Hnext) | (Hgt & Hprev)].
        -- left. rewrite laid_rdx in Hlt by lia. rewrite (Hnumhi idx) in * by lia.
           destruct (Z.eq_dec idx N) as [HiN|HiN].
           ++ rewrite HiN. rewrite Z_mod_same_full. replace (0 + 1) with 1 by lia. rewrite Hnum1.
              rewrite HiN in Hlt. replace (k - c - N + N + 1) with (k - c + 1) by lia.
              repeat split; try lia.
           ++ destruct Hnext as [Hnext|Hnext]; [congruence|].
              rewrite laid_rdx in Hnext by lia. rewrite Hnumhi in Hnext by lia.
              rewrite Z.mod_small by lia. rewrite (Hnumhi (idx + 1)) by lia.
              replace (k - c - N + idx + 1) with (k - c - N + (idx + 1)) by lia.
              repeat split; try lia.
        -- right. rewrite laid_rdx in Hgt by lia. rewrite (Hnumhi idx) in * by lia.
           destruct Hprev as [Hprev|Hprev].
           { exfalso. rewrite Hprev in Hgt. replace (k - c - N + (c + 1)) with (k - n + 1) in Hgt by lia. lia. }
           assert (Hne : idx <> c + 1).
           { intros ->. replace (k - c - N + (c + 1)) with (k - n + 1) in Hgt by lia. lia. }
           rewrite laid_rdx in Hprev by lia. rewrite Hnumhi in Hprev by lia.
           rewrite (Hnumhi (idx - 1)) by lia.
           replace (k - c - N + idx - 1) with (k - c - N + (idx - 1)) by lia.
           repeat split; try lia.
Qed.

End Laid.

(** ================================================================== layer 4: lookups are exact *)
Definition acc_obsE (E : list upd) (c : upd) (x : Z) : obs :=
  mkO (accE u_r1 E c x) (accE u_r2 E c x) (1 + x - u_round (hd u0 E)) x (accE u_S E c x).

Lemma chain_nth_closed E c j : strict_from 0 E -> Forall pos_upd E -> (j < length E)%nat ->
  nth j (chain E) obs0 = acc_obsE E c (u_round (nth j E u0)).
Proof.
  intros Hs Hp Hj.
  pose proof (chain_closed _ _ sel_a1 E c Hs Hp j Hj) as H1.
  pose proof (chain_closed _ _ sel_a2 E c Hs Hp j Hj) as H2.
  pose proof (chain_closed _ _ sel_lp E c Hs Hp j Hj) as H3.
  pose proof (chain_weight E Hs j Hj) as H4.
  pose proof (chain_round E j Hj) as H5.
  unfold acc_obsE. destruct (nth j (chain E) obs0); simpl in *. subst. reflexivity.
Qed.

Lemma chain_sorted E : strict_from 0 E -> sorted_obs (chain E).
Proof.
  intros Hs i j Hij Hj. unfold chain in Hj. rewrite chain_from_length in Hj.
  rewrite !chain_round by lia. apply (strict_mono E 0); assumption.
Qed.

Lemma start_at E : forall c t j, Forall pos_upd E -> (j < length E)%nat ->
  (forall i, (i < j)%nat -> u_round (nth i E u0) < t) -> t <= u_round (nth j E u0) ->
  start E c t = nth j E u0.
Proof.
  induction E as [|u E IH]; intros c t j Hp Hj Hbelow Ht; [simpl in Hj; lia|].
  inversion Hp as [|? ? Hu Hp']; subst. simpl start. rewrite (pos_not_zero u Hu). simpl negb. simpl andb.
  destruct j as [|j].
  - simpl in Ht. replace (t <=? u_round u) with true by (symmetry; apply Z.leb_le; lia). reflexivity.
  - pose proof (Hbelow 0%nat ltac:(lia)) as H0. simpl in H0.
    replace (t <=? u_round u) with false by (symmetry; apply Z.leb_gt; lia).
    simpl nth. apply IH; [exact Hp' | simpl in Hj; lia | | exact Ht].
    intros i Hi. apply (Hbelow (S i)). lia.
Qed.

Lemma hd_le_nth E j : strict_from 0 E -> (j < length E)%nat -> u_round (hd u0 E) <= u_round (nth j E u0).
Proof.
  intros Hs Hj. rewrite hd_nth. destruct j; [lia|].
  pose proof (strict_mono E 0 0%nat (S j) Hs). lia.
Qed.

(** beyond the newest observation the accumulators grow by the present reserves *)
Lemma accE_beyond g E c x : strict_from 0 E -> E <> [] -> last_round E <= x ->
  accE g E c x = accE g E c (last_round E) + (x - last_round E) * g c.
Proof.
  intros Hs Hne Hx. unfold accE.
  assert (H1 : u_round (hd u0 E) <= last_round E).
  { unfold last_round. rewrite last_nth. fold u0. apply hd_le_nth; [exact Hs|]. destruct E; [congruence | simpl; lia]. }
  rewrite (sumr_split _ (u_round (hd u0 E)) (last_round E) x) by lia.
  rewrite (sumr_const _ (last_round E) x (g c)); [lia | lia |].
  intros t Ht. rewrite start_beyond; [reflexivity|].
  intros v Hv. pose proof (in_le_last E 0 v Hs Hv). lia.
Qed.

(** between two consecutive observations the integrand is constant *)
Lemma accE_step g E c j y : strict_from 0 E -> Forall pos_upd E -> (S j < length E)%nat ->
  u_round (nth j E u0) <= y <= u_round (nth (S j) E u0) ->
  accE g E c y = accE g E c (u_round (nth j E u0)) + (y - u_round (nth j E u0)) * g (nth (S j) E u0).
Proof.
  intros Hs Hp Hj Hy. unfold accE.
  pose proof (hd_le_nth E j Hs ltac:(lia)) as H1.
  rewrite (sumr_split _ (u_round (hd u0 E)) (u_round (nth j E u0)) y) by lia.
  rewrite (sumr_const _ (u_round (nth j E u0)) y (g (nth (S j) E u0))); [lia | lia |].
  intros t Ht. rewrite (start_at E c t (S j)); [reflexivity | exact Hp | exact Hj | | lia].
  intros i Hi. destruct (Nat.eq_dec i j) as [->|Hne]; [lia|].
  pose proof (strict_mono E 0 i j Hs). lia.
Qed.

Lemma interp_exact A v a x b : a < x < b ->
  ((b - x) * A + (x - a) * (A + (b - a) * v)) / (b - x + (x - a)) = A + (x - a) * v.
Proof.
  intros H. replace ((b - x) * A + (x - a) * (A + (b - a) * v)) with ((A + (x - a) * v) * (b - a)) by ring.
  replace (b - x + (x - a)) with (b - a) by ring. apply Z.div_mul. lia.
Qed.

Lemma interp_arith E c j x : strict_from 0 E -> Forall pos_upd E -> (S j < length E)%nat ->
  u_round (nth j E u0) < x < u_round (nth (S j) E u0) ->
  let lf := nth j (chain E) obs0 in
  let rt := nth (S j) (chain E) obs0 in
  (do lw <- sub_chk (ob_round rt) x;
   do rw <- sub_chk x (ob_round lf);
   let ws := lw + rw in
   do a1 <- div_chk (lw * ob_a1 lf + rw * ob_a1 rt) ws;
   do a2 <- div_chk (lw * ob_a2 lf + rw * ob_a2 rt) ws;
   do lp <- div_chk (lw * ob_lp lf + rw * ob_lp rt) ws;
   do w <- sub_chk (ob_w lf + x) (ob_round lf);
   Ok (mkO a1 a2 w x lp)) = Ok (acc_obsE E c x).
Proof.
  intros Hs Hp Hj Hx lf rt. subst lf rt.
  rewrite (chain_nth_closed E c j) by (try assumption; lia).
  rewrite (chain_nth_closed E c (S j)) by (try assumption; lia).
  set (a := u_round (nth j E u0)) in *. set (b := u_round (nth (S j) E u0)) in *.
  unfold acc_obsE at 1 2 3 4 5 6 7 8 9 10 11. cbn [ob_a1 ob_a2 ob_w ob_round ob_lp].
  unfold sub_chk at 1. replace (b <? x) with false by (symmetry; apply Z.ltb_ge; lia). cbn [bind].
  unfold sub_chk at 1. replace (x <? a) with false by (symmetry; apply Z.ltb_ge; lia). cbn [bind].
  cbv zeta.
  assert (Hws : (b - x + (x - a) =? 0) = false) by (apply Z.eqb_neq; lia).
  unfold div_chk. rewrite Hws. cbn [bind].
  pose proof (hd_le_nth E j Hs ltac:(lia)) as H1. fold a in H1.
  unfold sub_chk. replace (1 + a - u_round (hd u0 E) + x <? a) with false by (symmetry; apply Z.ltb_ge; lia).
  cbn [bind]. unfold acc_obsE. f_equal.
  assert (Hstep : forall g y, a <= y <= b -> accE g E c y = accE g E c a + (y - a) * g (nth (S j) E u0)).
  { intros g y Hy. apply accE_step; assumption. }
  f_equal.
  - rewrite (Hstep u_r1 b) by lia. rewrite (Hstep u_r1 x) by lia. apply interp_exact. lia.
  - rewrite (Hstep u_r2 b) by lia. rewrite (Hstep u_r2 x) by lia. apply interp_exact. lia.
  - lia.
  - rewrite (Hstep u_S b) by lia. rewrite (Hstep u_S x) by lia. apply interp_exact. lia.
Qed.

Definition oldest_round (E : list upd) : Z :=
  u_round (nth (Z.to_nat (Z.max 0 (Z.of_nat (length E) - N))) E u0).

Lemma oldest_pos E : strict_from 0 E -> E <> [] -> 0 < oldest_round E.
Proof.
  intros Hs Hne. unfold oldest_round. apply (strict_nth E 0); [exact Hs|].
  destruct E; [congruence | simpl length; lia].
Qed.

Lemma oldest_le_last E : strict_from 0 E -> E <> [] -> oldest_round E <= last_round E.
Proof.
  intros Hs Hne. unfold oldest_round. apply (nth_le_last E 0); [exact Hs|].
  destruct E; [congruence | simpl length; lia].
Qed.

Lemma get_oldest_chain E : E <> [] ->
  get_oldest N (layout N (chain E)) = Ok (nth (Z.to_nat (Z.max 0 (Z.of_nat (length E) - N))) (chain E) obs0).
Proof.
  intros Hne. rewrite layout_oldest; [rewrite chain_length; reflexivity|].
  rewrite chain_length. destruct E; [congruence | simpl length; lia].
Qed.

(** C13_lookup (on the list of recording calls) *)
Lemma lookup_exact E ev x :
  E <> [] -> strict_from 0 E -> Forall pos_upd E -> last_round E <= e_now ev ->
  oldest_round E <= x -> x <= e_now ev ->
  get_price_observation N (layout N (chain E)) ev x = Ok (acc_obsE E (cur_upd ev) x).
Proof.
  intros Hne Hs Hp Hnow Hold Hx.
  set (c := cur_upd ev).
  assert (Hlen : (0 < length E)%nat) by (destruct E; [congruence | simpl; lia]).
  assert (Hk : 0 < vlen (chain E)) by (rewrite chain_length; lia).
  pose proof (strict_last_pos E Hs Hne) as Hlpos.
  assert (Hlastc : last (chain E) obs0 = acc_obsE E c (last_round E)).
  { rewrite chain_last by exact Hne. rewrite (chain_nth_closed E c) by (try assumption; lia).
    f_equal. unfold last_round. rewrite last_nth. reflexivity. }
  unfold get_price_observation. rewrite layout_len.
  replace (Z.min (vlen (chain E)) N =? 0) with false by (symmetry; apply Z.eqb_neq; lia).
  simpl negb. cbv iota. rewrite layout_last by exact Hk. cbn [bind]. rewrite chain_last_round.
  destruct (last_round E =? x) eqn:Eeq.
  { apply Z.eqb_eq in Eeq. rewrite Hlastc, Eeq. reflexivity. }
  apply Z.eqb_neq in Eeq.
  destruct (last_round E <? x) eqn:Elt.
  { (* extrapolation with the present reserves *)
    apply Z.ltb_lt in Elt. replace (x <=? e_now ev) with true by (symmetry; apply Z.leb_le; lia).
    unfold compute_new. rewrite chain_last_round.
    replace (last_round E =? 0) with false by (symmetry; apply Z.eqb_neq; lia).
    unfold sub_chk. replace (x <? last_round E) with false by (symmetry; apply Z.ltb_ge; lia).
    cbn [bind]. rewrite Hlastc. unfold acc_obsE. cbn [ob_a1 ob_a2 ob_w ob_round ob_lp]. f_equal.
    rewrite (accE_beyond u_r1 E c x), (accE_beyond u_r2 E c x), (accE_beyond u_S E c x) by (try assumption; lia).
    f_equal; try (subst c; reflexivity); lia. }
  apply Z.ltb_ge in Elt. assert (Hxl : x < last_round E) by lia.
  (* binary search *)
  pose proof (bsearch_spec (chain E) Hk x (chain_sorted E Hs)) as Hbs.
  assert (Hrnd : forall m, 1 <= m <= Z.of_nat (length E) -> rnd (chain E) m = u_round (nth (Z.to_nat (m - 1)) E u0)).
  { intros m Hm. unfold rnd. apply chain_round. lia. }
  destruct Hbs as (po & idx & Hb & Hidx & Hres).
  { rewrite Hrnd by (rewrite chain_length; lia). rewrite chain_length.
    replace (Z.max 0 (Z.of_nat (length E) - N) + 1 - 1) with (Z.max 0 (Z.of_nat (length E) - N)) by lia. exact Hold. }
  { rewrite chain_last_round. exact Hxl. }
  rewrite Hb. cbn [bind]. cbv beta iota.
  pose proof (laid_num_range (chain E) Hk idx Hidx) as Hnr. rewrite layout_len in Hnr, Hidx.
  rewrite chain_length in Hnr, Hidx, Hres.
  set (m := num (Z.of_nat (length E)) (rg_cur (layout N (chain E))) idx) in *.
  destruct Hres as [(Hpo & Hround) | (Hpo & Hadj)].
  - (* found exactly *)
    replace (0 <? ob_round po) with true
      by (symmetry; apply Z.ltb_lt; pose proof (oldest_pos E Hs Hne); lia).
    rewrite Hpo in *. rewrite (chain_nth_closed E c) in * by (try assumption; lia).
    f_equal. f_equal. unfold acc_obsE in Hround. simpl in Hround. exact Hround.
  - rewrite Hpo. change (0 <? ob_round obs0) with false. cbv iota.
    unfold interpolate. rewrite vget_in by (rewrite layout_len, chain_length; lia). cbn [bind].
    rewrite (laid_nth (chain E) idx) by (rewrite layout_len, chain_length; lia).
    rewrite chain_length. fold m.
    unfold adj_ring in Hadj. rewrite !chain_length in Hadj. rewrite layout_len in Hadj. rewrite chain_length in Hadj.
    fold m in Hadj. cbv zeta in Hadj.
    assert (Hfr : ob_round (nth (Z.to_nat (m - 1)) (chain E) obs0) = rnd (chain E) m) by reflexivity.
    rewrite Hfr.
    destruct Hadj as [(Hlt & Hgt & Hm1 & Hi1 & Hn1) | (Hlt & Hgt & Hm1 & Hne1 & Hi1 & Hn1)].
    + replace (rnd (chain E) m <? x) with true by (symmetry; apply Z.ltb_lt; lia).
      rewrite vget_in by (rewrite layout_len, chain_length; lia). cbn [bind].
      rewrite (laid_nth (chain E)) by (rewrite layout_len, chain_length; lia).
      rewrite chain_length. rewrite Hn1. cbv beta iota.
      replace (Z.to_nat (m + 1 - 1)) with (S (Z.to_nat (m - 1))) by lia.
      apply (interp_arith E c (Z.to_nat (m - 1)) x); try assumption; [lia|].
      rewrite !Hrnd in * by lia. replace (Z.to_nat (m + 1 - 1)) with (S (Z.to_nat (m - 1))) in Hgt by lia. lia.
    + replace (rnd (chain E) m <? x) with false by (symmetry; apply Z.ltb_ge; lia).
      replace (idx =? 1) with false by (symmetry; apply Z.eqb_neq; exact Hne1).
      rewrite vget_in by (rewrite layout_len, chain_length; lia). cbn [bind].
      rewrite (laid_nth (chain E)) by (rewrite layout_len, chain_length; lia).
      rewrite chain_length. rewrite Hn1. cbv beta iota.
      replace (Z.to_nat (m - 1)) with (S (Z.to_nat (m - 1 - 1))) by lia.
      apply (interp_arith E c (Z.to_nat (m - 1 - 1)) x); try assumption; [lia|].
      rewrite !Hrnd in * by lia. replace (Z.to_nat (m - 1)) with (S (Z.to_nat (m - 1 - 1))) in Hgt by lia. lia.
Qed.

(** ================================================================== layer 5: queries *)
Lemma start_pos E : forall c t, Forall pos_upd E -> pos_upd c -> pos_upd (start E c t).
Proof.
  induction E as [|u E IH]; intros c t Hp Hc; [exact Hc|]. inversion Hp; subst. simpl.
  destruct (negb (u_zero u) && (t <=? u_round u)); [assumption | apply IH; assumption].
Qed.

Lemma accE_diff g E c s e : u_round (hd u0 E) <= s -> s <= e ->
  accE g E c e - accE g E c s = sumr (fun t => g (start E c t)) s e.
Proof.
  intros H1 H2. unfold accE. rewrite (sumr_split _ (u_round (hd u0 E)) s e) by lia. lia.
Qed.

Lemma accE_pos g E c x : (forall u, pos_upd u -> 1 <= g u) -> Forall pos_upd E -> pos_upd c -> E <> [] ->
  u_round (hd u0 E) <= x -> 1 <= accE g E c x.
Proof.
  intros Hg Hp Hc Hne Hx. unfold accE.
  assert (1 <= g (hd u0 E)).
  { apply Hg. destruct E; [congruence|]. inversion Hp; assumption. }
  assert (x - u_round (hd u0 E) <= sumr (fun t => g (start E c t)) (u_round (hd u0 E)) x).
  { apply sumr_lower; [lia|]. intros t _. apply Hg. apply start_pos; assumption. }
  lia.
Qed.

(** time-weighted average of component [g] of the start-of-round reserves over (s, e] *)
Definition avgE (g : upd -> Z) (E : list upd) (c : upd) (s e : Z) : Z :=
  sumr (fun t => g (start E c t)) s e / (e - s).

Lemma avgE_pos g E c s e : (forall u, pos_upd u -> 1 <= g u) -> Forall pos_upd E -> pos_upd c -> s < e ->
  1 <= avgE g E c s e.
Proof.
  intros Hg Hp Hc Hse. unfold avgE. apply Z.div_le_lower_bound; [lia|].
  assert (e - s <= sumr (fun t => g (start E c t)) s e).
  { apply sumr_lower; [lia|]. intros t _. apply Hg. apply start_pos; assumption. }
  lia.
Qed.

Lemma g1_pos u : pos_upd u -> 1 <= u_r1 u. Proof. unfold pos_upd. tauto. Qed.
Lemma g2_pos u : pos_upd u -> 1 <= u_r2 u. Proof. unfold pos_upd. tauto. Qed.
Lemma gS_pos u : pos_upd u -> 1 <= u_S u. Proof. unfold pos_upd. tauto. Qed.

Lemma hd_le_oldest E : strict_from 0 E -> E <> [] -> u_round (hd u0 E) <= oldest_round E.
Proof.
  intros Hs Hne. unfold oldest_round. apply hd_le_nth; [exact Hs|].
  destruct E; [congruence | simpl length; lia].
Qed.

Lemma weighted_exact E c s e : E <> [] -> strict_from 0 E -> Forall pos_upd E -> pos_upd c ->
  oldest_round E <= s -> s < e ->
  weighted_amounts (acc_obsE E c s) (acc_obsE E c e)
  = Ok (avgE u_r1 E c s e, avgE u_r2 E c s e, avgE u_S E c s e).
Proof.
  intros Hne Hs Hp Hc Hold Hse.
  pose proof (hd_le_oldest E Hs Hne) as Hhd.
  unfold weighted_amounts, acc_obsE. cbn [ob_a1 ob_a2 ob_w ob_round ob_lp].
  unfold sub_chk at 1.
  replace (1 + e - u_round (hd u0 E) <? 1 + s - u_round (hd u0 E)) with false by (symmetry; apply Z.ltb_ge; lia).
  cbn [bind].
  replace (1 + e - u_round (hd u0 E) - (1 + s - u_round (hd u0 E))) with (e - s) by lia.
  replace (0 <? e - s) with true by (symmetry; apply Z.ltb_lt; lia).
  assert (Hd : forall g, (forall u, pos_upd u -> 1 <= g u) ->
               sub_chk (accE g E c e) (accE g E c s) = Ok (sumr (fun t => g (start E c t)) s e)).
  { intros g Hg. pose proof (accE_diff g E c s e ltac:(lia) ltac:(lia)) as Hdf.
    assert (0 <= sumr (fun t => g (start E c t)) s e).
    { assert (e - s <= sumr (fun t => g (start E c t)) s e); [|lia].
      apply sumr_lower; [lia|]. intros t _. apply Hg. apply start_pos; assumption. }
    unfold sub_chk. replace (accE g E c e <? accE g E c s) with false by (symmetry; apply Z.ltb_ge; lia).
    f_equal. lia. }
  rewrite (Hd u_r1 g1_pos). cbn [bind]. rewrite (Hd u_r2 g2_pos). cbn [bind].
  pose proof (accE_pos u_S E c s gS_pos Hp Hc Hne ltac:(lia)) as Hlp.
  replace (0 <? accE u_S E c s) with true by (symmetry; apply Z.ltb_lt; lia).
  rewrite (Hd u_S gS_pos). cbn [bind]. reflexivity.
Qed.

Lemma get_oldest_round E : E <> [] ->
  exists o, get_oldest N (layout N (chain E)) = Ok o /\ ob_round o = oldest_round E.
Proof.
  intros Hne. rewrite get_oldest_chain by exact Hne. eexists. split; [reflexivity|].
  unfold oldest_round. apply chain_round. destruct E; [congruence | simpl length; lia].
Qed.

(** C13_query, price variant *)
Lemma safe_price_formula E ev s e tok amt :
  E <> [] -> strict_from 0 E -> Forall pos_upd E -> last_round E <= e_now ev -> pos_upd (cur_upd ev) ->
  oldest_round E <= s -> s < e -> e <= e_now ev ->
  get_safe_price N (layout N (chain E)) ev s e tok amt =
    let c := cur_upd ev in
    if tok =? T1 then Ok (T2, amt * avgE u_r2 E c s e / avgE u_r1 E c s e)
    else if tok =? T2 then Ok (T1, amt * avgE u_r1 E c s e / avgE u_r2 E c s e)
    else Err EGuard.
Proof.
  intros Hne Hs Hp Hnow Hc Hold Hse He. cbv zeta.
  unfold get_safe_price. replace (s <? e) with true by (symmetry; apply Z.ltb_lt; lia).
  destruct (get_oldest_round E Hne) as (o & Ho & Hor). rewrite Ho. cbn [bind]. rewrite Hor.
  replace (oldest_round E <=? s) with true by (symmetry; apply Z.leb_le; lia).
  rewrite (lookup_exact E ev s) by (try assumption; lia). cbn [bind].
  rewrite (lookup_exact E ev e) by (try assumption; lia). cbn [bind].
  rewrite weighted_exact by assumption. cbn [bind]. cbv beta iota.
  pose proof (avgE_pos u_r1 E (cur_upd ev) s e g1_pos Hp Hc Hse) as H1.
  pose proof (avgE_pos u_r2 E (cur_upd ev) s e g2_pos Hp Hc Hse) as H2.
  unfold div_chk.
  replace (avgE u_r1 E (cur_upd ev) s e =? 0) with false by (symmetry; apply Z.eqb_neq; lia).
  replace (avgE u_r2 E (cur_upd ev) s e =? 0) with false by (symmetry; apply Z.eqb_neq; lia).
  destruct (tok =? T1); [reflexivity|]. destruct (tok =? T2); reflexivity.
Qed.

(** C13_query, LP variant (the lp_supply fallback is unreachable: the averaged supply is >= 1) *)
Lemma lp_safe_price_formula E ev s e liq :
  E <> [] -> strict_from 0 E -> Forall pos_upd E -> last_round E <= e_now ev -> pos_upd (cur_upd ev) ->
  oldest_round E <= s -> s < e -> e <= e_now ev ->
  get_lp_safe_price N (layout N (chain E)) ev s e liq =
    let c := cur_upd ev in
    Ok (liq * avgE u_r1 E c s e / avgE u_S E c s e, liq * avgE u_r2 E c s e / avgE u_S E c s e).
Proof.
  intros Hne Hs Hp Hnow Hc Hold Hse He. cbv zeta.
  unfold get_lp_safe_price. replace (s <? e) with true by (symmetry; apply Z.ltb_lt; lia).
  destruct (get_oldest_round E Hne) as (o & Ho & Hor). rewrite Ho. cbn [bind]. rewrite Hor.
  replace (oldest_round E <=? s) with true by (symmetry; apply Z.leb_le; lia).
  rewrite (lookup_exact E ev s) by (try assumption; lia). cbn [bind].
  rewrite (lookup_exact E ev e) by (try assumption; lia). cbn [bind].
  rewrite weighted_exact by assumption. cbn [bind]. cbv beta iota.
  pose proof (avgE_pos u_S E (cur_upd ev) s e gS_pos Hp Hc Hse) as H3.
  replace (avgE u_S E (cur_upd ev) s e =? 0) with false by (symmetry; apply Z.eqb_neq; lia).
  simpl andb. cbv iota. unfold div_chk.
  replace (avgE u_S E (cur_upd ev) s e =? 0) with false by (symmetry; apply Z.eqb_neq; lia).
  cbn [bind]. reflexivity.
Qed.

(** ------------------------------------------------------------------ rejections (any ring state) *)
Lemma reject_order rg ev s e tok amt liq : e <= s ->
  is_ok (get_safe_price N rg ev s e tok amt) = false /\ is_ok (get_lp_safe_price N rg ev s e liq) = false.
Proof.
  intros H. unfold get_safe_price, get_lp_safe_price.
  replace (s <? e) with false by (symmetry; apply Z.ltb_ge; lia). split; reflexivity.
Qed.

Lemma reject_empty rg ev s e tok amt liq x : vlen (rg_obs rg) = 0 ->
  is_ok (get_safe_price N rg ev s e tok amt) = false /\ is_ok (get_lp_safe_price N rg ev s e liq) = false /\
  is_ok (view_observation N rg ev x) = false.
Proof.
  intros H. unfold get_safe_price, get_lp_safe_price, view_observation, get_oldest. rewrite H. simpl.
  destruct (s <? e); repeat split; reflexivity.
Qed.

Lemma reject_too_old rg ev s e tok amt liq o : get_oldest N rg = Ok o -> s < ob_round o ->
  is_ok (get_safe_price N rg ev s e tok amt) = false /\ is_ok (get_lp_safe_price N rg ev s e liq) = false /\
  is_ok (view_observation N rg ev s) = false.
Proof.
  intros Ho H. unfold get_safe_price, get_lp_safe_price, view_observation. rewrite Ho. cbn [bind].
  replace (ob_round o <=? s) with false by (symmetry; apply Z.leb_gt; lia).
  destruct (s <? e); repeat split; reflexivity.
Qed.

Lemma lookup_future rg ev x :
  (forall last, vget (rg_obs rg) (rg_cur rg) = Ok last -> ob_round last <= e_now ev) ->
  e_now ev < x -> is_ok (get_price_observation N rg ev x) = false.
Proof.
  intros Hlast Hx. unfold get_price_observation.
  destruct (negb (vlen (rg_obs rg) =? 0)); [|reflexivity].
  destruct (vget (rg_obs rg) (rg_cur rg)) as [last|] eqn:El; [|reflexivity]. cbn [bind].
  specialize (Hlast last eq_refl).
  replace (ob_round last =? x) with false by (symmetry; apply Z.eqb_neq; lia).
  replace (ob_round last <? x) with true by (symmetry; apply Z.ltb_lt; lia).
  replace (x <=? e_now ev) with false by (symmetry; apply Z.leb_gt; lia). reflexivity.
Qed.

Lemma reject_future rg ev s e tok amt liq :
  (forall last, vget (rg_obs rg) (rg_cur rg) = Ok last -> ob_round last <= e_now ev) ->
  e_now ev < e ->
  is_ok (get_safe_price N rg ev s e tok amt) = false /\ is_ok (get_lp_safe_price N rg ev s e liq) = false /\
  is_ok (view_observation N rg ev e) = false.
Proof.
  intros Hlast He. pose proof (lookup_future rg ev e Hlast He) as Hf.
  unfold get_safe_price, get_lp_safe_price, view_observation.
  destruct (get_price_observation N rg ev e) as [oe|] eqn:Ee; [discriminate|].
  repeat split.
  - destruct (s <? e); [|reflexivity]. destruct (get_oldest N rg); [|reflexivity]. cbn [bind].
    destruct (ob_round a <=? s); [|reflexivity].
    destruct (get_price_observation N rg ev s); reflexivity.
  - destruct (s <? e); [|reflexivity]. destruct (get_oldest N rg); [|reflexivity]. cbn [bind].
    destruct (ob_round a <=? s); [|reflexivity].
    destruct (get_price_observation N rg ev s); reflexivity.
  - destruct (get_oldest N rg); [|reflexivity]. cbn [bind]. destruct (ob_round a <=? e); reflexivity.
Qed.

(** ================================================================== from recording calls to all calls *)
Lemma start_eff us : forall lr c t, nondecr_from lr us -> lr < t ->
  start us c t = start (eff_from lr us) c t.
Proof.
  induction us as [|u r IH]; intros lr c t Hnd Ht; [reflexivity|].
  destruct Hnd as [Hle Hnd]. simpl.
  destruct (u_zero u) eqn:Ez; simpl.
  - apply IH; [apply (nondecr_weaken r (u_round u)); assumption | exact Ht].
  - destruct (u_round u =? lr) eqn:Er.
    + apply Z.eqb_eq in Er. replace (t <=? u_round u) with false by (symmetry; apply Z.leb_gt; lia).
      apply IH; [apply (nondecr_weaken r (u_round u)); assumption | exact Ht].
    + simpl. rewrite Ez. simpl. destruct (t <=? u_round u) eqn:Et; [reflexivity|].
      apply Z.leb_gt in Et. apply IH; assumption.
Qed.

Lemma acc_eff g us c x : wf_calls us -> acc g us c x = accE g (eff us) c x.
Proof.
  intros [Hnd Hnn]. unfold acc, accE, first_upd. fold u0. f_equal.
  apply sumr_ext. intros t Ht. f_equal. apply start_eff; [exact Hnd|].
  assert (0 <= u_round (hd u0 (eff us))); [|lia].
  destruct (eff us) as [|e0 E'] eqn:EE; [simpl; lia|].
  pose proof (eff_strict us 0 Hnd) as Hs. unfold eff in EE. rewrite EE in Hs. simpl in *. lia.
Qed.

Lemma acc_obs_eff us c x : wf_calls us -> acc_obs us c x = acc_obsE (eff us) c x.
Proof.
  intros H. unfold acc_obs, acc_obsE. rewrite !acc_eff by exact H. unfold first_upd. reflexivity.
Qed.

Definition avg (g : upd -> Z) (us : list upd) (c : upd) (s e : Z) : Z :=
  sumr (fun t => g (start us c t)) s e / (e - s).

Lemma avg_eff g us c s e : wf_calls us -> 0 <= s -> avg g us c s e = avgE g (eff us) c s e.
Proof.
  intros [Hnd _] Hs. unfold avg, avgE. f_equal. apply sumr_ext. intros t Ht. f_equal.
  apply start_eff; [exact Hnd | lia].
Qed.

Definition ring_of (us : list upd) : ring := layout N (observations us).

Theorem ring_refine us : wf_calls us -> run_updates N ring0 us = Ok (ring_of us).
Proof.
  intros [Hnd _]. pose proof (run_updates_layout us [] I Hnd) as H.
  change (chain []) with (@nil obs) in H. rewrite layout_small in H by (change (vlen []) with 0; lia).
  exact H.
Qed.

Lemma eff_facts us : wf_calls us -> strict_from 0 (eff us) /\ Forall pos_upd (eff us).
Proof. intros [Hnd Hnn]. split; [apply eff_strict; exact Hnd | apply eff_pos; exact Hnn]. Qed.

Lemma eff_last_le us now : 0 <= now -> (forall u, In u us -> u_round u <= now) -> last_round (eff us) <= now.
Proof.
  intros H0 H. unfold last_round. destruct (eff us) as [|e0 E'] eqn:EE; [simpl; lia|].
  apply H. apply (eff_incl us 0). fold (eff us). rewrite EE.
  assert (Hne : e0 :: E' <> []) by discriminate.
  destruct (exists_last Hne) as (l' & a & Heq). rewrite Heq, last_last.
  apply in_or_app. right. left. reflexivity.
Qed.

Lemma oldest_us us o : wf_calls us -> get_oldest N (ring_of us) = Ok o ->
  eff us <> [] /\ ob_round o = oldest_round (eff us).
Proof.
  intros Hwf Ho. unfold ring_of, observations in Ho.
  destruct (eff us) as [|e0 E'] eqn:EE.
  - exfalso. change (chain []) with (@nil obs) in Ho. rewrite layout_small in Ho by (change (vlen []) with 0; lia).
    unfold get_oldest in Ho. simpl in Ho. discriminate.
  - split; [discriminate|]. destruct (get_oldest_round (e0 :: E') ltac:(discriminate)) as (o' & Ho' & Hr).
    rewrite Ho in Ho'. inversion Ho'. subst. exact Hr.
Qed.

(** C13_update: what is recorded *)
Theorem update_spec us c : wf_calls us ->
  run_updates N ring0 us = Ok (ring_of us) /\
  strict_from 0 (eff us) /\ Forall pos_upd (eff us) /\
  (forall u, In u (eff us) -> In u us /\ start us c (u_round u) = u) /\
  length (observations us) = length (eff us) /\
  (forall j, (j < length (eff us))%nat ->
     nth j (observations us) obs0 = acc_obs us c (u_round (nth j (eff us) u0))).
Proof.
  intros Hwf. destruct (eff_facts us Hwf) as [Hs Hp]. destruct Hwf as [Hnd Hnn].
  split; [apply ring_refine; split; assumption|]. split; [exact Hs|]. split; [exact Hp|].
  split; [|split].
  - intros u Hu. split; [apply (eff_incl us 0); exact Hu|].
    destruct (In_nth _ _ u0 Hu) as (j & Hj & Hn).
    pose proof (strict_nth (eff us) 0 j Hs Hj) as Hpos. rewrite Hn in Hpos.
    rewrite (start_eff us 0) by (try assumption; lia). fold (eff us).
    rewrite <- Hn. apply start_at; [exact Hp | exact Hj | | lia].
    intros i Hi. apply (strict_mono (eff us) 0); assumption.
  - unfold observations, chain. apply chain_from_length.
  - intros j Hj. unfold observations. rewrite (chain_nth_closed (eff us) c j) by assumption.
    symmetry. apply acc_obs_eff. split; assumption.
Qed.

(** C13_ring: where each recorded observation is stored *)
Theorem ring_spec l : 0 < vlen l ->
  vlen (rg_obs (layout N l)) = Z.min (vlen l) N /\
  rg_cur (layout N l) = (vlen l - 1) mod N + 1 /\
  (forall j, vlen l - Z.min (vlen l) N < j <= vlen l ->
     vget (rg_obs (layout N l)) ((j - 1) mod N + 1) = Ok (nth (Z.to_nat (j - 1)) l obs0)).
Proof.
  intros Hk. split; [apply layout_len|]. split.
  - rewrite layout_cur. destruct (vlen l <=? N) eqn:E; [|reflexivity].
    apply Z.leb_le in E. destruct (Z.eq_dec (vlen l) N) as [->|Hne].
    + replace (N - 1) with (N - 1) by lia. rewrite Z.mod_small by lia. lia.
    + rewrite Z.mod_small by lia. lia.
  - intros j Hj.
    pose proof (Z.mod_pos_bound (j - 1) N ltac:(lia)) as Hrj.
    pose proof (Z.div_mod (j - 1) N ltac:(lia)) as Hdj.
    assert (Hi : 1 <= (j - 1) mod N + 1 <= vlen (rg_obs (layout N l))).
    { rewrite layout_len. destruct (Z_le_gt_dec (vlen l) N) as [Hs|Hs]; [|lia].
      rewrite Z.mod_small by lia. lia. }
    rewrite layout_get by exact Hi. f_equal. f_equal. f_equal. f_equal.
    unfold num. rewrite layout_cur.
    destruct (vlen l <=? N) eqn:E.
    + apply Z.leb_le in E. rewrite Z.mod_small by lia.
      replace (j - 1 + 1 <=? vlen l) with true by (symmetry; apply Z.leb_le; lia). lia.
    + apply Z.leb_gt in E. unfold lay_cur.
      pose proof (Z.mod_pos_bound (vlen l - 1) N ltac:(lia)) as Hrk.
      pose proof (Z.div_mod (vlen l - 1) N ltac:(lia)) as Hdk.
      set (qk := (vlen l - 1) / N) in *. set (rk := (vlen l - 1) mod N) in *.
      set (qj := (j - 1) / N) in *. set (rj := (j - 1) mod N) in *. clearbody qk rk qj rj.
      destruct (rj + 1 <=? rk + 1) eqn:El; [apply Z.leb_le in El | apply Z.leb_gt in El].
      * assert (qj = qk) by nia. nia.
      * assert (qj = qk - 1) by nia. nia.
Qed.

(** C13_search, in terms of what is stored in the ring: [j], [S j] are the (0-based) numbers of two
    consecutive recorded observations enclosing [x]; [idx] holds one of them and the slot the
    interpolation reads next (idx mod N + 1, or idx - 1) holds the other *)
Definition encloses (l : list obs) (L : list obs) (x idx : Z) : Prop :=
  exists j, (S j < length l)%nat /\
    ob_round (nth j l obs0) < x < ob_round (nth (S j) l obs0) /\
    ((vget L idx = Ok (nth j l obs0) /\ vget L (idx mod N + 1) = Ok (nth (S j) l obs0)) \/
     (idx <> 1 /\ vget L (idx - 1) = Ok (nth j l obs0) /\ vget L idx = Ok (nth (S j) l obs0))).

Theorem search_spec l x : sorted_obs l -> 0 < vlen l ->
  ob_round (nth (Z.to_nat (Z.max 0 (vlen l - N))) l obs0) <= x -> x < ob_round (last l obs0) ->
  let rg := layout N l in
  exists po idx, bsearch N rg x = Ok (po, idx) /\ 1 <= idx <= vlen (rg_obs rg) /\
    ((vget (rg_obs rg) idx = Ok po /\ ob_round po = x) \/
     (po = obs0 /\ encloses l (rg_obs rg) x idx)).
Proof.
  intros Hs Hk Hold Hnew rg.
  destruct (bsearch_spec l Hk x Hs) as (po & idx & Hb & Hidx & Hres).
  { unfold rnd. replace (Z.max 0 (vlen l - N) + 1 - 1) with (Z.max 0 (vlen l - N)) by lia. exact Hold. }
  { exact Hnew. }
  exists po, idx. split; [exact Hb|]. split; [exact Hidx|].
  pose proof (laid_num_range l Hk idx Hidx) as Hnr.
  destruct Hres as [(Hpo & Hr) | (Hpo & Hadj)].
  - left. split; [|exact Hr]. subst rg. rewrite layout_get by exact Hidx. f_equal. symmetry. exact Hpo.
  - right. split; [exact Hpo|]. unfold adj_ring in Hadj. cbv zeta in Hadj.
    set (m := num (vlen l) (rg_cur (layout N l)) idx) in *.
    rewrite layout_len in *.
    destruct Hadj as [(Hlt & Hgt & Hm1 & Hi1 & Hn1) | (Hlt & Hgt & Hm1 & Hne1 & Hi1 & Hn1)].
    + exists (Z.to_nat (m - 1)). split; [unfold vlen in *; lia|]. split.
      * unfold rnd in *. replace (Z.to_nat (m + 1 - 1)) with (S (Z.to_nat (m - 1))) in Hgt by lia. lia.
      * left. subst rg. split.
        -- rewrite layout_get by (rewrite layout_len; lia). reflexivity.
        -- rewrite layout_get by (rewrite layout_len; lia). rewrite Hn1. f_equal. f_equal. lia.
    + exists (Z.to_nat (m - 1 - 1)). split; [unfold vlen in *; lia|]. split.
      * unfold rnd in *. replace (S (Z.to_nat (m - 1 - 1))) with (Z.to_nat (m - 1)) by lia. lia.
      * right. subst rg. split; [exact Hne1|]. split.
        -- rewrite layout_get by (rewrite layout_len; lia). rewrite Hn1. reflexivity.
        -- rewrite layout_get by (rewrite layout_len; lia). f_equal. f_equal. fold m. lia.
Qed.

Lemma observations_sorted us : wf_calls us -> sorted_obs (observations us).
Proof. intros Hwf. apply chain_sorted. apply eff_facts. exact Hwf. Qed.

(** C13_lookup *)
Theorem lookup_spec us ev o x : wf_calls us -> (forall u, In u us -> u_round u <= e_now ev) ->
  get_oldest N (ring_of us) = Ok o -> ob_round o <= x -> x <= e_now ev ->
  get_price_observation N (ring_of us) ev x = Ok (acc_obs us (cur_upd ev) x).
Proof.
  intros Hwf Hnow Ho Hox Hx. destruct (oldest_us us o Hwf Ho) as [Hne Hor].
  destruct (eff_facts us Hwf) as [Hs Hp].
  pose proof (oldest_pos (eff us) Hs Hne) as Hop.
  rewrite acc_obs_eff by exact Hwf. unfold ring_of, observations.
  apply lookup_exact; try assumption; [apply eff_last_le; [lia | exact Hnow] | lia].
Qed.

(** C13_query *)
Theorem price_spec us ev o s e tok amt : wf_calls us -> (forall u, In u us -> u_round u <= e_now ev) ->
  pos_upd (cur_upd ev) ->
  get_oldest N (ring_of us) = Ok o -> ob_round o <= s -> s < e -> e <= e_now ev ->
  get_safe_price N (ring_of us) ev s e tok amt =
    let c := cur_upd ev in
    if tok =? T1 then Ok (T2, amt * avg u_r2 us c s e / avg u_r1 us c s e)
    else if tok =? T2 then Ok (T1, amt * avg u_r1 us c s e / avg u_r2 us c s e)
    else Err EGuard.
Proof.
  intros Hwf Hnow Hc Ho Hos Hse He. destruct (oldest_us us o Hwf Ho) as [Hne Hor].
  destruct (eff_facts us Hwf) as [Hs Hp].
  pose proof (oldest_pos (eff us) Hs Hne) as Hop.
  cbv zeta. rewrite (avg_eff u_r1), (avg_eff u_r2) by (try assumption; lia). unfold ring_of, observations.
  apply (safe_price_formula (eff us)); try assumption; [apply eff_last_le; [lia | exact Hnow] | lia].
Qed.

Theorem lp_price_spec us ev o s e liq : wf_calls us -> (forall u, In u us -> u_round u <= e_now ev) ->
  pos_upd (cur_upd ev) ->
  get_oldest N (ring_of us) = Ok o -> ob_round o <= s -> s < e -> e <= e_now ev ->
  get_lp_safe_price N (ring_of us) ev s e liq =
    let c := cur_upd ev in
    Ok (liq * avg u_r1 us c s e / avg u_S us c s e, liq * avg u_r2 us c s e / avg u_S us c s e).
Proof.
  intros Hwf Hnow Hc Ho Hos Hse He. destruct (oldest_us us o Hwf Ho) as [Hne Hor].
  destruct (eff_facts us Hwf) as [Hs Hp].
  pose proof (oldest_pos (eff us) Hs Hne) as Hop.
  cbv zeta. rewrite (avg_eff u_r1), (avg_eff u_r2), (avg_eff u_S) by (try assumption; lia).
  unfold ring_of, observations.
  apply (lp_safe_price_formula (eff us)); try assumption; [apply eff_last_le; [lia | exact Hnow] | lia].
Qed.

(** the averages are averages: floor of the sum over the window divided by its length, and never 0 *)
Lemma avg_bounds g us c s e : wf_calls us -> pos_upd c -> (forall u, pos_upd u -> 1 <= g u) -> 0 <= s -> s < e ->
  1 <= avg g us c s e /\
  avg g us c s e * (e - s) <= sumr (fun t => g (start us c t)) s e < avg g us c s e * (e - s) + (e - s).
Proof.
  intros Hwf Hc Hg Hs Hse. destruct (eff_facts us Hwf) as [_ Hp]. split.
  - rewrite avg_eff by assumption. apply avgE_pos; assumption.
  - unfold avg. split; [apply div_lo; lia | apply div_hi; lia].
Qed.

(** C13_reject on the contract's ring *)
Theorem reject_spec us ev s e tok amt liq : wf_calls us -> (forall u, In u us -> u_round u <= e_now ev) ->
  0 <= e_now ev ->
  (e <= s \/ e_now ev < e \/ eff us = [] \/ (exists o, get_oldest N (ring_of us) = Ok o /\ s < ob_round o)) ->
  is_ok (get_safe_price N (ring_of us) ev s e tok amt) = false /\
  is_ok (get_lp_safe_price N (ring_of us) ev s e liq) = false.
Proof.
  intros Hwf Hnow H0 [H|[H|[H|(o & Ho & H)]]].
  - apply reject_order. exact H.
  - destruct (reject_future (ring_of us) ev s e tok amt liq) as (A & B & _); [|exact H|split; assumption].
    intros last Hl. destruct (eff_facts us Hwf) as [Hs Hp].
    unfold ring_of, observations in Hl.
    destruct (eff us) as [|e0 E'] eqn:EE.
    + change (chain []) with (@nil obs) in Hl. rewrite layout_small in Hl by (change (vlen []) with 0; lia).
      unfold vget in Hl. simpl in Hl. discriminate.
    + rewrite <- EE in *. assert (Hne : eff us <> []) by (rewrite EE; discriminate).
      rewrite layout_last in Hl by (rewrite chain_length; destruct (eff us); [congruence | simpl length; lia]).
      inversion Hl. rewrite chain_last_round. apply eff_last_le; assumption.
  - destruct (reject_empty (ring_of us) ev s e tok amt liq 0) as (A & B & _); [|split; assumption].
    unfold ring_of, observations. rewrite H. change (chain []) with (@nil obs).
    rewrite layout_small by (change (vlen []) with 0; lia). reflexivity.
  - destruct (reject_too_old (ring_of us) ev s e tok amt liq o Ho H) as (A & B & _). split; assumption.
Qed.

Theorem reject_observation us ev x : wf_calls us -> (forall u, In u us -> u_round u <= e_now ev) ->
  0 <= e_now ev ->
  (e_now ev < x \/ eff us = [] \/ (exists o, get_oldest N (ring_of us) = Ok o /\ x < ob_round o)) ->
  is_ok (view_observation N (ring_of us) ev x) = false.
Proof.
  intros Hwf Hnow H0 [H|[H|(o & Ho & H)]].
  - destruct (reject_future (ring_of us) ev 0 x 0 0 0) as (_ & _ & C); [|exact H|exact C].
    intros last Hl. destruct (eff_facts us Hwf) as [Hs Hp].
    unfold ring_of, observations in Hl.
    destruct (eff us) as [|e0 E'] eqn:EE.
    + change (chain []) with (@nil obs) in Hl. rewrite layout_small in Hl by (change (vlen []) with 0; lia).
      unfold vget in Hl. simpl in Hl. discriminate.
    + rewrite <- EE in *. assert (Hne : eff us <> []) by (rewrite EE; discriminate).
      rewrite layout_last in Hl by (rewrite chain_length; destruct (eff us); [congruence | simpl length; lia]).
      inversion Hl. rewrite chain_last_round. apply eff_last_le; assumption.
  - destruct (reject_empty (ring_of us) ev 0 0 0 0 0 x) as (_ & _ & C); [|exact C].
    unfold ring_of, observations. rewrite H. change (chain []) with (@nil obs).
    rewrite layout_small by (change (vlen []) with 0; lia). reflexivity.
  - destruct (reject_too_old (ring_of us) ev x 0 0 0 0 o Ho H) as (_ & _ & C). exact C.
Qed.

End WithN.

(** ================================================================== constants, entry points *)
Lemma max_obs_ge2 : 2 <= MAX_OBSERVATIONS.
Proof. vm_compute. discriminate. Qed.

Lemma offsets_spec N rg ev :
  (forall off s, offset_start ev off = Ok s <-> (0 < off < e_now ev /\ s = e_now ev - off)) /\
  (forall o, get_oldest N rg = Ok o -> ob_round o <= e_now ev ->
     default_start N rg ev = Ok (e_now ev - Z.min DEFAULT_SAFE_PRICE_ROUNDS_OFFSET (e_now ev - ob_round o))).
Proof.
  split.
  - intros off s. unfold offset_start. destruct ((0 <? off) && (off <? e_now ev)) eqn:E.
    + apply andb_prop in E. destruct E as [E1 E2]. apply Z.ltb_lt in E1, E2. split.
      * intros H. inversion H. lia.
      * intros [_ ->]. reflexivity.
    + split; [discriminate|]. intros [[H1 H2] _].
      apply andb_false_iff in E. destruct E as [E|E]; apply Z.ltb_ge in E; lia.
  - intros o Ho Hle. unfold default_start. rewrite Ho. cbn [bind]. unfold sub_chk.
    replace (e_now ev <? ob_round o) with false by (symmetry; apply Z.ltb_ge; lia). cbn [bind].
    f_equal. f_equal.
    destruct (DEFAULT_SAFE_PRICE_ROUNDS_OFFSET <? e_now ev - ob_round o) eqn:E;
      [apply Z.ltb_lt in E | apply Z.ltb_ge in E]; lia.
Qed.

(** ================================================================== composition with the pool model *)
(** the update calls made along a run of timed pool operations *)
Fixpoint calls_of (N : Z) (w : spw) (ops : list (Z * pop)) : list upd :=
  match ops with
  | [] => []
  | rop :: t =>
      match sp_step N w (fst rop) (snd rop) with
      | Ok (w', _) =>
          (if updating (snd rop) then [upd_of (fst rop) (w_p (sw_w w))] else []) ++ calls_of N w' t
      | Err _ => calls_of N w t
      end
  end.

Fixpoint before (t : Z) (ops : list (Z * pop)) : list (Z * pop) :=
  match ops with
  | [] => []
  | rop :: r => if fst rop <? t then rop :: before t r else []
  end.

Fixpoint rounds_from (lr : Z) (ops : list (Z * pop)) : Prop :=
  match ops with [] => True | rop :: r => lr <= fst rop /\ rounds_from (fst rop) r end.

Definition same_res (u : upd) (p : pair) : Prop :=
  u_r1 u = p_r1 p /\ u_r2 u = p_r2 p /\ u_S u = p_S p.

Lemma sp_step_ok N w r op w' o : sp_step N w r op = Ok (w', o) ->
  exists e, wstep (sw_w w) op = Ok (sw_w w', o, e) /\
    (if updating op then update_u N (sw_ring w) (upd_of r (w_p (sw_w w))) = Ok (sw_ring w')
     else sw_ring w' = sw_ring w).
Proof.
  unfold sp_step. intros H. apply bind_ok in H. destruct H as ([[w1 o1] e1] & Hw & H).
  apply bind_ok in H. destruct H as (rg' & Hr & H). inversion H; subst; clear H. simpl.
  exists e1. split; [exact Hw|]. destruct (updating op); [exact Hr | inversion Hr; reflexivity].
Qed.

Theorem sp_run_ring N ops : forall w,
  run_updates N (sw_ring w) (calls_of N w ops) = Ok (sw_ring (sp_run N w ops)).
Proof.
  induction ops as [|rop t IH]; intros w; [reflexivity|].
  unfold sp_run in *. simpl fold_left. simpl calls_of. unfold sp_step_total at 2.
  destruct (sp_step N w (fst rop) (snd rop)) as [[w' o]|] eqn:Es; [|apply IH].
  destruct (sp_step_ok _ _ _ _ _ _ Es) as (e & _ & Hr).
  destruct (updating (snd rop)).
  - simpl app. simpl run_updates. rewrite Hr. cbn [bind]. apply IH.
  - simpl app. rewrite <- Hr. apply IH.
Qed.

(** reserves and LP supply move only inside the operations that call update_safe_price,
    once the pool is initialised *)
Lemma quiet_ops w op w' o e : wstep w op = Ok (w', o, e) -> updating op = false -> 0 < p_S (w_p w) ->
  p_r1 (w_p w') = p_r1 (w_p w) /\ p_r2 (w_p w') = p_r2 (w_p w) /\ p_S (w_p w') = p_S (w_p w).
Proof.
  unfold wstep. intros H Hu HS.
  apply bind_ok in H. destruct H as ([[p' o1] e1] & Hs & H).
  apply bind_ok in H. destruct H as (q' & Hx & H). inversion H; subst; clear H. simpl.
  destruct op; try discriminate Hu; simpl in Hs.
  - unfold ep_add_initial in Hs. inv_ok Hs. apply Z.eqb_eq in E2. lia.
  - unfold ep_set_fee in Hs. inv_ok Hs. simpl. auto.
  - unfold ep_set_fee_on in Hs. destruct en; inv_ok Hs; simpl; auto.
  - unfold ep_set_collector in Hs. inv_ok Hs. simpl. auto.
  - unfold ep_set_state in Hs. inv_ok Hs. simpl. auto.
  - unfold ep_wl_add in Hs. inv_ok Hs. simpl. auto.
  - unfold ep_wl_rm in Hs. inv_ok Hs. simpl. auto.
  - unfold ep_trust in Hs. inv_ok Hs. simpl. auto.
  - unfold ep_lp_transfer, lp_debit, lp_credit in Hs. inv_ok Hs. simpl. inv_ok Hb. simpl. auto.
  - unfold ep_donate, add_bal in Hs. inv_ok Hs. destruct (tok =? T1); simpl; auto.
Qed.

Lemma sp_step_inv N w r op w' o : sp_step N w r op = Ok (w', o) -> WorldInv (sw_w w) -> WorldInv (sw_w w').
Proof.
  intros H Hi. destruct (sp_step_ok _ _ _ _ _ _ H) as (e & Hw & _).
  apply wstep_inv in Hw; tauto.
Qed.

Lemma sp_step_total_inv N w rop : WorldInv (sw_w w) -> WorldInv (sw_w (sp_step_total N w rop)).
Proof.
  intros Hi. unfold sp_step_total. destruct (sp_step N w (fst rop) (snd rop)) as [[w' o]|] eqn:E; [|exact Hi].
  eapply sp_step_inv; eassumption.
Qed.

Lemma rounds_from_weaken ops : forall a b, rounds_from a ops -> b <= a -> rounds_from b ops.
Proof. destruct ops; intros a b H Hb; simpl in *; [auto | split; [lia | tauto]]. Qed.

Lemma sp_run_cons N w rop r : sp_run N w (rop :: r) = sp_run N (sp_step_total N w rop) r.
Proof. reflexivity. Qed.

(** operations of rounds >= t do not disturb what round t starts with: the first successful
    reserve-changing one reports exactly the reserves the pool holds now *)
Lemma later_ops N t ops : forall w lr, WorldInv (sw_w w) -> rounds_from lr ops -> t <= lr ->
  0 < p_S (w_p (sw_w w)) ->
  same_res (start (calls_of N w ops) (upd_of 0 (w_p (sw_w (sp_run N w ops)))) t) (w_p (sw_w w)).
Proof.
  induction ops as [|rop r IH]; intros w lr Hi Hr Ht HS.
  - simpl. unfold same_res, upd_of. simpl. auto.
  - destruct Hr as [Hle Hr]. rewrite sp_run_cons. simpl calls_of. unfold sp_step_total.
    destruct (sp_step N w (fst rop) (snd rop)) as [[w' o]|] eqn:Es.
    2:{ apply (IH w (fst rop)); try assumption. lia. }
    destruct (sp_step_ok _ _ _ _ _ _ Es) as (e & Hw & _).
    destruct (updating (snd rop)) eqn:Eu.
    + simpl app. simpl start.
      destruct Hi as [Hp _]. destruct (i_pos _ Hp HS) as (H1 & H2 & _).
      assert (Hz : u_zero (upd_of (fst rop) (w_p (sw_w w))) = false).
      { unfold u_zero, upd_of. simpl.
        replace (p_r1 (w_p (sw_w w)) =? 0) with false by (symmetry; apply Z.eqb_neq; lia).
        replace (p_r2 (w_p (sw_w w)) =? 0) with false by (symmetry; apply Z.eqb_neq; lia).
        replace (p_S (w_p (sw_w w)) =? 0) with false by (symmetry; apply Z.eqb_neq; lia). reflexivity. }
      rewrite Hz. simpl negb. simpl andb.
      replace (t <=? fst rop) with true by (symmetry; apply Z.leb_le; lia).
      unfold same_res, upd_of. simpl. auto.
    + simpl app.
      destruct (quiet_ops _ _ _ _ _ Hw Eu HS) as (Q1 & Q2 & Q3).
      assert (Hi' : WorldInv (sw_w w')) by (eapply sp_step_inv; eassumption).
      pose proof (IH w' (fst rop) Hi' Hr ltac:(lia) ltac:(lia)) as Hres.
      unfold same_res in *. rewrite Q1, Q2, Q3 in Hres. exact Hres.
Qed.

(** C13_start_of_round *)
Theorem start_of_round N ops : forall w t lr, WorldInv (sw_w w) -> rounds_from lr ops ->
  let wt := sp_run N w (before t ops) in
  let wf := sp_run N w ops in
  0 < p_S (w_p (sw_w wt)) ->
  same_res (start (calls_of N w ops) (upd_of 0 (w_p (sw_w wf))) t) (w_p (sw_w wt)).
Proof.
  induction ops as [|rop r IH]; intros w t lr Hi Hr wt wf HS; subst wt wf.
  - simpl. unfold same_res, upd_of. simpl. auto.
  - simpl before in *. destruct (fst rop <? t) eqn:Elt.
    + apply Z.ltb_lt in Elt. destruct Hr as [Hle Hr].
      rewrite !sp_run_cons in *. simpl calls_of.
      pose proof (sp_step_total_inv N w rop Hi) as Hi1.
      specialize (IH (sp_step_total N w rop) t (fst rop) Hi1 Hr HS).
      unfold sp_step_total in *.
      destruct (sp_step N w (fst rop) (snd rop)) as [[w' o]|] eqn:Es; [|exact IH].
      destruct (updating (snd rop)); [|exact IH].
      simpl app. simpl start.
      replace (t <=? fst rop) with false by (symmetry; apply Z.leb_gt; lia).
      rewrite andb_false_r. exact IH.
    + apply Z.ltb_ge in Elt. simpl in HS.
      destruct Hr as [Hle Hr].
      apply (later_ops N t (rop :: r) w (fst rop)).
      * exact Hi.
      * simpl. split; [lia | exact Hr].
      * lia.
      * exact HS.
Qed.

(** the calls made along a run are well-formed input for the theorems above *)
Lemma calls_wf N ops : forall w lr, WorldInv (sw_w w) -> rounds_from lr ops ->
  nondecr_from lr (calls_of N w ops) /\ Forall nonneg_upd (calls_of N w ops).
Proof.
  induction ops as [|rop r IH]; intros w lr Hi Hr; [simpl; split; [exact I | constructor]|].
  destruct Hr as [Hle Hr]. simpl calls_of.
  destruct (sp_step N w (fst rop) (snd rop)) as [[w' o]|] eqn:Es.
  - assert (Hi' : WorldInv (sw_w w')) by (eapply sp_step_inv; eassumption).
    destruct (IH w' (fst rop) Hi' Hr) as [H1 H2].
    destruct (updating (snd rop)); simpl app.
    + split; [simpl; split; [exact Hle | exact H1]|]. constructor; [|exact H2].
      destruct Hi as [Hp _]. pose proof (inv_r_nonneg _ Hp) as [R1 R2]. pose proof (i_S0 _ Hp) as R3.
      unfold nonneg_upd, upd_of. simpl. auto.
    + split; [apply (nondecr_weaken _ (fst rop)); assumption | exact H2].
  - destruct (IH w (fst rop) Hi Hr) as [H1 H2].
    split; [apply (nondecr_weaken _ (fst rop)); assumption | exact H2].
Qed.

Theorem composed_ring N : 2 <= N -> forall ops w, WorldInv (sw_w w) -> sw_ring w = ring0 -> rounds_from 0 ops ->
  wf_calls (calls_of N w ops) /\ sw_ring (sp_run N w ops) = ring_of N (calls_of N w ops).
Proof.
  intros HN ops w Hi H0 Hr. pose proof (calls_wf N ops w 0 Hi Hr) as Hwf. split; [exact Hwf|].
  pose proof (sp_run_ring N ops w) as H1. rewrite H0 in H1.
  rewrite (ring_refine N HN _ Hwf) in H1. inversion H1. reflexivity.
Qed.
