(** Rounding lemmas of the constant-product formulas (dex/pair/src/amm.rs, liquidity_pool.rs).
    Pure integer arithmetic: every floor is bounded by [div_lo]/[div_hi] and the goal is closed by
    (guided) nonlinear arithmetic. *)
From MX Require Import Base.Prelude.

Section Math.
Variable Mx : Z.
Hypothesis HM : 0 < Mx.

(** fixed-input swap with fee [f]; special fee [sf <= f] removed from the pool: K never decreases *)
Lemma swap_in_K ain rin rout f sf :
  0 < ain -> 0 < rin -> 0 < rout -> 0 <= sf <= f -> f < Mx ->
  rin * rout <=
  (rin + (ain - ain * sf / Mx)) * (rout - (ain * (Mx - f) * rout) / (rin * Mx + ain * (Mx - f))).
Proof.
  intros Ha Hri Hro Hsf Hf.
  set (g := ain * (Mx - f)).
  assert (Hg : 0 < g) by (unfold g; nia).
  set (D := rin * Mx + g).
  assert (HD : 0 < D) by (unfold D; nia).
  pose proof (div_lo (g * rout) D HD) as H1.
  pose proof (div_lo (ain * sf) Mx HM) as H2.
  set (o := g * rout / D) in *.
  set (s := ain * sf / Mx) in *.
  assert (Ho : 0 <= o) by (apply div_nonneg; nia).
  assert (Hs : 0 <= s) by (apply div_nonneg; nia).
  clearbody o s.
  assert (Hsf2 : ain * sf <= ain * f) by (apply Z.mul_le_mono_nonneg_l; lia).
  assert (K1 : D <= (rin + (ain - s)) * Mx) by (unfold D, g; lia).
  assert (K2 : o <= rout) by (unfold D in *; nia).
  assert (K3 : rin * Mx * rout <= D * (rout - o)) by (unfold D in *; nia).
  apply Z.mul_le_mono_pos_r with (p := Mx); [lia|].
  nia.
Qed.

Lemma amount_out_lt_rout ain rin rout f :
  0 < ain -> 0 < rin -> 0 < rout -> 0 <= f < Mx ->
  (ain * (Mx - f) * rout) / (rin * Mx + ain * (Mx - f)) < rout.
Proof.
  intros. apply Z.div_lt_upper_bound; nia.
Qed.

(** fixed-output swap: charged input [q+1] *)
Lemma swap_out_K aout rin rout f sf :
  0 < aout < rout -> 0 < rin -> 0 <= sf <= f -> f < Mx ->
  let c := (rin * aout * Mx) / ((rout - aout) * (Mx - f)) + 1 in
  rin * rout <= (rin + (c - c * sf / Mx)) * (rout - aout).
Proof.
  intros Ha Hri Hsf Hf c. unfold c. clear c.
  set (D := (rout - aout) * (Mx - f)).
  assert (HD : 0 < D) by (unfold D; nia).
  pose proof (div_hi (rin * aout * Mx) D HD) as H1.
  set (q := rin * aout * Mx / D) in *.
  assert (Hq : 0 <= q) by (apply div_nonneg; nia).
  pose proof (div_lo ((q + 1) * sf) Mx HM) as H2.
  set (s := (q + 1) * sf / Mx) in *.
  assert (Hs : 0 <= s) by (apply div_nonneg; nia).
  clearbody q s.
  assert (Hsf2 : (q + 1) * sf <= (q + 1) * f) by (apply Z.mul_le_mono_nonneg_l; lia).
  (* (c - s) * Mx >= (q+1)*(Mx - f) *)
  assert (K1 : (q + 1) * (Mx - f) <= (q + 1 - s) * Mx) by lia.
  (* (q+1) * D > rin*aout*Mx *)
  assert (K2 : rin * aout * Mx <= (q + 1) * (Mx - f) * (rout - aout)) by (unfold D in *; nia).
  assert (K3 : rin * aout * Mx <= (q + 1 - s) * Mx * (rout - aout)) by nia.
  apply Z.mul_le_mono_pos_r with (p := Mx); [lia|].
  nia.
Qed.

(** "always enough": the fixed-input rule applied to the charged amount yields at least [aout] *)
Lemma in_enough aout rin rout f :
  0 < aout < rout -> 0 < rin -> 0 <= f < Mx ->
  let c := (rin * aout * Mx) / ((rout - aout) * (Mx - f)) + 1 in
  aout <= (c * (Mx - f) * rout) / (rin * Mx + c * (Mx - f)).
Proof.
  intros Ha Hri Hf c. unfold c. clear c.
  set (D := (rout - aout) * (Mx - f)).
  assert (HD : 0 < D) by (unfold D; nia).
  pose proof (div_hi (rin * aout * Mx) D HD) as H1.
  set (q := rin * aout * Mx / D) in *.
  assert (Hq : 0 <= q) by (apply div_nonneg; nia).
  clearbody q.
  apply Z.div_le_lower_bound; [nia|].
  unfold D in *. nia.
Qed.

(** no-fee swap (fee slices, swapNoFeeAndForward) *)
Lemma swap_nofee_K ain rin rout :
  0 < ain -> 0 < rin -> 0 < rout ->
  rin * rout <= (rin + ain) * (rout - (ain * rout) / (rin + ain)).
Proof.
  intros. assert (HD : 0 < rin + ain) by lia.
  pose proof (div_lo (ain * rout) (rin + ain) HD).
  set (o := ain * rout / (rin + ain)) in *. clearbody o. nia.
Qed.

End Math.

(** add liquidity at the pool ratio: K/S^2 does not decrease *)
Lemma add_KS o1 o2 r1 r2 S :
  0 < r1 -> 0 < r2 -> 0 < S -> 0 <= o1 -> 0 <= o2 ->
  let L := Z.min (o1 * S / r1) (o2 * S / r2) in
  r1 * r2 * ((S + L) * (S + L)) <= (r1 + o1) * (r2 + o2) * (S * S).
Proof.
  intros H1 H2 HS Ho1 Ho2 L. unfold L. clear L.
  pose proof (div_lo (o1 * S) r1 H1) as A.
  pose proof (div_lo (o2 * S) r2 H2) as B.
  set (l1 := o1 * S / r1) in *. set (l2 := o2 * S / r2) in *.
  assert (0 <= l1) by (apply div_nonneg; nia).
  assert (0 <= l2) by (apply div_nonneg; nia).
  clearbody l1 l2.
  set (L := Z.min l1 l2).
  assert (HL1 : L * r1 <= o1 * S) by (unfold L; nia).
  assert (HL2 : L * r2 <= o2 * S) by (unfold L; nia).
  assert (HL0 : 0 <= L) by (unfold L; lia).
  clearbody L.
  assert (E1 : (S + L) * r1 <= (r1 + o1) * S) by nia.
  assert (E2 : (S + L) * r2 <= (r2 + o2) * S) by nia.
  assert (P1 : 0 <= (S + L) * r1) by nia.
  assert (P2 : 0 <= (S + L) * r2) by nia.
  pose proof (Z.mul_le_mono_nonneg _ _ _ _ P1 E1 P2 E2). nia.
Qed.

(** remove liquidity pro rata (floor): K/S^2 does not decrease *)
Lemma remove_KS lp r1 r2 S :
  0 < r1 -> 0 < r2 -> 0 < lp < S ->
  r1 * r2 * ((S - lp) * (S - lp)) <= (r1 - lp * r1 / S) * (r2 - lp * r2 / S) * (S * S).
Proof.
  intros H1 H2 HS.
  assert (HS0 : 0 < S) by lia.
  pose proof (div_lo (lp * r1) S HS0) as A.
  pose proof (div_lo (lp * r2) S HS0) as B.
  set (x1 := lp * r1 / S) in *. set (x2 := lp * r2 / S) in *.
  clearbody x1 x2.
  assert (E1 : r1 * (S - lp) <= (r1 - x1) * S) by nia.
  assert (E2 : r2 * (S - lp) <= (r2 - x2) * S) by nia.
  assert (P1 : 0 <= r1 * (S - lp)) by nia.
  assert (P2 : 0 <= r2 * (S - lp)) by nia.
  pose proof (Z.mul_le_mono_nonneg _ _ _ _ P1 E1 P2 E2). nia.
Qed.
