(** Lemmas for C18 (governance-v2): status characterisation against the documented rational
    thresholds, floor square root, vote effects and the one-vote-per-address history invariant
    (tallies are sums over single ballots), fee escrow accounting. *)
From MX Require Import Base.Prelude Gen.Params Model.Governance.

(** Break a hypothesis [H : <monadic computation> = Ok _] into its successful steps. *)
Ltac inv_ok H :=
  repeat (first
    [ match type of H with
      | Ok _ = Ok _ => inversion H; subst; clear H
      | Err _ = Ok _ => discriminate H
      | bind ?r ?f = Ok _ =>
          let a := fresh "a" in let Hb := fresh "Hb" in
          apply bind_ok in H; destruct H as (a & Hb & H)
      | (if ?b then _ else _) = Ok _ =>
          let E := fresh "E" in destruct b eqn:E
      | (let (_, _) := ?x in _) = Ok _ => destruct x
      | (match ?x with Some _ => _ | None => _ end) = Ok _ =>
          let E := fresh "E" in destruct x eqn:E
      end
    | progress cbv beta in H ]).

(** ------------------------------------------------------------------ facts about the generated constants *)
Lemma gov_status_order :
  GOV_STATUS_None < GOV_STATUS_Pending /\ GOV_STATUS_Pending < GOV_STATUS_Active /\
  GOV_STATUS_Active < GOV_STATUS_Defeated /\ GOV_STATUS_Defeated < GOV_STATUS_DefeatedWithVeto /\
  GOV_STATUS_DefeatedWithVeto < GOV_STATUS_Succeeded.
Proof. vm_compute. repeat split. Qed.

Lemma gov_vote_codes :
  GOV_VOTE_UpVote = 0 /\ GOV_VOTE_DownVote = 1 /\ GOV_VOTE_DownVetoVote = 2 /\ GOV_VOTE_AbstainVote = 3 /\
  GOV_VOTE_COUNT = 4.
Proof. vm_compute. repeat split. Qed.

Lemma full_pos : 0 < FULL.
Proof. vm_compute. reflexivity. Qed.

Lemma gov_cfg_bounds :
  0 < GOV_MIN_VOTING_DELAY /\ 0 < GOV_MIN_VOTING_PERIOD /\ 0 < GOV_MIN_QUORUM /\
  0 < GOV_MIN_MIN_FEE_FOR_PROPOSE * GOV_DECIMALS_CONST.
Proof. vm_compute. repeat split. Qed.

(** ------------------------------------------------------------------ floor square root *)
Lemma isqrt_spec x : 0 <= x ->
  0 <= isqrt x /\ isqrt x * isqrt x <= x < (isqrt x + 1) * (isqrt x + 1).
Proof.
  intros Hx. unfold isqrt. pose proof (Z.sqrt_spec x Hx) as H. cbv zeta in H.
  pose proof (Z.sqrt_nonneg x). lia.
Qed.

Lemma isqrt_unique x r : 0 <= r -> r * r <= x < (r + 1) * (r + 1) -> isqrt x = r.
Proof.
  intros Hr H. unfold isqrt. apply Z.sqrt_unique. lia.
Qed.

(** ------------------------------------------------------------------ integer thresholds = rational thresholds *)
(** up > floor(tot/2)  <->  up > tot/2 as rationals *)
Lemma half_equiv up tot : (tot / 2 <? up) = true <-> tot < 2 * up.
Proof.
  pose proof (div_lo tot 2 ltac:(lia)) as L. pose proof (div_hi tot 2 ltac:(lia)) as Hh.
  set (h := tot / 2) in *. clearbody h. rewrite Z.ltb_lt. lia.
Qed.

(** veto > floor(tot/3)  <->  veto > tot/3 as rationals *)
Lemma third_equiv veto tot : (tot / 3 <? veto) = true <-> tot < 3 * veto.
Proof.
  pose proof (div_lo tot 3 ltac:(lia)) as L. pose proof (div_hi tot 3 ltac:(lia)) as Hh.
  set (h := tot / 3) in *. clearbody h. rewrite Z.ltb_lt. lia.
Qed.

(** the documented conditions, as propositions over the rationals (cross-multiplied) *)
Definition quorum_ok (p : proposal) : Prop := pr_quorum p * FULL >= pr_minq p * pr_total p.
Definition up_exceeds_half (p : proposal) : Prop := 2 * pr_up p > vote_total p.
Definition veto_exceeds_third (p : proposal) : Prop := 3 * pr_veto p > vote_total p.

Lemma quorum_reached_iff p : quorum_reached p = true <-> quorum_ok p.
Proof. unfold quorum_reached, quorum_ok. rewrite Z.leb_le. lia. Qed.

Lemma veto_iff p : vote_down_with_veto p = true <-> veto_exceeds_third p.
Proof. unfold vote_down_with_veto, veto_exceeds_third. rewrite third_equiv. lia. Qed.

Lemma vote_reached_iff p : vote_reached p = true <-> (up_exceeds_half p /\ ~ veto_exceeds_third p).
Proof.
  unfold vote_reached, up_exceeds_half, veto_exceeds_third. cbv zeta.
  destruct (vote_total p / 3 <? pr_veto p) eqn:E.
  - apply third_equiv in E. split; [discriminate | lia].
  - assert (~ vote_total p < 3 * pr_veto p).
    { intros C. apply third_equiv in C. congruence. }
    rewrite half_equiv. lia.
Qed.

(** The status function decided by the code is the documented one. *)
Lemma status_char blk p : 0 <= pr_period p ->
  let vs := pr_start p + pr_delay p in
  let ve := vs + pr_period p in
  let s := status_of blk p in
  (s = GOV_STATUS_Pending <-> blk < vs) /\
  (s = GOV_STATUS_Active <-> vs <= blk < ve) /\
  (s = GOV_STATUS_Succeeded <-> ve <= blk /\ quorum_ok p /\ up_exceeds_half p /\ ~ veto_exceeds_third p) /\
  (s = GOV_STATUS_DefeatedWithVeto <-> ve <= blk /\ veto_exceeds_third p) /\
  (s = GOV_STATUS_Defeated <-> ve <= blk /\ ~ veto_exceeds_third p /\ ~ (quorum_ok p /\ up_exceeds_half p)) /\
  s <> GOV_STATUS_None.
Proof.
  intros Hper. cbv zeta. pose proof gov_status_order as O.
  pose proof (quorum_reached_iff p) as Q. pose proof (vote_reached_iff p) as V. pose proof (veto_iff p) as W.
  unfold status_of.
  destruct (blk <? pr_start p + pr_delay p) eqn:E1.
  { apply Z.ltb_lt in E1. repeat split; intros; try lia. }
  apply Z.ltb_ge in E1.
  destruct ((pr_start p + pr_delay p <=? blk) && (blk <? pr_start p + pr_delay p + pr_period p)) eqn:E2.
  { apply andb_prop in E2. destruct E2 as [E2 E3]. apply Z.ltb_lt in E3. repeat split; intros; try lia. }
  assert (E3 : pr_start p + pr_delay p + pr_period p <= blk).
  { apply andb_false_iff in E2. destruct E2 as [E2|E2]; [apply Z.leb_gt in E2; lia | apply Z.ltb_ge in E2; lia]. }
  destruct (quorum_reached p) eqn:EQ; destruct (vote_reached p) eqn:EV; destruct (vote_down_with_veto p) eqn:EW; simpl;
    repeat split; intros; try lia; try tauto;
    try (exfalso; intuition congruence).
Qed.

(** ------------------------------------------------------------------ lists of proposals *)
Lemma upd_length {A} (l : list A) n x : length (upd l n x) = length l.
Proof. revert n. induction l as [|h t IH]; intros [|n]; simpl; auto. Qed.

Lemma nth_upd_same {A} (l : list A) n x : (n < length l)%nat -> nth_error (upd l n x) n = Some x.
Proof.
  revert n. induction l as [|h t IH]; intros [|n]; simpl; intros H; try lia; auto.
  apply IH. lia.
Qed.

Lemma nth_upd_other {A} (l : list A) n m x : n <> m -> nth_error (upd l n x) m = nth_error l m.
Proof.
  revert n m. induction l as [|h t IH]; intros [|n] [|m]; simpl; intros H; auto; try congruence.
Qed.

Lemma valid_id_spec g id : valid_id g id = true <-> 1 <= id <= nprops g.
Proof. unfold valid_id. rewrite andb_true_iff, !Z.leb_le. tauto. Qed.

Lemma get_prop_some g id p : get_prop g id = Some p ->
  1 <= id <= nprops g /\ nth_error (g_props g) (Z.to_nat (id - 1)) = Some p.
Proof.
  unfold get_prop. destruct (valid_id g id) eqn:E; [|discriminate].
  apply valid_id_spec in E. auto.
Qed.

Lemma get_prop_valid g id : 1 <= id <= nprops g -> exists p, get_prop g id = Some p.
Proof.
  intros H. unfold get_prop. rewrite (proj2 (valid_id_spec g id) H).
  destruct (nth_error (g_props g) (Z.to_nat (id - 1))) eqn:E; [eauto|].
  apply nth_error_None in E. unfold nprops in H. lia.
Qed.

Lemma nprops_put g id p : nprops (put_prop g id p) = nprops g.
Proof. unfold nprops, put_prop. simpl. rewrite upd_length. reflexivity. Qed.

Lemma get_put_same g id p : 1 <= id <= nprops g -> get_prop (put_prop g id p) id = Some p.
Proof.
  intros H. unfold get_prop. rewrite (proj2 (valid_id_spec _ id)) by (rewrite nprops_put; exact H).
  unfold put_prop. simpl. apply nth_upd_same. unfold nprops in H. lia.
Qed.

Lemma get_put_other g id id2 p : 1 <= id -> id2 <> id -> get_prop (put_prop g id p) id2 = get_prop g id2.
Proof.
  intros H1 Hne. unfold get_prop.
  assert (Hv : valid_id (put_prop g id p) id2 = valid_id g id2).
  { unfold valid_id. rewrite nprops_put. reflexivity. }
  rewrite Hv. destruct (valid_id g id2) eqn:E; [|reflexivity].
  apply valid_id_spec in E. unfold put_prop. simpl.
  apply nth_upd_other. lia.
Qed.

(** proposals() access on the bare list, so that lemmas survive changes of the other state components *)
Definition getp (l : list proposal) (id : Z) : option proposal :=
  if (1 <=? id) && (id <=? Z.of_nat (length l)) then nth_error l (Z.to_nat (id - 1)) else None.

Lemma get_prop_getp g id : get_prop g id = getp (g_props g) id.
Proof. reflexivity. Qed.

Lemma getp_some l id p : getp l id = Some p ->
  1 <= id <= Z.of_nat (length l) /\ nth_error l (Z.to_nat (id - 1)) = Some p.
Proof.
  unfold getp. destruct ((1 <=? id) && (id <=? Z.of_nat (length l))) eqn:E; [|discriminate].
  apply andb_prop in E. destruct E as [A B]. apply Z.leb_le in A, B. auto.
Qed.

Lemma getp_valid l id : 1 <= id <= Z.of_nat (length l) -> exists p, getp l id = Some p.
Proof.
  intros H. unfold getp.
  replace ((1 <=? id) && (id <=? Z.of_nat (length l))) with true
    by (symmetry; apply andb_true_iff; rewrite !Z.leb_le; lia).
  destruct (nth_error l (Z.to_nat (id - 1))) eqn:E; [eauto|].
  apply nth_error_None in E. lia.
Qed.

Lemma getp_upd_same l id p : 1 <= id <= Z.of_nat (length l) -> getp (upd l (Z.to_nat (id - 1)) p) id = Some p.
Proof.
  intros H. unfold getp. rewrite upd_length.
  replace ((1 <=? id) && (id <=? Z.of_nat (length l))) with true
    by (symmetry; apply andb_true_iff; rewrite !Z.leb_le; lia).
  apply nth_upd_same. lia.
Qed.

Lemma getp_upd_other l id id2 p : 1 <= id -> id2 <> id -> getp (upd l (Z.to_nat (id - 1)) p) id2 = getp l id2.
Proof.
  intros H1 Hne. unfold getp. rewrite upd_length.
  destruct ((1 <=? id2) && (id2 <=? Z.of_nat (length l))) eqn:E; [|reflexivity].
  apply andb_prop in E. destruct E as [A B]. apply Z.leb_le in A, B.
  apply nth_upd_other. lia.
Qed.

Lemma getp_app_old l p id q : getp l id = Some q -> getp (l ++ [p]) id = Some q.
Proof.
  intros H. apply getp_some in H. destruct H as [R N]. unfold getp. rewrite app_length. simpl.
  replace ((1 <=? id) && (id <=? Z.of_nat (length l + 1))) with true
    by (symmetry; apply andb_true_iff; rewrite !Z.leb_le; lia).
  rewrite nth_error_app1 by lia. exact N.
Qed.

Lemma getp_app_inv l p id q : getp (l ++ [p]) id = Some q ->
  (getp l id = Some q /\ id <= Z.of_nat (length l)) \/ (id = Z.of_nat (length l) + 1 /\ q = p).
Proof.
  intros H. apply getp_some in H. destruct H as [R N]. rewrite app_length in R. simpl in R.
  destruct (Z_le_gt_dec id (Z.of_nat (length l))) as [L|G].
  - left. split; [|exact L]. rewrite nth_error_app1 in N by lia. unfold getp.
    replace ((1 <=? id) && (id <=? Z.of_nat (length l))) with true
      by (symmetry; apply andb_true_iff; rewrite !Z.leb_le; lia).
    exact N.
  - right. assert (id = Z.of_nat (length l) + 1) by lia. split; [assumption|]. subst id.
    rewrite nth_error_app2 in N by lia.
    replace (Z.to_nat (Z.of_nat (length l) + 1 - 1) - length l)%nat with 0%nat in N by lia.
    simpl in N. congruence.
Qed.

Lemma getp_app_new l p : getp (l ++ [p]) (Z.of_nat (length l) + 1) = Some p.
Proof.
  unfold getp. rewrite app_length. simpl.
  replace ((1 <=? Z.of_nat (length l) + 1) && (Z.of_nat (length l) + 1 <=? Z.of_nat (length l + 1))) with true
    by (symmetry; apply andb_true_iff; rewrite !Z.leb_le; lia).
  rewrite nth_error_app2 by lia.
  replace (Z.to_nat (Z.of_nat (length l) + 1 - 1) - length l)%nat with 0%nat by lia. reflexivity.
Qed.

(** ------------------------------------------------------------------ status: helper facts *)
Lemma status_of_not_none blk p : status_of blk p <> GOV_STATUS_None.
Proof.
  pose proof gov_status_order. unfold status_of.
  repeat match goal with |- context [if ?b then _ else _] => destruct b end; lia.
Qed.

Lemma status_active_started blk p : status_of blk p = GOV_STATUS_Active -> pr_start p + pr_delay p <= blk.
Proof.
  pose proof gov_status_order. unfold status_of.
  destruct (blk <? pr_start p + pr_delay p) eqn:E; [lia|]. apply Z.ltb_ge in E. intros _. exact E.
Qed.

Lemma status_pending_early blk p : status_of blk p = GOV_STATUS_Pending -> blk < pr_start p + pr_delay p.
Proof.
  pose proof gov_status_order. unfold status_of.
  destruct (blk <? pr_start p + pr_delay p) eqn:E; [apply Z.ltb_lt in E; auto|].
  repeat match goal with |- context [if ?b then _ else _] => destruct b end; lia.
Qed.

Lemma view_status_live g id p : get_prop g id = Some p -> pr_live p = true ->
  view_status g id = status_of (g_block g) p.
Proof. intros H L. unfold view_status. rewrite H, L. reflexivity. Qed.

Lemma view_status_not_none g id : view_status g id <> GOV_STATUS_None ->
  exists p, get_prop g id = Some p /\ pr_live p = true /\ view_status g id = status_of (g_block g) p.
Proof.
  unfold view_status. destruct (get_prop g id) as [p|] eqn:E; [|congruence].
  destruct (pr_live p) eqn:L; [|congruence]. intros _. eauto.
Qed.

Lemma view_status_none g id :
  view_status g id = GOV_STATUS_None <-> (forall p, get_prop g id = Some p -> pr_live p = false).
Proof.
  unfold view_status. destruct (get_prop g id) as [p|] eqn:E.
  - destruct (pr_live p) eqn:L.
    + split; [intros H; exfalso; exact (status_of_not_none _ _ H) | intros H; specialize (H p eq_refl); congruence].
    + split; [intros _ q Hq; congruence | reflexivity].
  - split; [intros _ q Hq; discriminate | reflexivity].
Qed.

(** ------------------------------------------------------------------ what an operation leaves alone *)
Definition core (g : gov) :=
  (g_block g, g_props g, g_voted g,
   (g_min_energy g, g_min_fee g, g_quorum g, g_delay g, g_period g, g_wpct g),
   (g_energy g, g_synced g, g_total g)).

Definition same_snapshot (p p' : proposal) : Prop :=
  pr_live p' = pr_live p /\ pr_proposer p' = pr_proposer p /\ pr_fee p' = pr_fee p /\ pr_minq p' = pr_minq p /\
  pr_delay p' = pr_delay p /\ pr_period p' = pr_period p /\ pr_wpct p' = pr_wpct p /\ pr_start p' = pr_start p.

(** ------------------------------------------------------------------ ledger *)
Lemma xfer_spec g s d amt g' : xfer g s d amt = Ok g' ->
  amt <= bal g s /\
  (forall a, bal g' a = bal g a - (if a =? s then amt else 0) + (if a =? d then amt else 0)) /\
  g_burned g' = g_burned g /\ core g' = core g /\
  (NoDup (akeys (g_bal g)) -> NoDup (akeys (g_bal g')) /\ asum (g_bal g') = asum (g_bal g)).
Proof.
  unfold xfer. intros H. inv_ok H. apply sub_chk_ok in Hb. destruct Hb as [Hle ->].
  split; [exact Hle|]. split; [|split; [reflexivity|split; [reflexivity|]]].
  - intros a. unfold bal. simpl.
    destruct (Z.eq_dec a d) as [->|Hd].
    + rewrite aget_aset_same. rewrite Z.eqb_refl.
      destruct (Z.eq_dec d s) as [->|Hs].
      * rewrite aget_aset_same, Z.eqb_refl. lia.
      * rewrite aget_aset_other by congruence.
        destruct (d =? s) eqn:E; [apply Z.eqb_eq in E; contradiction|]. lia.
    + rewrite aget_aset_other by congruence.
      destruct (a =? d) eqn:E; [apply Z.eqb_eq in E; contradiction|].
      destruct (Z.eq_dec a s) as [->|Hs].
      * rewrite aget_aset_same, Z.eqb_refl. lia.
      * rewrite aget_aset_other by congruence.
        destruct (a =? s) eqn:E2; [apply Z.eqb_eq in E2; contradiction|]. lia.
  - intros ND. simpl.
    pose proof (nodup_aset (g_bal g) s (aget (g_bal g) s - amt) ND) as ND1.
    split; [apply nodup_aset; exact ND1|].
    rewrite asum_aset by exact ND1. rewrite asum_aset by exact ND. unfold bal. lia.
Qed.

Lemma burn_spec g amt g' : burn g amt = Ok g' ->
  amt <= bal g SELF /\
  (forall a, bal g' a = bal g a - (if a =? SELF then amt else 0)) /\
  g_burned g' = g_burned g + amt /\ core g' = core g /\
  (NoDup (akeys (g_bal g)) -> NoDup (akeys (g_bal g')) /\ asum (g_bal g') = asum (g_bal g) - amt).
Proof.
  unfold burn. intros H. inv_ok H. apply sub_chk_ok in Hb. destruct Hb as [Hle ->].
  split; [exact Hle|]. split; [|split; [reflexivity|split; [reflexivity|]]].
  - intros a. unfold bal. simpl. destruct (Z.eq_dec a SELF) as [->|Hs].
    + rewrite aget_aset_same, Z.eqb_refl. lia.
    + rewrite aget_aset_other by congruence.
      destruct (a =? SELF) eqn:E; [apply Z.eqb_eq in E; contradiction|]. lia.
  - intros ND. simpl. split; [apply nodup_aset; exact ND|].
    rewrite asum_aset by exact ND. unfold bal. lia.
Qed.

(** ------------------------------------------------------------------ votes *)
Definition tally (p : proposal) (k : Z) : Z :=
  if k =? GOV_VOTE_UpVote then pr_up p
  else if k =? GOV_VOTE_DownVote then pr_down p
  else if k =? GOV_VOTE_DownVetoVote then pr_veto p
  else pr_abstain p.

Lemma add_vote_spec p kind w e : 0 <= kind < GOV_VOTE_COUNT ->
  let p' := add_vote p kind w e in
  (forall k, 0 <= k < GOV_VOTE_COUNT -> tally p' k = tally p k + (if k =? kind then w else 0)) /\
  pr_quorum p' = pr_quorum p + e /\ pr_total p' = pr_total p /\ pr_withdrawn p' = pr_withdrawn p /\
  same_snapshot p p'.
Proof.
  intros Hk. pose proof gov_vote_codes as (C0 & C1 & C2 & C3 & C4). cbv zeta.
  unfold add_vote, tally, same_snapshot. rewrite C0, C1, C2 in *. rewrite C4 in Hk.
  assert (Hcases : kind = 0 \/ kind = 1 \/ kind = 2 \/ kind = 3) by lia.
  destruct Hcases as [-> | [-> | [-> | ->]]]; simpl;
    (split; [intros k Hk'; rewrite C4 in Hk';
             assert (Hc : k = 0 \/ k = 1 \/ k = 2 \/ k = 3) by lia;
             destruct Hc as [-> | [-> | [-> | ->]]]; simpl; lia
            | repeat split; reflexivity]).
Qed.

Lemma has_voted_in g c id : has_voted g c id = true <-> In (c, id) (g_voted g).
Proof.
  unfold has_voted. rewrite existsb_exists. split.
  - intros ([a b] & Hin & He). unfold pair_eqb in He. simpl in He.
    apply andb_prop in He. destruct He as [A B]. apply Z.eqb_eq in A, B. subst. exact Hin.
  - intros Hin. exists (c, id). split; [exact Hin|]. unfold pair_eqb. simpl. rewrite !Z.eqb_refl. reflexivity.
Qed.

Lemma vote_spec g c id kind g' o :
  ep_vote g c id kind = Ok (g', o) ->
  exists p p',
    get_prop g id = Some p /\ pr_live p = true /\
    view_status g id = GOV_STATUS_Active /\ status_of (g_block g) p = GOV_STATUS_Active /\
    has_voted g c id = false /\ has_voted g' c id = true /\
    0 <= kind < GOV_VOTE_COUNT /\ 0 < energy_of g c /\
    get_prop g' id = Some p' /\
    (forall k, 0 <= k < GOV_VOTE_COUNT ->
       tally p' k = tally p k + (if k =? kind then isqrt (energy_of g c) else 0)) /\
    pr_quorum p' = pr_quorum p + energy_of g c /\
    pr_total p' = (if pr_quorum p =? 0 then g_total g else pr_total p) /\
    pr_withdrawn p' = pr_withdrawn p /\ same_snapshot p p' /\
    g_voted g' = g_voted g ++ [(c, id)] /\
    g_props g' = upd (g_props g) (Z.to_nat (id - 1)) p' /\
    (forall id2, id2 <> id -> get_prop g' id2 = get_prop g id2) /\
    g' = put_prop (set_voted g (g_voted g ++ [(c, id)])) id p' /\ o = [].
Proof.
  unfold ep_vote. intros H.
  destruct ((0 <=? kind) && (kind <? GOV_VOTE_COUNT)) eqn:Ek; [|discriminate].
  destruct (valid_id g id) eqn:Ev; [|discriminate].
  destruct (view_status g id =? GOV_STATUS_Active) eqn:Es; [|discriminate].
  destruct (negb (has_voted g c id)) eqn:Eh; [|discriminate].
  destruct (get_prop g id) as [p|] eqn:Ep; [|discriminate].
  destruct (0 <? energy_of g c) eqn:Ee; [|discriminate].
  inversion H; subst; clear H.
  apply andb_prop in Ek. destruct Ek as [K0 K1]. apply Z.leb_le in K0. apply Z.ltb_lt in K1.
  apply valid_id_spec in Ev. apply Z.eqb_eq in Es. apply negb_true_iff in Eh. apply Z.ltb_lt in Ee.
  assert (Hlive : pr_live p = true).
  { unfold view_status in Es. rewrite Ep in Es. destruct (pr_live p); [reflexivity|].
    pose proof gov_status_order. lia. }
  assert (Hst : status_of (g_block g) p = GOV_STATUS_Active).
  { rewrite <- (view_status_live g id p Ep Hlive). exact Es. }
  set (p1 := if pr_quorum p =? 0 then pr_set_total p (g_total g) else p) in *.
  assert (P1 : pr_up p1 = pr_up p /\ pr_down p1 = pr_down p /\ pr_veto p1 = pr_veto p /\ pr_abstain p1 = pr_abstain p /\
               pr_quorum p1 = pr_quorum p /\ pr_withdrawn p1 = pr_withdrawn p /\ same_snapshot p p1 /\
               pr_total p1 = (if pr_quorum p =? 0 then g_total g else pr_total p)).
  { unfold p1, same_snapshot. destruct (pr_quorum p =? 0); simpl; repeat split; reflexivity. }
  destruct P1 as (U1 & D1 & V1 & A1 & Q1 & W1 & S1 & T1).
  pose proof (add_vote_spec p1 kind (isqrt (energy_of g c)) (energy_of g c) (conj K0 K1)) as AV.
  cbv zeta in AV. destruct AV as (AT & AQ & ATot & AW & AS).
  set (p2 := add_vote p1 kind (isqrt (energy_of g c)) (energy_of g c)) in *.
  exists p, p2.
  split; [reflexivity|]. split; [exact Hlive|]. split; [exact Es|]. split; [exact Hst|].
  split; [exact Eh|].
  split. { apply has_voted_in. unfold put_prop. simpl. apply in_or_app. right. left. reflexivity. }
  split; [lia|]. split; [exact Ee|].
  split. { rewrite get_prop_getp. unfold put_prop. simpl. apply getp_upd_same. unfold nprops in Ev. exact Ev. }
  split. { intros k Hk. rewrite (AT k Hk). unfold tally. rewrite U1, D1, V1, A1. reflexivity. }
  split; [lia|]. split; [congruence|]. split; [congruence|].
  split. { unfold same_snapshot in *. intuition congruence. }
  split; [reflexivity|]. split; [reflexivity|].
  split. { intros id2 Hne. rewrite !get_prop_getp. unfold put_prop. simpl. apply getp_upd_other; lia. }
  repeat split; reflexivity.
Qed.

(** the second vote of an address on a proposal is rejected *)
Lemma vote_twice_fails g c id kind : has_voted g c id = true -> is_ok (ep_vote g c id kind) = false.
Proof.
  intros H. unfold ep_vote. rewrite H. simpl.
  destruct ((0 <=? kind) && (kind <? GOV_VOTE_COUNT)); [|reflexivity].
  destruct (valid_id g id); [|reflexivity].
  destruct (view_status g id =? GOV_STATUS_Active); reflexivity.
Qed.

(** votes outside the Active window are rejected *)
Lemma vote_needs_active g c id kind : view_status g id <> GOV_STATUS_Active -> is_ok (ep_vote g c id kind) = false.
Proof.
  intros H. unfold ep_vote.
  destruct ((0 <=? kind) && (kind <? GOV_VOTE_COUNT)); [|reflexivity].
  destruct (valid_id g id); [|reflexivity].
  destruct (view_status g id =? GOV_STATUS_Active) eqn:E; [apply Z.eqb_eq in E; contradiction | reflexivity].
Qed.

(** ------------------------------------------------------------------ propose / cancel / withdraw: decomposition *)
Definition new_proposal (g : gov) (c amt : Z) : proposal :=
  mkProp true c amt (g_quorum g) (g_delay g) (g_period g) (g_wpct g) 0 (g_block g) false 0 0 0 0 0.

Lemma is_sc_false c : is_sc c = false -> c <> SELF /\ c <> SC_CALLER.
Proof.
  unfold is_sc. intros H. apply orb_false_iff in H. destruct H as [A B].
  apply Z.eqb_neq in A, B. auto.
Qed.

Lemma propose_spec g c tok amt nact gas g' o :
  ep_propose g c tok amt nact gas = Ok (g', o) ->
  is_sc c = false /\ tok = FEE_TOK /\ amt = g_min_fee g /\ 0 <= amt /\ g_min_energy g <= energy_of g c /\
  nact <= GOV_MAX_PROPOSAL_ACTIONS /\
  exists g1, xfer g c SELF amt = Ok g1 /\
             g' = set_props g1 (g_props g1 ++ [new_proposal g c amt]) /\ o = [nprops g + 1].
Proof.
  unfold ep_propose. intros H.
  destruct ((0 <=? amt) && (0 <=? nact) && (0 <=? gas)) eqn:E0; [|discriminate].
  destruct (negb (is_sc c)) eqn:E1; [|discriminate].
  destruct (nact <=? GOV_MAX_PROPOSAL_ACTIONS) eqn:E2; [|discriminate].
  destruct (g_min_energy g <=? energy_of g c) eqn:E3; [|discriminate].
  destruct (negb (tok =? NO_PAY)) eqn:E4; [|discriminate].
  destruct (tok =? FEE_TOK) eqn:E5; [|discriminate].
  destruct (g_min_fee g =? amt) eqn:E6; [|discriminate].
  destruct ((nact =? 0) || (gas <? GOV_MAX_GAS_LIMIT_PER_BLOCK)) eqn:E7; [|discriminate].
  destruct (nact * gas <? GOV_MAX_GAS_LIMIT_PER_BLOCK) eqn:E8; [|discriminate].
  apply bind_ok in H. destruct H as (g1 & Hx & H). cbv zeta in H. inversion H; subst; clear H.
  apply andb_prop in E0. destruct E0 as [E0 _]. apply andb_prop in E0. destruct E0 as [E0 _].
  apply Z.leb_le in E0, E2, E3. apply negb_true_iff in E1. apply Z.eqb_eq in E5, E6.
  split; [exact E1|]. split; [exact E5|]. split; [lia|]. split; [exact E0|]. split; [exact E3|]. split; [exact E2|].
  exists g1. split; [exact Hx|].
  pose proof (xfer_spec _ _ _ _ _ Hx) as (_ & _ & _ & Hc & _).
  unfold core in Hc. inversion Hc as [[Hblk Hpr Hvo Hme Hmf Hq Hd Hp Hw He Hs Ht]].
  unfold new_proposal. rewrite Hq, Hd, Hp, Hw, Hblk.
  split; [reflexivity|]. unfold nprops. simpl. rewrite app_length. simpl. rewrite Hpr.
  f_equal. lia.
Qed.

Lemma cancel_spec g c id g' o :
  ep_cancel g c id = Ok (g', o) ->
  exists p g1,
    get_prop g id = Some p /\ pr_live p = true /\
    view_status g id = GOV_STATUS_Pending /\ status_of (g_block g) p = GOV_STATUS_Pending /\
    c = pr_proposer p /\
    xfer g SELF (pr_proposer p) (pr_fee p) = Ok g1 /\ g' = put_prop g1 id pr_cleared /\ o = [].
Proof.
  unfold ep_cancel. intros H. cbv zeta in H.
  destruct (view_status g id =? GOV_STATUS_None) eqn:E0; [discriminate|].
  destruct (view_status g id =? GOV_STATUS_Pending) eqn:E1; [|discriminate].
  apply Z.eqb_neq in E0. apply Z.eqb_eq in E1.
  destruct (view_status_not_none g id E0) as (p & Hp & Hl & Hs).
  rewrite Hp in H.
  destruct (c =? pr_proposer p) eqn:E2; [|discriminate]. apply Z.eqb_eq in E2.
  apply bind_ok in H. destruct H as (g1 & Hx & H). inversion H; subst; clear H.
  exists p, g1. repeat split; auto. congruence.
Qed.

Lemma withdraw_spec g c id g' o :
  ep_withdraw g c id = Ok (g', o) ->
  exists p,
    get_prop g id = Some p /\ pr_live p = true /\ pr_withdrawn p = false /\ o = [] /\
    view_status g id = status_of (g_block g) p /\
    (((status_of (g_block g) p = GOV_STATUS_Succeeded \/ status_of (g_block g) p = GOV_STATUS_Defeated) /\
      c = pr_proposer p /\
      exists g1, xfer g SELF (pr_proposer p) (pr_fee p) = Ok g1 /\ g' = put_prop g1 id (pr_set_withdrawn p))
     \/
     (status_of (g_block g) p = GOV_STATUS_DefeatedWithVeto /\
      let refund := pr_wpct p * pr_fee p / FULL in
      refund <= pr_fee p /\
      exists g1 g2, burn g (pr_fee p - refund) = Ok g1 /\ xfer g1 SELF (pr_proposer p) refund = Ok g2 /\
                    g' = put_prop g2 id (pr_set_withdrawn p))).
Proof.
  unfold ep_withdraw. intros H. cbv zeta in H.
  destruct (view_status g id =? GOV_STATUS_None) eqn:E0; [discriminate|].
  apply Z.eqb_neq in E0.
  destruct (view_status_not_none g id E0) as (p & Hp & Hl & Hs).
  rewrite Hp in H.
  destruct ((view_status g id =? GOV_STATUS_Succeeded) || (view_status g id =? GOV_STATUS_Defeated)) eqn:E1.
  - destruct (c =? pr_proposer p) eqn:E2; [|discriminate]. apply Z.eqb_eq in E2.
    destruct (negb (pr_withdrawn p)) eqn:E3; [|discriminate]. apply negb_true_iff in E3.
    apply bind_ok in H. destruct H as (g1 & Hx & H). inversion H; subst; clear H.
    exists p. split; [exact Hp|]. split; [exact Hl|]. split; [exact E3|]. split; [reflexivity|]. split; [exact Hs|].
    left. split.
    { apply orb_prop in E1. destruct E1 as [E1|E1]; apply Z.eqb_eq in E1; [left|right]; congruence. }
    split; [reflexivity|]. exists g1. auto.
  - destruct (view_status g id =? GOV_STATUS_DefeatedWithVeto) eqn:E4; [|discriminate].
    apply Z.eqb_eq in E4.
    destruct (negb (pr_withdrawn p)) eqn:E3; [|discriminate]. apply negb_true_iff in E3.
    apply bind_ok in H. destruct H as (rem & Hr & H).
    apply bind_ok in H. destruct H as (g1 & Hb & H).
    apply bind_ok in H. destruct H as (g2 & Hx & H). inversion H; subst; clear H.
    apply sub_chk_ok in Hr. destruct Hr as [Hle ->].
    exists p. split; [exact Hp|]. split; [exact Hl|]. split; [exact E3|]. split; [reflexivity|]. split; [exact Hs|].
    right. split; [congruence|]. cbv zeta. split; [exact Hle|]. exists g1, g2. auto.
Qed.

(** ------------------------------------------------------------------ escrow accounting *)
Definition escrowed (p : proposal) : bool := pr_live p && negb (pr_withdrawn p).
Definition esc (p : proposal) : Z := if escrowed p then pr_fee p else 0.
Fixpoint escrow_sum (l : list proposal) : Z :=
  match l with [] => 0 | p :: t => esc p + escrow_sum t end.

(** what the contract holds beyond the fees it owes back *)
Definition excess (g : gov) : Z := bal g SELF - escrow_sum (g_props g).

Lemma escrow_sum_app l p : escrow_sum (l ++ [p]) = escrow_sum l + esc p.
Proof. induction l as [|h t IH]; simpl; lia. Qed.

Lemma escrow_sum_upd l n p p' : nth_error l n = Some p ->
  escrow_sum (upd l n p') = escrow_sum l - esc p + esc p'.
Proof.
  revert n. induction l as [|h t IH]; intros [|n] H; simpl in *; try discriminate.
  - inversion H; subst. lia.
  - rewrite (IH n H). lia.
Qed.

Record PropOk (p : proposal) : Prop := {
  po_wpct : 0 <= pr_wpct p <= FULL;
  po_fee : 0 <= pr_fee p;
  po_period : 0 <= pr_period p;
  po_proposer : pr_live p = true -> is_sc (pr_proposer p) = false
}.

Record GovInv (g : gov) : Prop := {
  gi_props : forall id p, get_prop g id = Some p -> PropOk p;
  gi_wd : forall id p, get_prop g id = Some p -> pr_withdrawn p = true -> pr_start p + pr_delay p <= g_block g;
  gi_nodup : NoDup (akeys (g_bal g));
  gi_wpct : 0 <= g_wpct g <= FULL;
  gi_period : 0 <= g_period g;
  gi_excess : 0 <= excess g
}.

Lemma cleared_ok : PropOk pr_cleared.
Proof. pose proof full_pos. constructor; simpl; try lia; try discriminate. Qed.

(** an operation that leaves the proposals alone *)
Lemma inv_core g g' :
  GovInv g -> g_props g' = g_props g -> g_block g <= g_block g' ->
  0 <= g_wpct g' <= FULL -> 0 <= g_period g' ->
  NoDup (akeys (g_bal g')) -> bal g SELF <= bal g' SELF -> GovInv g'.
Proof.
  intros [] Hp Hb Hw Hpe Hnd Hbal. constructor.
  - intros id p H. rewrite get_prop_getp, Hp in H. eapply gi_props0. rewrite get_prop_getp. exact H.
  - intros id p H W. rewrite get_prop_getp, Hp in H. specialize (gi_wd0 id p H W). lia.
  - exact Hnd.
  - exact Hw.
  - exact Hpe.
  - unfold excess in *. rewrite Hp. lia.
Qed.

(** replacing one proposal *)
Lemma inv_put g g1 id p p' :
  GovInv g -> g_block g1 = g_block g -> g_props g1 = g_props g ->
  g_wpct g1 = g_wpct g -> g_period g1 = g_period g -> NoDup (akeys (g_bal g1)) ->
  get_prop g id = Some p -> PropOk p' ->
  (pr_withdrawn p' = true -> pr_start p' + pr_delay p' <= g_block g) ->
  0 <= bal g1 SELF - (escrow_sum (g_props g) - esc p + esc p') ->
  GovInv (put_prop g1 id p').
Proof.
  intros [] Hblk Hpr Hw Hpe Hnd Hp Hok Hwd Hex.
  rewrite get_prop_getp in Hp. pose proof (getp_some _ _ _ Hp) as [Hr Hn].
  constructor.
  - intros id2 q H. rewrite get_prop_getp in H. unfold put_prop in H. simpl in H. rewrite Hpr in H.
    destruct (Z.eq_dec id2 id) as [->|Hne].
    + rewrite getp_upd_same in H by exact Hr. inversion H; subst. exact Hok.
    + rewrite getp_upd_other in H by lia. eapply gi_props0. rewrite get_prop_getp. exact H.
  - intros id2 q H W. rewrite get_prop_getp in H. unfold put_prop in H. simpl in H. rewrite Hpr in H.
    simpl. rewrite Hblk.
    destruct (Z.eq_dec id2 id) as [->|Hne].
    + rewrite getp_upd_same in H by exact Hr. inversion H; subst. auto.
    + rewrite getp_upd_other in H by lia. eapply gi_wd0; [rewrite get_prop_getp; exact H | exact W].
  - exact Hnd.
  - simpl. lia.
  - simpl. lia.
  - unfold excess. unfold put_prop. simpl. rewrite Hpr.
    rewrite (escrow_sum_upd _ _ p p' Hn). unfold bal in *. simpl. lia.
Qed.

Lemma excess_put g g1 id p p' :
  g_props g1 = g_props g -> get_prop g id = Some p ->
  excess (put_prop g1 id p') = bal g1 SELF - (escrow_sum (g_props g) - esc p + esc p').
Proof.
  intros Hpr Hp. rewrite get_prop_getp in Hp. pose proof (getp_some _ _ _ Hp) as [Hr Hn].
  unfold excess, put_prop. simpl. rewrite Hpr. rewrite (escrow_sum_upd _ _ p p' Hn). reflexivity.
Qed.

Lemma status_final_started blk p : status_of blk p <> GOV_STATUS_Pending -> pr_start p + pr_delay p <= blk.
Proof.
  unfold status_of. destruct (blk <? pr_start p + pr_delay p) eqn:E; [congruence|].
  apply Z.ltb_ge in E. intros _. exact E.
Qed.

Lemma propok_snapshot p p' : PropOk p -> same_snapshot p p' -> PropOk p'.
Proof.
  intros [] (L & P & F & _ & _ & Pe & W & _). constructor; try (rewrite ?W, ?F, ?Pe; assumption).
  rewrite L, P. assumption.
Qed.

Definition donation (op : gop) : Z := match op with Donate _ amt => amt | _ => 0 end.

Ltac core_eqs Hc :=
  unfold core in Hc;
  let Hblk := fresh "Hblk" in let Hpr := fresh "Hpr" in let Hvo := fresh "Hvo" in
  let Hme := fresh "Hme" in let Hmf := fresh "Hmf" in let Hq := fresh "Hq" in let Hd := fresh "Hd" in
  let Hpe := fresh "Hpe" in let Hw := fresh "Hw" in let He := fresh "He" in let Hs := fresh "Hs" in
  let Ht := fresh "Ht" in
  inversion Hc as [[Hblk Hpr Hvo Hme Hmf Hq Hd Hpe Hw He Hs Ht]].

(** Every successful operation preserves the invariant, changes the excess only by a donation, and
    conserves the fee token (balances + burned). *)
Lemma step_inv g op g' o :
  step g op = Ok (g', o) -> GovInv g ->
  GovInv g' /\ excess g' = excess g + donation op /\
  asum (g_bal g') + g_burned g' = asum (g_bal g) + g_burned g.
Proof.
  intros H Hinv. pose proof Hinv as [IP IW IN IWp IPe IE]. pose proof full_pos as HF.
  destruct op; simpl in H.
  - (* Propose *)
    apply propose_spec in H. destruct H as (Hsc & -> & Hamt & Ham0 & _ & _ & g1 & Hx & -> & _).
    pose proof (is_sc_false _ Hsc) as [HcS _].
    pose proof (xfer_spec _ _ _ _ _ Hx) as (Hle & Hb & Hbu & Hc & Hnd). specialize (Hnd IN). destruct Hnd as [ND1 AS1].
    core_eqs Hc.
    assert (HbS : bal g1 SELF = bal g SELF + amt).
    { rewrite (Hb SELF). destruct (SELF =? c) eqn:E; [apply Z.eqb_eq in E; congruence|]. rewrite Z.eqb_refl. lia. }
    assert (Hesc : esc (new_proposal g c amt) = amt) by reflexivity.
    split; [|split].
    + constructor.
      * intros id p H. rewrite get_prop_getp in H. simpl in H. rewrite Hpr in H.
        apply getp_app_inv in H. destruct H as [[H _]|[_ ->]].
        -- eapply IP. rewrite get_prop_getp. exact H.
        -- constructor; simpl; try lia. intros _. exact Hsc.
      * intros id p H W. rewrite get_prop_getp in H. simpl in H. rewrite Hpr in H. simpl. rewrite Hblk.
        apply getp_app_inv in H. destruct H as [[H _]|[_ ->]].
        -- eapply IW; [rewrite get_prop_getp; exact H | exact W].
        -- simpl in W. discriminate.
      * exact ND1.
      * simpl. lia.
      * simpl. lia.
      * unfold excess in *. simpl. rewrite Hpr, escrow_sum_app, Hesc. unfold bal in *. simpl. lia.
    + unfold excess in *. simpl. rewrite Hpr, escrow_sum_app, Hesc. unfold bal in *. simpl. lia.
    + simpl. lia.
  - (* Vote *)
    apply vote_spec in H.
    destruct H as (p & p' & Hp & Hl & _ & Hst & _ & _ & _ & _ & _ & _ & _ & _ & HW & HS & _ & _ & _ & -> & _).
    assert (Hesc : esc p' = esc p).
    { unfold esc, escrowed. destruct HS as (L & _ & F & _). rewrite L, HW, F. reflexivity. }
    set (g1 := set_voted g (g_voted g ++ [(c, id)])) in *.
    split; [|split].
    + apply inv_put with (g := g) (p := p); auto.
      * eapply propok_snapshot; [eapply IP; exact Hp | exact HS].
      * intros W. destruct HS as (_ & _ & _ & _ & D & _ & _ & S). rewrite D, S.
        eapply IW; [exact Hp | congruence].
      * rewrite Hesc. unfold excess in IE. unfold g1, bal in *. simpl. lia.
    + rewrite (excess_put g g1 id p p') by auto. rewrite Hesc. unfold excess, g1, bal. simpl. lia.
    + reflexivity.
  - (* Cancel *)
    apply cancel_spec in H. destruct H as (p & g1 & Hp & Hl & _ & Hst & _ & Hx & -> & _).
    pose proof (IP _ _ Hp) as [_ _ _ Hprop]. specialize (Hprop Hl). apply is_sc_false in Hprop. destruct Hprop as [HpS _].
    pose proof (xfer_spec _ _ _ _ _ Hx) as (Hle & Hb & Hbu & Hc & Hnd). specialize (Hnd IN). destruct Hnd as [ND1 AS1].
    core_eqs Hc.
    assert (HbS : bal g1 SELF = bal g SELF - pr_fee p).
    { rewrite (Hb SELF). rewrite Z.eqb_refl.
      destruct (SELF =? pr_proposer p) eqn:E; [apply Z.eqb_eq in E; congruence|]. lia. }
    assert (Hwd : pr_withdrawn p = false).
    { destruct (pr_withdrawn p) eqn:W; [|reflexivity].
      apply status_pending_early in Hst. pose proof (IW _ _ Hp W). lia. }
    assert (Hesc : esc p = pr_fee p) by (unfold esc, escrowed; rewrite Hl, Hwd; reflexivity).
    assert (Hesc' : esc pr_cleared = 0) by reflexivity.
    split; [|split].
    + apply inv_put with (g := g) (p := p); auto.
      * apply cleared_ok.
      * simpl. discriminate.
      * rewrite Hesc, Hesc'. unfold excess in IE. lia.
    + rewrite (excess_put g g1 id p pr_cleared) by auto. rewrite Hesc, Hesc'. unfold excess. cbn [donation]. lia.
    + simpl. rewrite Hpr || idtac. unfold put_prop. simpl. lia.
  - (* Withdraw *)
    apply withdraw_spec in H. destruct H as (p & Hp & Hl & Hwd & _ & _ & Hcase).
    pose proof (IP _ _ Hp) as Hok. pose proof Hok as [_ _ _ Hprop].
    specialize (Hprop Hl). apply is_sc_false in Hprop. destruct Hprop as [HpS _].
    assert (Hesc : esc p = pr_fee p) by (unfold esc, escrowed; rewrite Hl, Hwd; reflexivity).
    assert (Hesc' : esc (pr_set_withdrawn p) = 0).
    { unfold esc, escrowed. simpl. rewrite andb_false_r. reflexivity. }
    assert (Hok' : PropOk (pr_set_withdrawn p)).
    { destruct Hok. constructor; simpl; assumption. }
    pose proof gov_status_order as O.
    destruct Hcase as [(Hst & _ & g1 & Hx & ->) | (Hst & Hcase)].
    + pose proof (xfer_spec _ _ _ _ _ Hx) as (Hle & Hb & Hbu & Hc & Hnd). specialize (Hnd IN). destruct Hnd as [ND1 AS1].
      core_eqs Hc.
      assert (HbS : bal g1 SELF = bal g SELF - pr_fee p).
      { rewrite (Hb SELF). rewrite Z.eqb_refl.
        destruct (SELF =? pr_proposer p) eqn:E; [apply Z.eqb_eq in E; congruence|]. lia. }
      split; [|split].
      * apply inv_put with (g := g) (p := p); auto.
        -- intros _. simpl. apply status_final_started. lia.
        -- rewrite Hesc, Hesc'. unfold excess in IE. lia.
      * rewrite (excess_put g g1 id p _) by auto. rewrite Hesc, Hesc'. unfold excess. cbn [donation]. lia.
      * unfold put_prop. simpl. lia.
    + cbv zeta in Hcase. destruct Hcase as (Hle & g1 & g2 & Hbn & Hx & ->).
      set (refund := pr_wpct p * pr_fee p / FULL) in *. clearbody refund.
      pose proof (burn_spec _ _ _ Hbn) as (Hle1 & Hb1 & Hbu1 & Hc1 & Hnd1). specialize (Hnd1 IN). destruct Hnd1 as [ND1 AS1].
      pose proof (xfer_spec _ _ _ _ _ Hx) as (Hle2 & Hb2 & Hbu2 & Hc2 & Hnd2). specialize (Hnd2 ND1). destruct Hnd2 as [ND2 AS2].
      rewrite Hc1 in Hc2. core_eqs Hc2.
      assert (HbS : bal g2 SELF = bal g SELF - pr_fee p).
      { rewrite (Hb2 SELF), (Hb1 SELF). rewrite Z.eqb_refl.
        destruct (SELF =? pr_proposer p) eqn:E; [apply Z.eqb_eq in E; congruence|]. lia. }
      split; [|split].
      * apply inv_put with (g := g) (p := p); auto.
        -- intros _. simpl. apply status_final_started. lia.
        -- rewrite Hesc, Hesc'. unfold excess in IE. lia.
      * rewrite (excess_put g g2 id p _) by auto. rewrite Hesc, Hesc'. unfold excess. cbn [donation]. lia.
      * unfold put_prop. simpl. lia.
  - (* Block *)
    unfold ep_block in H. destruct (0 <=? d) eqn:E; [|discriminate]. apply Z.leb_le in E.
    inversion H; subst; clear H.
    split; [|split]; [| unfold excess, bal; simpl; lia | simpl; lia].
    apply inv_core with (g := g); simpl; auto; try lia.
  - (* SetEnergy *)
    unfold ep_set_energy in H. destruct (0 <=? e); [|discriminate]. inversion H; subst; clear H.
    split; [|split]; [| unfold excess, bal; simpl; lia | simpl; lia].
    apply inv_core with (g := g); simpl; auto; try lia.
  - (* Sync *)
    unfold ep_sync in H. apply bind_ok in H. destruct H as (t & _ & H). inversion H; subst; clear H.
    split; [|split]; [| unfold excess, bal; simpl; lia | simpl; lia].
    apply inv_core with (g := g); simpl; auto; try lia.
  - (* Donate *)
    unfold ep_donate in H. destruct ((0 <? amt) && negb (c =? SELF)) eqn:E; [|discriminate].
    apply bind_ok in H. destruct H as (g1 & Hx & H). inversion H; subst; clear H.
    apply andb_prop in E. destruct E as [E1 E2]. apply Z.ltb_lt in E1. apply negb_true_iff in E2. apply Z.eqb_neq in E2.
    pose proof (xfer_spec _ _ _ _ _ Hx) as (Hle & Hb & Hbu & Hc & Hnd). specialize (Hnd IN). destruct Hnd as [ND1 AS1].
    core_eqs Hc.
    assert (HbS : bal g' SELF = bal g SELF + amt).
    { rewrite (Hb SELF). rewrite Z.eqb_refl. destruct (SELF =? c) eqn:E; [apply Z.eqb_eq in E; congruence|]. lia. }
    split; [|split].
    + apply inv_core with (g := g); auto; try lia.
    + unfold excess. rewrite Hpr. simpl. lia.
    + lia.
  - (* ChangeMinEnergy *)
    unfold ep_change_min_energy in H. destruct (only_owner c); [|discriminate]. destruct (0 <=? v); [|discriminate].
    inversion H; subst; clear H.
    split; [|split]; [| unfold excess, bal; simpl; lia | simpl; lia].
    apply inv_core with (g := g); simpl; auto; try lia.
  - (* ChangeMinFee *)
    unfold ep_change_min_fee in H. destruct (only_owner c); [|discriminate]. destruct (ok_min_fee v); [|discriminate].
    inversion H; subst; clear H.
    split; [|split]; [| unfold excess, bal; simpl; lia | simpl; lia].
    apply inv_core with (g := g); simpl; auto; try lia.
  - (* ChangeQuorum *)
    unfold ep_change_quorum in H. destruct (only_owner c); [|discriminate]. destruct (ok_quorum v); [|discriminate].
    inversion H; subst; clear H.
    split; [|split]; [| unfold excess, bal; simpl; lia | simpl; lia].
    apply inv_core with (g := g); simpl; auto; try lia.
  - (* ChangeWithdrawPct *)
    unfold ep_change_wpct in H. destruct (only_owner c); [|discriminate]. destruct (ok_wpct v) eqn:E; [|discriminate].
    inversion H; subst; clear H.
    unfold ok_wpct in E. apply andb_prop in E. destruct E as [E1 E2]. apply Z.leb_le in E1, E2.
    split; [|split]; [| unfold excess, bal; simpl; lia | simpl; lia].
    apply inv_core with (g := g); simpl; auto; try lia.
  - (* ChangeDelay *)
    unfold ep_change_delay in H. destruct (only_owner c); [|discriminate]. destruct (ok_delay v); [|discriminate].
    inversion H; subst; clear H.
    split; [|split]; [| unfold excess, bal; simpl; lia | simpl; lia].
    apply inv_core with (g := g); simpl; auto; try lia.
  - (* ChangePeriod *)
    unfold ep_change_period in H. destruct (only_owner c); [|discriminate]. destruct (ok_period v) eqn:E; [|discriminate].
    inversion H; subst; clear H.
    unfold ok_period in E. apply andb_prop in E. destruct E as [E1 E2]. apply Z.leb_le in E1.
    pose proof gov_cfg_bounds as (_ & B & _).
    split; [|split]; [| unfold excess, bal; simpl; lia | simpl; lia].
    apply inv_core with (g := g); simpl; auto; try lia.
Qed.
