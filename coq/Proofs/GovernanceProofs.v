(** Lemmas for C18 (governance-v2): status characterisation against the documented rational
    thresholds, floor square root, vote effects and the one-vote-per-address history invariant
    (tallies are sums over single ballots), fee escrow accounting. *)
From MX Require Import Base.Prelude Gen.Params Model.Governance.

(** Break a hypothesis [H : <monadic computation> = Ok _] into its successful steps. *)
Ltac inv_ok H :=
  repeat (first
    [ match type of H with
      | Ok _ = Ok _ => inversion H; subst; clear H
      | Err _ = Ok _ => discriminate H
      | bind ?r ?f = Ok _ =>
          let a := fresh "a" in let Hb := fresh "Hb" in
          apply bind_ok in H; destruct H as (a & Hb & H)
      | (if ?b then _ else _) = Ok _ =>
          let E := fresh "E" in destruct b eqn:E
      | (let (_, _) := ?x in _) = Ok _ => destruct x
      | (match ?x with Some _ => _ | None => _ end) = Ok _ =>
          let E := fresh "E" in destruct x eqn:E
      end
    | progress cbv beta in H ]).

(** ------------------------------------------------------------------ facts about the generated constants *)
Lemma gov_status_order :
  GOV_STATUS_None < GOV_STATUS_Pending /\ GOV_STATUS_Pending < GOV_STATUS_Active /\
  GOV_STATUS_Active < GOV_STATUS_Defeated /\ GOV_STATUS_Defeated < GOV_STATUS_DefeatedWithVeto /\
  GOV_STATUS_DefeatedWithVeto < GOV_STATUS_Succeeded.
Proof. vm_compute. repeat split. Qed.

Lemma gov_vote_codes :
  GOV_VOTE_UpVote = 0 /\ GOV_VOTE_DownVote = 1 /\ GOV_VOTE_DownVetoVote = 2 /\ GOV_VOTE_AbstainVote = 3 /\
  GOV_VOTE_COUNT = 4.
Proof. vm_compute. repeat split. Qed.

Lemma full_pos : 0 < FULL.
Proof. vm_compute. reflexivity. Qed.

Lemma gov_cfg_bounds :
  0 < GOV_MIN_VOTING_DELAY /\ 0 < GOV_MIN_VOTING_PERIOD /\ 0 < GOV_MIN_QUORUM /\
  0 < GOV_MIN_MIN_FEE_FOR_PROPOSE * GOV_DECIMALS_CONST.
Proof. vm_compute. repeat split. Qed.

(** ------------------------------------------------------------------ floor square root *)
Lemma isqrt_spec x : 0 <= x ->
  0 <= isqrt x /\ isqrt x * isqrt x <= x < (isqrt x + 1) * (isqrt x + 1).
Proof.
  intros Hx. unfold isqrt. pose proof (Z.sqrt_spec x Hx) as H. cbv zeta in H.
  pose proof (Z.sqrt_nonneg x). lia.
Qed.

Lemma isqrt_unique x r : 0 <= r -> r * r <= x < (r + 1) * (r + 1) -> isqrt x = r.
Proof.
  intros Hr H. unfold isqrt. apply Z.sqrt_unique. lia.
Qed.

(** ------------------------------------------------------------------ integer thresholds = rational thresholds *)
(** up > floor(tot/2)  <->  up > tot/2 as rationals *)
Lemma half_equiv up tot : (tot / 2 <? up) = true <-> tot < 2 * up.
Proof.
  pose proof (div_lo tot 2 ltac:(lia)) as L. pose proof (div_hi tot 2 ltac:(lia)) as Hh.
  set (h := tot / 2) in *. clearbody h. rewrite Z.ltb_lt. lia.
Qed.

(** veto > floor(tot/3)  <->  veto > tot/3 as rationals *)
Lemma third_equiv veto tot : (tot / 3 <? veto) = true <-> tot < 3 * veto.
Proof.
  pose proof (div_lo tot 3 ltac:(lia)) as L. pose proof (div_hi tot 3 ltac:(lia)) as Hh.
  set (h := tot / 3) in *. clearbody h. rewrite Z.ltb_lt. lia.
Qed.

(** the documented conditions, as propositions over the rationals (cross-multiplied) *)
Definition quorum_ok (p : proposal) : Prop := pr_quorum p * FULL >= pr_minq p * pr_total p.
Definition up_exceeds_half (p : proposal) : Prop := 2 * pr_up p > vote_total p.
Definition veto_exceeds_third (p : proposal) : Prop := 3 * pr_veto p > vote_total p.

Lemma quorum_reached_iff p : quorum_reached p = true <-> quorum_ok p.
Proof. unfold quorum_reached, quorum_ok. rewrite Z.leb_le. lia. Qed.

Lemma veto_iff p : vote_down_with_veto p = true <-> veto_exceeds_third p.
Proof. unfold vote_down_with_veto, veto_exceeds_third. rewrite third_equiv. lia. Qed.

Lemma vote_reached_iff p : vote_reached p = true <-> (up_exceeds_half p /\ ~ veto_exceeds_third p).
Proof.
  unfold vote_reached, up_exceeds_half, veto_exceeds_third. cbv zeta.
  destruct (vote_total p / 3 <? pr_veto p) eqn:E.
  - apply third_equiv in E. split; [discriminate | lia].
  - assert (~ vote_total p < 3 * pr_veto p).
    { intros C. apply third_equiv in C. congruence. }
    rewrite half_equiv. lia.
Qed.

(** The status function decided by the code is the documented one. *)
Lemma status_char blk p : 0 <= pr_period p ->
  let vs := pr_start p + pr_delay p in
  let ve := vs + pr_period p in
  let s := status_of blk p in
  (s = GOV_STATUS_Pending <-> blk < vs) /\
  (s = GOV_STATUS_Active <-> vs <= blk < ve) /\
  (s = GOV_STATUS_Succeeded <-> ve <= blk /\ quorum_ok p /\ up_exceeds_half p /\ ~ veto_exceeds_third p) /\
  (s = GOV_STATUS_DefeatedWithVeto <-> ve <= blk /\ veto_exceeds_third p) /\
  (s = GOV_STATUS_Defeated <-> ve <= blk /\ ~ veto_exceeds_third p /\ ~ (quorum_ok p /\ up_exceeds_half p)) /\
  s <> GOV_STATUS_None.
Proof.
  intros Hper. cbv zeta. pose proof gov_status_order as O.
  pose proof (quorum_reached_iff p) as Q. pose proof (vote_reached_iff p) as V. pose proof (veto_iff p) as W.
  unfold status_of.
  destruct (blk <? pr_start p + pr_delay p) eqn:E1.
  { apply Z.ltb_lt in E1. repeat split; intros; try lia. }
  apply Z.ltb_ge in E1.
  destruct ((pr_start p + pr_delay p <=? blk) && (blk <? pr_start p + pr_delay p + pr_period p)) eqn:E2.
  { apply andb_prop in E2. destruct E2 as [E2 E3]. apply Z.ltb_lt in E3. repeat split; intros; try lia. }
  assert (E3 : pr_start p + pr_delay p + pr_period p <= blk).
  { apply andb_false_iff in E2. destruct E2 as [E2|E2]; [apply Z.leb_gt in E2; lia | apply Z.ltb_ge in E2; lia]. }
  destruct (quorum_reached p) eqn:EQ; destruct (vote_reached p) eqn:EV; destruct (vote_down_with_veto p) eqn:EW; simpl;
    repeat split; intros; try lia; try tauto;
    try (exfalso; intuition congruence).
Qed.

(** ------------------------------------------------------------------ lists of proposals *)
Lemma upd_length {A} (l : list A) n x : length (upd l n x) = length l.
Proof. revert n. induction l as [|h t IH]; intros [|n]; simpl; auto. Qed.

Lemma nth_upd_same {A} (l : list A) n x : (n < length l)%nat -> nth_error (upd l n x) n = Some x.
Proof.
  revert n. induction l as [|h t IH]; intros [|n]; simpl; intros H; try lia; auto.
  apply IH. lia.
Qed.

Lemma nth_upd_other {A} (l : list A) n m x : n <> m -> nth_error (upd l n x) m = nth_error l m.
Proof.
  revert n m. induction l as [|h t IH]; intros [|n] [|m]; simpl; intros H; auto; try congruence.
Qed.

Lemma valid_id_spec g id : valid_id g id = true <-> 1 <= id <= nprops g.
Proof. unfold valid_id. rewrite andb_true_iff, !Z.leb_le. tauto. Qed.

Lemma get_prop_some g id p : get_prop g id = Some p ->
  1 <= id <= nprops g /\ nth_error (g_props g) (Z.to_nat (id - 1)) = Some p.
Proof.
  unfold get_prop. destruct (valid_id g id) eqn:E; [|discriminate].
  apply valid_id_spec in E. auto.
Qed.

Lemma get_prop_valid g id : 1 <= id <= nprops g -> exists p, get_prop g id = Some p.
Proof.
  intros H. unfold get_prop. rewrite (proj2 (valid_id_spec g id) H).
  destruct (nth_error (g_props g) (Z.to_nat (id - 1))) eqn:E; [eauto|].
  apply nth_error_None in E. unfold nprops in H. lia.
Qed.

Lemma nprops_put g id p : nprops (put_prop g id p) = nprops g.
Proof. unfold nprops, put_prop. simpl. rewrite upd_length. reflexivity. Qed.

Lemma get_put_same g id p : 1 <= id <= nprops g -> get_prop (put_prop g id p) id = Some p.
Proof.
  intros H. unfold get_prop. rewrite (proj2 (valid_id_spec _ id)) by (rewrite nprops_put; exact H).
  unfold put_prop. simpl. apply nth_upd_same. unfold nprops in H. lia.
Qed.

Lemma get_put_other g id id2 p : 1 <= id -> id2 <> id -> get_prop (put_prop g id p) id2 = get_prop g id2.
Proof.
  intros H1 Hne. unfold get_prop.
  assert (Hv : valid_id (put_prop g id p) id2 = valid_id g id2).
  { unfold valid_id. rewrite nprops_put. reflexivity. }
  rewrite Hv. destruct (valid_id g id2) eqn:E; [|reflexivity].
  apply valid_id_spec in E. unfold put_prop. simpl.
  apply nth_upd_other. lia.
Qed.

(** proposals() access on the bare list, so that lemmas survive changes of the other state components *)
Definition getp (l : list proposal) (id : Z) : option proposal :=
  if (1 <=? id) && (id <=? Z.of_nat (length l)) then nth_error l (Z.to_nat (id - 1)) else None.

Lemma get_prop_getp g id : get_prop g id = getp (g_props g) id.
Proof. reflexivity. Qed.

Lemma getp_some l id p : getp l id = Some p ->
  1 <= id <= Z.of_nat (length l) /\ nth_error l (Z.to_nat (id - 1)) = Some p.
Proof.
  unfold getp. destruct ((1 <=? id) && (id <=? Z.of_nat (length l))) eqn:E; [|discriminate].
  apply andb_prop in E. destruct E as [A B]. apply Z.leb_le in A, B. auto.
Qed.

Lemma getp_valid l id : 1 <= id <= Z.of_nat (length l) -> exists p, getp l id = Some p.
Proof.
  intros H. unfold getp.
  replace ((1 <=? id) && (id <=? Z.of_nat (length l))) with true
    by (symmetry; apply andb_true_iff; rewrite !Z.leb_le; lia).
  destruct (nth_error l (Z.to_nat (id - 1))) eqn:E; [eauto|].
  apply nth_error_None in E. lia.
Qed.

Lemma getp_upd_same l id p : 1 <= id <= Z.of_nat (length l) -> getp (upd l (Z.to_nat (id - 1)) p) id = Some p.
Proof.
  intros H. unfold getp. rewrite upd_length.
  replace ((1 <=? id) && (id <=? Z.of_nat (length l))) with true
    by (symmetry; apply andb_true_iff; rewrite !Z.leb_le; lia).
  apply nth_upd_same. lia.
Qed.

Lemma getp_upd_other l id id2 p : 1 <= id -> id2 <> id -> getp (upd l (Z.to_nat (id - 1)) p) id2 = getp l id2.
Proof.
  intros H1 Hne. unfold getp. rewrite upd_length.
  destruct ((1 <=? id2) && (id2 <=? Z.of_nat (length l))) eqn:E; [|reflexivity].
  apply andb_prop in E. destruct E as [A B]. apply Z.leb_le in A, B.
  apply nth_upd_other. lia.
Qed.

Lemma getp_app_old l p id q : getp l id = Some q -> getp (l ++ [p]) id = Some q.
Proof.
  intros H. apply getp_some in H. destruct H as [R N]. unfold getp. rewrite app_length. simpl.
  replace ((1 <=? id) && (id <=? Z.of_nat (length l + 1))) with true
    by (symmetry; apply andb_true_iff; rewrite !Z.leb_le; lia).
  rewrite nth_error_app1 by lia. exact N.
Qed.

Lemma getp_app_inv l p id q : getp (l ++ [p]) id = Some q ->
  (getp l id = Some q /\ id <= Z.of_nat (length l)) \/ (id = Z.of_nat (length l) + 1 /\ q = p).
Proof.
  intros H. apply getp_some in H. destruct H as [R N]. rewrite app_length in R. simpl in R.
  destruct (Z_le_gt_dec id (Z.of_nat (length l))) as [L|G].
  - left. split; [|exact L]. rewrite nth_error_app1 in N by lia. unfold getp.
    replace ((1 <=? id) && (id <=? Z.of_nat (length l))) with true
      by (symmetry; apply andb_true_iff; rewrite !Z.leb_le; lia).
    exact N.
  - right. assert (id = Z.of_nat (length l) + 1) by lia. split; [assumption|]. subst id.
    rewrite nth_error_app2 in N by lia.
    replace (Z.to_nat (Z.of_nat (length l) + 1 - 1) - length l)%nat with 0%nat in N by lia.
    simpl in N. congruence.
Qed.

Lemma getp_app_new l p : getp (l ++ [p]) (Z.of_nat (length l) + 1) = Some p.
Proof.
  unfold getp. rewrite app_length. simpl.
  replace ((1 <=? Z.of_nat (length l) + 1) && (Z.of_nat (length l) + 1 <=? Z.of_nat (length l + 1))) with true
    by (symmetry; apply andb_true_iff; rewrite !Z.leb_le; lia).
  rewrite nth_error_app2 by lia.
  replace (Z.to_nat (Z.of_nat (length l) + 1 - 1) - length l)%nat with 0%nat by lia. reflexivity.
Qed.

(** ------------------------------------------------------------------ status: helper facts *)
Lemma status_of_not_none blk p : status_of blk p <> GOV_STATUS_None.
Proof.
  pose proof gov_status_order. unfold status_of.
  repeat match goal with |- context [if ?b then _ else _] => destruct b end; lia.
Qed.

Lemma status_active_started blk p : status_of blk p = GOV_STATUS_Active -> pr_start p + pr_delay p <= blk.
Proof.
  pose proof gov_status_order. unfold status_of.
  destruct (blk <? pr_start p + pr_delay p) eqn:E; [lia|]. apply Z.ltb_ge in E. intros _. exact E.
Qed.

Lemma status_pending_early blk p : status_of blk p = GOV_STATUS_Pending -> blk < pr_start p + pr_delay p.
Proof.
  pose proof gov_status_order. unfold status_of.
  destruct (blk <? pr_start p + pr_delay p) eqn:E; [apply Z.ltb_lt in E; auto|].
  repeat match goal with |- context [if ?b then _ else _] => destruct b end; lia.
Qed.

Lemma view_status_live g id p : get_prop g id = Some p -> pr_live p = true ->
  view_status g id = status_of (g_block g) p.
Proof. intros H L. unfold view_status. rewrite H, L. reflexivity. Qed.

Lemma view_status_not_none g id : view_status g id <> GOV_STATUS_None ->
  exists p, get_prop g id = Some p /\ pr_live p = true /\ view_status g id = status_of (g_block g) p.
Proof.
  unfold view_status. destruct (get_prop g id) as [p|] eqn:E; [|congruence].
  destruct (pr_live p) eqn:L; [|congruence]. intros _. eauto.
Qed.

Lemma view_status_none g id :
  view_status g id = GOV_STATUS_None <-> (forall p, get_prop g id = Some p -> pr_live p = false).
Proof.
  unfold view_status. destruct (get_prop g id) as [p|] eqn:E.
  - destruct (pr_live p) eqn:L.
    + split; [intros H; exfalso; exact (status_of_not_none _ _ H) | intros H; specialize (H p eq_refl); congruence].
    + split; [intros _ q Hq; congruence | reflexivity].
  - split; [intros _ q Hq; discriminate | reflexivity].
Qed.

(** ------------------------------------------------------------------ what an operation leaves alone *)
Definition core (g : gov) :=
  (g_block g, g_props g, g_voted g,
   (g_min_energy g, g_min_fee g, g_quorum g, g_delay g, g_period g, g_wpct g),
   (g_energy g, g_synced g, g_total g)).

Definition same_snapshot (p p' : proposal) : Prop :=
  pr_live p' = pr_live p /\ pr_proposer p' = pr_proposer p /\ pr_fee p' = pr_fee p /\ pr_minq p' = pr_minq p /\
  pr_delay p' = pr_delay p /\ pr_period p' = pr_period p /\ pr_wpct p' = pr_wpct p /\ pr_start p' = pr_start p.

(** ------------------------------------------------------------------ ledger *)
Lemma xfer_spec g s d amt g' : xfer g s d amt = Ok g' ->
  amt <= bal g s /\
  (forall a, bal g' a = bal g a - (if a =? s then amt else 0) + (if a =? d then amt else 0)) /\
  g_burned g' = g_burned g /\ core g' = core g /\
  (NoDup (akeys (g_bal g)) -> NoDup (akeys (g_bal g')) /\ asum (g_bal g') = asum (g_bal g)).
Proof.
  unfold xfer. intros H. inv_ok H. apply sub_chk_ok in Hb. destruct Hb as [Hle ->].
  split; [exact Hle|]. split; [|split; [reflexivity|split; [reflexivity|]]].
  - intros a. unfold bal. simpl.
    destruct (Z.eq_dec a d) as [->|Hd].
    + rewrite aget_aset_same. rewrite Z.eqb_refl.
      destruct (Z.eq_dec d s) as [->|Hs].
      * rewrite aget_aset_same, Z.eqb_refl. lia.
      * rewrite aget_aset_other by congruence.
        destruct (d =? s) eqn:E; [apply Z.eqb_eq in E; contradiction|]. lia.
    + rewrite aget_aset_other by congruence.
      destruct (a =? d) eqn:E; [apply Z.eqb_eq in E; contradiction|].
      destruct (Z.eq_dec a s) as [->|Hs].
      * rewrite aget_aset_same, Z.eqb_refl. lia.
      * rewrite aget_aset_other by congruence.
        destruct (a =? s) eqn:E2; [apply Z.eqb_eq in E2; contradiction|]. lia.
  - intros ND. simpl.
    pose proof (nodup_aset (g_bal g) s (aget (g_bal g) s - amt) ND) as ND1.
    split; [apply nodup_aset; exact ND1|].
    rewrite asum_aset by exact ND1. rewrite asum_aset by exact ND. unfold bal. lia.
Qed.

Lemma burn_spec g amt g' : burn g amt = Ok g' ->
  amt <= bal g SELF /\
  (forall a, bal g' a = bal g a - (if a =? SELF then amt else 0)) /\
  g_burned g' = g_burned g + amt /\ core g' = core g /\
  (NoDup (akeys (g_bal g)) -> NoDup (akeys (g_bal g')) /\ asum (g_bal g') = asum (g_bal g) - amt).
Proof.
  unfold burn. intros H. inv_ok H. apply sub_chk_ok in Hb. destruct Hb as [Hle ->].
  split; [exact Hle|]. split; [|split; [reflexivity|split; [reflexivity|]]].
  - intros a. unfold bal. simpl. destruct (Z.eq_dec a SELF) as [->|Hs].
    + rewrite aget_aset_same, Z.eqb_refl. lia.
    + rewrite aget_aset_other by congruence.
      destruct (a =? SELF) eqn:E; [apply Z.eqb_eq in E; contradiction|]. lia.
  - intros ND. simpl. split; [apply nodup_aset; exact ND|].
    rewrite asum_aset by exact ND. unfold bal. lia.
Qed.

(** ------------------------------------------------------------------ votes *)
Definition tally (p : proposal) (k : Z) : Z :=
  if k =? GOV_VOTE_UpVote then pr_up p
  else if k =? GOV_VOTE_DownVote then pr_down p
  else if k =? GOV_VOTE_DownVetoVote then pr_veto p
  else pr_abstain p.

Lemma add_vote_spec p kind w e : 0 <= kind < GOV_VOTE_COUNT ->
  let p' := add_vote p kind w e in
  (forall k, 0 <= k < GOV_VOTE_COUNT -> tally p' k = tally p k + (if k =? kind then w else 0)) /\
  pr_quorum p' = pr_quorum p + e /\ pr_total p' = pr_total p /\ pr_withdrawn p' = pr_withdrawn p /\
  same_snapshot p p'.
Proof.
  intros Hk. pose proof gov_vote_codes as (C0 & C1 & C2 & C3 & C4). cbv zeta.
  unfold add_vote, tally, same_snapshot. rewrite C0, C1, C2 in *. rewrite C4 in Hk.
  assert (Hcases : kind = 0 \/ kind = 1 \/ kind = 2 \/ kind = 3) by lia.
  destruct Hcases as [-> | [-> | [-> | ->]]]; simpl;
    (split; [intros k Hk'; rewrite C4 in Hk';
             assert (Hc : k = 0 \/ k = 1 \/ k = 2 \/ k = 3) by lia;
             destruct Hc as [-> | [-> | [-> | ->]]]; simpl; lia
            | repeat split; reflexivity]).
Qed.

Lemma has_voted_in g c id : has_voted g c id = true <-> In (c, id) (g_voted g).
Proof.
  unfold has_voted. rewrite existsb_exists. split.
  - intros ([a b] & Hin & He). unfold pair_eqb in He. simpl in He.
    apply andb_prop in He. destruct He as [A B]. apply Z.eqb_eq in A, B. subst. exact Hin.
  - intros Hin. exists (c, id). split; [exact Hin|]. unfold pair_eqb. simpl. rewrite !Z.eqb_refl. reflexivity.
Qed.

Lemma vote_spec g c id kind g' o :
  ep_vote g c id kind = Ok (g', o) ->
  exists p p',
    get_prop g id = Some p /\ pr_live p = true /\
    view_status g id = GOV_STATUS_Active /\ status_of (g_block g) p = GOV_STATUS_Active /\
    has_voted g c id = false /\ has_voted g' c id = true /\
    0 <= kind < GOV_VOTE_COUNT /\ 0 < energy_of g c /\
    get_prop g' id = Some p' /\
    (forall k, 0 <= k < GOV_VOTE_COUNT ->
       tally p' k = tally p k + (if k =? kind then isqrt (energy_of g c) else 0)) /\
    pr_quorum p' = pr_quorum p + energy_of g c /\
    pr_total p' = (if pr_quorum p =? 0 then g_total g else pr_total p) /\
    pr_withdrawn p' = pr_withdrawn p /\ same_snapshot p p' /\
    g_voted g' = g_voted g ++ [(c, id)] /\
    g_props g' = upd (g_props g) (Z.to_nat (id - 1)) p' /\
    (forall id2, id2 <> id -> get_prop g' id2 = get_prop g id2) /\
    g' = put_prop (set_voted g (g_voted g ++ [(c, id)])) id p' /\ o = [].
Proof.
  unfold ep_vote. intros H.
  destruct ((0 <=? kind) && (kind <? GOV_VOTE_COUNT)) eqn:Ek; [|discriminate].
  destruct (valid_id g id) eqn:Ev; [|discriminate].
  destruct (view_status g id =? GOV_STATUS_Active) eqn:Es; [|discriminate].
  destruct (negb (has_voted g c id)) eqn:Eh; [|discriminate].
  destruct (get_prop g id) as [p|] eqn:Ep; [|discriminate].
  destruct (0 <? energy_of g c) eqn:Ee; [|discriminate].
  inversion H; subst; clear H.
  apply andb_prop in Ek. destruct Ek as [K0 K1]. apply Z.leb_le in K0. apply Z.ltb_lt in K1.
  apply valid_id_spec in Ev. apply Z.eqb_eq in Es. apply negb_true_iff in Eh. apply Z.ltb_lt in Ee.
  assert (Hlive : pr_live p = true).
  { unfold view_status in Es. rewrite Ep in Es. destruct (pr_live p); [reflexivity|].
    pose proof gov_status_order. lia. }
  assert (Hst : status_of (g_block g) p = GOV_STATUS_Active).
  { rewrite <- (view_status_live g id p Ep Hlive). exact Es. }
  set (p1 := if pr_quorum p =? 0 then pr_set_total p (g_total g) else p) in *.
  assert (P1 : pr_up p1 = pr_up p /\ pr_down p1 = pr_down p /\ pr_veto p1 = pr_veto p /\ pr_abstain p1 = pr_abstain p /\
               pr_quorum p1 = pr_quorum p /\ pr_withdrawn p1 = pr_withdrawn p /\ same_snapshot p p1 /\
               pr_total p1 = (if pr_quorum p =? 0 then g_total g else pr_total p)).
  { unfold p1, same_snapshot. destruct (pr_quorum p =? 0); simpl; repeat split; reflexivity. }
  destruct P1 as (U1 & D1 & V1 & A1 & Q1 & W1 & S1 & T1).
  pose proof (add_vote_spec p1 kind (isqrt (energy_of g c)) (energy_of g c) (conj K0 K1)) as AV.
  cbv zeta in AV. destruct AV as (AT & AQ & ATot & AW & AS).
  set (p2 := add_vote p1 kind (isqrt (energy_of g c)) (energy_of g c)) in *.
  exists p, p2.
  split; [reflexivity|]. split; [exact Hlive|]. split; [exact Es|]. split; [exact Hst|].
  split; [exact Eh|].
  split. { apply has_voted_in. unfold put_prop. simpl. apply in_or_app. right. left. reflexivity. }
  split; [lia|]. split; [exact Ee|].
  split. { rewrite get_prop_getp. unfold put_prop. simpl. apply getp_upd_same. unfold nprops in Ev. exact Ev. }
  split. { intros k Hk. rewrite (AT k Hk). unfold tally. rewrite U1, D1, V1, A1. reflexivity. }
  split; [lia|]. split; [congruence|]. split; [congruence|].
  split. { unfold same_snapshot in *. intuition congruence. }
  split; [reflexivity|]. split; [reflexivity|].
  split. { intros id2 Hne. rewrite !get_prop_getp. unfold put_prop. simpl. apply getp_upd_other; lia. }
  repeat split; reflexivity.
Qed.

(** the second vote of an address on a proposal is rejected *)
Lemma vote_twice_fails g c id kind : has_voted g c id = true -> is_ok (ep_vote g c id kind) = false.
Proof.
  intros H. unfold ep_vote. rewrite H. simpl.
  destruct ((0 <=? kind) && (kind <? GOV_VOTE_COUNT)); [|reflexivity].
  destruct (valid_id g id); [|reflexivity].
  destruct (view_status g id =? GOV_STATUS_Active); reflexivity.
Qed.

(** votes outside the Active window are rejected *)
Lemma vote_needs_active g c id kind : view_status g id <> GOV_STATUS_Active -> is_ok (ep_vote g c id kind) = false.
Proof.
  intros H. unfold ep_vote.
  destruct ((0 <=? kind) && (kind <? GOV_VOTE_COUNT)); [|reflexivity].
  destruct (valid_id g id); [|reflexivity].
  destruct (view_status g id =? GOV_STATUS_Active) eqn:E; [apply Z.eqb_eq in E; contradiction | reflexivity].
Qed.

(** ------------------------------------------------------------------ propose / cancel / withdraw: decomposition *)
Definition new_proposal (g : gov) (c amt : Z) : proposal :=
  mkProp true c amt (g_quorum g) (g_delay g) (g_period g) (g_wpct g) 0 (g_block g) false 0 0 0 0 0.

Lemma is_sc_false c : is_sc c = false -> c <> SELF /\ c <> SC_CALLER.
Proof.
  unfold is_sc. intros H. apply orb_false_iff in H. destruct H as [A B].
  apply Z.eqb_neq in A, B. auto.
Qed.

Lemma propose_spec g c tok amt nact gas g' o :
  ep_propose g c tok amt nact gas = Ok (g', o) ->
  is_sc c = false /\ tok = FEE_TOK /\ amt = g_min_fee g /\ 0 <= amt /\ g_min_energy g <= energy_of g c /\
  nact <= GOV_MAX_PROPOSAL_ACTIONS /\
  exists g1, xfer g c SELF amt = Ok g1 /\
             g' = set_props g1 (g_props g1 ++ [new_proposal g c amt]) /\ o = [nprops g + 1].
Proof.
  unfold ep_propose. intros H.
  destruct ((0 <=? amt) && (0 <=? nact) && (0 <=? gas)) eqn:E0; [|discriminate].
  destruct (negb (is_sc c)) eqn:E1; [|discriminate].
  destruct (nact <=? GOV_MAX_PROPOSAL_ACTIONS) eqn:E2; [|discriminate].
  destruct (g_min_energy g <=? energy_of g c) eqn:E3; [|discriminate].
  destruct (negb (tok =? NO_PAY)) eqn:E4; [|discriminate].
  destruct (tok =? FEE_TOK) eqn:E5; [|discriminate].
  destruct (g_min_fee g =? amt) eqn:E6; [|discriminate].
  destruct ((nact =? 0) || (gas <? GOV_MAX_GAS_LIMIT_PER_BLOCK)) eqn:E7; [|discriminate].
  destruct (nact * gas <? GOV_MAX_GAS_LIMIT_PER_BLOCK) eqn:E8; [|discriminate].
  apply bind_ok in H. destruct H as (g1 & Hx & H). cbv zeta in H. inversion H; subst; clear H.
  apply andb_prop in E0. destruct E0 as [E0 _]. apply andb_prop in E0. destruct E0 as [E0 _].
  apply Z.leb_le in E0, E2, E3. apply negb_true_iff in E1. apply Z.eqb_eq in E5, E6.
  split; [exact E1|]. split; [exact E5|]. split; [lia|]. split; [exact E0|]. split; [exact E3|]. split; [exact E2|].
  exists g1. split; [exact Hx|].
  pose proof (xfer_spec _ _ _ _ _ Hx) as (_ & _ & _ & Hc & _).
  unfold core in Hc. inversion Hc as [[Hblk Hpr Hvo Hme Hmf Hq Hd Hp Hw He Hs Ht]].
  unfold new_proposal. rewrite Hq, Hd, Hp, Hw, Hblk.
  split; [reflexivity|]. unfold nprops. simpl. rewrite app_length. simpl. rewrite Hpr.
  f_equal. lia.
Qed.

Lemma cancel_spec g c id g' o :
  ep_cancel g c id = Ok (g', o) ->
  exists p g1,
    get_prop g id = Some p /\ pr_live p = true /\
    view_status g id = GOV_STATUS_Pending /\ status_of (g_block g) p = GOV_STATUS_Pending /\
    c = pr_proposer p /\
    xfer g SELF (pr_proposer p) (pr_fee p) = Ok g1 /\ g' = put_prop g1 id pr_cleared /\ o = [].
Proof.
  unfold ep_cancel. intros H. cbv zeta in H.
  destruct (view_status g id =? GOV_STATUS_None) eqn:E0; [discriminate|].
  destruct (view_status g id =? GOV_STATUS_Pending) eqn:E1; [|discriminate].
  apply Z.eqb_neq in E0. apply Z.eqb_eq in E1.
  destruct (view_status_not_none g id E0) as (p & Hp & Hl & Hs).
  rewrite Hp in H.
  destruct (c =? pr_proposer p) eqn:E2; [|discriminate]. apply Z.eqb_eq in E2.
  apply bind_ok in H. destruct H as (g1 & Hx & H). inversion H; subst; clear H.
  exists p, g1. repeat split; auto. congruence.
Qed.

Lemma withdraw_spec g c id g' o :
  ep_withdraw g c id = Ok (g', o) ->
  exists p,
    get_prop g id = Some p /\ pr_live p = true /\ pr_withdrawn p = false /\ o = [] /\
    view_status g id = status_of (g_block g) p /\
    (((status_of (g_block g) p = GOV_STATUS_Succeeded \/ status_of (g_block g) p = GOV_STATUS_Defeated) /\
      c = pr_proposer p /\
      exists g1, xfer g SELF (pr_proposer p) (pr_fee p) = Ok g1 /\ g' = put_prop g1 id (pr_set_withdrawn p))
     \/
     (status_of (g_block g) p = GOV_STATUS_DefeatedWithVeto /\
      let refund := pr_wpct p * pr_fee p / FULL in
      refund <= pr_fee p /\
      exists g1 g2, burn g (pr_fee p - refund) = Ok g1 /\ xfer g1 SELF (pr_proposer p) refund = Ok g2 /\
                    g' = put_prop g2 id (pr_set_withdrawn p))).
Proof.
  unfold ep_withdraw. intros H. cbv zeta in H.
  destruct (view_status g id =? GOV_STATUS_None) eqn:E0; [discriminate|].
  apply Z.eqb_neq in E0.
  destruct (view_status_not_none g id E0) as (p & Hp & Hl & Hs).
  rewrite Hp in H.
  destruct ((view_status g id =? GOV_STATUS_Succeeded) || (view_status g id =? GOV_STATUS_Defeated)) eqn:E1.
  - destruct (c =? pr_proposer p) eqn:E2; [|discriminate]. apply Z.eqb_eq in E2.
    destruct (negb (pr_withdrawn p)) eqn:E3; [|discriminate]. apply negb_true_iff in E3.
    apply bind_ok in H. destruct H as (g1 & Hx & H). inversion H; subst; clear H.
    exists p. split; [exact Hp|]. split; [exact Hl|]. split; [exact E3|]. split; [reflexivity|]. split; [exact Hs|].
    left. split.
    { apply orb_prop in E1. destruct E1 as [E1|E1]; apply Z.eqb_eq in E1; [left|right]; congruence. }
    split; [reflexivity|]. exists g1. auto.
  - destruct (view_status g id =? GOV_STATUS_DefeatedWithVeto) eqn:E4; [|discriminate].
    apply Z.eqb_eq in E4.
    destruct (negb (pr_withdrawn p)) eqn:E3; [|discriminate]. apply negb_true_iff in E3.
    apply bind_ok in H. destruct H as (rem & Hr & H).
    apply bind_ok in H. destruct H as (g1 & Hb & H).
    apply bind_ok in H. destruct H as (g2 & Hx & H). inversion H; subst; clear H.
    apply sub_chk_ok in Hr. destruct Hr as [Hle ->].
    exists p. split; [exact Hp|]. split; [exact Hl|]. split; [exact E3|]. split; [reflexivity|]. split; [exact Hs|].
    right. split; [congruence|]. cbv zeta. split; [exact Hle|]. exists g1, g2. auto.
Qed.

(** ------------------------------------------------------------------ escrow accounting *)
Definition escrowed (p : proposal) : bool := pr_live p && negb (pr_withdrawn p).
Definition esc (p : proposal) : Z := if escrowed p then pr_fee p else 0.
Fixpoint escrow_sum (l : list proposal) : Z :=
  match l with [] => 0 | p :: t => esc p + escrow_sum t end.

(** what the contract holds beyond the fees it owes back *)
Definition excess (g : gov) : Z := bal g SELF - escrow_sum (g_props g).

Lemma escrow_sum_app l p : escrow_sum (l ++ [p]) = escrow_sum l + esc p.
Proof. induction l as [|h t IH]; simpl; lia. Qed.

Lemma escrow_sum_upd l n p p' : nth_error l n = Some p ->
  escrow_sum (upd l n p') = escrow_sum l - esc p + esc p'.
Proof.
  revert n. induction l as [|h t IH]; intros [|n] H; simpl in *; try discriminate.
  - inversion H; subst. lia.
  - rewrite (IH n H). lia.
Qed.

Record PropOk (p : proposal) : Prop := {
  po_wpct : 0 <= pr_wpct p <= FULL;
  po_fee : 0 <= pr_fee p;
  po_period : 0 <= pr_period p;
  po_proposer : pr_live p = true -> is_sc (pr_proposer p) = false
}.

Record GovInv (g : gov) : Prop := {
  gi_props : forall id p, get_prop g id = Some p -> PropOk p;
  gi_wd : forall id p, get_prop g id = Some p -> pr_withdrawn p = true -> pr_start p + pr_delay p <= g_block g;
  gi_nodup : NoDup (akeys (g_bal g));
  gi_wpct : 0 <= g_wpct g <= FULL;
  gi_period : 0 <= g_period g;
  gi_excess : 0 <= excess g
}.

Lemma cleared_ok : PropOk pr_cleared.
Proof. pose proof full_pos. constructor; simpl; try lia; try discriminate. Qed.

(** an operation that leaves the proposals alone *)
Lemma inv_core g g' :
  GovInv g -> g_props g' = g_props g -> g_block g <= g_block g' ->
  0 <= g_wpct g' <= FULL -> 0 <= g_period g' ->
  NoDup (akeys (g_bal g')) -> bal g SELF <= bal g' SELF -> GovInv g'.
Proof.
  intros [] Hp Hb Hw Hpe Hnd Hbal. constructor.
  - intros id p H. rewrite get_prop_getp, Hp in H. eapply gi_props0. rewrite get_prop_getp. exact H.
  - intros id p H W. rewrite get_prop_getp, Hp in H. specialize (gi_wd0 id p H W). lia.
  - exact Hnd.
  - exact Hw.
  - exact Hpe.
  - unfold excess in *. rewrite Hp. lia.
Qed.

(** replacing one proposal *)
Lemma inv_put g g1 id p p' :
  GovInv g -> g_block g1 = g_block g -> g_props g1 = g_props g ->
  g_wpct g1 = g_wpct g -> g_period g1 = g_period g -> NoDup (akeys (g_bal g1)) ->
  get_prop g id = Some p -> PropOk p' ->
  (pr_withdrawn p' = true -> pr_start p' + pr_delay p' <= g_block g) ->
  0 <= bal g1 SELF - (escrow_sum (g_props g) - esc p + esc p') ->
  GovInv (put_prop g1 id p').
Proof.
  intros [] Hblk Hpr Hw Hpe Hnd Hp Hok Hwd Hex.
  rewrite get_prop_getp in Hp. pose proof (getp_some _ _ _ Hp) as [Hr Hn].
  constructor.
  - intros id2 q H. rewrite get_prop_getp in H. unfold put_prop in H. simpl in H. rewrite Hpr in H.
    destruct (Z.eq_dec id2 id) as [->|Hne].
    + rewrite getp_upd_same in H by exact Hr. inversion H; subst. exact Hok.
    + rewrite getp_upd_other in H by lia. eapply gi_props0. rewrite get_prop_getp. exact H.
  - intros id2 q H W. rewrite get_prop_getp in H. unfold put_prop in H. simpl in H. rewrite Hpr in H.
    simpl. rewrite Hblk.
    destruct (Z.eq_dec id2 id) as [->|Hne].
    + rewrite getp_upd_same in H by exact Hr. inversion H; subst. auto.
    + rewrite getp_upd_other in H by lia. eapply gi_wd0; [rewrite get_prop_getp; exact H | exact W].
  - exact Hnd.
  - simpl. lia.
  - simpl. lia.
  - unfold excess. unfold put_prop. simpl. rewrite Hpr.
    rewrite (escrow_sum_upd _ _ p p' Hn). unfold bal in *. simpl. lia.
Qed.

Lemma excess_put g g1 id p p' :
  g_props g1 = g_props g -> get_prop g id = Some p ->
  excess (put_prop g1 id p') = bal g1 SELF - (escrow_sum (g_props g) - esc p + esc p').
Proof.
  intros Hpr Hp. rewrite get_prop_getp in Hp. pose proof (getp_some _ _ _ Hp) as [Hr Hn].
  unfold excess, put_prop. simpl. rewrite Hpr. rewrite (escrow_sum_upd _ _ p p' Hn). reflexivity.
Qed.

Lemma status_final_started blk p : status_of blk p <> GOV_STATUS_Pending -> pr_start p + pr_delay p <= blk.
Proof.
  unfold status_of. destruct (blk <? pr_start p + pr_delay p) eqn:E; [congruence|].
  apply Z.ltb_ge in E. intros _. exact E.
Qed.

Lemma propok_snapshot p p' : PropOk p -> same_snapshot p p' -> PropOk p'.
Proof.
  intros [] (L & P & F & _ & _ & Pe & W & _). constructor; try (rewrite ?W, ?F, ?Pe; assumption).
  rewrite L, P. assumption.
Qed.

Definition donation (op : gop) : Z := match op with Donate _ amt => amt | _ => 0 end.

Ltac core_eqs Hc :=
  unfold core in Hc;
  let Hblk := fresh "Hblk" in let Hpr := fresh "Hpr" in let Hvo := fresh "Hvo" in
  let Hme := fresh "Hme" in let Hmf := fresh "Hmf" in let Hq := fresh "Hq" in let Hd := fresh "Hd" in
  let Hpe := fresh "Hpe" in let Hw := fresh "Hw" in let He := fresh "He" in let Hs := fresh "Hs" in
  let Ht := fresh "Ht" in
  injection Hc as Hblk Hpr Hvo Hme Hmf Hq Hd Hpe Hw He Hs Ht.

(** Every successful operation preserves the invariant, changes the excess only by a donation, and
    conserves the fee token (balances + burned). *)
Lemma step_inv g op g' o :
  step g op = Ok (g', o) -> GovInv g ->
  GovInv g' /\ excess g' = excess g + donation op /\
  asum (g_bal g') + g_burned g' = asum (g_bal g) + g_burned g.
Proof.
  intros H Hinv. pose proof Hinv as [IP IW IN IWp IPe IE]. pose proof full_pos as HF.
  destruct op; simpl in H.
  - (* Propose *)
    apply propose_spec in H. destruct H as (Hsc & -> & Hamt & Ham0 & _ & _ & g1 & Hx & -> & _).
    pose proof (is_sc_false _ Hsc) as [HcS _].
    pose proof (xfer_spec _ _ _ _ _ Hx) as (Hle & Hb & Hbu & Hc & Hnd). specialize (Hnd IN). destruct Hnd as [ND1 AS1].
    core_eqs Hc.
    assert (HbS : bal g1 SELF = bal g SELF + amt).
    { rewrite (Hb SELF). destruct (SELF =? c) eqn:E; [apply Z.eqb_eq in E; congruence|]. rewrite Z.eqb_refl. lia. }
    assert (Hesc : esc (new_proposal g c amt) = amt) by reflexivity.
    split; [|split].
    + constructor.
      * intros id p H. rewrite get_prop_getp in H. simpl in H. rewrite Hpr in H.
        apply getp_app_inv in H. destruct H as [[H _]|[_ ->]].
        -- eapply IP. rewrite get_prop_getp. exact H.
        -- constructor; simpl; try lia. intros _. exact Hsc.
      * intros id p H W. rewrite get_prop_getp in H. simpl in H. rewrite Hpr in H. simpl. rewrite Hblk.
        apply getp_app_inv in H. destruct H as [[H _]|[_ ->]].
        -- eapply IW; [rewrite get_prop_getp; exact H | exact W].
        -- simpl in W. discriminate.
      * exact ND1.
      * simpl. lia.
      * simpl. lia.
      * unfold excess in *. simpl. rewrite Hpr, escrow_sum_app, Hesc. unfold bal in *. simpl. lia.
    + unfold excess in *. simpl. rewrite Hpr, escrow_sum_app, Hesc. unfold bal in *. simpl. lia.
    + simpl. lia.
  - (* Vote *)
    apply vote_spec in H.
    destruct H as (p & p' & Hp & Hl & _ & Hst & _ & _ & _ & _ & _ & _ & _ & _ & HW & HS & _ & _ & _ & -> & _).
    assert (Hesc : esc p' = esc p).
    { unfold esc, escrowed. destruct HS as (L & _ & F & _). rewrite L, HW, F. reflexivity. }
    set (g1 := set_voted g (g_voted g ++ [(c, id)])) in *.
    split; [|split].
    + apply inv_put with (g := g) (p := p); auto.
      * eapply propok_snapshot; [eapply IP; exact Hp | exact HS].
      * intros W. destruct HS as (_ & _ & _ & _ & D & _ & _ & S). rewrite D, S.
        eapply IW; [exact Hp | congruence].
      * rewrite Hesc. unfold excess in IE. unfold g1, bal in *. simpl. lia.
    + rewrite (excess_put g g1 id p p') by auto. rewrite Hesc. unfold excess, g1, bal. simpl. lia.
    + reflexivity.
  - (* Cancel *)
    apply cancel_spec in H. destruct H as (p & g1 & Hp & Hl & _ & Hst & _ & Hx & -> & _).
    pose proof (IP _ _ Hp) as [_ _ _ Hprop]. specialize (Hprop Hl). apply is_sc_false in Hprop. destruct Hprop as [HpS _].
    pose proof (xfer_spec _ _ _ _ _ Hx) as (Hle & Hb & Hbu & Hc & Hnd). specialize (Hnd IN). destruct Hnd as [ND1 AS1].
    core_eqs Hc.
    assert (HbS : bal g1 SELF = bal g SELF - pr_fee p).
    { rewrite (Hb SELF). rewrite Z.eqb_refl.
      destruct (SELF =? pr_proposer p) eqn:E; [apply Z.eqb_eq in E; congruence|]. lia. }
    assert (Hwd : pr_withdrawn p = false).
    { destruct (pr_withdrawn p) eqn:W; [|reflexivity].
      apply status_pending_early in Hst. pose proof (IW _ _ Hp W). lia. }
    assert (Hesc : esc p = pr_fee p) by (unfold esc, escrowed; rewrite Hl, Hwd; reflexivity).
    assert (Hesc' : esc pr_cleared = 0) by reflexivity.
    split; [|split].
    + apply inv_put with (g := g) (p := p); auto.
      * apply cleared_ok.
      * simpl. discriminate.
      * rewrite Hesc, Hesc'. unfold excess in IE. lia.
    + rewrite (excess_put g g1 id p pr_cleared) by auto. rewrite Hesc, Hesc'. unfold excess. cbn [donation]. lia.
    + simpl. rewrite Hpr || idtac. unfold put_prop. simpl. lia.
  - (* Withdraw *)
    apply withdraw_spec in H. destruct H as (p & Hp & Hl & Hwd & _ & _ & Hcase).
    pose proof (IP _ _ Hp) as Hok. pose proof Hok as [_ _ _ Hprop].
    specialize (Hprop Hl). apply is_sc_false in Hprop. destruct Hprop as [HpS _].
    assert (Hesc : esc p = pr_fee p) by (unfold esc, escrowed; rewrite Hl, Hwd; reflexivity).
    assert (Hesc' : esc (pr_set_withdrawn p) = 0).
    { unfold esc, escrowed. simpl. rewrite andb_false_r. reflexivity. }
    assert (Hok' : PropOk (pr_set_withdrawn p)).
    { destruct Hok. constructor; simpl; assumption. }
    pose proof gov_status_order as O.
    destruct Hcase as [(Hst & _ & g1 & Hx & ->) | (Hst & Hcase)].
    + pose proof (xfer_spec _ _ _ _ _ Hx) as (Hle & Hb & Hbu & Hc & Hnd). specialize (Hnd IN). destruct Hnd as [ND1 AS1].
      core_eqs Hc.
      assert (HbS : bal g1 SELF = bal g SELF - pr_fee p).
      { rewrite (Hb SELF). rewrite Z.eqb_refl.
        destruct (SELF =? pr_proposer p) eqn:E; [apply Z.eqb_eq in E; congruence|]. lia. }
      split; [|split].
      * apply inv_put with (g := g) (p := p); auto.
        -- intros _. simpl. apply status_final_started. lia.
        -- rewrite Hesc, Hesc'. unfold excess in IE. lia.
      * rewrite (excess_put g g1 id p _) by auto. rewrite Hesc, Hesc'. unfold excess. cbn [donation]. lia.
      * unfold put_prop. simpl. lia.
    + cbv zeta in Hcase. destruct Hcase as (Hle & g1 & g2 & Hbn & Hx & ->).
      set (refund := pr_wpct p * pr_fee p / FULL) in *. clearbody refund.
      pose proof (burn_spec _ _ _ Hbn) as (Hle1 & Hb1 & Hbu1 & Hc1 & Hnd1). specialize (Hnd1 IN). destruct Hnd1 as [ND1 AS1].
      pose proof (xfer_spec _ _ _ _ _ Hx) as (Hle2 & Hb2 & Hbu2 & Hc2 & Hnd2). specialize (Hnd2 ND1). destruct Hnd2 as [ND2 AS2].
      rewrite Hc1 in Hc2. core_eqs Hc2.
      assert (HbS : bal g2 SELF = bal g SELF - pr_fee p).
      { rewrite (Hb2 SELF), (Hb1 SELF). rewrite Z.eqb_refl.
        destruct (SELF =? pr_proposer p) eqn:E; [apply Z.eqb_eq in E; congruence|]. lia. }
      split; [|split].
      * apply inv_put with (g := g) (p := p); auto.
        -- intros _. simpl. apply status_final_started. lia.
        -- rewrite Hesc, Hesc'. unfold excess in IE. lia.
      * rewrite (excess_put g g2 id p _) by auto. rewrite Hesc, Hesc'. unfold excess. cbn [donation]. lia.
      * unfold put_prop. simpl. lia.
  - (* Block *)
    unfold ep_block in H. destruct (0 <=? d) eqn:E; [|discriminate]. apply Z.leb_le in E.
    inversion H; subst; clear H.
    split; [|split]; [| unfold excess, bal; simpl; lia | simpl; lia].
    apply inv_core with (g := g); unfold bal; simpl; auto; try lia.
  - (* SetEnergy *)
    unfold ep_set_energy in H. destruct (0 <=? e); [|discriminate]. inversion H; subst; clear H.
    split; [|split]; [| unfold excess, bal; simpl; lia | simpl; lia].
    apply inv_core with (g := g); unfold bal; simpl; auto; try lia.
  - (* Sync *)
    unfold ep_sync in H. apply bind_ok in H. destruct H as (t & _ & H). inversion H; subst; clear H.
    split; [|split]; [| unfold excess, bal; simpl; lia | simpl; lia].
    apply inv_core with (g := g); unfold bal; simpl; auto; try lia.
  - (* Donate *)
    unfold ep_donate in H. destruct ((0 <? amt) && negb (c =? SELF)) eqn:E; [|discriminate].
    apply bind_ok in H. destruct H as (g1 & Hx & H). inversion H; subst; clear H.
    apply andb_prop in E. destruct E as [E1 E2]. apply Z.ltb_lt in E1. apply negb_true_iff in E2. apply Z.eqb_neq in E2.
    pose proof (xfer_spec _ _ _ _ _ Hx) as (Hle & Hb & Hbu & Hc & Hnd). specialize (Hnd IN). destruct Hnd as [ND1 AS1].
    core_eqs Hc.
    assert (HbS : bal g' SELF = bal g SELF + amt).
    { rewrite (Hb SELF). rewrite Z.eqb_refl. destruct (SELF =? c) eqn:E; [apply Z.eqb_eq in E; congruence|]. lia. }
    split; [|split].
    + apply inv_core with (g := g); auto; try lia.
    + unfold excess. rewrite Hpr. simpl. lia.
    + lia.
  - (* ChangeMinEnergy *)
    unfold ep_change_min_energy in H. destruct (only_owner c); [|discriminate]. destruct (0 <=? v); [|discriminate].
    inversion H; subst; clear H.
    split; [|split]; [| unfold excess, bal; simpl; lia | simpl; lia].
    apply inv_core with (g := g); unfold bal; simpl; auto; try lia.
  - (* ChangeMinFee *)
    unfold ep_change_min_fee in H. destruct (only_owner c); [|discriminate]. destruct (ok_min_fee v); [|discriminate].
    inversion H; subst; clear H.
    split; [|split]; [| unfold excess, bal; simpl; lia | simpl; lia].
    apply inv_core with (g := g); unfold bal; simpl; auto; try lia.
  - (* ChangeQuorum *)
    unfold ep_change_quorum in H. destruct (only_owner c); [|discriminate]. destruct (ok_quorum v); [|discriminate].
    inversion H; subst; clear H.
    split; [|split]; [| unfold excess, bal; simpl; lia | simpl; lia].
    apply inv_core with (g := g); unfold bal; simpl; auto; try lia.
  - (* ChangeWithdrawPct *)
    unfold ep_change_wpct in H. destruct (only_owner c); [|discriminate]. destruct (ok_wpct v) eqn:E; [|discriminate].
    inversion H; subst; clear H.
    unfold ok_wpct in E. apply andb_prop in E. destruct E as [E1 E2]. apply Z.leb_le in E1, E2.
    split; [|split]; [| unfold excess, bal; simpl; lia | simpl; lia].
    apply inv_core with (g := g); unfold bal; simpl; auto; try lia.
  - (* ChangeDelay *)
    unfold ep_change_delay in H. destruct (only_owner c); [|discriminate]. destruct (ok_delay v); [|discriminate].
    inversion H; subst; clear H.
    split; [|split]; [| unfold excess, bal; simpl; lia | simpl; lia].
    apply inv_core with (g := g); unfold bal; simpl; auto; try lia.
  - (* ChangePeriod *)
    unfold ep_change_period in H. destruct (only_owner c); [|discriminate]. destruct (ok_period v) eqn:E; [|discriminate].
    inversion H; subst; clear H.
    unfold ok_period in E. apply andb_prop in E. destruct E as [E1 E2]. apply Z.leb_le in E1.
    pose proof gov_cfg_bounds as (_ & B & _).
    split; [|split]; [| unfold excess, bal; simpl; lia | simpl; lia].
    apply inv_core with (g := g); unfold bal; simpl; auto; try lia.
Qed.

(** ------------------------------------------------------------------ reachable states *)
Definition cfg_ok (w p : Z) : Prop := 0 <= w <= FULL /\ 0 <= p.

Lemma init_inv me mf q d p w blk bals :
  cfg_ok w p -> NoDup (akeys bals) -> 0 <= aget bals SELF -> GovInv (init_gov me mf q d p w blk bals).
Proof.
  intros [Hw Hp] Hnd Hb. constructor; simpl; auto.
  - intros id x H. rewrite get_prop_getp in H. simpl in H. apply getp_some in H. simpl in H. lia.
  - intros id x H. rewrite get_prop_getp in H. simpl in H. apply getp_some in H. simpl in H. lia.
  - unfold excess, bal. simpl. lia.
Qed.

Lemma step_total_inv g op : GovInv g -> GovInv (step_total g op).
Proof.
  intros H. unfold step_total. destruct (step g op) as [[g' o]|] eqn:E; [|exact H].
  exact (proj1 (step_inv _ _ _ _ E H)).
Qed.

Lemma run_inv ops : forall g, GovInv g -> GovInv (run g ops).
Proof.
  unfold run. induction ops as [|op t IH]; intros g H; simpl; [exact H|].
  apply IH. apply step_total_inv. exact H.
Qed.

(** the fee token is conserved along every history *)
Lemma run_conserved ops : forall g, GovInv g ->
  asum (g_bal (run g ops)) + g_burned (run g ops) = asum (g_bal g) + g_burned g.
Proof.
  unfold run. induction ops as [|op t IH]; intros g H; simpl; [reflexivity|].
  rewrite IH by (apply step_total_inv; exact H).
  unfold step_total. destruct (step g op) as [[g' o]|] eqn:E; [|reflexivity].
  exact (proj2 (proj2 (step_inv _ _ _ _ E H))).
Qed.

(** donations received along a history *)
Fixpoint donated (g : gov) (ops : list gop) : Z :=
  match ops with
  | [] => 0
  | op :: t => match step g op with
               | Ok (g', _) => donation op + donated g' t
               | Err _ => donated g t
               end
  end.

(** contract balance = un-withdrawn fees + donations, along every history *)
Lemma run_excess ops : forall g, GovInv g -> excess (run g ops) = excess g + donated g ops.
Proof.
  unfold run. induction ops as [|op t IH]; intros g H; simpl; [lia|].
  unfold step_total. destruct (step g op) as [[g' o]|] eqn:E.
  - pose proof (step_inv _ _ _ _ E H) as (I' & Ex & _). rewrite IH by exact I'. lia.
  - apply IH. exact H.
Qed.

(** ------------------------------------------------------------------ the fee leaves escrow: exact amounts *)
Definition is_floor (q n d : Z) : Prop := q * d <= n < (q + 1) * d.

Lemma bal_put g id p a : bal (put_prop g id p) a = bal g a.
Proof. reflexivity. Qed.

Lemma cancel_fee g c id g' o : GovInv g -> ep_cancel g c id = Ok (g', o) ->
  exists p, get_prop g id = Some p /\ escrowed p = true /\
    view_status g id = GOV_STATUS_Pending /\ g_block g < pr_start p + pr_delay p /\
    c = pr_proposer p /\
    bal g' SELF = bal g SELF - pr_fee p /\
    bal g' (pr_proposer p) = bal g (pr_proposer p) + pr_fee p /\
    (forall a, a <> SELF -> a <> pr_proposer p -> bal g' a = bal g a) /\
    g_burned g' = g_burned g /\
    get_prop g' id = Some pr_cleared /\ view_status g' id = GOV_STATUS_None /\
    (forall id2, id2 <> id -> get_prop g' id2 = get_prop g id2).
Proof.
  intros Hinv H. pose proof Hinv as [IP IW IN IWp IPe IE].
  apply cancel_spec in H. destruct H as (p & g1 & Hp & Hl & Hvs & Hst & Hc & Hx & -> & _).
  pose proof (IP _ _ Hp) as [_ _ _ Hprop]. specialize (Hprop Hl). apply is_sc_false in Hprop. destruct Hprop as [HpS _].
  pose proof (xfer_spec _ _ _ _ _ Hx) as (Hle & Hb & Hbu & Hco & _).
  core_eqs Hco.
  pose proof (status_pending_early _ _ Hst) as Hearly.
  assert (Hwd : pr_withdrawn p = false).
  { destruct (pr_withdrawn p) eqn:W; [|reflexivity]. pose proof (IW _ _ Hp W). lia. }
  pose proof Hp as Hp0. rewrite get_prop_getp in Hp0. pose proof (getp_some _ _ _ Hp0) as [Hr Hn].
  assert (Hget : get_prop (put_prop g1 id pr_cleared) id = Some pr_cleared).
  { rewrite get_prop_getp. unfold put_prop. simpl. rewrite Hpr. apply getp_upd_same. exact Hr. }
  exists p. split; [exact Hp|]. split; [unfold escrowed; rewrite Hl, Hwd; reflexivity|].
  split; [exact Hvs|]. split; [exact Hearly|]. split; [exact Hc|].
  split. { rewrite bal_put, (Hb SELF), Z.eqb_refl.
           destruct (SELF =? pr_proposer p) eqn:E; [apply Z.eqb_eq in E; congruence|]. lia. }
  split. { rewrite bal_put, (Hb (pr_proposer p)), Z.eqb_refl.
           destruct (pr_proposer p =? SELF) eqn:E; [apply Z.eqb_eq in E; congruence|]. lia. }
  split. { intros a A1 A2. rewrite bal_put, (Hb a).
           destruct (a =? SELF) eqn:E1; [apply Z.eqb_eq in E1; congruence|].
           destruct (a =? pr_proposer p) eqn:E2; [apply Z.eqb_eq in E2; congruence|]. lia. }
  split; [exact Hbu|]. split; [exact Hget|].
  split. { apply view_status_none. intros q0 Hq0. rewrite Hget in Hq0. inversion Hq0; subst. reflexivity. }
  intros id2 Hne. rewrite !get_prop_getp. unfold put_prop. simpl. rewrite Hpr. apply getp_upd_other; lia.
Qed.

Lemma withdraw_fee g c id g' o : GovInv g -> ep_withdraw g c id = Ok (g', o) ->
  exists p refund, get_prop g id = Some p /\ escrowed p = true /\
    view_status g id = status_of (g_block g) p /\
    (((status_of (g_block g) p = GOV_STATUS_Succeeded \/ status_of (g_block g) p = GOV_STATUS_Defeated) /\
      c = pr_proposer p /\ refund = pr_fee p)
     \/ (status_of (g_block g) p = GOV_STATUS_DefeatedWithVeto /\ is_floor refund (pr_wpct p * pr_fee p) FULL)) /\
    0 <= refund <= pr_fee p /\
    bal g' SELF = bal g SELF - pr_fee p /\
    bal g' (pr_proposer p) = bal g (pr_proposer p) + refund /\
    (forall a, a <> SELF -> a <> pr_proposer p -> bal g' a = bal g a) /\
    g_burned g' = g_burned g + (pr_fee p - refund) /\
    get_prop g' id = Some (pr_set_withdrawn p) /\
    (forall id2, id2 <> id -> get_prop g' id2 = get_prop g id2).
Proof.
  intros Hinv H. pose proof Hinv as [IP IW IN IWp IPe IE]. pose proof full_pos as HF.
  apply withdraw_spec in H. destruct H as (p & Hp & Hl & Hwd & _ & Hvs & Hcase).
  pose proof (IP _ _ Hp) as [Hw Hfee _ Hprop]. specialize (Hprop Hl). apply is_sc_false in Hprop. destruct Hprop as [HpS _].
  assert (Hesc : escrowed p = true) by (unfold escrowed; rewrite Hl, Hwd; reflexivity).
  pose proof Hp as Hp0. rewrite get_prop_getp in Hp0. pose proof (getp_some _ _ _ Hp0) as [Hr Hn].
  destruct Hcase as [(Hst & Hc & g1 & Hx & ->) | (Hst & Hcase)].
  - pose proof (xfer_spec _ _ _ _ _ Hx) as (Hle & Hb & Hbu & Hco & _). core_eqs Hco.
    exists p, (pr_fee p). split; [exact Hp|]. split; [exact Hesc|]. split; [exact Hvs|].
    split; [left; auto|]. split; [lia|].
    split. { rewrite bal_put, (Hb SELF), Z.eqb_refl.
             destruct (SELF =? pr_proposer p) eqn:E; [apply Z.eqb_eq in E; congruence|]. lia. }
    split. { rewrite bal_put, (Hb (pr_proposer p)), Z.eqb_refl.
             destruct (pr_proposer p =? SELF) eqn:E; [apply Z.eqb_eq in E; congruence|]. lia. }
    split. { intros a A1 A2. rewrite bal_put, (Hb a).
             destruct (a =? SELF) eqn:E1; [apply Z.eqb_eq in E1; congruence|].
             destruct (a =? pr_proposer p) eqn:E2; [apply Z.eqb_eq in E2; congruence|]. lia. }
    split. { unfold put_prop. simpl. lia. }
    split. { rewrite get_prop_getp. unfold put_prop. simpl. rewrite Hpr. apply getp_upd_same. exact Hr. }
    intros id2 Hne. rewrite !get_prop_getp. unfold put_prop. simpl. rewrite Hpr. apply getp_upd_other; lia.
  - cbv zeta in Hcase. destruct Hcase as (Hle & g1 & g2 & Hbn & Hx & ->).
    pose proof (div_lo (pr_wpct p * pr_fee p) FULL HF) as DL.
    pose proof (div_hi (pr_wpct p * pr_fee p) FULL HF) as DH.
    assert (R0 : 0 <= pr_wpct p * pr_fee p / FULL) by (apply div_nonneg; [nia | exact HF]).
    set (refund := pr_wpct p * pr_fee p / FULL) in *. clearbody refund.
    pose proof (burn_spec _ _ _ Hbn) as (Hle1 & Hb1 & Hbu1 & Hc1 & _).
    pose proof (xfer_spec _ _ _ _ _ Hx) as (Hle2 & Hb2 & Hbu2 & Hc2 & _).
    rewrite Hc1 in Hc2. core_eqs Hc2.
    exists p, refund. split; [exact Hp|]. split; [exact Hesc|]. split; [exact Hvs|].
    split; [right; split; [exact Hst | unfold is_floor; lia]|]. split; [lia|].
    split. { rewrite bal_put, (Hb2 SELF), (Hb1 SELF), Z.eqb_refl.
             destruct (SELF =? pr_proposer p) eqn:E; [apply Z.eqb_eq in E; congruence|]. lia. }
    split. { rewrite bal_put, (Hb2 (pr_proposer p)), (Hb1 (pr_proposer p)), Z.eqb_refl.
             destruct (pr_proposer p =? SELF) eqn:E; [apply Z.eqb_eq in E; congruence|]. lia. }
    split. { intros a A1 A2. rewrite bal_put, (Hb2 a), (Hb1 a).
             destruct (a =? SELF) eqn:E1; [apply Z.eqb_eq in E1; congruence|].
             destruct (a =? pr_proposer p) eqn:E2; [apply Z.eqb_eq in E2; congruence|]. lia. }
    split. { unfold put_prop. simpl. lia. }
    split. { rewrite get_prop_getp. unfold put_prop. simpl. rewrite Hpr. apply getp_upd_same. exact Hr. }
    intros id2 Hne. rewrite !get_prop_getp. unfold put_prop. simpl. rewrite Hpr. apply getp_upd_other; lia.
Qed.

(** a withdrawn or cancelled fee cannot be taken again *)
Lemma withdraw_needs_escrow g c id p :
  get_prop g id = Some p -> escrowed p = false -> is_ok (ep_withdraw g c id) = false.
Proof.
  intros Hp He. destruct (ep_withdraw g c id) as [[g' o]|] eqn:E; [|reflexivity]. exfalso.
  apply withdraw_spec in E. destruct E as (q & Hq & Hl & Hw & _). rewrite Hp in Hq. inversion Hq; subst.
  unfold escrowed in He. rewrite Hl, Hw in He. discriminate.
Qed.

Lemma cancel_needs_escrow g c id p : GovInv g ->
  get_prop g id = Some p -> escrowed p = false -> is_ok (ep_cancel g c id) = false.
Proof.
  intros Hinv Hp He. destruct (ep_cancel g c id) as [[g' o]|] eqn:E; [|reflexivity]. exfalso.
  apply (cancel_fee _ _ _ _ _ Hinv) in E. destruct E as (q & Hq & Hesc & _). rewrite Hp in Hq. inversion Hq; subst.
  congruence.
Qed.

(** ------------------------------------------------------------------ the escrow flag is one-way *)
(** Proposals never disappear from the list, an escrow flag that is down stays down, and while a
    proposal is live its fee, proposer and snapshots never change. *)
Lemma escrow_one_way g op g' o : step g op = Ok (g', o) -> GovInv g ->
  forall id p, get_prop g id = Some p ->
  exists p', get_prop g' id = Some p' /\
    (escrowed p = false -> escrowed p' = false) /\
    (pr_live p' = true -> same_snapshot p p') /\
    (escrowed p = true -> escrowed p' = false ->
       op = Cancel (pr_proposer p) id \/ exists c, op = Withdraw c id).
Proof.
  intros H Hinv id p Hp.
  assert (Hsame : forall q, same_snapshot q q) by (intros; unfold same_snapshot; tauto).
  assert (Hkeep : g_props g' = g_props g ->
          exists p', get_prop g' id = Some p' /\ (escrowed p = false -> escrowed p' = false) /\
            (pr_live p' = true -> same_snapshot p p') /\
            (escrowed p = true -> escrowed p' = false ->
               op = Cancel (pr_proposer p) id \/ exists c, op = Withdraw c id)).
  { intros E. exists p. split; [rewrite get_prop_getp, E; exact Hp|]. split; [auto|]. split; [auto|]. congruence. }
  destruct op; simpl in H.
  - (* Propose *)
    apply propose_spec in H. destruct H as (_ & _ & _ & _ & _ & _ & g1 & Hx & -> & _).
    pose proof (xfer_spec _ _ _ _ _ Hx) as (_ & _ & _ & Hc & _). core_eqs Hc.
    exists p. split.
    { rewrite get_prop_getp. simpl. rewrite Hpr. apply getp_app_old. exact Hp. }
    split; [auto|]. split; [auto|]. congruence.
  - (* Vote *)
    apply vote_spec in H.
    destruct H as (q & q' & Hq & Hl & _ & _ & _ & _ & _ & _ & Hq' & _ & _ & _ & HW & HS & _ & _ & Hoth & _ & _).
    destruct (Z.eq_dec id id0) as [->|Hne].
    + rewrite Hq in Hp. inversion Hp; subst q. exists q'. split; [exact Hq'|].
      assert (Hesc : escrowed q' = escrowed p).
      { unfold escrowed. destruct HS as (L & _). rewrite L, HW. reflexivity. }
      split; [congruence|]. split; [auto|]. congruence.
    + exists p. split; [rewrite (Hoth id Hne); exact Hp|]. split; [auto|]. split; [auto|]. congruence.
  - (* Cancel *)
    pose proof (cancel_fee _ _ _ _ _ Hinv H) as (q & Hq & Hesc & _ & _ & Hc & _ & _ & _ & _ & Hget & _ & Hoth).
    destruct (Z.eq_dec id id0) as [->|Hne].
    + rewrite Hq in Hp. inversion Hp; subst q. exists pr_cleared. split; [exact Hget|].
      split; [reflexivity|]. split; [simpl; discriminate|]. intros _ _. left. congruence.
    + exists p. split; [rewrite (Hoth id Hne); exact Hp|]. split; [auto|]. split; [auto|]. congruence.
  - (* Withdraw *)
    pose proof (withdraw_fee _ _ _ _ _ Hinv H) as (q & r & Hq & Hesc & _ & _ & _ & _ & _ & _ & _ & Hget & Hoth).
    destruct (Z.eq_dec id id0) as [->|Hne].
    + rewrite Hq in Hp. inversion Hp; subst q. exists (pr_set_withdrawn p). split; [exact Hget|].
      split; [congruence|]. split; [intros _; unfold same_snapshot; simpl; tauto|]. intros _ _. right. eauto.
    + exists p. split; [rewrite (Hoth id Hne); exact Hp|]. split; [auto|]. split; [auto|]. congruence.
  - unfold ep_block in H. destruct (0 <=? d); [|discriminate]. inversion H; subst. apply Hkeep. reflexivity.
  - unfold ep_set_energy in H. destruct (0 <=? e); [|discriminate]. inversion H; subst. apply Hkeep. reflexivity.
  - unfold ep_sync in H. apply bind_ok in H. destruct H as (t & _ & H). inversion H; subst. apply Hkeep. reflexivity.
  - unfold ep_donate in H. destruct ((0 <? amt) && negb (c =? SELF)); [|discriminate].
    apply bind_ok in H. destruct H as (g1 & Hx & H). inversion H; subst.
    pose proof (xfer_spec _ _ _ _ _ Hx) as (_ & _ & _ & Hc & _). core_eqs Hc. apply Hkeep. assumption.
  - unfold ep_change_min_energy in H. destruct (only_owner c); [|discriminate]. destruct (0 <=? v); [|discriminate].
    inversion H; subst. apply Hkeep. reflexivity.
  - unfold ep_change_min_fee in H. destruct (only_owner c); [|discriminate]. destruct (ok_min_fee v); [|discriminate].
    inversion H; subst. apply Hkeep. reflexivity.
  - unfold ep_change_quorum in H. destruct (only_owner c); [|discriminate]. destruct (ok_quorum v); [|discriminate].
    inversion H; subst. apply Hkeep. reflexivity.
  - unfold ep_change_wpct in H. destruct (only_owner c); [|discriminate]. destruct (ok_wpct v); [|discriminate].
    inversion H; subst. apply Hkeep. reflexivity.
  - unfold ep_change_delay in H. destruct (only_owner c); [|discriminate]. destruct (ok_delay v); [|discriminate].
    inversion H; subst. apply Hkeep. reflexivity.
  - unfold ep_change_period in H. destruct (only_owner c); [|discriminate]. destruct (ok_period v); [|discriminate].
    inversion H; subst. apply Hkeep. reflexivity.
Qed.

(** nothing but cancel / withdrawDeposit takes the fee token out of the contract or burns it *)
Lemma outflow_only g op g' o : step g op = Ok (g', o) ->
  (forall c id, op <> Cancel c id) -> (forall c id, op <> Withdraw c id) ->
  bal g SELF <= bal g' SELF /\ g_burned g' = g_burned g.
Proof.
  intros H NC NW. destruct op; simpl in H.
  - apply propose_spec in H. destruct H as (Hsc & _ & _ & Ha & _ & _ & g1 & Hx & -> & _).
    apply is_sc_false in Hsc. destruct Hsc as [HcS _].
    pose proof (xfer_spec _ _ _ _ _ Hx) as (_ & Hb & Hbu & _). split; [|exact Hbu].
    change (bal g SELF <= bal g1 SELF). rewrite (Hb SELF), Z.eqb_refl.
    destruct (SELF =? c) eqn:E; [apply Z.eqb_eq in E; congruence|]. lia.
  - apply vote_spec in H.
    destruct H as (q & q' & _ & _ & _ & _ & _ & _ & _ & _ & _ & _ & _ & _ & _ & _ & _ & _ & _ & -> & _).
    unfold bal. simpl. split; [lia | reflexivity].
  - exfalso. eapply NC. reflexivity.
  - exfalso. eapply NW. reflexivity.
  - unfold ep_block in H. destruct (0 <=? d); [|discriminate]. inversion H; subst. unfold bal; simpl. split; [lia|reflexivity].
  - unfold ep_set_energy in H. destruct (0 <=? e); [|discriminate]. inversion H; subst. unfold bal; simpl. split; [lia|reflexivity].
  - unfold ep_sync in H. apply bind_ok in H. destruct H as (t & _ & H). inversion H; subst. unfold bal; simpl. split; [lia|reflexivity].
  - unfold ep_donate in H. destruct ((0 <? amt) && negb (c =? SELF)) eqn:E; [|discriminate].
    apply bind_ok in H. destruct H as (g1 & Hx & H). inversion H; subst.
    apply andb_prop in E. destruct E as [E1 E2]. apply Z.ltb_lt in E1. apply negb_true_iff in E2. apply Z.eqb_neq in E2.
    pose proof (xfer_spec _ _ _ _ _ Hx) as (_ & Hb & Hbu & _). split; [|exact Hbu].
    rewrite (Hb SELF), Z.eqb_refl. destruct (SELF =? c) eqn:E; [apply Z.eqb_eq in E; congruence|]. lia.
  - unfold ep_change_min_energy in H. destruct (only_owner c); [|discriminate]. destruct (0 <=? v); [|discriminate].
    inversion H; subst. unfold bal; simpl. split; [lia|reflexivity].
  - unfold ep_change_min_fee in H. destruct (only_owner c); [|discriminate]. destruct (ok_min_fee v); [|discriminate].
    inversion H; subst. unfold bal; simpl. split; [lia|reflexivity].
  - unfold ep_change_quorum in H. destruct (only_owner c); [|discriminate]. destruct (ok_quorum v); [|discriminate].
    inversion H; subst. unfold bal; simpl. split; [lia|reflexivity].
  - unfold ep_change_wpct in H. destruct (only_owner c); [|discriminate]. destruct (ok_wpct v); [|discriminate].
    inversion H; subst. unfold bal; simpl. split; [lia|reflexivity].
  - unfold ep_change_delay in H. destruct (only_owner c); [|discriminate]. destruct (ok_delay v); [|discriminate].
    inversion H; subst. unfold bal; simpl. split; [lia|reflexivity].
  - unfold ep_change_period in H. destruct (only_owner c); [|discriminate]. destruct (ok_period v); [|discriminate].
    inversion H; subst. unfold bal; simpl. split; [lia|reflexivity].
Qed.

(** ------------------------------------------------------------------ one vote per address: tallies are sums over single ballots *)
(** a ballot: (voter, proposal id, kind, the voter's energy when the vote was cast) *)
Definition ballot := (Z * Z * Z * Z)%type.
Definition b_key (b : ballot) : Z * Z := match b with (c, i, _, _) => (c, i) end.

Fixpoint sum_power (log : list ballot) (id k : Z) : Z :=
  match log with
  | [] => 0
  | (_, i, kd, e) :: t => (if (i =? id) && (kd =? k) then isqrt e else 0) + sum_power t id k
  end.

Fixpoint sum_energy (log : list ballot) (id : Z) : Z :=
  match log with
  | [] => 0
  | (_, i, _, e) :: t => (if i =? id then e else 0) + sum_energy t id
  end.

Definition ballot_of (g : gov) (op : gop) : list ballot :=
  match op with Vote c id k => [(c, id, k, energy_of g c)] | _ => [] end.

(** the successful votes of a history, in order *)
Fixpoint ballots (g : gov) (ops : list gop) : list ballot :=
  match ops with
  | [] => []
  | op :: t => match step g op with
               | Ok (g', _) => ballot_of g op ++ ballots g' t
               | Err _ => ballots g t
               end
  end.

Lemma sum_power_app l1 l2 id k : sum_power (l1 ++ l2) id k = sum_power l1 id k + sum_power l2 id k.
Proof. induction l1 as [|[[[c i] kd] e] t IH]; simpl; [lia | rewrite IH; lia]. Qed.

Lemma sum_energy_app l1 l2 id : sum_energy (l1 ++ l2) id = sum_energy l1 id + sum_energy l2 id.
Proof. induction l1 as [|[[[c i] kd] e] t IH]; simpl; [lia | rewrite IH; lia]. Qed.

Lemma sums_none log id : (forall c, ~ In (c, id) (map b_key log)) ->
  (forall k, sum_power log id k = 0) /\ sum_energy log id = 0.
Proof.
  induction log as [|[[[c i] kd] e] t IH]; simpl; intros H; [split; auto|].
  assert (Hi : i <> id) by (intros ->; apply (H c); left; reflexivity).
  destruct (i =? id) eqn:E; [apply Z.eqb_eq in E; contradiction|]. simpl.
  destruct IH as [IH1 IH2]; [intros c' Hin; apply (H c'); right; exact Hin|].
  split; [intros k; rewrite IH1; lia | lia].
Qed.

Lemma NoDup_app_one {A} (l : list A) (x : A) : NoDup l -> ~ In x l -> NoDup (l ++ [x]).
Proof.
  induction l as [|h t IH]; simpl; intros ND Hn.
  - constructor; [intros [] | constructor].
  - inversion ND; subst. constructor.
    + intros Hin. apply in_app_or in Hin. destruct Hin as [Hin|[->|[]]]; [contradiction | apply Hn; left; reflexivity].
    + apply IH; [assumption | intros Hin; apply Hn; right; exact Hin].
Qed.

Record VoteInv (g : gov) (log : list ballot) : Prop := {
  vi_keys : map b_key log = g_voted g;
  vi_nodup : NoDup (g_voted g);
  vi_tally : forall id p, get_prop g id = Some p -> pr_live p = true ->
             (forall k, 0 <= k < GOV_VOTE_COUNT -> tally p k = sum_power log id k) /\
             pr_quorum p = sum_energy log id;
  vi_started : forall c id, In (c, id) (g_voted g) ->
               exists p, get_prop g id = Some p /\ pr_live p = true /\ pr_start p + pr_delay p <= g_block g
}.

Lemma vinv_frame g g' log :
  VoteInv g log -> g_props g' = g_props g -> g_voted g' = g_voted g -> g_block g <= g_block g' -> VoteInv g' log.
Proof.
  intros [] Hp Hv Hb. constructor.
  - congruence.
  - congruence.
  - intros id p H. rewrite get_prop_getp, Hp in H. apply vi_tally0. exact H.
  - intros c id Hin. rewrite Hv in Hin. destruct (vi_started0 c id Hin) as (p & A & B & C).
    exists p. split; [rewrite get_prop_getp, Hp; exact A|]. split; [exact B | lia].
Qed.

(** replacing proposal [id] by [p'] which either keeps its tallies, or is dead and had no votes *)
Lemma vinv_put g g1 log id p p' :
  VoteInv g log -> g_props g1 = g_props g -> g_voted g1 = g_voted g -> g_block g1 = g_block g ->
  get_prop g id = Some p ->
  (pr_live p' = true ->
     pr_live p = true /\ (forall k, tally p' k = tally p k) /\ pr_quorum p' = pr_quorum p /\
     pr_start p' = pr_start p /\ pr_delay p' = pr_delay p) ->
  (pr_live p' = false -> forall c, ~ In (c, id) (g_voted g)) ->
  VoteInv (put_prop g1 id p') log.
Proof.
  intros [] Hp Hv Hb Hget Hlive Hdead.
  rewrite get_prop_getp in Hget. pose proof (getp_some _ _ _ Hget) as [Hr Hn].
  constructor.
  - simpl. congruence.
  - simpl. congruence.
  - intros id2 q H L. rewrite get_prop_getp in H. unfold put_prop in H. simpl in H. rewrite Hp in H.
    destruct (Z.eq_dec id2 id) as [->|Hne].
    + rewrite getp_upd_same in H by exact Hr. inversion H; subst q.
      destruct (Hlive L) as (Lp & Ht & Hq & _). destruct (vi_tally0 id p Hget Lp) as [T Q].
      split; [intros k Hk; rewrite Ht; apply T; exact Hk | congruence].
    + rewrite getp_upd_other in H by lia. apply vi_tally0; assumption.
  - intros c id2 Hin. simpl in Hin. rewrite Hv in Hin.
    destruct (vi_started0 c id2 Hin) as (q & A & B & C).
    destruct (Z.eq_dec id2 id) as [->|Hne].
    + rewrite get_prop_getp in A. rewrite Hget in A. inversion A; subst q.
      destruct (pr_live p') eqn:L.
      * destruct (Hlive eq_refl) as (_ & _ & _ & S & D).
        exists p'. split; [rewrite get_prop_getp; unfold put_prop; simpl; rewrite Hp; apply getp_upd_same; exact Hr|].
        split; [exact L|]. simpl. rewrite Hb. lia.
      * exfalso. exact (Hdead eq_refl c Hin).
    + exists q. split; [rewrite get_prop_getp; unfold put_prop; simpl; rewrite Hp; rewrite getp_upd_other by lia; exact A|].
      split; [exact B|]. simpl. rewrite Hb. exact C.
Qed.

Lemma vinv_step g op g' o log :
  step g op = Ok (g', o) -> VoteInv g log -> VoteInv g' (log ++ ballot_of g op).
Proof.
  intros H Hinv.
  assert (Hkeep : g_props g' = g_props g -> g_voted g' = g_voted g -> g_block g <= g_block g' ->
                  ballot_of g op = [] -> VoteInv g' (log ++ ballot_of g op)).
  { intros A B C D. rewrite D, app_nil_r. eapply vinv_frame; eauto. }
  destruct op; simpl in H.
  - (* Propose *)
    apply propose_spec in H. destruct H as (_ & _ & _ & _ & _ & _ & g1 & Hx & -> & _).
    pose proof (xfer_spec _ _ _ _ _ Hx) as (_ & _ & _ & Hc & _). core_eqs Hc.
    simpl. rewrite app_nil_r. destruct Hinv as [K N T S]. constructor.
    + simpl. congruence.
    + simpl. congruence.
    + intros id p H L. rewrite get_prop_getp in H. simpl in H. rewrite Hpr in H.
      apply getp_app_inv in H. destruct H as [[H _]|[-> ->]].
      * apply T; assumption.
      * (* the new id has no ballots *)
        assert (Hno : forall c', ~ In (c', Z.of_nat (length (g_props g)) + 1) (map b_key log)).
        { intros c' Hin. rewrite K in Hin. destruct (S _ _ Hin) as (q & A & _).
          rewrite get_prop_getp in A. apply getp_some in A. lia. }
        destruct (sums_none _ _ Hno) as [S1 S2].
        split; [|rewrite S2; reflexivity].
        intros k Hk. rewrite S1. pose proof gov_vote_codes as (C0 & C1 & C2 & C3 & C4).
        unfold tally, new_proposal. simpl. repeat match goal with |- context [if ?b then _ else _] => destruct b end; reflexivity.
    + intros c' id Hin. simpl in Hin. rewrite Hvo in Hin. destruct (S _ _ Hin) as (q & A & B & C).
      exists q. split; [rewrite get_prop_getp; simpl; rewrite Hpr; apply getp_app_old; exact A|].
      split; [exact B|]. simpl. rewrite Hblk. exact C.
  - (* Vote *)
    apply vote_spec in H.
    destruct H as (p & p' & Hp & Hl & _ & Hst & Hnv & _ & Hk & He & Hp' & HT & HQ & _ & _ & HS & _ & _ & Hoth & -> & _).
    simpl. destruct Hinv as [K N T S].
    assert (Hnin : ~ In (c, id) (g_voted g)).
    { intros Hin. apply has_voted_in in Hin. congruence. }
    pose proof Hp as Hp0. rewrite get_prop_getp in Hp0. pose proof (getp_some _ _ _ Hp0) as [Hr Hn].
    destruct HS as (L' & _ & _ & _ & D' & _ & _ & S').
    constructor.
    + simpl. rewrite map_app. simpl. congruence.
    + simpl. apply NoDup_app_one; assumption.
    + intros id2 q H L. destruct (Z.eq_dec id2 id) as [->|Hne].
      * rewrite Hp' in H. inversion H; subst q.
        destruct (T id p Hp Hl) as [T1 T2]. split.
        -- intros k Hkk. rewrite sum_power_app. simpl. rewrite Z.eqb_refl. simpl.
           rewrite (HT k Hkk), (T1 k Hkk). rewrite (Z.eqb_sym kind k). lia.
        -- rewrite sum_energy_app. simpl. rewrite Z.eqb_refl. lia.
      * rewrite (Hoth id2 Hne) in H. destruct (T id2 q H L) as [T1 T2]. split.
        -- intros k Hkk. rewrite sum_power_app. simpl.
           destruct (id =? id2) eqn:E; [apply Z.eqb_eq in E; congruence|]. simpl. rewrite (T1 k Hkk). lia.
        -- rewrite sum_energy_app. simpl.
           destruct (id =? id2) eqn:E; [apply Z.eqb_eq in E; congruence|]. lia.
    + intros c' id2 Hin. simpl in Hin. apply in_app_or in Hin.
      assert (Hblk : g_block (put_prop (set_voted g (g_voted g ++ [(c, id)])) id p') = g_block g) by reflexivity.
      rewrite Hblk.
      destruct (Z.eq_dec id2 id) as [->|Hne].
      * exists p'. split; [exact Hp'|]. split; [congruence|]. rewrite S', D'.
        apply status_active_started. exact Hst.
      * destruct Hin as [Hin|[Hin|[]]]; [|inversion Hin; congruence].
        destruct (S _ _ Hin) as (q & A & B & C). exists q. rewrite (Hoth id2 Hne). auto.
  - (* Cancel *)
    apply cancel_spec in H. destruct H as (p & g1 & Hp & Hl & _ & Hst & _ & Hx & -> & _).
    pose proof (xfer_spec _ _ _ _ _ Hx) as (_ & _ & _ & Hc & _). core_eqs Hc.
    simpl. rewrite app_nil_r. apply vinv_put with (g := g) (p := p); auto.
    + simpl. discriminate.
    + intros _ c' Hin. destruct Hinv as [K N T S]. destruct (S _ _ Hin) as (q & A & _ & C).
      rewrite Hp in A. inversion A; subst q. apply status_pending_early in Hst. lia.
  - (* Withdraw *)
    apply withdraw_spec in H. destruct H as (p & Hp & Hl & Hwd & _ & _ & Hcase).
    simpl. rewrite app_nil_r.
    destruct Hcase as [(_ & _ & g1 & Hx & ->) | (_ & Hcase)].
    + pose proof (xfer_spec _ _ _ _ _ Hx) as (_ & _ & _ & Hc & _). core_eqs Hc.
      apply vinv_put with (g := g) (p := p); auto.
      simpl. congruence.
    + cbv zeta in Hcase. destruct Hcase as (_ & g1 & g2 & Hbn & Hx & ->).
      pose proof (burn_spec _ _ _ Hbn) as (_ & _ & _ & Hc1 & _).
      pose proof (xfer_spec _ _ _ _ _ Hx) as (_ & _ & _ & Hc2 & _). rewrite Hc1 in Hc2. core_eqs Hc2.
      apply vinv_put with (g := g) (p := p); auto.
      simpl. congruence.
  - unfold ep_block in H. destruct (0 <=? d) eqn:E; [|discriminate]. apply Z.leb_le in E. inversion H; subst.
    apply Hkeep; simpl; auto; lia.
  - unfold ep_set_energy in H. destruct (0 <=? e); [|discriminate]. inversion H; subst. apply Hkeep; simpl; auto; lia.
  - unfold ep_sync in H. apply bind_ok in H. destruct H as (t & _ & H). inversion H; subst. apply Hkeep; simpl; auto; lia.
  - unfold ep_donate in H. destruct ((0 <? amt) && negb (c =? SELF)); [|discriminate].
    apply bind_ok in H. destruct H as (g1 & Hx & H). inversion H; subst.
    pose proof (xfer_spec _ _ _ _ _ Hx) as (_ & _ & _ & Hc & _). core_eqs Hc. apply Hkeep; auto; lia.
  - unfold ep_change_min_energy in H. destruct (only_owner c); [|discriminate]. destruct (0 <=? v); [|discriminate].
    inversion H; subst. apply Hkeep; simpl; auto; lia.
  - unfold ep_change_min_fee in H. destruct (only_owner c); [|discriminate]. destruct (ok_min_fee v); [|discriminate].
    inversion H; subst. apply Hkeep; simpl; auto; lia.
  - unfold ep_change_quorum in H. destruct (only_owner c); [|discriminate]. destruct (ok_quorum v); [|discriminate].
    inversion H; subst. apply Hkeep; simpl; auto; lia.
  - unfold ep_change_wpct in H. destruct (only_owner c); [|discriminate]. destruct (ok_wpct v); [|discriminate].
    inversion H; subst. apply Hkeep; simpl; auto; lia.
  - unfold ep_change_delay in H. destruct (only_owner c); [|discriminate]. destruct (ok_delay v); [|discriminate].
    inversion H; subst. apply Hkeep; simpl; auto; lia.
  - unfold ep_change_period in H. destruct (only_owner c); [|discriminate]. destruct (ok_period v); [|discriminate].
    inversion H; subst. apply Hkeep; simpl; auto; lia.
Qed.

Lemma init_vinv me mf q d p w blk bals : VoteInv (init_gov me mf q d p w blk bals) [].
Proof.
  constructor; simpl.
  - reflexivity.
  - constructor.
  - intros id x H. rewrite get_prop_getp in H. simpl in H. apply getp_some in H. simpl in H. lia.
  - intros c id [].
Qed.

Lemma run_vinv ops : forall g log, VoteInv g log -> VoteInv (run g ops) (log ++ ballots g ops).
Proof.
  unfold run. induction ops as [|op t IH]; intros g log H; simpl.
  - rewrite app_nil_r. exact H.
  - unfold step_total. destruct (step g op) as [[g' o]|] eqn:E.
    + rewrite app_assoc. apply IH. eapply vinv_step; eauto.
    + apply IH. exact H.
Qed.

(** Along every history from deployment: no address appears twice on the same proposal among the
    successful votes, and every live proposal's tallies are exactly the sums over those ballots of
    floor-sqrt(energy) per kind, its quorum the sum of the energies. *)
Lemma history_votes me mf q d p w blk bals ops :
  let g0 := init_gov me mf q d p w blk bals in
  let log := ballots g0 ops in
  NoDup (map b_key log) /\
  map b_key log = g_voted (run g0 ops) /\
  forall id x, get_prop (run g0 ops) id = Some x -> pr_live x = true ->
    (forall k, 0 <= k < GOV_VOTE_COUNT -> tally x k = sum_power log id k) /\
    pr_quorum x = sum_energy log id.
Proof.
  cbv zeta. pose proof (run_vinv ops _ _ (init_vinv me mf q d p w blk bals)) as [K N T S].
  simpl in *. split; [rewrite K; exact N|]. split; [exact K|]. exact T.
Qed.

(** once an address has voted on a proposal, that stays recorded for ever *)
Lemma voted_step g op g' o c id : step g op = Ok (g', o) -> has_voted g c id = true -> has_voted g' c id = true.
Proof.
  intros H Hv. apply has_voted_in in Hv. apply has_voted_in.
  destruct op; simpl in H.
  - apply propose_spec in H. destruct H as (_ & _ & _ & _ & _ & _ & g1 & Hx & -> & _).
    pose proof (xfer_spec _ _ _ _ _ Hx) as (_ & _ & _ & Hc & _). core_eqs Hc. simpl. congruence.
  - apply vote_spec in H.
    destruct H as (q & q' & _ & _ & _ & _ & _ & _ & _ & _ & _ & _ & _ & _ & _ & _ & Hvo & _).
    rewrite Hvo. apply in_or_app. left. exact Hv.
  - apply cancel_spec in H. destruct H as (p & g1 & _ & _ & _ & _ & _ & Hx & -> & _).
    pose proof (xfer_spec _ _ _ _ _ Hx) as (_ & _ & _ & Hc & _). core_eqs Hc. simpl. congruence.
  - apply withdraw_spec in H. destruct H as (p & _ & _ & _ & _ & _ & Hcase).
    destruct Hcase as [(_ & _ & g1 & Hx & ->) | (_ & Hcase)].
    + pose proof (xfer_spec _ _ _ _ _ Hx) as (_ & _ & _ & Hc & _). core_eqs Hc. simpl. congruence.
    + cbv zeta in Hcase. destruct Hcase as (_ & g1 & g2 & Hbn & Hx & ->).
      pose proof (burn_spec _ _ _ Hbn) as (_ & _ & _ & Hc1 & _).
      pose proof (xfer_spec _ _ _ _ _ Hx) as (_ & _ & _ & Hc2 & _). rewrite Hc1 in Hc2. core_eqs Hc2.
      simpl. congruence.
  - unfold ep_block in H. destruct (0 <=? d); [|discriminate]. inversion H; subst. exact Hv.
  - unfold ep_set_energy in H. destruct (0 <=? e); [|discriminate]. inversion H; subst. exact Hv.
  - unfold ep_sync in H. apply bind_ok in H. destruct H as (t & _ & H). inversion H; subst. exact Hv.
  - unfold ep_donate in H. destruct ((0 <? amt) && negb (c0 =? SELF)); [|discriminate].
    apply bind_ok in H. destruct H as (g1 & Hx & H). inversion H; subst.
    pose proof (xfer_spec _ _ _ _ _ Hx) as (_ & _ & _ & Hc & _). core_eqs Hc. congruence.
  - unfold ep_change_min_energy in H. destruct (only_owner c0); [|discriminate]. destruct (0 <=? v); [|discriminate].
    inversion H; subst. exact Hv.
  - unfold ep_change_min_fee in H. destruct (only_owner c0); [|discriminate]. destruct (ok_min_fee v); [|discriminate].
    inversion H; subst. exact Hv.
  - unfold ep_change_quorum in H. destruct (only_owner c0); [|discriminate]. destruct (ok_quorum v); [|discriminate].
    inversion H; subst. exact Hv.
  - unfold ep_change_wpct in H. destruct (only_owner c0); [|discriminate]. destruct (ok_wpct v); [|discriminate].
    inversion H; subst. exact Hv.
  - unfold ep_change_delay in H. destruct (only_owner c0); [|discriminate]. destruct (ok_delay v); [|discriminate].
    inversion H; subst. exact Hv.
  - unfold ep_change_period in H. destruct (only_owner c0); [|discriminate]. destruct (ok_period v); [|discriminate].
    inversion H; subst. exact Hv.
Qed.

Lemma voted_run ops : forall g c id, has_voted g c id = true -> has_voted (run g ops) c id = true.
Proof.
  unfold run. induction ops as [|op t IH]; intros g c id H; simpl; [exact H|].
  apply IH. unfold step_total. destruct (step g op) as [[g' o]|] eqn:E; [|exact H].
  eapply voted_step; eauto.
Qed.

(** whatever happens after an address voted on a proposal, its second vote on it is rejected *)
Lemma never_votes_twice g c id k1 g1 o1 ops k2 :
  ep_vote g c id k1 = Ok (g1, o1) -> is_ok (ep_vote (run g1 ops) c id k2) = false.
Proof.
  intros H. apply vote_twice_fails. apply voted_run.
  apply vote_spec in H. destruct H as (p & p' & _ & _ & _ & _ & _ & Hv & _). exact Hv.
Qed.

(** same for the fee: once the escrow flag of a proposal is down it stays down along every history,
    so neither cancel nor withdrawDeposit can succeed on it again *)
Lemma escrow_down_run ops : forall g id p, GovInv g -> get_prop g id = Some p -> escrowed p = false ->
  exists p', get_prop (run g ops) id = Some p' /\ escrowed p' = false.
Proof.
  unfold run. induction ops as [|op t IH]; intros g id p Hinv Hp He; simpl; [eauto|].
  unfold step_total. destruct (step g op) as [[g' o]|] eqn:E.
  - destruct (escrow_one_way _ _ _ _ E Hinv id p Hp) as (p' & Hp' & Hd & _).
    apply (IH g' id p'); auto. exact (proj1 (step_inv _ _ _ _ E Hinv)).
  - apply (IH g id p); auto.
Qed.

Lemma fee_never_leaves_twice g id p ops c : GovInv g -> get_prop g id = Some p -> escrowed p = false ->
  is_ok (ep_cancel (run g ops) c id) = false /\ is_ok (ep_withdraw (run g ops) c id) = false.
Proof.
  intros Hinv Hp He. destruct (escrow_down_run ops g id p Hinv Hp He) as (p' & Hp' & He').
  split; [eapply cancel_needs_escrow; eauto; apply run_inv; exact Hinv | eapply withdraw_needs_escrow; eauto].
Qed.

(** ------------------------------------------------------------------ rejections and availability *)
Lemma cancel_rejected g c id : GovInv g ->
  (view_status g id <> GOV_STATUS_Pending \/ exists p, get_prop g id = Some p /\ c <> pr_proposer p) ->
  is_ok (ep_cancel g c id) = false.
Proof.
  intros Hinv Hr. destruct (ep_cancel g c id) as [[g' o]|] eqn:E; [|reflexivity]. exfalso.
  apply (cancel_fee _ _ _ _ _ Hinv) in E. destruct E as (q & Hq & _ & Hst & _ & Hc & _).
  destruct Hr as [Hr|(p & Hp & Hne)]; [contradiction|]. rewrite Hq in Hp. inversion Hp; subst. contradiction.
Qed.

Lemma withdraw_rejected g c id : GovInv g ->
  ((view_status g id <> GOV_STATUS_Succeeded /\ view_status g id <> GOV_STATUS_Defeated /\
    view_status g id <> GOV_STATUS_DefeatedWithVeto)
   \/ (view_status g id <> GOV_STATUS_DefeatedWithVeto /\ exists p, get_prop g id = Some p /\ c <> pr_proposer p)) ->
  is_ok (ep_withdraw g c id) = false.
Proof.
  intros Hinv Hr. destruct (ep_withdraw g c id) as [[g' o]|] eqn:E; [|reflexivity]. exfalso.
  apply (withdraw_fee _ _ _ _ _ Hinv) in E. destruct E as (q & r & Hq & _ & Hvs & Hcase & _).
  rewrite <- Hvs in Hcase.
  destruct Hr as [(A & B & C)|(A & p & Hp & Hne)].
  - destruct Hcase as [([H|H] & _)|(H & _)]; contradiction.
  - rewrite Hq in Hp. inversion Hp; subst.
    destruct Hcase as [(_ & Hc & _)|(H & _)]; contradiction.
Qed.

Lemma esc_nonneg p : 0 <= pr_fee p -> 0 <= esc p.
Proof. unfold esc. destruct (escrowed p); lia. Qed.

Lemma escrow_sum_ge l : (forall n q, nth_error l n = Some q -> 0 <= pr_fee q) ->
  0 <= escrow_sum l /\ forall n p, nth_error l n = Some p -> esc p <= escrow_sum l.
Proof.
  induction l as [|h t IH]; intros Hf; simpl.
  - split; [lia|]. intros [|n] p H; discriminate.
  - assert (Hh : 0 <= pr_fee h) by (apply (Hf 0%nat); reflexivity).
    destruct IH as [I0 I1]; [intros n q Hq; apply (Hf (S n)); exact Hq|].
    pose proof (esc_nonneg h Hh) as He0.
    split; [lia|]. intros [|n] p Hn; simpl in Hn.
    + inversion Hn; subst. lia.
    + specialize (I1 n p Hn). lia.
Qed.

Lemma inv_fees_nonneg g : GovInv g -> forall n q, nth_error (g_props g) n = Some q -> 0 <= pr_fee q.
Proof.
  intros Hinv n q H.
  assert (Hlt : (n < length (g_props g))%nat) by (apply nth_error_Some; congruence).
  assert (Hg : get_prop g (Z.of_nat n + 1) = Some q).
  { rewrite get_prop_getp. unfold getp.
    replace ((1 <=? Z.of_nat n + 1) && (Z.of_nat n + 1 <=? Z.of_nat (length (g_props g)))) with true
      by (symmetry; apply andb_true_iff; rewrite !Z.leb_le; lia).
    replace (Z.to_nat (Z.of_nat n + 1 - 1)) with n by lia. exact H. }
  exact (po_fee _ (gi_props _ Hinv _ _ Hg)).
Qed.

(** the contract always holds the fee of every proposal still in escrow *)
Lemma escrow_backed g id p : GovInv g -> get_prop g id = Some p -> escrowed p = true -> pr_fee p <= bal g SELF.
Proof.
  intros Hinv Hp He. pose proof (gi_excess _ Hinv) as Hex. unfold excess in Hex.
  rewrite get_prop_getp in Hp. apply getp_some in Hp. destruct Hp as [_ Hn].
  destruct (escrow_sum_ge (g_props g) (inv_fees_nonneg g Hinv)) as [_ Hge].
  specialize (Hge _ _ Hn). unfold esc in Hge. rewrite He in Hge. lia.
Qed.

(** ... so the refund paths cannot fail: a pending proposal can be cancelled by its proposer, *)
Lemma cancel_succeeds g id p : GovInv g -> get_prop g id = Some p -> pr_live p = true ->
  status_of (g_block g) p = GOV_STATUS_Pending -> is_ok (ep_cancel g (pr_proposer p) id) = true.
Proof.
  intros Hinv Hp Hl Hst. pose proof gov_status_order as O.
  assert (Hwd : pr_withdrawn p = false).
  { destruct (pr_withdrawn p) eqn:W; [|reflexivity]. pose proof (gi_wd _ Hinv _ _ Hp W).
    apply status_pending_early in Hst. lia. }
  assert (Hb : pr_fee p <= bal g SELF).
  { apply (escrow_backed g id p Hinv Hp). unfold escrowed. rewrite Hl, Hwd. reflexivity. }
  unfold ep_cancel. rewrite (view_status_live g id p Hp Hl), Hst. cbv zeta.
  destruct (GOV_STATUS_Pending =? GOV_STATUS_None) eqn:E0; [apply Z.eqb_eq in E0; lia|].
  rewrite Z.eqb_refl, Hp, Z.eqb_refl.
  unfold xfer, sub_chk. destruct (bal g SELF <? pr_fee p) eqn:E; [apply Z.ltb_lt in E; lia|]. reflexivity.
Qed.

(** ... and a decided proposal's fee can be withdrawn (by the proposer; on veto by anyone) *)
Lemma withdraw_succeeds g c id p : GovInv g -> get_prop g id = Some p -> escrowed p = true ->
  ((status_of (g_block g) p = GOV_STATUS_Succeeded \/ status_of (g_block g) p = GOV_STATUS_Defeated) /\ c = pr_proposer p
   \/ status_of (g_block g) p = GOV_STATUS_DefeatedWithVeto) ->
  is_ok (ep_withdraw g c id) = true.
Proof.
  intros Hinv Hp He Hst. pose proof gov_status_order as O. pose proof full_pos as HF.
  unfold escrowed in He. apply andb_prop in He. destruct He as [Hl Hwd]. apply negb_true_iff in Hwd.
  assert (Hb : pr_fee p <= bal g SELF).
  { apply (escrow_backed g id p Hinv Hp). unfold escrowed. rewrite Hl, Hwd. reflexivity. }
  pose proof (gi_props _ Hinv _ _ Hp) as [Hw Hfee _ _].
  unfold ep_withdraw. rewrite (view_status_live g id p Hp Hl). cbv zeta.
  destruct (status_of (g_block g) p =? GOV_STATUS_None) eqn:E0;
    [apply Z.eqb_eq in E0; exfalso; exact (status_of_not_none _ _ E0)|].
  destruct Hst as [([Hs|Hs] & ->)|Hs]; rewrite Hs.
  - rewrite Z.eqb_refl. simpl. rewrite Hp, Z.eqb_refl, Hwd. simpl.
    unfold xfer, sub_chk. destruct (bal g SELF <? pr_fee p) eqn:E; [apply Z.ltb_lt in E; lia|]. reflexivity.
  - destruct (GOV_STATUS_Defeated =? GOV_STATUS_Succeeded) eqn:E1; [apply Z.eqb_eq in E1; lia|].
    rewrite Z.eqb_refl. simpl. rewrite Hp, Z.eqb_refl, Hwd. simpl.
    unfold xfer, sub_chk. destruct (bal g SELF <? pr_fee p) eqn:E; [apply Z.ltb_lt in E; lia|]. reflexivity.
  - destruct (GOV_STATUS_DefeatedWithVeto =? GOV_STATUS_Succeeded) eqn:E1; [apply Z.eqb_eq in E1; lia|].
    destruct (GOV_STATUS_DefeatedWithVeto =? GOV_STATUS_Defeated) eqn:E2; [apply Z.eqb_eq in E2; lia|].
    cbn [orb]. rewrite Z.eqb_refl, Hp, Hwd. cbn [negb].
    assert (R0 : 0 <= pr_wpct p * pr_fee p / FULL) by (apply div_nonneg; [nia | exact HF]).
    assert (R1 : pr_wpct p * pr_fee p / FULL <= pr_fee p).
    { apply Z.div_le_upper_bound; [exact HF | nia]. }
    set (refund := pr_wpct p * pr_fee p / FULL) in *. clearbody refund.
    unfold sub_chk at 1. destruct (pr_fee p <? refund) eqn:E3; [apply Z.ltb_lt in E3; lia|]. simpl.
    unfold burn, sub_chk. destruct (bal g SELF <? pr_fee p - refund) eqn:E4; [apply Z.ltb_lt in E4; lia|]. simpl.
    unfold xfer, sub_chk, bal. simpl. rewrite aget_aset_same.
    destruct (aget (g_bal g) SELF - (pr_fee p - refund) <? refund) eqn:E5;
      [apply Z.ltb_lt in E5; unfold bal in Hb; lia|]. reflexivity.
Qed.

(** ------------------------------------------------------------------ statements used by Props/C18.v *)
Lemma status_documented g id p : GovInv g -> get_prop g id = Some p -> pr_live p = true ->
  let blk := g_block g in
  let vs := pr_start p + pr_delay p in
  let ve := vs + pr_period p in
  let s := view_status g id in
  (s = GOV_STATUS_Pending <-> blk < vs) /\
  (s = GOV_STATUS_Active <-> vs <= blk < ve) /\
  (s = GOV_STATUS_Succeeded <-> ve <= blk /\ quorum_ok p /\ up_exceeds_half p /\ ~ veto_exceeds_third p) /\
  (s = GOV_STATUS_DefeatedWithVeto <-> ve <= blk /\ veto_exceeds_third p) /\
  (s = GOV_STATUS_Defeated <-> ve <= blk /\ ~ veto_exceeds_third p /\ ~ (quorum_ok p /\ up_exceeds_half p)) /\
  s <> GOV_STATUS_None.
Proof.
  intros Hinv Hp Hl. cbv zeta. rewrite (view_status_live g id p Hp Hl).
  apply status_char. exact (po_period _ (gi_props _ Hinv _ _ Hp)).
Qed.

Lemma reach_inv me mf q d p w blk bals ops :
  cfg_ok w p -> NoDup (akeys bals) -> 0 <= aget bals SELF ->
  GovInv (run (init_gov me mf q d p w blk bals) ops).
Proof. intros. apply run_inv. apply init_inv; assumption. Qed.

Lemma reach_escrow me mf q d p w blk bals ops :
  cfg_ok w p -> NoDup (akeys bals) -> aget bals SELF = 0 ->
  let g0 := init_gov me mf q d p w blk bals in
  bal (run g0 ops) SELF = escrow_sum (g_props (run g0 ops)) + donated g0 ops /\
  asum (g_bal (run g0 ops)) + g_burned (run g0 ops) = asum bals.
Proof.
  intros Hc Hn Hb. cbv zeta.
  assert (Hi : GovInv (init_gov me mf q d p w blk bals)) by (apply init_inv; auto; lia).
  pose proof (run_excess ops _ Hi) as He. pose proof (run_conserved ops _ Hi) as Hs.
  unfold excess in He. simpl in *. unfold bal in He at 2. simpl in He. split; lia.
Qed.

(** propose: exactly the configured fee moves from the proposer into the contract; the new proposal
    gets the next id, snapshots the current configuration and block, and starts with empty tallies *)
Lemma propose_fee g c tok amt nact gas g' o :
  ep_propose g c tok amt nact gas = Ok (g', o) ->
  is_sc c = false /\ tok = FEE_TOK /\ amt = g_min_fee g /\ g_min_energy g <= energy_of g c /\
  o = [nprops g + 1] /\
  get_prop g' (nprops g + 1) = Some (new_proposal g c amt) /\
  (forall id p, get_prop g id = Some p -> get_prop g' id = Some p) /\
  bal g' SELF = bal g SELF + amt /\ bal g' c = bal g c - amt /\
  (forall a, a <> SELF -> a <> c -> bal g' a = bal g a) /\
  g_burned g' = g_burned g /\ g_voted g' = g_voted g.
Proof.
  intros H. apply propose_spec in H. destruct H as (Hsc & Ht & Ha & _ & He & _ & g1 & Hx & -> & Ho).
  pose proof (is_sc_false _ Hsc) as [HcS _].
  pose proof (xfer_spec _ _ _ _ _ Hx) as (_ & Hb & Hbu & Hc & _). core_eqs Hc.
  split; [exact Hsc|]. split; [exact Ht|]. split; [exact Ha|]. split; [exact He|]. split; [exact Ho|].
  split. { rewrite get_prop_getp. simpl. rewrite Hpr. unfold nprops. apply getp_app_new. }
  split. { intros id p Hp. rewrite get_prop_getp. simpl. rewrite Hpr. apply getp_app_old. exact Hp. }
  split. { change (bal g1 SELF = bal g SELF + amt). rewrite (Hb SELF), Z.eqb_refl.
           destruct (SELF =? c) eqn:E; [apply Z.eqb_eq in E; congruence|]. lia. }
  split. { change (bal g1 c = bal g c - amt). rewrite (Hb c), Z.eqb_refl.
           destruct (c =? SELF) eqn:E; [apply Z.eqb_eq in E; congruence|]. lia. }
  split. { intros a A1 A2. change (bal g1 a = bal g a). rewrite (Hb a).
           destruct (a =? c) eqn:E1; [apply Z.eqb_eq in E1; congruence|].
           destruct (a =? SELF) eqn:E2; [apply Z.eqb_eq in E2; congruence|]. lia. }
  split; [exact Hbu | exact Hvo].
Qed.
