(** Proofs about Model/MetaBehalf.v: the on-behalf endpoints of farm-staking-proxy.
      1  the compositions: what a successful stakeFarmOnBehalf / claimDualYieldOnBehalf is made of
      2  every C15 invariant (backing of every outstanding dual-yield nonce, fungible balances 0, parts <= whole)
         over histories that mix ordinary, transfer, hub and on-behalf operations
      3  characterisation: who must have authorised whom, whose positions, who gets the rewards, who holds the new token
      4  failure: unauthorised / foreign-owner / mismatching-owner calls fail and leave the state unchanged;
         revoked and blacklisted agents over histories
      5  interface law L8 (a farm token returned for original caller x records x) on the callee models
    As in Proofs/MetaStakingProofs.v everything is relative to the environment interface: the farms' and the pair's
    answers are arguments of the operations and only their non-negativity is assumed. *)
From MX Require Import Base.Prelude Gen.Params Model.MetaStaking Proofs.MetaStakingProofs Model.MetaBehalf.
From MX Require Model.Access Proofs.AccessProofs.
From MX Require Model.Farm Proofs.FarmInv Model.Staking Model.StakingPos Proofs.StakingPosProofs.

(** ================================================================== 1. the compositions *)
Definition xfer_ops (src dst : Z) (ps : list pay) : list mop := map (fun p => Xfer src dst (p_nonce p) (p_amt p)) ps.

Lemma step_total_ok s op s' o cs : step s op = Ok (s', o, cs) -> step_total s op = s'.
Proof. intros H. unfold step_total. rewrite H. reflexivity. Qed.

Lemma run_app s l1 l2 : run s (l1 ++ l2) = run (run s l1) l2.
Proof. unfold run. apply fold_left_app. Qed.

Lemma xfer_all_run ps : forall s src dst s1, xfer_all s src dst ps = Ok s1 -> s1 = run s (xfer_ops src dst ps).
Proof.
  induction ps as [|p t IH]; intros s src dst s1 H; simpl in H.
  - inversion H. reflexivity.
  - apply bind_ok in H. destruct H as ([[s0 o] cs] & H0 & H). simpl in H.
    apply IH in H. subst s1. unfold xfer_ops, run. cbn [map fold_left].
    assert (E : step_total s (Xfer src dst (p_nonce p) (p_amt p)) = s0) by (unfold step_total; simpl; rewrite H0; reflexivity).
    rewrite E. reflexivity.
Qed.

Lemma xfer_all_inv ps : forall s src dst s1, xfer_all s src dst ps = Ok s1 ->
  (Inv s -> Inv s1) /\ same_back s s1 /\ s_fung s1 = s_fung s.
Proof.
  induction ps as [|p t IH]; intros s src dst s1 H; simpl in H.
  - inversion H; subst. split; [auto|]. split; [apply same_back_refl | reflexivity].
  - apply bind_ok in H. destruct H as ([[s0 o] cs] & H0 & H). simpl in H.
    destruct (IH _ _ _ _ H) as (I & B & Fu). pose proof (xfer_back _ _ _ _ _ _ _ _ H0) as (B0 & F0 & _).
    split; [|split].
    + intros K. apply I. apply (step_inv s (Xfer src dst (p_nonce p) (p_amt p)) s0 o cs); [exact H0 | reflexivity | exact K].
    + eapply same_back_trans; eassumption.
    + congruence.
Qed.

Lemma xfer_ops_nonneg src dst ps : wf_ops (xfer_ops src dst ps).
Proof. induction ps; simpl; constructor; auto. Qed.

(** owners_all = every payment's underlying positions record the user *)
Lemma owners_all_spec s u ps : owners_all s u ps = Ok tt <-> Forall (fun p => underlying_owner s p = Ok u) ps.
Proof.
  induction ps as [|p t IH]; simpl; [split; auto|]. split.
  - intros H. apply bind_ok in H. destruct H as (o & Ho & H).
    destruct (o =? u) eqn:E; [|discriminate]. apply Z.eqb_eq in E. subst o.
    constructor; [exact Ho | apply IH; exact H].
  - intros H. inversion H; subst. rewrite H2. simpl. rewrite Z.eqb_refl. apply IH. exact H3.
Qed.

Lemma underlying_owner_spec s p u : underlying_owner s p = Ok u ->
  p_tok p = TK_DY /\ exists a part, find_attr (s_attrs (mb_s s)) (p_nonce p) = Some a /\ dy_part a (p_amt p) = Ok part /\
    lpo s (d_lpn a) = u /\ sfo s (d_sfn a) = u /\ u <> 0.
Proof.
  unfold underlying_owner. intros H.
  destruct (p_tok p =? TK_DY) eqn:Et; [|discriminate]. apply Z.eqb_eq in Et.
  apply bind_ok in H. destruct H as (a & Ha & H).
  unfold get_attr in Ha. destruct (find_attr (s_attrs (mb_s s)) (p_nonce p)) as [a0|] eqn:Ef; [|discriminate]. inversion Ha; subst a0. clear Ha.
  apply bind_ok in H. destruct H as (part & Hp & H).
  destruct (lpo s (d_lpn part) =? 0) eqn:E0; [discriminate|]. simpl in H. apply Z.eqb_neq in E0.
  destruct (lpo s (d_lpn part) =? sfo s (d_sfn part)) eqn:E1; [|discriminate]. apply Z.eqb_eq in E1. inversion H; subst u. clear H.
  pose proof (dy_part_spec _ _ _ Hp) as (Pn & Psn & _).
  split; [exact Et|]. exists a, part. rewrite <- Pn, <- Psn. repeat split; auto.
Qed.

(** what a successful stakeFarmOnBehalf is made of *)
Record ob_staked (s s' : bst) (a u : Z) (pays : list pay) (e : env_stake) (w : Z) (o : outs) (cs : list call)
  (first : pay) (adds : list pay) (s1 s2 s3 : st) : Prop := mkObStaked {
  os_auth : Access.is_whitelisted (mb_hub s) u a = true;
  os_pays : pays = first :: adds;
  os_first : p_tok first = TK_LPF;
  os_w : w = u;
  os_owners : Forall (fun p => underlying_owner s p = Ok u) adds;
  os_x1 : xfer_all (mb_s s) a u adds = Ok s1;
  os_step : step s1 (Stake u false pays e) = Ok (s2, o, cs);
  os_x2 : ep_xfer s2 u a (nth 0 o 0) (nth 1 o 0) = Ok (s3, [], []);
  os_s : mb_s s' = s3;
  os_hub : mb_hub s' = mb_hub s;
  os_rl : mb_rl s' = acredit (mb_rl s) u (nth 3 o 0);
  os_rs : mb_rs s' = acredit (mb_rs s) u (nth 2 o 0);
  os_own : (mb_lpo s', mb_sfo s') = rec_owners s s3 (nth 0 o 0) (match adds with [] => w | _ => u end) u
}.

Lemma mob_stake_parts s a u pays e w s' o cs : mob_stake s a u pays e w = Ok (s', o, cs) ->
  exists first adds s1 s2 s3, ob_staked s s' a u pays e w o cs first adds s1 s2 s3.
Proof.
  unfold mob_stake. intros H.
  destruct (Access.is_whitelisted (mb_hub s) u a) eqn:Ew; [|discriminate].
  destruct pays as [|first adds]; [discriminate|].
  destruct (p_tok first =? TK_LPF) eqn:Et; [|discriminate]. apply Z.eqb_eq in Et.
  destruct (w =? u) eqn:Eu; [|discriminate]. apply Z.eqb_eq in Eu.
  apply bind_ok in H. destruct H as ([] & Ho & H). apply owners_all_spec in Ho.
  apply bind_ok in H. destruct H as (s1 & H1 & H).
  apply bind_ok in H. destruct H as ([[s2 o2] cs2] & H2 & H).
  apply bind_ok in H. destruct H as ([[s3 o3] cs3] & H3 & H). cbn [fst] in H.
  destruct (rec_owners s s3 (nth 0 o2 0) (match adds with [] => w | _ => u end) u) as [lo so] eqn:Er.
  inversion H; subst s' o cs. clear H.
  pose proof (xfer_back _ _ _ _ _ _ _ _ H3) as (_ & _ & -> & ->).
  exists first, adds, s1, s2, s3. constructor; auto.
Qed.

(** what a successful claimDualYieldOnBehalf is made of *)
Record ob_claimed (s s' : bst) (a u : Z) (pays : list pay) (e : env_claim) (o : outs) (cs : list call)
  (p : pay) (s1 s2 s3 : st) : Prop := mkObClaimed {
  oc_pays : pays = [p];
  oc_owner : underlying_owner s p = Ok u;
  oc_auth : Access.is_whitelisted (mb_hub s) u a = true;
  oc_x1 : xfer_all (mb_s s) a u [p] = Ok s1;
  oc_step : step s1 (Claim u false pays e) = Ok (s2, o, cs);
  oc_x2 : ep_xfer s2 u a (nth 2 o 0) (nth 3 o 0) = Ok (s3, [], []);
  oc_s : mb_s s' = s3;
  oc_hub : mb_hub s' = mb_hub s;
  oc_rl : mb_rl s' = acredit (mb_rl s) u (nth 0 o 0);
  oc_rs : mb_rs s' = acredit (mb_rs s) u (nth 1 o 0);
  oc_own : (mb_lpo s', mb_sfo s') = rec_owners s s3 (nth 2 o 0) u u
}.

Lemma mob_claim_parts s a pays e s' o cs u : mob_claim s a pays e = Ok (s', o, cs, u) ->
  exists p s1 s2 s3, ob_claimed s s' a u pays e o cs p s1 s2 s3.
Proof.
  unfold mob_claim. intros H.
  destruct pays as [|p [|? ?]]; try discriminate.
  apply bind_ok in H. destruct H as (u0 & Hu & H).
  destruct (Access.is_whitelisted (mb_hub s) u0 a) eqn:Ew; [|discriminate].
  apply bind_ok in H. destruct H as (s1 & H1 & H).
  apply bind_ok in H. destruct H as ([[s2 o2] cs2] & H2 & H).
  apply bind_ok in H. destruct H as ([[s3 o3] cs3] & H3 & H). cbn [fst] in H.
  destruct (rec_owners s s3 (nth 2 o2 0) u0 u0) as [lo so] eqn:Er.
  inversion H; subst s' o cs u0. clear H.
  pose proof (xfer_back _ _ _ _ _ _ _ _ H3) as (_ & _ & -> & ->).
  exists p, s1, s2, s3. constructor; auto.
Qed.

(** the proxy's state after an on-behalf call is the state after a history of ORDINARY operations:
    transfers to the user, the user's own call, transfer of the new token to the agent *)
Definition stake_ob_ops (a u : Z) (pays : list pay) (e : env_stake) (o : outs) : list mop :=
  xfer_ops a u (tl pays) ++ [Stake u false pays e; Xfer u a (nth 0 o 0) (nth 1 o 0)].
Definition claim_ob_ops (a u : Z) (pays : list pay) (e : env_claim) (o : outs) : list mop :=
  xfer_ops a u pays ++ [Claim u false pays e; Xfer u a (nth 2 o 0) (nth 3 o 0)].

Theorem mob_stake_refines s a u pays e w s' o cs : mob_stake s a u pays e w = Ok (s', o, cs) ->
  mb_s s' = run (mb_s s) (stake_ob_ops a u pays e o) /\ wf_ops (xfer_ops a u (tl pays)).
Proof.
  intros H. destruct (mob_stake_parts _ _ _ _ _ _ _ _ _ H) as (first & adds & s1 & s2 & s3 & K).
  destruct K as [_ Kp _ _ _ K1 K2 K3 Ks _ _ _ _]. subst pays. split; [|apply xfer_ops_nonneg].
  unfold stake_ob_ops. cbn [tl]. rewrite run_app, <- (xfer_all_run _ _ _ _ _ K1). simpl.
  rewrite (step_total_ok _ _ _ _ _ K2).
  assert (K3' : step s2 (Xfer u a (nth 0 o 0) (nth 1 o 0)) = Ok (s3, [], [])) by exact K3.
  rewrite (step_total_ok _ _ _ _ _ K3'). exact Ks.
Qed.

Theorem mob_claim_refines s a pays e s' o cs u : mob_claim s a pays e = Ok (s', o, cs, u) ->
  mb_s s' = run (mb_s s) (claim_ob_ops a u pays e o).
Proof.
  intros H. destruct (mob_claim_parts _ _ _ _ _ _ _ _ H) as (p & s1 & s2 & s3 & K).
  destruct K as [Kp _ _ K1 K2 K3 Ks _ _ _ _]. subst pays.
  unfold claim_ob_ops. rewrite run_app, <- (xfer_all_run _ _ _ _ _ K1). simpl.
  rewrite (step_total_ok _ _ _ _ _ K2).
  assert (K3' : step s2 (Xfer u a (nth 2 o 0) (nth 3 o 0)) = Ok (s3, [], [])) by exact K3.
  rewrite (step_total_ok _ _ _ _ _ K3'). exact Ks.
Qed.

(** ================================================================== 2. the C15 invariants over mixed histories *)
Lemma ord_step_state s op w s' o cs : ord_step s op w = Ok (s', o, cs) ->
  step (mb_s s) op = Ok (mb_s s', o, cs) /\ mb_hub s' = mb_hub s.
Proof.
  unfold ord_step. intros H. apply bind_ok in H. destruct H as ([[ms' o'] cs'] & Hs & H).
  destruct op as [c oc pays e | c oc pays e | c oc pays m1 m2 e | src dst n amt].
  - destruct (rec_owners s ms' _ _ c) as [lo so]. inversion H; subst. auto.
  - destruct (rec_owners s ms' _ c c) as [lo so]. inversion H; subst. auto.
  - inversion H; subst. auto.
  - inversion H; subst. auto.
Qed.

Theorem mbstep_inv s op s' o cs : mbstep s op = Ok (s', o, cs) -> mb_nonneg op = true -> Inv (mb_s s) -> Inv (mb_s s').
Proof.
  intros H Hnn I. destruct op as [op w | hop | a u pays e w | a pays e]; simpl in H, Hnn.
  - apply ord_step_state in H. destruct H as [H _]. eapply step_inv; eassumption.
  - apply bind_ok in H. destruct H as (h' & _ & H). inversion H; subst. exact I.
  - destruct (mob_stake_parts _ _ _ _ _ _ _ _ _ H) as (first & adds & s1 & s2 & s3 & K).
    destruct K as [_ _ _ _ _ K1 K2 K3 Ks _ _ _ _]. rewrite Ks.
    destruct (xfer_all_inv _ _ _ _ _ K1) as (I1 & _).
    apply (step_inv s2 (Xfer u a (nth 0 o 0) (nth 1 o 0)) s3 [] []); [exact K3 | reflexivity|].
    eapply step_inv; [exact K2 | exact Hnn | auto].
  - apply bind_ok in H. destruct H as ([[[s0 o0] cs0] u] & Hc & H). inversion H; subst. clear H.
    destruct (mob_claim_parts _ _ _ _ _ _ _ _ Hc) as (p & s1 & s2 & s3 & K).
    destruct K as [_ _ _ K1 K2 K3 Ks _ _ _ _]. cbn [fst]. rewrite Ks.
    destruct (xfer_all_inv _ _ _ _ _ K1) as (I1 & _).
    apply (step_inv s2 (Xfer u a (nth 2 o 0) (nth 3 o 0)) s3 [] []); [exact K3 | reflexivity|].
    eapply step_inv; [exact K2 | exact Hnn | auto].
Qed.

Definition mb_wf (ops : list mbop) : Prop := Forall (fun op => mb_nonneg op = true) ops.

Lemma mbrun_inv ops : forall s, mb_wf ops -> Inv (mb_s s) -> Inv (mb_s (mbrun s ops)).
Proof.
  induction ops as [|op t IH]; intros s Hwf I; simpl; [exact I|].
  inversion Hwf; subst. apply IH; [assumption|]. unfold mbstep_total.
  destruct (mbstep s op) as [[[s' o] cs]|] eqn:E; [|exact I]. eapply mbstep_inv; eassumption.
Qed.

(** the clauses of C15_backed / C15_parts follow from the invariant alone *)
Lemma inv_backed s : Inv s ->
  (forall k, lpf_bal s k = lp_claim s k) /\
  (forall k, sf_bal s k = sf_claim s k) /\
  (forall n a, In (n, a) (s_attrs s) ->
     nonce_ok s n a /\
     sup s n <= sf_bal s (d_sfn a) /\
     d_lpa a - rel s n <= lpf_bal s (d_lpn a) /\
     (forall x, 0 <= x <= sup s n -> claimable a x <= lpf_bal s (d_lpn a))) /\
  (forall t, fbal s t = 0).
Proof.
  intros [[I0 I1 I2 I3 I4 I5 I6] IF].
  split; [exact I5|]. split; [exact I6|]. split; [|exact IF].
  intros n a Hin. pose proof (I4 n a Hin) as Hok.
  assert (Hsf : sup s n <= sf_bal s (d_sfn a)).
  { rewrite I6. unfold sf_claim.
    pose proof (wsum_ge_term (sf_term s (d_sfn a)) (s_attrs s) n a) as H. unfold sf_term at 2 in H. rewrite Z.eqb_refl in H.
    apply H; [|exact Hin]. intros m b Hm. unfold sf_term. destruct (d_sfn b =? d_sfn a); [|lia].
    destruct (I4 m b Hm) as (_ & _ & (? & _) & _). assumption. }
  assert (Hlp : d_lpa a - rel s n <= lpf_bal s (d_lpn a)).
  { rewrite I5. unfold lp_claim.
    pose proof (wsum_ge_term (lp_term s (d_lpn a)) (s_attrs s) n a) as H. unfold lp_term at 2 in H. rewrite Z.eqb_refl in H.
    apply H; [|exact Hin]. intros m b Hm. unfold lp_term. destruct (d_lpn b =? d_lpn a); [|lia].
    destruct (I4 m b Hm) as (HT & HL & (Hs0 & HsT) & Hr0 & Hr). nia. }
  split; [exact Hok|]. split; [exact Hsf|]. split; [exact Hlp|].
  intros x Hx. pose proof (nonce_ok_claimable s n a x Hok Hx). lia.
Qed.

Lemma init_mb_inv ho : Inv (mb_s (init_mb ho)).
Proof. exact init_inv. Qed.

Theorem behalf_backed_run ho ops : mb_wf ops ->
  let s := mb_s (mbrun (init_mb ho) ops) in
  (forall k, lpf_bal s k = lp_claim s k) /\
  (forall k, sf_bal s k = sf_claim s k) /\
  (forall n a, In (n, a) (s_attrs s) ->
     nonce_ok s n a /\
     sup s n <= sf_bal s (d_sfn a) /\
     d_lpa a - rel s n <= lpf_bal s (d_lpn a) /\
     (forall x, 0 <= x <= sup s n -> claimable a x <= lpf_bal s (d_lpn a))) /\
  (forall t, fbal s t = 0).
Proof. intros Hwf s. apply inv_backed. apply mbrun_inv; [exact Hwf | apply init_mb_inv]. Qed.

Theorem behalf_parts_run ho ops : mb_wf ops ->
  let s := mb_s (mbrun (init_mb ho) ops) in
  forall n a, In (n, a) (s_attrs s) ->
    0 <= rel s n <= d_lpa a /\ 0 <= d_sfa a - sup s n <= d_sfa a /\
    rel s n * d_sfa a <= d_lpa a * (d_sfa a - sup s n).
Proof.
  intros Hwf s n a Hin. destruct (behalf_backed_run ho ops Hwf) as (_ & _ & H & _). fold s in H.
  destruct (H n a Hin) as ((HT & HL & (Hs0 & HsT) & Hr0 & Hr) & _). repeat split; try lia; nia.
Qed.

(** the proxy keeps no user funds through an on-behalf call either *)
Theorem behalf_no_user_funds s op s' o cs : mbstep s op = Ok (s', o, cs) -> forall t, fbal (mb_s s') t = fbal (mb_s s) t.
Proof.
  intros H t. destruct op as [op w | hop | a u pays e w | a pays e]; simpl in H.
  - apply ord_step_state in H. destruct H as [H _]. eapply no_user_funds_step; eassumption.
  - apply bind_ok in H. destruct H as (h' & _ & H). inversion H; subst. reflexivity.
  - destruct (mob_stake_parts _ _ _ _ _ _ _ _ _ H) as (first & adds & s1 & s2 & s3 & K).
    destruct K as [_ _ _ _ _ K1 K2 K3 Ks _ _ _ _]. rewrite Ks.
    destruct (xfer_all_inv _ _ _ _ _ K1) as (_ & _ & F1).
    pose proof (xfer_back _ _ _ _ _ _ _ _ K3) as (_ & F3 & _).
    rewrite (fbal_of_fung _ _ F3), (no_user_funds_step _ _ _ _ _ K2), (fbal_of_fung _ _ F1). reflexivity.
  - apply bind_ok in H. destruct H as ([[[s0 o0] cs0] u] & Hc & H). inversion H; subst. clear H.
    destruct (mob_claim_parts _ _ _ _ _ _ _ _ Hc) as (p & s1 & s2 & s3 & K).
    destruct K as [_ _ _ K1 K2 K3 Ks _ _ _ _]. cbn [fst]. rewrite Ks.
    destruct (xfer_all_inv _ _ _ _ _ K1) as (_ & _ & F1).
    pose proof (xfer_back _ _ _ _ _ _ _ _ K3) as (_ & F3 & _).
    rewrite (fbal_of_fung _ _ F3), (no_user_funds_step _ _ _ _ _ K2), (fbal_of_fung _ _ F1). reflexivity.
Qed.

(** ================================================================== 3. characterisation *)
Lemma acredit_get l k v x : aget (acredit l k v) x = aget l x + (if x =? k then v else 0).
Proof.
  unfold acredit. destruct (x =? k) eqn:E.
  - apply Z.eqb_eq in E. subst. rewrite aget_aset_same. reflexivity.
  - apply Z.eqb_neq in E. rewrite aget_aset_other by congruence. lia.
Qed.

Lemma xfer_hold s src dst n amt s' : ep_xfer s src dst n amt = Ok (s', [], []) -> src <> dst ->
  0 < amt <= hold s n src /\ hold s' n dst = hold s n dst + amt /\ hold s' n src = hold s n src - amt.
Proof.
  unfold ep_xfer. intros H Hne. destruct (0 <? amt) eqn:Ea; [|discriminate]. apply Z.ltb_lt in Ea.
  apply bind_ok in H. destruct H as (h & Hh & H). apply sub_chk_ok in Hh. destruct Hh as [Hle ->].
  inversion H; subst. clear H.
  assert (E1 : (hkey n src =? hkey n dst) = false) by (apply Z.eqb_neq; unfold hkey; lia).
  assert (E2 : (hkey n dst =? hkey n src) = false) by (apply Z.eqb_neq; unfold hkey; lia).
  split; [lia|].
  unfold hold; simpl; rewrite ?aget_aset; unfold hold; simpl; rewrite ?aget_aset, ?E1, ?E2, ?Z.eqb_refl. split; lia.
Qed.

(** stakeFarmOnBehalf(u) by [a] succeeds only if
      - the hub lists [a] for [u] and does not blacklist it,
      - the first payment is an LP-farm position recorded for [u], every further payment a dual-yield token whose two
        underlying positions are recorded for [u];
    and then
      - the proxy's state is that of the user's own stakeFarmTokens after the agent handed the user the dual-yield
        payments, followed by the transfer of the new token to the agent ([mob_stake_refines]);
      - both rewards are credited to the USER and to nobody else; the results are those of the user's own call;
      - the new dual-yield token (all of it) moves from the user to the agent;
      - the hub is unchanged; the farm tokens recorded in the new token are recorded for the user (L8). *)
Theorem stake_on_behalf_spec s a u pays e w s' o cs :
  mbstep s (MBStakeOB a u pays e w) = Ok (s', o, cs) ->
  Access.is_whitelisted (mb_hub s) u a = true /\
  (exists k amt adds, pays = (TK_LPF, k, amt) :: adds /\ w = u /\ Forall (fun p => underlying_owner s p = Ok u) adds) /\
  (exists s1 s2, xfer_all (mb_s s) a u (tl pays) = Ok s1 /\ step s1 (Stake u false pays e) = Ok (s2, o, cs) /\
     ep_xfer s2 u a (nth 0 o 0) (nth 1 o 0) = Ok (mb_s s', [], []) /\
     (a <> u -> hold (mb_s s') (nth 0 o 0) a = hold s2 (nth 0 o 0) a + nth 1 o 0 /\
                hold (mb_s s') (nth 0 o 0) u = hold s2 (nth 0 o 0) u - nth 1 o 0)) /\
  (forall x, aget (mb_rl s') x = aget (mb_rl s) x + (if x =? u then nth 3 o 0 else 0)) /\
  (forall x, aget (mb_rs s') x = aget (mb_rs s) x + (if x =? u then nth 2 o 0 else 0)) /\
  mb_hub s' = mb_hub s.
Proof.
  simpl. intros H. destruct (mob_stake_parts _ _ _ _ _ _ _ _ _ H) as (first & adds & s1 & s2 & s3 & K).
  destruct K as [Ka Kp Kf Kw Ko K1 K2 K3 Ks Kh Krl Krs _].
  split; [exact Ka|]. split.
  { destruct first as [[t0 k] amt]. unfold p_tok in Kf. simpl in Kf. subst t0. exists k, amt, adds. auto. }
  split.
  { exists s1, s2. subst pays. cbn [tl]. rewrite Ks. split; [exact K1|]. split; [exact K2|]. split; [exact K3|].
    intros Hne. destruct (xfer_hold _ _ _ _ _ _ K3 (not_eq_sym Hne)) as (_ & Hd & Hs). auto. }
  split; [intros x; rewrite Krl; apply acredit_get|]. split; [intros x; rewrite Krs; apply acredit_get | exact Kh].
Qed.

(** claimDualYieldOnBehalf() by [a]: the user is READ from the underlying positions of the paid dual-yield token (both
    recorded owners equal and non-zero), the hub must list [a] for that user; rewards to that user only; new token to [a] *)
Theorem claim_on_behalf_spec s a pays e s' o cs :
  mbstep s (MBClaimOB a pays e) = Ok (s', o, cs) ->
  exists u p,
    pays = [p] /\ underlying_owner s p = Ok u /\ u <> 0 /\
    Access.is_whitelisted (mb_hub s) u a = true /\
    (exists s1 s2, xfer_all (mb_s s) a u pays = Ok s1 /\ step s1 (Claim u false pays e) = Ok (s2, o, cs) /\
       ep_xfer s2 u a (nth 2 o 0) (nth 3 o 0) = Ok (mb_s s', [], []) /\
       (a <> u -> hold (mb_s s') (nth 2 o 0) a = hold s2 (nth 2 o 0) a + nth 3 o 0 /\
                  hold (mb_s s') (nth 2 o 0) u = hold s2 (nth 2 o 0) u - nth 3 o 0)) /\
    (forall x, aget (mb_rl s') x = aget (mb_rl s) x + (if x =? u then nth 0 o 0 else 0)) /\
    (forall x, aget (mb_rs s') x = aget (mb_rs s) x + (if x =? u then nth 1 o 0 else 0)) /\
    mb_hub s' = mb_hub s.
Proof.
  simpl. intros H. apply bind_ok in H. destruct H as ([[[s0 o0] cs0] u] & Hc & H). inversion H; subst. clear H.
  destruct (mob_claim_parts _ _ _ _ _ _ _ _ Hc) as (p & s1 & s2 & s3 & K).
  destruct K as [Kp Kow Ka K1 K2 K3 Ks Kh Krl Krs _].
  exists u, p. split; [exact Kp|]. split; [exact Kow|].
  split; [destruct (underlying_owner_spec _ _ _ Kow) as (_ & a0 & pt & _ & _ & _ & _ & Hnz); exact Hnz|].
  split; [exact Ka|]. split.
  { exists s1, s2. subst pays. rewrite Ks. split; [exact K1|]. split; [exact K2|]. split; [exact K3|].
    intros Hne. destruct (xfer_hold _ _ _ _ _ _ K3 (not_eq_sym Hne)) as (_ & Hd & Hs). auto. }
  split; [intros x; rewrite Krl; apply acredit_get|]. split; [intros x; rewrite Krs; apply acredit_get | exact Kh].
Qed.

(** "authorised" spelled out: the agent is in the user's own list in the hub and not in the hub's blacklist *)
Lemma whitelisted_listed h u a : Access.is_whitelisted h u a = true ->
  Access.pmem (u, a) (Access.h_wl h) = true /\ Access.zmem a (Access.h_black h) = false.
Proof.
  unfold Access.is_whitelisted. intros H. apply andb_prop in H. destruct H as [A B].
  split; [exact B|]. destruct (Access.zmem a (Access.h_black h)); [discriminate | reflexivity].
Qed.

Theorem on_behalf_agent_listed s op s' o cs : mbstep s op = Ok (s', o, cs) ->
  match op with
  | MBStakeOB a u _ _ _ => Access.pmem (u, a) (Access.h_wl (mb_hub s)) = true /\ Access.zmem a (Access.h_black (mb_hub s)) = false
  | MBClaimOB a pays _ => exists u p, pays = [p] /\ underlying_owner s p = Ok u /\
                          Access.pmem (u, a) (Access.h_wl (mb_hub s)) = true /\ Access.zmem a (Access.h_black (mb_hub s)) = false
  | _ => True
  end.
Proof.
  intros H. destruct op as [op w | hop | a u pays e w | a pays e]; try exact I.
  - destruct (stake_on_behalf_spec _ _ _ _ _ _ _ _ _ H) as (Hw & _). apply whitelisted_listed. exact Hw.
  - destruct (claim_on_behalf_spec _ _ _ _ _ _ _ H) as (u & p & Hp & Hu & _ & Hw & _).
    exists u, p. split; [exact Hp|]. split; [exact Hu|]. apply whitelisted_listed. exact Hw.
Qed.

(** nobody but the user is credited rewards by an on-behalf call - in particular not the agent *)
Corollary on_behalf_rewards_only_user s op s' o cs x :
  mbstep s op = Ok (s', o, cs) ->
  match op with
  | MBStakeOB a u _ _ _ => x <> u -> aget (mb_rl s') x = aget (mb_rl s) x /\ aget (mb_rs s') x = aget (mb_rs s) x
  | MBClaimOB a pays _ => (forall p, pays = [p] -> underlying_owner s p <> Ok x) ->
                          aget (mb_rl s') x = aget (mb_rl s) x /\ aget (mb_rs s') x = aget (mb_rs s) x
  | _ => True
  end.
Proof.
  intros H. destruct op as [op w | hop | a u pays e w | a pays e]; try exact I.
  - intros Hne. destruct (stake_on_behalf_spec _ _ _ _ _ _ _ _ _ H) as (_ & _ & _ & Hl & Hs & _).
    rewrite Hl, Hs. apply Z.eqb_neq in Hne. rewrite Hne. lia.
  - intros Hno. destruct (claim_on_behalf_spec _ _ _ _ _ _ _ H) as (u & p & Hp & Hu & _ & _ & _ & Hl & Hs & _).
    rewrite Hl, Hs. destruct (x =? u) eqn:E; [|lia]. apply Z.eqb_eq in E. subst x. exfalso. exact (Hno p Hp Hu).
Qed.

(** ================================================================== 4. failure *)
Theorem stake_ob_unauthorised_unchanged s a u pays e w :
  Access.is_whitelisted (mb_hub s) u a = false -> mbstep_total s (MBStakeOB a u pays e w) = s.
Proof. intros H. unfold mbstep_total. simpl. unfold mob_stake. rewrite H. reflexivity. Qed.

Theorem stake_ob_foreign_first_unchanged s a u pays e w : w <> u -> mbstep_total s (MBStakeOB a u pays e w) = s.
Proof.
  intros Hne. unfold mbstep_total. destruct (mbstep s (MBStakeOB a u pays e w)) as [[[s' o] cs]|] eqn:E; [|reflexivity].
  destruct (stake_on_behalf_spec _ _ _ _ _ _ _ _ _ E) as (_ & (k & amt & adds & _ & Hw & _) & _). contradiction.
Qed.

(** a dual-yield payment whose underlying positions are not BOTH recorded for the user (another owner, two different
    owners, no owner, not a dual-yield token, a part of zero): at any payment index *)
Theorem stake_ob_foreign_add_unchanged s a u pays e w p :
  In p (tl pays) -> underlying_owner s p <> Ok u -> mbstep_total s (MBStakeOB a u pays e w) = s.
Proof.
  intros Hin Hne. unfold mbstep_total. destruct (mbstep s (MBStakeOB a u pays e w)) as [[[s' o] cs]|] eqn:E; [|reflexivity].
  destruct (stake_on_behalf_spec _ _ _ _ _ _ _ _ _ E) as (_ & (k & amt & adds & Hp & _ & Hall) & _).
  subst pays. cbn [tl] in Hin. rewrite Forall_forall in Hall. exfalso. exact (Hne (Hall p Hin)).
Qed.

Theorem claim_ob_unauthorised_unchanged s a p e u :
  underlying_owner s p = Ok u -> Access.is_whitelisted (mb_hub s) u a = false -> mbstep_total s (MBClaimOB a [p] e) = s.
Proof. intros Hu H. unfold mbstep_total. simpl. unfold mob_claim. rewrite Hu. simpl. rewrite H. reflexivity. Qed.

(** no recorded owner, or the LP-farm position and the staking position record different owners *)
Theorem claim_ob_no_owner_unchanged s a p e (er : err) :
  underlying_owner s p = Err er -> mbstep_total s (MBClaimOB a [p] e) = s.
Proof. intros Hu. unfold mbstep_total. simpl. unfold mob_claim. rewrite Hu. reflexivity. Qed.

Theorem claim_ob_payments_unchanged s a pays e : length pays <> 1%nat -> mbstep_total s (MBClaimOB a pays e) = s.
Proof.
  intros H. unfold mbstep_total. simpl. unfold mob_claim. destruct pays as [|p [|q t]]; try reflexivity. simpl in H. congruence.
Qed.

(** the hub inside a mixed history *)
Definition hub_ops_of (ops : list mbop) : list Access.hub_op :=
  flat_map (fun op => match op with MBHub o => [o] | _ => [] end) ops.

Lemma mbstep_hub s op s' o cs : mbstep s op = Ok (s', o, cs) ->
  mb_hub s' = match op with MBHub h => Access.hub_step_total (mb_hub s) h | _ => mb_hub s end.
Proof.
  intros H. destruct op as [op w | hop | a u pays e w | a pays e]; simpl in H.
  - apply ord_step_state in H. tauto.
  - apply bind_ok in H. destruct H as (h' & Hh & H). inversion H; subst. simpl. unfold Access.hub_step_total. rewrite Hh. reflexivity.
  - destruct (stake_on_behalf_spec _ _ _ _ _ _ _ _ _ H) as (_ & _ & _ & _ & _ & Hh). exact Hh.
  - destruct (claim_on_behalf_spec _ _ _ _ _ _ _ H) as (u & p & _ & _ & _ & _ & _ & _ & _ & Hh). exact Hh.
Qed.

Lemma mbrun_hub : forall ops s, mb_hub (mbrun s ops) = Access.hub_run (mb_hub s) (hub_ops_of ops).
Proof.
  induction ops as [|op t IH]; intros s; [reflexivity|].
  change (mbrun s (op :: t)) with (mbrun (mbstep_total s op) t). rewrite IH. clear IH.
  unfold mbstep_total. destruct (mbstep s op) as [[[s' o] cs]|er] eqn:E.
  - rewrite (mbstep_hub _ _ _ _ _ E). destruct op; reflexivity.
  - destruct op as [op w | hop | a u pays e w | a pays e]; try reflexivity.
    simpl in E. simpl. unfold Access.hub_run. simpl. unfold Access.hub_step_total.
    destruct (Access.hub_step (mb_hub s) hop); [discriminate | reflexivity].
Qed.

(** after the user revoked the agent, and until the user lists it again, every stakeFarmOnBehalf by that agent for that
    user and every claimDualYieldOnBehalf of that user's positions fails and changes nothing - whatever else happens *)
Theorem ob_revoked_agent_fails s s1 u a ops :
  mbstep s (MBHub (Access.HRemoveWhitelist u a)) = Ok (s1, [], []) ->
  ~ In (Access.HWhitelist u a) (hub_ops_of ops) ->
  let s2 := mbrun s1 ops in
  (forall pays e w, mbstep_total s2 (MBStakeOB a u pays e w) = s2) /\
  (forall p e, underlying_owner s2 p = Ok u -> mbstep_total s2 (MBClaimOB a [p] e) = s2).
Proof.
  intros H Hno s2.
  assert (Hw : Access.is_whitelisted (mb_hub s2) u a = false).
  { unfold s2. rewrite mbrun_hub. simpl in H. apply bind_ok in H. destruct H as (h' & Hh & H). inversion H; subst; clear H. simpl.
    eapply AccessProofs.hub_revoked; eauto. }
  split.
  - intros. apply stake_ob_unauthorised_unchanged. exact Hw.
  - intros p e Hu. eapply claim_ob_unauthorised_unchanged; eassumption.
Qed.

(** a blacklisted agent: while the hub's owner does not lift the blacklisting, every on-behalf call by it fails *)
Theorem ob_blacklisted_agent_fails s a ops :
  Access.zmem a (Access.h_black (mb_hub s)) = true ->
  ~ In (Access.HRemoveBlacklist (Access.h_owner (mb_hub s)) a) (hub_ops_of ops) ->
  let s2 := mbrun s ops in
  (forall u pays e w, mbstep_total s2 (MBStakeOB a u pays e w) = s2) /\
  (forall pays e, mbstep_total s2 (MBClaimOB a pays e) = s2).
Proof.
  intros Hb Hno s2.
  assert (Hw : forall u, Access.is_whitelisted (mb_hub s2) u a = false).
  { intros u. unfold s2. rewrite mbrun_hub. apply AccessProofs.hub_blacklisted; assumption. }
  split.
  - intros. apply stake_ob_unauthorised_unchanged. apply Hw.
  - intros pays e. unfold mbstep_total. destruct (mbstep s2 (MBClaimOB a pays e)) as [[[s' o] cs]|] eqn:E; [|reflexivity].
    destruct (claim_on_behalf_spec _ _ _ _ _ _ _ E) as (u & p & _ & _ & _ & Ha & _). rewrite Hw in Ha. discriminate.
Qed.

(** ================================================================== 5. law L8 on the callee models
    a position token a farm returns for a call with original caller x records original_owner = x.
    Model/Farm.v (claimRewards, mergeFarmTokens: caller = original caller, see Model/MetaClosed.v for the composition
    with the proxy as payer), Model/StakingPos.v (stakeFarmThroughProxy, claimRewardsWithNewValue with the explicit
    original caller [u]; for claimRewardsWithNewValue the statement is part of [LawsC15.L4_staking]). *)
Module L8.
Import MX.Model.Farm MX.Proofs.FarmInv.

Lemma farm_claim f blk ep c first adds b f' n amt r :
  Farm.ep_claim f blk ep c first adds b = Ok (f', [n; amt; r]) ->
  exists m, In (n, m) (f_attrs f') /\ a_owner m = c /\ a_amt m = amt.
Proof.
  unfold Farm.ep_claim. intros H.
  destruct (active f); [|discriminate].
  apply bind_ok in H. destruct H as (f1 & _ & H).
  apply bind_ok in H. destruct H as (f2 & _ & H).
  apply bind_ok in H. destruct H as (a & _ & H).
  apply bind_ok in H. destruct H as (part & _ & H).
  apply bind_ok in H. destruct H as (base & _ & H).
  apply bind_ok in H. destruct H as (f3 & _ & H).
  apply bind_ok in H. destruct H as (f4 & _ & H).
  apply bind_ok in H. destruct H as (m & Hm & H).
  apply merge_payments_amt in Hm. destruct Hm as [_ Ho]. simpl in Ho.
  unfold mint_pos in H. inversion H; subst. clear H. exists m. simpl.
  split; [apply in_or_app; right; left; reflexivity | auto].
Qed.

Lemma farm_merge f blk ep c ps b f' n amt b' :
  Farm.ep_merge f blk ep c ps b = Ok (f', [n; amt; b']) ->
  exists m, In (n, m) (f_attrs f') /\ a_owner m = c /\ a_amt m = amt.
Proof.
  unfold Farm.ep_merge. intros H.
  destruct (active f); [|discriminate].
  destruct ps as [|first rest]; [discriminate|].
  apply bind_ok in H. destruct H as (f0 & _ & H).
  apply bind_ok in H. destruct H as (f1 & _ & H).
  apply bind_ok in H. destruct H as (f2 & _ & H).
  apply bind_ok in H. destruct H as (a & _ & H).
  apply bind_ok in H. destruct H as (part & _ & H).
  apply bind_ok in H. destruct H as (m0 & _ & H).
  unfold mint_pos in H. inversion H; subst. clear H. eexists. simpl.
  split; [apply in_or_app; right; left; reflexivity | simpl; auto].
Qed.

End L8.

Module L8S.
Import MX.Model.Staking MX.Model.StakingPos MX.Proofs.StakingPosProofs.

Lemma staking_stake virtual sp blk ep c u amt adds b sp' n out b' :
  StakingPos.ep_stake virtual sp blk ep c u amt adds b = Ok (sp', [n; out; b']) ->
  exists m, In (n, m) (p_attrs sp') /\ sa_owner m = u /\ sa_amt m = out.
Proof.
  unfold StakingPos.ep_stake. intros H.
  destruct (if virtual then whitelisted c else auth c u); [|discriminate].
  destruct (0 <? amt); [|discriminate].
  apply bind_ok in H. destruct H as (g1 & _ & H).
  apply bind_ok in H. destruct H as (g2 & _ & H).
  destruct (active (p_s g2)); [|discriminate].
  apply bind_ok in H. destruct H as (g3 & _ & H). cbv zeta in H.
  apply bind_ok in H. destruct H as (g5 & _ & H).
  apply bind_ok in H. destruct H as (m' & Hm & H).
  apply merge_payments_amt in Hm. destruct Hm as [_ Ho]. cbn [sa_owner] in Ho.
  match type of H with (let '(_, _) := mint_pos ?g0 _ _ in _) = _ => set (g := g0) in * end.
  unfold mint_pos in H. inversion H; subst. clear H. exists m'. cbn [p_attrs].
  split; [apply in_or_app; right; left; reflexivity | auto].
Qed.

End L8S.
