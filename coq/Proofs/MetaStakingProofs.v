(** Proofs about Model/MetaStaking.v (property C15).

    Everything here is RELATIVE TO THE ENVIRONMENT INTERFACE of the model: the farms' and the pair's
    answers are arguments of the operations.  Theorems quantify over ALL answers (only non-negativity
    of amounts, [env_nonneg], is required: they are BigUint) unless a law L1-L7 is named as a
    hypothesis.  Sections:
      1  ledger primitives (what each credit / debit / release / mint changes)
      2  the backing invariant [Inv] and its preservation by every operation, over all histories
      3  parts: floor characterisation of into_part, released parts never exceed the whole
      4  unstake: outputs and ledger deltas
      5  safe price: the value registered in the staking farm is the pair's safe-price answer
      6  the interface laws as lemmas of the callee models where such a model exists
         (L1-L3: Model/Farm.v, L6: Model/Pair.v, L7: Model/SafePrice.v + C13) *)
From MX Require Import Base.Prelude Gen.Params Model.MetaStaking.
From MX Require Model.Farm Proofs.FarmInv Model.Pair Model.SafePrice Proofs.SafePriceProofs.

(** ================================================================== 1. primitives *)
Lemma aget_aset l k v k' : aget (aset l k v) k' = if k =? k' then v else aget l k'.
Proof.
  destruct (k =? k') eqn:E.
  - apply Z.eqb_eq in E. subst. apply aget_aset_same.
  - apply Z.eqb_neq in E. apply aget_aset_other. exact E.
Qed.

Lemma find_attr_in l n a : find_attr l n = Some a -> In (n, a) l.
Proof.
  induction l as [|[k b] t IH]; simpl; [discriminate|].
  destruct (k =? n) eqn:E.
  - intros H. inversion H; subst. apply Z.eqb_eq in E. subst. auto.
  - intros H. right. auto.
Qed.

Lemma find_attr_none l n : find_attr l n = None -> ~ In n (map fst l).
Proof.
  induction l as [|[k b] t IH]; simpl; [tauto|].
  destruct (k =? n) eqn:E; [discriminate|].
  intros H [Hk|Hin]; [apply Z.eqb_neq in E; contradiction | apply IH; assumption].
Qed.

Lemma in_find_attr l n a : NoDup (map fst l) -> In (n, a) l -> find_attr l n = Some a.
Proof.
  induction l as [|[k b] t IH]; simpl; intros Hnd Hin; [contradiction|].
  inversion Hnd as [|? ? Hni Hnd']; subst.
  destruct Hin as [Heq|Hin].
  - inversion Heq; subst. rewrite Z.eqb_refl. reflexivity.
  - destruct (k =? n) eqn:E.
    + apply Z.eqb_eq in E. subst. exfalso. apply Hni. change n with (fst (n, a)). apply in_map. exact Hin.
    + auto.
Qed.

Lemma find_attr_app l n x : find_attr (l ++ [x]) n =
  match find_attr l n with Some a => Some a | None => if fst x =? n then Some (snd x) else None end.
Proof.
  induction l as [|[k b] t IH]; simpl.
  - destruct x as [k a]. reflexivity.
  - destruct (k =? n); [reflexivity | exact IH].
Qed.

(** sums over the dual-yield nonces ever created *)
Definition wsum (f : Z -> dattr -> Z) (l : list (Z * dattr)) : Z :=
  fold_right (fun na acc => f (fst na) (snd na) + acc) 0 l.

Lemma wsum_ext f g l : (forall n a, In (n, a) l -> f n a = g n a) -> wsum f l = wsum g l.
Proof.
  induction l as [|[n a] t IH]; simpl; intros H; [reflexivity|].
  rewrite (H n a) by auto. rewrite IH by (intros; apply H; auto). reflexivity.
Qed.

Lemma wsum_app f l x : wsum f (l ++ [x]) = wsum f l + f (fst x) (snd x).
Proof. induction l as [|[n a] t IH]; simpl; [lia | rewrite IH; lia]. Qed.

Lemma wsum_change f g l n a d : NoDup (map fst l) -> In (n, a) l ->
  g n a = f n a - d -> (forall m b, In (m, b) l -> m <> n -> g m b = f m b) ->
  wsum g l = wsum f l - d.
Proof.
  induction l as [|[k b] t IH]; simpl; intros Hnd Hin Hn Ho; [contradiction|].
  inversion Hnd as [|? ? Hni Hnd']; subst.
  destruct Hin as [Heq|Hin].
  - inversion Heq; subst. rewrite Hn.
    rewrite (wsum_ext g f t); [lia|].
    intros m c Hm. apply Ho; [auto|]. intros ->. apply Hni. change n with (fst (n, c)). apply in_map. exact Hm.
  - assert (k <> n) by (intros ->; apply Hni; change n with (fst (n, a)); apply in_map; exact Hin).
    rewrite (Ho k b) by auto. rewrite (IH Hnd' Hin Hn) by (intros; apply Ho; auto). lia.
Qed.

Lemma wsum_nonneg f l : (forall n a, In (n, a) l -> 0 <= f n a) -> 0 <= wsum f l.
Proof.
  induction l as [|[n a] t IH]; simpl; intros H; [lia|].
  pose proof (H n a (or_introl eq_refl)). assert (0 <= wsum f t) by (apply IH; intros; apply H; auto). lia.
Qed.

Lemma wsum_ge_term f l n a : (forall m b, In (m, b) l -> 0 <= f m b) -> In (n, a) l -> f n a <= wsum f l.
Proof.
  induction l as [|[k b] t IH]; simpl; intros H Hin; [contradiction|].
  assert (0 <= wsum f t) by (apply wsum_nonneg; intros; apply H; auto).
  destruct Hin as [Heq|Hin].
  - inversion Heq; subst. lia.
  - pose proof (H k b (or_introl eq_refl)). assert (f n a <= wsum f t) by (apply IH; auto). lia.
Qed.

(** the three sub-ledgers a primitive may leave untouched *)
Definition eq_dy (s s' : st) : Prop :=
  s_attrs s' = s_attrs s /\ s_sup s' = s_sup s /\ s_rel s' = s_rel s /\ s_hold s' = s_hold s /\ s_next s' = s_next s.
Definition eq_farm (s s' : st) : Prop := s_lpf s' = s_lpf s /\ s_sf s' = s_sf s.
Definition eq_fung (s s' : st) : Prop := s_fung s' = s_fung s.

Lemma credit_f_spec s t x :
  eq_dy s (credit_f s t x) /\ eq_farm s (credit_f s t x) /\
  forall t', fbal (credit_f s t x) t' = fbal s t' + (if t =? t' then x else 0).
Proof.
  repeat split. intros t'. unfold fbal, credit_f. simpl. rewrite aget_aset. unfold fbal.
  destruct (t =? t') eqn:E; [apply Z.eqb_eq in E; subst; lia | lia].
Qed.

Lemma debit_f_spec s t x s' : debit_f s t x = Ok s' ->
  eq_dy s s' /\ eq_farm s s' /\ x <= fbal s t /\
  forall t', fbal s' t' = fbal s t' - (if t =? t' then x else 0).
Proof.
  unfold debit_f. intros H. apply bind_ok in H. destruct H as (b & Hb & H). inversion H; subst. clear H.
  apply sub_chk_ok in Hb. destruct Hb as [Hle ->].
  repeat split; [exact Hle|]. intros t'. unfold fbal. simpl. rewrite aget_aset.
  destruct (t =? t') eqn:E; [apply Z.eqb_eq in E; subst; unfold fbal; lia | lia].
Qed.

Lemma credit_sf_spec s k x :
  eq_dy s (credit_sf s k x) /\ eq_fung s (credit_sf s k x) /\ s_lpf (credit_sf s k x) = s_lpf s /\
  forall k', sf_bal (credit_sf s k x) k' = sf_bal s k' + (if k =? k' then x else 0).
Proof.
  repeat split. intros k'. unfold sf_bal, credit_sf. simpl. rewrite aget_aset. unfold sf_bal.
  destruct (k =? k') eqn:E; [apply Z.eqb_eq in E; subst; lia | lia].
Qed.

Lemma credit_lpf_spec s k x :
  eq_dy s (credit_lpf s k x) /\ eq_fung s (credit_lpf s k x) /\ s_sf (credit_lpf s k x) = s_sf s /\
  forall k', lpf_bal (credit_lpf s k x) k' = lpf_bal s k' + (if k =? k' then x else 0).
Proof.
  repeat split. intros k'. unfold lpf_bal, credit_lpf. simpl. rewrite aget_aset. unfold lpf_bal.
  destruct (k =? k') eqn:E; [apply Z.eqb_eq in E; subst; lia | lia].
Qed.

Lemma debit_sf_spec s k x s' : debit_sf s k x = Ok s' ->
  eq_dy s s' /\ eq_fung s s' /\ s_lpf s' = s_lpf s /\ x <= sf_bal s k /\
  forall k', sf_bal s' k' = sf_bal s k' - (if k =? k' then x else 0).
Proof.
  unfold debit_sf. intros H. apply bind_ok in H. destruct H as (b & Hb & H). inversion H; subst. clear H.
  apply sub_chk_ok in Hb. destruct Hb as [Hle ->].
  repeat split; [exact Hle|]. intros k'. unfold sf_bal. simpl. rewrite aget_aset.
  destruct (k =? k') eqn:E; [apply Z.eqb_eq in E; subst; unfold sf_bal; lia | lia].
Qed.

Lemma debit_lpf_spec s k x s' : debit_lpf s k x = Ok s' ->
  eq_dy s s' /\ eq_fung s s' /\ s_sf s' = s_sf s /\ x <= lpf_bal s k /\
  forall k', lpf_bal s' k' = lpf_bal s k' - (if k =? k' then x else 0).
Proof.
  unfold debit_lpf. intros H. apply bind_ok in H. destruct H as (b & Hb & H). inversion H; subst. clear H.
  apply sub_chk_ok in Hb. destruct Hb as [Hle ->].
  repeat split; [exact Hle|]. intros k'. unfold lpf_bal. simpl. rewrite aget_aset.
  destruct (k =? k') eqn:E; [apply Z.eqb_eq in E; subst; unfold lpf_bal; lia | lia].
Qed.

(** ------------------------------------------------------------------ into_part *)
Lemma dy_part_spec a p part : dy_part a p = Ok part ->
  d_lpn part = d_lpn a /\ d_sfn part = d_sfn a /\ d_sfa part = p /\
  ((p = d_sfa a /\ d_lpa part = d_lpa a) \/
   (p <> d_sfa a /\ d_sfa a <> 0 /\ d_lpa part = d_lpa a * p / d_sfa a /\ d_lpa part <> 0)).
Proof.
  unfold dy_part. destruct (p =? d_sfa a) eqn:E.
  - intros H. inversion H; subst. apply Z.eqb_eq in E. subst. auto 6.
  - intros H. apply bind_ok in H. destruct H as (l & Hl & H). inversion H; subst. clear H. simpl.
    apply Z.eqb_neq in E. repeat split; try reflexivity. right.
    unfold rule3_nz in Hl. rewrite (proj2 (Z.eqb_neq _ _) E) in Hl.
    apply bind_ok in Hl. destruct Hl as (r & Hr & Hl).
    apply div_chk_ok in Hr. destruct Hr as [Hnz ->].
    destruct (d_lpa a * p / d_sfa a =? 0) eqn:Ez; simpl in Hl; [discriminate|].
    inversion Hl; subst. apply Z.eqb_neq in Ez. auto.
Qed.

(** ------------------------------------------------------------------ release *)
Record released (s s' : st) (c n p : Z) (a part : dattr) : Prop := mkReleased {
  rl_attr : find_attr (s_attrs s) n = Some a;
  rl_part : dy_part a p = Ok part;
  rl_pos : 0 < p;
  rl_hold_le : p <= hold s n c;
  rl_sup_le : p <= sup s n;
  rl_attrs : s_attrs s' = s_attrs s;
  rl_next : s_next s' = s_next s;
  rl_sup : forall m, sup s' m = if n =? m then sup s n - p else sup s m;
  rl_rel : forall m, rel s' m = if n =? m then rel s n + d_lpa part else rel s m;
  rl_hold : forall key, aget (s_hold s') key = if hkey n c =? key then hold s n c - p else aget (s_hold s) key;
  rl_lpf : forall k, lpf_bal s' k = lpf_bal s k - (if d_lpn a =? k then d_lpa part else 0);
  rl_sf : forall k, sf_bal s' k = sf_bal s k - (if d_sfn a =? k then p else 0);
  rl_lpf_le : d_lpa part <= lpf_bal s (d_lpn a);
  rl_sf_le : p <= sf_bal s (d_sfn a);
  rl_fung : s_fung s' = s_fung s
}.

Lemma release_spec s c n p s' part : release s c n p = Ok (s', part) ->
  exists a, released s s' c n p a part.
Proof.
  unfold release. intros H.
  destruct (0 <? p) eqn:Ep; [|discriminate]. apply Z.ltb_lt in Ep.
  apply bind_ok in H. destruct H as (h & Hh & H). apply sub_chk_ok in Hh. destruct Hh as [Hhle ->].
  apply bind_ok in H. destruct H as (su & Hsu & H). apply sub_chk_ok in Hsu. destruct Hsu as [Hsle ->].
  apply bind_ok in H. destruct H as (a & Ha & H).
  unfold get_attr in Ha. destruct (find_attr (s_attrs s) n) as [a0|] eqn:Ef; [|discriminate]. inversion Ha; subst a0. clear Ha.
  apply bind_ok in H. destruct H as (pt & Hpt & H).
  apply bind_ok in H. destruct H as (s2 & H2 & H).
  apply bind_ok in H. destruct H as (s3 & H3 & H). inversion H; subst s3 pt. clear H.
  pose proof (dy_part_spec _ _ _ Hpt) as (Pn & Psn & Psa & _).
  apply debit_lpf_spec in H2. destruct H2 as (D2 & F2 & S2 & L2 & B2).
  apply debit_sf_spec in H3. destruct H3 as (D3 & F3 & S3 & L3 & B3).
  destruct D2 as (A2 & U2 & R2 & O2 & N2). destruct D3 as (A3 & U3 & R3 & O3 & N3).
  exists a. constructor; try assumption.
  - rewrite A3, A2. reflexivity.
  - rewrite N3, N2. reflexivity.
  - intros m. unfold sup. rewrite U3, U2. simpl. rewrite aget_aset. reflexivity.
  - intros m. unfold rel. rewrite R3, R2. simpl. rewrite aget_aset. reflexivity.
  - intros key. rewrite O3, O2. simpl. rewrite aget_aset. reflexivity.
  - intros k. unfold lpf_bal in *. rewrite S3, B2, Pn. reflexivity.
  - intros k. unfold sf_bal in *. rewrite B3, S2, Psn, Psa. reflexivity.
  - rewrite <- Pn. exact L2.
  - unfold sf_bal in *. rewrite S2, Psn, Psa in L3. exact L3.
  - rewrite F3, F2. reflexivity.
Qed.

(** ------------------------------------------------------------------ mint *)
Record minted (s s' : st) (c : Z) (a : dattr) (n : Z) : Prop := mkMinted {
  mt_pos : 0 < d_sfa a;
  mt_n : n = s_next s + 1;
  mt_attrs : s_attrs s' = s_attrs s ++ [(n, a)];
  mt_next : s_next s' = n;
  mt_sup : forall m, sup s' m = if n =? m then sup s n + d_sfa a else sup s m;
  mt_rel : forall m, rel s' m = rel s m;
  mt_hold : forall key, aget (s_hold s') key = if hkey n c =? key then hold s n c + d_sfa a else aget (s_hold s) key;
  mt_lpf : forall k, lpf_bal s' k = lpf_bal s k + (if d_lpn a =? k then d_lpa a else 0);
  mt_sf : forall k, sf_bal s' k = sf_bal s k + (if d_sfn a =? k then d_sfa a else 0);
  mt_fung : s_fung s' = s_fung s
}.

Lemma mint_spec s c a s' n : mint_dy s c a = Ok (s', n) -> minted s s' c a n.
Proof.
  unfold mint_dy. destruct (0 <? d_sfa a) eqn:E; [|discriminate]. apply Z.ltb_lt in E.
  intros H. inversion H; subst. clear H.
  constructor; try reflexivity; try assumption.
  - intros m. unfold sup. simpl. rewrite aget_aset. reflexivity.
  - intros key. simpl. rewrite aget_aset. reflexivity.
  - intros k. unfold lpf_bal. simpl. rewrite aget_aset. unfold lpf_bal. simpl.
    destruct (d_lpn a =? k) eqn:Ek; [apply Z.eqb_eq in Ek; subst; lia | lia].
  - intros k. unfold sf_bal. simpl. rewrite aget_aset. unfold sf_bal. simpl.
    destruct (d_sfn a =? k) eqn:Ek; [apply Z.eqb_eq in Ek; subst; lia | lia].
Qed.

(** ================================================================== 2. the backing invariant *)
(** what one dual-yield nonce still claims from the proxy's balance of farm-token nonce [k] *)
Definition lp_term (s : st) (k n : Z) (a : dattr) : Z := if d_lpn a =? k then d_lpa a - rel s n else 0.
Definition sf_term (s : st) (k n : Z) (a : dattr) : Z := if d_sfn a =? k then sup s n else 0.
Definition lp_claim (s : st) (k : Z) : Z := wsum (lp_term s k) (s_attrs s).
Definition sf_claim (s : st) (k : Z) : Z := wsum (sf_term s k) (s_attrs s).

(** per nonce: T > 0, L >= 0, outstanding supply within [0, T], released LP-farm amount [r] with
    r * T <= L * (T - outstanding): what was released is at most the proportional share of what was redeemed *)
Definition nonce_ok (s : st) (n : Z) (a : dattr) : Prop :=
  0 < d_sfa a /\ 0 <= d_lpa a /\ 0 <= sup s n <= d_sfa a /\ 0 <= rel s n /\
  rel s n * d_sfa a <= d_lpa a * (d_sfa a - sup s n).

Record InvB (s : st) : Prop := mkInvB {
  iv_next : 0 <= s_next s;
  iv_nodup : NoDup (map fst (s_attrs s));
  iv_range : forall n a, In (n, a) (s_attrs s) -> 0 < n <= s_next s;
  iv_fresh : forall n, ~ In n (map fst (s_attrs s)) -> sup s n = 0 /\ rel s n = 0;
  iv_nonce : forall n a, In (n, a) (s_attrs s) -> nonce_ok s n a;
  iv_lpf : forall k, lpf_bal s k = lp_claim s k;
  iv_sf : forall k, sf_bal s k = sf_claim s k
}.

Definition Inv (s : st) : Prop := InvB s /\ forall t, fbal s t = 0.

(** states that agree on everything [InvB] looks at *)
Definition same_back (s s' : st) : Prop :=
  s_attrs s' = s_attrs s /\ s_next s' = s_next s /\ s_sup s' = s_sup s /\ s_rel s' = s_rel s /\
  (forall k, lpf_bal s' k = lpf_bal s k) /\ (forall k, sf_bal s' k = sf_bal s k).

Lemma same_back_refl s : same_back s s.
Proof. repeat split. Qed.

Lemma same_back_trans s1 s2 s3 : same_back s1 s2 -> same_back s2 s3 -> same_back s1 s3.
Proof.
  intros (A1 & N1 & U1 & R1 & L1 & S1) (A2 & N2 & U2 & R2 & L2 & S2).
  split; [congruence|]. split; [congruence|]. split; [congruence|]. split; [congruence|].
  split; intros k; [rewrite L2, L1 | rewrite S2, S1]; reflexivity.
Qed.

Lemma eq_same_back s s' : eq_dy s s' -> eq_farm s s' -> same_back s s'.
Proof.
  intros (A & U & R & O & N) (L & S). repeat split; try assumption; intros k; unfold lpf_bal, sf_bal; congruence.
Qed.

Lemma credit_f_back s t x : same_back s (credit_f s t x).
Proof. destruct (credit_f_spec s t x) as (D & F & _). apply eq_same_back; assumption. Qed.

Lemma debit_f_back s t x s' : debit_f s t x = Ok s' -> same_back s s'.
Proof. intros H. apply debit_f_spec in H. destruct H as (D & F & _). apply eq_same_back; assumption. Qed.

Lemma InvB_ext s s' : same_back s s' -> InvB s -> InvB s'.
Proof.
  intros (A & N & U & R & L & S) [I0 I1 I2 I3 I4 I5 I6].
  assert (Hsup : forall m, sup s' m = sup s m) by (intros; unfold sup; rewrite U; reflexivity).
  assert (Hrel : forall m, rel s' m = rel s m) by (intros; unfold rel; rewrite R; reflexivity).
  constructor.
  - rewrite N. exact I0.
  - rewrite A. exact I1.
  - intros n a. rewrite A, N. apply I2.
  - intros n. rewrite A, Hsup, Hrel. apply I3.
  - intros n a. rewrite A. intros Hin. unfold nonce_ok. rewrite Hsup, Hrel. apply I4. exact Hin.
  - intros k. rewrite L, I5. unfold lp_claim. rewrite A. apply wsum_ext. intros n a _. unfold lp_term. rewrite Hrel. reflexivity.
  - intros k. rewrite S, I6. unfold sf_claim. rewrite A. apply wsum_ext. intros n a _. unfold sf_term. rewrite Hsup. reflexivity.
Qed.

Lemma nodup_snoc (l : list Z) x : NoDup l -> ~ In x l -> NoDup (l ++ [x]).
Proof.
  induction l as [|y t IH]; simpl; intros Hnd Hni.
  - constructor; [intros [] | constructor].
  - inversion Hnd as [|? ? Hy Ht]; subst. constructor.
    + intros Hin. apply in_app_or in Hin. destruct Hin as [Hin|[Heq|[]]]; [contradiction | subst; apply Hni; auto].
    + apply IH; [exact Ht | intros Hin; apply Hni; auto].
Qed.

(** redeeming [p] units of nonce [n] keeps the invariant *)
Lemma release_inv s s' c n p a part : released s s' c n p a part -> InvB s -> InvB s'.
Proof.
  intros [Ha Hpt Hp Hh Hs At Nx Su Re Ho Lp Sf Ll Sl Fu] [I0 I1 I2 I3 I4 I5 I6].
  pose proof (find_attr_in _ _ _ Ha) as Hin.
  pose proof (dy_part_spec _ _ _ Hpt) as (Pn & Psn & Psa & Pcase).
  constructor.
  - rewrite Nx. exact I0.
  - rewrite At. exact I1.
  - intros m b. rewrite At, Nx. apply I2.
  - intros m. rewrite At. intros Hni. rewrite Su, Re.
    assert (n <> m) by (intros ->; apply Hni; change m with (fst (m, a)); apply in_map; exact Hin).
    rewrite (proj2 (Z.eqb_neq _ _) H). apply I3. exact Hni.
  - intros m b. rewrite At. intros Hm. unfold nonce_ok. rewrite Su, Re.
    destruct (n =? m) eqn:E.
    + apply Z.eqb_eq in E. subst m.
      assert (b = a) by (pose proof (in_find_attr _ _ _ I1 Hm) as Hb; rewrite Ha in Hb; inversion Hb; reflexivity). subst b.
      destruct (I4 n a Hin) as (HT & HL & (Hs0 & HsT) & Hr0 & Hr).
      destruct Pcase as [[Hfull HLp] | (Hne & Hnz & HLp & Hpnz)].
      * (* whole supply redeemed at once: nothing was released before *)
        rewrite HLp. assert (sup s n = d_sfa a) by lia. assert (rel s n = 0) by nia.
        repeat split; try lia; nia.
      * set (q := d_lpa a * p / d_sfa a) in *.
        assert (Hq1 : q * d_sfa a <= d_lpa a * p) by (apply div_lo; lia).
        assert (Hq0 : 0 <= q) by (apply div_nonneg; [nia | lia]).
        clearbody q. rewrite HLp. repeat split; try lia; nia.
    + apply I4. exact Hm.
  - intros k. rewrite Lp, I5. unfold lp_claim. rewrite At. symmetry.
    apply (wsum_change (lp_term s k) (lp_term s' k) (s_attrs s) n a); [exact I1 | exact Hin | |].
    + unfold lp_term. rewrite Re, Z.eqb_refl. destruct (d_lpn a =? k); lia.
    + intros m b _ Hne. unfold lp_term. rewrite Re. rewrite (proj2 (Z.eqb_neq n m)) by congruence. reflexivity.
  - intros k. rewrite Sf, I6. unfold sf_claim. rewrite At. symmetry.
    apply (wsum_change (sf_term s k) (sf_term s' k) (s_attrs s) n a); [exact I1 | exact Hin | |].
    + unfold sf_term. rewrite Su, Z.eqb_refl. destruct (d_sfn a =? k); lia.
    + intros m b _ Hne. unfold sf_term. rewrite Su. rewrite (proj2 (Z.eqb_neq n m)) by congruence. reflexivity.
Qed.

(** creating a nonce whose recorded farm tokens are credited keeps the invariant *)
Lemma mint_inv s s' c a n : minted s s' c a n -> 0 <= d_lpa a -> InvB s -> InvB s'.
Proof.
  intros [HT Hn At Nx Su Re Ho Lp Sf Fu] HL [I0 I1 I2 I3 I4 I5 I6].
  assert (Hfresh : ~ In n (map fst (s_attrs s))).
  { intros Hin. apply in_map_iff in Hin. destruct Hin as ([m b] & Hm & Hin). simpl in Hm. subst m.
    apply I2 in Hin. lia. }
  destruct (I3 n Hfresh) as [Hs0 Hr0].
  assert (Hne : forall m b, In (m, b) (s_attrs s) -> n <> m).
  { intros m b Hin ->. apply Hfresh. change m with (fst (m, b)). apply in_map. exact Hin. }
  constructor.
  - rewrite Nx. lia.
  - rewrite At, map_app. simpl. apply nodup_snoc; assumption.
  - intros m b. rewrite At, Nx. intros Hin. apply in_app_or in Hin. destruct Hin as [Hin|[Heq|[]]].
    + apply I2 in Hin. lia.
    + inversion Heq; subst. lia.
  - intros m. rewrite At, map_app. simpl. intros Hni. rewrite Su, Re.
    assert (n <> m) by (intros ->; apply Hni; apply in_or_app; right; simpl; auto).
    rewrite (proj2 (Z.eqb_neq _ _) H). apply I3. intros Hin. apply Hni. apply in_or_app. auto.
  - intros m b. rewrite At. intros Hin. unfold nonce_ok. rewrite Su, Re. apply in_app_or in Hin. destruct Hin as [Hin|[Heq|[]]].
    + rewrite (proj2 (Z.eqb_neq _ _) (Hne m b Hin)). apply I4. exact Hin.
    + inversion Heq; subst m b. rewrite Z.eqb_refl, Hs0, Hr0. repeat split; lia.
  - intros k. rewrite Lp, I5. unfold lp_claim. rewrite At, wsum_app. simpl.
    rewrite (wsum_ext (lp_term s' k) (lp_term s k) (s_attrs s)) by (intros; unfold lp_term; rewrite Re; reflexivity).
    unfold lp_term at 3. rewrite Re, Hr0. destruct (d_lpn a =? k); lia.
  - intros k. rewrite Sf, I6. unfold sf_claim. rewrite At, wsum_app. simpl.
    rewrite (wsum_ext (sf_term s' k) (sf_term s k) (s_attrs s)).
    + unfold sf_term at 3. rewrite Su, Z.eqb_refl, Hs0. destruct (d_sfn a =? k); lia.
    + intros m b Hin. unfold sf_term. rewrite Su. rewrite (proj2 (Z.eqb_neq _ _) (Hne m b Hin)). reflexivity.
Qed.

(** ------------------------------------------------------------------ the endpoints, decomposed *)
Definition part_of_pay (s : st) (p : pay) (part : dattr) : Prop :=
  exists a, find_attr (s_attrs s) (p_nonce p) = Some a /\ dy_part a (p_amt p) = Ok part.

Lemma release_all_spec ps : forall s c s' parts, release_all s c ps = Ok (s', parts) ->
  (InvB s -> InvB s') /\ s_attrs s' = s_attrs s /\ s_fung s' = s_fung s /\ Forall2 (part_of_pay s) ps parts.
Proof.
  induction ps as [|p t IH]; intros s c s' parts H; simpl in H.
  - inversion H; subst. split; [auto|]. split; [reflexivity|]. split; [reflexivity|]. constructor.
  - apply bind_ok in H. destruct H as ([s1 part] & H1 & H).
    apply bind_ok in H. destruct H as ([s2 parts'] & H2 & H). inversion H; subst. clear H.
    apply release_spec in H1. destruct H1 as (a & R).
    destruct (IH _ _ _ _ H2) as (Hinv & Hat & Hfu & Hall).
    split; [|split; [|split]].
    + intros I. apply Hinv. eapply release_inv; eassumption.
    + rewrite Hat. apply (rl_attrs _ _ _ _ _ _ _ R).
    + rewrite Hfu. apply (rl_fung _ _ _ _ _ _ _ R).
    + constructor.
      * exists a. split; [apply (rl_attr _ _ _ _ _ _ _ R) | apply (rl_part _ _ _ _ _ _ _ R)].
      * clear - Hall R. induction Hall as [|q pt l l' (b & Hb & Hpt) _ IHl]; constructor; [|exact IHl].
        exists b. rewrite <- (rl_attrs _ _ _ _ _ _ _ R). auto.
Qed.

Definition sf_toks (parts : list dattr) : list (Z * Z) := map (fun p => (d_sfn p, d_sfa p)) parts.
Definition lp_toks (parts : list dattr) : list (Z * Z) := map (fun p => (d_lpn p, d_lpa p)) parts.

(** what a successful stakeFarmTokens is made of *)
Definition merged_attr (k a : Z) (adds : list pay) (e : env_stake) : dattr :=
  match adds with
  | [] => mkDA k a (es_sfn e) (es_sfa e)
  | _ => mkDA (es_lpn e) (es_lpa e) (es_sfn e) (es_sfa e)
  end.
Definition merged_bl (adds : list pay) (e : env_stake) : Z := match adds with [] => 0 | _ => es_bl e end.

Record staked (s s' : st) (c : Z) (pays : list pay) (e : env_stake) (o : outs) (cs : list call)
  (k a : Z) (adds : list pay) (s1 s3 s4 : st) (parts : list dattr) (v ot oa n : Z) : Prop := mkStaked {
  sk_pays : pays = (TK_LPF, k, a) :: adds;
  sk_apos : 0 < a;
  sk_rel : release_all s c adds = Ok (s1, parts);
  sk_pick : pick_staking (es_sp e) = Ok (v, ot, oa);
  sk_b13 : same_back s1 s3;
  sk_mint : minted s3 s4 c (merged_attr k a adds e) n;
  sk_b4 : same_back s4 s';
  sk_hold : s_hold s' = s_hold s4;
  sk_fung : forall t, fbal s' t = fbal s t;
  sk_outs : o = [n; es_sfa e; es_bs e; merged_bl adds e];
  sk_calls : cs = CSafePrice a :: CStkEnter v (sf_toks parts) ::
                  match adds with [] => [] | _ => [CLpMerge (lp_toks parts ++ [(k, a)])] end
}.

Lemma fbal_of_fung s s' : s_fung s' = s_fung s -> forall t, fbal s' t = fbal s t.
Proof. intros H t. unfold fbal. rewrite H. reflexivity. Qed.

Lemma stake_spec s c oc pays e s' o cs : ep_stake s c oc pays e = Ok (s', o, cs) ->
  exists k a adds s1 s3 s4 parts v ot oa n, staked s s' c pays e o cs k a adds s1 s3 s4 parts v ot oa n.
Proof.
  unfold ep_stake. intros H.
  destruct (orig_caller_ok oc); [|discriminate].
  destruct pays as [|first adds]; [discriminate|].
  destruct (forallb (fun p => 0 <? p_amt p) (first :: adds)) eqn:Epos; [|discriminate].
  destruct (p_tok first =? TK_LPF) eqn:Etok; [|discriminate].
  destruct (forallb is_dy adds) eqn:Edy; [|discriminate].
  apply bind_ok in H. destruct H as ([s1 parts] & Hrel & H).
  destruct (es_fail e); [discriminate|]. simpl negb in H. cbv iota in H.
  apply bind_ok in H. destruct H as ([[v ot] oa] & Hpick & H).
  destruct first as [[t0 k] a]. unfold p_tok, p_nonce, p_amt in *. simpl fst in *. simpl snd in *.
  apply Z.eqb_eq in Etok. subst t0.
  simpl in Epos. apply andb_prop in Epos. destruct Epos as [Ea _]. apply Z.ltb_lt in Ea.
  destruct (release_all_spec _ _ _ _ _ Hrel) as (_ & _ & Hfu1 & _).
  destruct adds as [|ad adds'].
  - (* no additional tokens: the base LP-farm token is kept *)
    apply bind_ok in H. destruct H as ([s4 n] & Hmint & H).
    apply bind_ok in H. destruct H as (s5 & H5 & H).
    apply bind_ok in H. destruct H as (s6 & H6 & H). inversion H; subst. clear H.
    apply mint_spec in Hmint.
    pose proof (debit_f_spec _ _ _ _ H5) as (D5 & F5 & _ & B5).
    pose proof (debit_f_spec _ _ _ _ H6) as (D6 & F6 & _ & B6).
    destruct (credit_f_spec s1 TK_STK (es_bs e)) as (_ & _ & C2).
    exists k, a, [], s1, (credit_f s1 TK_STK (es_bs e)), s4, parts, v, ot, oa, n.
    refine (mkStaked s _ c _ e _ _ k a [] s1 _ s4 parts v ot oa n
              eq_refl Ea Hrel Hpick (credit_f_back _ _ _) Hmint _ _ _ eq_refl eq_refl).
    + eapply same_back_trans; eapply debit_f_back; eassumption.
    + destruct D5 as (_ & _ & _ & O5 & _). destruct D6 as (_ & _ & _ & O6 & _). congruence.
    + intros t. rewrite B6, B5. rewrite (fbal_of_fung _ _ (mt_fung _ _ _ _ _ Hmint)). rewrite C2.
      rewrite (fbal_of_fung _ _ Hfu1). destruct (TK_STK =? t); destruct (TK_REW =? t); lia.
  - apply bind_ok in H. destruct H as ([s4 n] & Hmint & H).
    apply bind_ok in H. destruct H as (s5 & H5 & H).
    apply bind_ok in H. destruct H as (s6 & H6 & H). inversion H; subst. clear H.
    apply mint_spec in Hmint.
    pose proof (debit_f_spec _ _ _ _ H5) as (D5 & F5 & _ & B5).
    pose proof (debit_f_spec _ _ _ _ H6) as (D6 & F6 & _ & B6).
    destruct (credit_f_spec s1 TK_STK (es_bs e)) as (_ & _ & C2).
    destruct (credit_f_spec (credit_f s1 TK_STK (es_bs e)) TK_REW (es_bl e)) as (_ & _ & C3).
    exists k, a, (ad :: adds'), s1, (credit_f (credit_f s1 TK_STK (es_bs e)) TK_REW (es_bl e)), s4, parts, v, ot, oa, n.
    refine (mkStaked s _ c _ e _ _ k a (ad :: adds') s1 _ s4 parts
              v ot oa n eq_refl Ea Hrel Hpick _ Hmint _ _ _ eq_refl eq_refl).
    + eapply same_back_trans; apply credit_f_back.
    + eapply same_back_trans; eapply debit_f_back; eassumption.
    + destruct D5 as (_ & _ & _ & O5 & _). destruct D6 as (_ & _ & _ & O6 & _). congruence.
    + intros t. rewrite B6, B5. rewrite (fbal_of_fung _ _ (mt_fung _ _ _ _ _ Hmint)). rewrite C3, C2.
      rewrite (fbal_of_fung _ _ Hfu1). destruct (TK_STK =? t); destruct (TK_REW =? t); lia.
Qed.

Lemma eq_dy_refl s : eq_dy s s.
Proof. repeat split. Qed.
Lemma eq_dy_trans s1 s2 s3 : eq_dy s1 s2 -> eq_dy s2 s3 -> eq_dy s1 s3.
Proof. intros (A1 & U1 & R1 & O1 & N1) (A2 & U2 & R2 & O2 & N2). repeat split; congruence. Qed.
Lemma eq_farm_trans s1 s2 s3 : eq_farm s1 s2 -> eq_farm s2 s3 -> eq_farm s1 s3.
Proof. intros (L1 & S1) (L2 & S2). split; congruence. Qed.

(** what a successful claimDualYield is made of *)
Record claimed (s s' : st) (c : Z) (pays : list pay) (e : env_claim) (o : outs) (cs : list call)
  (n p : Z) (a part : dattr) (s1 s2 s3 : st) (v ot oa n' : Z) : Prop := mkClaimed {
  cl_pays : pays = [(TK_DY, n, p)];
  cl_rel : released s s1 c n p a part;
  cl_pick : pick_staking (ec_sp e) = Ok (v, ot, oa);
  cl_b12 : same_back s1 s2;
  cl_mint : minted s2 s3 c (mkDA (ec_lpn e) (ec_lpa e) (ec_sfn e) (ec_sfa e)) n';
  cl_b3 : same_back s3 s';
  cl_hold : s_hold s' = s_hold s3;
  cl_fung : forall t, fbal s' t = fbal s t;
  cl_outs : o = [ec_rl e; ec_rs e; n'; ec_sfa e];
  cl_calls : cs = [CSafePrice (d_lpa part); CLpClaim (d_lpn part) (d_lpa part); CStkClaim (d_sfn part) (d_sfa part) v]
}.

Lemma claim_spec s c oc pays e s' o cs : ep_claim s c oc pays e = Ok (s', o, cs) ->
  exists n p a part s1 s2 s3 v ot oa n', claimed s s' c pays e o cs n p a part s1 s2 s3 v ot oa n'.
Proof.
  unfold ep_claim. intros H.
  destruct (orig_caller_ok oc); [|discriminate].
  destruct pays as [|p0 [|? ?]]; try discriminate.
  destruct (p_tok p0 =? TK_DY) eqn:Etok; [|discriminate].
  apply bind_ok in H. destruct H as ([s1 part] & Hrel & H).
  destruct (ec_fail e); [discriminate|]. simpl negb in H. cbv iota in H.
  apply bind_ok in H. destruct H as ([[v ot] oa] & Hpick & H).
  apply bind_ok in H. destruct H as ([s3 n'] & Hmint & H).
  apply bind_ok in H. destruct H as (s4 & H4 & H).
  apply bind_ok in H. destruct H as (s5 & H5 & H). inversion H; subst. clear H.
  destruct p0 as [[t0 n] p]. unfold p_tok, p_nonce, p_amt in *. simpl fst in *. simpl snd in *.
  apply Z.eqb_eq in Etok. subst t0.
  apply release_spec in Hrel. destruct Hrel as (a & R).
  apply mint_spec in Hmint.
  pose proof (debit_f_spec _ _ _ _ H4) as (D4 & F4 & _ & B4).
  pose proof (debit_f_spec _ _ _ _ H5) as (D5 & F5 & _ & B5).
  destruct (credit_f_spec s1 TK_REW (ec_rl e)) as (_ & _ & C1).
  destruct (credit_f_spec (credit_f s1 TK_REW (ec_rl e)) TK_STK (ec_rs e)) as (_ & _ & C2).
  exists n, p, a, part, s1, (credit_f (credit_f s1 TK_REW (ec_rl e)) TK_STK (ec_rs e)), s3, v, ot, oa, n'.
  refine (mkClaimed s _ c _ e _ _ n p a part s1 _ s3 v ot oa n' eq_refl R Hpick _ Hmint _ _ _ eq_refl eq_refl).
  - eapply same_back_trans; apply credit_f_back.
  - eapply same_back_trans; eapply debit_f_back; eassumption.
  - destruct D4 as (_ & _ & _ & O4 & _). destruct D5 as (_ & _ & _ & O5 & _). congruence.
  - intros t. rewrite B5, B4. rewrite (fbal_of_fung _ _ (mt_fung _ _ _ _ _ Hmint)). rewrite C2, C1.
    rewrite (fbal_of_fung _ _ (rl_fung _ _ _ _ _ _ _ R)). destruct (TK_STK =? t); destruct (TK_REW =? t); lia.
Qed.

(** what a successful unstakeFarmTokens is made of *)
Record unstaked (s s' : st) (c : Z) (pays : list pay) (m1 m2 : Z) (e : env_unstake) (o : outs) (cs : list call)
  (n p : Z) (a part : dattr) (s1 : st) (stk ot oa : Z) : Prop := mkUnstaked {
  us_pays : pays = [(TK_DY, n, p)];
  us_rel : released s s1 c n p a part;
  us_pick : pick_staking (eu_rm e) = Ok (stk, ot, oa);
  us_dy : eq_dy s1 s';
  us_lpf : forall k, lpf_bal s' k = lpf_bal s1 k;
  us_sf : forall k, sf_bal s' k = sf_bal s1 k;
  us_fung : forall t, fbal s' t = fbal s t;
  us_outs : o = [oa; eu_rl e; eu_rs e; eu_ubn e; eu_uba e];
  us_calls : cs = [CLpExit (d_lpn part) (d_lpa part); CPairRemove (eu_lp e) m1 m2; CStkUnstake stk (d_sfn part) (d_sfa part)]
}.

Lemma unstake_spec s c oc pays m1 m2 e s' o cs : ep_unstake s c oc pays m1 m2 e = Ok (s', o, cs) ->
  exists n p a part s1 stk ot oa, unstaked s s' c pays m1 m2 e o cs n p a part s1 stk ot oa.
Proof.
  unfold ep_unstake. intros H.
  destruct (orig_caller_ok oc); [|discriminate].
  destruct pays as [|p0 [|? ?]]; try discriminate.
  destruct (p_tok p0 =? TK_DY) eqn:Etok; [|discriminate].
  apply bind_ok in H. destruct H as ([s1 part] & Hrel & H).
  destruct (eu_fail e); [discriminate|]. simpl negb in H. cbv iota in H.
  apply bind_ok in H. destruct H as (s3 & H3 & H).
  destruct (eu_rm e) as [[[t1 a1] t2] a2] eqn:Erm.
  apply bind_ok in H. destruct H as ([[stk ot] oa] & Hpick & H).
  apply bind_ok in H. destruct H as (s5 & H5 & H).
  apply bind_ok in H. destruct H as (s7 & H7 & H).
  apply bind_ok in H. destruct H as (s8 & H8 & H).
  apply bind_ok in H. destruct H as (s9 & H9 & H).
  apply bind_ok in H. destruct H as (s10 & H10 & H). inversion H; subst. clear H.
  destruct p0 as [[t0 n] p]. unfold p_tok, p_nonce, p_amt in *. simpl fst in *. simpl snd in *.
  apply Z.eqb_eq in Etok. subst t0.
  apply release_spec in Hrel. destruct Hrel as (a & R).
  set (s2 := credit_f (credit_f s1 TK_LP (eu_lp e)) TK_REW (eu_rl e)) in *.
  set (s4 := credit_f (credit_f s3 t1 a1) t2 a2) in *.
  set (s6 := credit_f (credit_sf s5 (eu_ubn e) (eu_uba e)) TK_STK (eu_rs e)) in *.
  destruct (credit_f_spec s1 TK_LP (eu_lp e)) as (Da & Fa & Ca).
  destruct (credit_f_spec (credit_f s1 TK_LP (eu_lp e)) TK_REW (eu_rl e)) as (Db & Fb & Cb). fold s2 in Db, Fb, Cb.
  pose proof (debit_f_spec _ _ _ _ H3) as (D3 & F3 & _ & B3).
  destruct (credit_f_spec s3 t1 a1) as (Dc & Fc & Cc).
  destruct (credit_f_spec (credit_f s3 t1 a1) t2 a2) as (Dd & Fd & Cd). fold s4 in Dd, Fd, Cd.
  pose proof (debit_f_spec _ _ _ _ H5) as (D5 & F5 & _ & B5).
  destruct (credit_sf_spec s5 (eu_ubn e) (eu_uba e)) as (De & Ge & Le & Se).
  destruct (credit_f_spec (credit_sf s5 (eu_ubn e) (eu_uba e)) TK_STK (eu_rs e)) as (Df & Ff & Cf). fold s6 in Df, Ff, Cf.
  pose proof (debit_f_spec _ _ _ _ H7) as (D7 & F7 & _ & B7).
  pose proof (debit_f_spec _ _ _ _ H8) as (D8 & F8 & _ & B8).
  pose proof (debit_f_spec _ _ _ _ H9) as (D9 & F9 & _ & B9).
  pose proof (debit_sf_spec _ _ _ _ H10) as (D10 & G10 & L10 & _ & S10).
  exists n, p, a, part, s1, stk, ot, oa.
  refine (mkUnstaked s _ c _ m1 m2 e _ _ n p a part s1 stk ot oa eq_refl R _ _ _ _ _ eq_refl eq_refl).
  - rewrite Erm. exact Hpick.
  - repeat (eapply eq_dy_trans; [eassumption|]). apply eq_dy_refl.
  - intros k. unfold lpf_bal. rewrite L10.
    destruct F9 as [-> _]. destruct F8 as [-> _]. destruct F7 as [-> _]. destruct Ff as [-> _]. rewrite Le.
    destruct F5 as [-> _]. destruct Fd as [-> _]. destruct Fc as [-> _]. destruct F3 as [-> _].
    destruct Fb as [-> _]. destruct Fa as [-> _]. reflexivity.
  - intros k. rewrite S10. unfold sf_bal at 1.
    destruct F9 as [_ ->]. destruct F8 as [_ ->]. destruct F7 as [_ ->]. destruct Ff as [_ ->].
    fold (sf_bal (credit_sf s5 (eu_ubn e) (eu_uba e)) k). rewrite Se. unfold sf_bal.
    destruct F5 as [_ ->]. destruct Fd as [_ ->]. destruct Fc as [_ ->]. destruct F3 as [_ ->].
    destruct Fb as [_ ->]. destruct Fa as [_ ->]. lia.
  - intros t. rewrite (fbal_of_fung _ _ G10). rewrite B9, B8, B7, Cf. rewrite (fbal_of_fung _ _ Ge).
    rewrite B5, Cd, Cc, B3, Cb, Ca. rewrite (fbal_of_fung _ _ (rl_fung _ _ _ _ _ _ _ R)).
    unfold pick_staking in Hpick.
    destruct (t1 =? TK_STK) eqn:E1.
    + inversion Hpick; subst. apply Z.eqb_eq in E1. subst t1.
      destruct (TK_STK =? t); destruct (TK_REW =? t); destruct (TK_LP =? t); destruct (ot =? t); lia.
    + destruct (t2 =? TK_STK) eqn:E2; [|discriminate].
      inversion Hpick; subst. apply Z.eqb_eq in E2. subst t2.
      destruct (TK_STK =? t); destruct (TK_REW =? t); destruct (TK_LP =? t); destruct (ot =? t); lia.
Qed.

(** ------------------------------------------------------------------ every operation keeps [Inv] *)
Lemma env_nonneg_stake c oc pays e : env_nonneg (Stake c oc pays e) = true -> 0 <= es_lpa e.
Proof. simpl. intros H. repeat (apply andb_prop in H; destruct H as [H ?]). apply Z.leb_le. assumption. Qed.

Lemma env_nonneg_claim c oc pays e : env_nonneg (Claim c oc pays e) = true -> 0 <= ec_lpa e.
Proof. simpl. intros H. repeat (apply andb_prop in H; destruct H as [H ?]). apply Z.leb_le. assumption. Qed.

Lemma xfer_back s src dst n amt s' o cs : ep_xfer s src dst n amt = Ok (s', o, cs) ->
  same_back s s' /\ s_fung s' = s_fung s /\ o = [] /\ cs = [].
Proof.
  unfold ep_xfer. destruct (0 <? amt); [|discriminate]. intros H.
  apply bind_ok in H. destruct H as (h & _ & H). inversion H; subst. repeat split.
Qed.

Lemma step_inv s op s' o cs : step s op = Ok (s', o, cs) -> env_nonneg op = true -> Inv s -> Inv s'.
Proof.
  intros H Hnn [IB IF]. destruct op as [c oc pays e | c oc pays e | c oc pays m1 m2 e | src dst n amt]; simpl in H.
  - apply stake_spec in H. destruct H as (k & a & adds & s1 & s3 & s4 & parts & v & ot & oa & n & K).
    destruct K as [Kp Ka Krel Kpick K13 Kmint K4 Kh Kf Ko Kc].
    destruct (release_all_spec _ _ _ _ _ Krel) as (Hinv & _).
    split; [|intros t; rewrite Kf; apply IF].
    eapply InvB_ext; [exact K4|]. eapply mint_inv; [exact Kmint | | eapply InvB_ext; [exact K13 | auto]].
    unfold merged_attr. destruct adds; simpl; [lia | eapply env_nonneg_stake; eassumption].
  - apply claim_spec in H. destruct H as (n & p & a & part & s1 & s2 & s3 & v & ot & oa & n' & K).
    destruct K as [Kp Krel Kpick K12 Kmint K3 Kh Kf Ko Kc].
    split; [|intros t; rewrite Kf; apply IF].
    eapply InvB_ext; [exact K3|]. eapply mint_inv; [exact Kmint | simpl; eapply env_nonneg_claim; eassumption |].
    eapply InvB_ext; [exact K12|]. eapply release_inv; eassumption.
  - apply unstake_spec in H. destruct H as (n & p & a & part & s1 & stk & ot & oa & K).
    destruct K as [Kp Krel Kpick Kdy Kl Ks Kf Ko Kc].
    split; [|intros t; rewrite Kf; apply IF].
    eapply InvB_ext; [|eapply release_inv; eassumption].
    destruct Kdy as (A & U & R & O & N). repeat split; assumption.
  - apply xfer_back in H. destruct H as (B & F & _ & _).
    split; [eapply InvB_ext; eassumption | intros t; rewrite (fbal_of_fung _ _ F); apply IF].
Qed.

Lemma init_inv : Inv init_st.
Proof.
  split; [|reflexivity]. constructor; simpl.
  - lia.
  - constructor.
  - intros n a [].
  - intros n _. split; reflexivity.
  - intros n a [].
  - reflexivity.
  - reflexivity.
Qed.

Definition wf_ops (ops : list mop) : Prop := Forall (fun op => env_nonneg op = true) ops.

Lemma step_total_inv s op : env_nonneg op = true -> Inv s -> Inv (step_total s op).
Proof.
  intros Hnn I. unfold step_total. destruct (step s op) as [[[s' o] cs]|] eqn:E; [|exact I].
  eapply step_inv; eassumption.
Qed.

Lemma run_inv ops : forall s, wf_ops ops -> Inv s -> Inv (run s ops).
Proof.
  induction ops as [|op t IH]; intros s Hwf I; simpl; [exact I|].
  inversion Hwf; subst. apply IH; [assumption|]. apply step_total_inv; assumption.
Qed.

(** C15_backed.  Over every history and every environment (only non-negative amounts assumed):
    (1) the proxy's balance of every LP-farm nonce is exactly what the dual-yield nonces recording it
        have not yet released, and of every staking-farm nonce exactly the outstanding supply of the
        dual-yield nonces recording it;
    (2) hence, for each nonce, the proxy holds at least the staking-farm tokens of its outstanding
        supply and at least its unreleased LP-farm tokens;
    (3) the unreleased LP-farm tokens cover the part of ANY redemption the holders can still make;
    (4) it holds no other token. *)
Definition claimable (a : dattr) (x : Z) : Z := if x =? d_sfa a then d_lpa a else d_lpa a * x / d_sfa a.

Lemma nonce_ok_claimable s n a x : nonce_ok s n a -> 0 <= x <= sup s n -> claimable a x <= d_lpa a - rel s n.
Proof.
  intros (HT & HL & (Hs0 & HsT) & Hr0 & Hr) Hx. unfold claimable.
  destruct (x =? d_sfa a) eqn:E.
  - apply Z.eqb_eq in E. assert (sup s n = d_sfa a) by lia. assert (rel s n = 0) by nia. lia.
  - set (q := d_lpa a * x / d_sfa a).
    assert (Hq : q * d_sfa a <= d_lpa a * x) by (apply div_lo; lia).
    clearbody q.
    (* (q + rel) * T <= L*x + L*(T - sup) <= L*T *)
    assert ((q + rel s n) * d_sfa a <= d_lpa a * d_sfa a) by nia.
    nia.
Qed.

Theorem backed_run ops : wf_ops ops ->
  let s := run init_st ops in
  (forall k, lpf_bal s k = lp_claim s k) /\
  (forall k, sf_bal s k = sf_claim s k) /\
  (forall n a, In (n, a) (s_attrs s) ->
     nonce_ok s n a /\
     sup s n <= sf_bal s (d_sfn a) /\
     d_lpa a - rel s n <= lpf_bal s (d_lpn a) /\
     (forall x, 0 <= x <= sup s n -> claimable a x <= lpf_bal s (d_lpn a))) /\
  (forall t, fbal s t = 0).
Proof.
  intros Hwf s. destruct (run_inv ops init_st Hwf init_inv) as [[I0 I1 I2 I3 I4 I5 I6] IF]. fold s in I0, I1, I2, I3, I4, I5, I6, IF.
  split; [exact I5|]. split; [exact I6|]. split; [|exact IF].
  intros n a Hin. pose proof (I4 n a Hin) as Hok.
  assert (Hsf : sup s n <= sf_bal s (d_sfn a)).
  { rewrite I6. unfold sf_claim.
    pose proof (wsum_ge_term (sf_term s (d_sfn a)) (s_attrs s) n a) as H. unfold sf_term at 2 in H. rewrite Z.eqb_refl in H.
    apply H; [|exact Hin]. intros m b Hm. unfold sf_term. destruct (d_sfn b =? d_sfn a); [|lia].
    destruct (I4 m b Hm) as (_ & _ & (? & _) & _). assumption. }
  assert (Hlp : d_lpa a - rel s n <= lpf_bal s (d_lpn a)).
  { rewrite I5. unfold lp_claim.
    pose proof (wsum_ge_term (lp_term s (d_lpn a)) (s_attrs s) n a) as H. unfold lp_term at 2 in H. rewrite Z.eqb_refl in H.
    apply H; [|exact Hin]. intros m b Hm. unfold lp_term. destruct (d_lpn b =? d_lpn a); [|lia].
    destruct (I4 m b Hm) as (HT & HL & (Hs0 & HsT) & Hr0 & Hr). nia. }
  split; [exact Hok|]. split; [exact Hsf|]. split; [exact Hlp|].
  intros x Hx. pose proof (nonce_ok_claimable s n a x Hok Hx). lia.
Qed.

(** ================================================================== 3. parts *)
(** into_part of the dual-yield attributes against the documented rule: the staking-farm part is
    the payment amount, the LP-farm part is the floor of the proportional share (cross-multiplied
    bounds), the whole when the whole supply is paid, and "Zero amount" exactly when the floor is 0 *)
Theorem dy_part_char a p : 0 < d_sfa a -> 0 <= d_lpa a -> 0 < p ->
  match dy_part a p with
  | Ok part => d_lpn part = d_lpn a /\ d_sfn part = d_sfn a /\ d_sfa part = p /\
               (p = d_sfa a -> d_lpa part = d_lpa a) /\
               (p <> d_sfa a -> 0 < d_lpa part /\
                                d_lpa part * d_sfa a <= d_lpa a * p < d_lpa part * d_sfa a + d_sfa a)
  | Err _ => p <> d_sfa a /\ d_lpa a * p < d_sfa a
  end.
Proof.
  intros HT HL Hp. destruct (dy_part a p) as [part|er] eqn:E.
  - pose proof (dy_part_spec _ _ _ E) as (Pn & Psn & Psa & Pcase).
    split; [exact Pn|]. split; [exact Psn|]. split; [exact Psa|].
    destruct Pcase as [[Hfull HLp] | (Hne & Hnz & HLp & Hpnz)].
    + split; [intros _; exact HLp | intros; contradiction].
    + split; [intros; contradiction | intros _].
      pose proof (div_lo (d_lpa a * p) (d_sfa a) HT). pose proof (div_hi (d_lpa a * p) (d_sfa a) HT).
      assert (0 <= d_lpa a * p / d_sfa a) by (apply div_nonneg; [nia | lia]).
      rewrite HLp in *. lia.
  - unfold dy_part in E. destruct (p =? d_sfa a) eqn:Ep; [discriminate|]. apply Z.eqb_neq in Ep.
    split; [exact Ep|].
    unfold rule3_nz in E. rewrite (proj2 (Z.eqb_neq _ _) Ep) in E. unfold div_chk in E.
    rewrite (proj2 (Z.eqb_neq (d_sfa a) 0)) in E by lia. simpl in E.
    destruct (d_lpa a * p / d_sfa a =? 0) eqn:Ez; simpl in E; [|discriminate].
    apply Z.eqb_eq in Ez. pose proof (div_hi (d_lpa a * p) (d_sfa a) HT). lia.
Qed.

(** any sequence of partial redemptions of at most the whole supply releases at most the whole *)
Definition zsum (l : list Z) : Z := fold_right Z.add 0 l.
Definition floor_parts (L T : Z) (ps : list Z) : Z := fold_right (fun p acc => L * p / T + acc) 0 ps.

Lemma floor_parts_le L T ps : 0 <= L -> 0 < T -> Forall (fun p => 0 <= p) ps -> zsum ps <= T ->
  0 <= floor_parts L T ps <= L.
Proof.
  intros HL HT Hps Hsum.
  assert (H : 0 <= floor_parts L T ps /\ floor_parts L T ps * T <= L * zsum ps /\ 0 <= zsum ps).
  { clear Hsum. induction ps as [|p t IH]; simpl; [lia|].
    inversion Hps; subst. destruct (IH H2) as (I0 & I1 & I2).
    pose proof (div_lo (L * p) T HT). assert (0 <= L * p / T) by (apply div_nonneg; [nia | lia]).
    set (q := L * p / T) in *. clearbody q. repeat split; nia. }
  destruct H as (H0 & H1 & H2). split; [exact H0|]. nia.
Qed.

(** over every history: per nonce, the LP-farm amount released so far is within [0, L], the
    staking-farm amount released (T - outstanding) within [0, T], and the LP-farm amount released is
    at most the proportional share of the staking-farm amount redeemed *)
Theorem parts_run ops : wf_ops ops ->
  let s := run init_st ops in
  forall n a, In (n, a) (s_attrs s) ->
    0 <= rel s n <= d_lpa a /\ 0 <= d_sfa a - sup s n <= d_sfa a /\
    rel s n * d_sfa a <= d_lpa a * (d_sfa a - sup s n).
Proof.
  intros Hwf s n a Hin. destruct (backed_run ops Hwf) as (_ & _ & H & _). fold s in H.
  destruct (H n a Hin) as ((HT & HL & (Hs0 & HsT) & Hr0 & Hr) & _). repeat split; try lia; nia.
Qed.

(** every redemption moves the ghost [rel] by exactly the LP-farm tokens that leave the proxy *)
Lemma release_moves s s' c n p a part : released s s' c n p a part ->
  rel s' n - rel s n = d_lpa part /\
  lpf_bal s (d_lpn a) - lpf_bal s' (d_lpn a) = d_lpa part /\
  sf_bal s (d_sfn a) - sf_bal s' (d_sfn a) = p /\ sup s n - sup s' n = p.
Proof.
  intros R. rewrite (rl_rel _ _ _ _ _ _ _ R), (rl_lpf _ _ _ _ _ _ _ R), (rl_sf _ _ _ _ _ _ _ R), (rl_sup _ _ _ _ _ _ _ R).
  rewrite !Z.eqb_refl. lia.
Qed.

(** ================================================================== 4. unstake *)
(** C15_unstake.  A successful unstakeFarmTokens of [p] units of nonce [n]:
    - sends the recorded part to the LP farm, the LP tokens it got to the pair, and the staking-token
      side [stk] of the pair's answer together with the staking-farm part to the staking farm;
    - returns [other pool token amount of the pair's answer; LP-farm rewards; staking rewards;
      unbond token] exactly as answered; under L5 the unbond amount is [stk]; under L6 the token
      returned first is the other pool token;
    - proxy ledger: every fungible balance is unchanged, the LP-farm balance drops by the released
      part and the staking-farm balance by [p] at the recorded nonces and nowhere else (the unbond
      token passes through), the dual-yield units are burned. *)
Theorem unstake_char s c oc n p m1 m2 e s' o cs :
  step s (Unstake c oc [(TK_DY, n, p)] m1 m2 e) = Ok (s', o, cs) ->
  exists a part stk ot oa,
    find_attr (s_attrs s) n = Some a /\ dy_part a p = Ok part /\
    pick_staking (eu_rm e) = Ok (stk, ot, oa) /\
    o = [oa; eu_rl e; eu_rs e; eu_ubn e; eu_uba e] /\
    cs = [CLpExit (d_lpn a) (d_lpa part); CPairRemove (eu_lp e) m1 m2; CStkUnstake stk (d_sfn a) p] /\
    (law_L5 stk e = true -> eu_uba e = stk) /\
    (law_L6 (eu_rm e) = true -> ot = TK_OTH) /\
    (forall t, fbal s' t = fbal s t) /\
    (forall k, lpf_bal s' k = lpf_bal s k - (if d_lpn a =? k then d_lpa part else 0)) /\
    (forall k, sf_bal s' k = sf_bal s k - (if d_sfn a =? k then p else 0)) /\
    s_attrs s' = s_attrs s /\ sup s' n = sup s n - p /\ hold s' n c = hold s n c - p.
Proof.
  simpl. intros H. apply unstake_spec in H. destruct H as (n0 & p0 & a & part & s1 & stk & ot & oa & K).
  destruct K as [Kp R Kpick Kdy Kl Ks Kf Ko Kc]. inversion Kp; subst n0 p0. clear Kp.
  pose proof (dy_part_spec _ _ _ (rl_part _ _ _ _ _ _ _ R)) as (Pn & Psn & Psa & _).
  destruct Kdy as (A & U & Rl & O & N).
  exists a, part, stk, ot, oa.
  split; [apply (rl_attr _ _ _ _ _ _ _ R)|]. split; [apply (rl_part _ _ _ _ _ _ _ R)|]. split; [exact Kpick|].
  split; [exact Ko|]. split; [rewrite Kc, Pn, Psn, Psa; reflexivity|].
  split; [unfold law_L5; intros HL; apply Z.eqb_eq in HL; exact HL|].
  split.
  { unfold pick_staking in Kpick. unfold law_L6. destruct (eu_rm e) as [[[t1 a1] t2] a2]. intros HL.
    simpl in HL.
    assert (Hc : (t1 = TK_STK /\ t2 = TK_OTH) \/ (t1 = TK_OTH /\ t2 = TK_STK)).
    { apply orb_prop in HL. destruct HL as [HL|HL]; apply andb_prop in HL; destruct HL as [Ha Hb];
        apply Z.eqb_eq in Ha, Hb; auto. }
    clear HL. destruct (t1 =? TK_STK) eqn:E1.
    - inversion Kpick; subst. apply Z.eqb_eq in E1.
      destruct Hc as [[_ Hb]|[Ha _]]; [exact Hb | unfold TK_OTH, TK_STK in *; lia].
    - destruct (t2 =? TK_STK) eqn:E2; [|discriminate]. inversion Kpick; subst. apply Z.eqb_neq in E1.
      destruct Hc as [[Ha _]|[Ha _]]; [contradiction | exact Ha]. }
  split; [exact Kf|].
  split; [intros k; rewrite Kl; apply (rl_lpf _ _ _ _ _ _ _ R)|].
  split; [intros k; rewrite Ks; apply (rl_sf _ _ _ _ _ _ _ R)|].
  split; [rewrite A; apply (rl_attrs _ _ _ _ _ _ _ R)|].
  split.
  - unfold sup at 1. rewrite U. fold (sup s1 n). rewrite (rl_sup _ _ _ _ _ _ _ R), Z.eqb_refl. reflexivity.
  - unfold hold at 1. rewrite O. rewrite (rl_hold _ _ _ _ _ _ _ R), Z.eqb_refl. reflexivity.
Qed.

(** no operation leaves anything in the proxy but the recorded farm tokens: every fungible balance of
    the proxy is the same before and after ANY successful operation (all environments) *)
Theorem no_user_funds_step s op s' o cs : step s op = Ok (s', o, cs) -> forall t, fbal s' t = fbal s t.
Proof.
  intros H. destruct op as [c oc pays e | c oc pays e | c oc pays m1 m2 e | src dst n amt]; simpl in H.
  - apply stake_spec in H. destruct H as (k & a & adds & s1 & s3 & s4 & parts & v & ot & oa & n & K). apply (sk_fung _ _ _ _ _ _ _ _ _ _ _ _ _ _ _ _ _ _ K).
  - apply claim_spec in H. destruct H as (n & p & a & part & s1 & s2 & s3 & v & ot & oa & n' & K). apply (cl_fung _ _ _ _ _ _ _ _ _ _ _ _ _ _ _ _ _ _ K).
  - apply unstake_spec in H. destruct H as (n & p & a & part & s1 & stk & ot & oa & K). apply (us_fung _ _ _ _ _ _ _ _ _ _ _ _ _ _ _ _ _ K).
  - apply xfer_back in H. destruct H as (_ & F & _). apply fbal_of_fung. exact F.
Qed.

(** ================================================================== 5. safe price *)
(** C15_safe (stake).  A successful stakeFarmTokens asks the pair for the SAFE price of exactly the
    LP amount [a] of the LP-farm position (the only price query it makes), and the value it passes to
    stakeFarmThroughProxy is the staking-token side [v] of that answer: [registered cs = v].  Under L3
    the dual-yield token records and is issued for v + the merged staking parts. *)
Theorem stake_safe s c oc pays e s' o cs :
  step s (Stake c oc pays e) = Ok (s', o, cs) ->
  exists k a adds parts v ot oa n new rest,
    pays = (TK_LPF, k, a) :: adds /\ Forall2 (part_of_pay s) adds parts /\
    pick_staking (es_sp e) = Ok (v, ot, oa) /\
    cs = CSafePrice a :: CStkEnter v (sf_toks parts) :: rest /\
    (rest = [] \/ exists toks, rest = [CLpMerge toks]) /\
    registered cs = v /\
    In (n, new) (s_attrs s') /\ o = [n; d_sfa new; es_bs e; merged_bl adds e] /\
    (law_L3 v parts e = true -> d_sfa new = v + sum_sfa parts) /\
    (adds = [] -> d_lpn new = k /\ d_lpa new = a) /\
    (adds <> [] -> law_L2 a parts e = true -> d_lpa new = a + sum_lpa parts).
Proof.
  simpl. intros H. apply stake_spec in H. destruct H as (k & a & adds & s1 & s3 & s4 & parts & v & ot & oa & n & K).
  destruct K as [Kp Ka Krel Kpick K13 Kmint K4 Kh Kf Ko Kc].
  destruct (release_all_spec _ _ _ _ _ Krel) as (_ & _ & _ & Hall).
  exists k, a, adds, parts, v, ot, oa, n, (merged_attr k a adds e),
         (match adds with [] => [] | _ => [CLpMerge (lp_toks parts ++ [(k, a)])] end).
  split; [exact Kp|]. split; [exact Hall|]. split; [exact Kpick|]. split; [exact Kc|].
  split; [destruct adds; [left; reflexivity | right; eexists; reflexivity]|].
  split; [rewrite Kc; destruct adds; simpl; lia|].
  split.
  { destruct K4 as (A & _). rewrite A, (mt_attrs _ _ _ _ _ Kmint). apply in_or_app. right. left. reflexivity. }
  split; [rewrite Ko; unfold merged_attr; destruct adds; reflexivity|].
  split; [unfold law_L3, merged_attr; intros HL; apply Z.eqb_eq in HL; destruct adds; exact HL|].
  split; [intros ->; simpl; auto|].
  intros Hne. unfold law_L2, merged_attr. intros HL. apply Z.eqb_eq in HL. destruct adds; [contradiction | exact HL].
Qed.

(** C15_safe (claim).  claimDualYield re-values the position: the pair is asked for the safe price of
    the LP-farm part, and the staking-token side of the answer is the new value passed to
    claimRewardsWithNewValue; under L4 the new dual-yield token is issued for exactly that value,
    under L1 it records the same LP-farm amount as the part that was claimed. *)
Theorem claim_safe s c oc pays e s' o cs :
  step s (Claim c oc pays e) = Ok (s', o, cs) ->
  exists n p a part v ot oa n' new,
    pays = [(TK_DY, n, p)] /\ find_attr (s_attrs s) n = Some a /\ dy_part a p = Ok part /\
    pick_staking (ec_sp e) = Ok (v, ot, oa) /\
    cs = [CSafePrice (d_lpa part); CLpClaim (d_lpn a) (d_lpa part); CStkClaim (d_sfn a) p v] /\
    registered cs = v - p /\
    In (n', new) (s_attrs s') /\ o = [ec_rl e; ec_rs e; n'; d_sfa new] /\
    (law_L4 v e = true -> d_sfa new = v) /\
    (law_L1 part e = true -> d_lpa new = d_lpa part).
Proof.
  simpl. intros H. apply claim_spec in H. destruct H as (n & p & a & part & s1 & s2 & s3 & v & ot & oa & n' & K).
  destruct K as [Kp R Kpick K12 Kmint K3 Kh Kf Ko Kc].
  pose proof (dy_part_spec _ _ _ (rl_part _ _ _ _ _ _ _ R)) as (Pn & Psn & Psa & _).
  exists n, p, a, part, v, ot, oa, n', (mkDA (ec_lpn e) (ec_lpa e) (ec_sfn e) (ec_sfa e)).
  split; [exact Kp|]. split; [apply (rl_attr _ _ _ _ _ _ _ R)|]. split; [apply (rl_part _ _ _ _ _ _ _ R)|].
  split; [exact Kpick|]. split; [rewrite Kc, Pn, Psn, Psa; reflexivity|].
  split; [rewrite Kc, Psa; simpl; lia|].
  split.
  { destruct K3 as (A & _). rewrite A, (mt_attrs _ _ _ _ _ Kmint). apply in_or_app. right. left. reflexivity. }
  split; [exact Ko|].
  split; [unfold law_L4; intros HL; apply Z.eqb_eq in HL; exact HL | unfold law_L1; intros HL; apply Z.eqb_eq in HL; exact HL].
Qed.

(** ================================================================== 6. the interface laws on the callee models
    L1-L3 are facts about the shared farm base functions (Model/Farm.v: enter / claim / merge are the
    same code in farm, farm-with-locked-rewards and farm-staking), L6 about Model/Pair.v, L7 about
    Model/SafePrice.v (characterised by C13).  L4 (claimRewardsWithNewValue) and L5 (unbond amount =
    staking payment) are specific to farm-staking, for which there is no model here: they are checked
    on every real answer by the correspondence run and the monitors only.
    NOTE the composition "real farm |= law" is proved on the farm MODEL; it is not re-proved
    end-to-end as one closed system. *)
Module Laws.
Import Model.Farm Proofs.FarmInv Model.Pair Model.SafePrice Proofs.SafePriceProofs.

Definition pay_sum (ps : list (Z * Z)) : Z := fold_right (fun p acc => snd p + acc) 0 ps.

Lemma psum_one ps : FarmInv.psum (fun _ => 1) ps = pay_sum ps.
Proof. induction ps as [|[n x] t IH]; simpl; [reflexivity | rewrite IH; lia]. Qed.

(** L1: claimRewards with one position returns a position token of the same amount *)
Lemma L1_farm_claim f blk ep c n x b f' n' amt r :
  Farm.ep_claim f blk ep c (n, x) [] b = Ok (f', [n'; amt; r]) -> amt = x.
Proof.
  unfold Farm.ep_claim. intros H.
  destruct (active f); [|discriminate].
  apply bind_ok in H. destruct H as (f1 & _ & H).
  apply bind_ok in H. destruct H as (f2 & _ & H).
  apply bind_ok in H. destruct H as (a & _ & H).
  apply bind_ok in H. destruct H as (part & Hpart & H).
  apply bind_ok in H. destruct H as (base & _ & H).
  apply bind_ok in H. destruct H as (f3 & _ & H).
  apply bind_ok in H. destruct H as (f4 & _ & H).
  apply bind_ok in H. destruct H as (m & Hm & H).
  simpl in Hm. inversion Hm; subst m. clear Hm.
  destruct (mint_pos f4 _ c) as [f5 k]. inversion H; subst. simpl.
  apply into_part_amt in Hpart. simpl in Hpart. tauto.
Qed.

(** L2: mergeFarmTokens returns a position token whose amount is the sum of the amounts paid in *)
Lemma L2_farm_merge f blk ep c ps b f' n amt b' :
  Farm.ep_merge f blk ep c ps b = Ok (f', [n; amt; b']) -> amt = pay_sum ps.
Proof.
  unfold Farm.ep_merge. intros H.
  destruct (active f); [|discriminate].
  destruct ps as [|first rest]; [discriminate|].
  apply bind_ok in H. destruct H as (f0 & _ & H).
  apply bind_ok in H. destruct H as (f1 & _ & H).
  apply bind_ok in H. destruct H as (f2 & _ & H).
  apply bind_ok in H. destruct H as (a & _ & H).
  apply bind_ok in H. destruct H as (part & Hpart & H).
  apply bind_ok in H. destruct H as (m0 & Hm & H).
  destruct (mint_pos f2 _ c) as [f3 k]. inversion H; subst. simpl.
  apply into_part_amt in Hpart. apply merge_payments_amt in Hm. rewrite psum_one in Hm.
  destruct Hpart as [Hp _]. destruct Hm as [Hm' _]. rewrite Hm', Hp. destruct first. simpl. lia.
Qed.

(** L3: entering with [amt] farming tokens and additional positions returns a position token of
    amount amt + sum of the positions (stakeFarmThroughProxy enters with the simulated payment) *)
Lemma L3_farm_enter f blk ep c amt adds b f' n out b' :
  Farm.ep_enter f blk ep c amt adds b = Ok (f', [n; out; b']) -> out = amt + pay_sum adds.
Proof.
  unfold Farm.ep_enter. intros H.
  destruct (0 <? amt); [|discriminate].
  apply bind_ok in H. destruct H as (f0 & _ & H).
  destruct (active f0); [|discriminate].
  apply bind_ok in H. destruct H as (f1 & _ & H).
  apply bind_ok in H. destruct H as (f2 & _ & H).
  apply bind_ok in H. destruct H as (f4 & _ & H).
  apply bind_ok in H. destruct H as (m & Hm & H).
  destruct (mint_pos _ m c) as [f6 k]. inversion H; subst.
  apply merge_payments_amt in Hm. rewrite psum_one in Hm. simpl in Hm. tauto.
Qed.

(** L6: removeLiquidity returns exactly two payments, the first and the second pool token, both positive *)
Lemma L6_pair_remove p c lp m1 m2 p' o e :
  Pair.ep_remove p c lp m1 m2 = Ok (p', o, e) -> exists x1 x2, o = [x1; x2] /\ 0 < x1 /\ 0 < x2.
Proof.
  unfold Pair.ep_remove. intros H.
  destruct ((0 <? m1) && (0 <? m2)); [|discriminate].
  destruct (is_state_active (p_state p)); [|discriminate].
  destruct (0 <? lp); [|discriminate].
  apply bind_ok in H. destruct H as (p0 & _ & H).
  apply bind_ok in H. destruct H as ([[p1 x1] x2] & Hrm & H).
  destruct (p_r1 p1 * p_r2 p1 <=? p_r1 p * p_r2 p); [|discriminate].
  apply bind_ok in H. destruct H as (p2 & _ & H).
  apply bind_ok in H. destruct H as (p3 & _ & H). inversion H; subst.
  exists x1, x2. split; [reflexivity|].
  unfold pool_remove in Hrm.
  destruct (lp + MINIMUM_LIQUIDITY <=? p_S p0); [|discriminate].
  apply bind_ok in Hrm. destruct Hrm as (y1 & _ & Hrm).
  destruct (0 <? y1) eqn:E1; [|discriminate].
  destruct (m1 <=? y1); [|discriminate]. destruct (y1 <? p_r1 p0); [|discriminate].
  apply bind_ok in Hrm. destruct Hrm as (y2 & _ & Hrm).
  destruct (0 <? y2) eqn:E2; [|discriminate].
  destruct (m2 <=? y2); [|discriminate]. destruct (y2 <? p_r2 p0); [|discriminate].
  apply bind_ok in Hrm. destruct Hrm as (s' & _ & Hrm).
  apply bind_ok in Hrm. destruct Hrm as (r1' & _ & Hrm).
  apply bind_ok in Hrm. destruct Hrm as (r2' & _ & Hrm). inversion Hrm; subst.
  apply Z.ltb_lt in E1, E2. auto.
Qed.

(** L7: what updateAndGetTokensForGivenPositionWithSafePrice answers, as Model/SafePrice.v has it
    ([QLpDef]), tagged with the token codes of the two pool tokens *)
Definition pair_safe_answer (N : Z) (us : list upd) (ev : env) (stk_first : bool) (liq : Z) : result two :=
  do l <- run_query N (ring_of N us) ev (QLpDef liq);
  match l with
  | [x1; x2] => Ok (if stk_first then (TK_STK, x1, TK_OTH, x2) else (TK_OTH, x1, TK_STK, x2))
  | _ => Err EGuard
  end.

Lemma default_offset_pos : 0 < DEFAULT_SAFE_PRICE_ROUNDS_OFFSET.
Proof. vm_compute. reflexivity. Qed.

(** by C13: the staking-token side of the answer is liq * (time-weighted average of the staking-token
    reserve at the start of each round of the window) / (the same average of the LP supply), window =
    the last min(default offset, rounds since the oldest retained observation) rounds *)
Theorem safe_answer_twap N us ev o stk_first liq : 2 <= N ->
  wf_calls us -> (forall u, In u us -> u_round u <= e_now ev) -> pos_upd (cur_upd ev) ->
  get_oldest N (ring_of N us) = Ok o -> ob_round o < e_now ev ->
  let s0 := e_now ev - Z.min DEFAULT_SAFE_PRICE_ROUNDS_OFFSET (e_now ev - ob_round o) in
  let c := cur_upd ev in
  exists r ot oa,
    pair_safe_answer N us ev stk_first liq = Ok r /\ law_L6 r = true /\
    pick_staking r =
      Ok (liq * avg (if stk_first then u_r1 else u_r2) us c s0 (e_now ev) / avg u_S us c s0 (e_now ev), ot, oa).
Proof.
  intros HN Hwf Hnow Hc Ho Hlt s0 c.
  pose proof default_offset_pos as Hoff.
  destruct (offsets_spec N (ring_of N us) ev) as [_ Hdef].
  pose proof (Hdef o Ho ltac:(lia)) as Hs. fold s0 in Hs.
  assert (Hlp := lp_price_spec N HN us ev o s0 (e_now ev) liq Hwf Hnow Hc Ho ltac:(unfold s0; lia) ltac:(unfold s0; lia) ltac:(lia)).
  cbv zeta in Hlp. fold c in Hlp.
  unfold pair_safe_answer, run_query. rewrite Hs. cbn [bind]. rewrite Hlp. cbn [bind].
  destruct stk_first; eexists; eexists; eexists; (split; [reflexivity|]); split; reflexivity.
Qed.

(** C15_safe, closed with L7: when the pair answers as Model/SafePrice.v says, the value a stake
    registers in the staking farm is the time-weighted average valuation of the position's LP
    amount — a function of the start-of-round reserves of the window (C13), not of an arbitrary
    spot quote. *)
Theorem stake_safe_twap N us ev o stk_first s c oc pays e s' out cs : 2 <= N ->
  wf_calls us -> (forall u, In u us -> u_round u <= e_now ev) -> pos_upd (cur_upd ev) ->
  get_oldest N (ring_of N us) = Ok o -> ob_round o < e_now ev ->
  MetaStaking.step s (Stake c oc pays e) = Ok (s', out, cs) ->
  forall k a adds, pays = (TK_LPF, k, a) :: adds ->
  Ok (es_sp e) = pair_safe_answer N us ev stk_first a ->
  let s0 := e_now ev - Z.min DEFAULT_SAFE_PRICE_ROUNDS_OFFSET (e_now ev - ob_round o) in
  registered cs =
    a * avg (if stk_first then u_r1 else u_r2) us (cur_upd ev) s0 (e_now ev) / avg u_S us (cur_upd ev) s0 (e_now ev).
Proof.
  intros HN Hwf Hnow Hc Ho Hlt Hstep k a adds Hp HL7 s0.
  destruct (safe_answer_twap N us ev o stk_first a HN Hwf Hnow Hc Ho Hlt) as (r & ot & oa & Hr & _ & Hpick).
  rewrite Hr in HL7. inversion HL7 as [Hsp]. clear HL7.
  apply stake_safe in Hstep.
  destruct Hstep as (k' & a' & adds' & parts & v & ot' & oa' & n & new & rest & Hp' & _ & Hpick' & _ & _ & Hreg & _).
  rewrite Hp in Hp'. inversion Hp'; subst k' a' adds'. clear Hp'.
  rewrite Hsp, Hpick in Hpick'. injection Hpick' as Hv _ _. rewrite Hreg, <- Hv. reflexivity.
Qed.

End Laws.
