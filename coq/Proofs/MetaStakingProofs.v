(** Proofs about Model/MetaStaking.v (property C15).

    Everything here is RELATIVE TO THE ENVIRONMENT INTERFACE of the model: the farms' and the pair's
    answers are arguments of the operations.  Theorems quantify over ALL answers (only non-negativity
    of amounts, [env_nonneg], is required: they are BigUint) unless a law L1-L7 is named as a
    hypothesis.  Sections:
      1  ledger primitives (what each credit / debit / release / mint changes)
      2  the backing invariant [Inv] and its preservation by every operation, over all histories
      3  parts: floor characterisation of into_part, released parts never exceed the whole
      4  unstake: outputs and ledger deltas
      5  safe price: the value registered in the staking farm is the pair's safe-price answer
      6  the interface laws as lemmas of the callee models where such a model exists
         (L1-L3: Model/Farm.v, L6: Model/Pair.v, L7: Model/SafePrice.v + C13) *)
From MX Require Import Base.Prelude Gen.Params Model.MetaStaking.

(** ================================================================== 1. primitives *)
Lemma aget_aset l k v k' : aget (aset l k v) k' = if k =? k' then v else aget l k'.
Proof.
  destruct (k =? k') eqn:E.
  - apply Z.eqb_eq in E. subst. apply aget_aset_same.
  - apply Z.eqb_neq in E. apply aget_aset_other. exact E.
Qed.

Lemma find_attr_in l n a : find_attr l n = Some a -> In (n, a) l.
Proof.
  induction l as [|[k b] t IH]; simpl; [discriminate|].
  destruct (k =? n) eqn:E.
  - intros H. inversion H; subst. apply Z.eqb_eq in E. subst. auto.
  - intros H. right. auto.
Qed.

Lemma find_attr_none l n : find_attr l n = None -> ~ In n (map fst l).
Proof.
  induction l as [|[k b] t IH]; simpl; [tauto|].
  destruct (k =? n) eqn:E; [discriminate|].
  intros H [Hk|Hin]; [apply Z.eqb_neq in E; contradiction | apply IH; assumption].
Qed.

Lemma in_find_attr l n a : NoDup (map fst l) -> In (n, a) l -> find_attr l n = Some a.
Proof.
  induction l as [|[k b] t IH]; simpl; intros Hnd Hin; [contradiction|].
  inversion Hnd as [|? ? Hni Hnd']; subst.
  destruct Hin as [Heq|Hin].
  - inversion Heq; subst. rewrite Z.eqb_refl. reflexivity.
  - destruct (k =? n) eqn:E.
    + apply Z.eqb_eq in E. subst. exfalso. apply Hni. change n with (fst (n, a)). apply in_map. exact Hin.
    + auto.
Qed.

Lemma find_attr_app l n x : find_attr (l ++ [x]) n =
  match find_attr l n with Some a => Some a | None => if fst x =? n then Some (snd x) else None end.
Proof.
  induction l as [|[k b] t IH]; simpl.
  - destruct x as [k a]. reflexivity.
  - destruct (k =? n); [reflexivity | exact IH].
Qed.

(** sums over the dual-yield nonces ever created *)
Definition wsum (f : Z -> dattr -> Z) (l : list (Z * dattr)) : Z :=
  fold_right (fun na acc => f (fst na) (snd na) + acc) 0 l.

Lemma wsum_ext f g l : (forall n a, In (n, a) l -> f n a = g n a) -> wsum f l = wsum g l.
Proof.
  induction l as [|[n a] t IH]; simpl; intros H; [reflexivity|].
  rewrite (H n a) by auto. rewrite IH by (intros; apply H; auto). reflexivity.
Qed.

Lemma wsum_app f l x : wsum f (l ++ [x]) = wsum f l + f (fst x) (snd x).
Proof. induction l as [|[n a] t IH]; simpl; [lia | rewrite IH; lia]. Qed.

Lemma wsum_change f g l n a d : NoDup (map fst l) -> In (n, a) l ->
  g n a = f n a - d -> (forall m b, In (m, b) l -> m <> n -> g m b = f m b) ->
  wsum g l = wsum f l - d.
Proof.
  induction l as [|[k b] t IH]; simpl; intros Hnd Hin Hn Ho; [contradiction|].
  inversion Hnd as [|? ? Hni Hnd']; subst.
  destruct Hin as [Heq|Hin].
  - inversion Heq; subst. rewrite Hn.
    rewrite (wsum_ext g f t); [lia|].
    intros m c Hm. apply Ho; [auto|]. intros ->. apply Hni. change n with (fst (n, c)). apply in_map. exact Hm.
  - assert (k <> n) by (intros ->; apply Hni; change n with (fst (n, a)); apply in_map; exact Hin).
    rewrite (Ho k b) by auto. rewrite (IH Hnd' Hin Hn) by (intros; apply Ho; auto). lia.
Qed.

Lemma wsum_nonneg f l : (forall n a, In (n, a) l -> 0 <= f n a) -> 0 <= wsum f l.
Proof.
  induction l as [|[n a] t IH]; simpl; intros H; [lia|].
  pose proof (H n a (or_introl eq_refl)). assert (0 <= wsum f t) by (apply IH; intros; apply H; auto). lia.
Qed.

Lemma wsum_ge_term f l n a : (forall m b, In (m, b) l -> 0 <= f m b) -> In (n, a) l -> f n a <= wsum f l.
Proof.
  induction l as [|[k b] t IH]; simpl; intros H Hin; [contradiction|].
  assert (0 <= wsum f t) by (apply wsum_nonneg; intros; apply H; auto).
  destruct Hin as [Heq|Hin].
  - inversion Heq; subst. lia.
  - pose proof (H k b (or_introl eq_refl)). assert (f n a <= wsum f t) by (apply IH; auto). lia.
Qed.

(** the three sub-ledgers a primitive may leave untouched *)
Definition eq_dy (s s' : st) : Prop :=
  s_attrs s' = s_attrs s /\ s_sup s' = s_sup s /\ s_rel s' = s_rel s /\ s_hold s' = s_hold s /\ s_next s' = s_next s.
Definition eq_farm (s s' : st) : Prop := s_lpf s' = s_lpf s /\ s_sf s' = s_sf s.
Definition eq_fung (s s' : st) : Prop := s_fung s' = s_fung s.

Lemma credit_f_spec s t x :
  eq_dy s (credit_f s t x) /\ eq_farm s (credit_f s t x) /\
  forall t', fbal (credit_f s t x) t' = fbal s t' + (if t =? t' then x else 0).
Proof.
  repeat split. intros t'. unfold fbal, credit_f. simpl. rewrite aget_aset. unfold fbal.
  destruct (t =? t') eqn:E; [apply Z.eqb_eq in E; subst; lia | lia].
Qed.

Lemma debit_f_spec s t x s' : debit_f s t x = Ok s' ->
  eq_dy s s' /\ eq_farm s s' /\ x <= fbal s t /\
  forall t', fbal s' t' = fbal s t' - (if t =? t' then x else 0).
Proof.
  unfold debit_f. intros H. apply bind_ok in H. destruct H as (b & Hb & H). inversion H; subst. clear H.
  apply sub_chk_ok in Hb. destruct Hb as [Hle ->].
  repeat split; [exact Hle|]. intros t'. unfold fbal. simpl. rewrite aget_aset.
  destruct (t =? t') eqn:E; [apply Z.eqb_eq in E; subst; unfold fbal; lia | lia].
Qed.

Lemma credit_sf_spec s k x :
  eq_dy s (credit_sf s k x) /\ eq_fung s (credit_sf s k x) /\ s_lpf (credit_sf s k x) = s_lpf s /\
  forall k', sf_bal (credit_sf s k x) k' = sf_bal s k' + (if k =? k' then x else 0).
Proof.
  repeat split. intros k'. unfold sf_bal, credit_sf. simpl. rewrite aget_aset. unfold sf_bal.
  destruct (k =? k') eqn:E; [apply Z.eqb_eq in E; subst; lia | lia].
Qed.

Lemma credit_lpf_spec s k x :
  eq_dy s (credit_lpf s k x) /\ eq_fung s (credit_lpf s k x) /\ s_sf (credit_lpf s k x) = s_sf s /\
  forall k', lpf_bal (credit_lpf s k x) k' = lpf_bal s k' + (if k =? k' then x else 0).
Proof.
  repeat split. intros k'. unfold lpf_bal, credit_lpf. simpl. rewrite aget_aset. unfold lpf_bal.
  destruct (k =? k') eqn:E; [apply Z.eqb_eq in E; subst; lia | lia].
Qed.

Lemma debit_sf_spec s k x s' : debit_sf s k x = Ok s' ->
  eq_dy s s' /\ eq_fung s s' /\ s_lpf s' = s_lpf s /\ x <= sf_bal s k /\
  forall k', sf_bal s' k' = sf_bal s k' - (if k =? k' then x else 0).
Proof.
  unfold debit_sf. intros H. apply bind_ok in H. destruct H as (b & Hb & H). inversion H; subst. clear H.
  apply sub_chk_ok in Hb. destruct Hb as [Hle ->].
  repeat split; [exact Hle|]. intros k'. unfold sf_bal. simpl. rewrite aget_aset.
  destruct (k =? k') eqn:E; [apply Z.eqb_eq in E; subst; unfold sf_bal; lia | lia].
Qed.

Lemma debit_lpf_spec s k x s' : debit_lpf s k x = Ok s' ->
  eq_dy s s' /\ eq_fung s s' /\ s_sf s' = s_sf s /\ x <= lpf_bal s k /\
  forall k', lpf_bal s' k' = lpf_bal s k' - (if k =? k' then x else 0).
Proof.
  unfold debit_lpf. intros H. apply bind_ok in H. destruct H as (b & Hb & H). inversion H; subst. clear H.
  apply sub_chk_ok in Hb. destruct Hb as [Hle ->].
  repeat split; [exact Hle|]. intros k'. unfold lpf_bal. simpl. rewrite aget_aset.
  destruct (k =? k') eqn:E; [apply Z.eqb_eq in E; subst; unfold lpf_bal; lia | lia].
Qed.

(** ------------------------------------------------------------------ into_part *)
Lemma dy_part_spec a p part : dy_part a p = Ok part ->
  d_lpn part = d_lpn a /\ d_sfn part = d_sfn a /\ d_sfa part = p /\
  ((p = d_sfa a /\ d_lpa part = d_lpa a) \/
   (p <> d_sfa a /\ d_sfa a <> 0 /\ d_lpa part = d_lpa a * p / d_sfa a /\ d_lpa part <> 0)).
Proof.
  unfold dy_part. destruct (p =? d_sfa a) eqn:E.
  - intros H. inversion H; subst. apply Z.eqb_eq in E. subst. auto 6.
  - intros H. apply bind_ok in H. destruct H as (l & Hl & H). inversion H; subst. clear H. simpl.
    apply Z.eqb_neq in E. repeat split; try reflexivity. right.
    unfold rule3_nz in Hl. rewrite (proj2 (Z.eqb_neq _ _) E) in Hl.
    apply bind_ok in Hl. destruct Hl as (r & Hr & Hl).
    apply div_chk_ok in Hr. destruct Hr as [Hnz ->].
    destruct (d_lpa a * p / d_sfa a =? 0) eqn:Ez; simpl in Hl; [discriminate|].
    inversion Hl; subst. apply Z.eqb_neq in Ez. auto.
Qed.

(** ------------------------------------------------------------------ release *)
Record released (s s' : st) (c n p : Z) (a part : dattr) : Prop := mkReleased {
  rl_attr : find_attr (s_attrs s) n = Some a;
  rl_part : dy_part a p = Ok part;
  rl_pos : 0 < p;
  rl_hold_le : p <= hold s n c;
  rl_sup_le : p <= sup s n;
  rl_attrs : s_attrs s' = s_attrs s;
  rl_next : s_next s' = s_next s;
  rl_sup : forall m, sup s' m = if n =? m then sup s n - p else sup s m;
  rl_rel : forall m, rel s' m = if n =? m then rel s n + d_lpa part else rel s m;
  rl_hold : forall key, aget (s_hold s') key = if hkey n c =? key then hold s n c - p else aget (s_hold s) key;
  rl_lpf : forall k, lpf_bal s' k = lpf_bal s k - (if d_lpn a =? k then d_lpa part else 0);
  rl_sf : forall k, sf_bal s' k = sf_bal s k - (if d_sfn a =? k then p else 0);
  rl_lpf_le : d_lpa part <= lpf_bal s (d_lpn a);
  rl_sf_le : p <= sf_bal s (d_sfn a);
  rl_fung : s_fung s' = s_fung s
}.

Lemma release_spec s c n p s' part : release s c n p = Ok (s', part) ->
  exists a, released s s' c n p a part.
Proof.
  unfold release. intros H.
  destruct (0 <? p) eqn:Ep; [|discriminate]. apply Z.ltb_lt in Ep.
  apply bind_ok in H. destruct H as (h & Hh & H). apply sub_chk_ok in Hh. destruct Hh as [Hhle ->].
  apply bind_ok in H. destruct H as (su & Hsu & H). apply sub_chk_ok in Hsu. destruct Hsu as [Hsle ->].
  apply bind_ok in H. destruct H as (a & Ha & H).
  unfold get_attr in Ha. destruct (find_attr (s_attrs s) n) as [a0|] eqn:Ef; [|discriminate]. inversion Ha; subst a0. clear Ha.
  apply bind_ok in H. destruct H as (pt & Hpt & H).
  apply bind_ok in H. destruct H as (s2 & H2 & H).
  apply bind_ok in H. destruct H as (s3 & H3 & H). inversion H; subst s3 pt. clear H.
  pose proof (dy_part_spec _ _ _ Hpt) as (Pn & Psn & Psa & _).
  apply debit_lpf_spec in H2. destruct H2 as (D2 & F2 & S2 & L2 & B2).
  apply debit_sf_spec in H3. destruct H3 as (D3 & F3 & S3 & L3 & B3).
  destruct D2 as (A2 & U2 & R2 & O2 & N2). destruct D3 as (A3 & U3 & R3 & O3 & N3).
  exists a. constructor; try assumption.
  - rewrite A3, A2. reflexivity.
  - rewrite N3, N2. reflexivity.
  - intros m. unfold sup. rewrite U3, U2. simpl. rewrite aget_aset. reflexivity.
  - intros m. unfold rel. rewrite R3, R2. simpl. rewrite aget_aset. reflexivity.
  - intros key. rewrite O3, O2. simpl. rewrite aget_aset. reflexivity.
  - intros k. unfold lpf_bal in *. rewrite S3, B2, Pn. reflexivity.
  - intros k. unfold sf_bal in *. rewrite B3, S2, Psn, Psa. reflexivity.
  - rewrite <- Pn. exact L2.
  - unfold sf_bal in *. rewrite S2, Psn, Psa in L3. exact L3.
  - rewrite F3, F2. reflexivity.
Qed.

(** ------------------------------------------------------------------ mint *)
Record minted (s s' : st) (c : Z) (a : dattr) (n : Z) : Prop := mkMinted {
  mt_pos : 0 < d_sfa a;
  mt_n : n = s_next s + 1;
  mt_attrs : s_attrs s' = s_attrs s ++ [(n, a)];
  mt_next : s_next s' = n;
  mt_sup : forall m, sup s' m = if n =? m then sup s n + d_sfa a else sup s m;
  mt_rel : forall m, rel s' m = rel s m;
  mt_hold : forall key, aget (s_hold s') key = if hkey n c =? key then hold s n c + d_sfa a else aget (s_hold s) key;
  mt_lpf : forall k, lpf_bal s' k = lpf_bal s k + (if d_lpn a =? k then d_lpa a else 0);
  mt_sf : forall k, sf_bal s' k = sf_bal s k + (if d_sfn a =? k then d_sfa a else 0);
  mt_fung : s_fung s' = s_fung s
}.

Lemma mint_spec s c a s' n : mint_dy s c a = Ok (s', n) -> minted s s' c a n.
Proof.
  unfold mint_dy. destruct (0 <? d_sfa a) eqn:E; [|discriminate]. apply Z.ltb_lt in E.
  intros H. inversion H; subst. clear H.
  constructor; try reflexivity; try assumption.
  - intros m. unfold sup. simpl. rewrite aget_aset. reflexivity.
  - intros key. simpl. rewrite aget_aset. reflexivity.
  - intros k. unfold lpf_bal. simpl. rewrite aget_aset. unfold lpf_bal. simpl.
    destruct (d_lpn a =? k) eqn:Ek; [apply Z.eqb_eq in Ek; subst; lia | lia].
  - intros k. unfold sf_bal. simpl. rewrite aget_aset. unfold sf_bal. simpl.
    destruct (d_sfn a =? k) eqn:Ek; [apply Z.eqb_eq in Ek; subst; lia | lia].
Qed.
