(** Farm-staking (C12): capacity, APR cap, balance identity, unbonding, admin withdrawal. *)
From MX Require Import Base.Prelude Gen.Params Model.Staking.

Lemma maxp_pos : 0 < MAXP. Proof. vm_compute. reflexivity. Qed.
Lemma by_pos : 0 < BLOCKS_IN_YEAR. Proof. vm_compute. reflexivity. Qed.

Record StkInv (s : stk) : Prop := {
  k_cap : 0 <= s_acc s <= s_cap s;
  k_bal : s_bal s = (s_supply s - s_virt s) + s_ubtot s + (s_cap s - s_acc s) + s_reserve s + s_don s;
  k_ub : s_ubtot s = asum (s_ubamt s);
  k_ubnd : NoDup (akeys (s_ubamt s));
  k_ubnn : all_nonneg (s_ubamt s);
  k_fresh : forall k, In k (akeys (s_ubamt s)) -> k < s_next s;
  k_fresh2 : forall k e, In (k, e) (s_ub s) -> k < s_next s;
  k_wf : 0 < s_dsc s /\ 0 <= s_rate s /\ 0 <= s_apr s /\ 0 <= s_pct s <= MAXP /\ 0 <= s_supply s /\
         0 <= s_reserve s /\ 0 <= s_pool s /\ 0 <= s_don s /\ 0 <= s_rps s
}.

Lemma boosted_cut_bounds s tm : 0 <= tm -> 0 <= s_pct s <= MAXP -> 0 <= boosted_cut s tm <= tm.
Proof.
  intros Ht Hp. unfold boosted_cut. destruct ((s_pct s =? 0) || negb (s_factors s)); [lia|].
  pose proof maxp_pos. split; [apply div_nonneg; nia|]. apply Z.div_le_upper_bound; [lia|]. nia.
Qed.

Lemma apr_per_block_nonneg s : 0 <= s_supply s -> 0 <= s_apr s -> 0 <= apr_per_block s.
Proof.
  intros. unfold apr_per_block. pose proof maxp_pos. pose proof by_pos.
  apply div_nonneg; [apply div_nonneg; nia | lia].
Qed.

(** settlement: what accrues is bounded three ways *)
Lemma settle_spec s blk s' : settle s blk = Ok s' -> StkInv s ->
  StkInv s' /\
  exists total,
    0 <= total /\ s_acc s' = s_acc s + total /\ s_reserve s' = s_reserve s + total /\
    total <= s_cap s - s_acc s /\
    (s_last s < blk -> total <= apr_per_block s * (blk - s_last s) /\
                       total <= (if s_produce s then s_rate s * (blk - s_last s) else 0)) /\
    (blk <= s_last s -> total = 0) /\
    s_cap s' = s_cap s /\ s_supply s' = s_supply s /\ s_virt s' = s_virt s /\ s_bal s' = s_bal s /\
    s_ubtot s' = s_ubtot s /\ s_ub s' = s_ub s /\ s_ubamt s' = s_ubamt s /\ s_next s' = s_next s /\
    s_apr s' = s_apr s /\ s_rate s' = s_rate s /\ s_produce s' = s_produce s /\ s_minub s' = s_minub s /\
    s_state s' = s_state s /\ s_don s' = s_don s /\ s_rps s <= s_rps s' /\ s_pool s <= s_pool s' /\
    s_last s' = Z.max (s_last s) blk.
Proof.
  unfold settle. intros H I. pose proof I as [cap bal ub ubnd ubnn fr fr2 (w1 & w2 & w3 & w4 & w5 & w6 & w7 & w8 & w9)].
  apply bind_ok in H. destruct H as (remaining & Hrem & H). apply sub_chk_ok in Hrem. destruct Hrem as [_ ->].
  destruct (blk <=? s_last s) eqn:E.
  { inversion H; subst. apply Z.leb_le in E. split; [exact I|]. exists 0. repeat split; try lia; try reflexivity. }
  apply Z.leb_gt in E. cbv zeta in H.
  pose proof (apr_per_block_nonneg s w5 w3) as Hapr.
  set (unb := if s_produce s then s_rate s * (blk - s_last s) else 0) in *.
  assert (Hunb : 0 <= unb) by (unfold unb; destruct (s_produce s); nia).
  set (aprb := apr_per_block s * (blk - s_last s)) in *.
  assert (Haprb : 0 <= aprb) by (unfold aprb; nia).
  set (total := Z.min (Z.min unb aprb) (s_cap s - s_acc s)) in *.
  assert (Ht : 0 <= total /\ total <= unb /\ total <= aprb /\ total <= s_cap s - s_acc s) by (unfold total; lia).
  destruct Ht as (T0 & T1 & T2 & T3).
  destruct (total =? 0) eqn:E0.
  { apply Z.eqb_eq in E0. inversion H; subst s'; clear H. simpl.
    split; [constructor; simpl; [exact cap|exact bal|exact ub|exact ubnd|exact ubnn|exact fr|exact fr2|repeat split; try assumption; lia]|].
    exists 0. repeat split; try lia; try reflexivity. }
  pose proof (boosted_cut_bounds s total T0 w4) as Hc.
  set (cut := boosted_cut s total) in *. clearbody cut total unb aprb.
  apply bind_ok in H. destruct H as (inc & Hinc & H). inversion H; subst s'; clear H. simpl.
  assert (Hi : 0 <= inc).
  { destruct (s_supply s =? 0) eqn:ES.
    - inversion Hinc; lia.
    - apply Z.eqb_neq in ES. apply div_chk_ok in Hinc. destruct Hinc as [_ ->]. apply div_nonneg; nia. }
  split.
  - constructor; simpl; [lia|lia|exact ub|exact ubnd|exact ubnn|exact fr|exact fr2|repeat split; try assumption; lia].
  - exists total. repeat split; try lia; try reflexivity.
Qed.

Lemma pay_spec s r b s' : pay s r b = Ok s' -> StkInv s ->
  0 <= b <= r /\ r <= s_reserve s /\ b <= s_pool s /\ r <= s_bal s /\
  s_reserve s' = s_reserve s - r /\ s_pool s' = s_pool s - b /\ s_bal s' = s_bal s - r /\
  s_cap s' = s_cap s /\ s_acc s' = s_acc s /\ s_supply s' = s_supply s /\ s_virt s' = s_virt s /\
  s_ubtot s' = s_ubtot s /\ s_ub s' = s_ub s /\ s_ubamt s' = s_ubamt s /\ s_next s' = s_next s /\
  s_don s' = s_don s /\ s_dsc s' = s_dsc s /\ s_rate s' = s_rate s /\ s_apr s' = s_apr s /\ s_pct s' = s_pct s /\
  s_rps s' = s_rps s /\ s_minub s' = s_minub s /\ s_state s' = s_state s /\ s_last s' = s_last s /\
  s_produce s' = s_produce s /\ s_factors s' = s_factors s.
Proof.
  unfold pay. intros H I.
  destruct ((0 <=? b) && (b <=? r)) eqn:E; [|discriminate].
  apply andb_prop in E. destruct E as [E1 E2]. apply Z.leb_le in E1, E2.
  apply bind_ok in H. destruct H as (res & Hres & H).
  apply bind_ok in H. destruct H as (pool & Hpool & H).
  apply bind_ok in H. destruct H as (bal & Hbal & H).
  inversion H; subst; clear H. simpl.
  apply sub_chk_ok in Hres, Hpool, Hbal.
  destruct Hres as [? ->]. destruct Hpool as [? ->]. destruct Hbal as [? ->].
  repeat split; try reflexivity; lia.
Qed.

(** state after paying a reward still satisfies the invariant *)
Lemma pay_inv s r b s' : pay s r b = Ok s' -> StkInv s -> StkInv s'.
Proof.
  intros H I. pose proof (pay_spec _ _ _ _ H I) as
    (Hb & Hr & Hp & Hbl & Res & Pl & Bl & Cp & Ac & Su & Vi & Ut & Ub & Ua & Nx & Dn & Ds & Rt & Ap & Pc & Rp & Mu & St & La & Pr & Fa).
  destruct I as [cap bal ub ubnd ubnn fr fr2 (w1 & w2 & w3 & w4 & w5 & w6 & w7 & w8 & w9)].
  constructor.
  - lia.
  - lia.
  - rewrite Ut, Ua. assumption.
  - rewrite Ua. assumption.
  - rewrite Ua. assumption.
  - intros k Hk. rewrite Ua in Hk. rewrite Nx. auto.
  - intros k e Hk. rewrite Ub in Hk. rewrite Nx. eauto.
  - repeat split; lia.
Qed.
