(** Farm-staking (C12): capacity, APR cap, balance identity, unbonding, admin withdrawal. *)
From MX Require Import Base.Prelude Gen.Params Model.Staking.

Lemma maxp_pos : 0 < MAXP. Proof. vm_compute. reflexivity. Qed.
Lemma by_pos : 0 < BLOCKS_IN_YEAR. Proof. vm_compute. reflexivity. Qed.

Record StkInv (s : stk) : Prop := {
  k_cap : 0 <= s_acc s <= s_cap s;
  k_bal : s_bal s = (s_supply s - s_virt s) + s_ubtot s + (s_cap s - s_acc s) + s_reserve s + s_don s;
  k_ub : s_ubtot s = asum (s_ubamt s);
  k_ubnd : NoDup (akeys (s_ubamt s));
  k_ubnn : all_nonneg (s_ubamt s);
  k_fresh : forall k, In k (akeys (s_ubamt s)) -> k < s_next s;
  k_fresh2 : forall k e, In (k, e) (s_ub s) -> k < s_next s;
  k_wf : 0 < s_dsc s /\ 0 <= s_rate s /\ 0 <= s_apr s /\ 0 <= s_pct s <= MAXP /\ 0 <= s_supply s /\
         0 <= s_reserve s /\ 0 <= s_pool s /\ 0 <= s_don s /\ 0 <= s_rps s
}.

Lemma boosted_cut_bounds s tm : 0 <= tm -> 0 <= s_pct s <= MAXP -> 0 <= boosted_cut s tm <= tm.
Proof.
  intros Ht Hp. unfold boosted_cut. destruct ((s_pct s =? 0) || negb (s_factors s)); [lia|].
  pose proof maxp_pos. split; [apply div_nonneg; nia|]. apply Z.div_le_upper_bound; [lia|]. nia.
Qed.

Lemma apr_per_block_nonneg s : 0 <= s_supply s -> 0 <= s_apr s -> 0 <= apr_per_block s.
Proof.
  intros. unfold apr_per_block. pose proof maxp_pos. pose proof by_pos.
  apply div_nonneg; [apply div_nonneg; nia | lia].
Qed.

(** settlement: what accrues is bounded three ways *)
Lemma settle_spec s blk s' : settle s blk = Ok s' -> StkInv s ->
  StkInv s' /\
  exists total,
    0 <= total /\ s_acc s' = s_acc s + total /\ s_reserve s' = s_reserve s + total /\
    total <= s_cap s - s_acc s /\
    (s_last s < blk -> total <= apr_per_block s * (blk - s_last s) /\
                       total <= (if s_produce s then s_rate s * (blk - s_last s) else 0)) /\
    (blk <= s_last s -> total = 0) /\
    s_cap s' = s_cap s /\ s_supply s' = s_supply s /\ s_virt s' = s_virt s /\ s_bal s' = s_bal s /\
    s_ubtot s' = s_ubtot s /\ s_ub s' = s_ub s /\ s_ubamt s' = s_ubamt s /\ s_next s' = s_next s /\
    s_apr s' = s_apr s /\ s_rate s' = s_rate s /\ s_produce s' = s_produce s /\ s_minub s' = s_minub s /\
    s_state s' = s_state s /\ s_don s' = s_don s /\ s_rps s <= s_rps s' /\ s_pool s <= s_pool s' /\
    s_last s' = Z.max (s_last s) blk.
Proof.
  unfold settle. intros H I. pose proof I as [cap bal ub ubnd ubnn fr fr2 (w1 & w2 & w3 & w4 & w5 & w6 & w7 & w8 & w9)].
  apply bind_ok in H. destruct H as (remaining & Hrem & H). apply sub_chk_ok in Hrem. destruct Hrem as [_ ->].
  destruct (blk <=? s_last s) eqn:E.
  { inversion H; subst. apply Z.leb_le in E. split; [exact I|]. exists 0. repeat split; try lia; try reflexivity. }
  apply Z.leb_gt in E. cbv zeta in H.
  pose proof (apr_per_block_nonneg s w5 w3) as Hapr.
  set (unb := if s_produce s then s_rate s * (blk - s_last s) else 0) in *.
  assert (Hunb : 0 <= unb) by (unfold unb; destruct (s_produce s); nia).
  set (aprb := apr_per_block s * (blk - s_last s)) in *.
  assert (Haprb : 0 <= aprb) by (unfold aprb; nia).
  set (total := Z.min (Z.min unb aprb) (s_cap s - s_acc s)) in *.
  assert (Ht : 0 <= total /\ total <= unb /\ total <= aprb /\ total <= s_cap s - s_acc s) by (unfold total; lia).
  destruct Ht as (T0 & T1 & T2 & T3).
  destruct (total =? 0) eqn:E0.
  { apply Z.eqb_eq in E0. inversion H; subst s'; clear H. simpl.
    split; [constructor; simpl; [exact cap|exact bal|exact ub|exact ubnd|exact ubnn|exact fr|exact fr2|repeat split; try assumption; lia]|].
    exists 0. repeat split; try lia; try reflexivity. }
  pose proof (boosted_cut_bounds s total T0 w4) as Hc.
  set (cut := boosted_cut s total) in *. clearbody cut total unb aprb.
  apply bind_ok in H. destruct H as (inc & Hinc & H). inversion H; subst s'; clear H. simpl.
  assert (Hi : 0 <= inc).
  { destruct (s_supply s =? 0) eqn:ES.
    - inversion Hinc; lia.
    - apply Z.eqb_neq in ES. apply div_chk_ok in Hinc. destruct Hinc as [_ ->]. apply div_nonneg; nia. }
  split.
  - constructor; simpl; [lia|lia|exact ub|exact ubnd|exact ubnn|exact fr|exact fr2|repeat split; try assumption; lia].
  - exists total. repeat split; try lia; try reflexivity.
Qed.

Lemma pay_spec s r b s' : pay s r b = Ok s' -> StkInv s ->
  0 <= b <= r /\ r <= s_reserve s /\ b <= s_pool s /\ r <= s_bal s /\
  s_reserve s' = s_reserve s - r /\ s_pool s' = s_pool s - b /\ s_bal s' = s_bal s - r /\
  s_cap s' = s_cap s /\ s_acc s' = s_acc s /\ s_supply s' = s_supply s /\ s_virt s' = s_virt s /\
  s_ubtot s' = s_ubtot s /\ s_ub s' = s_ub s /\ s_ubamt s' = s_ubamt s /\ s_next s' = s_next s /\
  s_don s' = s_don s /\ s_dsc s' = s_dsc s /\ s_rate s' = s_rate s /\ s_apr s' = s_apr s /\ s_pct s' = s_pct s /\
  s_rps s' = s_rps s /\ s_minub s' = s_minub s /\ s_state s' = s_state s /\ s_last s' = s_last s /\
  s_produce s' = s_produce s /\ s_factors s' = s_factors s.
Proof.
  unfold pay. intros H I.
  destruct ((0 <=? b) && (b <=? r)) eqn:E; [|discriminate].
  apply andb_prop in E. destruct E as [E1 E2]. apply Z.leb_le in E1, E2.
  apply bind_ok in H. destruct H as (res & Hres & H).
  apply bind_ok in H. destruct H as (pool & Hpool & H).
  apply bind_ok in H. destruct H as (bal & Hbal & H).
  inversion H; subst; clear H. simpl.
  apply sub_chk_ok in Hres, Hpool, Hbal.
  destruct Hres as [? ->]. destruct Hpool as [? ->]. destruct Hbal as [? ->].
  repeat split; try reflexivity; lia.
Qed.

(** state after paying a reward still satisfies the invariant *)
Lemma pay_inv s r b s' : pay s r b = Ok s' -> StkInv s -> StkInv s'.
Proof.
  intros H I. pose proof (pay_spec _ _ _ _ H I) as
    (Hb & Hr & Hp & Hbl & Res & Pl & Bl & Cp & Ac & Su & Vi & Ut & Ub & Ua & Nx & Dn & Ds & Rt & Ap & Pc & Rp & Mu & St & La & Pr & Fa).
  destruct I as [cap bal ub ubnd ubnn fr fr2 (w1 & w2 & w3 & w4 & w5 & w6 & w7 & w8 & w9)].
  constructor.
  - lia.
  - lia.
  - rewrite Ut, Ua. assumption.
  - rewrite Ua. assumption.
  - rewrite Ua. assumption.
  - intros k Hk. rewrite Ua in Hk. rewrite Nx. auto.
  - intros k e Hk. rewrite Ub in Hk. rewrite Nx. eauto.
  - repeat split; lia.
Qed.

Lemma aget_notin l k : ~ In k (akeys l) -> aget l k = 0.
Proof.
  induction l as [|[k' v] t IH]; simpl; intros H; [reflexivity|].
  destruct (k' =? k) eqn:E; [apply Z.eqb_eq in E; tauto | apply IH; tauto].
Qed.

(** field-group helpers *)
Lemma inv_cfg s r pr a mu p fa st : StkInv s -> 0 <= r -> 0 <= a -> 0 <= p <= MAXP ->
  StkInv (u_cfg s r pr a mu p fa st).
Proof.
  intros [cap bal ub ubnd ubnn fr fr2 (w1 & w2 & w3 & w4 & w5 & w6 & w7 & w8 & w9)] Hr Ha Hp.
  constructor; simpl; auto. repeat split; auto; lia.
Qed.

Lemma inv_bump s : StkInv s -> StkInv (bump s).
Proof.
  intros [cap bal ub ubnd ubnn fr fr2 wf]. constructor; simpl; auto.
  - intros k Hk. specialize (fr k Hk). lia.
  - intros k e Hk. specialize (fr2 k e Hk). lia.
Qed.

Lemma find_z_app l n e k : k <> n -> find_z (l ++ [(n, e)]) k = find_z l k.
Proof.
  intros Hk. induction l as [|[k' v] t IH]; simpl.
  - destruct (n =? k) eqn:E; [apply Z.eqb_eq in E; congruence | reflexivity].
  - destruct (k' =? k); [reflexivity | exact IH].
Qed.

Lemma find_z_app_new l n e : (forall k v, In (k, v) l -> k <> n) -> find_z (l ++ [(n, e)]) n = Some e.
Proof.
  intros H. induction l as [|[k' v] t IH]; simpl.
  - rewrite Z.eqb_refl. reflexivity.
  - destruct (k' =? n) eqn:E.
    + apply Z.eqb_eq in E. exfalso. apply (H k' v); [left; reflexivity | exact E].
    + apply IH. intros k v0 Hin. apply (H k v0). right. exact Hin.
Qed.

Lemma find_z_in l k v : find_z l k = Some v -> In (k, v) l.
Proof.
  induction l as [|[k' v'] t IH]; simpl; [discriminate|].
  destruct (k' =? k) eqn:E; intros H.
  - apply Z.eqb_eq in E. inversion H; subst. left. reflexivity.
  - right. apply IH. exact H.
Qed.

(** minting an unbond token for [amt] taken out of principal (or sent along by the proxy) *)
Lemma inv_mint_unbond s ep amt s' n (delta : Z) : mint_unbond s ep amt = (s', n) -> 0 <= amt ->
  (* the pre-state satisfies the invariant except that the balance identity is off by amt (the principal
     that left the supply, or the tokens the proxy sent along) *)
  0 <= s_acc s <= s_cap s ->
  s_bal s = (s_supply s - s_virt s) + (s_ubtot s + amt) + (s_cap s - s_acc s) + s_reserve s + s_don s ->
  s_ubtot s = asum (s_ubamt s) -> NoDup (akeys (s_ubamt s)) -> all_nonneg (s_ubamt s) ->
  (forall k, In k (akeys (s_ubamt s)) -> k < s_next s) -> (forall k e, In (k, e) (s_ub s) -> k < s_next s) ->
  (0 < s_dsc s /\ 0 <= s_rate s /\ 0 <= s_apr s /\ 0 <= s_pct s <= MAXP /\ 0 <= s_supply s /\
         0 <= s_reserve s /\ 0 <= s_pool s /\ 0 <= s_don s /\ 0 <= s_rps s) ->
  StkInv s' /\ n = s_next s /\ find_z (s_ub s') n = Some (ep + s_minub s) /\
  (forall k, k <> n -> find_z (s_ub s') k = find_z (s_ub s) k) /\ aget (s_ubamt s') n = amt.
Proof.
  unfold mint_unbond. intros H Ha cap bal ub ubnd ubnn fr fr2 wf. inversion H; subst s' n; clear H.
  assert (O0 : aget (s_ubamt s) (s_next s) = 0).
  { apply aget_notin. intros Hin. specialize (fr _ Hin). lia. }
  split; [|split; [reflexivity|split; [|split]]].
  - constructor; simpl.
    + exact cap.
    + lia.
    + rewrite asum_aset by assumption. rewrite O0. lia.
    + apply nodup_aset. assumption.
    + apply all_nonneg_aset; assumption.
    + intros k Hk. apply akeys_aset_in in Hk. destruct Hk as [->|Hk]; [lia | specialize (fr _ Hk); lia].
    + intros k e Hk. apply in_app_or in Hk. destruct Hk as [Hk|[Hk|[]]].
      * specialize (fr2 _ _ Hk). lia.
      * inversion Hk; subst. lia.
    + exact wf.
  - simpl. apply find_z_app_new. intros k v Hin. specialize (fr2 _ _ Hin). lia.
  - intros k Hk. simpl. apply find_z_app. exact Hk.
  - simpl. apply aget_aset_same.
Qed.

Ltac pay_fields H I :=
  let P := fresh "P" in
  pose proof (pay_spec _ _ _ _ H I) as P;
  destruct P as (?Hb & ?Hr & ?Hp & ?Hbl & ?Res & ?Pl & ?Bl & ?Cp & ?Ac & ?Su & ?Vi & ?Ut & ?Ub & ?Ua & ?Nx & ?Dn & ?Ds & ?Rt & ?Ap & ?Pc & ?Rp & ?Mu & ?St & ?La & ?Pr & ?Fa).

(** every successful operation preserves the invariant *)
Lemma sstep_inv s op s' o : sstep s op = Ok (s', o) -> StkInv s -> StkInv s'.
Proof.
  intros H I. destruct op; cbn [sstep] in H.
  - (* Stake *)
    destruct ((0 <? amt) && (0 <=? adds)) eqn:E; [|discriminate].
    apply andb_prop in E. destruct E as [E1 E2]. apply Z.ltb_lt in E1.
    apply bind_ok in H. destruct H as (s0 & H0 & H).
    destruct (active s0); [|discriminate]. destruct (adds <=? s_supply s0); [|discriminate].
    apply bind_ok in H. destruct H as (s1 & H1 & H). inversion H; subst; clear H.
    pose proof (pay_inv _ _ _ _ H0 I) as I0.
    apply settle_spec in H1; auto. destruct H1 as (I1 & _).
    apply inv_bump. destruct I1 as [cap bal ub ubnd ubnn fr fr2 (w1 & w2 & w3 & w4 & w5 & w6 & w7 & w8 & w9)].
    constructor; simpl; auto; try lia; try (repeat split; auto; lia).
  - (* StakeProxy *)
    destruct ((0 <? amt) && (0 <=? adds)) eqn:E; [|discriminate].
    apply andb_prop in E. destruct E as [E1 E2]. apply Z.ltb_lt in E1.
    apply bind_ok in H. destruct H as (s0 & H0 & H).
    destruct (active s0); [|discriminate]. destruct (adds <=? s_supply s0); [|discriminate].
    apply bind_ok in H. destruct H as (s1 & H1 & H). inversion H; subst; clear H.
    pose proof (pay_inv _ _ _ _ H0 I) as I0.
    apply settle_spec in H1; auto. destruct H1 as (I1 & _).
    apply inv_bump. destruct I1 as [cap bal ub ubnd ubnn fr fr2 (w1 & w2 & w3 & w4 & w5 & w6 & w7 & w8 & w9)].
    constructor; simpl; auto; try lia; try (repeat split; auto; lia).
  - (* Claim *)
    destruct (active s); [|discriminate]. destruct (_ && _); [|discriminate].
    apply bind_ok in H. destruct H as (s1 & H1 & H).
    apply bind_ok in H. destruct H as (s2 & H2 & H). inversion H; subst; clear H.
    apply settle_spec in H1; auto. destruct H1 as (I1 & _).
    apply inv_bump. eapply pay_inv; eauto.
  - (* ClaimNewValue *)
    destruct (active s); [|discriminate]. destruct (_ && _) eqn:E; [|discriminate].
    apply andb_prop in E. destruct E as [E Env]. apply Z.leb_le in Env.
    apply bind_ok in H. destruct H as (s1 & H1 & H).
    apply bind_ok in H. destruct H as (s2 & H2 & H).
    apply bind_ok in H. destruct H as (sup & Hs & H).
    apply bind_ok in H. destruct H as (vir & Hv & H). inversion H; subst; clear H.
    apply settle_spec in H1; auto. destruct H1 as (I1 & _).
    pose proof (pay_inv _ _ _ _ H2 I1) as I2.
    apply sub_chk_ok in Hs, Hv. destruct Hs as [Hs ->]. destruct Hv as [Hv ->].
    apply inv_bump. destruct I2 as [cap bal ub ubnd ubnn fr fr2 (w1 & w2 & w3 & w4 & w5 & w6 & w7 & w8 & w9)].
    constructor; simpl; auto; try lia; try (repeat split; auto; lia).
  - (* Compound *)
    destruct (active s); [|discriminate]. destruct (_ && _); [|discriminate].
    apply bind_ok in H. destruct H as (s1 & H1 & H).
    apply bind_ok in H. destruct H as (s2 & H2 & H). inversion H; subst; clear H.
    apply settle_spec in H1; auto. destruct H1 as (I1 & _).
    pose proof (pay_inv _ _ _ _ H2 I1) as I2. pay_fields H2 I1.
    apply inv_bump. destruct I2 as [cap bal ub ubnd ubnn fr fr2 (w1 & w2 & w3 & w4 & w5 & w6 & w7 & w8 & w9)].
    constructor; simpl; auto; try lia; try (repeat split; auto; lia).
  - (* Unstake *)
    destruct (active s); [|discriminate]. destruct (0 <? x) eqn:Ex; [|discriminate]. apply Z.ltb_lt in Ex.
    apply bind_ok in H. destruct H as (s1 & H1 & H).
    apply bind_ok in H. destruct H as (s2 & H2 & H).
    apply bind_ok in H. destruct H as (sup & Hs & H).
    destruct (mint_unbond _ ep x) as [s4 n] eqn:Hm. inversion H; subst; clear H.
    apply settle_spec in H1; auto. destruct H1 as (I1 & _).
    pose proof (pay_inv _ _ _ _ H2 I1) as I2.
    apply sub_chk_ok in Hs. destruct Hs as [Hs ->].
    destruct I2 as [cap bal ub ubnd ubnn fr fr2 (w1 & w2 & w3 & w4 & w5 & w6 & w7 & w8 & w9)].
    apply inv_mint_unbond in Hm; simpl; auto; try lia; try tauto; try (repeat split; auto; lia).
  - (* UnstakeProxy *)
    destruct (active s); [|discriminate]. destruct ((0 <? x) && (0 <? t)) eqn:Ex; [|discriminate].
    apply andb_prop in Ex. destruct Ex as [Ex Et]. apply Z.ltb_lt in Ex, Et.
    apply bind_ok in H. destruct H as (s1 & H1 & H).
    apply bind_ok in H. destruct H as (s2 & H2 & H).
    apply bind_ok in H. destruct H as (sup & Hs & H).
    apply bind_ok in H. destruct H as (vir & Hv & H).
    destruct (mint_unbond _ ep t) as [s4 n] eqn:Hm. inversion H; subst; clear H.
    apply settle_spec in H1; auto. destruct H1 as (I1 & _).
    pose proof (pay_inv _ _ _ _ H2 I1) as I2.
    apply sub_chk_ok in Hs, Hv. destruct Hs as [Hs ->]. destruct Hv as [Hv ->].
    destruct I2 as [cap bal ub ubnd ubnn fr fr2 (w1 & w2 & w3 & w4 & w5 & w6 & w7 & w8 & w9)].
    apply inv_mint_unbond in Hm; simpl; auto; try lia; try tauto; try (repeat split; auto; lia).
  - (* Unbond *)
    destruct (active s); [|discriminate]. destruct (0 <? amt) eqn:Ea; [|discriminate]. apply Z.ltb_lt in Ea.
    destruct (find_z (s_ub s) n) as [unlock|] eqn:Ef; [|discriminate].
    destruct (unlock <=? ep); [|discriminate].
    apply bind_ok in H. destruct H as (rest & Hr & H).
    apply bind_ok in H. destruct H as (bal' & Hb & H).
    apply bind_ok in H. destruct H as (tot & Ht & H). inversion H; subst; clear H.
    apply sub_chk_ok in Hr, Hb, Ht. destruct Hr as [Hr ->]. destruct Hb as [Hb ->]. destruct Ht as [Ht ->].
    destruct I as [cap bal ub ubnd ubnn fr fr2 (w1 & w2 & w3 & w4 & w5 & w6 & w7 & w8 & w9)].
    assert (Hin : In n (akeys (s_ubamt s))).
    { destruct (in_dec Z.eq_dec n (akeys (s_ubamt s))); [assumption|]. rewrite aget_notin in Hr by assumption. lia. }
    constructor; simpl.
    + exact cap.
    + lia.
    + rewrite asum_aset by assumption. lia.
    + apply nodup_aset. assumption.
    + apply all_nonneg_aset; [assumption | lia].
    + intros k Hk. apply akeys_aset_in in Hk. destruct Hk as [->|Hk]; auto.
    + exact fr2.
    + repeat split; auto; lia.
  - (* Merge *)
    destruct (active s); [|discriminate].
    apply bind_ok in H. destruct H as (s0 & H0 & H). inversion H; subst; clear H.
    apply inv_bump. eapply pay_inv; eauto.
  - (* ClaimBoosted *)
    destruct (negb (ut =? 0)); [|discriminate]. destruct (active s); [|discriminate].
    apply bind_ok in H. destruct H as (s1 & H1 & H).
    apply bind_ok in H. destruct H as (s2 & H2 & H). inversion H; subst; clear H.
    apply settle_spec in H1; auto. destruct H1 as (I1 & _). eapply pay_inv; eauto.
  - (* TopUp *)
    destruct (is_admin c); [|discriminate]. destruct (0 <? amt) eqn:Ea; [|discriminate]. apply Z.ltb_lt in Ea.
    inversion H; subst; clear H.
    destruct I as [cap bal ub ubnd ubnn fr fr2 wf]. constructor; simpl; auto; lia.
  - (* Withdraw *)
    destruct (is_admin c); [|discriminate]. destruct (0 <=? w) eqn:Ew; [|discriminate]. apply Z.leb_le in Ew.
    apply bind_ok in H. destruct H as (s1 & H1 & H).
    apply bind_ok in H. destruct H as (remaining & Hrem & H).
    destruct (w <=? remaining) eqn:Ewr; [|discriminate]. apply Z.leb_le in Ewr.
    apply bind_ok in H. destruct H as (cap' & Hc & H).
    apply bind_ok in H. destruct H as (bal' & Hb & H). inversion H; subst; clear H.
    apply settle_spec in H1; auto. destruct H1 as (I1 & _).
    apply sub_chk_ok in Hrem, Hc, Hb. destruct Hrem as [_ ->]. destruct Hc as [_ ->]. destruct Hb as [_ ->].
    destruct I1 as [cap bal ub ubnd ubnn fr fr2 wf]. constructor; simpl; auto; lia.
  - (* SetRate *)
    destruct (is_admin c); [|discriminate]. destruct (0 <? r) eqn:Er; [|discriminate]. apply Z.ltb_lt in Er.
    apply bind_ok in H. destruct H as (s1 & H1 & H). inversion H; subst; clear H.
    apply settle_spec in H1; auto. destruct H1 as (I1 & _).
    pose proof I1 as [_ _ _ _ _ _ _ (w1 & w2 & w3 & w4 & _)]. apply inv_cfg; auto; lia.
  - (* Start *)
    destruct (is_admin c); [|discriminate]. destruct (negb (s_rate s =? 0)); [|discriminate].
    destruct (negb (s_produce s)); [|discriminate]. inversion H; subst; clear H.
    pose proof I as [cap bal ub ubnd ubnn fr fr2 (w1 & w2 & w3 & w4 & w5 & w6 & w7 & w8 & w9)].
    apply inv_cfg; simpl; auto; try lia. constructor; simpl; auto. repeat split; auto; lia.
  - (* End *)
    destruct (is_admin c); [|discriminate].
    apply bind_ok in H. destruct H as (s1 & H1 & H). inversion H; subst; clear H.
    apply settle_spec in H1; auto. destruct H1 as (I1 & _).
    pose proof I1 as [_ _ _ _ _ _ _ (w1 & w2 & w3 & w4 & _)]. apply inv_cfg; auto.
  - (* SetApr *)
    destruct (is_admin c); [|discriminate]. destruct (0 <? a) eqn:Ea; [|discriminate]. apply Z.ltb_lt in Ea.
    apply bind_ok in H. destruct H as (s1 & H1 & H). inversion H; subst; clear H.
    apply settle_spec in H1; auto. destruct H1 as (I1 & _).
    pose proof I1 as [_ _ _ _ _ _ _ (w1 & w2 & w3 & w4 & _)]. apply inv_cfg; auto; lia.
  - (* SetMinUnbond *)
    destruct (is_admin c); [|discriminate]. destruct (_ && _); [|discriminate]. inversion H; subst; clear H.
    pose proof I as [_ _ _ _ _ _ _ (w1 & w2 & w3 & w4 & _)]. apply inv_cfg; auto.
  - (* SetPct *)
    destruct (is_admin c); [|discriminate]. destruct ((0 <=? p) && (p <=? MAXP)) eqn:E; [|discriminate].
    apply andb_prop in E. destruct E as [E1 E2]. apply Z.leb_le in E1, E2.
    apply bind_ok in H. destruct H as (s1 & H1 & H). inversion H; subst; clear H.
    apply settle_spec in H1; auto. destruct H1 as (I1 & _).
    pose proof I1 as [_ _ _ _ _ _ _ (w1 & w2 & w3 & w4 & _)]. apply inv_cfg; auto; lia.
  - (* SetFactors *)
    destruct (is_admin c); [|discriminate]. inversion H; subst; clear H.
    pose proof I as [_ _ _ _ _ _ _ (w1 & w2 & w3 & w4 & _)]. apply inv_cfg; auto.
  - (* SetState *)
    destruct (is_admin c); [|discriminate]. destruct (_ || _); [|discriminate]. inversion H; subst; clear H.
    pose proof I as [_ _ _ _ _ _ _ (w1 & w2 & w3 & w4 & _)]. apply inv_cfg; auto.
  - (* Donate *)
    destruct (0 <? amt) eqn:Ea; [|discriminate]. apply Z.ltb_lt in Ea. inversion H; subst; clear H.
    destruct I as [cap bal ub ubnd ubnn fr fr2 (w1 & w2 & w3 & w4 & w5 & w6 & w7 & w8 & w9)].
    constructor; simpl; auto; try lia; try (repeat split; auto; lia).
Qed.

Lemma init_inv dsc apr minub : 0 < dsc -> 0 < apr -> StkInv (init_stk dsc apr minub).
Proof.
  intros Hd Ha. pose proof maxp_pos. constructor; simpl; try lia; try constructor; try (intros k []); try (intros k e []); try (repeat split; lia).
Qed.

Lemma srun_inv ops : forall s, StkInv s -> StkInv (srun s ops).
Proof.
  induction ops as [|op t IH]; intros s I; simpl; [exact I|].
  apply IH. unfold sstep_total. destruct (sstep s op) as [[s' o]|] eqn:E; [|exact I].
  eapply sstep_inv; eauto.
Qed.

(** ------------------------------------------------------------------ C12 specifics *)
(** the per-block APR bound is at most supply * maxAPR / (10000 * blocks_per_year) *)
Lemma apr_per_block_bound s : 0 <= s_supply s -> 0 <= s_apr s ->
  apr_per_block s * (MAXP * BLOCKS_IN_YEAR) <= s_supply s * s_apr s.
Proof.
  intros Hs Ha. unfold apr_per_block. pose proof maxp_pos as HM. pose proof by_pos as HB.
  pose proof (div_lo (s_supply s * s_apr s) MAXP HM) as A.
  set (q := s_supply s * s_apr s / MAXP) in *.
  assert (0 <= q) by (apply div_nonneg; nia).
  pose proof (div_lo q BLOCKS_IN_YEAR HB) as B.
  set (r := q / BLOCKS_IN_YEAR) in *. clearbody q r. nia.
Qed.

Lemma settle_accrual s blk s' : settle s blk = Ok s' -> StkInv s ->
  let d := Z.max 0 (blk - s_last s) in
  0 <= s_acc s' - s_acc s /\
  s_acc s' <= s_cap s' /\
  (s_acc s' - s_acc s) * (MAXP * BLOCKS_IN_YEAR) <= d * (s_supply s * s_apr s) /\
  s_acc s' - s_acc s <= d * s_rate s /\
  (s_produce s = false -> s_acc s' = s_acc s) /\
  s_reserve s' - s_reserve s = s_acc s' - s_acc s.
Proof.
  intros H I d. pose proof I as [_ _ _ _ _ _ _ (w1 & w2 & w3 & w4 & w5 & _)].
  apply settle_spec in H; auto.
  destruct H as ([cap' _ _ _ _ _ _ _] & total & T0 & Ac & Re & Tc & Tb & Tz & _).
  pose proof (apr_per_block_bound s w5 w3) as HB.
  pose proof (apr_per_block_nonneg s w5 w3) as HA.
  unfold d. destruct (Z_lt_le_dec (s_last s) blk) as [Hlt|Hge].
  - destruct (Tb Hlt) as [T1 T2]. replace (Z.max 0 (blk - s_last s)) with (blk - s_last s) by lia.
    repeat split; try lia.
    + pose proof maxp_pos. pose proof by_pos.
      set (K := MAXP * BLOCKS_IN_YEAR) in *. assert (HK : 0 < K) by (unfold K; nia).
      set (D := blk - s_last s) in *. set (A := apr_per_block s) in *.
      assert (S1 : total * K <= A * D * K) by nia.
      assert (S2 : A * D * K <= D * (s_supply s * s_apr s)) by nia.
      rewrite Ac. replace (s_acc s + total - s_acc s) with total by lia. lia.
    + destruct (s_produce s); nia.
    + intros Hp. rewrite Hp in T2. lia.
  - specialize (Tz Hge). replace (Z.max 0 (blk - s_last s)) with 0 by lia. repeat split; lia.
Qed.

Lemma ub_preserved s op s' o n e : sstep s op = Ok (s', o) -> StkInv s ->
  find_z (s_ub s) n = Some e -> find_z (s_ub s') n = Some e.
Proof.
  intros H I Hf.
  assert (Hn : n < s_next s) by (destruct I as [_ _ _ _ _ _ fr2 _]; apply (fr2 n e); apply find_z_in; exact Hf).
  assert (Hset : forall s1 blk s2, settle s1 blk = Ok s2 -> StkInv s1 -> s_ub s2 = s_ub s1 /\ s_next s2 = s_next s1).
  { intros s1 blk s2 Hs I1. apply settle_spec in Hs; auto. destruct Hs as (_ & total & _ & _ & _ & _ & _ & _ & _ & _ & _ & _ & _ & U & _ & N & _). auto. }
  destruct op; cbn [sstep] in H.
  - destruct (_ && _); [|discriminate]. apply bind_ok in H. destruct H as (s0 & H0 & H).
    destruct (active s0); [|discriminate]. destruct (adds <=? s_supply s0); [|discriminate].
    apply bind_ok in H. destruct H as (s1 & H1 & H). inversion H; subst; clear H. simpl.
    pose proof (pay_inv _ _ _ _ H0 I) as I0. pay_fields H0 I. destruct (Hset _ _ _ H1 I0) as [U _]. congruence.
  - destruct (_ && _); [|discriminate]. apply bind_ok in H. destruct H as (s0 & H0 & H).
    destruct (active s0); [|discriminate]. destruct (adds <=? s_supply s0); [|discriminate].
    apply bind_ok in H. destruct H as (s1 & H1 & H). inversion H; subst; clear H. simpl.
    pose proof (pay_inv _ _ _ _ H0 I) as I0. pay_fields H0 I. destruct (Hset _ _ _ H1 I0) as [U _]. congruence.
  - destruct (active s); [|discriminate]. destruct (_ && _); [|discriminate].
    apply bind_ok in H. destruct H as (s1 & H1 & H). apply bind_ok in H. destruct H as (s2 & H2 & H).
    inversion H; subst; clear H. simpl. destruct (Hset _ _ _ H1 I) as [U _].
    apply settle_spec in H1; auto. destruct H1 as (I1 & _). pay_fields H2 I1. congruence.
  - destruct (active s); [|discriminate]. destruct (_ && _); [|discriminate].
    apply bind_ok in H. destruct H as (s1 & H1 & H). apply bind_ok in H. destruct H as (s2 & H2 & H).
    apply bind_ok in H. destruct H as (sup & _ & H). apply bind_ok in H. destruct H as (vir & _ & H).
    inversion H; subst; clear H. simpl. destruct (Hset _ _ _ H1 I) as [U _].
    apply settle_spec in H1; auto. destruct H1 as (I1 & _). pay_fields H2 I1. congruence.
  - destruct (active s); [|discriminate]. destruct (_ && _); [|discriminate].
    apply bind_ok in H. destruct H as (s1 & H1 & H). apply bind_ok in H. destruct H as (s2 & H2 & H).
    inversion H; subst; clear H. simpl. destruct (Hset _ _ _ H1 I) as [U _].
    apply settle_spec in H1; auto. destruct H1 as (I1 & _). pay_fields H2 I1. congruence.
  - destruct (active s); [|discriminate]. destruct (0 <? x); [|discriminate].
    apply bind_ok in H. destruct H as (s1 & H1 & H). apply bind_ok in H. destruct H as (s2 & H2 & H).
    apply bind_ok in H. destruct H as (sup & _ & H). unfold mint_unbond in H. inversion H; subst; clear H. simpl.
    destruct (Hset _ _ _ H1 I) as [U N].
    apply settle_spec in H1; auto. destruct H1 as (I1 & _). pay_fields H2 I1.
    rewrite find_z_app; [congruence | lia].
  - destruct (active s); [|discriminate]. destruct (_ && _); [|discriminate].
    apply bind_ok in H. destruct H as (s1 & H1 & H). apply bind_ok in H. destruct H as (s2 & H2 & H).
    apply bind_ok in H. destruct H as (sup & _ & H). apply bind_ok in H. destruct H as (vir & _ & H).
    unfold mint_unbond in H. inversion H; subst; clear H. simpl.
    destruct (Hset _ _ _ H1 I) as [U N].
    apply settle_spec in H1; auto. destruct H1 as (I1 & _). pay_fields H2 I1.
    rewrite find_z_app; [congruence | lia].
  - destruct (active s); [|discriminate]. destruct (0 <? amt); [|discriminate].
    destruct (find_z (s_ub s) n0); [|discriminate]. destruct (_ <=? ep); [|discriminate].
    apply bind_ok in H. destruct H as (rest & _ & H). apply bind_ok in H. destruct H as (b' & _ & H).
    apply bind_ok in H. destruct H as (t' & _ & H). inversion H; subst; clear H. simpl. exact Hf.
  - destruct (active s); [|discriminate]. apply bind_ok in H. destruct H as (s0 & H0 & H).
    inversion H; subst; clear H. simpl. pay_fields H0 I. congruence.
  - destruct (negb (ut =? 0)); [|discriminate]. destruct (active s); [|discriminate].
    apply bind_ok in H. destruct H as (s1 & H1 & H). apply bind_ok in H. destruct H as (s2 & H2 & H).
    inversion H; subst; clear H. destruct (Hset _ _ _ H1 I) as [U _].
    apply settle_spec in H1; auto. destruct H1 as (I1 & _). pay_fields H2 I1. congruence.
  - destruct (is_admin c); [|discriminate]. destruct (0 <? amt); [|discriminate]. inversion H; subst. exact Hf.
  - destruct (is_admin c); [|discriminate]. destruct (0 <=? w); [|discriminate].
    apply bind_ok in H. destruct H as (s1 & H1 & H). apply bind_ok in H. destruct H as (rem & _ & H).
    destruct (w <=? rem); [|discriminate]. apply bind_ok in H. destruct H as (c' & _ & H).
    apply bind_ok in H. destruct H as (b' & _ & H). inversion H; subst; clear H. simpl.
    destruct (Hset _ _ _ H1 I) as [U _]. congruence.
  - destruct (is_admin c); [|discriminate]. destruct (0 <? r); [|discriminate].
    apply bind_ok in H. destruct H as (s1 & H1 & H). inversion H; subst; clear H. simpl.
    destruct (Hset _ _ _ H1 I) as [U _]. congruence.
  - destruct (is_admin c); [|discriminate]. destruct (negb (s_rate s =? 0)); [|discriminate].
    destruct (negb (s_produce s)); [|discriminate]. inversion H; subst. exact Hf.
  - destruct (is_admin c); [|discriminate].
    apply bind_ok in H. destruct H as (s1 & H1 & H). inversion H; subst; clear H. simpl.
    destruct (Hset _ _ _ H1 I) as [U _]. congruence.
  - destruct (is_admin c); [|discriminate]. destruct (0 <? a); [|discriminate].
    apply bind_ok in H. destruct H as (s1 & H1 & H). inversion H; subst; clear H. simpl.
    destruct (Hset _ _ _ H1 I) as [U _]. congruence.
  - destruct (is_admin c); [|discriminate]. destruct (_ && _); [|discriminate]. inversion H; subst. exact Hf.
  - destruct (is_admin c); [|discriminate]. destruct (_ && _); [|discriminate].
    apply bind_ok in H. destruct H as (s1 & H1 & H). inversion H; subst; clear H. simpl.
    destruct (Hset _ _ _ H1 I) as [U _]. congruence.
  - destruct (is_admin c); [|discriminate]. inversion H; subst. exact Hf.
  - destruct (is_admin c); [|discriminate]. destruct (_ || _); [|discriminate]. inversion H; subst. exact Hf.
  - destruct (0 <? amt); [|discriminate]. inversion H; subst. exact Hf.
Qed.

Lemma unstake_char s blk ep c x r b s' o : sstep s (SUnstake blk ep c x r b) = Ok (s', o) -> StkInv s ->
  exists n, o = [n; x; r] /\ n = s_next s /\ find_z (s_ub s') n = Some (ep + s_minub s) /\
            aget (s_ubamt s') n = x /\ s_supply s' = s_supply s - x /\ 0 < x <= s_supply s /\
            s_ubtot s' = s_ubtot s + x.
Proof.
  intros H I. cbn [sstep] in H.
  destruct (active s); [|discriminate]. destruct (0 <? x) eqn:Ex; [|discriminate]. apply Z.ltb_lt in Ex.
  apply bind_ok in H. destruct H as (s1 & H1 & H). apply bind_ok in H. destruct H as (s2 & H2 & H).
  apply bind_ok in H. destruct H as (sup & Hs & H).
  destruct (mint_unbond _ ep x) as [s4 n] eqn:Hm. inversion H; subst; clear H.
  apply settle_spec in H1; auto.
  destruct H1 as (I1 & total & _ & _ & _ & _ & _ & _ & _ & Su1 & _ & _ & Ut1 & U1 & Ua1 & N1 & _ & _ & _ & Mu1 & _).
  pay_fields H2 I1. apply sub_chk_ok in Hs. destruct Hs as [Hs ->].
  unfold mint_unbond in Hm. inversion Hm; subst s' n; clear Hm. simpl.
  exists (s_next s2). split; [reflexivity|]. split; [congruence|].
  split; [|split; [apply aget_aset_same | split; [lia | split; [lia | lia]]]].
  pose proof (pay_inv _ _ _ _ H2 I1) as [_ _ _ _ _ _ fr2 _].
  rewrite find_z_app_new; [congruence|]. intros k v Hin. specialize (fr2 _ _ Hin). lia.
Qed.

Lemma unbond_char s ep c n amt s' o : sstep s (SUnbond ep c n amt) = Ok (s', o) ->
  exists unlock, find_z (s_ub s) n = Some unlock /\ unlock <= ep /\ o = [amt] /\
    0 < amt <= aget (s_ubamt s) n /\ s_bal s' = s_bal s - amt /\ s_ubtot s' = s_ubtot s - amt /\
    aget (s_ubamt s') n = aget (s_ubamt s) n - amt /\ s_supply s' = s_supply s /\ s_reserve s' = s_reserve s /\
    s_cap s' = s_cap s /\ s_acc s' = s_acc s.
Proof.
  intros H. cbn [sstep] in H.
  destruct (active s); [|discriminate]. destruct (0 <? amt) eqn:Ea; [|discriminate]. apply Z.ltb_lt in Ea.
  destruct (find_z (s_ub s) n) as [unlock|] eqn:Ef; [|discriminate].
  destruct (unlock <=? ep) eqn:Eu; [|discriminate]. apply Z.leb_le in Eu.
  apply bind_ok in H. destruct H as (rest & Hr & H).
  apply bind_ok in H. destruct H as (bal' & Hb & H).
  apply bind_ok in H. destruct H as (tot & Ht & H). inversion H; subst; clear H.
  apply sub_chk_ok in Hr, Hb, Ht. destruct Hr as [Hr ->]. destruct Hb as [Hb ->]. destruct Ht as [Ht ->].
  exists unlock. simpl. repeat split; auto; try lia. apply aget_aset_same.
Qed.

Lemma unbond_too_early s ep c n amt unlock : find_z (s_ub s) n = Some unlock -> ep < unlock ->
  is_ok (sstep s (SUnbond ep c n amt)) = false.
Proof.
  intros Hf Hlt. cbn [sstep]. destruct (active s); [|reflexivity]. destruct (0 <? amt); [|reflexivity].
  rewrite Hf. destruct (unlock <=? ep) eqn:E; [apply Z.leb_le in E; lia | reflexivity].
Qed.

Lemma withdraw_char s blk c w s' o : sstep s (SWithdraw blk c w) = Ok (s', o) -> StkInv s ->
  exists s1, settle s blk = Ok s1 /\ 0 <= w <= s_cap s1 - s_acc s1 /\ s_cap s' = s_cap s1 - w /\
             s_acc s' = s_acc s1 /\ s_bal s' = s_bal s - w /\ s_acc s' <= s_cap s' /\ c = OWNER.
Proof.
  intros H I. cbn [sstep] in H.
  destruct (is_admin c) eqn:Ec; [|discriminate]. destruct (0 <=? w) eqn:Ew; [|discriminate]. apply Z.leb_le in Ew.
  apply bind_ok in H. destruct H as (s1 & H1 & H).
  apply bind_ok in H. destruct H as (remaining & Hrem & H).
  destruct (w <=? remaining) eqn:Ewr; [|discriminate]. apply Z.leb_le in Ewr.
  apply bind_ok in H. destruct H as (cap' & Hc & H).
  apply bind_ok in H. destruct H as (bal' & Hb & H). inversion H; subst; clear H.
  apply sub_chk_ok in Hrem, Hc, Hb. destruct Hrem as [_ ->]. destruct Hc as [_ ->]. destruct Hb as [_ ->].
  exists s1. split; [exact H1|]. apply settle_spec in H1; auto.
  destruct H1 as (_ & total & _ & _ & _ & _ & _ & _ & _ & _ & _ & Bl & _). simpl.
  unfold is_admin in Ec. apply Z.eqb_eq in Ec. repeat split; try lia.
Qed.

(** ---- C06 for the staking farm: exact index growth of one settlement ---- *)
Definition is_floor_s (q n d : Z) : Prop := q * d <= n < (q + 1) * d.

Lemma settle_index_char s blk s' : settle s blk = Ok s' -> StkInv s ->
  (blk <= s_last s -> s' = s) /\
  (s_last s < blk ->
     let unb := if s_produce s then s_rate s * (blk - s_last s) else 0 in
     let total := Z.min (Z.min unb (apr_per_block s * (blk - s_last s))) (s_cap s - s_acc s) in
     let cut := boosted_cut s total in
     s_last s' = blk /\ s_acc s' = s_acc s + total /\ s_reserve s' = s_reserve s + total /\
     s_pool s' = s_pool s + cut /\ 0 <= cut <= total /\
     (s_supply s = 0 -> s_rps s' = s_rps s) /\
     (0 < s_supply s -> is_floor_s (s_rps s' - s_rps s) ((total - cut) * s_dsc s) (s_supply s))).
Proof.
  unfold settle. intros H I. pose proof I as [cap bal ub ubnd ubnn fr fr2 (w1 & w2 & w3 & w4 & w5 & w6 & w7 & w8 & w9)].
  apply bind_ok in H. destruct H as (remaining & Hrem & H). apply sub_chk_ok in Hrem. destruct Hrem as [_ ->].
  destruct (blk <=? s_last s) eqn:E.
  { apply Z.leb_le in E. inversion H; subst. split; [reflexivity|lia]. }
  apply Z.leb_gt in E. split; [lia|]. intros _. cbv zeta in *.
  pose proof (apr_per_block_nonneg s w5 w3) as Hapr.
  set (unb := if s_produce s then s_rate s * (blk - s_last s) else 0) in *.
  assert (Hunb : 0 <= unb) by (unfold unb; destruct (s_produce s); nia).
  set (aprb := apr_per_block s * (blk - s_last s)) in *.
  assert (Haprb : 0 <= aprb) by (unfold aprb; nia).
  set (total := Z.min (Z.min unb aprb) (s_cap s - s_acc s)) in *.
  assert (T0 : 0 <= total) by (unfold total; lia).
  destruct (total =? 0) eqn:E0.
  { apply Z.eqb_eq in E0. inversion H; subst s'; clear H. simpl. rewrite E0.
    assert (C0 : boosted_cut s 0 = 0).
    { unfold boosted_cut. destruct ((s_pct s =? 0) || negb (s_factors s)); [reflexivity|]. rewrite Z.mul_0_l. apply Z.div_0_l. pose proof maxp_pos; lia. }
    rewrite C0. repeat split; try lia. }
  pose proof (boosted_cut_bounds s total T0 w4) as Hc.
  set (cut := boosted_cut s total) in *. clearbody cut total unb aprb.
  apply bind_ok in H. destruct H as (inc & Hinc & H). inversion H; subst s'; clear H. simpl.
  split; [lia|]. split; [lia|]. split; [lia|]. split; [lia|]. split; [lia|]. split.
  - intros Hs. rewrite Hs in Hinc. simpl in Hinc. inversion Hinc. lia.
  - intros Hs. destruct (s_supply s =? 0) eqn:ES; [apply Z.eqb_eq in ES; lia|].
    apply div_chk_ok in Hinc. destruct Hinc as [_ ->].
    replace (s_rps s + (total - cut) * s_dsc s / s_supply s - s_rps s) with ((total - cut) * s_dsc s / s_supply s) by lia.
    unfold is_floor_s. pose proof (Z.mul_div_le ((total - cut) * s_dsc s) (s_supply s) Hs).
    pose proof (Z.mul_succ_div_gt ((total - cut) * s_dsc s) (s_supply s) Hs). lia.
Qed.

(** ---- unbonding: possible in full once elapsed, and only once ---- *)
Lemma sub_chk_ge a b : b <= a -> sub_chk a b = Ok (a - b).
Proof. intros H. unfold sub_chk. destruct (a <? b) eqn:E; [apply Z.ltb_lt in E; lia | reflexivity]. Qed.

Lemma sub_chk_lt a b : a < b -> is_ok (sub_chk a b) = false.
Proof. intros H. unfold sub_chk. destruct (a <? b) eqn:E; [reflexivity | apply Z.ltb_ge in E; lia]. Qed.

Lemma asum_nonneg_s l : all_nonneg l -> 0 <= asum l.
Proof. induction l as [|[k v] t IH]; simpl; intros H; [lia|]. inversion H as [|x l' Hx Hl]; subst. simpl in Hx. specialize (IH Hl). lia. Qed.

Lemma unbond_live s ep c n amt unlock : StkInv s -> active s = true -> s_virt s <= s_supply s ->
  find_z (s_ub s) n = Some unlock -> unlock <= ep -> 0 < amt <= aget (s_ubamt s) n ->
  exists s', sstep s (SUnbond ep c n amt) = Ok (s', [amt]).
Proof.
  intros I Ha Hv Hf Hu Hamt. pose proof I as [cap bal ub ubnd ubnn fr fr2 (w1 & w2 & w3 & w4 & w5 & w6 & w7 & w8 & w9)].
  assert (Hle : aget (s_ubamt s) n <= s_ubtot s).
  { rewrite ub. clear - ubnd ubnn. induction (s_ubamt s) as [|[k v] t IH]; simpl; [lia|].
    inversion ubnn as [|x l Hx Hl]; subst. simpl in Hx. simpl in ubnd. inversion ubnd as [|x l Hni Hnd]; subst.
    specialize (IH Hnd Hl). pose proof (asum_nonneg_s t Hl). destruct (k =? n); lia. }
  cbn [sstep]. rewrite Ha. assert (E0 : (0 <? amt) = true) by (apply Z.ltb_lt; lia). rewrite E0. rewrite Hf.
  assert (E1 : (unlock <=? ep) = true) by (apply Z.leb_le; lia). rewrite E1.
  rewrite (sub_chk_ge (aget (s_ubamt s) n) amt) by lia. cbn [bind].
  rewrite (sub_chk_ge (s_bal s) amt) by lia. cbn [bind].
  rewrite (sub_chk_ge (s_ubtot s) amt) by lia. cbn [bind]. eexists. reflexivity.
Qed.

Lemma unbond_once s ep c n s' o : sstep s (SUnbond ep c n (aget (s_ubamt s) n)) = Ok (s', o) ->
  forall ep' c' amt', is_ok (sstep s' (SUnbond ep' c' n amt')) = false.
Proof.
  intros H ep' c' amt'. destruct (unbond_char _ _ _ _ _ _ _ H) as (unlock & _ & _ & _ & _ & _ & _ & Hz & _).
  cbn [sstep]. destruct (active s'); [|reflexivity]. destruct (0 <? amt') eqn:Ea; [|reflexivity]. apply Z.ltb_lt in Ea.
  destruct (find_z (s_ub s') n); [|reflexivity]. destruct (_ <=? ep'); [|reflexivity].
  assert (Hs : is_ok (sub_chk (aget (s_ubamt s') n) amt') = false) by (apply sub_chk_lt; lia).
  destruct (sub_chk (aget (s_ubamt s') n) amt'); [discriminate|reflexivity].
Qed.
