(** Invariants of the pair state machine (C01) and per-step K/S^2 monotonicity (C02). *)
From MX Require Import Base.Prelude Gen.Params Model.Pair Proofs.ParamFacts Proofs.PairMath.

(** Break a hypothesis [H : <monadic computation> = Ok _] into its successful steps. *)
Ltac inv_ok H :=
  repeat (first
    [ match type of H with
      | Ok _ = Ok _ => inversion H; subst; clear H
      | Err _ = Ok _ => discriminate H
      | bind ?r ?f = Ok _ =>
          let a := fresh "a" in let Hb := fresh "Hb" in
          apply bind_ok in H; destruct H as (a & Hb & H)
      | (if ?b then _ else _) = Ok _ =>
          let E := fresh "E" in destruct b eqn:E
      | (let (_, _) := ?x in _) = Ok _ => destruct x
      | (match ?x with Some _ => _ | None => _ end) = Ok _ =>
          let E := fresh "E" in destruct x eqn:E
      end
    | progress cbv beta in H ]).

Definition M_pos : 0 < M := proj1 pair_params.

(** ------------------------------------------------------------------ frame: what an operation leaves alone *)
Definition same_cfg (p p' : pair) : Prop :=
  p_state p' = p_state p /\ p_fee p' = p_fee p /\ p_sfee p' = p_sfee p /\ p_dests p' = p_dests p /\
  p_cut p' = p_cut p /\ p_trusted p' = p_trusted p /\ p_wl p' = p_wl p /\ p_adder p' = p_adder p.

Definition same_lp (p p' : pair) : Prop := p_S p' = p_S p /\ p_lp p' = p_lp p.

Lemma same_cfg_refl p : same_cfg p p.
Proof. unfold same_cfg; tauto. Qed.

Lemma same_cfg_trans p q r : same_cfg p q -> same_cfg q r -> same_cfg p r.
Proof. unfold same_cfg; intuition congruence. Qed.

Lemma same_lp_trans p q r : same_lp p q -> same_lp q r -> same_lp p r.
Proof. unfold same_lp; intuition congruence. Qed.

(** excess of the real balance over the reserve, per direction *)
Definition ex1 (p : pair) : Z := p_bal1 p - p_r1 p.
Definition ex2 (p : pair) : Z := p_bal2 p - p_r2 p.
Definition ex_in (p : pair) (o : bool) : Z := if o then ex1 p else ex2 p.
Definition ex_out (p : pair) (o : bool) : Z := if o then ex2 p else ex1 p.

Lemma sub_bal_spec p t a p' :
  sub_bal p t a = Ok p' ->
  a <= bal p t /\ same_cfg p p' /\ same_lp p p' /\ p_r1 p' = p_r1 p /\ p_r2 p' = p_r2 p /\
  (if t =? T1 then p_bal1 p' = p_bal1 p - a /\ p_bal2 p' = p_bal2 p
   else p_bal1 p' = p_bal1 p /\ p_bal2 p' = p_bal2 p - a).
Proof.
  unfold sub_bal. intros H. inv_ok H.
  apply sub_chk_ok in Hb. destruct Hb as [Hle ->].
  unfold same_cfg, same_lp, bal in *. destruct (t =? T1); simpl; repeat split; auto; lia.
Qed.

Lemma swap_nofee_spec p o ain p' out :
  swap_safe_no_fee p o ain = Ok (p', out) ->
  0 < rin p o -> 0 < rout p o -> 0 < ain ->
  same_cfg p p' /\ same_lp p p' /\ p_bal1 p' = p_bal1 p /\ p_bal2 p' = p_bal2 p /\
  rin p' o = rin p o + ain /\ rout p' o = rout p o - out /\ 0 < out < rout p o /\
  rin p o * rout p o <= rin p' o * rout p' o.
Proof.
  unfold swap_safe_no_fee, amount_out_no_fee. intros H Hri Hro Ha. inv_ok H.
  apply div_chk_ok in Hb. destruct Hb as [Hnz ->].
  apply sub_chk_ok in Hb0. destruct Hb0 as [Hle ->].
  apply andb_prop in E0. destruct E0 as [E0 E1].
  apply Z.ltb_lt in E0. apply negb_true_iff in E1. apply Z.eqb_neq in E1.
  assert (Hout0 : 0 <= ain * rout p o / (rin p o + ain)) by (apply div_nonneg; nia).
  pose proof (swap_nofee_K ain (rin p o) (rout p o) Ha Hri Hro) as HK.
  unfold same_cfg, same_lp, rin, rout, set_rs in *.
  destruct o; simpl; repeat split; auto; try lia; nia.
Qed.

Lemma burn_tok_spec p e t a p' e' :
  burn_tok p e t a = Ok (p', e') -> 0 <= a ->
  same_cfg p p' /\ same_lp p p' /\ p_r1 p' = p_r1 p /\ p_r2 p' = p_r2 p /\
  (if t =? T1 then p_bal1 p' = p_bal1 p - a /\ p_bal2 p' = p_bal2 p
   else p_bal1 p' = p_bal1 p /\ p_bal2 p' = p_bal2 p - a).
Proof.
  unfold burn_tok. intros H Ha. destruct (a =? 0) eqn:E.
  - apply Z.eqb_eq in E. subst a. inv_ok H.
    unfold same_cfg, same_lp. destruct (t =? T1); repeat split; auto; lia.
  - inv_ok H. apply sub_bal_spec in Hb. tauto.
Qed.

(** the pool-level facts every fee-slice path shares *)
Record slice_post (o : bool) (amt : Z) (p p' : pair) : Prop := {
  sp_cfg : same_cfg p p';
  sp_lp : same_lp p p';
  sp_exin : ex_in p' o = ex_in p o - amt;
  sp_exout : ex_out p' o = ex_out p o;
  sp_rin : rin p o <= rin p' o;
  sp_rout : 0 < rout p' o <= rout p o;
  sp_K : rin p o * rout p o <= rin p' o * rout p' o
}.

Lemma tok_in_T1 o : (tok_in o =? T1) = o.
Proof. destruct o; reflexivity. Qed.
Lemma tok_out_T1 o : (tok_out o =? T1) = negb o.
Proof. destruct o; reflexivity. Qed.

Lemma send_fee_slice_spec p e o slice req p' e' :
  send_fee_slice p e o (tok_in o) slice req = Ok (p', e') ->
  0 < slice -> 0 < rin p o -> 0 < rout p o ->
  slice_post o slice p p'.
Proof.
  unfold send_fee_slice. intros H Hs Hri Hro.
  destruct (tok_in o =? req) eqn:E1.
  { apply burn_tok_spec in H; [|lia]. rewrite tok_in_T1 in H.
    destruct H as (Hc & Hl & H1 & H2 & Hb).
    constructor; auto; unfold ex_in, ex_out, ex1, ex2, rin, rout in *; destruct o; simpl in *; lia. }
  destruct (((req =? T1) && (tok_in o =? T2)) || ((req =? T2) && (tok_in o =? T1))) eqn:E2.
  { inv_ok H. apply swap_nofee_spec in Hb; auto.
    destruct Hb as (Hc & Hl & B1 & B2 & R1 & R2 & Hout & HK).
    assert (Hreq : req = tok_out o).
    { destruct o; simpl in *; unfold T1, T2 in *;
      repeat match goal with
      | H : _ || _ = true |- _ => apply orb_prop in H; destruct H
      | H : _ && _ = true |- _ => apply andb_prop in H; destruct H
      | H : (_ =? _) = true |- _ => apply Z.eqb_eq in H
      end; subst; try lia; try reflexivity; try discriminate. }
    subst req. apply burn_tok_spec in H; [|lia]. rewrite tok_out_T1 in H.
    destruct H as (Hc2 & Hl2 & H1 & H2 & Hbb).
    constructor.
    - eapply same_cfg_trans; eauto.
    - eapply same_lp_trans; eauto.
    - unfold ex_in, ex_out, ex1, ex2, rin, rout in *; destruct o; simpl in *; lia.
    - unfold ex_in, ex_out, ex1, ex2, rin, rout in *; destruct o; simpl in *; lia.
    - unfold rin, rout in *; destruct o; simpl in *; lia.
    - unfold rin, rout in *; destruct o; simpl in *; lia.
    - unfold rin, rout in *; destruct o; simpl in *; nia. }
  destruct (has_trusted p (tok_in o) req) eqn:E3.
  { inv_ok H. apply sub_bal_spec in Hb. rewrite tok_in_T1 in Hb.
    destruct Hb as (Hle & Hc & Hl & H1 & H2 & Hbb).
    constructor; auto; unfold ex_in, ex_out, ex1, ex2, rin, rout in *; destruct o; simpl in *; lia. }
  inv_ok H.
  apply swap_nofee_spec in Hb; auto.
  destruct Hb as (Hc & Hl & B1 & B2 & R1 & R2 & Hout & HK).
  apply sub_bal_spec in Hb0.
  assert (Hoth : ((if tok_in o =? T1 then T2 else T1) =? T1) = negb o) by (destruct o; reflexivity).
  rewrite Hoth in Hb0.
  destruct Hb0 as (Hle & Hc2 & Hl2 & H1 & H2 & Hbb).
  constructor.
  - eapply same_cfg_trans; eauto.
  - eapply same_lp_trans; eauto.
  - unfold ex_in, ex_out, ex1, ex2, rin, rout in *; destruct o; simpl in *; lia.
  - unfold ex_in, ex_out, ex1, ex2, rin, rout in *; destruct o; simpl in *; lia.
  - unfold rin, rout in *; destruct o; simpl in *; lia.
  - unfold rin, rout in *; destruct o; simpl in *; lia.
  - unfold rin, rout in *; destruct o; simpl in *; nia.
Qed.

Lemma slice_post_refl o p : 0 < rout p o -> slice_post o 0 p p.
Proof.
  intros. constructor; try lia.
  - apply same_cfg_refl.
  - unfold same_lp; tauto.
Qed.

Lemma slice_post_trans o a b p q r :
  slice_post o a p q -> slice_post o b q r -> slice_post o (a + b) p r.
Proof.
  intros [] []. constructor.
  - eapply same_cfg_trans; eauto.
  - eapply same_lp_trans; eauto.
  - lia.
  - lia.
  - lia.
  - lia.
  - lia.
Qed.

Lemma send_slices_spec ds : forall p e o slice p' e',
  send_slices p e o (tok_in o) slice ds = Ok (p', e') ->
  0 < slice -> 0 < rin p o -> 0 < rout p o ->
  slice_post o (slice * Z.of_nat (length ds)) p p'.
Proof.
  induction ds as [|[a req] t IH]; intros p e o slice p' e' H Hs Hri Hro.
  - simpl in H. inv_ok H. replace (slice * Z.of_nat (length (@nil (Z*Z)))) with 0 by (simpl; lia).
    apply slice_post_refl; assumption.
  - cbn [send_slices] in H. inv_ok H.
    apply send_fee_slice_spec in Hb; auto.
    pose proof Hb as [].
    apply IH in H; auto; try lia.
    replace (slice * Z.of_nat (length ((a, req) :: t))) with (slice + slice * Z.of_nat (length t))
      by (cbn [length]; lia).
    eapply slice_post_trans; eauto.
Qed.

(** send_fee disposes of at most [fee] out of the input-side excess and nothing else *)
Record fee_post (o : bool) (fee : Z) (p p' : pair) : Prop := {
  fp_cfg : same_cfg p p';
  fp_lp : same_lp p p';
  fp_exin : ex_in p o - fee <= ex_in p' o <= ex_in p o;
  fp_exout : ex_out p' o = ex_out p o;
  fp_rin : rin p o <= rin p' o;
  fp_rout : 0 < rout p' o <= rout p o;
  fp_K : rin p o * rout p o <= rin p' o * rout p' o
}.

Lemma slice_fee_post o amt fee p p' :
  slice_post o amt p p' -> 0 <= amt <= fee -> fee_post o fee p p'.
Proof. intros [] H. constructor; auto; lia. Qed.

Definition cut_ok (p : pair) : Prop := forall cut, p_cut p = Some cut -> 0 < cut <= M.

Lemma send_fee_spec p e o fee p' e' :
  send_fee p e o (tok_in o) fee = Ok (p', e') ->
  cut_ok p -> 0 <= fee -> 0 < rin p o -> 0 < rout p o ->
  fee_post o fee p p'.
Proof.
  unfold send_fee. intros H Hcutok Hf Hri Hro.
  destruct (fee =? 0) eqn:E0.
  { inv_ok H. apply slice_fee_post with (amt := 0); [apply slice_post_refl; auto | lia]. }
  apply Z.eqb_neq in E0.
  apply bind_ok in H. destruct H as ([[p0 e0] z] & Hb & H).
  (* first stage: collector cut *)
  assert (Hcut : exists c, 0 <= c /\ z = fee - c /\ 0 <= z /\ slice_post o c p p0).
  { destruct (p_cut p) as [cut|] eqn:EC.
    - cbv zeta in Hb. apply bind_ok in Hb. destruct Hb as (rem & Hr & Hb).
      apply sub_chk_ok in Hr. destruct Hr as [Hle ->].
      destruct (0 <? fee * cut / M) eqn:E1.
      + apply bind_ok in Hb. destruct Hb as (p1 & Hsb & Hb). inversion Hb; subst; clear Hb.
        apply Z.ltb_lt in E1. apply sub_bal_spec in Hsb. rewrite tok_in_T1 in Hsb.
        destruct Hsb as (Hle2 & Hc & Hl & H1 & H2 & Hbb).
        exists (fee * cut / M). split; [lia | split; [lia | split; [lia|]]].
        constructor; auto; unfold ex_in, ex_out, ex1, ex2, rin, rout in *; destruct o; simpl in *; lia.
      + inversion Hb; subst; clear Hb. apply Z.ltb_ge in E1.
        assert (0 <= fee * cut / M) by (apply div_nonneg; [specialize (Hcutok _ EC); nia | apply M_pos]).
        exists 0. split; [lia | split; [lia | split; [lia|]]]. apply slice_post_refl; auto.
    - inversion Hb; subst; clear Hb. exists 0. split; [lia | split; [lia | split; [lia|]]]. apply slice_post_refl; auto. }
  destruct Hcut as (c & Hc0 & -> & Hz & Hsp).
  pose proof Hsp as [].
  cbv beta iota in H.
  destruct (Z.of_nat (length (p_dests p)) =? 0) eqn:En.
  { inv_ok H. apply slice_fee_post with (amt := c); auto. lia. }
  apply Z.eqb_neq in En.
  set (n := Z.of_nat (length (p_dests p))) in *.
  assert (Hn : 0 < n) by (unfold n in *; lia).
  pose proof (div_lo (fee - c) n Hn) as Hdl.
  assert (Hsl0 : 0 <= (fee - c) / n) by (apply div_nonneg; lia).
  destruct ((fee - c) / n =? 0) eqn:Es.
  { inv_ok H. apply slice_fee_post with (amt := c); auto. lia. }
  apply Z.eqb_neq in Es.
  apply send_slices_spec in H; try lia.
  apply slice_fee_post with (amt := c + (fee - c) / n * n).
  - eapply slice_post_trans; eauto.
  - lia.
Qed.

(** ------------------------------------------------------------------ the invariant (C01) *)
Record PairInv (p : pair) : Prop := {
  i_b1 : p_r1 p <= p_bal1 p;
  i_b2 : p_r2 p <= p_bal2 p;
  i_S : p_S p = asum (p_lp p);
  i_nd : NoDup (akeys (p_lp p));
  i_nn : all_nonneg (p_lp p);
  i_pos : 0 < p_S p -> 0 < p_r1 p /\ 0 < p_r2 p /\ MINIMUM_LIQUIDITY <= lp_of p SELF;
  i_zero : p_S p = 0 -> p_r1 p = 0 /\ p_r2 p = 0;
  i_S0 : 0 <= p_S p;
  i_fee : 0 <= p_sfee p <= p_fee p /\ p_fee p <= PAIR_MAX_FEE_PERCENTAGE;
  i_cut : cut_ok p
}.

(** K / S^2 does not decrease (cross-multiplied; C02) *)
Definition Kmono (p p' : pair) : Prop :=
  0 < p_S p ->
  p_r1 p * p_r2 p * (p_S p' * p_S p') <= p_r1 p' * p_r2 p' * (p_S p * p_S p).

(** excess of balances over reserves never shrinks: rounding dust and donations stay in the pair *)
Definition ExMono (p p' : pair) : Prop := ex1 p <= ex1 p' /\ ex2 p <= ex2 p'.

Lemma inv_r_nonneg p : PairInv p -> 0 <= p_r1 p /\ 0 <= p_r2 p.
Proof.
  intros []. destruct (Z.eq_dec (p_S p) 0) as [E|E].
  - destruct (i_zero0 E). lia.
  - destruct i_pos0; lia.
Qed.

Lemma fee_lt_M p : PairInv p -> 0 <= p_sfee p <= p_fee p /\ p_fee p < M.
Proof. intros []. pose proof pair_params. unfold M. lia. Qed.

(** a pool-only change (swaps, fee handling): S, LP ledger and configuration untouched *)
Lemma inv_pool_change p p' :
  PairInv p -> same_cfg p p' -> same_lp p p' ->
  ExMono p p' ->
  (0 < p_S p -> 0 < p_r1 p' /\ 0 < p_r2 p') ->
  (p_S p = 0 -> p_r1 p' = 0 /\ p_r2 p' = 0) ->
  PairInv p'.
Proof.
  intros [] (C1 & C2 & C3 & C4 & C5 & C6 & C7 & C8) (L1 & L2) (E1 & E2) Hp Hz.
  unfold ex1, ex2 in *.
  constructor.
  - lia.
  - lia.
  - rewrite L1, L2. assumption.
  - rewrite L2. assumption.
  - rewrite L2. assumption.
  - rewrite L1. intros HS. specialize (Hp HS). specialize (i_pos0 HS).
    unfold lp_of in *. rewrite L2. tauto.
  - rewrite L1. exact Hz.
  - rewrite L1. assumption.
  - rewrite C2, C3. assumption.
  - unfold cut_ok in *. rewrite C5. assumption.
Qed.

Lemma ep_swap_in_spec p c tin ain tout mn p' o e :
  ep_swap_in p c tin ain tout mn = Ok (p', o, e) -> PairInv p ->
  PairInv p' /\ Kmono p p' /\ ExMono p p' /\ same_lp p p' /\ same_cfg p p'.
Proof.
  unfold ep_swap_in. intros H Hinv.
  destruct (0 <? mn) eqn:Emn; [|discriminate]. destruct (0 <? ain) eqn:Eain; [|discriminate].
  apply Z.ltb_lt in Eain.
  apply bind_ok in H. destruct H as (ord & Hord & H).
  destruct (can_swap (p_state p)) eqn:Ecs; [|discriminate].
  destruct (mn <? rout p ord) eqn:Emr; [|discriminate].
  apply bind_ok in H. destruct H as (out & Hout & H).
  destruct (mn <=? out) eqn:Emo; [|discriminate].
  destruct (out <? rout p ord) eqn:Eor; [|discriminate].
  destruct (negb (out =? 0)) eqn:Eo0; [|discriminate].
  cbv zeta in H.
  apply bind_ok in H. destruct H as (after & Haft & H).
  apply bind_ok in H. destruct H as (ro & Hro & H).
  destruct (k_check p _) eqn:Ek; [|discriminate].
  apply bind_ok in H. destruct H as ([p3 e3] & Hfee & H).
  apply bind_ok in H. destruct H as (p4 & Hsb & H).
  inversion H; subst; clear H.
  apply Z.ltb_lt in Emn, Emr, Eor. apply Z.leb_le in Emo.
  apply negb_true_iff in Eo0. apply Z.eqb_neq in Eo0.
  apply sub_chk_ok in Haft, Hro. destruct Haft as [Hfle ->]. destruct Hro as [_ ->].
  (* pool positivity *)
  assert (HS : 0 < p_S p).
  { destruct (Z.eq_dec (p_S p) 0) as [E|E].
    - destruct (i_zero _ Hinv E) as [Z1 Z2]. unfold rout in Emr. destruct ord; lia.
    - pose proof (i_S0 _ Hinv). lia. }
  destruct (i_pos _ Hinv HS) as (P1 & P2 & PL).
  assert (Hri : 0 < rin p ord) by (unfold rin; destruct ord; assumption).
  assert (Hrou : 0 < rout p ord) by (unfold rout; destruct ord; assumption).
  destruct (fee_lt_M _ Hinv) as (Fs & FM).
  unfold amount_out in Hout. cbv zeta in Hout. apply div_chk_ok in Hout. destruct Hout as [_ ->].
  set (out := ain * (M - p_fee p) * rout p ord / (rin p ord * M + ain * (M - p_fee p))) in *.
  set (fee := if fee_enabled p then special_fee (p_sfee p) ain else 0) in *.
  assert (Hfee0 : 0 <= fee).
  { unfold fee, special_fee. destruct (fee_enabled p); [apply div_nonneg; [nia|apply M_pos] | lia]. }
  (* K after the pool update *)
  assert (HK : rin p ord * rout p ord <= (rin p ord + (ain - fee)) * (rout p ord - out)).
  { unfold fee, special_fee. destruct (fee_enabled p).
    - apply swap_in_K; auto using M_pos; lia.
    - pose proof (swap_in_K M M_pos ain (rin p ord) (rout p ord) (p_fee p) 0 Eain Hri Hrou) as HK0.
      replace (ain * 0 / M) with 0 in HK0 by (rewrite Z.mul_0_r; reflexivity).
      apply HK0; lia. }
  clearbody out fee.
  set (p1 := set_rs p ord (rin p ord + (ain - fee)) (rout p ord - out)) in *.
  set (p2 := add_bal p1 tin ain) in *.
  assert (Htin : tin = tok_in ord).
  { unfold swap_order in Hord.
    destruct ((tin =? T1) && (tout =? T2)) eqn:A1.
    - inversion Hord; subst. apply andb_prop in A1. destruct A1 as [A1 _]. apply Z.eqb_eq in A1. exact A1.
    - destruct ((tin =? T2) && (tout =? T1)) eqn:A2; [|discriminate].
      inversion Hord; subst. apply andb_prop in A2. destruct A2 as [A2 _]. apply Z.eqb_eq in A2. exact A2. }
  assert (Htout : tout = tok_out ord).
  { unfold swap_order in Hord.
    destruct ((tin =? T1) && (tout =? T2)) eqn:A1.
    - inversion Hord; subst. apply andb_prop in A1. destruct A1 as [_ A1]. apply Z.eqb_eq in A1. exact A1.
    - destruct ((tin =? T2) && (tout =? T1)) eqn:A2; [|discriminate].
      inversion Hord; subst. apply andb_prop in A2. destruct A2 as [_ A2]. apply Z.eqb_eq in A2. exact A2. }
  (* facts about p2 *)
  assert (F2 : same_cfg p p2 /\ same_lp p p2 /\ rin p2 ord = rin p ord + (ain - fee) /\
               rout p2 ord = rout p ord - out /\ ex_in p2 ord = ex_in p ord + fee /\
               ex_out p2 ord = ex_out p ord + out).
  { subst tin. unfold p2, p1, add_bal, set_rs, same_cfg, same_lp, ex_in, ex_out, ex1, ex2, rin, rout.
    destruct ord; simpl; repeat split; lia. }
  destruct F2 as (C2 & L2 & R2i & R2o & X2i & X2o).
  (* fee stage *)
  assert (F3 : fee_post ord fee p2 p3).
  { destruct (0 <? fee) eqn:Ef.
    - subst tin. apply send_fee_spec in Hfee; auto; try lia.
      destruct C2 as (_ & _ & _ & _ & C5 & _). unfold cut_ok. rewrite C5. apply (i_cut _ Hinv).
    - inversion Hfee; subst. apply Z.ltb_ge in Ef. assert (fee = 0) by lia. subst fee.
      apply slice_fee_post with (amt := 0); [apply slice_post_refl; lia | lia]. }
  destruct F3 as [C3 L3 X3i X3o R3i R3o K3].
  apply sub_bal_spec in Hsb. subst tout. rewrite tok_out_T1 in Hsb.
  destruct Hsb as (Hle4 & C4 & L4 & R41 & R42 & B4).
  assert (Fin : rin p' ord = rin p3 ord /\ rout p' ord = rout p3 ord /\
                ex_in p' ord = ex_in p3 ord /\ ex_out p' ord = ex_out p3 ord - out).
  { clear - R41 R42 B4. unfold rin, rout, ex_in, ex_out, ex1, ex2. destruct ord; simpl in *; lia. }
  destruct Fin as (R5i & R5o & X5i & X5o).
  assert (Cf : same_cfg p p') by (eapply same_cfg_trans; [eapply same_cfg_trans; eauto | eauto]).
  assert (Lf : same_lp p p') by (eapply same_lp_trans; [eapply same_lp_trans; eauto | eauto]).
  assert (EM : ExMono p p').
  { unfold ExMono. unfold ex_in, ex_out in *. destruct ord; lia. }
  assert (Pos : 0 < p_r1 p' /\ 0 < p_r2 p').
  { unfold rin, rout in *. destruct ord; lia. }
  split; [|split; [|split; [|split]]]; auto.
  - apply inv_pool_change with (p := p); auto. intros E0. lia.
  - unfold Kmono. intros _. destruct Lf as [LS _]. rewrite LS.
    apply Z.mul_le_mono_nonneg_r; [nia|].
    unfold rin, rout in *. destruct ord; nia.
Qed.

Lemma swap_order_spec tin tout ord :
  swap_order tin tout = Ok ord -> tin = tok_in ord /\ tout = tok_out ord.
Proof.
  unfold swap_order. intros H.
  destruct ((tin =? T1) && (tout =? T2)) eqn:A1.
  - inversion H; subst. apply andb_prop in A1. destruct A1 as [A1 A2].
    apply Z.eqb_eq in A1, A2. simpl. auto.
  - destruct ((tin =? T2) && (tout =? T1)) eqn:A2; [|discriminate].
    inversion H; subst. apply andb_prop in A2. destruct A2 as [A2 A3].
    apply Z.eqb_eq in A2, A3. simpl. auto.
Qed.

Lemma pool_positive p ord x : PairInv p -> 0 <= x < rout p ord ->
  0 < p_S p /\ 0 < rin p ord /\ 0 < rout p ord.
Proof.
  intros Hinv Hx.
  assert (HS : 0 < p_S p).
  { destruct (Z.eq_dec (p_S p) 0) as [E|E].
    - destruct (i_zero _ Hinv E) as [Z1 Z2]. unfold rout in Hx. destruct ord; lia.
    - pose proof (i_S0 _ Hinv). lia. }
  destruct (i_pos _ Hinv HS) as (P1 & P2 & PL).
  unfold rin, rout. destruct ord; auto.
Qed.

Lemma ep_swap_out_spec p c tin amax tout aout p' o e :
  ep_swap_out p c tin amax tout aout = Ok (p', o, e) -> PairInv p ->
  PairInv p' /\ Kmono p p' /\ ExMono p p' /\ same_lp p p' /\ same_cfg p p'.
Proof.
  unfold ep_swap_out. intros H Hinv.
  destruct (0 <? aout) eqn:Eao; [|discriminate]. destruct (0 <? amax) eqn:Eam; [|discriminate].
  apply Z.ltb_lt in Eao.
  apply bind_ok in H. destruct H as (ord & Hord & H).
  destruct (can_swap (p_state p)) eqn:Ecs; [|discriminate].
  destruct (aout <? rout p ord) eqn:Emr; [|discriminate].
  apply bind_ok in H. destruct H as (ain & Hain & H).
  destruct (ain <=? amax) eqn:Emo; [|discriminate].
  destruct (negb (ain =? 0)) eqn:Eo0; [|discriminate].
  cbv zeta in H.
  apply bind_ok in H. destruct H as (after & Haft & H).
  apply bind_ok in H. destruct H as (ro & Hro & H).
  destruct (k_check p _) eqn:Ek; [|discriminate].
  apply bind_ok in H. destruct H as ([p3 e3] & Hfee & H).
  apply bind_ok in H. destruct H as (p4 & Hsb & H).
  inversion H; subst; clear H.
  apply Z.ltb_lt in Emr.
  apply sub_chk_ok in Haft, Hro. destruct Haft as [Hfle ->]. destruct Hro as [_ ->].
  destruct (pool_positive p ord aout Hinv) as (HS & Hri & Hrou); [lia|].
  destruct (fee_lt_M _ Hinv) as (Fs & FM).
  destruct (swap_order_spec _ _ _ Hord) as [Htin Htout].
  unfold amount_in in Hain.
  apply bind_ok in Hain. destruct Hain as (d & Hd & Hain).
  apply bind_ok in Hain. destruct Hain as (q & Hq & Hain).
  inversion Hain; subst ain; clear Hain.
  apply sub_chk_ok in Hd. destruct Hd as [_ ->].
  apply div_chk_ok in Hq. destruct Hq as [_ ->].
  set (cin := rin p ord * aout * M / ((rout p ord - aout) * (M - p_fee p)) + 1) in *.
  assert (Hcin : 0 < cin).
  { unfold cin. assert (0 <= rin p ord * aout * M / ((rout p ord - aout) * (M - p_fee p))).
    { apply div_nonneg; pose proof M_pos; nia. } lia. }
  set (fee := if fee_enabled p then special_fee (p_sfee p) cin else 0) in *.
  assert (Hfee0 : 0 <= fee).
  { unfold fee, special_fee. destruct (fee_enabled p); [apply div_nonneg; [nia|apply M_pos] | lia]. }
  assert (HK : rin p ord * rout p ord <= (rin p ord + (cin - fee)) * (rout p ord - aout)).
  { unfold fee, special_fee, cin. destruct (fee_enabled p).
    - apply (swap_out_K M M_pos aout (rin p ord) (rout p ord) (p_fee p) (p_sfee p)); lia.
    - pose proof (swap_out_K M M_pos aout (rin p ord) (rout p ord) (p_fee p) 0) as HK0.
      cbv zeta in HK0. rewrite Z.mul_0_r in HK0. replace (0 / M) with 0 in HK0 by reflexivity.
      apply HK0; lia. }
  clearbody cin fee.
  set (p1 := set_rs p ord (rin p ord + (cin - fee)) (rout p ord - aout)) in *.
  set (p2 := add_bal p1 tin cin) in *.
  assert (F2 : same_cfg p p2 /\ same_lp p p2 /\ rin p2 ord = rin p ord + (cin - fee) /\
               rout p2 ord = rout p ord - aout /\ ex_in p2 ord = ex_in p ord + fee /\
               ex_out p2 ord = ex_out p ord + aout).
  { subst tin. unfold p2, p1, add_bal, set_rs, same_cfg, same_lp, ex_in, ex_out, ex1, ex2, rin, rout.
    destruct ord; simpl; repeat split; lia. }
  destruct F2 as (C2 & L2 & R2i & R2o & X2i & X2o).
  assert (F3 : fee_post ord fee p2 p3).
  { destruct (0 <? fee) eqn:Ef.
    - subst tin. apply send_fee_spec in Hfee; auto; try lia.
      destruct C2 as (_ & _ & _ & _ & C5 & _). unfold cut_ok. rewrite C5. apply (i_cut _ Hinv).
    - inversion Hfee; subst. apply Z.ltb_ge in Ef. assert (fee = 0) by lia. subst fee.
      apply slice_fee_post with (amt := 0); [apply slice_post_refl; lia | lia]. }
  destruct F3 as [C3 L3 X3i X3o R3i R3o K3].
  apply sub_bal_spec in Hsb. subst tout. rewrite tok_out_T1 in Hsb.
  destruct Hsb as (Hle4 & C4 & L4 & R41 & R42 & B4).
  assert (Fin : rin p' ord = rin p3 ord /\ rout p' ord = rout p3 ord /\
                ex_in p' ord = ex_in p3 ord /\ ex_out p' ord = ex_out p3 ord - aout).
  { clear - R41 R42 B4. unfold rin, rout, ex_in, ex_out, ex1, ex2. destruct ord; simpl in *; lia. }
  destruct Fin as (R5i & R5o & X5i & X5o).
  assert (Cf : same_cfg p p') by (eapply same_cfg_trans; [eapply same_cfg_trans; eauto | eauto]).
  assert (Lf : same_lp p p') by (eapply same_lp_trans; [eapply same_lp_trans; eauto | eauto]).
  assert (EM : ExMono p p').
  { unfold ExMono. unfold ex_in, ex_out in *. destruct ord; lia. }
  assert (Pos : 0 < p_r1 p' /\ 0 < p_r2 p').
  { unfold rin, rout in *. destruct ord; lia. }
  split; [|split; [|split; [|split]]]; auto.
  - apply inv_pool_change with (p := p); auto. intros E0. lia.
  - unfold Kmono. intros _. destruct Lf as [LS _]. rewrite LS.
    apply Z.mul_le_mono_nonneg_r; [nia|].
    unfold rin, rout in *. destruct ord; nia.
Qed.

Lemma ep_swap_no_fee_spec p c tin ain tout p' o e :
  ep_swap_no_fee p c tin ain tout = Ok (p', o, e) -> PairInv p ->
  PairInv p' /\ Kmono p p' /\ ExMono p p' /\ same_lp p p' /\ same_cfg p p'.
Proof.
  unfold ep_swap_no_fee. intros H Hinv.
  destruct (existsb _ _) eqn:Ewl; [|discriminate].
  destruct (0 <? ain) eqn:Eain; [|discriminate]. apply Z.ltb_lt in Eain.
  apply bind_ok in H. destruct H as (ord & Hord & H).
  destruct (can_swap (p_state p)) eqn:Ecs; [|discriminate].
  apply bind_ok in H. destruct H as ([p1 out] & Hsw & H).
  destruct (0 <? out) eqn:Eout; [|discriminate].
  destruct (k_check p p1) eqn:Ek; [|discriminate].
  apply bind_ok in H. destruct H as ([p3 e3] & Hburn & H).
  inversion H; subst; clear H.
  destruct (swap_order_spec _ _ _ Hord) as [Htin Htout]. subst tin tout.
  (* reserves positive: swap_safe_no_fee demands rin <> 0 and out < rout *)
  assert (Hpos : 0 < p_S p /\ 0 < rin p ord /\ 0 < rout p ord).
  { unfold swap_safe_no_fee in Hsw.
    destruct (negb (rin p ord =? 0)) eqn:E1; [|discriminate].
    apply bind_ok in Hsw. destruct Hsw as (o1 & Ho1 & Hsw).
    destruct ((o1 <? rout p ord) && negb (o1 =? 0)) eqn:E2; [|discriminate].
    apply andb_prop in E2. destruct E2 as [E2 E3]. apply Z.ltb_lt in E2.
    unfold amount_out_no_fee in Ho1. apply div_chk_ok in Ho1. destruct Ho1 as [_ ->].
    destruct (inv_r_nonneg _ Hinv) as [N1 N2].
    assert (Hrin0 : rin p ord <> 0) by (apply negb_true_iff in E1; apply Z.eqb_neq in E1; exact E1).
    assert (Hnn : 0 <= rin p ord /\ 0 <= rout p ord) by (unfold rin, rout; destruct ord; lia).
    assert (0 <= ain * rout p ord / (rin p ord + ain)) by (apply div_nonneg; nia).
    eapply pool_positive; eauto. }
  destruct Hpos as (HS & Hri & Hrou).
  apply swap_nofee_spec in Hsw; auto.
  destruct Hsw as (C1 & L1 & B11 & B12 & R1i & R1o & Hout & HK).
  set (p2 := add_bal p1 (tok_in ord) ain) in *.
  assert (F2 : same_cfg p1 p2 /\ same_lp p1 p2 /\ p_r1 p2 = p_r1 p1 /\ p_r2 p2 = p_r2 p1 /\
               ex_in p2 ord = ex_in p ord /\ ex_out p2 ord = ex_out p ord + out).
  { unfold p2, add_bal, same_cfg, same_lp, ex_in, ex_out, ex1, ex2, rin, rout in *.
    destruct ord; simpl in *; repeat split; lia. }
  destruct F2 as (C2 & L2 & R21 & R22 & X2i & X2o).
  apply burn_tok_spec in Hburn; [|lia]. rewrite tok_out_T1 in Hburn.
  destruct Hburn as (C3 & L3 & R31 & R32 & B3).
  assert (Cf : same_cfg p p') by (eapply same_cfg_trans; [eapply same_cfg_trans; eauto | eauto]).
  assert (Lf : same_lp p p') by (eapply same_lp_trans; [eapply same_lp_trans; eauto | eauto]).
  assert (Fin : rin p' ord = rin p1 ord /\ rout p' ord = rout p1 ord /\
                ex_in p' ord = ex_in p ord /\ ex_out p' ord = ex_out p ord).
  { unfold rin, rout, ex_in, ex_out, ex1, ex2 in *. destruct ord; simpl in *; lia. }
  destruct Fin as (R5i & R5o & X5i & X5o).
  assert (EM : ExMono p p').
  { unfold ExMono. unfold ex_in, ex_out in *. destruct ord; lia. }
  assert (Pos : 0 < p_r1 p' /\ 0 < p_r2 p').
  { unfold rin, rout in *. destruct ord; lia. }
  split; [|split; [|split; [|split]]]; auto.
  - apply inv_pool_change with (p := p); auto. intros E0. lia.
  - unfold Kmono. intros _. destruct Lf as [LS _]. rewrite LS.
    apply Z.mul_le_mono_nonneg_r; [nia|].
    unfold rin, rout in *. destruct ord; nia.
Qed.

(** ------------------------------------------------------------------ LP ledger *)
Lemma lp_credit_spec p a amt : 0 <= amt -> NoDup (akeys (p_lp p)) -> all_nonneg (p_lp p) ->
  let p' := lp_credit p a amt in
  asum (p_lp p') = asum (p_lp p) + amt /\ NoDup (akeys (p_lp p')) /\ all_nonneg (p_lp p') /\
  lp_of p' a = lp_of p a + amt /\ (forall b, b <> a -> lp_of p' b = lp_of p b).
Proof.
  intros Ha Hnd Hnn. unfold lp_credit, lp_of, set_lp. simpl.
  pose proof (aget_nonneg _ a Hnn).
  split; [rewrite asum_aset by assumption; lia|].
  split; [apply nodup_aset; assumption|].
  split; [apply all_nonneg_aset; [assumption|lia]|].
  split; [apply aget_aset_same|].
  intros b Hb. apply aget_aset_other. congruence.
Qed.

Lemma lp_debit_spec p a amt p' : lp_debit p a amt = Ok p' ->
  0 <= amt -> NoDup (akeys (p_lp p)) -> all_nonneg (p_lp p) ->
  a <> SELF /\ amt <= lp_of p a /\
  asum (p_lp p') = asum (p_lp p) - amt /\ NoDup (akeys (p_lp p')) /\ all_nonneg (p_lp p') /\
  lp_of p' a = lp_of p a - amt /\ (forall b, b <> a -> lp_of p' b = lp_of p b) /\
  p' = set_lp p (p_lp p').
Proof.
  unfold lp_debit. intros H Ha Hnd Hnn.
  destruct (negb (a =? SELF)) eqn:E; [|discriminate].
  apply negb_true_iff in E. apply Z.eqb_neq in E.
  apply bind_ok in H. destruct H as (b & Hb & H). inversion H; subst; clear H.
  apply sub_chk_ok in Hb. destruct Hb as [Hle ->].
  unfold lp_of, set_lp in *. simpl.
  split; [exact E|]. split; [lia|].
  split; [rewrite asum_aset by assumption; lia|].
  split; [apply nodup_aset; assumption|].
  split; [apply all_nonneg_aset; [assumption|lia]|].
  split; [apply aget_aset_same|].
  split; [|reflexivity].
  intros c Hc. apply aget_aset_other. congruence.
Qed.

(** an operation that leaves the pool and the configuration alone *)
Lemma Kmono_same p p' : p_r1 p' = p_r1 p -> p_r2 p' = p_r2 p -> p_S p' = p_S p -> Kmono p p'.
Proof. unfold Kmono. intros -> -> -> _. lia. Qed.

Lemma ep_add_initial_spec p c a1 a2 p' o e :
  ep_add_initial p c a1 a2 = Ok (p', o, e) -> PairInv p ->
  PairInv p' /\ Kmono p p' /\ ExMono p p'.
Proof.
  unfold ep_add_initial. intros H Hinv.
  destruct (match p_adder p with Some ad => c =? ad | None => true end); [|discriminate].
  destruct ((0 <? a1) && (0 <? a2)) eqn:Ea; [|discriminate].
  destruct (negb (is_state_active (p_state p))); [|discriminate].
  destruct (p_S p =? 0) eqn:ES; [|discriminate].
  cbv zeta in H.
  destruct (MINIMUM_LIQUIDITY <? Z.min a1 a2) eqn:EL; [|discriminate].
  inversion H; subst; clear H.
  apply andb_prop in Ea. destruct Ea as [Ea1 Ea2]. apply Z.ltb_lt in Ea1, Ea2, EL.
  apply Z.eqb_eq in ES. destruct (i_zero _ Hinv ES) as [Z1 Z2].
  pose proof min_liq_pos as HML.
  destruct Hinv as [b1 b2 iS ind inn ipos izero iS0 ifee icut].
  pose proof (lp_credit_spec p SELF MINIMUM_LIQUIDITY ltac:(lia) ind inn) as Hc1.
  cbv zeta in Hc1. destruct Hc1 as (S1 & ND1 & NN1 & G1 & O1).
  set (pa := lp_credit p SELF MINIMUM_LIQUIDITY) in *.
  set (pb := set_pool pa (p_r1 p + a1) (p_r2 p + a2) (Z.min a1 a2)) in *.
  set (pc := add_bal (add_bal pb T1 a1) T2 a2) in *.
  assert (Hlpc : p_lp pc = p_lp pa) by reflexivity.
  pose proof (lp_credit_spec pc c (Z.min a1 a2 - MINIMUM_LIQUIDITY) ltac:(lia)) as Hc2.
  rewrite Hlpc in Hc2. specialize (Hc2 ND1 NN1). cbv zeta in Hc2.
  destruct Hc2 as (S2 & ND2 & NN2 & G2 & O2).
  set (pd := lp_credit pc c (Z.min a1 a2 - MINIMUM_LIQUIDITY)) in *.
  assert (GS : MINIMUM_LIQUIDITY <= lp_of pd SELF).
  { destruct (Z.eq_dec c SELF) as [->|Hne].
    - rewrite G2. change (lp_of pc SELF) with (lp_of pa SELF). rewrite G1.
      pose proof (aget_nonneg _ SELF inn). unfold lp_of. lia.
    - rewrite O2 by congruence. change (lp_of pc SELF) with (lp_of pa SELF). rewrite G1.
      pose proof (aget_nonneg _ SELF inn). unfold lp_of. lia. }
  assert (SS : asum (p_lp pd) = Z.min a1 a2) by (rewrite S2, S1; lia).
  split; [|split].
  - constructor.
    + simpl. lia.
    + simpl. lia.
    + change (p_lp (set_state pd ST_PartialActive)) with (p_lp pd). rewrite SS. reflexivity.
    + exact ND2.
    + exact NN2.
    + intros _. split; [simpl; lia|]. split; [simpl; lia|]. exact GS.
    + simpl. lia.
    + simpl. lia.
    + exact ifee.
    + exact icut.
  - unfold Kmono. lia.
  - unfold ExMono, ex1, ex2. simpl. lia.
Qed.

Lemma ep_add_spec p c a1 a2 m1 m2 p' o e :
  ep_add p c a1 a2 m1 m2 = Ok (p', o, e) -> PairInv p ->
  PairInv p' /\ Kmono p p' /\ ExMono p p'.
Proof.
  unfold ep_add. intros H Hinv.
  destruct ((0 <? m1) && (0 <? m2)) eqn:Em; [|discriminate].
  destruct ((0 <? a1) && (0 <? a2)) eqn:Ea; [|discriminate].
  destruct (is_state_active (p_state p)); [|discriminate].
  destruct (match p_adder p with Some _ => negb (p_S p =? 0) | None => true end); [|discriminate].
  apply bind_ok in H. destruct H as ([o1 o2] & Hopt & H).
  apply bind_ok in H. destruct H as ([p1 liq] & Hpool & H).
  destruct (k_check p p1) eqn:Ek; [|discriminate].
  inversion H; subst; clear H.
  apply andb_prop in Ea. destruct Ea as [Ea1 Ea2]. apply Z.ltb_lt in Ea1, Ea2.
  apply andb_prop in Em. destruct Em as [Em1 Em2]. apply Z.ltb_lt in Em1, Em2.
  pose proof min_liq_pos as HML.
  pose proof Hinv as [b1 b2 iS ind inn ipos izero iS0 ifee icut].
  destruct (inv_r_nonneg _ Hinv) as [N1 N2].
  (* used amounts are positive (they meet the positive minimums) and within the payment *)
  assert (Ho : 0 < o1 /\ 0 < o2).
  { unfold set_optimal in Hopt. destruct (p_S p =? 0).
    - inversion Hopt; subst. lia.
    - apply bind_ok in Hopt. destruct Hopt as (q2 & Hq2 & Hopt).
      apply bind_ok in Hopt. destruct Hopt as ([x1 x2] & Hx & Hopt).
      destruct (m1 <=? x1) eqn:M1; [|discriminate]. destruct (m2 <=? x2) eqn:M2; [|discriminate].
      inversion Hopt; subst. apply Z.leb_le in M1, M2. lia. }
  destruct Ho as [Ho1 Ho2].
  destruct (p_S p =? 0) eqn:ES.
  - (* first liquidity through addLiquidity *)
    apply Z.eqb_eq in ES. destruct (izero ES) as [Z1 Z2].
    cbv zeta in Hpool.
    destruct (MINIMUM_LIQUIDITY <? Z.min o1 o2) eqn:EL; [|discriminate].
    inversion Hpool; subst; clear Hpool. apply Z.ltb_lt in EL.
    pose proof (lp_credit_spec p SELF MINIMUM_LIQUIDITY ltac:(lia) ind inn) as Hc1.
    cbv zeta in Hc1. destruct Hc1 as (S1 & ND1 & NN1 & G1 & O1).
    set (pa := lp_credit p SELF MINIMUM_LIQUIDITY) in *.
    set (pb := set_pool pa (p_r1 p + o1) (p_r2 p + o2) (Z.min o1 o2)) in *.
    set (pc := add_bal (add_bal pb T1 o1) T2 o2) in *.
    assert (Hlpc : p_lp pc = p_lp pa) by reflexivity.
    pose proof (lp_credit_spec pc c (Z.min o1 o2 - MINIMUM_LIQUIDITY) ltac:(lia)) as Hc2.
    rewrite Hlpc in Hc2. specialize (Hc2 ND1 NN1). cbv zeta in Hc2.
    destruct Hc2 as (S2 & ND2 & NN2 & G2 & O2).
    set (pd := lp_credit pc c (Z.min o1 o2 - MINIMUM_LIQUIDITY)) in *.
    assert (GS : MINIMUM_LIQUIDITY <= lp_of pd SELF).
    { destruct (Z.eq_dec c SELF) as [->|Hne].
      - rewrite G2. change (lp_of pc SELF) with (lp_of pa SELF). rewrite G1.
        pose proof (aget_nonneg _ SELF inn). unfold lp_of. lia.
      - rewrite O2 by congruence. change (lp_of pc SELF) with (lp_of pa SELF). rewrite G1.
        pose proof (aget_nonneg _ SELF inn). unfold lp_of. lia. }
    assert (SS : asum (p_lp pd) = Z.min o1 o2) by (rewrite S2, S1; lia).
    split; [|split].
    + constructor.
      * simpl. lia.
      * simpl. lia.
      * change (p_S pd) with (Z.min o1 o2). rewrite SS. reflexivity.
      * exact ND2.
      * exact NN2.
      * intros _. split; [simpl; lia|]. split; [simpl; lia|]. exact GS.
      * simpl. lia.
      * simpl. lia.
      * exact ifee.
      * exact icut.
    + unfold Kmono. lia.
    + unfold ExMono, ex1, ex2. simpl. lia.
  - (* pro-rata mint *)
    apply Z.eqb_neq in ES. assert (HS : 0 < p_S p) by lia.
    destruct (ipos HS) as (P1 & P2 & PL).
    apply bind_ok in Hpool. destruct Hpool as (l1 & Hl1 & Hpool).
    apply bind_ok in Hpool. destruct Hpool as (l2 & Hl2 & Hpool).
    cbv zeta in Hpool.
    destruct (0 <? Z.min l1 l2) eqn:EL; [|discriminate].
    inversion Hpool; subst; clear Hpool. apply Z.ltb_lt in EL.
    apply div_chk_ok in Hl1, Hl2. destruct Hl1 as [_ ->]. destruct Hl2 as [_ ->].
    pose proof (add_KS o1 o2 (p_r1 p) (p_r2 p) (p_S p) P1 P2 HS ltac:(lia) ltac:(lia)) as HK.
    cbv zeta in HK.
    set (L := Z.min (o1 * p_S p / p_r1 p) (o2 * p_S p / p_r2 p)) in *. clearbody L.
    set (pb := set_pool p (p_r1 p + o1) (p_r2 p + o2) (p_S p + L)) in *.
    set (pc := add_bal (add_bal pb T1 o1) T2 o2) in *.
    assert (Hlpc : p_lp pc = p_lp p) by reflexivity.
    pose proof (lp_credit_spec pc c L ltac:(lia)) as Hc2.
    rewrite Hlpc in Hc2. specialize (Hc2 ind inn). cbv zeta in Hc2.
    destruct Hc2 as (S2 & ND2 & NN2 & G2 & O2).
    set (pd := lp_credit pc c L) in *.
    assert (GS : MINIMUM_LIQUIDITY <= lp_of pd SELF).
    { destruct (Z.eq_dec c SELF) as [->|Hne].
      - rewrite G2. change (lp_of pc SELF) with (lp_of p SELF). lia.
      - rewrite O2 by congruence. change (lp_of pc SELF) with (lp_of p SELF). lia. }
    split; [|split].
    + constructor.
      * simpl. lia.
      * simpl. lia.
      * change (p_S pd) with (p_S p + L). rewrite S2. lia.
      * exact ND2.
      * exact NN2.
      * intros _. split; [simpl; lia|]. split; [simpl; lia|]. exact GS.
      * simpl. lia.
      * simpl. lia.
      * exact ifee.
      * exact icut.
    + unfold Kmono. intros _. simpl. exact HK.
    + unfold ExMono, ex1, ex2. simpl. lia.
Qed.

Lemma pool_remove_spec p lp m1 m2 p' x1 x2 :
  pool_remove p lp m1 m2 = Ok (p', x1, x2) -> 0 < lp ->
  0 < p_S p /\ lp + MINIMUM_LIQUIDITY <= p_S p /\
  x1 = lp * p_r1 p / p_S p /\ x2 = lp * p_r2 p / p_S p /\
  0 < x1 < p_r1 p /\ 0 < x2 < p_r2 p /\ m1 <= x1 /\ m2 <= x2 /\
  p' = set_pool p (p_r1 p - x1) (p_r2 p - x2) (p_S p - lp).
Proof.
  unfold pool_remove. intros H Hlp.
  destruct (lp + MINIMUM_LIQUIDITY <=? p_S p) eqn:E0; [|discriminate].
  apply bind_ok in H. destruct H as (y1 & Hy1 & H).
  destruct (0 <? y1) eqn:E1; [|discriminate]. destruct (m1 <=? y1) eqn:E2; [|discriminate].
  destruct (y1 <? p_r1 p) eqn:E3; [|discriminate].
  apply bind_ok in H. destruct H as (y2 & Hy2 & H).
  destruct (0 <? y2) eqn:E4; [|discriminate]. destruct (m2 <=? y2) eqn:E5; [|discriminate].
  destruct (y2 <? p_r2 p) eqn:E6; [|discriminate].
  apply bind_ok in H. destruct H as (s' & Hs & H).
  apply bind_ok in H. destruct H as (r1' & Hr1 & H).
  apply bind_ok in H. destruct H as (r2' & Hr2 & H).
  inversion H; subst; clear H.
  apply Z.leb_le in E0, E2, E5. apply Z.ltb_lt in E1, E3, E4, E6.
  apply div_chk_ok in Hy1, Hy2. destruct Hy1 as [_ ->]. destruct Hy2 as [_ ->].
  apply sub_chk_ok in Hs, Hr1, Hr2. destruct Hs as [_ ->]. destruct Hr1 as [_ ->]. destruct Hr2 as [_ ->].
  pose proof min_liq_pos. repeat split; try lia.
Qed.

Lemma ep_remove_spec p c lp m1 m2 p' o e :
  ep_remove p c lp m1 m2 = Ok (p', o, e) -> PairInv p ->
  PairInv p' /\ Kmono p p' /\ ExMono p p'.
Proof.
  unfold ep_remove. intros H Hinv.
  destruct ((0 <? m1) && (0 <? m2)) eqn:Em; [|discriminate].
  destruct (is_state_active (p_state p)); [|discriminate].
  destruct (0 <? lp) eqn:Elp; [|discriminate]. apply Z.ltb_lt in Elp.
  apply bind_ok in H. destruct H as (p0 & Hdeb & H).
  apply bind_ok in H. destruct H as ([[p1 x1] x2] & Hrem & H).
  destruct (p_r1 p1 * p_r2 p1 <=? p_r1 p * p_r2 p); [|discriminate].
  apply bind_ok in H. destruct H as (p2 & Hs1 & H).
  apply bind_ok in H. destruct H as (p3 & Hs2 & H).
  inversion H; subst; clear H.
  pose proof Hinv as [b1 b2 iS ind inn ipos izero iS0 ifee icut].
  apply lp_debit_spec in Hdeb; auto; try lia.
  destruct Hdeb as (Hne & Hle & SD & NDD & NND & GD & OD & Ep0).
  apply pool_remove_spec in Hrem; auto.
  rewrite Ep0 in Hrem. simpl in Hrem.
  destruct Hrem as (HS & HSl & -> & -> & Hx1 & Hx2 & Hm1 & Hm2 & ->).
  destruct (ipos HS) as (P1 & P2 & PL).
  pose proof (remove_KS lp (p_r1 p) (p_r2 p) (p_S p) P1 P2 ltac:(pose proof min_liq_pos; lia)) as HK.
  set (x1 := lp * p_r1 p / p_S p) in *. set (x2 := lp * p_r2 p / p_S p) in *. clearbody x1 x2.
  apply sub_bal_spec in Hs1. simpl in Hs1.
  destruct Hs1 as (Hb1 & C1 & L1 & R11 & R12 & B11 & B12).
  apply sub_bal_spec in Hs2. simpl in Hs2.
  destruct Hs2 as (Hb2 & C2 & L2 & R21 & R22 & B21 & B22).
  unfold set_pool, set_lp in *. simpl in *.
  destruct C1 as (c11 & c12 & c13 & c14 & c15 & c16 & c17 & c18).
  destruct C2 as (c21 & c22 & c23 & c24 & c25 & c26 & c27 & c28).
  destruct L1 as (l11 & l12). destruct L2 as (l21 & l22).
  pose proof min_liq_pos as HML.
  split; [|split].
  - constructor.
    + lia.
    + lia.
    + rewrite l21, l11, l22, l12. simpl. lia.
    + rewrite l22, l12. exact NDD.
    + rewrite l22, l12. exact NND.
    + intros _. split; [lia|]. split; [lia|].
      unfold lp_of in *. rewrite l22, l12. rewrite OD by congruence. exact PL.
    + rewrite l21, l11. simpl. lia.
    + rewrite l21, l11. simpl. lia.
    + rewrite c22, c23, c12, c13. exact ifee.
    + unfold cut_ok in *. rewrite c25, c15. exact icut.
  - unfold Kmono. intros _. rewrite l21, l11, R21, R22, R11, R12. simpl. exact HK.
  - unfold ExMono, ex1, ex2. lia.
Qed.

Lemma ep_remove_buyback_spec p c lp tok p' o e :
  ep_remove_buyback p c lp tok = Ok (p', o, e) -> PairInv p ->
  PairInv p' /\ Kmono p p' /\ ExMono p p'.
Proof.
  unfold ep_remove_buyback. intros H Hinv.
  destruct (existsb _ _); [|discriminate].
  destruct (0 <? lp) eqn:Elp; [|discriminate]. apply Z.ltb_lt in Elp.
  apply bind_ok in H. destruct H as (p0 & Hdeb & H).
  apply bind_ok in H. destruct H as ([[p1 x1] x2] & Hrem & H).
  apply bind_ok in H. destruct H as ([p2 e2] & Hf1 & H).
  apply bind_ok in H. destruct H as ([p3 e3] & Hf2 & H).
  inversion H; subst; clear H.
  pose proof Hinv as [b1 b2 iS ind inn ipos izero iS0 ifee icut].
  apply lp_debit_spec in Hdeb; auto; try lia.
  destruct Hdeb as (Hne & Hle & SD & NDD & NND & GD & OD & Ep0).
  apply pool_remove_spec in Hrem; auto.
  rewrite Ep0 in Hrem. simpl in Hrem.
  destruct Hrem as (HS & HSl & -> & -> & Hx1 & Hx2 & Hm1 & Hm2 & Ep1).
  destruct (ipos HS) as (P1 & P2 & PL).
  pose proof (remove_KS lp (p_r1 p) (p_r2 p) (p_S p) P1 P2 ltac:(pose proof min_liq_pos; lia)) as HK.
  set (x1 := lp * p_r1 p / p_S p) in *. set (x2 := lp * p_r2 p / p_S p) in *. clearbody x1 x2.
  assert (F1 : p_r1 p1 = p_r1 p - x1 /\ p_r2 p1 = p_r2 p - x2 /\ p_S p1 = p_S p - lp /\
               p_bal1 p1 = p_bal1 p /\ p_bal2 p1 = p_bal2 p /\ p_lp p1 = p_lp p0 /\
               p_fee p1 = p_fee p /\ p_sfee p1 = p_sfee p /\ p_cut p1 = p_cut p).
  { rewrite Ep1, Ep0. simpl. repeat split; reflexivity. }
  destruct F1 as (A1 & A2 & A3 & A4 & A5 & A6 & A7 & A8 & A9).
  change T1 with (tok_in true) in Hf1.
  apply send_fee_slice_spec in Hf1; try (unfold rin, rout; lia).
  destruct Hf1 as [C2 L2 X2i X2o R2i R2o K2].
  change T2 with (tok_in false) in Hf2.
  apply send_fee_slice_spec in Hf2; try (unfold rin, rout in *; lia).
  destruct Hf2 as [C3 L3 X3i X3o R3i R3o K3].
  unfold rin, rout, ex_in, ex_out, ex1, ex2 in *.
  destruct C2 as (c21 & c22 & c23 & c24 & c25 & c26 & c27 & c28).
  destruct C3 as (c31 & c32 & c33 & c34 & c35 & c36 & c37 & c38).
  destruct L2 as (l21 & l22). destruct L3 as (l31 & l32).
  pose proof min_liq_pos as HML.
  split; [|split].
  - constructor.
    + lia.
    + lia.
    + rewrite l31, l21, l32, l22, A3, A6. lia.
    + rewrite l32, l22, A6. exact NDD.
    + rewrite l32, l22, A6. exact NND.
    + intros _. split; [lia|]. split; [lia|].
      unfold lp_of in *. rewrite l32, l22, A6. rewrite OD by congruence. exact PL.
    + rewrite l31, l21, A3. lia.
    + rewrite l31, l21, A3. lia.
    + rewrite c32, c33, c22, c23, A7, A8. exact ifee.
    + unfold cut_ok in *. rewrite c35, c25, A9. exact icut.
  - unfold Kmono. intros _. rewrite l31, l21, A3.
    (* K after the two buy-back swaps >= K right after the removal *)
    assert (KK : (p_r1 p - x1) * (p_r2 p - x2) <= p_r1 p' * p_r2 p') by nia.
    assert (SS : 0 <= (p_S p) * (p_S p)) by nia.
    nia.
  - unfold ExMono, ex1, ex2. lia.
Qed.

(** configuration-only endpoints *)
Lemma cfg_only_inv p p' :
  PairInv p ->
  p_r1 p' = p_r1 p -> p_r2 p' = p_r2 p -> p_S p' = p_S p -> p_bal1 p' = p_bal1 p ->
  p_bal2 p' = p_bal2 p -> p_lp p' = p_lp p ->
  (0 <= p_sfee p' <= p_fee p' /\ p_fee p' <= PAIR_MAX_FEE_PERCENTAGE) -> cut_ok p' ->
  PairInv p' /\ Kmono p p' /\ ExMono p p'.
Proof.
  intros [] E1 E2 E3 E4 E5 E6 Hf Hc. split; [|split].
  - constructor; unfold lp_of in *; rewrite ?E1, ?E2, ?E3, ?E4, ?E5, ?E6; auto.
  - apply Kmono_same; auto.
  - unfold ExMono, ex1, ex2. lia.
Qed.

Lemma step_spec p op p' o e :
  step p op = Ok (p', o, e) -> PairInv p -> PairInv p' /\ Kmono p p' /\ ExMono p p'.
Proof.
  intros H Hinv. destruct op; simpl in H.
  - eapply ep_add_initial_spec; eauto.
  - eapply ep_add_spec; eauto.
  - eapply ep_remove_spec; eauto.
  - apply ep_swap_in_spec in H; tauto.
  - apply ep_swap_out_spec in H; tauto.
  - apply ep_swap_no_fee_spec in H; tauto.
  - eapply ep_remove_buyback_spec; eauto.
  - (* SetFee *) unfold ep_set_fee in H.
    destruct (has_owner_perm c); [|discriminate].
    destruct ((0 <=? sf) && (sf <=? f) && (f <=? PAIR_MAX_FEE_PERCENTAGE)) eqn:E; [|discriminate].
    inversion H; subst; clear H.
    apply andb_prop in E. destruct E as [E E3]. apply andb_prop in E. destruct E as [E1 E2].
    apply Z.leb_le in E1, E2, E3.
    apply cfg_only_inv; auto; simpl; try lia. apply (i_cut _ Hinv).
  - (* SetFeeOn *) unfold ep_set_fee_on in H.
    destruct (has_owner_perm c); [|discriminate].
    destruct en.
    + destruct (negb _); [|discriminate]. inversion H; subst; clear H.
      apply cfg_only_inv; auto. apply (i_fee _ Hinv). apply (i_cut _ Hinv).
    + destruct (existsb (fun d => fst d =? a) (p_dests p)); [|discriminate].
      destruct (existsb (pair_eqb (a, tok)) (p_dests p)); [|discriminate].
      inversion H; subst; clear H.
      apply cfg_only_inv; auto. apply (i_fee _ Hinv). apply (i_cut _ Hinv).
  - (* SetCollector *) unfold ep_set_collector in H.
    destruct (has_owner_perm c); [|discriminate].
    destruct ((0 <? cut) && (cut <=? M)) eqn:E; [|discriminate].
    inversion H; subst; clear H.
    apply andb_prop in E. destruct E as [E1 E2]. apply Z.ltb_lt in E1. apply Z.leb_le in E2.
    apply cfg_only_inv; auto. apply (i_fee _ Hinv).
    unfold cut_ok. simpl. intros x Hx. inversion Hx; subst. lia.
  - (* SetState *) unfold ep_set_state in H.
    destruct (has_owner_perm c); [|discriminate].
    destruct ((0 <=? st) && (st <? ST_COUNT)); [|discriminate].
    inversion H; subst; clear H.
    apply cfg_only_inv; auto. apply (i_fee _ Hinv). apply (i_cut _ Hinv).
  - (* WlAdd *) unfold ep_wl_add in H.
    destruct (has_owner_perm c); [|discriminate]. destruct (negb _); [|discriminate].
    inversion H; subst; clear H.
    apply cfg_only_inv; auto. apply (i_fee _ Hinv). apply (i_cut _ Hinv).
  - (* WlRm *) unfold ep_wl_rm in H.
    destruct (has_owner_perm c); [|discriminate]. destruct (existsb _ _); [|discriminate].
    inversion H; subst; clear H.
    apply cfg_only_inv; auto. apply (i_fee _ Hinv). apply (i_cut _ Hinv).
  - (* Trust *) unfold ep_trust in H.
    destruct (has_owner_perm c); [|discriminate]. destruct (negb (ta =? tb)); [|discriminate].
    destruct (negb _); [|discriminate].
    inversion H; subst; clear H.
    apply cfg_only_inv; auto. apply (i_fee _ Hinv). apply (i_cut _ Hinv).
  - (* LpTransfer *) unfold ep_lp_transfer in H.
    destruct (0 <? amt) eqn:Ea; [|discriminate]. apply Z.ltb_lt in Ea.
    apply bind_ok in H. destruct H as (p1 & Hd & H). inversion H; subst; clear H.
    pose proof Hinv as [b1 b2 iS ind inn ipos izero iS0 ifee icut].
    apply lp_debit_spec in Hd; auto; try lia.
    destruct Hd as (Hne & Hle & SD & NDD & NND & GD & OD & Ep1).
    pose proof (lp_credit_spec p1 dst amt ltac:(lia) NDD NND) as Hc. cbv zeta in Hc.
    destruct Hc as (S2 & ND2 & NN2 & G2 & O2).
    assert (F : p_r1 p1 = p_r1 p /\ p_r2 p1 = p_r2 p /\ p_S p1 = p_S p /\ p_bal1 p1 = p_bal1 p /\
                p_bal2 p1 = p_bal2 p /\ p_fee p1 = p_fee p /\ p_sfee p1 = p_sfee p /\ p_cut p1 = p_cut p).
    { rewrite Ep1. simpl. repeat split; reflexivity. }
    destruct F as (F1 & F2 & F3 & F4 & F5 & F6 & F7 & F8).
    split; [|split].
    + constructor; simpl; rewrite ?F1, ?F2, ?F3, ?F4, ?F5, ?F6, ?F7; auto.
      * change (asum (p_lp (lp_credit p1 dst amt))) with (asum (aset (p_lp p1) dst (lp_of p1 dst + amt))).
        unfold lp_credit, set_lp in S2. simpl in S2. rewrite S2, SD. lia.
      * intros HS. destruct (ipos HS) as (P1 & P2 & PL). split; [auto|split; [auto|]].
        destruct (Z.eq_dec dst SELF) as [->|Hd].
        -- rewrite G2. rewrite OD by congruence. pose proof (aget_nonneg _ SELF inn). lia.
        -- rewrite O2 by congruence. rewrite OD by congruence. exact PL.
      * unfold cut_ok in *. simpl. rewrite F8. exact icut.
    + apply Kmono_same; simpl; auto.
    + unfold ExMono, ex1, ex2. simpl. lia.
  - (* Donate *) unfold ep_donate in H.
    destruct ((0 <? amt) && ((tok =? T1) || (tok =? T2))) eqn:E; [|discriminate].
    inversion H; subst; clear H.
    apply andb_prop in E. destruct E as [E1 _]. apply Z.ltb_lt in E1.
    destruct Hinv. unfold add_bal. destruct (tok =? T1); (split; [|split]);
      try (apply Kmono_same; reflexivity); try (unfold ExMono, ex1, ex2; simpl; lia);
      constructor; simpl; auto; lia.
Qed.

(** ------------------------------------------------------------------ every reachable state *)
Lemma step_total_inv p op : PairInv p -> PairInv (step_total p op).
Proof.
  intros Hinv. unfold step_total. destruct (step p op) as [[[p' o] e]|] eqn:E; [|exact Hinv].
  apply step_spec in E; tauto.
Qed.

Lemma run_inv ops : forall p, PairInv p -> PairInv (run p ops).
Proof.
  induction ops as [|op t IH]; intros p H; simpl; [exact H|].
  apply IH. apply step_total_inv. exact H.
Qed.

Lemma init_inv fee sfee adder :
  0 <= sfee <= fee -> fee <= PAIR_MAX_FEE_PERCENTAGE -> PairInv (init_pair fee sfee adder).
Proof.
  intros H1 H2. constructor; simpl; try lia.
  - constructor.
  - constructor.
  - unfold cut_ok. simpl. discriminate.
Qed.

(** ------------------------------------------------------------------ two-pair world *)
Definition WorldInv (w : world) : Prop := PairInv (w_p w) /\ PairInv (w_q w).

Lemma apply_ext_inv l : forall q q', apply_ext q l = Ok q' -> PairInv q -> PairInv q'.
Proof.
  induction l as [|[[t a] r] tl IH]; intros q q' H Hq; simpl in H.
  - inversion H; subst; assumption.
  - apply bind_ok in H. destruct H as ([[q1 o1] e1] & Hs & H).
    apply ep_swap_no_fee_spec in Hs; auto. eapply IH; eauto. tauto.
Qed.

Lemma wstep_inv w op w' o e : wstep w op = Ok (w', o, e) -> WorldInv w ->
  WorldInv w' /\ Kmono (w_p w) (w_p w') /\ ExMono (w_p w) (w_p w').
Proof.
  unfold wstep. intros H [Hp Hq].
  apply bind_ok in H. destruct H as ([[p' o1] e1] & Hs & H).
  apply bind_ok in H. destruct H as (q' & Hx & H). inversion H; subst; clear H.
  apply step_spec in Hs; auto. destruct Hs as (I & K & X).
  split; [split; simpl; [exact I | eapply apply_ext_inv; eauto] | simpl; tauto].
Qed.

Lemma wrun_inv ops : forall w, WorldInv w -> WorldInv (wrun w ops).
Proof.
  induction ops as [|op t IH]; intros w H; simpl; [exact H|].
  apply IH. unfold wstep_total. destruct (wstep w op) as [[[w' o] e]|] eqn:E; [|exact H].
  apply wstep_inv in E; tauto.
Qed.

(** ------------------------------------------------------------------ C02 corollaries *)
Definition is_swap (op : pop) : bool :=
  match op with SwapIn _ _ _ _ _ | SwapOut _ _ _ _ _ | SwapNoFee _ _ _ _ => true | _ => false end.

Lemma swap_step_lp p op p' o e : is_swap op = true -> step p op = Ok (p', o, e) -> PairInv p ->
  same_lp p p'.
Proof.
  intros Hs H Hinv. destruct op; try discriminate; simpl in H.
  - apply ep_swap_in_spec in H; tauto.
  - apply ep_swap_out_spec in H; tauto.
  - apply ep_swap_no_fee_spec in H; tauto.
Qed.

Lemma swaps_K ops : forall p, forallb is_swap ops = true -> PairInv p -> 0 < p_S p ->
  p_S (run p ops) = p_S p /\ p_r1 p * p_r2 p <= p_r1 (run p ops) * p_r2 (run p ops).
Proof.
  induction ops as [|op t IH]; intros p Hall Hinv HS; simpl.
  - split; lia.
  - simpl in Hall. apply andb_prop in Hall. destruct Hall as [Hop Hall].
    change (fold_left step_total t (step_total p op)) with (run (step_total p op) t).
    unfold step_total. destruct (step p op) as [[[p' o] e]|] eqn:E.
    + pose proof (swap_step_lp _ _ _ _ _ Hop E Hinv) as [LS _].
      apply step_spec in E; auto. destruct E as (I & K & _).
      specialize (K HS). rewrite LS in K.
      destruct (IH p' Hall I ltac:(lia)) as [A B].
      split; [lia|].
      assert (HSS : 0 < p_S p * p_S p) by nia.
      assert (p_r1 p * p_r2 p <= p_r1 p' * p_r2 p').
      { apply (proj2 (Z.mul_le_mono_pos_r _ _ (p_S p * p_S p) HSS)). exact K. }
      lia.
    + apply IH; auto.
Qed.

(** no sequence of swaps (by any callers) takes value out of the pool: the reserves cannot end up
    both no larger with one strictly smaller.  Users' aggregate net gain in each token is at most the
    reserve's loss (balances only exceed reserves by more over time, [ExMono]; fee outflows go to
    burn / collector / trusted pair, never to a user), so no caller set ends with more of one token
    and not less of the other. *)
Lemma swaps_no_profit ops p : forallb is_swap ops = true -> PairInv p -> 0 < p_S p ->
  let p' := run p ops in
  ~ (p_r1 p' <= p_r1 p /\ p_r2 p' <= p_r2 p /\ (p_r1 p' < p_r1 p \/ p_r2 p' < p_r2 p)).
Proof.
  intros Hall Hinv HS p'. destruct (swaps_K ops p Hall Hinv HS) as [A B]. fold p' in A, B.
  pose proof (run_inv ops p Hinv) as I'. fold p' in I'.
  destruct (i_pos _ I' ltac:(lia)) as (Q1 & Q2 & _).
  destruct (i_pos _ Hinv HS) as (P1 & P2 & _).
  intros (H1 & H2 & H3). nia.
Qed.

(** adding liquidity and immediately removing the minted LP never returns more than deposited *)
Lemma add_remove_no_profit p c a1 a2 m1 m2 p1 liq u1 u2 e1 n1 n2 p2 x1 x2 e2 :
  PairInv p -> 0 < p_S p ->
  ep_add p c a1 a2 m1 m2 = Ok (p1, [liq; u1; u2], e1) ->
  ep_remove p1 c liq n1 n2 = Ok (p2, [x1; x2], e2) ->
  x1 <= u1 /\ x2 <= u2.
Proof.
  intros Hinv HS Hadd Hrem.
  unfold ep_add in Hadd.
  destruct ((0 <? m1) && (0 <? m2)); [|discriminate].
  destruct ((0 <? a1) && (0 <? a2)); [|discriminate].
  destruct (is_state_active (p_state p)); [|discriminate].
  destruct (match p_adder p with Some _ => negb (p_S p =? 0) | None => true end); [|discriminate].
  apply bind_ok in Hadd. destruct Hadd as ([o1 o2] & Hopt & Hadd).
  apply bind_ok in Hadd. destruct Hadd as ([pp l] & Hpool & Hadd).
  destruct (k_check p pp); [|discriminate].
  inversion Hadd; subst; clear Hadd.
  destruct (p_S p =? 0) eqn:ES; [apply Z.eqb_eq in ES; lia|].
  destruct (i_pos _ Hinv HS) as (P1 & P2 & PL).
  apply bind_ok in Hpool. destruct Hpool as (l1 & Hl1 & Hpool).
  apply bind_ok in Hpool. destruct Hpool as (l2 & Hl2 & Hpool).
  cbv zeta in Hpool. destruct (0 <? Z.min l1 l2) eqn:EL; [|discriminate].
  inversion Hpool; subst; clear Hpool. apply Z.ltb_lt in EL.
  apply div_chk_ok in Hl1, Hl2. destruct Hl1 as [_ ->]. destruct Hl2 as [_ ->].
  pose proof (div_lo (u1 * p_S p) (p_r1 p) P1) as D1.
  pose proof (div_lo (u2 * p_S p) (p_r2 p) P2) as D2.
  set (L := Z.min (u1 * p_S p / p_r1 p) (u2 * p_S p / p_r2 p)) in *.
  assert (HL1 : L * p_r1 p <= u1 * p_S p) by (unfold L; nia).
  assert (HL2 : L * p_r2 p <= u2 * p_S p) by (unfold L; nia).
  clearbody L.
  (* the removal on the post-add pool *)
  unfold ep_remove in Hrem.
  destruct ((0 <? n1) && (0 <? n2)); [|discriminate].
  destruct (is_state_active _); [|discriminate].
  destruct (0 <? L) eqn:E0; [|discriminate].
  apply bind_ok in Hrem. destruct Hrem as (q0 & Hdeb & Hrem).
  apply bind_ok in Hrem. destruct Hrem as ([[q1 y1] y2] & Hpr & Hrem).
  destruct (p_r1 q1 * p_r2 q1 <=? _); [|discriminate].
  apply bind_ok in Hrem. destruct Hrem as (q2 & _ & Hrem).
  apply bind_ok in Hrem. destruct Hrem as (q3 & _ & Hrem).
  inversion Hrem; subst; clear Hrem.
  unfold lp_debit in Hdeb. destruct (negb (c =? SELF)); [|discriminate].
  apply bind_ok in Hdeb. destruct Hdeb as (b & _ & Hdeb). inversion Hdeb; subst; clear Hdeb.
  apply pool_remove_spec in Hpr; [|lia]. simpl in Hpr.
  destruct Hpr as (_ & _ & -> & -> & _).
  assert (HSL : 0 < p_S p + L) by lia.
  split; apply Z.div_le_upper_bound; try lia; nia.
Qed.
